import LyModel.Sib.OrderLemmas
/-!
Stable insertion into a list sorted by a total preorder given as a Boolean relation: `sins r n l` puts `n` after every
leading element `e` with `r e n` — for a sorted list: after all elements that are `≤ n`, in front of the first greater one.
-/
namespace LyModel.Sib

variable {α : Type}

def sins (r : α → α → Bool) (n : α) (l : List α) : List α :=
  l.takeWhile (fun e => r e n) ++ n :: l.dropWhile (fun e => r e n)

theorem take_length_takeWhile (p : α → Bool) : ∀ l : List α, l.take (l.takeWhile p).length = l.takeWhile p
  | [] => rfl
  | a :: l => by
    by_cases h : p a = true
    · simp [List.takeWhile, h, take_length_takeWhile p l]
    · simp [List.takeWhile, h]

theorem drop_length_takeWhile (p : α → Bool) : ∀ l : List α, l.drop (l.takeWhile p).length = l.dropWhile p
  | [] => rfl
  | a :: l => by
    by_cases h : p a = true
    · simp [List.takeWhile, List.dropWhile, h, drop_length_takeWhile p l]
    · simp [List.takeWhile, List.dropWhile, h]

theorem mem_takeWhile_imp {p : α → Bool} : ∀ {l : List α} {x : α}, x ∈ l.takeWhile p → p x = true
  | [], _, h => by simp at h
  | a :: l, x, h => by
    by_cases ha : p a = true
    · simp only [List.takeWhile, ha] at h
      rcases List.mem_cons.mp h with e | h'
      · subst e; exact ha
      · exact mem_takeWhile_imp h'
    · simp [List.takeWhile, ha] at h

theorem head_dropWhile_not {p : α → Bool} : ∀ {l : List α} {x : α} {t : List α}, l.dropWhile p = x :: t → p x = false
  | [], _, _, h => by simp at h
  | a :: l, x, t, h => by
    by_cases ha : p a = true
    · simp only [List.dropWhile, ha] at h
      exact head_dropWhile_not h
    · simp only [List.dropWhile, ha] at h
      cases h
      simpa using ha

section
variable (r : α → α → Bool)
variable (total : ∀ a b, r a b = true ∨ r b a = true)
variable (trans : ∀ a b c, r a b = true → r b c = true → r a c = true)

include total trans in
theorem sins_sorted (n : α) (l : List α) (h : l.Pairwise (fun a b => r a b = true)) :
    (sins r n l).Pairwise (fun a b => r a b = true) := by
  unfold sins
  have hl := (List.takeWhile_append_dropWhile (p := fun e => r e n) (l := l))
  rw [← hl] at h
  rw [List.pairwise_append] at h ⊢
  obtain ⟨h1, h2, h3⟩ := h
  refine ⟨h1, ?_, ?_⟩
  · rw [List.pairwise_cons]
    refine ⟨?_, h2⟩
    intro d hd
    cases hdw : l.dropWhile (fun e => r e n) with
    | nil => rw [hdw] at hd; cases hd
    | cons x t =>
      have hx : r x n = false := head_dropWhile_not (p := fun e => r e n) hdw
      have hnx : r n x = true := by
        rcases total n x with h' | h'
        · exact h'
        · rw [hx] at h'; cases h'
      rw [hdw] at hd h2
      rcases List.mem_cons.mp hd with e | hd'
      · subst e; exact hnx
      · exact trans _ _ _ hnx ((List.pairwise_cons.mp h2).1 d hd')
  · intro a ha b hb
    rcases List.mem_cons.mp hb with e | hb'
    · subst e; exact mem_takeWhile_imp (p := fun e => r e b) ha
    · exact h3 a ha b hb'

theorem sins_perm (n : α) (l : List α) : (sins r n l).Perm (n :: l) := by
  unfold sins
  have hl := (List.takeWhile_append_dropWhile (p := fun e => r e n) (l := l))
  exact List.perm_middle.trans (by rw [hl])

theorem insAt_eq_sins (n : α) (l : List α) :
    l.take (l.takeWhile (fun e => r e n)).length ++ n :: l.drop (l.takeWhile (fun e => r e n)).length = sins r n l := by
  rw [take_length_takeWhile, drop_length_takeWhile]; rfl

end

end LyModel.Sib
