import LyModel.Sib.AnchorLemmas
/-! `anchorLinear` on a canonical list; the opaque tail; `findSchemaLin`. -/
namespace LyModel.Sib

def modLt (m : Nat) (e : Node) : Bool :=
  match e.sch with
  | none => false
  | some ex => ex.mod < m

theorem skipMods_spec (m : Nat) : ∀ (l : List Node) (p : Nat),
    skipMods m l p = (l.dropWhile (modLt m), p + (l.takeWhile (modLt m)).length)
  | [], p => by simp [skipMods]
  | a :: l, p => by
    cases ha : a.sch with
    | none => simp [skipMods, ha, modLt, List.dropWhile, List.takeWhile]
    | some ax =>
      by_cases h : ax.mod < m
      · simp [skipMods, ha, modLt, List.dropWhile, List.takeWhile, h, skipMods_spec m l (p + 1)]
        omega
      · simp [skipMods, ha, modLt, List.dropWhile, List.takeWhile, h]

theorem stopIdx_dropWhile {p q : Node → Bool} (hq : ∀ e, q e = true → p e = true) : ∀ (l : List Node) (k : Nat),
    stopIdx p (l.dropWhile q) (k + (l.takeWhile q).length) = stopIdx p l k
  | [], k => by simp [stopIdx]
  | a :: l, k => by
    by_cases h : q a = true
    · have := stopIdx_dropWhile hq l (k + 1)
      simp only [List.dropWhile, List.takeWhile, h, stopIdx, hq a h, if_true, List.length_cons]
      rw [← this]
      congr 1
      omega
    · simp [List.dropWhile, List.takeWhile, h]

theorem dropWhile_modLt_ge (S : Schema) (m : Nat) : ∀ (l : List Node), l.Pairwise (fun a b => nle S a b = true) →
    ∀ e ∈ l.dropWhile (modLt m), ∀ ex, e.sch = some ex → m ≤ ex.mod
  | [], _, e, he, _, _ => by simp at he
  | a :: l, hs, e, he, ex, hex => by
    by_cases h : modLt m a = true
    · simp only [List.dropWhile, h] at he
      exact dropWhile_modLt_ge S m l (List.pairwise_cons.mp hs).2 e he ex hex
    · simp only [List.dropWhile, h] at he
      cases ha : a.sch with
      | none =>
        rcases List.mem_cons.mp he with e1 | e1
        · subst e1; rw [ha] at hex; cases hex
        · have := nle_none_left ha ((List.pairwise_cons.mp hs).1 e e1)
          rw [this] at hex; cases hex
      | some ax =>
        have hax : m ≤ ax.mod := by
          simp only [modLt, ha, decide_eq_true_eq] at h
          omega
        rcases List.mem_cons.mp he with e1 | e1
        · subst e1; rw [ha] at hex; cases hex; exact hax
        · have := nle_mod_le ((List.pairwise_cons.mp hs).1 e e1) ha hex
          omega

theorem length_takeWhile_le' (p : Node → Bool) (l : List Node) : (l.takeWhile p).length ≤ l.length :=
  (List.takeWhile_sublist p).length_le

theorem dropWhile_sublist_pairwise {R : Node → Node → Prop} {p : Node → Bool} {l : List Node} (h : l.Pairwise R) :
    (l.dropWhile p).Pairwise R :=
  List.Pairwise.sublist (List.dropWhile_sublist p) h

theorem mem_of_mem_dropWhile {p : Node → Bool} {l : List Node} {e : Node} (h : e ∈ l.dropWhile p) : e ∈ l :=
  (List.dropWhile_sublist p).subset h

/-! ## opaque tail -/

def hasSch (e : Node) : Bool := e.sch.isSome

theorem dropWhile_hasSch_none (S : Schema) : ∀ (l : List Node), l.Pairwise (fun a b => nle S a b = true) →
    ∀ e ∈ l.dropWhile hasSch, e.sch = none
  | [], _, e, he => by simp at he
  | a :: l, hs, e, he => by
    by_cases h : hasSch a = true
    · simp only [List.dropWhile, h] at he
      exact dropWhile_hasSch_none S l (List.pairwise_cons.mp hs).2 e he
    · simp only [List.dropWhile, h] at he
      have ha : a.sch = none := by
        cases hh : a.sch with
        | none => rfl
        | some _ => simp [hasSch, hh] at h
      rcases List.mem_cons.mp he with e1 | e1
      · subst e1; exact ha
      · exact nle_none_left ha ((List.pairwise_cons.mp hs).1 e e1)

theorem takeWhile_isNone_of_all {l : List Node} (h : ∀ e ∈ l, e.sch = none) :
    l.takeWhile (fun n => n.sch.isNone) = l :=
  takeWhile_all (fun x hx => by simp [h x hx])

theorem takeWhile_isNone_reverse_hasSch : ∀ (l : List Node), (∀ e ∈ l, hasSch e = true) →
    l.reverse.takeWhile (fun n => n.sch.isNone) = [] := by
  intro l h
  cases hr : l.reverse with
  | nil => rfl
  | cons a t =>
    have ha : a ∈ l := by
      have : a ∈ l.reverse := by rw [hr]; exact List.mem_cons_self ..
      exact List.mem_reverse.mp this
    have := h a ha
    cases hh : a.sch with
    | none => simp [hasSch, hh] at this
    | some _ => simp [List.takeWhile_cons, hh]

theorem opaqTail_eq (S : Schema) (l : List Node) (hs : l.Pairwise (fun a b => nle S a b = true)) :
    opaqTail l = l.length - (l.takeWhile hasSch).length := by
  unfold opaqTail
  have hl := List.takeWhile_append_dropWhile (p := hasSch) (l := l)
  have hB := dropWhile_hasSch_none S l hs
  have hA : ∀ e ∈ l.takeWhile hasSch, hasSch e = true := fun e he => mem_takeWhile_imp he
  conv => lhs; rw [← hl]
  rw [List.reverse_append, List.takeWhile_append]
  have h1 : ((l.dropWhile hasSch).reverse.takeWhile (fun n => n.sch.isNone)) = (l.dropWhile hasSch).reverse :=
    takeWhile_isNone_of_all (fun e he => hB e (List.mem_reverse.mp he))
  rw [h1]
  simp only [if_true]
  rw [takeWhile_isNone_reverse_hasSch _ hA]
  have : l.length = (l.takeWhile hasSch).length + (l.dropWhile hasSch).length := by
    have := congrArg List.length hl
    simp only [List.length_append] at this
    omega
  simp
  omega

/-- on a canonical list everything in front of the first node of rank > `nx` has a schema -/
theorem takeWhile_rankLe_le_hasSch (nx : SRef) (l : List Node) :
    (l.takeWhile (rankLe nx)).length ≤ (l.takeWhile hasSch).length := by
  induction l with
  | nil => simp
  | cons a l ih =>
    by_cases h : rankLe nx a = true
    · have : hasSch a = true := by
        cases ha : a.sch with
        | none => simp [rankLe, ha] at h
        | some _ => simp [hasSch, ha]
      simp only [List.takeWhile_cons, h, this, if_true, List.length_cons]
      omega
    · simp [List.takeWhile_cons, h]

/-! ## `anchorLinear` -/

theorem posBySchema_of_stopIdx (S : Schema) (l : List Node) (n : Node) (nx : SRef) (hn : n.sch = some nx)
    (hs : l.Pairwise (fun a b => nle S a b = true)) :
    posBySchema l n (stopIdx (rankLe nx) l 0) = (l.takeWhile (rankLe nx)).length := by
  rw [stopIdx_eq]
  by_cases h : (l.takeWhile (rankLe nx)).length < l.length
  · simp [h, posBySchema]
  · simp only [h, if_false, posBySchema, hn, Option.isSome_some, if_true]
    have hle : (l.takeWhile (rankLe nx)).length ≤ l.length := length_takeWhile_le' _ _
    have h1 := takeWhile_rankLe_le_hasSch nx l
    have h2 : (l.takeWhile hasSch).length ≤ l.length := length_takeWhile_le' _ _
    rw [opaqTail_eq S l hs]
    omega

theorem anchorLinear_pos (S : Schema) (cx : Cx) (l : List Node) (n : Node) (nx : SRef) (hn : n.sch = some nx)
    (hs : l.Pairwise (fun a b => nle S a b = true))
    (hrange : ∀ e ∈ l, ∀ x, e.sch = some x → x.idx < cx.nsch x.mod)
    (hnr : nx.idx < cx.nsch nx.mod)
    (hone : cx.top = false → ∀ a ∈ l, ∀ x, a.sch = some x → x.mod = nx.mod) :
    posBySchema l n (anchorLinear cx l n) = (l.takeWhile (rankLe nx)).length := by
  cases l with
  | nil => simp [anchorLinear, hn, posBySchema, opaqTail]
  | cons a t =>
    have hne : cx.nsch nx.mod ≠ 0 := by omega
    have key : anchorLinear cx (a :: t) n = stopIdx (rankLe nx) (a :: t) 0 := by
      simp only [anchorLinear, hn, List.isEmpty_cons, hne, if_false, Bool.false_eq_true]
      cases htop : cx.top with
      | true =>
        simp only [if_true, skipMods_spec]
        have hq : ∀ e, modLt nx.mod e = true → rankLe nx e = true := by
          intro e he
          cases hes : e.sch with
          | none => simp [modLt, hes] at he
          | some ex =>
            simp only [modLt, hes, decide_eq_true_eq] at he
            simp [rankLe, hes, SRef.lt, he]
        have h0 := stopIdx_dropWhile (p := rankLe nx) hq (a :: t) 0
        rw [← h0]
        apply linLoop_spec S nx (cx.nsch nx.mod) hnr
        · exact dropWhile_sublist_pairwise hs
        · exact dropWhile_modLt_ge S nx.mod (a :: t) hs
        · intro e he ex hex hem
          have := hrange e (mem_of_mem_dropWhile he) ex hex
          rw [hem] at this; exact this
        · intro _; exact ⟨Nat.zero_le _, fun _ _ _ _ _ => Nat.zero_le _⟩
        · intro h; cases h
      | false =>
        simp only [Bool.false_eq_true, if_false]
        apply linLoop_spec S nx (cx.nsch nx.mod) hnr
        · exact hs
        · intro e he ex hex
          rw [hone htop e he ex hex]
          exact Nat.le_refl _
        · intro e he ex hex hem
          have := hrange e he ex hex
          rw [hem] at this; exact this
        · intro _; exact ⟨Nat.zero_le _, fun _ _ _ _ _ => Nat.zero_le _⟩
        · intro h; cases h
    rw [key]
    exact posBySchema_of_stopIdx S (a :: t) n nx hn hs

/-! ## `lyd_find_sibling_schema`, linear -/

theorem findSchemaLin_spec (S : Schema) (x : SRef) : ∀ (l : List Node), l.Pairwise (fun a b => nle S a b = true) →
    findSchemaLin x l = l.findIdx? (fun e => e.sch == some x)
  | [], _ => by simp [findSchemaLin]
  | a :: l, hs => by
    cases ha : a.sch with
    | none =>
      have : ∀ e ∈ l, (e.sch == some x) = false := by
        intro e he
        have := nle_none_left ha ((List.pairwise_cons.mp hs).1 e he)
        simp [this]
      have h2 : l.findIdx? (fun e => e.sch == some x) = none := List.findIdx?_eq_none_iff.mpr this
      simp [findSchemaLin, ha, List.findIdx?_cons, h2]
    | some y =>
      by_cases h : y = x
      · subst h; simp [findSchemaLin, ha, List.findIdx?_cons]
      · have h' : ¬ (some y = some x) := by simpa using h
        simp only [findSchemaLin, ha, h, if_false, List.findIdx?_cons, beq_iff_eq, h']
        rw [findSchemaLin_spec S x l (List.pairwise_cons.mp hs).2]

end LyModel.Sib
