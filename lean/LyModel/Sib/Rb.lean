import LyModel.Base
/-!
# Sib.Rb (stage 2) — the red-black tree of `tree_data_sorted.c`, insertion only

`rb_insert_node` descends with `comp > 0 → left, else right` (so an equal key goes BEHIND the existing equal ones) and links
a red node; `rb_insert_color` then walks up: uncle red → recolour and continue at the grandparent; otherwise rotate the
inner child outwards, colour parent black / grandparent red and rotate the grandparent; finally the root is black.
`ins` does the same bottom-up (the fix-up of a level is applied when the recursion returns to the grandparent), with the
same case split, so the shapes coincide with the C code (checked by the white-box harness, op `rb`).
-/
namespace LyModel.Sib.Rb

inductive Color where
  | red | black
  deriving DecidableEq, Repr

inductive T (α : Type) where
  | nil
  | node (c : Color) (l : T α) (d : α) (r : T α)
  deriving Repr

variable {α : Type}

def inorder : T α → List α
  | .nil => []
  | .node _ l d r => inorder l ++ d :: inorder r

def isRed : T α → Bool
  | .node .red _ _ _ => true
  | _ => false

/-- fix-up seen from the grandparent `g` when the insertion went into its LEFT child -/
def fixL : T α → T α
  | .node gc (.node .red (.node .red a x b) p c) g u =>
    -- parent `p` red with red outer child `x`
    match u with
    | .node .red ul ud ur => .node .red (.node .black (.node .red a x b) p c) g (.node .black ul ud ur)
    | _ => .node .black (.node .red a x b) p (.node .red c g u)
  | .node gc (.node .red a p (.node .red b x c)) g u =>
    -- parent `p` red with red inner child `x`
    match u with
    | .node .red ul ud ur => .node .red (.node .black a p (.node .red b x c)) g (.node .black ul ud ur)
    | _ => .node .black (.node .red a p b) x (.node .red c g u)
  | t => t

/-- mirror image: the insertion went into the RIGHT child -/
def fixR : T α → T α
  | .node gc u g (.node .red c p (.node .red b x a)) =>
    match u with
    | .node .red ul ud ur => .node .red (.node .black ul ud ur) g (.node .black c p (.node .red b x a))
    | _ => .node .black (.node .red u g c) p (.node .red b x a)
  | .node gc u g (.node .red (.node .red c x b) p a) =>
    match u with
    | .node .red ul ud ur => .node .red (.node .black ul ud ur) g (.node .black (.node .red c x b) p a)
    | _ => .node .black (.node .red u g c) x (.node .red b p a)
  | t => t

/-- `gt d x` = `rb_compare(d, x) > 0` -/
def ins (gt : α → α → Bool) (x : α) : T α → T α
  | .nil => .node .red .nil x .nil
  | .node c l d r => if gt d x then fixL (.node c (ins gt x l) d r) else fixR (.node c l d (ins gt x r))

def blacken : T α → T α
  | .node _ l d r => .node .black l d r
  | .nil => .nil

/-- `rb_insert_node` + `rb_insert_color` -/
def insert (gt : α → α → Bool) (x : α) (t : T α) : T α := blacken (ins gt x t)

/-- pre-order shape: `R<key>` / `B<key>` / `.` -/
def shape (f : α → String) : T α → List String
  | .nil => ["."]
  | .node c l d r => ((match c with | .red => "R" | .black => "B") ++ f d) :: (shape f l ++ shape f r)

end LyModel.Sib.Rb
