import LyModel.Sib.HtDelLemmas
import LyModel.Sib.InsertPosLemmas
/-! The invariant is preserved by linking a node at a position that keeps the order, and by unlinking. -/
namespace LyModel.Sib

/-! ## building the table from scratch -/

theorem htBuild_eq (S : Schema) : ∀ (l : List Node) (prev : Option Node) (acc : List Rec),
    (l.map (·.id)).Nodup → (∀ m ∈ l, ∀ k, (k, m.id) ∉ acc) →
    htBuildAux S (hkeyOf S) prev l acc = acc ++ htContentAux S prev l
  | [], _, acc, _, _ => by simp [htBuildAux, htContentAux]
  | n :: rest, prev, acc, hnd, hacc => by
    rw [List.map_cons, List.nodup_cons] at hnd
    have hrest : ∀ m ∈ rest, m.id ≠ n.id := fun m hm e => hnd.1 (List.mem_map.mpr ⟨m, hm, e⟩)
    rw [htContentAux_cons]
    cases hn : n.sch with
    | none =>
      have hk : hkeyOf S n = none := by simp [hkeyOf, hn]
      have hr : recsOf S prev n = [] := by simp [recsOf, hn]
      simp only [htBuildAux, hk, hr, List.nil_append]
      exact htBuild_eq S rest (some n) acc hnd.2 (fun m hm => hacc m (List.mem_cons_of_mem _ hm))
    | some x =>
      have hnacc : ∀ k, (k, n.id) ∉ acc := hacc n (List.mem_cons_self ..)
      -- one step of the loop appends exactly the records of `n`
      have hstep : ∀ hk, hkeyOf S n = some hk →
          (htAdd S acc prev n rest.head? hk true).1 = acc ++ recsOf S prev n := by
        intro hk hhk
        cases hl : (S x).listLike with
        | false =>
          have : hk = HKey.sch x := by simp [hkeyOf, hn, hl] at hhk; exact hhk.symm
          subst this
          simp [htAdd, hn, hl, recsOf]
        | true =>
          have : hk = HKey.inst x n.key := by simp [hkeyOf, hn, hl] at hhk; exact hhk.symm
          subst this
          cases hB : sameSch prev n with
          | true => simp [htAdd, hn, hl, hB, recsOf]
          | false =>
            have hnm : (HKey.sch x, n.id) ∉ acc ++ [(HKey.inst x n.key, n.id)] := by
              intro hm
              rcases List.mem_append.mp hm with h1 | h1
              · exact hnacc _ h1
              · simp at h1
            unfold htAdd
            rw [hn]
            simp [hl, hB, hnm, recsOf, hn]
      cases hk : hkeyOf S n with
      | none => simp [hkeyOf, hn] at hk; split at hk <;> cases hk
      | some k =>
        simp only [htBuildAux, hk, hstep k hk]
        rw [htBuild_eq S rest (some n) (acc ++ recsOf S prev n) hnd.2]
        · simp [List.append_assoc]
        · intro m hm k' hmem
          rcases List.mem_append.mp hmem with h1 | h1
          · exact hacc m (List.mem_cons_of_mem _ hm) k' h1
          · have : ∃ m' ∈ [n], m'.id = ((k', m.id) : Rec).2 := by
              apply mem_content_id S [n] prev
              rw [htContentAux_cons]
              simp [htContentAux, h1]
            obtain ⟨m', hm', e⟩ := this
            simp only [List.mem_singleton] at hm'
            subst hm'
            exact hrest m hm e.symm

theorem htBuild_content (S : Schema) (l : List Node) (hnd : (l.map (·.id)).Nodup) :
    htBuildAux S (hkeyOf S) none l [] = htContent S l := by
  rw [htBuild_eq S l none [] hnd (fun _ _ _ h => by cases h)]
  simp [htContent]

/-! ## order helpers -/

theorem sch_squeeze (S : Schema) {p n h : Node} (h1 : nle S p n = true) (h2 : nle S n h = true) (e : p.sch = h.sch) :
    p.sch = n.sch := by
  cases hp : p.sch with
  | none => rw [nle_none_left hp h1]
  | some y =>
    have hh : h.sch = some y := by rw [← e, hp]
    cases hn : n.sch with
    | none =>
      have := nle_none_left hn h2
      rw [hh] at this; cases this
    | some z =>
      by_cases hzy : y = z
      · rw [hzy]
      · exfalso
        have hzy' : ¬ z = y := fun e' => hzy e'.symm
        rw [nle_some_some hp hn] at h1
        rw [nle_some_some hn hh] at h2
        simp only [hzy, hzy', if_false] at h1 h2
        have := SRef.lt_asymm h1
        rw [this] at h2; cases h2

theorem hloc_of_sorted (S : Schema) (a b : List Node) (n : Node)
    (hs : (a ++ n :: b).Pairwise (fun x y => nle S x y = true)) :
    ∀ h, b.head? = some h → sameSch a.getLast? h = true → sameSch a.getLast? n = true := by
  intro h hh hsame
  cases hp : a.getLast? with
  | none => rw [hp] at hsame; simp [sameSch] at hsame
  | some p =>
    rw [hp] at hsame
    have hpa : p ∈ a := List.mem_of_getLast? hp
    have hhb : h ∈ b := List.mem_of_head? hh
    rw [List.pairwise_append] at hs
    have h1 : nle S p n = true := hs.2.2 p hpa n (List.mem_cons_self ..)
    have h2 : nle S n h = true := (List.pairwise_cons.mp hs.2.1).1 h hhb
    have e : p.sch = h.sch := by simpa [sameSch] using hsame
    have := sch_squeeze S h1 h2 e
    simp [sameSch, this]

theorem content_all_opaque (S : Schema) : ∀ (b : List Node) (q : Option Node), (∀ e ∈ b, e.sch = none) →
    htContentAux S q b = []
  | [], _, _ => by simp [htContentAux]
  | h :: t, q, hb => by
    rw [htContentAux_cons, content_all_opaque S t (some h) (fun e he => hb e (List.mem_cons_of_mem _ he))]
    simp [recsOf, hb h (List.mem_cons_self ..)]

/-- an opaque node contributes nothing to the table and, in a canonical list, is followed by opaque nodes only -/
theorem content_opaque (S : Schema) (a b : List Node) (n : Node) (hn : n.sch = none)
    (hs : (a ++ n :: b).Pairwise (fun x y => nle S x y = true)) :
    htContent S (a ++ n :: b) = htContent S (a ++ b) := by
  have hb : ∀ e ∈ b, e.sch = none := by
    intro e he
    rw [List.pairwise_append] at hs
    exact nle_none_left hn ((List.pairwise_cons.mp hs.2.1).1 e he)
  rw [content_with, content_without, content_all_opaque S b _ hb, content_all_opaque S b _ hb]
  simp [ownRec, firstRec, hn]

/-! ## linking -/

theorem inv_link (S : Schema) (cx : Cx) (a b : List Node) (ht : Option (List Rec)) (n : Node)
    (h : Inv S cx ⟨a ++ b, ht⟩) (hn : NewOk S cx ⟨a ++ b, ht⟩ n)
    (hs : (a ++ n :: b).Pairwise (fun x y => nle S x y = true)) :
    Inv S cx ⟨a ++ n :: b, (insertHash S cx (hkeyOf S) ht a n b).1⟩ := by
  have hmem : ∀ e, e ∈ a ++ n :: b → e = n ∨ e ∈ a ++ b := by
    intro e he
    rcases List.mem_append.mp he with h1 | h1
    · exact Or.inr (List.mem_append_left _ h1)
    · rcases List.mem_cons.mp h1 with h2 | h2
      · exact Or.inl h2
      · exact Or.inr (List.mem_append_right _ h2)
  have hnd : ((a ++ n :: b).map (·.id)).Nodup := by
    have h0 := h.nodup
    simp only [List.map_append, List.map_cons] at h0 ⊢
    rw [List.nodup_append] at h0 ⊢
    refine ⟨h0.1, ?_, ?_⟩
    · rw [List.nodup_cons]
      refine ⟨?_, h0.2.1⟩
      intro hm
      obtain ⟨m, hm1, e⟩ := List.mem_map.mp hm
      exact hn.fresh m (List.mem_append_right _ hm1) e
    · intro i hi j hj
      rcases List.mem_cons.mp hj with e | hj'
      · subst e
        obtain ⟨m, hm1, e⟩ := List.mem_map.mp hi
        intro e'
        exact hn.fresh m (List.mem_append_left _ hm1) (by rw [e, e'])
      · exact h0.2.2 i hi j hj'
  refine ⟨hs, hnd, ?_, ?_, ?_, h.cxwf, ?_, ?_⟩
  · intro e he x hx
    rcases hmem e he with e1 | e1
    · subst e1; exact hn.range x hx
    · exact h.range e e1 x hx
  · intro htop e1 he1 e2 he2 x y hx hy
    rcases hmem e1 he1 with r1 | r1 <;> rcases hmem e2 he2 with r2 | r2
    · subst r1; subst r2; rw [hx] at hy; cases hy; rfl
    · subst r1; exact (hn.oneMod htop e2 r2 y x hy hx).symm
    · subst r2; exact hn.oneMod htop e1 r1 x y hx hy
    · exact h.oneMod htop e1 r1 e2 r2 x y hx hy
  · intro e1 he1 e2 he2 x hx hy hl
    rcases hmem e1 he1 with r1 | r1 <;> rcases hmem e2 he2 with r2 | r2
    · rw [r1, r2]
    · subst r1
      have := hn.single e2 r2 x hy hx
      rw [hl] at this; cases this
    · subst r2
      have := hn.single e1 r1 x hx hy
      rw [hl] at this; cases this
    · exact h.single e1 r1 e2 r2 x hx hy hl
  · intro hnest
    have := h.htTop hnest
    simp only at this
    simp [insertHash, hnest, this]
  · intro recs hrecs
    simp only at hrecs
    cases hnest : cx.nested with
    | false =>
      have := h.htTop hnest
      simp only at this
      simp [insertHash, hnest, this] at hrecs
    | true =>
      cases hsch : n.sch with
      | none =>
        have hk : hkeyOf S n = none := by simp [hkeyOf, hsch]
        simp only [insertHash, hnest, hk, Bool.not_true, Bool.false_eq_true, if_false] at hrecs
        rw [content_opaque S a b n hsch hs]
        exact h.ht recs hrecs
      | some x =>
        cases hk : hkeyOf S n with
        | none => simp [hkeyOf, hsch] at hk; split at hk <;> cases hk
        | some k =>
          cases hht : ht with
          | none =>
            simp only [insertHash, hnest, hk, hsch, hht, Bool.not_true, Bool.false_eq_true, if_false,
              Option.isNone_some] at hrecs
            split at hrecs
            · simp only [Option.some.injEq] at hrecs
              rw [← hrecs, htBuild_content S _ hnd]
            · cases hrecs
          | some r0 =>
            simp only [insertHash, hnest, hk, hsch, hht, Bool.not_true, Bool.false_eq_true, if_false,
              Option.isNone_some, Option.some.injEq] at hrecs
            rw [← hrecs]
            have hp0 : r0.Perm (htContent S (a ++ b)) := h.ht r0 (by simp [hht])
            exact (htAdd_perm S a b n x r0 hsch hp0 (fun m hm => hn.fresh m hm) (hloc_of_sorted S a b n hs) k hk).1

/-! ## unlinking -/

theorem splitAtId_spec : ∀ (l : List Node) (id : Nat) (a : List Node) (n : Node) (b : List Node),
    splitAtId id l = some (a, n, b) → l = a ++ n :: b ∧ n.id = id
  | [], _, _, _, _, h => by simp [splitAtId] at h
  | m :: r, id, a, n, b, h => by
    unfold splitAtId at h
    by_cases hm : (m.id == id) = true
    · simp only [hm, if_true, Option.some.injEq, Prod.mk.injEq] at h
      obtain ⟨h1, h2, h3⟩ := h
      subst h1; subst h2; subst h3
      exact ⟨rfl, by simpa using hm⟩
    · simp only [hm, if_false] at h
      cases hr : splitAtId id r with
      | none => rw [hr] at h; cases h
      | some t =>
        obtain ⟨a', n', b'⟩ := t
        rw [hr] at h
        simp only [Option.some.injEq, Prod.mk.injEq] at h
        obtain ⟨e1, e2⟩ := splitAtId_spec r id a' n' b' hr
        rcases h with ⟨rfl, rfl, rfl⟩
        exact ⟨by rw [e1]; rfl, e2⟩

theorem pairwise_remove {R : Node → Node → Prop} {a b : List Node} {n : Node} (h : (a ++ n :: b).Pairwise R) :
    (a ++ b).Pairwise R := by
  rw [List.pairwise_append] at h ⊢
  exact ⟨h.1, (List.pairwise_cons.mp h.2.1).2, fun x hx y hy => h.2.2 x hx y (List.mem_cons_of_mem _ hy)⟩

theorem inv_unlink_ab (S : Schema) (cx : Cx) (a b : List Node) (n : Node) (ht : Option (List Rec))
    (h : Inv S cx ⟨a ++ n :: b, ht⟩) :
    Inv S cx ⟨a ++ b, unlinkHash S cx ⟨a ++ n :: b, ht⟩ a n b (hkeyOf S n)⟩ := by
  have hsub : ∀ e, e ∈ a ++ b → e ∈ a ++ n :: b := by
    intro e he
    rcases List.mem_append.mp he with h1 | h1
    · exact List.mem_append_left _ h1
    · exact List.mem_append_right _ (List.mem_cons_of_mem _ h1)
  obtain ⟨_, _, hnd', _, _⟩ := nodup_split_ids h.nodup
  refine ⟨pairwise_remove h.sorted, hnd', ?_, ?_, ?_, h.cxwf, ?_, ?_⟩
  · intro e he; exact h.range e (hsub e he)
  · intro htop e1 he1 e2 he2; exact h.oneMod htop e1 (hsub e1 he1) e2 (hsub e2 he2)
  · intro e1 he1 e2 he2; exact h.single e1 (hsub e1 he1) e2 (hsub e2 he2)
  · intro hnest
    have := h.htTop hnest
    simp only at this
    simp [unlinkHash, hnest, this]
  · intro recs hrecs
    simp only at hrecs
    cases hnest : cx.nested with
    | false =>
      have := h.htTop hnest
      simp only at this
      simp [unlinkHash, hnest, this] at hrecs
    | true =>
      cases hsch : n.sch with
      | none =>
        have hk : hkeyOf S n = none := by simp [hkeyOf, hsch]
        simp only [unlinkHash, hnest, hk, Bool.not_true, Bool.false_eq_true, if_false] at hrecs
        rw [← content_opaque S a b n hsch h.sorted]
        exact h.ht recs hrecs
      | some x =>
        cases hk : hkeyOf S n with
        | none => simp [hkeyOf, hsch] at hk; split at hk <;> cases hk
        | some k =>
          cases hht : ht with
          | none => simp [unlinkHash, hnest, hk, hht] at hrecs
          | some r0 =>
            simp only [unlinkHash, hnest, hk, hht, Bool.not_true, Bool.false_eq_true, if_false,
              Option.some.injEq] at hrecs
            rw [← hrecs]
            have hp0 : r0.Perm (htContent S (a ++ n :: b)) := h.ht r0 (by simp [hht])
            exact htDel_perm S a b n x r0 hsch hp0 h.nodup (hloc_of_sorted S a b n h.sorted) k hk

theorem inv_unlinkNode (S : Schema) (cx : Cx) (s : Sibs) (id : Nat) (h : Inv S cx s) :
    Inv S cx (unlinkNode S cx s id) := by
  unfold unlinkNode
  cases hsp : splitAtId id s.nodes with
  | none => exact h
  | some t =>
    obtain ⟨a, n, b⟩ := t
    obtain ⟨e1, _⟩ := splitAtId_spec s.nodes id a n b hsp
    have h' : Inv S cx ⟨a ++ n :: b, s.ht⟩ := by
      have : s = ⟨a ++ n :: b, s.ht⟩ := by cases s; simp at e1; simp [e1]
      rw [← this]; exact h
    have := inv_unlink_ab S cx a b n s.ht h'
    have e2 : unlinkHash S cx s a n b (hkeyOf S n) = unlinkHash S cx ⟨a ++ n :: b, s.ht⟩ a n b (hkeyOf S n) := by
      simp [unlinkHash]
    simp only
    rw [e2]
    exact this

end LyModel.Sib
