import LyModel.Sib.HtLookupLemmas2
import LyModel.Sib.InvLemmas
/-! Searching through the hash table finds what a scan finds (`lyd_find_sibling_first` / `_val`). -/
namespace LyModel.Sib

theorem isMatch_sch {S : Schema} {t m : Node} {x : SRef} (ht : t.sch = some x) (h : isMatch S t m = true) :
    m.sch = some x := by
  simp only [isMatch, ht, Bool.and_eq_true, beq_iff_eq] at h
  exact h.1

/-- the own record of a matching node is stored under the target's hash -/
theorem hkey_of_match {S : Schema} {t m : Node} {x : SRef} (ht : t.sch = some x) (h : isMatch S t m = true) :
    hkeyOf S m = hkeyOf S t := by
  have hm := isMatch_sch ht h
  simp only [isMatch, ht, Bool.and_eq_true, beq_iff_eq, Bool.or_eq_true, Bool.not_eq_true'] at h
  cases hl : (S x).listLike with
  | false => simp [hkeyOf, hm, ht, hl]
  | true =>
    have : m.key = t.key := by
      rcases h.2 with h' | h'
      · rw [hl] at h'; cases h'
      · exact h'
    simp [hkeyOf, hm, ht, hl, this]

theorem match_of_hkey {S : Schema} {t m : Node} {x : SRef} (ht : t.sch = some x) (h : hkeyOf S m = hkeyOf S t) :
    isMatch S t m = true := by
  cases hm : m.sch with
  | none => simp [hkeyOf, hm, ht] at h; split at h <;> cases h
  | some y =>
    cases hly : (S y).listLike <;> cases hlx : (S x).listLike <;> simp [hkeyOf, hm, ht, hly, hlx] at h
    · subst h; simp [isMatch, ht, hm, hly]
    · obtain ⟨h1, h2⟩ := h
      subst h1
      simp [isMatch, ht, hm, h2]

/-- every record under the hash of the target belongs to a matching node -/
theorem rec_under_hkey (S : Schema) (t : Node) (x : SRef) (hk : HKey) (ht : t.sch = some x) (hhk : hkeyOf S t = some hk) :
    ∀ (l : List Node) (p : Option Node) (r : Rec), r ∈ htContentAux S p l → r.1 = hk →
      ∃ m ∈ l, r = (hk, m.id) ∧ isMatch S t m = true
  | [], _, r, h, _ => by simp [htContentAux] at h
  | n :: rest, p, r, h, hr => by
    rw [htContentAux_cons] at h
    rcases List.mem_append.mp h with h1 | h1
    · refine ⟨n, List.mem_cons_self .., ?_⟩
      rw [recsOf_eq] at h1
      rcases List.mem_append.mp h1 with h2 | h2
      · -- own record
        cases hn : n.sch with
        | none => simp [ownRec, hn] at h2
        | some y =>
          have hown : ownRec S n = [((if (S y).listLike then HKey.inst y n.key else HKey.sch y), n.id)] := by
            simp only [ownRec, hn]; split <;> rfl
          rw [hown] at h2
          simp only [List.mem_singleton] at h2
          subst h2
          simp only at hr
          have : hkeyOf S n = some hk := by
            simp only [hkeyOf, hn]
            split <;> simp_all
          refine ⟨by simp [← hr], match_of_hkey ht (by rw [this, hhk])⟩
      · -- first-instance record: its key is the schema-only hash of a (leaf-)list, never the hash of a target
        exfalso
        cases hn : n.sch with
        | none => simp [firstRec, hn] at h2
        | some y =>
          simp only [firstRec, hn] at h2
          split at h2
          · rename_i hc
            simp only [List.mem_singleton] at h2
            subst h2
            simp only at hr
            have hly : (S y).listLike = true := by
              simp only [Bool.and_eq_true] at hc; exact hc.1
            cases hlx : (S x).listLike with
            | true => simp [hkeyOf, ht, hlx] at hhk; rw [← hhk] at hr; cases hr
            | false =>
              simp [hkeyOf, ht, hlx] at hhk
              rw [← hhk] at hr
              simp only [HKey.sch.injEq] at hr
              subst hr
              rw [hly] at hlx; cases hlx
          · cases h2
    · obtain ⟨m, hm, e⟩ := rec_under_hkey S t x hk ht hhk rest (some n) r h1 hr
      exact ⟨m, List.mem_cons_of_mem _ hm, e⟩

theorem own_rec_mem (S : Schema) : ∀ (l : List Node) (p : Option Node) (m : Node) (hk : HKey), m ∈ l →
    hkeyOf S m = some hk → (hk, m.id) ∈ htContentAux S p l
  | [], _, _, _, h, _ => by cases h
  | n :: rest, p, m, hk, h, hhk => by
    rw [htContentAux_cons]
    rcases List.mem_cons.mp h with e | e
    · subst e
      apply List.mem_append_left
      rw [recsOf_eq]
      apply List.mem_append_left
      cases hn : m.sch with
      | none => simp [hkeyOf, hn] at hhk
      | some y =>
        simp only [hkeyOf, hn] at hhk
        simp only [ownRec, hn]
        split <;> simp_all
    · exact List.mem_append_right _ (own_rec_mem S rest (some n) m hk e hhk)

theorem find?_by_id : ∀ (l : List Node) (m : Node), (l.map (·.id)).Nodup → m ∈ l →
    l.find? (fun e => e.id == m.id) = some m
  | [], _, _, h => by cases h
  | a :: r, m, hnd, h => by
    rw [List.map_cons, List.nodup_cons] at hnd
    rcases List.mem_cons.mp h with e | e
    · subst e; simp [List.find?_cons]
    · have hne : (a.id == m.id) = false := by
        simp only [beq_eq_false_iff_ne, ne_eq]
        intro e'
        exact hnd.1 (List.mem_map.mpr ⟨m, e, e'.symm⟩)
      simp only [List.find?_cons, hne]
      exact find?_by_id r m hnd.2 e

/-! ## the block of instances behind the first one -/

theorem find?_drop_of_findIdx? {p q : Node → Bool} (hpq : ∀ m, p m = true → q m = true) :
    ∀ (l : List Node) (i : Nat), l.findIdx? q = some i → l.find? p = (l.drop i).find? p
  | [], _, h => by simp at h
  | a :: r, i, h => by
    by_cases ha : q a = true
    · simp [List.findIdx?_cons, ha] at h
      subst h; rfl
    · have hpa : p a = false := by
        cases hp : p a with
        | false => rfl
        | true => exact absurd (hpq a hp) ha
      simp only [List.findIdx?_cons, ha, if_false, Bool.false_eq_true] at h
      cases hr : r.findIdx? q with
      | none => rw [hr] at h; cases h
      | some j =>
        rw [hr] at h
        simp only [Option.map_some, Option.some.injEq] at h
        subst h
        simp only [List.find?_cons, hpa, List.drop_succ_cons]
        exact find?_drop_of_findIdx? hpq r j hr

theorem find?_block (S : Schema) (x : SRef) {p : Node → Bool} (hpq : ∀ m, p m = true → (m.sch == some x) = true)
    (l : List Node) (hs : l.Pairwise (fun a b => nle S a b = true)) (hhead : ∀ m, l.head? = some m → m.sch = some x) :
    l.find? p = (l.takeWhile (fun m => m.sch == some x)).find? p := by
  have hl := List.takeWhile_append_dropWhile (p := fun m : Node => m.sch == some x) (l := l)
  conv => lhs; rw [← hl]
  rw [List.find?_append]
  have hdw : (l.dropWhile (fun m => m.sch == some x)).find? p = none := by
    rw [List.find?_eq_none]
    intro e he hpe
    have hqe := hpq e hpe
    cases hd : l.dropWhile (fun m => m.sch == some x) with
    | nil => rw [hd] at he; cases he
    | cons d t =>
      have hdq : (d.sch == some x) = false := head_dropWhile_not (p := fun m : Node => m.sch == some x) hd
      rw [hd] at he
      rcases List.mem_cons.mp he with e1 | e1
      · subst e1; rw [hdq] at hqe; cases hqe
      · -- head m (schema x) ≤ d ≤ e (schema x): d has schema x too
        cases l with
        | nil => simp at hd
        | cons m r =>
          have hm : m.sch = some x := hhead m rfl
          have hdmem : d ∈ m :: r := (List.dropWhile_sublist _).subset (by rw [hd]; exact List.mem_cons_self ..)
          have hdr : d ∈ r := by
            rcases List.mem_cons.mp hdmem with e2 | e2
            · subst e2; simp [hm] at hdq
            · exact e2
          have hmd : nle S m d = true := (List.pairwise_cons.mp hs).1 d hdr
          have hsd : (d :: t).Pairwise (fun a b => nle S a b = true) := by
            rw [← hd]; exact List.Pairwise.sublist (List.dropWhile_sublist _) hs
          have hde : nle S d e = true := (List.pairwise_cons.mp hsd).1 e e1
          have hes : e.sch = some x := by simpa using hqe
          have := sch_squeeze S hmd hde (by rw [hm, hes])
          rw [hm] at this
          simp [← this] at hdq
  rw [hdw]
  simp

/-! ## `findHt` vs `findScan` -/

theorem findHt_eq_scan (S : Schema) (cx : Cx) (s : Sibs) (recs : List Rec) (t : Node) (h : Inv S cx s)
    (hht : s.ht = some recs)
    (hu : ∀ x, t.sch = some x → (S x).dupInst = false →
      ∀ m1 ∈ s.nodes, ∀ m2 ∈ s.nodes, isMatch S t m1 = true → isMatch S t m2 = true → m1 = m2) :
    findHt S recs s.nodes t = findScan S s.nodes t := by
  have hp := h.ht recs hht
  unfold findHt findScan
  cases hts : t.sch with
  | none =>
    have : s.nodes.find? (isMatch S t) = none := by
      rw [List.find?_eq_none]; intro m _; simp [isMatch, hts]
    simp [this]
  | some x =>
    simp only
    cases hdi : (S x).dupInst with
    | true =>
      simp only [if_true]
      rw [findSchemaHt_idx S s.nodes recs x h.sorted h.single h.nodup hp]
      have hpq : ∀ m, isMatch S t m = true → (m.sch == some x) = true := by
        intro m hm; simp [isMatch_sch hts hm]
      cases hfi : s.nodes.findIdx? (fun e => e.sch == some x) with
      | none =>
        have : s.nodes.find? (isMatch S t) = none := by
          rw [List.find?_eq_none]
          intro m hm hmm
          have := List.findIdx?_eq_none_iff.mp hfi m hm
          rw [hpq m hmm] at this; cases this
        simp [this]
      | some i =>
        simp only
        rw [find?_drop_of_findIdx? hpq s.nodes i hfi]
        congr 1
        apply Eq.symm
        apply find?_block S x hpq
        · exact List.Pairwise.sublist (List.drop_sublist _ _) h.sorted
        · intro m hm
          obtain ⟨hlt, h1, _⟩ := List.findIdx?_eq_some_iff_getElem.mp hfi
          have : (s.nodes.drop i).head? = some (s.nodes[i]'hlt) := by
            rw [List.head?_drop]; simp [hlt]
          rw [this] at hm
          cases hm
          simpa using h1
    | false =>
      simp only [Bool.false_eq_true, if_false]
      cases hhk : hkeyOf S t with
      | none => simp [hkeyOf, hts] at hhk; split at hhk <;> cases hhk
      | some hk =>
        simp only
        -- on the records of an exact table the predicate is just "stored under the target's hash"
        cases hM : s.nodes.find? (isMatch S t) with
        | none =>
          have hnone : recs.find? (recMatches S s.nodes t hk) = none := by
            rw [List.find?_eq_none]
            intro r hr hpr
            simp only [recMatches, Bool.and_eq_true, beq_iff_eq] at hpr
            have hr' : r ∈ htContentAux S none s.nodes := hp.subset hr
            obtain ⟨m, hm, _, hmm⟩ := rec_under_hkey S t x hk hts hhk s.nodes none r hr' hpr.1
            exact List.find?_eq_none.mp hM m hm hmm
          rw [hnone]; rfl
        | some m0 =>
          have hm0 : m0 ∈ s.nodes := List.mem_of_find?_eq_some hM
          have hmm0 : isMatch S t m0 = true := List.find?_some hM
          have hk0 : hkeyOf S m0 = some hk := by rw [hkey_of_match hts hmm0, hhk]
          have hrec : (hk, m0.id) ∈ recs := hp.symm.subset (own_rec_mem S s.nodes none m0 hk hm0 hk0)
          have hpred : recMatches S s.nodes t hk (hk, m0.id) = true := by
            simp only [recMatches, beq_self_eq_true, Bool.true_and]
            rw [find?_by_id s.nodes m0 h.nodup hm0]
            exact hmm0
          cases hfr : recs.find? (recMatches S s.nodes t hk) with
          | none =>
            have := List.find?_eq_none.mp hfr (hk, m0.id) hrec
            exact absurd hpred this
          | some r =>
            have hr : r ∈ recs := List.mem_of_find?_eq_some hfr
            have hpr := List.find?_some hfr
            simp only [recMatches, Bool.and_eq_true, beq_iff_eq] at hpr
            have hr' : r ∈ htContentAux S none s.nodes := hp.subset hr
            obtain ⟨m, hm, hrm, hmm⟩ := rec_under_hkey S t x hk hts hhk s.nodes none r hr' hpr.1
            have := hu x hts hdi m hm m0 hm0 hmm hmm0
            subst this
            simp [hrm]

end LyModel.Sib
