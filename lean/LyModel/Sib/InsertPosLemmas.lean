import LyModel.Sib.HashAnchorLemmas
/-!
`lyd_insert_node` links the node at the stable sorted position: behind every leading node that is `≤` it in `nle`,
whichever of the two anchor algorithms / leader lookups is used.
-/
namespace LyModel.Sib

theorem anchor_pos (S : Schema) (cx : Cx) (s : Sibs) (n : Node) (nx : SRef) (hsch : n.sch = some nx)
    (h : Inv S cx s) (hn : NewOk S cx s n) :
    posBySchema s.nodes n (anchor cx s n) = (s.nodes.takeWhile (rankLe nx)).length := by
  have hnr : nx.idx < cx.nsch nx.mod := hn.range nx hsch
  have hone : cx.top = false → ∀ a ∈ s.nodes, ∀ x, a.sch = some x → x.mod = nx.mod :=
    fun ht a ha x hx => hn.oneMod ht a ha x nx hx hsch
  unfold anchor
  cases hnest : cx.nested with
  | false =>
    simp only [Bool.false_eq_true, if_false]
    exact anchorLinear_pos S cx s.nodes n nx hsch h.sorted h.range hnr hone
  | true =>
    cases hht : s.ht with
    | none =>
      simp only [if_true]
      exact anchorLinear_pos S cx s.nodes n nx hsch h.sorted h.range hnr hone
    | some recs =>
      simp only [if_true]
      exact anchorHash_pos S cx s.nodes recs n nx hsch h.sorted h.single h.nodup (h.ht recs hht) h.range hnr
        (hone (h.cxwf hnest))

theorem nle_eq_rankLe_of_ne (S : Schema) (n e : Node) (nx : SRef) (hsch : n.sch = some nx) (he : e.sch ≠ some nx) :
    nle S e n = rankLe nx e := by
  cases hes : e.sch with
  | none => simp [nle, hes, hsch, rankLe]
  | some ex =>
    have hne : ex ≠ nx := fun e' => he (by rw [hes, e'])
    have hb : (ex == nx) = false := by simpa using hne
    simp [nle, hes, hsch, rankLe, hne, hb]

theorem nle_eq_rankLe_of_unsorted (S : Schema) (n e : Node) (nx : SRef) (hsch : n.sch = some nx)
    (hk : (S nx).sorted = false) : nle S e n = rankLe nx e := by
  by_cases he : e.sch = some nx
  · simp [nle, he, hsch, rankLe, hk]
  · exact nle_eq_rankLe_of_ne S n e nx hsch he

/-- `lyds_insert`: upper bound inside the block that starts at the leader -/
theorem posSorted_spec (S : Schema) (n : Node) (nx : SRef) (hsch : n.sch = some nx) (hk : (S nx).sorted = true) :
    ∀ (l : List Node) (li : Nat), l.Pairwise (fun a b => nle S a b = true) →
      l.findIdx? (fun e => e.sch == some nx) = some li →
      posSorted l n li = (l.takeWhile (fun e => nle S e n)).length
  | [], _, _, h => by simp at h
  | a :: t, li, hs, hfi => by
    by_cases ha : a.sch = some nx
    · -- the leader is the head: both predicates agree on the whole list
      have hli : li = 0 := by
        simp [List.findIdx?_cons, ha] at hfi
        exact hfi.symm
      subst hli
      have hcongr : ∀ e ∈ a :: t, (e.sch == n.sch && e.key.le n.key) = nle S e n := by
        intro e he
        by_cases hes : e.sch = some nx
        · simp [nle, hes, hsch, hk]
        · have hrl := nle_eq_rankLe_of_ne S n e nx hsch hes
          rw [hrl]
          have h1 : (e.sch == n.sch) = false := by
            rw [hsch]; simpa using hes
          simp only [h1, Bool.false_and]
          -- e comes after the head (an `nx` instance) and has another schema: its rank is above `nx`
          rcases List.mem_cons.mp he with e1 | e1
          · subst e1; exact absurd ha hes
          · have hae : nle S a e = true := (List.pairwise_cons.mp hs).1 e e1
            cases hes' : e.sch with
            | none => simp [rankLe, hes']
            | some ex =>
              have hne : nx ≠ ex := fun e' => hes (by rw [hes', e'])
              rw [nle_some_some ha hes'] at hae
              simp only [hne, if_false] at hae
              have := SRef.lt_asymm hae
              have hb : (ex == nx) = false := by simpa using (fun e' : ex = nx => hne e'.symm)
              simp [rankLe, hes', hb, this]
      simp only [posSorted, List.drop_zero, Nat.zero_add]
      rw [takeWhile_congr_mem hcongr]
    · have ha' : (a.sch == some nx) = false := by simpa using ha
      simp only [List.findIdx?_cons, ha', Bool.false_eq_true, if_false] at hfi
      cases hfi' : t.findIdx? (fun e => e.sch == some nx) with
      | none => rw [hfi'] at hfi; simp at hfi
      | some li' =>
        rw [hfi'] at hfi
        simp only [Option.map_some, Option.some.injEq] at hfi
        subst hfi
        have ih := posSorted_spec S n nx hsch hk t li' (List.pairwise_cons.mp hs).2 hfi'
        -- `a` is in front of an `nx` instance and has another schema: `a ≤ n`
        have hpa : nle S a n = true := by
          obtain ⟨hlt, _⟩ := List.findIdx?_eq_some_iff_findIdx_eq.mp hfi'
          have hm : t[li']'hlt ∈ t := List.getElem_mem hlt
          have hms : (t[li']'hlt).sch = some nx := by
            have := List.findIdx?_eq_some_iff_getElem.mp hfi'
            obtain ⟨_, h1, _⟩ := this
            simpa using h1
          have ham := (List.pairwise_cons.mp hs).1 _ hm
          rw [nle_eq_rankLe_of_ne S n a nx hsch ha]
          cases has : a.sch with
          | none =>
            have := nle_none_left has ham
            rw [hms] at this; cases this
          | some ax =>
            have hne : ax ≠ nx := fun e' => ha (by rw [has, e'])
            rw [nle_some_some has hms] at ham
            simp only [hne, if_false] at ham
            simp [rankLe, has, ham]
        simp only [posSorted, List.drop_succ_cons, List.takeWhile_cons, hpa, if_true, List.length_cons] at ih ⊢
        omega

theorem takeWhile_all_opaque (S : Schema) (l : List Node) (n : Node) (hn : n.sch = none) :
    l.takeWhile (fun e => nle S e n) = l :=
  takeWhile_all (fun e _ => by cases he : e.sch <;> simp [nle, he, hn])

/-- `insertPos` = stable sorted position, under the invariant, in both hash-table regimes. -/
theorem insertPos_eq (S : Schema) (cx : Cx) (s : Sibs) (n : Node) (h : Inv S cx s) (hn : NewOk S cx s n) :
    insertPos S cx s n = (s.nodes.takeWhile (fun e => nle S e n)).length := by
  unfold insertPos
  cases hsch : n.sch with
  | none => simp [takeWhile_all_opaque S s.nodes n hsch]
  | some nx =>
    simp only
    have hanch := anchor_pos S cx s n nx hsch h hn
    cases hk : (S nx).sorted with
    | false =>
      simp only [Bool.false_eq_true, if_false]
      rw [hanch]
      congr 1
      exact (takeWhile_congr_mem (fun e _ => nle_eq_rankLe_of_unsorted S n e nx hsch hk)).symm
    | true =>
      simp only [if_true]
      rw [findSchema_spec S cx s nx h]
      cases hfi : s.nodes.findIdx? (fun e => e.sch == some nx) with
      | some li => exact posSorted_spec S n nx hsch hk s.nodes li h.sorted hfi
      | none =>
        simp only
        rw [hanch]
        congr 1
        apply (takeWhile_congr_mem _).symm
        intro e he
        have := List.findIdx?_eq_none_iff.mp hfi e he
        exact nle_eq_rankLe_of_ne S n e nx hsch (by simpa using this)

end LyModel.Sib
