import LyModel.Sib.AnchorLemmas2
/-!
First-instance lookups through the children hash table: on a canonical list whose table content is the from-scratch
content, `findSchemaHt` returns the identity of the first instance of the schema, so the hash variant of
`lyd_find_sibling_schema` agrees with the linear one.
-/
namespace LyModel.Sib

def isSchKey (x : SRef) (r : Rec) : Bool := r.1 == HKey.sch x

/-- records of one node -/
def recsOf (S : Schema) (prev : Option Node) (n : Node) : List Rec :=
  match n.sch with
  | none => []
  | some x =>
    (if (S x).listLike then [(HKey.inst x n.key, n.id)] else [(HKey.sch x, n.id)]) ++
    (if (S x).listLike && !sameSch prev n then [(HKey.sch x, n.id)] else [])

theorem htContentAux_cons (S : Schema) (prev : Option Node) (n : Node) (rest : List Node) :
    htContentAux S prev (n :: rest) = recsOf S prev n ++ htContentAux S (some n) rest := by
  simp only [htContentAux, recsOf]
  cases n.sch <;> rfl

theorem filter_recsOf_ne (S : Schema) (prev : Option Node) (n : Node) (x : SRef) (h : n.sch ≠ some x) :
    (recsOf S prev n).filter (isSchKey x) = [] := by
  cases hn : n.sch with
  | none => simp [recsOf, hn]
  | some y =>
    have hyx : y ≠ x := fun e => h (by rw [hn, e])
    have h1 : (HKey.sch y == HKey.sch x) = false := by simp [hyx]
    have h2 : ∀ k, (HKey.inst y k == HKey.sch x) = false := by intro k; simp
    simp only [recsOf, hn]
    split <;> split <;> simp [List.filter_cons, isSchKey, h1, h2]

theorem filter_none_of_no_inst (S : Schema) (x : SRef) : ∀ (l : List Node) (prev : Option Node),
    (∀ e ∈ l, e.sch ≠ some x) → (htContentAux S prev l).filter (isSchKey x) = []
  | [], _, _ => by simp [htContentAux]
  | n :: rest, prev, h => by
    rw [htContentAux_cons, List.filter_append, filter_recsOf_ne S prev n x (h n (List.mem_cons_self ..)),
      filter_none_of_no_inst S x rest (some n) (fun e he => h e (List.mem_cons_of_mem _ he))]
    rfl

/-- after a node of schema `x` and a node of another schema there is no `x` any more -/
theorem no_inst_after (S : Schema) {p n : Node} {rest : List Node} {x : SRef}
    (hs : (p :: n :: rest).Pairwise (fun a b => nle S a b = true)) (hp : p.sch = some x) (hn : n.sch ≠ some x) :
    ∀ e ∈ rest, e.sch ≠ some x := by
  intro e he hex
  have hpn : nle S p n = true := (List.pairwise_cons.mp hs).1 n (List.mem_cons_self ..)
  have hne : nle S n e = true := (List.pairwise_cons.mp (List.pairwise_cons.mp hs).2).1 e he
  cases hns : n.sch with
  | none =>
    have := nle_none_left hns hne
    rw [this] at hex; cases hex
  | some y =>
    have hyx : y ≠ x := fun e' => hn (by rw [hns, e'])
    have hxy : ¬ x = y := fun e' => hyx e'.symm
    rw [nle_some_some hp hns] at hpn
    rw [nle_some_some hns hex] at hne
    simp only [hxy, hyx, if_false] at hpn hne
    have := SRef.lt_asymm hpn
    rw [this] at hne; cases hne

theorem filter_after_same (S : Schema) (x : SRef) (hl : (S x).listLike = true) : ∀ (l : List Node) (p : Node),
    p.sch = some x → (p :: l).Pairwise (fun a b => nle S a b = true) →
    (htContentAux S (some p) l).filter (isSchKey x) = []
  | [], _, _, _ => by simp [htContentAux]
  | n :: rest, p, hp, hs => by
    rw [htContentAux_cons, List.filter_append]
    by_cases hn : n.sch = some x
    · have h1 : (recsOf S (some p) n).filter (isSchKey x) = [] := by
        have hk : ∀ k, (HKey.inst x k == HKey.sch x) = false := by intro k; simp
        simp [recsOf, hn, hl, sameSch, hp, List.filter_cons, isSchKey, hk]
      rw [h1, filter_after_same S x hl rest n hn (List.pairwise_cons.mp hs).2]
      rfl
    · rw [filter_recsOf_ne S (some p) n x hn,
        filter_none_of_no_inst S x rest (some n) (no_inst_after S hs hp hn)]
      rfl

/-- The records under the schema-only hash of `x` are exactly one record for the first instance. -/
theorem filter_schKey (S : Schema) (x : SRef) : ∀ (l : List Node) (prev : Option Node),
    l.Pairwise (fun a b => nle S a b = true) →
    (∀ a ∈ l, ∀ b ∈ l, a.sch = some x → b.sch = some x → (S x).listLike = false → a = b) →
    (∀ p, prev = some p → p.sch ≠ some x) →
    (l.map (·.id)).Nodup →
    (htContentAux S prev l).filter (isSchKey x) =
      (match l.find? (fun e => e.sch == some x) with
       | some m => [(HKey.sch x, m.id)]
       | none => [])
  | [], _, _, _, _, _ => by simp [htContentAux]
  | n :: rest, prev, hs, hsing, hprev, hnd => by
    rw [htContentAux_cons, List.filter_append]
    by_cases hn : n.sch = some x
    · have hfind : (n :: rest).find? (fun e => e.sch == some x) = some n := by simp [List.find?_cons, hn]
      rw [hfind]
      have hnot : sameSch prev n = false := by
        cases hp : prev with
        | none => simp [sameSch]
        | some p =>
          have := hprev p hp
          simp only [sameSch, hn, beq_eq_false_iff_ne, ne_eq]
          exact this
      cases hl : (S x).listLike with
      | true =>
        have hk : ∀ k, (HKey.inst x k == HKey.sch x) = false := by intro k; simp
        have h1 : (recsOf S prev n).filter (isSchKey x) = [(HKey.sch x, n.id)] := by
          simp [recsOf, hn, hl, hnot, List.filter_cons, isSchKey, hk]
        rw [h1, filter_after_same S x hl rest n hn hs]
        rfl
      | false =>
        have h1 : (recsOf S prev n).filter (isSchKey x) = [(HKey.sch x, n.id)] := by
          simp [recsOf, hn, hl, List.filter_cons, isSchKey]
        have hno : ∀ e ∈ rest, e.sch ≠ some x := by
          intro e he hex
          have := hsing n (List.mem_cons_self ..) e (List.mem_cons_of_mem _ he) hn hex hl
          subst this
          rw [List.map_cons, List.nodup_cons] at hnd
          exact hnd.1 (List.mem_map.mpr ⟨n, he, rfl⟩)
        rw [h1, filter_none_of_no_inst S x rest (some n) hno]
        rfl
    · have hfind : (n :: rest).find? (fun e => e.sch == some x) = rest.find? (fun e => e.sch == some x) := by
        have : (n.sch == some x) = false := by simpa using hn
        simp [List.find?_cons, this]
      rw [hfind, filter_recsOf_ne S prev n x hn,
        filter_schKey S x rest (some n) (List.pairwise_cons.mp hs).2
          (fun a ha b hb => hsing a (List.mem_cons_of_mem _ ha) b (List.mem_cons_of_mem _ hb))
          (fun p hp => by cases hp; exact hn)
          (by rw [List.map_cons, List.nodup_cons] at hnd; exact hnd.2)]
      rfl

end LyModel.Sib
