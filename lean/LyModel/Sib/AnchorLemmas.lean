import LyModel.Sib.Inv
import LyModel.Sib.SortLemmas
/-!
`lyd_insert_get_next_anchor`: the linear walk (`anchorLinear`) and the hash-assisted lookup (`anchorHash`) both yield,
on a list in canonical order, the position behind the last node whose schema rank is ≤ the new node's.
-/
namespace LyModel.Sib

theorem stopIdx_eq {α : Type} (p : α → Bool) : ∀ (l : List α) (k : Nat),
    stopIdx p l k = if (l.takeWhile p).length < l.length then some (k + (l.takeWhile p).length) else none
  | [], k => by simp [stopIdx]
  | a :: l, k => by
    by_cases h : p a = true
    · simp only [stopIdx, h, if_true, List.takeWhile_cons, List.length_cons, stopIdx_eq p l (k + 1)]
      by_cases h2 : (l.takeWhile p).length < l.length
      · simp [h2]; omega
      · simp [h2]
    · simp [stopIdx, h, List.takeWhile_cons]

theorem takeWhile_all {α : Type} {p : α → Bool} : ∀ {l : List α}, (∀ x ∈ l, p x = true) → l.takeWhile p = l
  | [], _ => rfl
  | a :: l, h => by
    have ha := h a (List.mem_cons_self ..)
    simp only [List.takeWhile_cons, ha, if_true]
    rw [takeWhile_all (fun x hx => h x (List.mem_cons_of_mem _ hx))]

theorem takeWhile_congr_mem {α : Type} {p q : α → Bool} : ∀ {l : List α}, (∀ x ∈ l, p x = q x) → l.takeWhile p = l.takeWhile q
  | [], _ => rfl
  | a :: l, h => by
    have ha := h a (List.mem_cons_self ..)
    simp only [List.takeWhile_cons, ha]
    rw [takeWhile_congr_mem (fun x hx => h x (List.mem_cons_of_mem _ hx))]

/-! ## what `nle` says about schema references -/

theorem nle_some_some {S : Schema} {a b : Node} {x y : SRef} (ha : a.sch = some x) (hb : b.sch = some y) :
    nle S a b = (if x = y then (!(S x).sorted || a.key.le b.key) else x.lt y) := by
  simp [nle, ha, hb]

theorem nle_none_left {S : Schema} {a b : Node} (ha : a.sch = none) (h : nle S a b = true) : b.sch = none := by
  cases hb : b.sch
  · rfl
  · simp [nle, ha, hb] at h

theorem nle_mod_le {S : Schema} {a b : Node} {x y : SRef} (h : nle S a b = true) (ha : a.sch = some x) (hb : b.sch = some y) :
    x.mod ≤ y.mod := by
  rw [nle_some_some ha hb] at h
  by_cases e : x = y
  · subst e; exact Nat.le_refl _
  · simp only [e, if_false, SRef.lt, Bool.or_eq_true, Bool.and_eq_true, decide_eq_true_eq, beq_iff_eq] at h
    omega

theorem nle_idx_le {S : Schema} {a b : Node} {x y : SRef} (h : nle S a b = true) (ha : a.sch = some x) (hb : b.sch = some y)
    (hm : x.mod = y.mod) : x.idx ≤ y.idx := by
  rw [nle_some_some ha hb] at h
  by_cases e : x = y
  · subst e; exact Nat.le_refl _
  · simp only [e, if_false, SRef.lt, Bool.or_eq_true, Bool.and_eq_true, decide_eq_true_eq, beq_iff_eq] at h
    omega

theorem sref_ext {x y : SRef} (hm : x.mod = y.mod) (hi : x.idx = y.idx) : x = y := by
  cases x; cases y; simp at hm hi; simp [hm, hi]

theorem rankLe_some {nx ex : SRef} {e : Node} (he : e.sch = some ex) :
    rankLe nx e = (ex == nx || ex.lt nx) := by
  simp [rankLe, he]

/-- for same-module references: rank ≤ is index ≤ -/
theorem rankLe_same_mod {nx ex : SRef} {e : Node} (he : e.sch = some ex) (hm : ex.mod = nx.mod) :
    rankLe nx e = decide (ex.idx ≤ nx.idx) := by
  rw [rankLe_some he]
  by_cases h : ex = nx
  · subst h; simp
  · have hi : ex.idx ≠ nx.idx := fun hi => h (sref_ext hm hi)
    simp only [SRef.lt, hm]
    have : (ex == nx) = false := by simpa using h
    simp [this]
    omega

/-! ## the inner `while (!found)` loop -/

theorem advance_spec (nidx midx : Nat) : ∀ (fuel s : Nat), s ≤ nidx → s ≤ midx → nidx < s + fuel → midx < s + fuel →
    advance nidx midx fuel s = if nidx ≤ midx then some (nidx, true) else some (midx, false)
  | 0, s, h1, _, h3, _ => by omega
  | f + 1, s, h1, h2, h3, h4 => by
    unfold advance
    by_cases e1 : nidx = s
    · subst e1; simp [h2]
    · by_cases e2 : midx = s
      · subst e2
        have : ¬ nidx ≤ midx := by omega
        simp [e1, this]
      · simp only [e1, e2, if_false]
        exact advance_spec nidx midx f (s + 1) (by omega) (by omega) (by omega) (by omega)

/-! ## the linear algorithm -/

theorem linLoop_spec (S : Schema) (nx : SRef) (nsch : Nat) (hnx : nx.idx < nsch) :
    ∀ (l : List Node) (pos schema : Nat) (found : Bool),
      l.Pairwise (fun a b => nle S a b = true) →
      (∀ e ∈ l, ∀ ex, e.sch = some ex → nx.mod ≤ ex.mod) →
      (∀ e ∈ l, ∀ ex, e.sch = some ex → ex.mod = nx.mod → ex.idx < nsch) →
      (found = false → schema ≤ nx.idx ∧ ∀ e ∈ l, ∀ ex, e.sch = some ex → ex.mod = nx.mod → schema ≤ ex.idx) →
      (found = true → ∀ e ∈ l, ∀ ex, e.sch = some ex → ex.mod = nx.mod → nx.idx ≤ ex.idx) →
      linLoop nx nsch l pos schema found = stopIdx (rankLe nx) l pos
  | [], _, _, _, _, _, _, _, _ => by simp [linLoop, stopIdx]
  | m :: rest, pos, schema, found, hs, h2, h3, h5, h6 => by
    have hsr := (List.pairwise_cons.mp hs).2
    have hsm := (List.pairwise_cons.mp hs).1
    have h2r : ∀ e ∈ rest, ∀ ex, e.sch = some ex → nx.mod ≤ ex.mod := fun e he => h2 e (List.mem_cons_of_mem _ he)
    have h3r : ∀ e ∈ rest, ∀ ex, e.sch = some ex → ex.mod = nx.mod → ex.idx < nsch := fun e he => h3 e (List.mem_cons_of_mem _ he)
    cases hm : m.sch with
    | none => simp [linLoop, stopIdx, hm, rankLe]
    | some mx =>
      by_cases hmod : mx.mod = nx.mod
      · -- same module
        have hmr : rankLe nx m = decide (mx.idx ≤ nx.idx) := rankLe_same_mod hm hmod
        have hmi : mx.idx < nsch := h3 m (List.mem_cons_self ..) mx hm hmod
        -- elements of the rest in the same module have an index ≥ mx.idx
        have hrest : ∀ e ∈ rest, ∀ ex, e.sch = some ex → ex.mod = nx.mod → mx.idx ≤ ex.idx := by
          intro e he ex hex hem
          exact nle_idx_le (hsm e he) hm hex (by omega)
        cases found with
        | true =>
          have hge : nx.idx ≤ mx.idx := h6 rfl m (List.mem_cons_self ..) mx hm hmod
          by_cases hx : mx = nx
          · subst hx
            have : rankLe mx m = true := by rw [hmr]; simp
            simp only [linLoop, hm, stopIdx, this, if_true]
            simp only [ne_eq, not_true_eq_false, if_false, Bool.true_and, decide_false, Bool.false_eq_true]
            exact linLoop_spec S mx nsch hnx rest (pos + 1) schema true hsr h2r h3r (by simp)
              (fun _ e he ex hex hem => hrest e he ex hex hem)
          · have hi : mx.idx ≠ nx.idx := fun hi => hx (sref_ext hmod hi)
            have : rankLe nx m = false := by rw [hmr]; simp; omega
            simp [linLoop, hm, stopIdx, this, hmod, hx]
        | false =>
          obtain ⟨hsn, hsall⟩ := h5 rfl
          have hsm' : schema ≤ mx.idx := hsall m (List.mem_cons_self ..) mx hm hmod
          have hadv := advance_spec nx.idx mx.idx (nsch - schema) schema hsn hsm' (by omega) (by omega)
          by_cases hle : nx.idx ≤ mx.idx
          · rw [if_pos hle] at hadv
            by_cases hx : mx = nx
            · subst hx
              have : rankLe mx m = true := by rw [hmr]; simp
              simp only [linLoop, hm, stopIdx, this, if_true, hadv]
              simp only [ne_eq, not_true_eq_false, if_false, Bool.true_and, decide_false, Bool.false_eq_true]
              exact linLoop_spec S mx nsch hnx rest (pos + 1) mx.idx true hsr h2r h3r (by simp)
                (fun _ e he ex hex hem => hrest e he ex hex hem)
            · have hi : mx.idx ≠ nx.idx := fun hi => hx (sref_ext hmod hi)
              have : rankLe nx m = false := by rw [hmr]; simp; omega
              simp [linLoop, hm, stopIdx, this, hmod, hx, hadv]
          · rw [if_neg hle] at hadv
            have : rankLe nx m = true := by rw [hmr]; simp; omega
            simp only [linLoop, hm, stopIdx, this, if_true, hadv]
            simp only [ne_eq, hmod, not_true_eq_false, if_false, Bool.false_and, Bool.false_eq_true]
            exact linLoop_spec S nx nsch hnx rest (pos + 1) mx.idx false hsr h2r h3r
              (fun _ => ⟨by omega, fun e he ex hex hem => hrest e he ex hex hem⟩) (by simp)
      · -- a later module: the loop stops here
        have hgt : nx.mod < mx.mod := by
          have := h2 m (List.mem_cons_self ..) mx hm
          omega
        have : rankLe nx m = false := by
          rw [rankLe_some hm]
          have h1 : (mx == nx) = false := by
            simp only [beq_eq_false_iff_ne, ne_eq]
            intro e; subst e; omega
          simp [h1, SRef.lt]
          omega
        simp [linLoop, hm, stopIdx, this, hmod]

end LyModel.Sib
