import LyModel.Base
import LyModel.Generated.Consts
/-!
# Sib — one sibling list of a libyang data tree (model of `tree_data.c` / `tree_data_hash.c` insertion machinery)

A sibling list is a `List Node`.  A node carries its identity, its schema reference (`none` = opaque node) and the
value libyang orders it by (`key`: the value of a leaf-list instance / the key of a list instance).  What the schema
says about a reference (kind, ordering) is a parameter `S : Schema`.

Mirrored C functions:
* `lyd_insert_get_next_anchor`  — `anchorLinear` (lock-step walk over data and schema) and `anchorHash`
  (first-instance lookups in the children hash table),
* `lyd_insert_node_find_anchor` / `lyd_insert_node_ordby_schema` — `posBySchema` (incl. "never after opaque nodes"),
* `lyd_find_sibling_schema`     — `findSchemaLin` / `findSchemaHt`,
* `lyds_insert` (+ `rb_insert_node`, `lyds_link_data_node`) — `posSorted`: upper bound inside the instance block,
* `lyd_insert_node`             — `insertNode`,
* `lyd_insert_hash` / `lyd_insert_hash_add` / `lyd_unlink_hash` — `insertHash` / `htAdd` / `htDel` on the abstract
  content of `children_ht` (a list of records `(hash key, node id)`; created lazily at `LYD_HT_MIN_ITEMS`),
* `lyd_unlink` — `unlinkNode`;  `lyd_insert_before/after` — `insertBefore` / `insertAfter`,
* `lyd_change_node_value` — `changeKeyC` (as the C does it: re-inserted under the OLD hash, F19) and
  `changeKeyFixed` (hash recomputed before the re-insertion).
-/
namespace LyModel.Sib

/-! ## keys -/

/-- one key-leaf value of a list with several keys -/
inductive Atom where
  | int (i : Int)
  | str (b : Bytes)
  deriving DecidableEq, Repr, Inhabited

/-- what a node is ordered / hashed by: the value of a leaf-list instance or of the single key of a list instance (`int`,
    `str`), or — list with two or more keys — the tuple of its key-leaf values in SCHEMA order (`tup`) -/
inductive Key where
  | int (i : Int)
  | str (b : Bytes)
  | tup (ks : List Atom)
  deriving DecidableEq, Repr, Inhabited

/-- `strcmp` on canonical strings (unsigned bytes) ≤ 0 -/
def lexLe : Bytes → Bytes → Bool
  | [], _ => true
  | _ :: _, [] => false
  | a :: as, b :: bs => a < b || (a == b && lexLe as bs)

/-- the type plugin's `sort` callback ≤ 0 on one value -/
def Atom.le : Atom → Atom → Bool
  | .int a, .int b => a ≤ b
  | .str a, .str b => lexLe a b
  | .int _, .str _ => true
  | .str _, .int _ => false

/-- `rb_compare_lists` ≤ 0: the first key by its `sort` callback; if that is 0 (equal canonical values) the next key, … -/
def lexAtoms : List Atom → List Atom → Bool
  | [], _ => true
  | _ :: _, [] => false
  | a :: as, b :: bs => if a = b then lexAtoms as bs else a.le b

/-- the type plugin's `sort` callback ≤ 0 (`lyplg_type_sort_int/uint`: numeric, `lyplg_type_sort_simple`: strcmp);
    key tuples key by key (`rb_compare_lists`); values of different shape never meet inside one (leaf-)list -/
def Key.le : Key → Key → Bool
  | .int a, .int b => a ≤ b
  | .str a, .str b => lexLe a b
  | .tup a, .tup b => lexAtoms a b
  | .int _, .str _ => true
  | .int _, .tup _ => true
  | .str _, .tup _ => true
  | .str _, .int _ => false
  | .tup _, .int _ => false
  | .tup _, .str _ => false

/-! ## schema references -/

structure SRef where
  /-- rank of the owner module among the module names (`strcmp` order; constant inside a nested sibling list) -/
  mod : Nat
  /-- position in `lys_getnext` order among the schema siblings -/
  idx : Nat
  deriving DecidableEq, Repr, Inhabited

inductive Ord where
  | sys    -- ordered-by system
  | user   -- ordered-by user
  | dup    -- state leaf-list / key-less list (ordered-by user, duplicates allowed: `lysc_is_dup_inst_list`)
  deriving DecidableEq, Repr

inductive SKind where
  | leaf | cont
  | list (o : Ord)
  | leaflist (o : Ord)
  deriving DecidableEq, Repr

def SKind.listLike : SKind → Bool
  | .list _ => true
  | .leaflist _ => true
  | _ => false

/-- `lyds_is_supported` -/
def SKind.sorted : SKind → Bool
  | .list .sys => true
  | .leaflist .sys => true
  | _ => false

def SKind.userOrd : SKind → Bool
  | .list .user => true
  | .list .dup => true
  | .leaflist .user => true
  | .leaflist .dup => true
  | _ => false

def SKind.dupInst : SKind → Bool
  | .list .dup => true
  | .leaflist .dup => true
  | _ => false

abbrev Schema := SRef → SKind

structure Node where
  id : Nat
  sch : Option SRef
  key : Key
  deriving DecidableEq, Repr, Inhabited

def SRef.lt (a b : SRef) : Bool := a.mod < b.mod || (a.mod == b.mod && a.idx < b.idx)

/-- The total preorder whose *stable* insertion order is libyang's sibling order: module rank, schema index,
    key for system-ordered instances; instances of anything else are ties; opaque nodes are ties after everything. -/
def nle (S : Schema) (a b : Node) : Bool :=
  match a.sch, b.sch with
  | none, none => true
  | none, some _ => false
  | some _, none => true
  | some x, some y => if x = y then (!(S x).sorted || a.key.le b.key) else x.lt y

def sameSch (a : Option Node) (n : Node) : Bool :=
  match a with
  | some m => m.sch == n.sch
  | none => false

/-! ## children hash table (abstract content) -/

inductive HKey where
  /-- `lyd_hash` of a list / leaf-list instance: module, name, key values -/
  | inst (s : SRef) (k : Key)
  /-- hash of module + name only: `lyd_hash` of any other node AND the key of the first-instance records -/
  | sch (s : SRef)
  deriving DecidableEq, Repr

abbrev Rec := HKey × Nat

/-- `lyd_hash` -/
def hkeyOf (S : Schema) (n : Node) : Option HKey :=
  match n.sch with
  | none => none
  | some x => if (S x).listLike then some (.inst x n.key) else some (.sch x)

/-- What `children_ht` must contain for the sibling list: every schema node under its hash, and the first instance
    of each (leaf-)list block under the schema-only hash. `prev` = the node in front of the list. -/
def htContentAux (S : Schema) : Option Node → List Node → List Rec
  | _, [] => []
  | prev, n :: rest =>
    (match n.sch with
     | none => []
     | some x =>
       (if (S x).listLike then [(HKey.inst x n.key, n.id)] else [(HKey.sch x, n.id)]) ++
       (if (S x).listLike && !sameSch prev n then [(HKey.sch x, n.id)] else []))
    ++ htContentAux S (some n) rest

def htContent (S : Schema) (l : List Node) : List Rec := htContentAux S none l

/-- `lyd_insert_hash_add`: returns the new content and whether the C function returned `LY_SUCCESS`
    (`false` = `LOGINT_RET`: a `lyht_remove` / checked `lyht_insert` failed and the function returned early). -/
def htAdd (S : Schema) (recs : List Rec) (prev : Option Node) (n : Node) (next : Option Node) (hk : HKey)
    (emptyHt : Bool) : List Rec × Bool :=
  match n.sch with
  | none => (recs, true)
  | some x =>
    let recs1 := recs ++ [(hk, n.id)]                       -- lyht_insert_no_check
    if (S x).listLike && !sameSch prev n then
      let fk := HKey.sch x
      match (if !emptyHt && sameSch next n then next else none) with
      | some nx =>
        if (fk, nx.id) ∈ recs1 then
          let recs2 := recs1.erase (fk, nx.id)
          if (fk, n.id) ∈ recs2 then (recs2, false) else (recs2 ++ [(fk, n.id)], true)
        else (recs1, false)                                   -- lyht_remove failed: LOGINT_RET
      | none =>
        if (fk, n.id) ∈ recs1 then (recs1, false) else (recs1 ++ [(fk, n.id)], true)
    else (recs1, true)

/-- `lyd_unlink_hash` (called while the node is still linked) -/
def htDel (S : Schema) (recs : List Rec) (prev : Option Node) (n : Node) (next : Option Node) (hk : HKey) : List Rec :=
  match n.sch with
  | none => recs
  | some x =>
    if (hk, n.id) ∈ recs then
      let r1 := recs.erase (hk, n.id)
      if (S x).listLike && !sameSch prev n then
        let fk := HKey.sch x
        if (fk, n.id) ∈ r1 then
          let r2 := r1.erase (fk, n.id)
          match (if sameSch next n then next else none) with
          | some nx => if (fk, nx.id) ∈ r2 then r2 else r2 ++ [(fk, nx.id)]
          | none => r2
        else r1
      else r1
    else recs

/-- the loop of `lyd_insert_hash` that fills a freshly created table (`empty_ht = 1`);
    `hashOf` = the nodes' stored `hash` members -/
def htBuildAux (S : Schema) (hashOf : Node → Option HKey) : Option Node → List Node → List Rec → List Rec
  | _, [], acc => acc
  | prev, n :: rest, acc =>
    match hashOf n with
    | none => htBuildAux S hashOf (some n) rest acc
    | some hk => htBuildAux S hashOf (some n) rest (htAdd S acc prev n rest.head? hk true).1

/-- multiset equality of record lists (executable; `permB_iff` relates it to `List.Perm`) -/
def permB (a b : List Rec) : Bool := a.length == b.length && a.all (fun x => a.count x == b.count x)

def countSchema (l : List Node) : Nat := (l.filter (fun n => n.sch.isSome)).length

/-! ## one sibling list with its hash table -/

structure Sibs where
  nodes : List Node
  /-- `parent->children_ht`; always `none` at top level -/
  ht : Option (List Rec)
  deriving Repr, Inhabited

structure Cx where
  /-- the parent is a schema inner node (so a children hash table may exist) -/
  nested : Bool
  /-- the new node's schema is top-level (`lysc_data_parent == NULL`): preceding modules are skipped -/
  top : Bool
  /-- number of schema siblings `lys_getnext` walks (per owner module rank) -/
  nsch : Nat → Nat

/-- `lyd_insert_hash(node)` after `node` was linked: `l = a ++ n :: b` -/
def insertHash (S : Schema) (cx : Cx) (hashOf : Node → Option HKey) (ht : Option (List Rec))
    (a : List Node) (n : Node) (b : List Node) : Option (List Rec) × Bool :=
  if !cx.nested then (ht, true)
  else match hashOf n with
    | none => (ht, true)
    | some hk =>
      if n.sch.isNone then (ht, true) else
      match ht with
      | none =>
        if Generated.LYD_HT_MIN_ITEMS ≤ countSchema (a ++ n :: b) then
          (some (htBuildAux S hashOf none (a ++ n :: b) []), true)
        else (none, true)
      | some recs =>
        let r := htAdd S recs a.getLast? n b.head? hk false
        (some r.1, r.2)

/-! ## `lyd_find_sibling_schema` -/

/-- linear variant: index of the first instance; the scan stops at the first opaque node -/
def findSchemaLin (x : SRef) : List Node → Option Nat
  | [] => none
  | n :: r =>
    match n.sch with
    | none => none
    | some y => if y = x then some 0 else (findSchemaLin x r).map (· + 1)

/-- hash variant: the first record under the schema-only hash (`lyd_hash_table_schema_val_equal`) -/
def findSchemaHt (recs : List Rec) (x : SRef) : Option Nat :=
  (recs.find? (fun r => r.1 == HKey.sch x)).map (·.2)

def idxOfId (l : List Node) (id : Nat) : Option Nat := l.findIdx? (fun n => n.id == id)

def findSchema (cx : Cx) (s : Sibs) (x : SRef) : Option Nat :=
  match (if cx.nested then s.ht else none) with
  | some recs => (findSchemaHt recs x).bind (idxOfId s.nodes)
  | none => findSchemaLin x s.nodes

/-! ## `lyd_insert_get_next_anchor` -/

/-- the inner `while (!found)` loop; `fuel` = schema nodes left including the current one; `none` = `lys_getnext`
    returned NULL (the C function returns NULL: no anchor) -/
def advance (nidx midx : Nat) : Nat → Nat → Option (Nat × Bool)
  | 0, _ => none
  | f + 1, s =>
    if nidx = s then some (s, true)
    else if midx = s then some (s, false)
    else advance nidx midx f (s + 1)

/-- the `LY_LIST_FOR(match, match)` loop of the linear algorithm; result = index of the anchor -/
def linLoop (nx : SRef) (nsch : Nat) : List Node → Nat → Nat → Bool → Option Nat
  | [], _, _, _ => none
  | m :: rest, pos, schema, found =>
    match m.sch with
    | none => some pos
    | some mx =>
      if mx.mod ≠ nx.mod then some pos
      else
        match (if found then some (schema, true) else advance nx.idx mx.idx (nsch - schema) schema) with
        | none => none
        | some (schema', found') =>
          if found' && mx ≠ nx then some pos else linLoop nx nsch rest (pos + 1) schema' found'

/-- skip the data of preceding modules (top level only) -/
def skipMods (nmod : Nat) : List Node → Nat → List Node × Nat
  | [], p => ([], p)
  | m :: r, p =>
    match m.sch with
    | none => (m :: r, p)
    | some mx => if mx.mod < nmod then skipMods nmod r (p + 1) else (m :: r, p)

def anchorLinear (cx : Cx) (l : List Node) (n : Node) : Option Nat :=
  match n.sch with
  | none => none
  | some nx =>
    if l.isEmpty then none
    else
      let st := if cx.top then skipMods nx.mod l 0 else (l, 0)
      if cx.nsch nx.mod = 0 then none
      else linLoop nx (cx.nsch nx.mod) st.1 st.2 0 false

/-- `while (schema) { if (!lyd_find_sibling_schema(...)) break; schema = lys_getnext(...) }` -/
def hashLoop (recs : List Rec) (mod : Nat) : Nat → Nat → Option Nat
  | 0, _ => none
  | f + 1, s =>
    match findSchemaHt recs ⟨mod, s⟩ with
    | some id => some id
    | none => hashLoop recs mod f (s + 1)

def anchorHash (cx : Cx) (recs : List Rec) (l : List Node) (n : Node) : Option Nat :=
  match n.sch with
  | none => none
  | some nx =>
    if l.isEmpty then none
    else (hashLoop recs nx.mod (cx.nsch nx.mod - (nx.idx + 1)) (nx.idx + 1)).bind (idxOfId l)

def anchor (cx : Cx) (s : Sibs) (n : Node) : Option Nat :=
  match (if cx.nested then s.ht else none) with
  | some recs => anchorHash cx recs s.nodes n
  | none => anchorLinear cx s.nodes n

/-- number of opaque nodes at the end of the list -/
def opaqTail (l : List Node) : Nat := (l.reverse.takeWhile (fun n => n.sch.isNone)).length

/-- `lyd_insert_node_ordby_schema`: before the anchor; without an anchor at the end, but never after opaque nodes -/
def posBySchema (l : List Node) (n : Node) (anc : Option Nat) : Nat :=
  match anc with
  | some i => i
  | none => if n.sch.isSome then l.length - opaqTail l else l.length

/-- `lyds_insert`: upper bound of the key inside the block of instances that starts at the leader -/
def posSorted (l : List Node) (n : Node) (leader : Nat) : Nat :=
  leader + ((l.drop leader).takeWhile (fun e => e.sch == n.sch && e.key.le n.key)).length

/-- where `lyd_insert_node(…, LYD_INSERT_NODE_DEFAULT)` links the node -/
def insertPos (S : Schema) (cx : Cx) (s : Sibs) (n : Node) : Nat :=
  match n.sch with
  | none => s.nodes.length                                     -- opaque: lyd_insert_node_last
  | some nx =>
    if (S nx).sorted then
      match findSchema cx s nx with
      | some leader => posSorted s.nodes n leader
      | none => posBySchema s.nodes n (anchor cx s n)
    else posBySchema s.nodes n (anchor cx s n)

def linkAt (S : Schema) (cx : Cx) (hashOf : Node → Option HKey) (s : Sibs) (n : Node) (p : Nat) : Sibs × Bool :=
  let a := s.nodes.take p
  let b := s.nodes.drop p
  let h := insertHash S cx hashOf s.ht a n b
  (⟨a ++ n :: b, h.1⟩, h.2)

/-- `lyd_insert_node(parent, first_sibling, node, LYD_INSERT_NODE_DEFAULT)`; `hashOf n` = the stored `node->hash` -/
def insertNodeH (S : Schema) (cx : Cx) (hashOf : Node → Option HKey) (s : Sibs) (n : Node) : Sibs :=
  (linkAt S cx hashOf s n (insertPos S cx s n)).1

def insertNode (S : Schema) (cx : Cx) (s : Sibs) (n : Node) : Sibs := insertNodeH S cx (hkeyOf S) s n

/-- `lyd_insert_node(…, LYD_INSERT_NODE_LAST)` -/
def insertLast (S : Schema) (cx : Cx) (s : Sibs) (n : Node) : Sibs :=
  (linkAt S cx (hkeyOf S) s n s.nodes.length).1

/-! ## unlink -/

/-- split at the node with identity `id` -/
def splitAtId (id : Nat) : List Node → Option (List Node × Node × List Node)
  | [] => none
  | n :: r =>
    if n.id == id then some ([], n, r)
    else match splitAtId id r with
      | some (a, m, b) => some (n :: a, m, b)
      | none => none

/-- `lyd_unlink_hash` with the node's stored hash `hk` -/
def unlinkHash (S : Schema) (cx : Cx) (s : Sibs) (a : List Node) (n : Node) (b : List Node) (hk : Option HKey) :
    Option (List Rec) :=
  if !cx.nested then s.ht
  else match hk, s.ht with
    | some k, some recs => some (htDel S recs a.getLast? n b.head? k)
    | _, h => h

/-- `lyd_unlink` (hash table + links; the red-black tree is abstracted: its in-order is the instance block) -/
def unlinkNode (S : Schema) (cx : Cx) (s : Sibs) (id : Nat) : Sibs :=
  match splitAtId id s.nodes with
  | none => s
  | some (a, n, b) => ⟨a ++ b, unlinkHash S cx s a n b (hkeyOf S n)⟩

/-! ## `lyd_insert_before` / `lyd_insert_after` (the node is already unlinked; API checks are in the tree layer) -/

def insertBefore (S : Schema) (cx : Cx) (s : Sibs) (target : Nat) (n : Node) : Sibs :=
  match idxOfId s.nodes target with
  | none => s
  | some i => (linkAt S cx (hkeyOf S) s n i).1

def insertAfter (S : Schema) (cx : Cx) (s : Sibs) (target : Nat) (n : Node) : Sibs :=
  match idxOfId s.nodes target with
  | none => s
  | some i => (linkAt S cx (hkeyOf S) s n (i + 1)).1

/-! ## `lyd_change_node_value` -/

/-- `LYD_NODE_IS_ALONE` -/
def isAlone (a : List Node) (n : Node) (b : List Node) : Bool := !sameSch a.getLast? n && !sameSch b.head? n

/-- As the C does it.  Path A (`!LYD_NODE_IS_ALONE && lyds_is_supported`): `lyd_unlink_tree`, store the value,
    `lyd_insert_node` — which indexes the node under its OLD `hash` member — then `lyd_hash` and a second
    `lyd_insert_hash`.  Path B: `lyd_unlink_hash`, store, `lyd_hash`, `lyd_insert_hash`.
    Result: new list and whether the last `lyd_insert_hash` returned `LY_SUCCESS`. -/
def changeKeyC (S : Schema) (cx : Cx) (s : Sibs) (id : Nat) (k : Key) : Sibs × Bool :=
  match splitAtId id s.nodes with
  | none => (s, true)
  | some (a, n, b) =>
    let n' : Node := { n with key := k }
    match n.sch with
    | none => (s, true)
    | some x =>
      if !isAlone a n b && (S x).sorted then
        let s1 := unlinkNode S cx s id
        -- node->hash is still the hash of the old value
        let stale : Node → Option HKey := fun m => if m.id == id then hkeyOf S n else hkeyOf S m
        let s2 := insertNodeH S cx stale s1 n'
        -- lyd_hash(target); lyd_insert_hash(target)
        match splitAtId id s2.nodes with
        | none => (s2, true)
        | some (a2, m, b2) =>
          let h := insertHash S cx (hkeyOf S) s2.ht a2 m b2
          (⟨s2.nodes, h.1⟩, h.2)
      else
        let ht1 := unlinkHash S cx s a n b (hkeyOf S n)
        let h := insertHash S cx (hkeyOf S) ht1 a n' b
        (⟨a ++ n' :: b, h.1⟩, h.2)

/-- The corrected order of the calls in path A: `lyd_hash` before `lyd_insert_node`, no second `lyd_insert_hash`. -/
def changeKeyFixed (S : Schema) (cx : Cx) (s : Sibs) (id : Nat) (k : Key) : Sibs × Bool :=
  match splitAtId id s.nodes with
  | none => (s, true)
  | some (a, n, b) =>
    let n' : Node := { n with key := k }
    match n.sch with
    | none => (s, true)
    | some x =>
      if !isAlone a n b && (S x).sorted then
        (insertNode S cx (unlinkNode S cx s id) n', true)
      else
        let ht1 := unlinkHash S cx s a n b (hkeyOf S n)
        let h := insertHash S cx (hkeyOf S) ht1 a n' b
        (⟨a ++ n' :: b, h.1⟩, h.2)

/-! ## searching (`lyd_find_sibling_first` / `lyd_find_sibling_val`) -/

/-- `lyd_compare_single(…, 0)` restricted to what a sibling list knows: same schema and, for (leaf-)lists, same key -/
def isMatch (S : Schema) (t : Node) (m : Node) : Bool :=
  match t.sch with
  | none => false
  | some x => m.sch == some x && (!(S x).listLike || m.key == t.key)

/-- manual scan -/
def findScan (S : Schema) (l : List Node) (t : Node) : Option Nat := (l.find? (isMatch S t)).map (·.id)

/-- `lyd_hash_table_val_equal` on a record found under hash `hk`: the record's node (dereferenced by identity)
    must compare equal to the target -/
def recMatches (S : Schema) (l : List Node) (t : Node) (hk : HKey) (r : Rec) : Bool :=
  r.1 == hk && (match l.find? (fun m => m.id == r.2) with
                | some m => isMatch S t m
                | none => false)

/-- through the hash table: dup-inst lists walk the instances from the first-instance record,
    everything else is `lyht_find` under the target's hash with `lyd_hash_table_val_equal` -/
def findHt (S : Schema) (recs : List Rec) (l : List Node) (t : Node) : Option Nat :=
  match t.sch with
  | none => none
  | some x =>
    if (S x).dupInst then
      match (findSchemaHt recs x).bind (idxOfId l) with
      | none => none
      | some i => (((l.drop i).takeWhile (fun m => m.sch == some x)).find? (isMatch S t)).map (·.id)
    else
      match hkeyOf S t with
      | none => none
      | some hk =>
        (recs.find? (recMatches S l t hk)).map (·.2)

def findFirst (S : Schema) (cx : Cx) (s : Sibs) (t : Node) : Option Nat :=
  match (if cx.nested then s.ht else none) with
  | some recs => findHt S recs s.nodes t
  | none => findScan S s.nodes t

end LyModel.Sib
