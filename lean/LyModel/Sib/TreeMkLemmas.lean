import LyModel.Sib.TreeMk
/-! Key predicates in any order give the same key tuple (`lyd_new_list2`, `lyd_new_path`, `lyd_find_sibling_val`). -/
namespace LyModel.Sib

theorem find_pred_perm {l l' : List (String × Bytes)} (h : l.Perm l') (hn : (l.map (·.1)).Nodup) (nm : String) :
    l.find? (·.1 == nm) = l'.find? (·.1 == nm) := by
  induction h with
  | nil => rfl
  | cons x _ ih =>
    simp only [List.map_cons, List.nodup_cons] at hn
    simp only [List.find?_cons]
    rw [ih hn.2]
  | swap x y l =>
    simp only [List.map_cons, List.nodup_cons, List.mem_cons, not_or] at hn
    simp only [List.find?_cons]
    by_cases hx : (x.1 == nm) = true <;> by_cases hy : (y.1 == nm) = true
    · have ex : x.1 = nm := by simpa using hx
      have ey : y.1 = nm := by simpa using hy
      exact absurd (ey.trans ex.symm) hn.1.1
    · simp [hx, hy]
    · simp [hx, hy]
    · simp [hx, hy]
  | trans h1 _ ih1 ih2 =>
    rw [ih1 hn, ih2 ((h1.map (·.1)).nodup_iff.mp hn)]

theorem all_perm {α : Type} {l l' : List α} (h : l.Perm l') (p : α → Bool) : l.all p = l'.all p := by
  induction h with
  | nil => rfl
  | cons x _ ih => simp [List.all_cons, ih]
  | swap x y l => simp [List.all_cons, Bool.and_left_comm]
  | trans _ _ ih1 ih2 => rw [ih1, ih2]

/-- the key tuple does not depend on the order the predicates are written in -/
theorem keysOf_perm (f : Forest) (e : SEnt) (ps ps' : List (String × Bytes)) (h : ps.Perm ps')
    (hn : (ps.map (·.1)).Nodup) : f.keysOf e ps = f.keysOf e ps' := by
  unfold Forest.keysOf
  have hfun : (fun (ke : SEnt) => (ps.find? (·.1 == ke.name)).map (fun p => (ke, p.2))) =
      (fun (ke : SEnt) => (ps'.find? (·.1 == ke.name)).map (fun p => (ke, p.2))) := by
    funext ke
    rw [find_pred_perm h hn ke.name]
  simp only [h.length_eq, all_perm h, hfun]

end LyModel.Sib
