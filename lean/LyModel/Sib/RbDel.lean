import LyModel.Sib.Rb
/-!
# Sib.RbDel (stage 2) — removal from the red-black tree of `tree_data_sorted.c`

`rb_remove` unlinks the red-black node of a data node: a node with at most one child is replaced by that child; a node
with two children is replaced by its in-order successor (the leftmost node of the right subtree), which takes over the
colour and the links of the removed node (`RBN_COPY`), and the place the successor came from is the one that lost a node.
If the node that physically left its place was black, `rb_remove_color(rbt, parent, child)` repairs the black heights
walking up from `(parent, child)`:

* `child` red                          → coloured black, done;
* sibling red                          → sibling black, parent red, rotate the parent towards `child`; continue with the
                                         new (black) sibling below the now red parent;
* sibling black, both nephews black    → sibling red; go on one level up (a red parent is coloured black and ends the walk);
* far nephew black (near one red)      → near nephew black, sibling red, rotate the sibling away from `child`; then
* far nephew red                       → sibling takes the parent's colour, parent and far nephew black, rotate the parent
                                         towards `child`, done; finally the root is black.

`del` does the same bottom-up: it returns the new subtree and whether the black height of the subtree dropped by one
(`rb_remove_color` still walking, `rbn` = this subtree); the parent level then applies `balL` / `balR` — the body of the
`while` loop for `rbn == RBN_LEFT(parent)` / the mirror image — with the same case split, so the SHAPES coincide with the C
code (compared with the real tree after every operation by the white-box harness, op `rbs`).

The node to remove is addressed by its in-order position (= the position of the data node inside its (leaf-)list; `rb_find`
— descent by `rb_compare`, then the walk over the equal keys with `rb_prev` / `rb_next` until `RBN_DNODE(iter) == target` —
is `find` below).
-/
namespace LyModel.Sib.Rb

variable {α : Type}

def size : T α → Nat
  | .nil => 0
  | .node _ l _ r => size l + 1 + size r

/-- the loop body of `rb_remove_color` for `RBN_LEFT(parent) == rbn` once the sibling `s` is known not to be red
    (`x` = the subtree that is one black node short, `pc`/`pd` = the parent).  Result: new subtree, "still one short". -/
def balL' (pc : Color) (x : T α) (pd : α) (s : T α) : T α × Bool :=
  match s with
  | .nil => (.node pc x pd .nil, false)      -- not reachable in a balanced tree (the C code dereferences `tmp`)
  | .node _ sl sd sr =>
    if !isRed sl && !isRed sr then
      -- both nephews black: `RBN_COLOR(tmp) = RB_RED; rbn = parent;` — a red parent ends the loop and is coloured black
      (.node .black x pd (.node .red sl sd sr), decide (pc = .black))
    else
      -- `if (RBN_RIGHT(tmp) == NULL || black) { oleft black; tmp red; rb_rotate_right(tmp); tmp = RBN_RIGHT(parent); }`
      let tmp : T α × α × T α :=
        if !isRed sr then
          match sl with
          | .node _ a y b => (a, y, .node .red b sd sr)
          | .nil => (sl, sd, sr)
        else (sl, sd, sr)
      -- `tmp` takes the parent's colour, parent and `RBN_RIGHT(tmp)` black, `rb_rotate_left(parent)`
      (.node pc (.node .black x pd tmp.1) tmp.2.1 (blacken tmp.2.2), false)

/-- `rb_remove_color`, one level, `rbn` is the LEFT child -/
def balL (pc : Color) (x : T α) (pd : α) (s : T α) : T α × Bool :=
  match s with
  | .node .red sl sd sr =>
    -- `rb_set_blackred(tmp, parent); rb_rotate_left(parent); tmp = RBN_RIGHT(parent);`
    let r := balL' .red x pd sl
    (.node .black r.1 sd sr, r.2)
  | _ => balL' pc x pd s

/-- mirror image of `balL'`: `rbn` is the RIGHT child, `s` the left sibling -/
def balR' (pc : Color) (s : T α) (pd : α) (x : T α) : T α × Bool :=
  match s with
  | .nil => (.node pc .nil pd x, false)
  | .node _ sl sd sr =>
    if !isRed sl && !isRed sr then
      (.node .black (.node .red sl sd sr) pd x, decide (pc = .black))
    else
      let tmp : T α × α × T α :=
        if !isRed sl then
          match sr with
          | .node _ b y a => (.node .red sl sd b, y, a)
          | .nil => (sl, sd, sr)
        else (sl, sd, sr)
      (.node pc (blacken tmp.1) tmp.2.1 (.node .black tmp.2.2 pd x), false)

def balR (pc : Color) (s : T α) (pd : α) (x : T α) : T α × Bool :=
  match s with
  | .node .red sl sd sr =>
    let r := balR' .red sr pd x
    (.node .black sl sd r.1, r.2)
  | _ => balR' pc s pd x

/-- a node of colour `c` with at most one child `child` leaves the tree: `child` takes its place; a black node that
    leaves is made up for by a red child turning black (`rb_remove_color` with `rbn` red), otherwise the place is one short -/
def splice (c : Color) (child : T α) : T α × Bool :=
  match c with
  | .red => (child, false)
  | .black => if isRed child then (blacken child, false) else (child, true)

/-- re-attach a left / right subtree that came back from a removal -/
def joinL (c : Color) (l : T α × Bool) (d : α) (r : T α) : T α × Bool :=
  if l.2 then balL c l.1 d r else (.node c l.1 d r, false)

def joinR (c : Color) (l : T α) (d : α) (r : T α × Bool) : T α × Bool :=
  if r.2 then balR c l d r.1 else (.node c l d r.1, false)

/-- take the leftmost node out of the non-empty tree `node c l d r` (the in-order successor in `rb_remove`) -/
def delMin (c : Color) (l : T α) (d : α) (r : T α) : α × (T α × Bool) :=
  match l with
  | .nil => (d, splice c r)
  | .node lc ll ld lr =>
    let m := delMin lc ll ld lr
    (m.1, joinL c m.2 d r)

/-- `rb_remove` of the node at in-order position `i` + `rb_remove_color` below the root -/
def del (i : Nat) : T α → T α × Bool
  | .nil => (.nil, false)
  | .node c l d r =>
    if i < size l then joinL c (del i l) d r
    else if i = size l then
      match l, r with
      | .nil, _ => splice c r
      | _, .nil => splice c l
      | _, .node rc rl rd rr =>
        -- the successor takes the place and the colour of the removed node (`RBN_COPY`)
        let m := delMin rc rl rd rr
        joinR c l m.1 m.2
    else joinR c l d (del (i - size l - 1) r)

/-- `rb_remove` + `rb_remove_color` (which ends with a black root) -/
def remove (i : Nat) (t : T α) : T α := blacken (del i t).1

/-! ## `rb_find` -/

/-- in-order position `rb_find(rbt, target)` stops at.  `cmp d` = `rb_compare(d, target)`, `is d` = `RBN_DNODE(d) == target`.
    Descent: `> 0` left, `< 0` right, `== 0`: this node if it is the target, otherwise the sequential search over the
    neighbours with the same value (predecessors first, then successors), each of which stops at the first unequal value. -/
def findPivot (cmp : α → Int) (is : α → Bool) : T α → Nat → Option (Nat × Bool)
  | .nil, _ => none
  | .node _ l d r, off =>
    if cmp d > 0 then findPivot cmp is l off
    else if cmp d < 0 then findPivot cmp is r (off + size l + 1)
    else some (off + size l, is d)

/-- the sequential part: from the pivot backwards while the value is equal, then forwards -/
def findSeq (cmp : α → Int) (is : α → Bool) (xs : List α) (p : Nat) : Option Nat :=
  let before := ((xs.take p).reverse.takeWhile (fun d => cmp d == 0))
  match before.findIdx? is with
  | some k => some (p - 1 - k)
  | none =>
    let after := ((xs.drop (p + 1)).takeWhile (fun d => cmp d == 0))
    (after.findIdx? is).map (fun k => p + 1 + k)

def find (cmp : α → Int) (is : α → Bool) (t : T α) : Option Nat :=
  match t with
  | .nil => none
  | .node _ l d _ =>
    if is d then some (size l)                                    -- `if (RBN_DNODE(rbt) == target) return rbt;`
    else match findPivot cmp is t 0 with
      | none => none
      | some (p, true) => some p
      | some (p, false) => findSeq cmp is (inorder t) p

/-! ## the `lyds_tree` metadata of a (leaf-)list: where the root pointer lives -/

/-- What the instances of one system-ordered (leaf-)list carry besides the sibling links: `tree` = the red-black tree the
    metadata `lyds_tree` of the FIRST instance points to (`nil` = no tree yet: it is created by the first `lyds_insert` that finds a
    leader, `lyds_additionally_create_rb_tree`), `n` = number of instances. -/
structure Lyds (α : Type) where
  tree : T α
  n : Nat

def Lyds.empty : Lyds α := ⟨.nil, 0⟩

/-- the tree `lyds_insert` works on: the one the leader's metadata points to, or — none yet (one instance only; or a list that
    was parsed with `LYD_PARSE_ORDERED` / produced by `lyd_dup_*`, whose instances are in order but have no tree) — the one
    `lyds_additionally_create_rb_tree` builds from the instances present `l`: the leader as black root, the others
    `rb_insert_node`d in sibling order -/
def Lyds.base (gt : α → α → Bool) (t : T α) (l : List α) : T α :=
  match t with
  | .nil => l.foldl (fun t x => Rb.insert gt x t) .nil
  | t => t

/-- `lyd_insert_node` → `lyds_insert`: no leader → plain link, no tree; else `rb_insert_node` into `Lyds.base`
    (`l` = the instances present, in sibling order) -/
def Lyds.insert (gt : α → α → Bool) (l : List α) (x : α) (s : Lyds α) : Lyds α :=
  if s.n = 0 then ⟨.nil, 1⟩
  else ⟨Rb.insert gt x (Lyds.base gt s.tree l), s.n + 1⟩

/-- `lyd_unlink` → `lyds_unlink(&leader, node)`: nothing if the leader has no metadata or is alone (the metadata and a
    one-node tree stay on the unlinked node and go with it); else the metadata moves to the second instance when the
    leader leaves (`lyds_move_meta`), and `rb_remove_node` takes the node out and stores the new root in the metadata -/
def Lyds.unlink (i : Nat) (s : Lyds α) : Lyds α :=
  if s.n ≤ 1 then ⟨.nil, 0⟩
  else ⟨Rb.remove i s.tree, s.n - 1⟩

/-- `lyd_unlink_siblings(node)` with `node` the `i`-th instance → `lyds_split`: from the leader on (`i = 0`) the whole list leaves
    with its metadata and tree; otherwise `node` and every following instance is taken out of the tree by `rb_remove_node`, one
    after the other (each time the node now at position `i`), and the detached instances have no tree -/
def Lyds.split (i : Nat) (s : Lyds α) : Lyds α :=
  if i = 0 then ⟨.nil, 0⟩
  else if s.n ≤ i then s
  else ⟨(List.replicate (s.n - i) i).foldl (fun t j => Rb.remove j t) s.tree, i⟩

/-- `lyds_insert2` (bulk merge with `LYD_MERGE_DESTRUCT`, red-black nodes and metadata taken from the `lyds_pool` of the source
    list instead of the allocator): no leader → plain link; a leader without tree → `lyds_additionally_reuse_rb_tree` (pooled
    node reset to the leader = black root, the other instances inserted; `lyds_additionally_create_rb_nodes` when the pool runs
    dry) — the same tree as `lyds_additionally_create_rb_tree` builds; then `rb_insert_node` of the (reset) pooled node.  Where
    the memory of a red-black node comes from does not show in the tree: the SHAPE is that of `Lyds.insert`. -/
def Lyds.insert2 (gt : α → α → Bool) (l : List α) (x : α) (s : Lyds α) : Lyds α := Lyds.insert gt l x s

/-- `lyds_pool_add(leader_src, pool)` at the start of a merge with `LYD_MERGE_DESTRUCT`: the metadata is unlinked from the source
    leader and the whole tree goes to the pool of free red-black nodes — the source instances keep their order, without a tree -/
def Lyds.poolAdd (s : Lyds α) : Lyds α := ⟨.nil, s.n⟩

/-- one source instance that the target lacks is moved: `lyd_unlink_ignore_lyds` on the source side (no tree there any more),
    `lyds_insert2` on the target side.  State: ((target record, target instances), (source record, source instances)). -/
def destructStep (gt : α → α → Bool) (st : (Lyds α × List α) × (Lyds α × List α)) (i : Nat) :
    (Lyds α × List α) × (Lyds α × List α) :=
  match st.2.2[i]? with
  | none => st
  | some x =>
    ((st.1.1.insert2 gt st.1.2 x, st.1.2.takeWhile (fun e => !gt e x) ++ x :: st.1.2.dropWhile (fun e => !gt e x)),
     (⟨.nil, st.2.1.n - 1⟩, st.2.2.eraseIdx i))

/-- `lyd_dup_siblings(first, parent, …)` of the instances `copies` of one system-ordered (leaf-)list into a parent whose instances
    are `st.2` — the sibling loop of `lyd_dup` with its `first_llist` fast path.  The FIRST copy is linked with
    `LYD_INSERT_NODE_DEFAULT` (sorted place; `lyds_insert` if the parent has a leader).  The following copies are appended with
    `LYD_INSERT_NODE_LAST` — no search, no `lyds_insert`, so no red-black node — as long as `first_llist` stays set: it is
    cleared when the first copy did not become the last sibling (`dup->next`), and when it did but the parent had earlier
    instances (`dup->prev->schema == dup->schema`: their sorting tree exists now and every following copy must go into it).
    Otherwise every following copy is linked with `LYD_INSERT_NODE_DEFAULT` like the first. -/
def Lyds.dupInto (gt : α → α → Bool) (st : Lyds α × List α) : List α → Lyds α × List α
  | [] => st
  | x :: rest =>
    let ins := fun (s : Lyds α × List α) (y : α) =>
      (s.1.insert gt s.2 y, s.2.takeWhile (fun e => !gt e y) ++ y :: s.2.dropWhile (fun e => !gt e y))
    let st1 := ins st x
    let becameLast := st.2.all (fun e => !gt e x)
    let hadInstances := !st.2.isEmpty
    if becameLast && !hadInstances then
      rest.foldl (fun s y => ((⟨s.1.tree, s.1.n + 1⟩ : Lyds α), s.2 ++ [y])) st1
    else rest.foldl ins st1

end LyModel.Sib.Rb
