import LyModel.Sib.Model
/-!
Duplicate instances of a leaf / container under one parent: the children hash table then holds several records under the same
schema-only hash, and which one `lyht_find` meets first is decided by the ORDER of the collision chain (insertion order).
`HtOrd` states that order against the sibling order; with it the hash lookup of a schema node is the first instance again.
-/
namespace LyModel.Sib

/-- the records filed under the schema-only hash of `x`, in table (chain) order, are the instances of `x` in sibling order -/
def HtOrd (x : SRef) (recs : List Rec) (nodes : List Node) : Prop :=
  (recs.filter (fun r => r.1 == HKey.sch x)).map (·.2) = (nodes.filter (fun n => n.sch == some x)).map (·.id)

theorem find_eq_head_filter {α : Type} (p : α → Bool) : ∀ l : List α, l.find? p = (l.filter p).head?
  | [] => rfl
  | a :: l => by
    by_cases h : p a = true
    · simp [List.find?_cons, List.filter_cons, h]
    · have h' : p a = false := by simpa using h
      rw [List.find?_cons, List.filter_cons]
      simp only [h', Bool.false_eq_true, if_false]
      exact find_eq_head_filter p l

theorem idx_of_first (q : Node → Bool) : ∀ (nodes : List Node), (nodes.map (·.id)).Nodup →
    (((nodes.filter q).head?).map (·.id)).bind (idxOfId nodes) = nodes.findIdx? q
  | [], _ => rfl
  | n :: r, hnd => by
    simp only [List.map_cons, List.nodup_cons] at hnd
    by_cases hq : q n = true
    · simp [List.filter_cons, hq, idxOfId, List.findIdx?_cons]
    · have ih := idx_of_first q r hnd.2
      simp only [List.filter_cons, hq, Bool.false_eq_true, if_false, List.findIdx?_cons]
      rw [← ih]
      cases hh : (r.filter q).head? with
      | none => rfl
      | some m =>
        have hm : m ∈ r := (List.mem_filter.mp (List.mem_of_mem_head? hh)).1
        have hne : (n.id == m.id) = false := by
          have : n.id ≠ m.id := fun e => hnd.1 (by rw [e]; exact List.mem_map.mpr ⟨m, hm, rfl⟩)
          simpa using this
        simp [idxOfId, List.findIdx?_cons, hne]

/-- `lyd_find_sibling_schema` through the hash table returns the FIRST instance also when a leaf / container has several -/
theorem findSchemaHt_first (x : SRef) (recs : List Rec) (nodes : List Node) (h : HtOrd x recs nodes)
    (hnd : (nodes.map (·.id)).Nodup) :
    (findSchemaHt recs x).bind (idxOfId nodes) = nodes.findIdx? (fun e => e.sch == some x) := by
  unfold findSchemaHt
  rw [find_eq_head_filter, ← List.head?_map, h, List.head?_map]
  exact idx_of_first _ nodes hnd

/-- `lyd_insert_hash` of one more instance of the leaf / container `x`, linked behind every instance of `x` that is there
    (`lyd_insert_node`: in front of the first node of a later schema): the record goes to the end of the chain — order kept -/
theorem htOrd_insert_dup (x : SRef) (recs : List Rec) (a b : List Node) (n : Node) (hn : n.sch = some x)
    (hb : ∀ m ∈ b, m.sch ≠ some x) (h : HtOrd x recs (a ++ b)) :
    HtOrd x (recs ++ [(HKey.sch x, n.id)]) (a ++ n :: b) := by
  have hb0 : b.filter (fun m => m.sch == some x) = [] := by
    apply List.filter_eq_nil_iff.mpr
    intro m hm; simpa using hb m hm
  unfold HtOrd at h ⊢
  simp only [List.filter_append, List.map_append, hb0, List.filter_cons, hn, beq_self_eq_true, if_true, List.filter_nil,
    List.map_cons, List.map_nil, List.append_nil] at h ⊢
  rw [h]

/-- records under other keys and nodes of other schema nodes, wherever they go, do not disturb it -/
theorem htOrd_insert_other (x : SRef) (recs : List Rec) (a b : List Node) (n : Node) (r : List Rec) (hn : n.sch ≠ some x)
    (hr : ∀ e ∈ r, e.1 ≠ HKey.sch x) (h : HtOrd x recs (a ++ b)) : HtOrd x (recs ++ r) (a ++ n :: b) := by
  have hr0 : r.filter (fun e => e.1 == HKey.sch x) = [] := by
    apply List.filter_eq_nil_iff.mpr
    intro e he; simpa using hr e he
  have hn0 : (n.sch == some x) = false := by simpa using hn
  unfold HtOrd at h ⊢
  simp only [List.filter_append, List.map_append, hr0, List.filter_cons, hn0, Bool.false_eq_true, if_false, List.map_nil,
    List.append_nil] at h ⊢
  exact h

end LyModel.Sib
