import LyModel.Sib.Model
/-!
# Sib.Tree — a forest of data nodes as a store of sibling lists, and the public editing API on it

Every sibling list (the children of one node, or one top-level group) is a `Sibs` of `Sib/Model.lean`; the API
functions (`lyd_new_*`, `lyd_insert_child/sibling/before/after`, `lyd_unlink_tree`, `lyd_free_tree`,
`lyd_change_term`, `lyd_find_sibling_val`) are the argument checks of `tree_data.c` / `tree_data_new.c` around the
`Sib` operations.  This is what `lydrv` runs against `harness/wb_tree.c` / `api_tree.c`.
-/
namespace LyModel.Sib

/-- one compiled schema node as described by the harness (`schema` descriptor) -/
structure SEnt where
  sid : Nat
  parent : Option Nat
  mod : String
  name : String
  kind : String     -- c lf key ls lu ld lls llu lld
  ktype : String    -- i32 u8 str -
  deriving Repr, Inhabited

inductive Owner where
  | kids (pid : Nat)
  | top (gid : Nat)
  deriving DecidableEq, Repr, Inhabited

structure NInfo where
  id : Nat
  sid : Option Nat          -- none = opaque
  oname : String            -- name of an opaque node
  value : Bytes             -- canonical value (terms), key (lists)
  owner : Owner
  deriving Repr, Inhabited

structure Forest where
  ents : List SEnt
  infos : List NInfo
  lists : List (Owner × Sibs)
  nextGid : Nat
  /-- model `lyd_change_node_value` as the C does it (F19) or with the corrected call order -/
  fixedChange : Bool
  /-- next identity the harness hands to a node it did not name itself (key leaves of `lyd_new_list2`, nodes created along
      a `lyd_new_path`): `register_new` numbers them from 2000 in document order -/
  nextAuto : Nat := 2000
  deriving Inhabited

/-! ## schema descriptor -/

def splitOnChar (s : String) (c : Char) : List String := s.splitOn (String.singleton c)

def parseEnt (s : String) : Option SEnt :=
  match splitOnChar s ',' with
  | [sid, par, mod, name, kind, kt] =>
    match sid.toNat? with
    | some n => some ⟨n, par.toNat?, mod, name, kind, kt⟩
    | none => none
  | _ => none

def parseDesc (s : String) : Option (List SEnt) :=
  ((splitOnChar s ';').filter (· ≠ "")).mapM parseEnt

def showEnt (e : SEnt) : String :=
  toString e.sid ++ "," ++ (match e.parent with | some p => toString p | none => "-") ++ "," ++ e.mod ++ "," ++
    e.name ++ "," ++ e.kind ++ "," ++ e.ktype

def showDesc (l : List SEnt) : String := ";".intercalate (l.map showEnt)

def Forest.ent (f : Forest) (sid : Nat) : Option SEnt := f.ents.find? (·.sid == sid)

/-- module of the top-level ancestor (`lyd_owner_module`) -/
def ownerModFuel (ents : List SEnt) : Nat → SEnt → String
  | 0, e => e.mod
  | k + 1, e =>
    match e.parent with
    | none => e.mod
    | some p => match ents.find? (·.sid == p) with
      | some pe => ownerModFuel ents k pe
      | none => e.mod

def Forest.ownerMod (f : Forest) (e : SEnt) : String := ownerModFuel f.ents f.ents.length e

/-- rank of a module name among the names of modules with top-level nodes (`strcmp` order) -/
def Forest.modRank (f : Forest) (m : String) : Nat :=
  ((f.ents.filter (fun e => e.parent.isNone)).map (·.mod)).eraseDups.filter (· < m) |>.length

def Forest.siblingsOf (f : Forest) (e : SEnt) : List SEnt :=
  match e.parent with
  | some p => f.ents.filter (fun x => x.parent == some p)
  | none => f.ents.filter (fun x => x.parent.isNone && x.mod == e.mod)

def Forest.sref (f : Forest) (e : SEnt) : SRef :=
  ⟨f.modRank (f.ownerMod e), ((f.siblingsOf e).takeWhile (·.sid != e.sid)).length⟩

def kindOf (e : SEnt) : SKind :=
  match e.kind with
  | "c" => .cont
  | "ls" => .list .sys
  | "lu" => .list .user
  | "ld" => .list .dup
  | "lls" => .leaflist .sys
  | "llu" => .leaflist .user
  | "lld" => .leaflist .dup
  | _ => .leaf

/-- the schema as seen from the children of schema node `parent` (`none` = top level) -/
def Forest.schemaFor (f : Forest) (parent : Option Nat) : Schema := fun r =>
  match f.ents.find? (fun e => e.parent == parent && f.sref e == r) with
  | some e => kindOf e
  | none => .leaf

def Forest.info (f : Forest) (id : Nat) : Option NInfo := f.infos.find? (·.id == id)

def Forest.sibs (f : Forest) (o : Owner) : Sibs :=
  match f.lists.find? (·.1 == o) with
  | some p => p.2
  | none => ⟨[], none⟩

def Forest.setSibs (f : Forest) (o : Owner) (s : Sibs) : Forest :=
  let rest := f.lists.filter (·.1 != o)
  { f with lists := if s.nodes.isEmpty && s.ht.isNone then rest else rest ++ [(o, s)] }

def Forest.setInfo (f : Forest) (i : NInfo) : Forest :=
  { f with infos := (f.infos.filter (·.id != i.id)) ++ [i] }

/-- schema node of the parent that owns list `o` (`none`: top level or opaque parent) -/
def Forest.parentSid (f : Forest) (o : Owner) : Option Nat :=
  match o with
  | .top _ => none
  | .kids p => (f.info p).bind (·.sid)

def Forest.dataParentSid (f : Forest) (sid : Nat) : Option Nat := (f.ent sid).bind (·.parent)

/-- schema parent of the nodes of a list, seen from one of its nodes (`lysc_data_parent(node->schema)`); nested
    nodes can also sit in a parent-less group after an unlink, so the list owner does not determine it -/
def Forest.psidOf (f : Forest) (i : NInfo) : Option Nat :=
  match i.sid with
  | some s => f.dataParentSid s
  | none => f.parentSid i.owner

/-- context of list `o` for a node whose schema parent is `psid` -/
def Forest.cx (f : Forest) (o : Owner) (psid : Option Nat) : Cx :=
  { nested := (f.parentSid o).isSome,
    top := psid.isNone,
    nsch := fun m => match psid with
      | none => (f.ents.filter (fun e => e.parent.isNone && f.modRank e.mod == m)).length
      | some _ => (f.ents.filter (fun e => e.parent == psid)).length }

/-! ## values -/

def digitsVal : List UInt8 → Option Nat
  | [] => none
  | l => l.foldlM (fun acc b => if 48 ≤ b ∧ b ≤ 57 then some (acc * 10 + (b.toNat - 48)) else none) 0

def parseInt (b : Bytes) : Option Int :=
  match b with
  | 45 :: r => (digitsVal r).map (fun n => - (n : Int))
  | r => (digitsVal r).map (fun n => (n : Int))

/-- canonical value and ordering key of a lexical value for the type tag; `none` = `LY_EVALID` -/
def storeVal (kt : String) (b : Bytes) : Option (Bytes × Key) :=
  match kt with
  | "i32" =>
    match parseInt b with
    | some i => if -2147483648 ≤ i ∧ i ≤ 2147483647 then some (bytesOfString (toString i), .int i) else none
    | none => none
  | "u8" =>
    match parseInt b with
    | some i => if 0 ≤ i ∧ i ≤ 255 ∧ b.head? ≠ some 45 then some (bytesOfString (toString i), .int i) else none
    | none => none
  | _ => some (b, .str b)

def atomOf : Key → Atom
  | .int i => .int i
  | .str b => .str b
  | .tup _ => .str []

/-! ## the model node of a data node -/

def Forest.nodeOf (f : Forest) (i : NInfo) (key : Key) : Node :=
  match i.sid.bind f.ent with
  | some e => ⟨i.id, some (f.sref e), key⟩
  | none => ⟨i.id, none, key⟩

def Forest.findNode (f : Forest) (id : Nat) : Option Node :=
  (f.info id).bind fun i => (f.sibs i.owner).nodes.find? (·.id == id)

/-! ## dump -/

def dumpFuel (f : Forest) : Nat → Nat → List Node → String
  | 0, _, _ => ""
  | k + 1, depth, l =>
    l.foldl (fun acc n =>
      match f.info n.id with
      | none => acc
      | some i =>
        let nm := match i.sid.bind f.ent with
          | some e => e.mod ++ ":" ++ e.name
          | none => "?:" ++ i.oname
        acc ++ " " ++ toString depth ++ "." ++ toString n.id ++ "." ++ nm ++ "." ++ Hex.enc i.value ++
          dumpFuel f k (depth + 1) (f.sibs (.kids n.id)).nodes) ""

/-- groups in the order of the smallest… of the id of their first node -/
def Forest.dump (f : Forest) : String :=
  let firsts := f.lists.filterMap (fun p => match p.1 with
    | .top _ => p.2.nodes.head?.map (fun n => (n.id, p.2.nodes))
    | .kids _ => none)
  let sorted := firsts.mergeSort (fun a b => a.1 ≤ b.1)
  sorted.foldl (fun acc g => acc ++ " G" ++ dumpFuel f (f.infos.length + 1) 0 g.2) ""

/-- verdict bits the harness computes from the real structures; the model can only ever produce bit 16
    (incrementally maintained `children_ht` content differs from the from-scratch expectation — F19) -/
def Forest.verdict (f : Forest) : Nat :=
  if f.lists.all (fun p => match p.2.ht with
      | none => true
      | some recs => permB recs (htContent (f.schemaFor (f.parentSid p.1)) p.2.nodes)) then 0 else 16

/-! ## API operations -/

inductive Rc where
  | success | einval | evalid | enotfound | enot | eint | eexist
  deriving DecidableEq, Repr

def Rc.name : Rc → String
  | .success => "SUCCESS" | .einval => "EINVAL" | .evalid => "EVALID" | .enotfound => "ENOTFOUND"
  | .enot => "ENOT" | .eint => "EINT" | .eexist => "EEXIST"

/-- result of an op: harness-level refusal, or libyang return code + new state -/
inductive Res where
  | refuse (why : String)
  | done (rc : Rc) (f : Forest)
  | found (rc : Rc) (id : Option Nat)

def Forest.isKeyWithParent (f : Forest) (i : NInfo) : Bool :=
  match i.sid.bind f.ent, i.owner with
  | some e, .kids _ => e.kind == "key"
  | _, _ => false

/-- ids of the subtree rooted at `id` -/
def subtreeFuel (f : Forest) : Nat → Nat → List Nat
  | 0, id => [id]
  | k + 1, id => id :: ((f.sibs (.kids id)).nodes.flatMap (fun n => subtreeFuel f k n.id))

def Forest.subtree (f : Forest) (id : Nat) : List Nat := subtreeFuel f (f.infos.length + 1) id

/-- `lyd_unlink`: take node `id` out of its list; it becomes a group of its own -/
def Forest.unlink (f : Forest) (i : NInfo) : Forest × Option Node :=
  let s := f.sibs i.owner
  match s.nodes.find? (·.id == i.id) with
  | none => (f, none)
  | some n =>
    let S := f.schemaFor (f.psidOf i)
    let s' := unlinkNode S (f.cx i.owner (f.psidOf i)) s i.id
    let f1 := f.setSibs i.owner s'
    let g := f1.nextGid
    let f2 := { f1 with nextGid := g + 1 }
    let f3 := f2.setInfo { i with owner := .top g }
    (f3.setSibs (.top g) ⟨[n], none⟩, some n)

/-- the node (already unlinked: alone in its own group) is taken out of the store of lists -/
def Forest.detach (f : Forest) (i : NInfo) : Forest := f.setSibs i.owner ⟨[], none⟩

/-- "first of a free multi-node sibling list": `lyd_insert_child/sibling` would move all siblings (`lyd_move_nodes`) -/
def Forest.isMultiMove (f : Forest) (i : NInfo) : Bool :=
  match i.owner with
  | .top g =>
    let l := (f.sibs (.top g)).nodes
    (l.head?.map (·.id)) == some i.id && l.length > 1
  | .kids _ => false

/-- insert the unlinked node `n` of info `i` into list `o` by `ins` -/
def Forest.place (f : Forest) (i : NInfo) (o : Owner) (ins : Schema → Cx → Sibs → Sibs) : Forest :=
  match f.info i.id with
  | none => f
  | some i' =>
    let f1 := f.detach i'
    let S := f1.schemaFor (f1.psidOf i')
    let f2 := f1.setSibs o (ins S (f1.cx o (f1.psidOf i')) (f1.sibs o))
    f2.setInfo { i' with owner := o }

def opNew (f : Forest) (id : Nat) (parent : Option Nat) (mod name : String) (v : Bytes) : Res :=
  if (f.info id).isSome || (f.info (id + 1000)).isSome then .refuse "IdInUse" else
  match parent.map f.info with
  | some none => .refuse "NoNode"
  | pinfo =>
    let pinfo : Option NInfo := pinfo.bind (fun x => x)
    if (pinfo.map (fun p => p.sid.isNone)) == some true then .refuse "OpaqParent" else
    let psid := pinfo.bind (·.sid)
    if (psid.bind f.ent).map (fun e => e.kind == "c" || e.kind == "ls" || e.kind == "lu" || e.kind == "ld") == some false then
      .refuse "ParentNotInner" else
    match f.ents.find? (fun e => e.parent == psid && e.mod == mod && e.name == name) with
    | none => .done .enotfound f
    | some e =>
      if e.kind == "key" then .refuse "KeyLeaf" else
      let isList := e.kind == "ls" || e.kind == "lu"
      let isTerm := e.kind == "lf" || e.kind == "lls" || e.kind == "llu" || e.kind == "lld"
      match (if isList || isTerm then storeVal e.ktype v else some ([], .str [])) with
      | none => .done .evalid f
      | some (canon, key) =>
        let g := f.nextGid
        let i : NInfo := ⟨id, some e.sid, "", canon, .top g⟩
        let n : Node := ⟨id, some (f.sref e), key⟩
        let f1 := ({ f with nextGid := g + 1 }.setInfo i).setSibs (.top g) ⟨[n], none⟩
        -- keys of a list: lyd_insert_node(list, NULL, key, LYD_INSERT_NODE_LAST)
        let f2 :=
          if isList then
            match f.ents.find? (fun k => k.parent == some e.sid && k.kind == "key") with
            | some ke =>
              let ki : NInfo := ⟨id + 1000, some ke.sid, "", canon, .kids id⟩
              let kn : Node := ⟨id + 1000, some (f1.sref ke), .str []⟩
              let f1' := f1.setInfo ki
              f1'.setSibs (.kids id) (insertLast (f1'.schemaFor (some e.sid)) (f1'.cx (.kids id) (some e.sid)) (f1'.sibs (.kids id)) kn)
            | none => f1
          else f1
        match parent with
        | none => .done .success f2
        | some p => .done .success (f2.place i (.kids p) (fun S cx s => insertNode S cx s n))

def opNewOpaq (f : Forest) (id : Nat) (parent : Option Nat) (name : String) (v : Bytes) : Res :=
  if (f.info id).isSome || (f.info (id + 1000)).isSome then .refuse "IdInUse" else
  match parent.map f.info with
  | some none => .refuse "NoNode"
  | pinfo =>
    let pinfo : Option NInfo := pinfo.bind (fun x => x)
    if (pinfo.map (fun p => p.sid.isNone)) == some true then .refuse "OpaqParent" else
    let psid := pinfo.bind (·.sid)
    if (psid.bind f.ent).map (fun e => e.kind == "c" || e.kind == "ls" || e.kind == "lu" || e.kind == "ld") == some false then
      .refuse "ParentNotInner" else
    let g := f.nextGid
    let i : NInfo := ⟨id, none, name, v, .top g⟩
    let n : Node := ⟨id, none, .str []⟩
    let f1 := ({ f with nextGid := g + 1 }.setInfo i).setSibs (.top g) ⟨[n], none⟩
    match parent with
    | none => .done .success f1
    | some p => .done .success (f1.place i (.kids p) (fun S cx s => insertLast S cx s n))

def isInnerKind (k : String) : Bool := k == "c" || k == "ls" || k == "lu" || k == "ld"

def opInsChild (f : Forest) (id target : Nat) : Res :=
  match f.info id, f.info target with
  | some i, some t =>
    match t.sid.bind f.ent with
    | none => .refuse "OpaqParent"
    | some te =>
      if id != target && (f.subtree id).contains target then .refuse "Cycle" else
      if !isInnerKind te.kind then .done .einval f else
      -- lyd_insert_check_schema(parent->schema, NULL, node->schema)
      if i.sid.isSome && (i.sid.bind f.dataParentSid) != some te.sid then .done .einval f else
      if f.isMultiMove i then .refuse "OutOfFragment" else
      if f.isKeyWithParent i then .done .einval f else
      match f.findNode id with
      | none => .refuse "NoNode"
      | some n =>
        let (f1, _) := f.unlink i
        .done .success (f1.place i (.kids target) (fun S cx s => insertNode S cx s n))
  | _, _ => .refuse "NoNode"

/-- checks shared by `lyd_insert_sibling/before/after`: `lyd_insert_check_schema(NULL, sibling->schema, node->schema)` -/
def Forest.siblingSchemaOk (f : Forest) (i t : NInfo) : Bool :=
  match i.sid, t.sid with
  | none, _ => true
  | some _, none => true
  | some a, some b => f.dataParentSid a == f.dataParentSid b

def opInsSibling (f : Forest) (id target : Nat) : Res :=
  match f.info id, f.info target with
  | some i, some t =>
    if id != target && (f.subtree id).contains target then .refuse "Cycle" else
    if id == target then .done .einval f else
    if !f.siblingSchemaOk i t then .done .einval f else
    if i.sid.isSome && t.sid.isNone then .refuse "OutOfFragment" else
    (match t.owner with
     | .kids p => if ((f.info p).bind (·.sid)).isNone then some (Res.refuse "OpaqParent") else none
     | .top _ => none).getD <|
    if f.isMultiMove i then .refuse "OutOfFragment" else
    -- node is the first sibling of the target's list: `first_sibling` dangles after the unlink (see findings)
    if ((f.sibs t.owner).nodes.head?.map (fun (x : Node) => x.id)) == some id then .refuse "OutOfFragment" else
    if f.isKeyWithParent i then .done .einval f else
    match f.findNode id with
    | none => .refuse "NoNode"
    | some n =>
      let (f1, _) := f.unlink i
      .done .success (f1.place i t.owner (fun S cx s => insertNode S cx s n))
  | _, _ => .refuse "NoNode"

def opInsRel (after : Bool) (f : Forest) (id target : Nat) : Res :=
  match f.info id, f.info target with
  | some i, some t =>
    if id != target && (f.subtree id).contains target then .refuse "Cycle" else
    if id == target then .done .einval f else
    if !f.siblingSchemaOk i t then .done .einval f else
    match i.sid.bind f.ent with
    | none => .refuse "OutOfFragment"            -- opaque node: accepted by the API anywhere (see findings)
    | some e =>
      if !(kindOf e).userOrd then .done .einval f else
      match t.sid with
      | none => .refuse "OutOfFragment"          -- opaque target
      | some ts =>
        if ts != e.sid then .done .einval f else
        match f.findNode id with
        | none => .refuse "NoNode"
        | some n =>
          let (f1, _) := f.unlink i
          .done .success (f1.place i t.owner (fun S cx s =>
            if after then insertAfter S cx s target n else insertBefore S cx s target n))
  | _, _ => .refuse "NoNode"

def opUnlink (f : Forest) (id : Nat) : Res :=
  match f.info id with
  | none => .refuse "NoNode"
  | some i => if f.isKeyWithParent i then .done .einval f else .done .success (f.unlink i).1

def opFree (f : Forest) (id : Nat) : Res :=
  match f.info id with
  | none => .refuse "NoNode"
  | some i =>
    if f.isKeyWithParent i then .done .einval f else
    let (f1, _) := f.unlink i
    let dead := f1.subtree id
    let f2 := match f1.info id with
      | some i' => f1.detach i'
      | none => f1
    .done .success { f2 with infos := f2.infos.filter (fun x => !dead.contains x.id),
                              lists := f2.lists.filter (fun p => match p.1 with
                                | .kids q => !dead.contains q
                                | .top _ => true) }

/-- change the key of node `id` inside its sibling list (`lyd_change_node_value`, target = leaf-list / list instance) -/
def Forest.rekey (f : Forest) (i : NInfo) (k : Key) : Forest × Bool :=
  let S := f.schemaFor (f.psidOf i)
  let r := if f.fixedChange then changeKeyFixed S (f.cx i.owner (f.psidOf i)) (f.sibs i.owner) i.id k
           else changeKeyC S (f.cx i.owner (f.psidOf i)) (f.sibs i.owner) i.id k
  (f.setSibs i.owner r.1, r.2)

def opChange (f : Forest) (id : Nat) (v : Bytes) : Res :=
  match f.info id with
  | none => .refuse "NoNode"
  | some i =>
    match i.sid.bind f.ent with
    | none => .done .einval f
    | some e =>
      if isInnerKind e.kind then .done .einval f else
      match storeVal e.ktype v with
      | none => .done .evalid f
      | some (canon, key) =>
        if canon == i.value then .done .enot f else
        let f1 := f.setInfo { i with value := canon }
        if e.kind == "lls" || e.kind == "llu" || e.kind == "lld" then
          let (f2, ok) := f1.rekey i key
          .done (if ok then .success else .eint) f2
        else if e.kind == "key" then
          match i.owner with
          | .kids p =>
            match f1.info p with
            | some pi =>
              -- a list with several keys: the changed key's position in the tuple
              let kes := f.ents.filter (fun k => k.parent == pi.sid && k.kind == "key")
              let idx := (kes.takeWhile (·.sid != e.sid)).length
              let newKey : Key := match (f1.findNode p).map (fun (m : Node) => m.key) with
                | some (Key.tup as) => Key.tup (as.set idx (atomOf key))
                | _ => key
              let f2 := if idx == 0 then f1.setInfo { pi with value := canon } else f1
              let (f3, ok) := f2.rekey pi newKey
              .done (if ok then .success else .eint) f3
            | none => .done .success f1
          | .top _ => .done .success f1
        else .done .success f1

/-- `lyd_find_sibling_val(anchor, schema, value)` on the sibling list that contains `anchor` -/
def opFind (f : Forest) (anchor : Nat) (mod name : String) (v : Bytes) : Res :=
  match f.info anchor with
  | none => .refuse "NoNode"
  | some a =>
    match a.sid.bind f.ent with
    | none => .refuse "OutOfFragment"
    | some ae =>
      match f.ents.find? (fun e => e.parent == ae.parent && e.mod == mod && e.name == name) with
      | none => .refuse "NoSchema"
      | some e =>
        let S := f.schemaFor ae.parent
        let cx := f.cx a.owner ae.parent
        let s := f.sibs a.owner
        let k := kindOf e
        if k.listLike && k != .list .dup then
          match storeVal e.ktype v with
          | none => .found .evalid none
          | some (_, key) =>
            match findFirst S cx s ⟨0, some (f.sref e), key⟩ with
            | some r => .found .success (some r)
            | none => .found .enotfound none
        else
          match (findSchema cx s (f.sref e)).bind (fun ix => s.nodes[ix]?) with
          | some n => .found .success (some n.id)
          | none => .found .enotfound none

end LyModel.Sib
