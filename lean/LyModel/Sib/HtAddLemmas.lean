import LyModel.Sib.HtMaintLemmas
/-! `htAdd` (lyd_insert_hash_add) keeps the table exact. -/
namespace LyModel.Sib

theorem firstRec_not_listLike (S : Schema) (q : Option Node) (h : Node) (y : SRef) (hh : h.sch = some y)
    (hl : (S y).listLike = false) : firstRec S q h = [] := by
  simp [firstRec, hh, hl]

theorem sameSch_some_comm (n h : Node) : sameSch (some n) h = sameSch (some h) n := by
  show (n.sch == h.sch) = (h.sch == n.sch)
  by_cases e : n.sch = h.sch
  · rw [e]
  · have e' : ¬ h.sch = n.sch := fun e'' => e e''.symm
    have h1 : (n.sch == h.sch) = false := by simpa using e
    have h2 : (h.sch == n.sch) = false := by simpa using e'
    rw [h1, h2]

/-- the part of the content behind the insertion point, with `n` in front of it or not -/
theorem content_tail_eq (S : Schema) (pa : Option Node) (n : Node) (b : List Node)
    (hloc : ∀ h, b.head? = some h → sameSch pa h = true → sameSch pa n = true)
    (hcase : ∀ h, b.head? = some h → sameSch (some n) h = true →
      sameSch pa n = true ∨ ∃ y, h.sch = some y ∧ (S y).listLike = false) :
    htContentAux S (some n) b = htContentAux S pa b := by
  cases b with
  | nil => simp [htContentAux]
  | cons h t =>
    rw [contentAux_head, contentAux_head]
    congr 2
    by_cases hc : sameSch (some n) h = true
    · rcases hcase h rfl hc with h1 | ⟨y, hy, hl⟩
      · exact firstRec_next_eq S pa n h (hloc h rfl) (fun _ => h1)
      · rw [firstRec_not_listLike S _ h y hy hl, firstRec_not_listLike S _ h y hy hl]
    · exact firstRec_next_eq S pa n h (hloc h rfl) (fun h' => absurd h' hc)

theorem htAdd_perm (S : Schema) (a b : List Node) (n : Node) (x : SRef) (recs : List Rec)
    (hn : n.sch = some x)
    (hperm : recs.Perm (htContent S (a ++ b)))
    (hfresh : ∀ m ∈ a ++ b, m.id ≠ n.id)
    (hloc : ∀ h, b.head? = some h → sameSch a.getLast? h = true → sameSch a.getLast? n = true) :
    ∀ hk, hkeyOf S n = some hk →
    (htAdd S recs a.getLast? n b.head? hk false).1.Perm (htContent S (a ++ n :: b)) ∧
    (htAdd S recs a.getLast? n b.head? hk false).2 = true := by
  intro hk hhk
  have hc : ∀ z, recs.count z = (htContentAux S none a).count z + (htContentAux S a.getLast? b).count z := by
    intro z
    rw [hperm.count_eq z, content_without, List.count_append]
  have hfa : ∀ m ∈ a, m.id ≠ n.id := fun m hm => hfresh m (List.mem_append_left _ hm)
  have hfb : ∀ m ∈ b, m.id ≠ n.id := fun m hm => hfresh m (List.mem_append_right _ hm)
  have hfr : ∀ k, recs.count (k, n.id) = 0 := by
    intro k
    rw [hc, count_content_fresh S a none k n.id hfa, count_content_fresh S b _ k n.id hfb]
  have hnotmem : ∀ k, (k, n.id) ∉ recs := fun k hm => by
    have := List.count_pos_iff.mpr hm
    rw [hfr k] at this
    exact Nat.lt_irrefl _ this
  rw [content_with]
  cases hl : (S x).listLike with
  | false =>
    have hkeq : hk = HKey.sch x := by
      simp [hkeyOf, hn, hl] at hhk; exact hhk.symm
    subst hkeq
    have hown : ownRec S n = [(HKey.sch x, n.id)] := by simp [ownRec, hn, hl]
    have hfirst : firstRec S a.getLast? n = [] := by simp [firstRec, hn, hl]
    have htail : htContentAux S (some n) b = htContentAux S a.getLast? b := by
      apply content_tail_eq S _ n b hloc
      intro h _ hcs
      right
      have : n.sch = h.sch := by simpa [sameSch] using hcs
      exact ⟨x, by rw [← this, hn], hl⟩
    have hadd : htAdd S recs a.getLast? n b.head? (HKey.sch x) false = (recs ++ [(HKey.sch x, n.id)], true) := by
      unfold htAdd; rw [hn]; simp [hl]
    rw [hadd]
    refine ⟨?_, rfl⟩
    show (recs ++ [(HKey.sch x, n.id)]).Perm _
    rw [hown, hfirst, htail]
    apply List.perm_iff_count.mpr
    intro z
    simp only [List.count_append, hc z, List.append_nil]
    omega
  | true =>
    have hkeq : hk = HKey.inst x n.key := by
      simp [hkeyOf, hn, hl] at hhk; exact hhk.symm
    subst hkeq
    have hown : ownRec S n = [(HKey.inst x n.key, n.id)] := by simp [ownRec, hn, hl]
    cases hB : sameSch a.getLast? n with
    | true =>
      have hfirst : firstRec S a.getLast? n = [] := by simp [firstRec, hn, hl, hB]
      have htail : htContentAux S (some n) b = htContentAux S a.getLast? b :=
        content_tail_eq S _ n b hloc (fun _ _ _ => Or.inl hB)
      have hadd : htAdd S recs a.getLast? n b.head? (HKey.inst x n.key) false = (recs ++ [(HKey.inst x n.key, n.id)], true) := by
        unfold htAdd; rw [hn]; simp [hl, hB]
      rw [hadd]
      refine ⟨?_, rfl⟩
      show (recs ++ [(HKey.inst x n.key, n.id)]).Perm _
      rw [hown, hfirst, htail]
      apply List.perm_iff_count.mpr
      intro z
      simp only [List.count_append, hc z, List.append_nil]
      omega
    | false =>
      have hfirst : firstRec S a.getLast? n = [(HKey.sch x, n.id)] := by simp [firstRec, hn, hl, hB]
      have hne1 : ((HKey.sch x, n.id) : Rec) ≠ (HKey.inst x n.key, n.id) := by simp
      have hnm1 : (HKey.sch x, n.id) ∉ recs ++ [(HKey.inst x n.key, n.id)] := by
        intro hm
        rcases List.mem_append.mp hm with h1 | h1
        · exact hnotmem _ h1
        · simp at h1
      cases b with
      | nil =>
        have hnone : sameSch none n = false := rfl
        have hadd : htAdd S recs a.getLast? n ([] : List Node).head? (HKey.inst x n.key) false =
            (recs ++ [(HKey.inst x n.key, n.id)] ++ [(HKey.sch x, n.id)], true) := by
          unfold htAdd; rw [hn]
          simp [hl, hB, hnone, hnm1]
        rw [hadd]
        refine ⟨?_, rfl⟩
        show (recs ++ [(HKey.inst x n.key, n.id)] ++ [(HKey.sch x, n.id)]).Perm _
        rw [hown, hfirst]
        apply List.perm_iff_count.mpr
        intro z
        have := hc z
        simp only [htContentAux, List.count_nil, Nat.add_zero] at this
        simp only [List.count_append, this, htContentAux, List.count_nil, Nat.add_zero]
        omega
      | cons h t =>
        cases hC : sameSch (some h) n with
        | true =>
          -- `h` was the first instance: its record is handed over to `n`
          have hhs : h.sch = some x := by
            have : h.sch = n.sch := by simpa [sameSch] using hC
            rw [this, hn]
          have hBh : sameSch a.getLast? h = false := by
            cases hp : a.getLast? with
            | none => simp [sameSch]
            | some p =>
              rw [hp] at hB
              simp only [sameSch, hn] at hB
              simp only [sameSch, hhs]
              exact hB
          have hfh : firstRec S a.getLast? h = [(HKey.sch x, h.id)] := by simp [firstRec, hhs, hl, hBh]
          have hfh' : firstRec S (some n) h = [] := by
            have : sameSch (some n) h = true := by rw [sameSch_some_comm]; exact hC
            simp [firstRec, hhs, hl, this]
          have hcnt : recs.count (HKey.sch x, h.id) ≥ 1 := by
            rw [hc, contentAux_head, hfh]
            simp only [List.count_append, List.count_singleton, beq_self_eq_true, if_true]
            omega
          have hmem1 : (HKey.sch x, h.id) ∈ recs ++ [(HKey.inst x n.key, n.id)] :=
            List.mem_append_left _ (List.count_pos_iff.mp hcnt)
          have hnm2 : (HKey.sch x, n.id) ∉ (recs ++ [(HKey.inst x n.key, n.id)]).erase (HKey.sch x, h.id) :=
            fun hm => hnm1 (List.mem_of_mem_erase hm)
          have hadd : htAdd S recs a.getLast? n (h :: t).head? (HKey.inst x n.key) false =
              ((recs ++ [(HKey.inst x n.key, n.id)]).erase (HKey.sch x, h.id) ++ [(HKey.sch x, n.id)], true) := by
            unfold htAdd; rw [hn]
            simp only [hl, hB, List.head?_cons, hC, Bool.not_false, Bool.and_self, if_true, hmem1, hnm2, if_false]
          rw [hadd]
          refine ⟨?_, rfl⟩
          show ((recs ++ [(HKey.inst x n.key, n.id)]).erase (HKey.sch x, h.id) ++ [(HKey.sch x, n.id)]).Perm _
          rw [hown, hfirst, contentAux_head, hfh']
          apply List.perm_iff_count.mpr
          intro z
          have hz := hc z
          rw [contentAux_head, hfh] at hz
          simp only [List.count_append] at hz
          simp only [List.count_append, List.count_erase, hz, List.append_nil, List.count_singleton, List.count_nil]
          split <;> omega
        | false =>
          have htail : htContentAux S (some n) (h :: t) = htContentAux S a.getLast? (h :: t) := by
            apply content_tail_eq S _ n (h :: t) hloc
            intro h' hh' hcs
            simp only [List.head?_cons, Option.some.injEq] at hh'
            subst hh'
            rw [sameSch_some_comm, hC] at hcs
            cases hcs
          have hadd : htAdd S recs a.getLast? n (h :: t).head? (HKey.inst x n.key) false =
              (recs ++ [(HKey.inst x n.key, n.id)] ++ [(HKey.sch x, n.id)], true) := by
            unfold htAdd; rw [hn]
            simp [hl, hB, hC, hnm1]
          rw [hadd]
          refine ⟨?_, rfl⟩
          show (recs ++ [(HKey.inst x n.key, n.id)] ++ [(HKey.sch x, n.id)]).Perm _
          rw [hown, hfirst, htail]
          apply List.perm_iff_count.mpr
          intro z
          simp only [List.count_append, hc z]
          omega

end LyModel.Sib
