import LyModel.Sib.RbRefine
/-!
The concrete state under `lyd_change_node_value` (corrected call order, `changeKeyFixed`): an instance of `x` that is not alone
is `lyd_unlink_tree`d (→ `lyds_unlink`) and re-inserted by `lyd_insert_node` (→ `lyds_insert`); a lone instance keeps its
place, and its one-node tree — if it has one — keeps its shape (the red-black node points to the same data node).
-/
namespace LyModel.Sib
open Rb

/-- `cstep` with the corrected change-value op included -/
def cstepF (S : Schema) (cx : Cx) (x : SRef) (c : CSibs) (o : Op) : CSibs :=
  match o with
  | .change id k =>
    ⟨step S cx true c.sibs (.change id k),
      match splitAtId id c.sibs.nodes with
      | some (a, n, b) =>
        if n.sch = some x then
          if !isAlone a n b then
            (c.lyds.unlink (block x a).length).insert keyGt (block x (a ++ b)) { n with key := k }
          else
            ⟨match c.lyds.tree with
              | .nil => .nil
              | .node _ _ _ _ => .node .black .nil { n with key := k } .nil, c.lyds.n⟩
        else c.lyds
      | none => c.lyds⟩
  | o => cstep S cx true x c o

def crunF (S : Schema) (cx : Cx) (x : SRef) : CSibs → List Op → CSibs
  | c, [] => c
  | c, o :: r => crunF S cx x (cstepF S cx x c o) r

theorem cstepF_sibs (S : Schema) (cx : Cx) (x : SRef) (c : CSibs) (o : Op) :
    (cstepF S cx x c o).sibs = step S cx true c.sibs o := by
  cases o <;> rfl

theorem crunF_sibs (S : Schema) (cx : Cx) (x : SRef) : ∀ (ops : List Op) (c : CSibs),
    (crunF S cx x c ops).sibs = runOps S cx true c.sibs ops
  | [], _ => rfl
  | o :: r, c => by simp only [crunF, runOps]; rw [crunF_sibs S cx x r, cstepF_sibs]

/-- the re-keyed node may be inserted into the list without the old one -/
theorem newOk_rekey (S : Schema) (cx : Cx) (s : Sibs) (a b : List Node) (n : Node) (y : SRef) (k : Key) (ht : Option (List Rec))
    (h : Inv S cx s) (e1 : s.nodes = a ++ n :: b) (hsch : n.sch = some y) :
    NewOk S cx ⟨a ++ b, ht⟩ { n with key := k } := by
  have hnd : ((a ++ n :: b).map (·.id)).Nodup := by rw [← e1]; exact h.nodup
  obtain ⟨hfa, hfb, _, _, _⟩ := nodup_split_ids hnd
  have hnmem : n ∈ s.nodes := by rw [e1]; exact List.mem_append_right _ (List.mem_cons_self ..)
  have hsub : ∀ e, e ∈ a ++ b → e ∈ s.nodes := by
    intro e he
    rw [e1]
    rcases List.mem_append.mp he with h1 | h1
    · exact List.mem_append_left _ h1
    · exact List.mem_append_right _ (List.mem_cons_of_mem _ h1)
  have hidne : ∀ e ∈ a ++ b, e.id ≠ n.id := by
    intro e he
    rcases List.mem_append.mp he with h1 | h1
    · exact hfa e h1
    · exact hfb e h1
  refine ⟨fun m hm => hidne m hm, ?_, ?_, ?_⟩
  · intro z hz
    have hz' : n.sch = some z := hz
    exact h.range n hnmem z hz'
  · intro htop e he z w hz hw
    have hw' : n.sch = some w := hw
    exact h.oneMod htop e (hsub e he) n hnmem z w hz hw'
  · intro e he z hz hw
    have hw' : n.sch = some z := hw
    cases hl : (S z).listLike with
    | true => rfl
    | false =>
      have := h.single e (hsub e he) n hnmem z hz hw' hl
      exact absurd (by rw [this]) (hidne e he)

theorem cstepF_ok (S : Schema) (cx : Cx) (x : SRef) (hx : (S x).sorted = true) (c : CSibs) (o : Op)
    (h : Inv S cx c.sibs) (hok : OpOk S cx c.sibs o) (href : LydsOk c.lyds (block x c.sibs.nodes)) :
    LydsOk (cstepF S cx x c o).lyds (block x (cstepF S cx x c o).sibs.nodes) := by
  cases o with
  | insert n => exact cstep_ok S cx true x hx c _ h hok rfl href
  | unlink id => exact cstep_ok S cx true x hx c _ h hok rfl href
  | before t n => exact cstep_ok S cx true x hx c _ h hok rfl href
  | after t n => exact cstep_ok S cx true x hx c _ h hok rfl href
  | change id k =>
    have hbs := block_sorted S x hx _ h.sorted
    simp only [cstepF, step, if_true, changeKeyFixed]
    cases hsp : splitAtId id c.sibs.nodes with
    | none => exact href
    | some t =>
      obtain ⟨a, n, b⟩ := t
      obtain ⟨hl, _⟩ := splitAtId_spec _ _ _ _ _ hsp
      simp only
      cases hsch : n.sch with
      | none =>
        have hn : ¬ (none : Option SRef) = some x := by simp
        simp only [hn, if_false]
        exact href
      | some y =>
        have hun : unlinkNode S cx c.sibs id = ⟨a ++ b, unlinkHash S cx c.sibs a n b (hkeyOf S n)⟩ := by
          simp [unlinkNode, hsp]
        have hinvU : Inv S cx ⟨a ++ b, unlinkHash S cx c.sibs a n b (hkeyOf S n)⟩ := by
          rw [← hun]; exact inv_unlinkNode S cx c.sibs id h
        have hn'eq : ({ id := n.id, sch := some y, key := k } : Node) = { n with key := k } := by
          cases n; simp at hsch; simp [hsch]
        have hnew : NewOk S cx ⟨a ++ b, unlinkHash S cx c.sibs a n b (hkeyOf S n)⟩ { id := n.id, sch := some y, key := k } := by
          rw [hn'eq]; exact newOk_rekey S cx c.sibs a b n y k _ h hl hsch
        have hsch' : ({ id := n.id, sch := some y, key := k } : Node).sch = some y := rfl
        by_cases hyx : y = x
        · subst hyx
          have hyy : (some y : Option SRef) = some y := rfl
          simp only [hyy, if_true, hx, Bool.and_true]
          rw [hl, block_append, block_cons_same y n b hsch] at href hbs
          by_cases hal : isAlone a n b = true
          · -- a lone instance: changed in place
            simp only [hal, Bool.not_true, Bool.false_eq_true, if_false]
            have hal' : sameSch a.getLast? n = false ∧ sameSch b.head? n = false := by simpa [isAlone] using hal
            have hs' : (a ++ n :: b).Pairwise (fun p q => nle S p q = true) := by rw [← hl]; exact h.sorted
            have hno := alone_no_inst S a b n hs' hal'.1 hal'.2
            have hba : block y a = [] := by
              apply List.filter_eq_nil_iff.mpr
              intro e he hes
              exact hno e (List.mem_append_left _ he) (by rw [hsch]; simpa using hes)
            have hbb : block y b = [] := by
              apply List.filter_eq_nil_iff.mpr
              intro e he hes
              exact hno e (List.mem_append_right _ he) (by rw [hsch]; simpa using hes)
            rw [block_append, block_cons_same y _ b hsch', hba, hbb]
            rw [hba, hbb] at href
            obtain ⟨hn1, hrb, ht⟩ := href
            cases htr : c.lyds.tree with
            | nil =>
              refine ⟨by simpa using hn1, isRB_nil, Or.inl rfl⟩
            | node cc l d r =>
              refine ⟨by simpa using hn1, ⟨⟨trivial, trivial, rfl⟩, ⟨trivial, trivial, by simp⟩, rfl⟩, Or.inr rfl⟩
          · -- lyd_unlink_tree + lyd_insert_node
            have hal' : isAlone a n b = false := by simpa using hal
            simp only [hal', Bool.not_false, if_true]
            have hlt : (block y a).length < (block y a ++ n :: block y b).length := by simp
            obtain ⟨g1, g2⟩ := lyds_step_ok keyGt keyGt_total keyGt_trans c.lyds _ (.del (block y a).length) href hbs
            simp only [lydsStep, hlt, if_true] at g1 g2
            rw [List.eraseIdx_append_of_length_le (Nat.le_refl _)] at g1 g2
            simp only [Nat.sub_self, List.eraseIdx_cons_zero, ← block_append] at g1 g2
            have g3 := (lyds_step_ok keyGt keyGt_total keyGt_trans _ _ (.ins { id := n.id, sch := some y, key := k }) g1 g2).1
            simp only [lydsStep] at g3
            have hsab : (a ++ b).Pairwise (fun p q => nle S p q = true) := hinvU.sorted
            rw [← hun] at hinvU hnew
            rw [insertNode_nodes S cx _ _ hinvU hnew, hun]
            simp only
            rw [block_sins_same S y hx _ hsch' (a ++ b) hsab]
            exact g3
        · have hn : ¬ (some y : Option SRef) = some x := by simpa using hyx
          have hn' : ({ id := n.id, sch := some y, key := k } : Node).sch ≠ some x := by rw [hsch']; exact hn
          have hnn : n.sch ≠ some x := by rw [hsch]; exact hn
          simp only [hn, if_false]
          have hb0 : block x (a ++ b) = block x c.sibs.nodes := by
            rw [hl, block_append, block_append, block_cons_other x n b hnn]
          by_cases hcnd : (!isAlone a n b && (S y).sorted) = true
          · simp only [hcnd, if_true]
            rw [← hun] at hinvU hnew
            rw [insertNode_nodes S cx _ _ hinvU hnew, hun]
            simp only
            rw [block_sins_other x _ hn', hb0]
            exact href
          · have hcnd' : (!isAlone a n b && (S y).sorted) = false := by simpa using hcnd
            simp only [hcnd', Bool.false_eq_true, if_false]
            rw [block_append, block_cons_other x _ b hn', ← block_append, hb0]
            exact href

theorem crunF_ok (S : Schema) (cx : Cx) (x : SRef) (hx : (S x).sorted = true) : ∀ (ops : List Op) (c : CSibs),
    Inv S cx c.sibs → HistOk S cx true c.sibs ops → LydsOk c.lyds (block x c.sibs.nodes) →
    Inv S cx (crunF S cx x c ops).sibs ∧
      LydsOk (crunF S cx x c ops).lyds (block x (crunF S cx x c ops).sibs.nodes)
  | [], _, h, _, href => ⟨h, href⟩
  | o :: r, c, h, hok, href => by
    have h' : Inv S cx (cstepF S cx x c o).sibs := by
      rw [cstepF_sibs]; exact inv_step_gen S cx true c.sibs o h hok.1 (Or.inl rfl)
    have hok' : HistOk S cx true (cstepF S cx x c o).sibs r := by rw [cstepF_sibs]; exact hok.2
    exact crunF_ok S cx x hx r _ h' hok' (cstepF_ok S cx x hx c o h hok.1 href)

end LyModel.Sib
