import LyModel.Sib.RbMerge
import LyModel.Sib.RbReach
/-! `lyds_merge`: the resulting tree is a valid red-black tree whose in-order sequence is a sorted permutation of both lists. -/
namespace LyModel.Sib.Rb
open LyModel.Sib

variable {α : Type}

theorem iterOrder_perm : ∀ t : T α, (iterOrder t).Perm (inorder t)
  | .nil => List.Perm.refl _
  | .node _ l d r => by
    simp only [iterOrder, inorder]
    have h1 := iterOrder_perm l
    have h2 := iterOrder_perm r
    -- l' ++ r' ++ [d]  ~  l ++ d :: r
    have : (iterOrder l ++ iterOrder r ++ [d]).Perm (iterOrder l ++ (d :: iterOrder r)) := by
      rw [List.append_assoc]
      exact List.Perm.append_left _ (List.perm_append_singleton d _)
    exact this.trans (List.Perm.append h1 (List.Perm.cons d h2))

section
variable (gt : α → α → Bool)
variable (total : ∀ a b, gt a b = false ∨ gt b a = false)
variable (trans : ∀ a b c, gt a b = false → gt b c = false → gt a c = false)

include total trans in
/-- any number of `rb_insert_node`s -/
theorem insertAll_ok (xs : List α) : ∀ (t : T α), IsRB t → (inorder t).Pairwise (fun a b => gt a b = false) →
    IsRB (xs.foldl (fun t x => Rb.insert gt x t) t) ∧
    (inorder (xs.foldl (fun t x => Rb.insert gt x t) t)).Pairwise (fun a b => gt a b = false) ∧
    (inorder (xs.foldl (fun t x => Rb.insert gt x t) t)).Perm (inorder t ++ xs) := by
  induction xs with
  | nil => intro t h hs; exact ⟨h, hs, by simp⟩
  | cons x r ih =>
    intro t h hs
    simp only [List.foldl_cons]
    have hi := inorder_insert gt trans x t hs
    have hs' : (inorder (Rb.insert gt x t)).Pairwise (fun a b => gt a b = false) := by
      rw [hi]; exact sins_sorted_gt gt total trans x _ hs
    obtain ⟨g1, g2, g3⟩ := ih _ (insert_isRB gt x t h) hs'
    refine ⟨g1, g2, g3.trans ?_⟩
    rw [hi]
    have := sins_perm (fun a b => !gt a b) x (inorder t)
    -- sins x l ++ r ~ (x :: l) ++ r ~ l ++ x :: r
    exact (List.Perm.append_right r this).trans (by simpa using (List.perm_middle (a := x) (l₁ := inorder t) (l₂ := r)).symm)

include total trans in
theorem mergeTree_ok (dst : T α) (dl : List α) (src : T α) (sl : List α)
    (hd : IsRB dst) (hdl : dst = T.nil ∨ inorder dst = dl)
    (hds : dl.Pairwise (fun a b => gt a b = false))
    (hs : IsRB src) (hsl : src = T.nil ∨ inorder src = sl) (hss : sl.Pairwise (fun a b => gt a b = false)) :
    IsRB (mergeTree gt dst dl src sl) ∧
    (inorder (mergeTree gt dst dl src sl)).Pairwise (fun a b => gt a b = false) ∧
    (inorder (mergeTree gt dst dl src sl)).Perm (dl ++ sl) := by
  cases src with
  | nil =>
    -- lyds_merge_nodes1
    have hbase := base_ok gt trans dst dl hd hdl hds
    have hm : mergeTree gt dst dl T.nil sl = sl.foldl (fun t x => Rb.insert gt x t) (Lyds.base gt dst dl) := by
      cases dst <;> rfl
    rw [hm]
    obtain ⟨g1, g2, g3⟩ := insertAll_ok gt total trans sl _ hbase.1 (by rw [hbase.2]; exact hds)
    exact ⟨g1, g2, by rw [hbase.2] at g3; exact g3⟩
  | node c' l' d' r' =>
    have hin : inorder (T.node c' l' d' r') = sl := by
      rcases hsl with h | h
      · cases h
      · exact h
    cases dst with
    | nil =>
      -- lyds_merge_nodes2
      have hm : mergeTree gt T.nil dl (T.node c' l' d' r') sl = dl.foldl (fun t x => Rb.insert gt x t) (T.node c' l' d' r') := rfl
      rw [hm]
      obtain ⟨g1, g2, g3⟩ := insertAll_ok gt total trans dl _ hs (by rw [hin]; exact hss)
      exact ⟨g1, g2, g3.trans (by rw [hin]; exact List.perm_append_comm)⟩
    | node c l d r =>
      -- lyds_merge_nodes3
      have hind : inorder (T.node c l d r) = dl := by
        rcases hdl with h | h
        · cases h
        · exact h
      have hm : mergeTree gt (T.node c l d r) dl (T.node c' l' d' r') sl =
          (iterOrder (T.node c' l' d' r')).foldl (fun t x => Rb.insert gt x t) (T.node c l d r) := rfl
      rw [hm]
      obtain ⟨g1, g2, g3⟩ := insertAll_ok gt total trans (iterOrder (T.node c' l' d' r')) _ hd (by rw [hind]; exact hds)
      refine ⟨g1, g2, g3.trans ?_⟩
      rw [hind, ← hin]
      exact List.Perm.append_left _ (iterOrder_perm _)

end

end LyModel.Sib.Rb
