import LyModel.Sib.RbDel
import LyModel.Sib.RbLemmas
/-! Stage 2, removal: the in-order sequence after `Rb.del` / `Rb.remove` is the sequence with that position erased. -/
namespace LyModel.Sib.Rb

variable {α : Type}

theorem size_eq_length : ∀ t : T α, size t = (inorder t).length
  | .nil => rfl
  | .node _ l d r => by simp [size, inorder, size_eq_length l, size_eq_length r]; omega

theorem inorder_balL' (pc : Color) (x : T α) (pd : α) (s : T α) :
    inorder (balL' pc x pd s).1 = inorder x ++ pd :: inorder s := by
  unfold balL'
  cases s with
  | nil => simp [inorder]
  | node sc sl sd sr =>
    simp only
    split
    · simp [inorder]
    · split
      · cases sl with
        | nil => simp [inorder, inorder_blacken]
        | node c a y b => simp [inorder, blacken, List.append_assoc]
      · simp [inorder, inorder_blacken, List.append_assoc]

theorem inorder_balL (pc : Color) (x : T α) (pd : α) (s : T α) :
    inorder (balL pc x pd s).1 = inorder x ++ pd :: inorder s := by
  unfold balL
  split
  · simp [inorder, inorder_balL', List.append_assoc]
  · exact inorder_balL' pc x pd s

theorem inorder_balR' (pc : Color) (s : T α) (pd : α) (x : T α) :
    inorder (balR' pc s pd x).1 = inorder s ++ pd :: inorder x := by
  unfold balR'
  cases s with
  | nil => simp [inorder]
  | node sc sl sd sr =>
    simp only
    split
    · simp [inorder]
    · split
      · cases sr with
        | nil => simp [inorder, inorder_blacken]
        | node c b y a => simp [inorder, blacken, List.append_assoc]
      · simp [inorder, inorder_blacken, List.append_assoc]

theorem inorder_balR (pc : Color) (s : T α) (pd : α) (x : T α) :
    inorder (balR pc s pd x).1 = inorder s ++ pd :: inorder x := by
  unfold balR
  split
  · simp [inorder, inorder_balR', List.append_assoc]
  · exact inorder_balR' pc s pd x

theorem inorder_splice (c : Color) (ch : T α) : inorder (splice c ch).1 = inorder ch := by
  unfold splice
  cases c with
  | red => rfl
  | black => by_cases h : isRed ch = true <;> simp [h, inorder_blacken]

theorem inorder_joinL (c : Color) (l : T α × Bool) (d : α) (r : T α) :
    inorder (joinL c l d r).1 = inorder l.1 ++ d :: inorder r := by
  unfold joinL
  by_cases h : l.2 = true <;> simp [h, inorder_balL, inorder]

theorem inorder_joinR (c : Color) (l : T α) (d : α) (r : T α × Bool) :
    inorder (joinR c l d r).1 = inorder l ++ d :: inorder r.1 := by
  unfold joinR
  by_cases h : r.2 = true <;> simp [h, inorder_balR, inorder]

theorem inorder_delMin : ∀ (l : T α) (c : Color) (d : α) (r : T α),
    (delMin c l d r).1 :: inorder (delMin c l d r).2.1 = inorder (T.node c l d r)
  | .nil, c, d, r => by simp [delMin, inorder_splice, inorder]
  | .node lc ll ld lr, c, d, r => by
    have ih := inorder_delMin ll lc ld lr
    simp only [delMin, inorder_joinL]
    rw [← List.cons_append, ih]
    simp [inorder]

theorem inorder_del : ∀ (t : T α) (i : Nat), inorder (del i t).1 = (inorder t).eraseIdx i
  | .nil, i => by simp [del, inorder]
  | .node c l d r, i => by
    unfold del
    by_cases h1 : i < size l
    · simp only [h1, if_true, inorder_joinL, inorder]
      rw [inorder_del l i, List.eraseIdx_append_of_lt_length (by rw [← size_eq_length]; exact h1)]
    · simp only [h1, if_false]
      by_cases h2 : i = size l
      · simp only [h2, if_true]
        have herase : (inorder (T.node c l d r)).eraseIdx (size l) = inorder l ++ inorder r := by
          simp only [inorder]
          rw [List.eraseIdx_append_of_length_le (by rw [size_eq_length]; exact Nat.le_refl _)]
          simp [size_eq_length]
        rw [herase]
        cases l with
        | nil => simp [inorder_splice, inorder]
        | node lc ll ld lr =>
          cases r with
          | nil => simp [inorder_splice, inorder]
          | node rc rl rd rr =>
            simp only [inorder_joinR]
            have := inorder_delMin rl rc rd rr
            rw [this]
      · simp only [h2, if_false, inorder_joinR, inorder]
        rw [inorder_del r (i - size l - 1)]
        have hle : (inorder l).length ≤ i := by rw [← size_eq_length]; omega
        rw [List.eraseIdx_append_of_length_le hle]
        have : i - (inorder l).length = (i - size l - 1) + 1 := by rw [← size_eq_length]; omega
        rw [this, List.eraseIdx_cons_succ]

theorem inorder_remove (t : T α) (i : Nat) : inorder (remove i t) = (inorder t).eraseIdx i := by
  unfold remove
  rw [inorder_blacken, inorder_del]

end LyModel.Sib.Rb
