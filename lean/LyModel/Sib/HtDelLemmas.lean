import LyModel.Sib.HtAddLemmas
/-! `htDel` (lyd_unlink_hash) keeps the table exact. -/
namespace LyModel.Sib

theorem nodup_split_ids {a b : List Node} {n : Node} (hnd : ((a ++ n :: b).map (·.id)).Nodup) :
    (∀ m ∈ a, m.id ≠ n.id) ∧ (∀ m ∈ b, m.id ≠ n.id) ∧ ((a ++ b).map (·.id)).Nodup ∧
    (∀ m ∈ a, ∀ m' ∈ b, m.id ≠ m'.id) ∧ (b.map (·.id)).Nodup := by
  rw [List.map_append, List.map_cons, List.nodup_append] at hnd
  obtain ⟨h1, h2, h3⟩ := hnd
  rw [List.nodup_cons] at h2
  refine ⟨?_, ?_, ?_, ?_, h2.2⟩
  · intro m hm e
    exact h3 m.id (List.mem_map.mpr ⟨m, hm, rfl⟩) n.id (List.mem_cons_self ..) e
  · intro m hm e
    exact h2.1 (List.mem_map.mpr ⟨m, hm, e⟩)
  · rw [List.map_append, List.nodup_append]
    refine ⟨h1, h2.2, ?_⟩
    intro i hi j hj
    exact h3 i hi j (List.mem_cons_of_mem _ hj)
  · intro m hm m' hm' e
    exact h3 m.id (List.mem_map.mpr ⟨m, hm, rfl⟩) m'.id (List.mem_cons_of_mem _ (List.mem_map.mpr ⟨m', hm', rfl⟩)) e

theorem htDel_perm (S : Schema) (a b : List Node) (n : Node) (x : SRef) (recs : List Rec)
    (hn : n.sch = some x)
    (hperm : recs.Perm (htContent S (a ++ n :: b)))
    (hnd : ((a ++ n :: b).map (·.id)).Nodup)
    (hloc : ∀ h, b.head? = some h → sameSch a.getLast? h = true → sameSch a.getLast? n = true) :
    ∀ hk, hkeyOf S n = some hk →
    (htDel S recs a.getLast? n b.head? hk).Perm (htContent S (a ++ b)) := by
  intro hk hhk
  obtain ⟨hfa, hfb, _, hab, hbnd⟩ := nodup_split_ids hnd
  have hc : ∀ z, recs.count z = (htContentAux S none a).count z +
      ((ownRec S n).count z + (firstRec S a.getLast? n).count z) + (htContentAux S (some n) b).count z := by
    intro z
    rw [hperm.count_eq z, content_with]
    simp only [List.count_append]
  rw [content_without]
  cases hl : (S x).listLike with
  | false =>
    have hkeq : hk = HKey.sch x := by
      simp [hkeyOf, hn, hl] at hhk; exact hhk.symm
    subst hkeq
    have hown : ownRec S n = [(HKey.sch x, n.id)] := by simp [ownRec, hn, hl]
    have hfirst : firstRec S a.getLast? n = [] := by simp [firstRec, hn, hl]
    have htail : htContentAux S (some n) b = htContentAux S a.getLast? b := by
      apply content_tail_eq S _ n b hloc
      intro h _ hcs
      right
      have : n.sch = h.sch := by simpa [sameSch] using hcs
      exact ⟨x, by rw [← this, hn], hl⟩
    have hmem : (HKey.sch x, n.id) ∈ recs := by
      apply List.count_pos_iff.mp
      rw [hc, hown]
      simp only [List.count_singleton, beq_self_eq_true, if_true]
      omega
    have hdel : htDel S recs a.getLast? n b.head? (HKey.sch x) = recs.erase (HKey.sch x, n.id) := by
      unfold htDel; rw [hn]; simp [hl, hmem]
    rw [hdel]
    apply List.perm_iff_count.mpr
    intro z
    have hz := hc z
    rw [hown, hfirst, htail] at hz
    simp only [List.count_append, List.count_erase, hz, List.count_singleton, List.count_nil]
    split <;> omega
  | true =>
    have hkeq : hk = HKey.inst x n.key := by
      simp [hkeyOf, hn, hl] at hhk; exact hhk.symm
    subst hkeq
    have hown : ownRec S n = [(HKey.inst x n.key, n.id)] := by simp [ownRec, hn, hl]
    have hmem : (HKey.inst x n.key, n.id) ∈ recs := by
      apply List.count_pos_iff.mp
      rw [hc, hown]
      simp only [List.count_singleton, beq_self_eq_true, if_true]
      omega
    cases hB : sameSch a.getLast? n with
    | true =>
      have hfirst : firstRec S a.getLast? n = [] := by simp [firstRec, hn, hl, hB]
      have htail : htContentAux S (some n) b = htContentAux S a.getLast? b :=
        content_tail_eq S _ n b hloc (fun _ _ _ => Or.inl hB)
      have hdel : htDel S recs a.getLast? n b.head? (HKey.inst x n.key) = recs.erase (HKey.inst x n.key, n.id) := by
        unfold htDel; rw [hn]; simp [hl, hmem, hB]
      rw [hdel]
      apply List.perm_iff_count.mpr
      intro z
      have hz := hc z
      rw [hown, hfirst, htail] at hz
      simp only [List.count_append, List.count_erase, hz, List.count_singleton, List.count_nil]
      split <;> omega
    | false =>
      have hfirst : firstRec S a.getLast? n = [(HKey.sch x, n.id)] := by simp [firstRec, hn, hl, hB]
      have hmem2 : (HKey.sch x, n.id) ∈ recs.erase (HKey.inst x n.key, n.id) := by
        apply List.count_pos_iff.mp
        rw [List.count_erase, hc, hown, hfirst]
        have : ((HKey.inst x n.key, n.id) == ((HKey.sch x, n.id) : Rec)) = false := by simp
        simp only [List.count_singleton, this, beq_self_eq_true, if_true, Bool.false_eq_true, if_false]
        omega
      cases b with
      | nil =>
        have hnone : sameSch none n = false := rfl
        have hdel : htDel S recs a.getLast? n ([] : List Node).head? (HKey.inst x n.key) =
            (recs.erase (HKey.inst x n.key, n.id)).erase (HKey.sch x, n.id) := by
          unfold htDel; rw [hn]; simp [hl, hmem, hB, hmem2, hnone]
        rw [hdel]
        apply List.perm_iff_count.mpr
        intro z
        have hz := hc z
        rw [hown, hfirst] at hz
        simp only [htContentAux, List.count_nil, Nat.add_zero] at hz
        simp only [List.count_append, List.count_erase, hz, List.count_singleton, List.count_nil, htContentAux]
        split <;> split <;> omega
      | cons h t =>
        have hah : ∀ m ∈ a, m.id ≠ h.id := fun m hm => hab m hm h (List.mem_cons_self ..)
        have hnh : n.id ≠ h.id := fun e => hfb h (List.mem_cons_self ..) e.symm
        have hth : ∀ m ∈ t, m.id ≠ h.id := by
          intro m hm e
          rw [List.map_cons, List.nodup_cons] at hbnd
          exact hbnd.1 (List.mem_map.mpr ⟨m, hm, e⟩)
        cases hC : sameSch (some h) n with
        | true =>
          have hhs : h.sch = some x := by
            have : h.sch = n.sch := by simpa [sameSch] using hC
            rw [this, hn]
          have hBh : sameSch a.getLast? h = false := by
            cases hp : a.getLast? with
            | none => simp [sameSch]
            | some p =>
              rw [hp] at hB
              simp only [sameSch, hn] at hB
              simp only [sameSch, hhs]
              exact hB
          have hfh : firstRec S a.getLast? h = [(HKey.sch x, h.id)] := by simp [firstRec, hhs, hl, hBh]
          have hfh' : firstRec S (some n) h = [] := by
            have : sameSch (some n) h = true := by rw [sameSch_some_comm]; exact hC
            simp [firstRec, hhs, hl, this]
          have hownh : ownRec S h = [(HKey.inst x h.key, h.id)] := by simp [ownRec, hhs, hl]
          -- no record of `h` under the schema-only hash yet
          have hcnt0 : recs.count (HKey.sch x, h.id) = 0 := by
            rw [hc, contentAux_head, hown, hfirst, hfh', hownh,
              count_content_fresh S a none _ h.id hah]
            have e0 := count_content_fresh S t (some h) (HKey.sch x) h.id hth
            have e1 : ((HKey.inst x n.key, n.id) == ((HKey.sch x, h.id) : Rec)) = false := by simp
            have e2 : ((HKey.sch x, n.id) == ((HKey.sch x, h.id) : Rec)) = false := by simp [hnh]
            have e3 : ((HKey.inst x h.key, h.id) == ((HKey.sch x, h.id) : Rec)) = false := by simp
            simp [List.count_append, List.count_singleton, e0, e1, e2, e3]
          have hnm : (HKey.sch x, h.id) ∉ (recs.erase (HKey.inst x n.key, n.id)).erase (HKey.sch x, n.id) := by
            intro hm
            have := List.count_pos_iff.mpr (List.mem_of_mem_erase (List.mem_of_mem_erase hm))
            omega
          have hdel : htDel S recs a.getLast? n (h :: t).head? (HKey.inst x n.key) =
              (recs.erase (HKey.inst x n.key, n.id)).erase (HKey.sch x, n.id) ++ [(HKey.sch x, h.id)] := by
            unfold htDel; rw [hn]; simp [hl, hmem, hB, hmem2, hC, hnm]
          rw [hdel, contentAux_head, hfh]
          apply List.perm_iff_count.mpr
          intro z
          have hz := hc z
          rw [hown, hfirst, contentAux_head, hfh'] at hz
          simp only [List.count_append, List.count_erase, hz, List.count_singleton, List.count_nil]
          split <;> split <;> omega
        | false =>
          have htail : htContentAux S (some n) (h :: t) = htContentAux S a.getLast? (h :: t) := by
            apply content_tail_eq S _ n (h :: t) hloc
            intro h' hh' hcs
            simp only [List.head?_cons, Option.some.injEq] at hh'
            subst hh'
            rw [sameSch_some_comm, hC] at hcs
            cases hcs
          have hdel : htDel S recs a.getLast? n (h :: t).head? (HKey.inst x n.key) =
              (recs.erase (HKey.inst x n.key, n.id)).erase (HKey.sch x, n.id) := by
            unfold htDel; rw [hn]; simp [hl, hmem, hB, hmem2, hC]
          rw [hdel]
          apply List.perm_iff_count.mpr
          intro z
          have hz := hc z
          rw [hown, hfirst, htail] at hz
          simp only [List.count_append, List.count_erase, hz, List.count_singleton, List.count_nil]
          split <;> split <;> omega

end LyModel.Sib
