import LyModel.Sib.RbLemmas
/-! Stage 2: the red-black invariants are preserved by the insertion. -/
namespace LyModel.Sib.Rb

variable {α : Type}

/-- black height (along the left spine; `Bal` makes every path agree) -/
def bh : T α → Nat
  | .nil => 1
  | .node c l _ _ => bh l + (if c = .black then 1 else 0)

/-- every path has the same number of black nodes -/
def Bal : T α → Prop
  | .nil => True
  | .node _ l _ r => Bal l ∧ Bal r ∧ bh l = bh r

/-- no red node has a red child -/
def NoRR : T α → Prop
  | .nil => True
  | .node c l _ r => NoRR l ∧ NoRR r ∧ (c = .red → isRed l = false ∧ isRed r = false)

/-- … except possibly the root (the state in the middle of `rb_insert_color`) -/
def Almost : T α → Prop
  | .nil => True
  | .node c l _ r => NoRR l ∧ NoRR r ∧ (c = .red → isRed l = false ∨ isRed r = false)

@[simp] theorem isRed_nil : isRed (T.nil : T α) = false := rfl
@[simp] theorem isRed_red (l r : T α) (d : α) : isRed (T.node .red l d r) = true := rfl
@[simp] theorem isRed_black (l r : T α) (d : α) : isRed (T.node .black l d r) = false := rfl

theorem isRed_false_of_not_red {t : T α} (h : ∀ l d r, t ≠ T.node .red l d r) : isRed t = false := by
  cases t with
  | nil => rfl
  | node c l d r =>
    cases c with
    | black => rfl
    | red => exact absurd rfl (h l d r)

theorem NoRR.almost {t : T α} (h : NoRR t) : Almost t := by
  cases t with
  | nil => trivial
  | node c l d r => exact ⟨h.1, h.2.1, fun hc => Or.inl (h.2.2 hc).1⟩

/-- close a conjunction of facts that are hypotheses or linear arithmetic over black heights -/
macro "rb_close" : tactic =>
  `(tactic| ((repeat' apply And.intro) <;> (first | assumption | (simp_all; done) | omega | (simp_all; omega))))

theorem isRed_cases (t : T α) : (∃ l d r, t = T.node .red l d r) ∨ isRed t = false := by
  cases t with
  | nil => exact Or.inr rfl
  | node c l d r =>
    cases c with
    | red => exact Or.inl ⟨l, d, r, rfl⟩
    | black => exact Or.inr rfl

/-- fix-up below a black grandparent: invariants restored completely, black height unchanged -/
theorem fixL_black (p r : T α) (d : α) (hb : Bal (T.node .black p d r)) (hp : Almost p) (hr : NoRR r) :
    Bal (fixL (T.node .black p d r)) ∧ bh (fixL (T.node .black p d r)) = bh (T.node .black p d r) ∧
    NoRR (fixL (T.node .black p d r)) := by
  -- is the parent red with a red child?
  cases p with
  | nil => exact ⟨hb, rfl, trivial, hr, by simp⟩
  | node pc pl pd pr =>
    cases pc with
    | black => exact ⟨hb, rfl, ⟨hp.1, hp.2.1, by simp⟩, hr, by simp⟩
    | red =>
      have hpc := hp.2.2 rfl
      rcases isRed_cases pl with ⟨a, x, b, rfl⟩ | hpl
      · -- outer child red, hence the inner one is not
        have hprn : isRed pr = false := by rcases hpc with h | h; · simp at h
                                           · exact h
        rcases isRed_cases r with ⟨ul, ud, ur, rfl⟩ | hur
        · simp only [fixL, Bal, bh, NoRR, Almost] at *
          simp at *
          rb_close
        · have hfix : fixL (T.node .black (T.node .red (T.node .red a x b) pd pr) d r) =
              T.node .black (T.node .red a x b) pd (T.node .red pr d r) := by
            cases r with
            | nil => rfl
            | node c _ _ _ => cases c <;> simp_all [fixL]
          rw [hfix]
          simp only [Bal, bh, NoRR, Almost] at *
          simp at *
          rb_close
      · rcases isRed_cases pr with ⟨b, x, c, rfl⟩ | hprn
        · rcases isRed_cases r with ⟨ul, ud, ur, rfl⟩ | hur
          · have hfix : fixL (T.node .black (T.node .red pl pd (T.node .red b x c)) d (T.node .red ul ud ur)) =
                T.node .red (T.node .black pl pd (T.node .red b x c)) d (T.node .black ul ud ur) := by
              cases pl with
              | nil => rfl
              | node c' _ _ _ => cases c' <;> simp_all [fixL]
            rw [hfix]
            simp only [Bal, bh, NoRR, Almost] at *
            simp at *
            rb_close
          · have hfix : fixL (T.node .black (T.node .red pl pd (T.node .red b x c)) d r) =
                T.node .black (T.node .red pl pd b) x (T.node .red c d r) := by
              cases pl with
              | nil => cases r with
                | nil => rfl
                | node c'' _ _ _ => cases c'' <;> simp_all [fixL]
              | node c' _ _ _ =>
                cases c' with
                | red => simp at hpl
                | black => cases r with
                  | nil => rfl
                  | node c'' _ _ _ => cases c'' <;> simp_all [fixL]
            rw [hfix]
            simp only [Bal, bh, NoRR, Almost] at *
            simp at *
            rb_close
        · -- the parent is red but in order: nothing to do
          have hfix : fixL (T.node .black (T.node .red pl pd pr) d r) = T.node .black (T.node .red pl pd pr) d r := by
            cases pl with
            | nil => cases pr with
              | nil => rfl
              | node c' _ _ _ => cases c' <;> simp_all [fixL]
            | node c' _ _ _ =>
              cases c' with
              | red => simp at hpl
              | black => cases pr with
                | nil => rfl
                | node c'' _ _ _ => cases c'' <;> simp_all [fixL]
          rw [hfix]
          exact ⟨hb, rfl, ⟨hp.1, hp.2.1, fun _ => ⟨hpl, hprn⟩⟩, hr, by simp⟩

theorem fixR_black (p l : T α) (d : α) (hb : Bal (T.node .black l d p)) (hp : Almost p) (hl : NoRR l) :
    Bal (fixR (T.node .black l d p)) ∧ bh (fixR (T.node .black l d p)) = bh (T.node .black l d p) ∧
    NoRR (fixR (T.node .black l d p)) := by
  cases p with
  | nil =>
    have : fixR (T.node .black l d T.nil) = T.node .black l d T.nil := by simp [fixR]
    rw [this]; exact ⟨hb, rfl, hl, trivial, by simp⟩
  | node pc pl pd pr =>
    cases pc with
    | black =>
      have : fixR (T.node .black l d (T.node .black pl pd pr)) = T.node .black l d (T.node .black pl pd pr) := by simp [fixR]
      rw [this]; exact ⟨hb, rfl, hl, ⟨hp.1, hp.2.1, by simp⟩, by simp⟩
    | red =>
      have hpc := hp.2.2 rfl
      rcases isRed_cases pr with ⟨b, x, a, rfl⟩ | hprn
      · have hpln : isRed pl = false := by rcases hpc with h | h; · exact h
                                           · simp at h
        rcases isRed_cases l with ⟨ul, ud, ur, rfl⟩ | hul
        · simp only [fixR, Bal, bh, NoRR, Almost] at *
          simp at *
          rb_close
        · have hfix : fixR (T.node .black l d (T.node .red pl pd (T.node .red b x a))) =
              T.node .black (T.node .red l d pl) pd (T.node .red b x a) := by
            cases l with
            | nil => rfl
            | node c _ _ _ => cases c <;> simp_all [fixR]
          rw [hfix]
          simp only [Bal, bh, NoRR, Almost] at *
          simp at *
          rb_close
      · rcases isRed_cases pl with ⟨c, x, b, rfl⟩ | hpln
        · rcases isRed_cases l with ⟨ul, ud, ur, rfl⟩ | hul
          · have hfix : fixR (T.node .black (T.node .red ul ud ur) d (T.node .red (T.node .red c x b) pd pr)) =
                T.node .red (T.node .black ul ud ur) d (T.node .black (T.node .red c x b) pd pr) := by
              cases pr with
              | nil => rfl
              | node c' _ _ _ => cases c' <;> simp_all [fixR]
            rw [hfix]
            simp only [Bal, bh, NoRR, Almost] at *
            simp at *
            rb_close
          · have hfix : fixR (T.node .black l d (T.node .red (T.node .red c x b) pd pr)) =
                T.node .black (T.node .red l d c) x (T.node .red b pd pr) := by
              cases pr with
              | nil => cases l with
                | nil => rfl
                | node c'' _ _ _ => cases c'' <;> simp_all [fixR]
              | node c' _ _ _ =>
                cases c' with
                | red => simp at hprn
                | black => cases l with
                  | nil => rfl
                  | node c'' _ _ _ => cases c'' <;> simp_all [fixR]
            rw [hfix]
            simp only [Bal, bh, NoRR, Almost] at *
            simp at *
            rb_close
        · have hfix : fixR (T.node .black l d (T.node .red pl pd pr)) = T.node .black l d (T.node .red pl pd pr) := by
            cases pr with
            | nil => cases pl with
              | nil => rfl
              | node c' _ _ _ => cases c' <;> simp_all [fixR]
            | node c' _ _ _ =>
              cases c' with
              | red => simp at hprn
              | black => cases pl with
                | nil => rfl
                | node c'' _ _ _ => cases c'' <;> simp_all [fixR]
          rw [hfix]
          exact ⟨hb, rfl, hl, ⟨hp.1, hp.2.1, fun _ => ⟨hpln, hprn⟩⟩, by simp⟩

/-- below a red node whose child is in order nothing is rewritten -/
theorem fixL_red (p r : T α) (d : α) (hp : NoRR p) : fixL (T.node .red p d r) = T.node .red p d r := by
  unfold fixL
  split
  · rename_i heq; cases heq; have := hp.2.2 rfl; simp at this
  · rename_i heq; cases heq; have := hp.2.2 rfl; simp at this
  · rfl

theorem fixR_red (p l : T α) (d : α) (hp : NoRR p) : fixR (T.node .red l d p) = T.node .red l d p := by
  unfold fixR
  split
  · rename_i heq; cases heq; have := hp.2.2 rfl; simp at this
  · rename_i heq; cases heq; have := hp.2.2 rfl; simp at this
  · rfl

theorem ins_inv (gt : α → α → Bool) (x : α) : ∀ t : T α, Bal t → NoRR t →
    Bal (ins gt x t) ∧ bh (ins gt x t) = bh t ∧ Almost (ins gt x t) ∧ (isRed t = false → NoRR (ins gt x t))
  | .nil, _, _ => by simp [ins, Bal, bh, Almost, NoRR]
  | .node c l d r, hb, hn => by
    obtain ⟨hbl, hbr, hbh⟩ := hb
    obtain ⟨hnl, hnr, hc⟩ := hn
    have ihl := ins_inv gt x l hbl hnl
    have ihr := ins_inv gt x r hbr hnr
    unfold ins
    by_cases hg : gt d x = true
    · simp only [hg, if_true]
      cases c with
      | black =>
        have hb' : Bal (T.node .black (ins gt x l) d r) := ⟨ihl.1, hbr, by rw [ihl.2.1]; exact hbh⟩
        obtain ⟨h1, h2, h3⟩ := fixL_black (ins gt x l) r d hb' ihl.2.2.1 hnr
        refine ⟨h1, ?_, h3.almost, fun _ => h3⟩
        rw [h2]; simp [bh, ihl.2.1]
      | red =>
        have hlr := hc rfl
        have hnl' : NoRR (ins gt x l) := ihl.2.2.2 hlr.1
        rw [fixL_red _ _ _ hnl']
        refine ⟨⟨ihl.1, hbr, by rw [ihl.2.1]; exact hbh⟩, by simp [bh, ihl.2.1], ⟨hnl', hnr, fun _ => Or.inr hlr.2⟩, fun h => by simp at h⟩
    · simp only [hg, if_false, Bool.false_eq_true]
      cases c with
      | black =>
        have hb' : Bal (T.node .black l d (ins gt x r)) := ⟨hbl, ihr.1, by rw [ihr.2.1]; exact hbh⟩
        obtain ⟨h1, h2, h3⟩ := fixR_black (ins gt x r) l d hb' ihr.2.2.1 hnl
        refine ⟨h1, ?_, h3.almost, fun _ => h3⟩
        rw [h2]; simp [bh]
      | red =>
        have hlr := hc rfl
        have hnr' : NoRR (ins gt x r) := ihr.2.2.2 hlr.2
        rw [fixR_red _ _ _ hnr']
        refine ⟨⟨hbl, ihr.1, by rw [ihr.2.1]; exact hbh⟩, by simp [bh], ⟨hnl, hnr', fun _ => Or.inl hlr.1⟩, fun h => by simp at h⟩

/-- a red-black tree: balanced, no red-red, black root -/
def IsRB (t : T α) : Prop := Bal t ∧ NoRR t ∧ isRed t = false

theorem insert_isRB (gt : α → α → Bool) (x : α) (t : T α) (h : IsRB t) : IsRB (insert gt x t) := by
  obtain ⟨hb, hn, _⟩ := h
  obtain ⟨h1, _, h3, _⟩ := ins_inv gt x t hb hn
  unfold insert
  cases hi : ins gt x t with
  | nil => simp [blacken, IsRB, Bal, NoRR]
  | node c l d r =>
    rw [hi] at h1 h3
    exact ⟨⟨h1.1, h1.2.1, h1.2.2⟩, ⟨h3.1, h3.2.1, by simp⟩, rfl⟩

end LyModel.Sib.Rb
