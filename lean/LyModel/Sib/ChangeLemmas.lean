import LyModel.Sib.StepLemmas
/-! `lyd_change_node_value` with the corrected call order preserves the invariant. -/
namespace LyModel.Sib

theorem sorted_listLike {k : SKind} (h : k.sorted = true) : k.listLike = true := by
  cases k with
  | leaf => simp [SKind.sorted] at h
  | cont => simp [SKind.sorted] at h
  | list o => rfl
  | leaflist o => rfl

theorem pairwise_replace (S : Schema) (a b : List Node) (n n' : Node)
    (h : (a ++ n :: b).Pairwise (fun x y => nle S x y = true))
    (h1 : ∀ e ∈ a ++ b, nle S e n' = nle S e n) (h2 : ∀ e ∈ a ++ b, nle S n' e = nle S n e) :
    (a ++ n' :: b).Pairwise (fun x y => nle S x y = true) := by
  rw [List.pairwise_append] at h ⊢
  obtain ⟨ha, hnb, hcross⟩ := h
  refine ⟨ha, ?_, ?_⟩
  · rw [List.pairwise_cons] at hnb ⊢
    refine ⟨?_, hnb.2⟩
    intro e he
    rw [h2 e (List.mem_append_right _ he)]
    exact hnb.1 e he
  · intro x hx y hy
    rcases List.mem_cons.mp hy with e1 | e1
    · subst e1
      rw [h1 x (List.mem_append_left _ hx)]
      exact hcross x hx n (List.mem_cons_self ..)
    · exact hcross x hx y (List.mem_cons_of_mem _ e1)

theorem nle_key_irrelevant (S : Schema) (n : Node) (k : Key) (e : Node) (hne : e.sch ≠ n.sch) :
    nle S e { n with key := k } = nle S e n ∧ nle S { n with key := k } e = nle S n e := by
  cases he : e.sch with
  | none => cases hn : n.sch <;> simp [nle, he, hn]
  | some x =>
    cases hn : n.sch with
    | none => simp [nle, he, hn]
    | some y =>
      have hxy : x ≠ y := fun e' => hne (by rw [he, hn, e'])
      have hyx : y ≠ x := fun e' => hxy e'.symm
      simp [nle, he, hn, hxy, hyx]

theorem nle_key_unsorted (S : Schema) (n : Node) (k : Key) (x : SRef) (hn : n.sch = some x) (hk : (S x).sorted = false)
    (e : Node) : nle S e { n with key := k } = nle S e n ∧ nle S { n with key := k } e = nle S n e := by
  by_cases hne : e.sch = n.sch
  · have he : e.sch = some x := by rw [hne, hn]
    simp [nle, he, hn, hk]
  · exact nle_key_irrelevant S n k e hne

/-- a node that is alone (no neighbour of its schema) in a canonical list has no other instance at all -/
theorem alone_no_inst (S : Schema) (a b : List Node) (n : Node)
    (hs : (a ++ n :: b).Pairwise (fun x y => nle S x y = true))
    (h1 : sameSch a.getLast? n = false) (h2 : sameSch b.head? n = false) :
    ∀ e ∈ a ++ b, e.sch ≠ n.sch := by
  rw [List.pairwise_append] at hs
  obtain ⟨ha, hnb, hcross⟩ := hs
  intro e he hes
  rcases List.mem_append.mp he with hea | heb
  · -- e ≤ last a ≤ n
    cases hp : a.getLast? with
    | none =>
      have : a = [] := List.getLast?_eq_none_iff.mp hp
      rw [this] at hea; cases hea
    | some p =>
      rw [hp] at h1
      have hpa : p ∈ a := List.mem_of_getLast? hp
      have hpn : nle S p n = true := hcross p hpa n (List.mem_cons_self ..)
      by_cases hep : e = p
      · subst hep
        simp [sameSch, hes] at h1
      · -- e strictly before p in a
        have hep' : nle S e p = true := by
          obtain ⟨a', ha'⟩ : ∃ a', a = a' ++ [p] := by
            have := List.getLast?_eq_some_iff.mp hp
            obtain ⟨ys, hys⟩ := this
            exact ⟨ys, hys⟩
          rw [ha'] at ha hea
          rw [List.pairwise_append] at ha
          rcases List.mem_append.mp hea with h3 | h3
          · exact ha.2.2 e h3 p (List.mem_singleton.mpr rfl)
          · simp only [List.mem_singleton] at h3
            exact absurd h3 hep
        have := sch_squeeze S hep' hpn hes
        simp [sameSch, ← this, hes] at h1
  · cases hh : b.head? with
    | none =>
      have : b = [] := List.head?_eq_none_iff.mp hh
      rw [this] at heb; cases heb
    | some h =>
      rw [hh] at h2
      cases b with
      | nil => cases heb
      | cons h' t =>
        simp only [List.head?_cons, Option.some.injEq] at hh
        subst hh
        have hnh : nle S n h' = true := (List.pairwise_cons.mp hnb).1 h' (List.mem_cons_self ..)
        rcases List.mem_cons.mp heb with e1 | e1
        · subst e1
          simp [sameSch, hes] at h2
        · have hhe : nle S h' e = true := (List.pairwise_cons.mp (List.pairwise_cons.mp hnb).2).1 e e1
          have := sch_squeeze S hnh hhe hes.symm
          simp [sameSch, ← this] at h2

theorem inv_changeKeyFixed (S : Schema) (cx : Cx) (s : Sibs) (id : Nat) (k : Key) (h : Inv S cx s) :
    Inv S cx (changeKeyFixed S cx s id k).1 := by
  unfold changeKeyFixed
  cases hsp : splitAtId id s.nodes with
  | none => exact h
  | some t =>
    obtain ⟨a, n, b⟩ := t
    obtain ⟨e1, e2⟩ := splitAtId_spec s.nodes id a n b hsp
    simp only
    cases hsch : n.sch with
    | none => exact h
    | some x =>
      have hs' : s = ⟨a ++ n :: b, s.ht⟩ := by cases s; simp at e1; simp [e1]
      have h' : Inv S cx ⟨a ++ n :: b, s.ht⟩ := by rw [← hs']; exact h
      obtain ⟨hfa, hfb, _, _, _⟩ := nodup_split_ids h'.nodup
      have hnmem : n ∈ s.nodes := by rw [e1]; exact List.mem_append_right _ (List.mem_cons_self ..)
      have hsub : ∀ e, e ∈ a ++ b → e ∈ s.nodes := by
        intro e he
        rw [e1]
        rcases List.mem_append.mp he with h1 | h1
        · exact List.mem_append_left _ h1
        · exact List.mem_append_right _ (List.mem_cons_of_mem _ h1)
      have hidne : ∀ e ∈ a ++ b, e.id ≠ n.id := by
        intro e he
        rcases List.mem_append.mp he with h1 | h1
        · exact hfa e h1
        · exact hfb e h1
      -- the re-keyed node
      have hn'eq : ({ id := n.id, sch := some x, key := k } : Node) = { n with key := k } := by
        cases n; simp at hsch; simp [hsch]
      -- it may be inserted into the list without the old one
      have hnew : ∀ ht, NewOk S cx ⟨a ++ b, ht⟩ { id := n.id, sch := some x, key := k } := by
        intro ht
        refine ⟨fun m hm => hidne m hm, ?_, ?_, ?_⟩
        · intro y hy
          simp only [Option.some.injEq] at hy
          subst hy
          exact h.range n hnmem x hsch
        · intro htop e he y z hy hz
          simp only [Option.some.injEq] at hz
          subst hz
          exact h.oneMod htop e (hsub e he) n hnmem y x hy hsch
        · intro e he y hy hz
          simp only [Option.some.injEq] at hz
          subst hz
          cases hl : (S x).listLike with
          | true => rfl
          | false =>
            have := h.single e (hsub e he) n hnmem x hy hsch hl
            exact absurd (by rw [this]) (hidne e he)
      by_cases hc : (!isAlone a n b && (S x).sorted) = true
      · show Inv S cx (Prod.fst (if (!isAlone a n b && (S x).sorted) = true then _ else _ : Sibs × Bool))
        rw [if_pos hc]
        have hun : unlinkNode S cx s id = ⟨a ++ b, unlinkHash S cx s a n b (hkeyOf S n)⟩ := by
          simp [unlinkNode, hsp]
        have hinv := inv_unlinkNode S cx s id h
        rw [hun] at hinv ⊢
        exact inv_insertNode S cx _ _ hinv (hnew _)
      · show Inv S cx (Prod.fst (if (!isAlone a n b && (S x).sorted) = true then _ else _ : Sibs × Bool))
        rw [if_neg hc]
        have hinv := inv_unlink_ab S cx a b n s.ht h'
        have e3 : unlinkHash S cx s a n b (hkeyOf S n) = unlinkHash S cx ⟨a ++ n :: b, s.ht⟩ a n b (hkeyOf S n) := by
          simp [unlinkHash]
        rw [e3]
        apply inv_link S cx a b _ _ hinv (hnew _)
        rw [hn'eq]
        -- order: either keys do not matter for this schema, or there is no other instance
        have hc' : isAlone a n b = true ∨ (S x).sorted = false := by
          cases h1 : isAlone a n b <;> cases h2 : (S x).sorted <;> simp [h1, h2] at hc ⊢
        rcases hc' with hal | hns
        · have hal' : sameSch a.getLast? n = false ∧ sameSch b.head? n = false := by
            simpa [isAlone] using hal
          have hno := alone_no_inst S a b n h'.sorted hal'.1 hal'.2
          exact pairwise_replace S a b n _ h'.sorted
            (fun e he => (nle_key_irrelevant S n k e (hno e he)).1)
            (fun e he => (nle_key_irrelevant S n k e (hno e he)).2)
        · exact pairwise_replace S a b n _ h'.sorted
            (fun e _ => (nle_key_unsorted S n k x hsch hns e).1)
            (fun e _ => (nle_key_unsorted S n k x hsch hns e).2)

end LyModel.Sib
