import LyModel.Sib.HtLookupLemmas
/-! `findSchemaHt` / `findSchema` / `anchorHash` on a canonical list with an exact table. -/
namespace LyModel.Sib

theorem find?_eq_head?_filter {α : Type} (p : α → Bool) : ∀ l : List α, l.find? p = (l.filter p).head?
  | [] => rfl
  | a :: l => by
    by_cases h : p a = true
    · simp [List.find?_cons, List.filter_cons, h]
    · have h' : p a = false := by simpa using h
      have ih := find?_eq_head?_filter p l
      simp only [List.find?_cons, List.filter_cons, h']
      simpa using ih

/-- identities are unique: the index of the first node satisfying `p` is the index of its identity -/
theorem idxOfId_of_find? {p : Node → Bool} : ∀ (l : List Node) (m : Node), (l.map (·.id)).Nodup →
    l.find? p = some m → idxOfId l m.id = l.findIdx? p
  | [], _, _, h => by simp at h
  | a :: l, m, hnd, h => by
    rw [List.map_cons, List.nodup_cons] at hnd
    by_cases ha : p a = true
    · simp only [List.find?_cons, ha] at h
      cases h
      simp [idxOfId, List.findIdx?_cons, ha]
    · have ha' : p a = false := by simpa using ha
      simp only [List.find?_cons, ha'] at h
      have hm : m ∈ l := List.mem_of_find?_eq_some h
      have hne : (a.id == m.id) = false := by
        simp only [beq_eq_false_iff_ne, ne_eq]
        intro e
        exact hnd.1 (List.mem_map.mpr ⟨m, hm, e.symm⟩)
      have ih := idxOfId_of_find? l m hnd.2 h
      simp only [idxOfId] at ih ⊢
      simp [List.findIdx?_cons, hne, ha', ih]

theorem find?_none_findIdx? {p : Node → Bool} {l : List Node} (h : l.find? p = none) : l.findIdx? p = none := by
  rw [List.findIdx?_eq_none_iff]
  intro x hx
  have := List.find?_eq_none.mp h x hx
  simpa using this

/-- `findSchemaHt` on an exact table = identity of the first instance -/
theorem findSchemaHt_spec (S : Schema) (l : List Node) (recs : List Rec) (x : SRef)
    (hs : l.Pairwise (fun a b => nle S a b = true))
    (hsing : ∀ a ∈ l, ∀ b ∈ l, ∀ y, a.sch = some y → b.sch = some y → (S y).listLike = false → a = b)
    (hnd : (l.map (·.id)).Nodup)
    (hp : recs.Perm (htContent S l)) :
    findSchemaHt recs x = (l.find? (fun e => e.sch == some x)).map (·.id) := by
  have hf := filter_schKey S x l none hs (fun a ha b hb => hsing a ha b hb x) (fun p hp => by cases hp) hnd
  have hperm : (recs.filter (isSchKey x)).Perm ((htContent S l).filter (isSchKey x)) := hp.filter _
  unfold htContent at hperm
  rw [hf] at hperm
  have hfind : findSchemaHt recs x = ((recs.filter (isSchKey x)).head?).map (·.2) := by
    unfold findSchemaHt
    rw [find?_eq_head?_filter]
    rfl
  rw [hfind]
  cases hfi : l.find? (fun e => e.sch == some x) with
  | none =>
    rw [hfi] at hperm
    have : recs.filter (isSchKey x) = [] := List.perm_nil.mp hperm
    simp [this]
  | some m =>
    rw [hfi] at hperm
    have : recs.filter (isSchKey x) = [(HKey.sch x, m.id)] := List.perm_singleton.mp hperm
    simp [this]

theorem findSchemaHt_idx (S : Schema) (l : List Node) (recs : List Rec) (x : SRef)
    (hs : l.Pairwise (fun a b => nle S a b = true))
    (hsing : ∀ a ∈ l, ∀ b ∈ l, ∀ y, a.sch = some y → b.sch = some y → (S y).listLike = false → a = b)
    (hnd : (l.map (·.id)).Nodup)
    (hp : recs.Perm (htContent S l)) :
    (findSchemaHt recs x).bind (idxOfId l) = l.findIdx? (fun e => e.sch == some x) := by
  rw [findSchemaHt_spec S l recs x hs hsing hnd hp]
  cases hfi : l.find? (fun e => e.sch == some x) with
  | none => simp [find?_none_findIdx? hfi]
  | some m => simp [idxOfId_of_find? l m hnd hfi]

theorem findSchema_spec (S : Schema) (cx : Cx) (s : Sibs) (x : SRef) (h : Inv S cx s) :
    findSchema cx s x = s.nodes.findIdx? (fun e => e.sch == some x) := by
  unfold findSchema
  cases hn : cx.nested with
  | false => simp [findSchemaLin_spec S x s.nodes h.sorted]
  | true =>
    cases hht : s.ht with
    | none => simp [findSchemaLin_spec S x s.nodes h.sorted]
    | some recs =>
      simp only [if_true]
      exact findSchemaHt_idx S s.nodes recs x h.sorted h.single h.nodup (h.ht recs hht)

end LyModel.Sib
