import LyModel.Sib.RbDelLemmas
import LyModel.Sib.RbInvLemmas
/-! Stage 2, removal: `Rb.del` keeps the red-black invariants (`Bal`, `NoRR`); the black height drops by one exactly when the
    returned flag says so. -/
namespace LyModel.Sib.Rb

variable {α : Type}

theorem bh_pos : ∀ t : T α, 1 ≤ bh t
  | .nil => Nat.le_refl _
  | .node _ l _ _ => Nat.le_trans (bh_pos l) (Nat.le_add_right _ _)

theorem bal_blacken {t : T α} (h : Bal t) : Bal (blacken t) := by
  cases t with
  | nil => trivial
  | node c l d r => exact h

theorem norr_blacken {t : T α} (h : NoRR t) : NoRR (blacken t) := by
  cases t with
  | nil => trivial
  | node c l d r => exact ⟨h.1, h.2.1, by simp⟩

theorem isRed_blacken (t : T α) : isRed (blacken t) = false := by
  cases t <;> rfl

theorem bh_blacken_red {t : T α} (h : isRed t = true) : bh (blacken t) = bh t + 1 := by
  cases t with
  | nil => simp at h
  | node c l d r =>
    cases c with
    | red => simp [blacken, bh]
    | black => simp at h

/-- what a removal step returns for the subtree `t`: a valid subtree, one black node short exactly if flagged, and a black
    root stays black (or the subtree is empty) -/
def DelOk (t : T α) (r : T α × Bool) : Prop :=
  Bal r.1 ∧ NoRR r.1 ∧ bh r.1 + (if r.2 = true then 1 else 0) = bh t ∧ (isRed t = false → isRed r.1 = false)

/-- result of one level of `rb_remove_color` below a parent of colour `pc` whose OTHER subtree `s` is intact -/
def BalOk (pc : Color) (s : T α) (r : T α × Bool) : Prop :=
  Bal r.1 ∧ NoRR r.1 ∧ bh r.1 + (if r.2 = true then 1 else 0) = bh s + (if pc = .black then 1 else 0) ∧
    (pc = .black → isRed r.1 = false) ∧ (r.2 = true → pc = .black)

theorem balL'_ok (pc : Color) (x : T α) (pd : α) (s : T α) (hbx : Bal x) (hbs : Bal s) (hnx : NoRR x) (hns : NoRR s)
    (hh : bh s = bh x + 1) (hsb : isRed s = false) : BalOk pc s (balL' pc x pd s) := by
  cases s with
  | nil => have := bh_pos x; simp [bh] at hh; omega
  | node sc sl sd sr =>
    cases sc with
    | red => simp at hsb
    | black =>
      obtain ⟨hbl, hbr, hlr⟩ := hbs
      obtain ⟨hnl, hnr, _⟩ := hns
      simp only [bh, if_true] at hh
      rcases isRed_cases sr with ⟨ra, ry, rb, rfl⟩ | hsr
      · -- far nephew red
        have : balL' pc x pd (T.node .black sl sd (T.node .red ra ry rb)) =
            (T.node pc (T.node .black x pd sl) sd (T.node .black ra ry rb), false) := by
          simp [balL', blacken]
        rw [this]
        cases pc <;> simp only [BalOk, Bal, NoRR, bh] at * <;> simp at * <;> rb_close
      · rcases isRed_cases sl with ⟨a, y, b, rfl⟩ | hsl
        · -- near nephew red, far one black
          have : balL' pc x pd (T.node .black (T.node .red a y b) sd sr) =
              (T.node pc (T.node .black x pd a) y (T.node .black b sd sr), false) := by
            simp [balL', blacken, hsr]
          rw [this]
          cases pc <;> simp only [BalOk, Bal, NoRR, bh] at * <;> simp at * <;> rb_close
        · -- both nephews black
          have : balL' pc x pd (T.node .black sl sd sr) =
              (T.node .black x pd (T.node .red sl sd sr), decide (pc = .black)) := by
            simp [balL', hsl, hsr]
          rw [this]
          cases pc <;> simp only [BalOk, Bal, NoRR, bh] at * <;> simp at * <;> rb_close

theorem balL_ok (pc : Color) (x : T α) (pd : α) (s : T α) (hbx : Bal x) (hbs : Bal s) (hnx : NoRR x) (hns : NoRR s)
    (hh : bh s = bh x + 1) (hpc : pc = .red → isRed s = false) : BalOk pc s (balL pc x pd s) := by
  rcases isRed_cases s with ⟨sl, sd, sr, rfl⟩ | hsb
  · -- red sibling: the parent is black
    have hpb : pc = .black := by
      cases pc with
      | black => rfl
      | red => simp at hpc
    subst hpb
    obtain ⟨hbl, hbr, hlr⟩ := hbs
    obtain ⟨hnl, hnr, hc⟩ := hns
    have hc' := hc rfl
    have hh' : bh sl = bh x + 1 := by simpa [bh] using hh
    obtain ⟨h1, h2, h3, _, h5⟩ := balL'_ok .red x pd sl hbx hbl hnx hnl hh' hc'.1
    have hfalse : (balL' .red x pd sl).2 = false := by
      cases hb : (balL' .red x pd sl).2 with
      | false => rfl
      | true => have := h5 hb; simp at this
    have : balL .black x pd (T.node .red sl sd sr) = (T.node .black (balL' .red x pd sl).1 sd sr, (balL' .red x pd sl).2) := rfl
    rw [this]
    rw [hfalse] at h3 ⊢
    refine ⟨⟨h1, hbr, ?_⟩, ⟨h2, hnr, by simp⟩, ?_, fun _ => rfl, by simp⟩
    · simp at h3; omega
    · simp [bh] at h3 ⊢; omega
  · have : balL pc x pd s = balL' pc x pd s := by
      cases s with
      | nil => rfl
      | node c _ _ _ =>
        cases c with
        | red => simp at hsb
        | black => rfl
    rw [this]
    exact balL'_ok pc x pd s hbx hbs hnx hns hh hsb

theorem balR'_ok (pc : Color) (s : T α) (pd : α) (x : T α) (hbx : Bal x) (hbs : Bal s) (hnx : NoRR x) (hns : NoRR s)
    (hh : bh s = bh x + 1) (hsb : isRed s = false) : BalOk pc s (balR' pc s pd x) := by
  cases s with
  | nil => have := bh_pos x; simp [bh] at hh; omega
  | node sc sl sd sr =>
    cases sc with
    | red => simp at hsb
    | black =>
      obtain ⟨hbl, hbr, hlr⟩ := hbs
      obtain ⟨hnl, hnr, _⟩ := hns
      simp only [bh, if_true] at hh
      rcases isRed_cases sl with ⟨la, ly, lb, rfl⟩ | hsl
      · have : balR' pc (T.node .black (T.node .red la ly lb) sd sr) pd x =
            (T.node pc (T.node .black la ly lb) sd (T.node .black sr pd x), false) := by
          simp [balR', blacken]
        rw [this]
        cases pc <;> simp only [BalOk, Bal, NoRR, bh] at * <;> simp at * <;> rb_close
      · rcases isRed_cases sr with ⟨b, y, a, rfl⟩ | hsr
        · have : balR' pc (T.node .black sl sd (T.node .red b y a)) pd x =
              (T.node pc (T.node .black sl sd b) y (T.node .black a pd x), false) := by
            simp [balR', blacken, hsl]
          rw [this]
          cases pc <;> simp only [BalOk, Bal, NoRR, bh] at * <;> simp at * <;> rb_close
        · have : balR' pc (T.node .black sl sd sr) pd x =
              (T.node .black (T.node .red sl sd sr) pd x, decide (pc = .black)) := by
            simp [balR', hsl, hsr]
          rw [this]
          cases pc <;> simp only [BalOk, Bal, NoRR, bh] at * <;> simp at * <;> rb_close

theorem balR_ok (pc : Color) (s : T α) (pd : α) (x : T α) (hbx : Bal x) (hbs : Bal s) (hnx : NoRR x) (hns : NoRR s)
    (hh : bh s = bh x + 1) (hpc : pc = .red → isRed s = false) : BalOk pc s (balR pc s pd x) := by
  rcases isRed_cases s with ⟨sl, sd, sr, rfl⟩ | hsb
  · have hpb : pc = .black := by
      cases pc with
      | black => rfl
      | red => simp at hpc
    subst hpb
    obtain ⟨hbl, hbr, hlr⟩ := hbs
    obtain ⟨hnl, hnr, hc⟩ := hns
    have hc' := hc rfl
    have hh' : bh sr = bh x + 1 := by simp [bh] at hh; omega
    obtain ⟨h1, h2, h3, _, h5⟩ := balR'_ok .red sr pd x hbx hbr hnx hnr hh' hc'.2
    have hfalse : (balR' .red sr pd x).2 = false := by
      cases hb : (balR' .red sr pd x).2 with
      | false => rfl
      | true => have := h5 hb; simp at this
    have : balR .black (T.node .red sl sd sr) pd x = (T.node .black sl sd (balR' .red sr pd x).1, (balR' .red sr pd x).2) := rfl
    rw [this]
    rw [hfalse] at h3 ⊢
    refine ⟨⟨hbl, h1, ?_⟩, ⟨hnl, h2, by simp⟩, ?_, fun _ => rfl, by simp⟩
    · simp at h3; omega
    · simp [bh]
  · have : balR pc s pd x = balR' pc s pd x := by
      cases s with
      | nil => rfl
      | node c _ _ _ =>
        cases c with
        | red => simp at hsb
        | black => rfl
    rw [this]
    exact balR'_ok pc s pd x hbx hbs hnx hns hh hsb

theorem splice_ok (c : Color) (ch : T α) (hb : Bal ch) (hn : NoRR ch) (hc : c = .red → isRed ch = false) :
    Bal (splice c ch).1 ∧ NoRR (splice c ch).1 ∧
      bh (splice c ch).1 + (if (splice c ch).2 = true then 1 else 0) = bh ch + (if c = .black then 1 else 0) ∧
      (c = .black → isRed (splice c ch).1 = false) := by
  cases c with
  | red => simp [splice, hb, hn]
  | black =>
    by_cases h : isRed ch = true
    · simp [splice, h, bal_blacken hb, norr_blacken hn, bh_blacken_red h, isRed_blacken]
    · have h' : isRed ch = false := by simpa using h
      simp [splice, h', hb, hn]

theorem joinL_ok (c : Color) (l : T α) (l' : T α × Bool) (d : α) (r : T α)
    (hb : Bal (T.node c l d r)) (hn : NoRR (T.node c l d r)) (h : DelOk l l') :
    DelOk (T.node c l d r) (joinL c l' d r) := by
  obtain ⟨hbl, hbr, hlr⟩ := hb
  obtain ⟨hnl, hnr, hc⟩ := hn
  obtain ⟨h1, h2, h3, h4⟩ := h
  unfold joinL
  by_cases hd : l'.2 = true
  · simp only [hd, if_true] at h3 ⊢
    obtain ⟨g1, g2, g3, g4, _⟩ := balL_ok c l'.1 d r h1 hbr h2 hnr (by omega) (fun hc' => (hc hc').2)
    refine ⟨g1, g2, ?_, ?_⟩
    · rw [g3]; simp [bh]; omega
    · intro hr
      cases c with
      | black => exact g4 rfl
      | red => simp at hr
  · have hd' : l'.2 = false := by simpa using hd
    simp only [hd', Bool.false_eq_true, if_false] at h3 ⊢
    refine ⟨⟨h1, hbr, by simp at h3; omega⟩, ⟨h2, hnr, fun hc' => ⟨h4 (hc hc').1, (hc hc').2⟩⟩, ?_, ?_⟩
    · simp [bh] at h3 ⊢; omega
    · intro hr
      cases c with
      | black => rfl
      | red => simp at hr

theorem joinR_ok (c : Color) (l : T α) (d d' : α) (r : T α) (r' : T α × Bool)
    (hb : Bal (T.node c l d r)) (hn : NoRR (T.node c l d r)) (h : DelOk r r') :
    DelOk (T.node c l d r) (joinR c l d' r') := by
  obtain ⟨hbl, hbr, hlr⟩ := hb
  obtain ⟨hnl, hnr, hc⟩ := hn
  obtain ⟨h1, h2, h3, h4⟩ := h
  unfold joinR
  by_cases hd : r'.2 = true
  · simp only [hd, if_true] at h3 ⊢
    obtain ⟨g1, g2, g3, g4, _⟩ := balR_ok c l d' r'.1 h1 hbl h2 hnl (by omega) (fun hc' => (hc hc').1)
    refine ⟨g1, g2, ?_, ?_⟩
    · rw [g3]; simp [bh]
    · intro hr
      cases c with
      | black => exact g4 rfl
      | red => simp at hr
  · have hd' : r'.2 = false := by simpa using hd
    simp only [hd', Bool.false_eq_true, if_false] at h3 ⊢
    refine ⟨⟨hbl, h1, by simp at h3; omega⟩, ⟨hnl, h2, fun hc' => ⟨(hc hc').1, h4 (hc hc').2⟩⟩, ?_, ?_⟩
    · simp [bh]
    · intro hr
      cases c with
      | black => rfl
      | red => simp at hr

theorem splice_delOk_right (c : Color) (d : α) (r : T α) (hb : Bal (T.node c .nil d r)) (hn : NoRR (T.node c .nil d r)) :
    DelOk (T.node c .nil d r) (splice c r) := by
  obtain ⟨g1, g2, g3, g4⟩ := splice_ok c r hb.2.1 hn.2.1 (fun hc => (hn.2.2 hc).2)
  have hbh : bh r = 1 := by have := hb.2.2; simp [bh] at this; omega
  refine ⟨g1, g2, ?_, ?_⟩
  · rw [g3, hbh]; simp [bh]
  · intro hr
    cases c with
    | black => exact g4 rfl
    | red => simp at hr

theorem splice_delOk_left (c : Color) (d : α) (l : T α) (hb : Bal (T.node c l d .nil)) (hn : NoRR (T.node c l d .nil)) :
    DelOk (T.node c l d .nil) (splice c l) := by
  obtain ⟨g1, g2, g3, g4⟩ := splice_ok c l hb.1 hn.1 (fun hc => (hn.2.2 hc).1)
  refine ⟨g1, g2, ?_, ?_⟩
  · rw [g3]; simp [bh]
  · intro hr
    cases c with
    | black => exact g4 rfl
    | red => simp at hr

theorem delMin_ok : ∀ (l : T α) (c : Color) (d : α) (r : T α), Bal (T.node c l d r) → NoRR (T.node c l d r) →
    DelOk (T.node c l d r) (delMin c l d r).2
  | .nil, c, d, r, hb, hn => by
    simp only [delMin]
    exact splice_delOk_right c d r hb hn
  | .node lc ll ld lr, c, d, r, hb, hn => by
    simp only [delMin]
    exact joinL_ok c _ _ d r hb hn (delMin_ok ll lc ld lr hb.1 hn.1)

theorem del_ok : ∀ (t : T α) (i : Nat), Bal t → NoRR t → DelOk t (del i t)
  | .nil, i, _, _ => by simp [del, DelOk, Bal, NoRR]
  | .node c l d r, i, hb, hn => by
    unfold del
    by_cases h1 : i < size l
    · simp only [h1, if_true]
      exact joinL_ok c l _ d r hb hn (del_ok l i hb.1 hn.1)
    · simp only [h1, if_false]
      by_cases h2 : i = size l
      · simp only [h2, if_true]
        cases l with
        | nil => exact splice_delOk_right c d r hb hn
        | node lc ll ld lr =>
          cases r with
          | nil => exact splice_delOk_left c d _ hb hn
          | node rc rl rd rr =>
            exact joinR_ok c _ d _ _ _ hb hn (delMin_ok rl rc rd rr hb.2.1 hn.2.1)
      · simp only [h2, if_false]
        exact joinR_ok c l d d r _ hb hn (del_ok r _ hb.2.1 hn.2.1)

theorem remove_isRB (i : Nat) (t : T α) (h : IsRB t) : IsRB (remove i t) := by
  obtain ⟨g1, g2, _, _⟩ := del_ok t i h.1 h.2.1
  exact ⟨bal_blacken g1, norr_blacken g2, isRed_blacken _⟩

end LyModel.Sib.Rb
