import LyModel.Sib.Rb
import LyModel.Sib.SortLemmas
/-! Stage 2: in-order of the red-black insertion = stable sorted insertion; red-black invariants preserved. -/
namespace LyModel.Sib.Rb
open LyModel.Sib

variable {α : Type}

theorem inorder_fixL (t : T α) : inorder (fixL t) = inorder t := by
  unfold fixL
  split
  · split <;> simp [inorder, List.append_assoc]
  · split <;> simp [inorder, List.append_assoc]
  · rfl

theorem inorder_fixR (t : T α) : inorder (fixR t) = inorder t := by
  unfold fixR
  split
  · split <;> simp [inorder, List.append_assoc]
  · split <;> simp [inorder, List.append_assoc]
  · rfl

theorem inorder_blacken (t : T α) : inorder (blacken t) = inorder t := by
  cases t <;> rfl

theorem sins_append_stop (r : α → α → Bool) (x d : α) (hd : r d x = false) : ∀ (A B : List α),
    sins r x (A ++ d :: B) = sins r x A ++ d :: B
  | [], B => by simp [sins, List.takeWhile_cons, List.dropWhile_cons, hd]
  | a :: A, B => by
    have ih := sins_append_stop r x d hd A B
    unfold sins at ih ⊢
    by_cases ha : r a x = true
    · simp only [List.cons_append, List.takeWhile_cons, List.dropWhile_cons, ha, if_true]
      rw [ih]
    · simp [List.takeWhile_cons, List.dropWhile_cons, ha]

theorem sins_append_pass (r : α → α → Bool) (x : α) : ∀ (A C : List α), (∀ a ∈ A, r a x = true) →
    sins r x (A ++ C) = A ++ sins r x C
  | [], C, _ => rfl
  | a :: A, C, h => by
    have ih := sins_append_pass r x A C (fun a' ha' => h a' (List.mem_cons_of_mem _ ha'))
    have ha := h a (List.mem_cons_self ..)
    unfold sins at ih ⊢
    simp only [List.cons_append, List.takeWhile_cons, List.dropWhile_cons, ha, if_true]
    rw [ih]

/-- in-order after `rb_insert_node` + `rb_insert_color` = the instance block after `lyds_link_data_node`:
    the new key sits behind every key that is ≤ it -/
theorem inorder_ins (gt : α → α → Bool)
    (trans : ∀ a b c, gt a b = false → gt b c = false → gt a c = false) (x : α) :
    ∀ t : T α, (inorder t).Pairwise (fun a b => gt a b = false) →
      inorder (ins gt x t) = sins (fun a b => !gt a b) x (inorder t)
  | .nil, _ => by simp [ins, inorder, sins]
  | .node c l d r, hs => by
    simp only [inorder] at hs
    rw [List.pairwise_append] at hs
    obtain ⟨hl, hdr, hcross⟩ := hs
    have hr := (List.pairwise_cons.mp hdr).2
    unfold ins
    by_cases hg : gt d x = true
    · simp only [hg, if_true, inorder_fixL, inorder]
      rw [inorder_ins gt trans x l hl]
      exact (sins_append_stop (fun a b => !gt a b) x d (by simp [hg]) _ _).symm
    · have hg' : gt d x = false := by simpa using hg
      simp only [hg, if_false, inorder_fixR, inorder, Bool.false_eq_true]
      rw [inorder_ins gt trans x r hr]
      have hpass : ∀ a ∈ inorder l, (fun a b => !gt a b) a x = true := by
        intro a ha
        have := trans a d x (hcross a ha d (List.mem_cons_self ..)) hg'
        simp [this]
      rw [sins_append_pass (fun a b => !gt a b) x (inorder l) (d :: inorder r) hpass]
      congr 1
      simp [sins, List.takeWhile_cons, List.dropWhile_cons, hg']

theorem inorder_insert (gt : α → α → Bool)
    (trans : ∀ a b c, gt a b = false → gt b c = false → gt a c = false) (x : α) (t : T α)
    (hs : (inorder t).Pairwise (fun a b => gt a b = false)) :
    inorder (insert gt x t) = sins (fun a b => !gt a b) x (inorder t) := by
  unfold insert
  rw [inorder_blacken, inorder_ins gt trans x t hs]

end LyModel.Sib.Rb
