import LyModel.Sib.Model
/-!
Order lemmas for `Sib`: the key order and the node order `nle` are total preorders (antisymmetric on keys),
and generic facts about stable insertion into a list sorted by a total preorder.
-/
namespace LyModel.Sib

/-! ## keys -/

theorem lexLe_total : ∀ a b : Bytes, lexLe a b = true ∨ lexLe b a = true
  | [], _ => Or.inl (by simp [lexLe])
  | _ :: _, [] => Or.inr (by simp [lexLe])
  | a :: as, b :: bs => by
    simp only [lexLe, Bool.or_eq_true, Bool.and_eq_true, decide_eq_true_eq, beq_iff_eq]
    rcases Nat.lt_trichotomy a.toNat b.toNat with h | h | h
    · exact Or.inl (Or.inl (UInt8.lt_iff_toNat_lt.mpr h))
    · have e : a = b := UInt8.toNat_inj.mp h
      subst e
      rcases lexLe_total as bs with h' | h'
      · exact Or.inl (Or.inr ⟨rfl, h'⟩)
      · exact Or.inr (Or.inr ⟨rfl, h'⟩)
    · exact Or.inr (Or.inl (UInt8.lt_iff_toNat_lt.mpr h))

theorem lexLe_trans : ∀ a b c : Bytes, lexLe a b = true → lexLe b c = true → lexLe a c = true
  | [], _, _ => by simp [lexLe]
  | _ :: _, [], _ => by simp [lexLe]
  | _ :: _, _ :: _, [] => by simp [lexLe]
  | a :: as, b :: bs, c :: cs => by
    simp only [lexLe, Bool.or_eq_true, Bool.and_eq_true, decide_eq_true_eq, beq_iff_eq]
    intro h1 h2
    rcases h1 with h1 | ⟨e1, h1⟩ <;> rcases h2 with h2 | ⟨e2, h2⟩
    · exact Or.inl (UInt8.lt_iff_toNat_lt.mpr (Nat.lt_trans (UInt8.lt_iff_toNat_lt.mp h1) (UInt8.lt_iff_toNat_lt.mp h2)))
    · subst e2; exact Or.inl h1
    · subst e1; exact Or.inl h2
    · subst e1; subst e2; exact Or.inr ⟨rfl, lexLe_trans as bs cs h1 h2⟩

theorem lexLe_antisymm : ∀ a b : Bytes, lexLe a b = true → lexLe b a = true → a = b
  | [], [] => by simp
  | [], _ :: _ => by simp [lexLe]
  | _ :: _, [] => by simp [lexLe]
  | a :: as, b :: bs => by
    simp only [lexLe, Bool.or_eq_true, Bool.and_eq_true, decide_eq_true_eq, beq_iff_eq]
    intro h1 h2
    rcases h1 with h1 | ⟨e1, h1⟩ <;> rcases h2 with h2 | ⟨e2, h2⟩
    · exact absurd (Nat.lt_trans (UInt8.lt_iff_toNat_lt.mp h1) (UInt8.lt_iff_toNat_lt.mp h2)) (Nat.lt_irrefl _)
    · subst e2; exact absurd (UInt8.lt_iff_toNat_lt.mp h1) (Nat.lt_irrefl _)
    · subst e1; exact absurd (UInt8.lt_iff_toNat_lt.mp h2) (Nat.lt_irrefl _)
    · subst e1; rw [lexLe_antisymm as bs h1 h2]

theorem Atom.le_total (a b : Atom) : a.le b = true ∨ b.le a = true := by
  cases a <;> cases b <;> simp only [Atom.le, decide_eq_true_eq]
  · omega
  · simp
  · simp
  · exact lexLe_total _ _

theorem Atom.le_trans (a b c : Atom) : a.le b = true → b.le c = true → a.le c = true := by
  cases a <;> cases b <;> cases c <;> simp only [Atom.le, decide_eq_true_eq] <;> try simp
  · omega
  · exact lexLe_trans _ _ _

theorem Atom.le_antisymm (a b : Atom) : a.le b = true → b.le a = true → a = b := by
  cases a <;> cases b <;> simp only [Atom.le, decide_eq_true_eq] <;> try simp
  · omega
  · exact lexLe_antisymm _ _

theorem lexAtoms_total : ∀ a b : List Atom, lexAtoms a b = true ∨ lexAtoms b a = true
  | [], _ => Or.inl (by simp [lexAtoms])
  | _ :: _, [] => Or.inr (by simp [lexAtoms])
  | a :: as, b :: bs => by
    by_cases h : a = b
    · subst h
      simp only [lexAtoms, if_true]
      exact lexAtoms_total as bs
    · have h' : ¬ b = a := fun e => h e.symm
      simp only [lexAtoms, h, h', if_false]
      exact Atom.le_total a b

theorem lexAtoms_trans : ∀ a b c : List Atom, lexAtoms a b = true → lexAtoms b c = true → lexAtoms a c = true
  | [], _, _ => by simp [lexAtoms]
  | _ :: _, [], _ => by simp [lexAtoms]
  | _ :: _, _ :: _, [] => by simp [lexAtoms]
  | a :: as, b :: bs, c :: cs => by
    by_cases h1 : a = b
    · subst h1
      by_cases h2 : a = c
      · subst h2
        simp only [lexAtoms, if_true]
        exact lexAtoms_trans as bs cs
      · simp only [lexAtoms, h2, if_true, if_false]
        intro _ h; exact h
    · by_cases h2 : b = c
      · subst h2
        simp only [lexAtoms, h1, if_true, if_false]
        intro h _; exact h
      · by_cases h3 : a = c
        · subst h3
          simp only [lexAtoms, h1, h2, if_false]
          intro hab hba
          exact absurd (Atom.le_antisymm a b hab hba) h1
        · simp only [lexAtoms, h1, h2, h3, if_false]
          exact Atom.le_trans a b c

theorem lexAtoms_antisymm : ∀ a b : List Atom, lexAtoms a b = true → lexAtoms b a = true → a = b
  | [], [] => by simp
  | [], _ :: _ => by simp [lexAtoms]
  | _ :: _, [] => by simp [lexAtoms]
  | a :: as, b :: bs => by
    by_cases h : a = b
    · subst h
      simp only [lexAtoms, if_true]
      intro h1 h2
      rw [lexAtoms_antisymm as bs h1 h2]
    · have h' : ¬ b = a := fun e => h e.symm
      simp only [lexAtoms, h, h', if_false]
      intro h1 h2
      exact absurd (Atom.le_antisymm a b h1 h2) h

theorem Key.le_total (a b : Key) : a.le b = true ∨ b.le a = true := by
  cases a <;> cases b <;> simp only [Key.le, decide_eq_true_eq] <;> try simp
  · omega
  · exact lexLe_total _ _
  · exact lexAtoms_total _ _

theorem Key.le_trans (a b c : Key) : a.le b = true → b.le c = true → a.le c = true := by
  cases a <;> cases b <;> cases c <;> simp only [Key.le, decide_eq_true_eq] <;> try simp
  · omega
  · exact lexLe_trans _ _ _
  · exact lexAtoms_trans _ _ _

theorem Key.le_antisymm (a b : Key) : a.le b = true → b.le a = true → a = b := by
  cases a <;> cases b <;> simp only [Key.le, decide_eq_true_eq] <;> try simp
  · omega
  · exact lexLe_antisymm _ _
  · exact lexAtoms_antisymm _ _

theorem Key.le_refl (a : Key) : a.le a = true := by
  rcases Key.le_total a a with h | h <;> exact h

/-! ## schema references -/

theorem SRef.lt_irrefl (a : SRef) : a.lt a = false := by
  simp [SRef.lt]

theorem SRef.lt_trans {a b c : SRef} : a.lt b = true → b.lt c = true → a.lt c = true := by
  simp only [SRef.lt, Bool.or_eq_true, Bool.and_eq_true, decide_eq_true_eq, beq_iff_eq]
  omega

theorem SRef.lt_asymm {a b : SRef} : a.lt b = true → b.lt a = false := by
  intro h
  cases hb : b.lt a
  · rfl
  · have := SRef.lt_trans h hb
    rw [SRef.lt_irrefl] at this
    cases this

theorem SRef.lt_or_eq_or_gt (a b : SRef) : a.lt b = true ∨ a = b ∨ b.lt a = true := by
  rcases a with ⟨am, ai⟩
  rcases b with ⟨bm, bi⟩
  simp only [SRef.lt, Bool.or_eq_true, Bool.and_eq_true, decide_eq_true_eq, beq_iff_eq, SRef.mk.injEq]
  omega

/-! ## the node order -/

theorem nle_total (S : Schema) (a b : Node) : nle S a b = true ∨ nle S b a = true := by
  unfold nle
  cases ha : a.sch <;> cases hb : b.sch <;> simp
  rename_i x y
  by_cases h : x = y
  · subst h
    simp only [if_true]
    cases hs : (S x).sorted <;> simp
    exact Key.le_total _ _
  · have h' : ¬ y = x := fun e => h e.symm
    simp only [h, h', if_false]
    rcases SRef.lt_or_eq_or_gt x y with h1 | h1 | h1
    · exact Or.inl h1
    · exact absurd h1 h
    · exact Or.inr h1

theorem nle_trans (S : Schema) (a b c : Node) : nle S a b = true → nle S b c = true → nle S a c = true := by
  unfold nle
  cases ha : a.sch <;> cases hb : b.sch <;> cases hc : c.sch <;> simp
  rename_i x y z
  by_cases hxy : x = y
  · subst hxy
    by_cases hxz : x = z
    · subst hxz
      simp only [if_true]
      cases hs : (S x).sorted <;> simp
      exact Key.le_trans _ _ _
    · simp only [hxz, if_true, if_false]
      intro _ h; exact h
  · by_cases hyz : y = z
    · subst hyz
      simp only [hxy, if_true, if_false]
      intro h _; exact h
    · simp only [hxy, hyz, if_false]
      intro h1 h2
      have h3 := SRef.lt_trans h1 h2
      by_cases hxz : x = z
      · subst hxz
        rw [SRef.lt_irrefl] at h3
        cases h3
      · simp only [hxz, if_false]
        exact h3

theorem nle_refl (S : Schema) (a : Node) : nle S a a = true := by
  rcases nle_total S a a with h | h <;> exact h

/-- nodes the order cannot tell apart (ties): same non-sorted schema, or both opaque, or equal keys -/
def neqv (S : Schema) (a b : Node) : Bool := nle S a b && nle S b a

end LyModel.Sib
