import LyModel.Sib.HtLookupLemmas
/-!
Incremental maintenance of the children hash table: `lyd_insert_hash_add` (`htAdd`) after linking a node and
`lyd_unlink_hash` (`htDel`) before unlinking one keep the content equal (as a multiset) to the from-scratch content.
-/
namespace LyModel.Sib

def ownRec (S : Schema) (n : Node) : List Rec :=
  match n.sch with
  | none => []
  | some x => if (S x).listLike then [(HKey.inst x n.key, n.id)] else [(HKey.sch x, n.id)]

def firstRec (S : Schema) (prev : Option Node) (n : Node) : List Rec :=
  match n.sch with
  | none => []
  | some x => if (S x).listLike && !sameSch prev n then [(HKey.sch x, n.id)] else []

theorem recsOf_eq (S : Schema) (prev : Option Node) (n : Node) : recsOf S prev n = ownRec S n ++ firstRec S prev n := by
  unfold recsOf ownRec firstRec
  cases n.sch <;> simp

theorem getLast?_cons_or (x : Node) (a : List Node) (p : Option Node) :
    ((x :: a).getLast?).or p = (a.getLast?).or (some x) := by
  cases a with
  | nil => simp
  | cons y t =>
    rw [List.getLast?_cons_cons]
    cases h : (y :: t).getLast? with
    | none => simp at h
    | some z => simp

theorem htContentAux_append (S : Schema) : ∀ (a r : List Node) (prev : Option Node),
    htContentAux S prev (a ++ r) = htContentAux S prev a ++ htContentAux S ((a.getLast?).or prev) r
  | [], r, prev => by simp [htContentAux]
  | x :: a, r, prev => by
    rw [List.cons_append, htContentAux_cons, htContentAux_cons, htContentAux_append S a r (some x), getLast?_cons_or]
    simp [List.append_assoc]

theorem mem_content_id (S : Schema) : ∀ (l : List Node) (p : Option Node) (r : Rec),
    r ∈ htContentAux S p l → ∃ m ∈ l, m.id = r.2
  | [], _, r, h => by simp [htContentAux] at h
  | n :: rest, p, r, h => by
    rw [htContentAux_cons] at h
    rcases List.mem_append.mp h with h1 | h1
    · refine ⟨n, List.mem_cons_self .., ?_⟩
      unfold recsOf at h1
      cases hn : n.sch with
      | none => simp [hn] at h1
      | some x =>
        simp only [hn] at h1
        rcases List.mem_append.mp h1 with h2 | h2
        · split at h2 <;> simp at h2 <;> simp [h2]
        · split at h2 <;> simp at h2 <;> simp [h2]
    · obtain ⟨m, hm, e⟩ := mem_content_id S rest (some n) r h1
      exact ⟨m, List.mem_cons_of_mem _ hm, e⟩

theorem count_content_fresh (S : Schema) (l : List Node) (p : Option Node) (k : HKey) (i : Nat)
    (h : ∀ m ∈ l, m.id ≠ i) : (htContentAux S p l).count (k, i) = 0 := by
  apply List.count_eq_zero_of_not_mem
  intro hm
  obtain ⟨m, hml, e⟩ := mem_content_id S l p (k, i) hm
  exact h m hml e

/-- the content of `a ++ n :: b` and of `a ++ b`, cut at the insertion point -/
theorem content_with (S : Schema) (a : List Node) (n : Node) (b : List Node) :
    htContent S (a ++ n :: b) =
      htContentAux S none a ++ (ownRec S n ++ firstRec S a.getLast? n) ++ htContentAux S (some n) b := by
  unfold htContent
  rw [htContentAux_append, htContentAux_cons, recsOf_eq]
  simp [List.append_assoc]

theorem content_without (S : Schema) (a b : List Node) :
    htContent S (a ++ b) = htContentAux S none a ++ htContentAux S a.getLast? b := by
  unfold htContent
  rw [htContentAux_append]
  simp

theorem contentAux_head (S : Schema) (q : Option Node) (h : Node) (t : List Node) :
    htContentAux S q (h :: t) = ownRec S h ++ firstRec S q h ++ htContentAux S (some h) t := by
  rw [htContentAux_cons, recsOf_eq]

/-- The first-instance record of the node behind the insertion point does not depend on whether `n` is there,
    unless `n` is an instance of the same (leaf-)list and becomes the first one. -/
theorem firstRec_next_eq (S : Schema) (pa : Option Node) (n h : Node)
    (hloc : sameSch pa h = true → sameSch pa n = true)
    (hcase : sameSch (some n) h = true → sameSch pa n = true) :
    firstRec S (some n) h = firstRec S pa h := by
  unfold firstRec
  cases hh : h.sch with
  | none => rfl
  | some y =>
    simp only
    cases hl : (S y).listLike with
    | false => simp
    | true =>
      simp only [Bool.true_and]
      by_cases hc : sameSch (some n) h = true
      · have hb := hcase hc
        -- pa, n, h all have schema y
        have hnh : n.sch = h.sch := by simpa [sameSch] using hc
        have : sameSch pa h = true := by
          cases hp : pa with
          | none => simp [hp, sameSch] at hb
          | some p =>
            simp only [hp, sameSch, beq_iff_eq] at hb ⊢
            rw [hb, hnh]
        simp [hc, this]
      · have hc' : sameSch (some n) h = false := by simpa using hc
        by_cases hd : sameSch pa h = true
        · have hb := hloc hd
          -- pa.sch = h.sch and pa.sch = n.sch give n.sch = h.sch
          exfalso
          cases hp : pa with
          | none => simp [hp, sameSch] at hb
          | some p =>
            simp only [hp, sameSch, beq_iff_eq] at hb hd
            apply hc
            simp only [sameSch, beq_iff_eq]
            rw [← hb, hd]
        · have hd' : sameSch pa h = false := by simpa using hd
          simp [hc', hd']

end LyModel.Sib
