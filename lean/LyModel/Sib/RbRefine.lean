import LyModel.Sib.RbReach
import LyModel.Sib.ReachLemmas
/-!
# The sibling-list model with the concrete sorting tree

`Sib.unlinkNode` / `Sib.insertNode` (Model.lean) treat the red-black tree of a system-ordered (leaf-)list abstractly: its
in-order sequence IS the block of instances in the sibling list.  Here the tree is carried along concretely — `CSibs` = the
sibling list + the `Lyds` record (tree behind the `lyds_tree` metadata, instance count) of one system-ordered (leaf-)list
`x` — and edited by `Rb.insert` / `Rb.remove` exactly where `lyd_insert_node` → `lyds_insert` and `lyd_unlink` →
`lyds_unlink` edit it; `cstep_ok` shows the abstraction is kept by every step.
-/
namespace LyModel.Sib
open Rb

/-- the instances of schema node `x` in sibling order -/
def block (x : SRef) (l : List Node) : List Node := l.filter (fun n => n.sch == some x)

structure CSibs where
  sibs : Sibs
  lyds : Lyds Node

/-- one edit on the concrete state.  `lyd_insert_node`: `lyds_insert(&first_sibling, &leader, node)` when the node is an
    instance of `x` (the leader = first instance of the block, if any).  `lyd_unlink`: `lyds_unlink(&leader, node)`; the
    red-black node is the one at the node's position inside the block.  `lyd_insert_before/after` are admitted for
    user-ordered lists only and never touch a sorting tree.  `lyd_change_node_value` of an instance that is not alone is
    `lyd_unlink_tree` + `lyd_insert_node`; a lone instance keeps its place (and its one-node tree, if any, keeps its shape:
    `setAt`). -/
def cstep (S : Schema) (cx : Cx) (fixed : Bool) (x : SRef) (c : CSibs) (o : Op) : CSibs :=
  ⟨step S cx fixed c.sibs o,
   match o with
   | .insert n => if n.sch = some x then c.lyds.insert keyGt (block x c.sibs.nodes) n else c.lyds
   | .unlink id =>
     match splitAtId id c.sibs.nodes with
     | some (a, n, _) => if n.sch = some x then c.lyds.unlink (block x a).length else c.lyds
     | none => c.lyds
   | _ => c.lyds⟩

def crun (S : Schema) (cx : Cx) (fixed : Bool) (x : SRef) : CSibs → List Op → CSibs
  | c, [] => c
  | c, o :: r => crun S cx fixed x (cstep S cx fixed x c o) r

theorem crun_sibs (S : Schema) (cx : Cx) (fixed : Bool) (x : SRef) : ∀ (ops : List Op) (c : CSibs),
    (crun S cx fixed x c ops).sibs = runOps S cx fixed c.sibs ops
  | [], _ => rfl
  | o :: r, c => by simp only [crun, runOps]; rw [crun_sibs S cx fixed x r]; rfl

/-! ## the block under the list edits -/

theorem block_append (x : SRef) (a b : List Node) : block x (a ++ b) = block x a ++ block x b := by
  simp [block]

theorem block_cons_same (x : SRef) (n : Node) (b : List Node) (h : n.sch = some x) : block x (n :: b) = n :: block x b := by
  simp [block, h]

theorem block_cons_other (x : SRef) (n : Node) (b : List Node) (h : n.sch ≠ some x) : block x (n :: b) = block x b := by
  simp [block, h]

theorem nle_same (S : Schema) (x : SRef) (hx : (S x).sorted = true) (a b : Node) (ha : a.sch = some x) (hb : b.sch = some x) :
    nle S a b = a.key.le b.key := by
  simp [nle, ha, hb, hx]

theorem block_sorted (S : Schema) (x : SRef) (hx : (S x).sorted = true) (l : List Node)
    (hs : l.Pairwise (fun a b => nle S a b = true)) : (block x l).Pairwise (fun a b => keyGt a b = false) := by
  have h1 : (block x l).Pairwise (fun a b => nle S a b = true) := hs.sublist (List.filter_sublist ..)
  refine h1.imp_of_mem ?_
  intro a b ha hb hab
  have ha' : a.sch = some x := by simpa [block] using (List.mem_filter.mp ha).2
  have hb' : b.sch = some x := by simpa [block] using (List.mem_filter.mp hb).2
  rw [nle_same S x hx a b ha' hb'] at hab
  simp [keyGt, hab]

/-- everything behind the insertion point of a sorted list is greater than the new element -/
theorem dropWhile_all_fail {α : Type} (r : α → α → Bool) (trans : ∀ a b c, r a b = true → r b c = true → r a c = true)
    (n : α) (l : List α) (hs : l.Pairwise (fun a b => r a b = true)) :
    ∀ e ∈ l.dropWhile (fun e => r e n), r e n = false := by
  intro e he
  cases hdw : l.dropWhile (fun e => r e n) with
  | nil => rw [hdw] at he; cases he
  | cons h t =>
    have hh : r h n = false := head_dropWhile_not (p := fun e => r e n) hdw
    have hsd : (h :: t).Pairwise (fun a b => r a b = true) := by
      rw [← hdw]; exact hs.sublist (List.dropWhile_sublist _)
    rw [hdw] at he
    rcases List.mem_cons.mp he with e1 | e1
    · subst e1; exact hh
    · have hhe : r h e = true := (List.pairwise_cons.mp hsd).1 e e1
      cases hen : r e n with
      | false => rfl
      | true => have := trans _ _ _ hhe hen; rw [hh] at this; cases this

theorem takeWhile_append_all {α : Type} (p : α → Bool) (A B : List α) (hA : ∀ a ∈ A, p a = true) (hB : ∀ b ∈ B, p b = false) :
    (A ++ B).takeWhile p = A ∧ (A ++ B).dropWhile p = B := by
  induction A with
  | nil =>
    cases B with
    | nil => simp
    | cons b t => have := hB b (List.mem_cons_self ..); simp [List.takeWhile_cons, List.dropWhile_cons, this]
  | cons a A ih =>
    have ha := hA a (List.mem_cons_self ..)
    have := ih (fun a' ha' => hA a' (List.mem_cons_of_mem _ ha'))
    simp [List.takeWhile_cons, List.dropWhile_cons, ha, this.1, this.2]

/-- `lyd_insert_node` of an instance of `x`: inside the block it is the sorted-stable insertion by key -/
theorem block_sins_same (S : Schema) (x : SRef) (hx : (S x).sorted = true) (n : Node) (hn : n.sch = some x) (l : List Node)
    (hs : l.Pairwise (fun a b => nle S a b = true)) :
    block x (sins (fun a b => nle S a b) n l) = sins (fun a b => !keyGt a b) n (block x l) := by
  have hsplit := List.takeWhile_append_dropWhile (p := fun e => nle S e n) (l := l)
  have hbl : block x l = block x (l.takeWhile (fun e => nle S e n)) ++ block x (l.dropWhile (fun e => nle S e n)) := by
    rw [← block_append, hsplit]
  have hA : ∀ a ∈ block x (l.takeWhile (fun e => nle S e n)), (fun e => !keyGt e n) a = true := by
    intro a ha
    obtain ⟨ha1, ha2⟩ := List.mem_filter.mp ha
    have ha' : a.sch = some x := by simpa using ha2
    have := mem_takeWhile_imp (p := fun e => nle S e n) ha1
    rw [nle_same S x hx a n ha' hn] at this
    simp [keyGt, this]
  have hB : ∀ b ∈ block x (l.dropWhile (fun e => nle S e n)), (fun e => !keyGt e n) b = false := by
    intro b hb
    obtain ⟨hb1, hb2⟩ := List.mem_filter.mp hb
    have hb' : b.sch = some x := by simpa using hb2
    have := dropWhile_all_fail (fun a b => nle S a b) (nle_trans S) n l hs b hb1
    rw [nle_same S x hx b n hb' hn] at this
    simp [keyGt, this]
  obtain ⟨e1, e2⟩ := takeWhile_append_all (fun e => !keyGt e n) _ _ hA hB
  unfold sins
  rw [block_append, block_cons_same x n _ hn, hbl, e1, e2]

theorem block_sins_other {r : Node → Node → Bool} (x : SRef) (n : Node) (hn : n.sch ≠ some x) (l : List Node) :
    block x (sins r n l) = block x l := by
  unfold sins
  rw [block_append, block_cons_other x n _ hn, ← block_append, List.takeWhile_append_dropWhile]

theorem block_link_other (x : SRef) (n : Node) (hn : n.sch ≠ some x) (l : List Node) (p : Nat) :
    block x (l.take p ++ n :: l.drop p) = block x l := by
  rw [block_append, block_cons_other x n _ hn, ← block_append, List.take_append_drop]

theorem sorted_not_userOrd {k : SKind} (h : k.sorted = true) : k.userOrd = false := by
  cases k with
  | leaf => rfl
  | cont => rfl
  | list o => cases o <;> simp_all [SKind.sorted, SKind.userOrd]
  | leaflist o => cases o <;> simp_all [SKind.sorted, SKind.userOrd]

/-! ## one step keeps the abstraction -/

theorem cstep_ok (S : Schema) (cx : Cx) (fixed : Bool) (x : SRef) (hx : (S x).sorted = true) (c : CSibs) (o : Op)
    (h : Inv S cx c.sibs) (hok : OpOk S cx c.sibs o) (hc : isChange o = false)
    (href : LydsOk c.lyds (block x c.sibs.nodes)) :
    LydsOk (cstep S cx fixed x c o).lyds (block x (cstep S cx fixed x c o).sibs.nodes) := by
  have hbs := block_sorted S x hx _ h.sorted
  cases o with
  | insert n =>
    simp only [cstep, step]
    rw [insertNode_nodes S cx c.sibs n h hok]
    by_cases hn : n.sch = some x
    · simp only [hn, if_true]
      rw [block_sins_same S x hx n hn _ h.sorted]
      exact (lyds_step_ok keyGt keyGt_total keyGt_trans c.lyds _ (.ins n) href hbs).1
    · simp only [hn, if_false]
      rw [block_sins_other x n hn]
      exact href
  | unlink id =>
    simp only [cstep, step, unlinkNode]
    cases hsp : splitAtId id c.sibs.nodes with
    | none => exact href
    | some t =>
      obtain ⟨a, n, b⟩ := t
      obtain ⟨hl, _⟩ := splitAtId_spec _ _ _ _ _ hsp
      simp only
      by_cases hn : n.sch = some x
      · simp only [hn, if_true]
        rw [hl, block_append, block_cons_same x n b hn] at href hbs
        have hlt : (block x a).length < (block x a ++ n :: block x b).length := by simp
        have := (lyds_step_ok keyGt keyGt_total keyGt_trans c.lyds _ (.del (block x a).length) href hbs).1
        simp only [lydsStep, hlt, if_true] at this
        rw [List.eraseIdx_append_of_length_le (Nat.le_refl _)] at this
        simpa [block_append] using this
      · simp only [hn, if_false]
        rw [hl, block_append, block_cons_other x n b hn, ← block_append] at href
        exact href
  | before t n =>
    obtain ⟨_, y, hy, hu, _⟩ := hok
    have hn : n.sch ≠ some x := by
      intro e; rw [hy] at e; cases e
      rw [sorted_not_userOrd hx] at hu; cases hu
    simp only [cstep, step, insertBefore]
    cases idxOfId c.sibs.nodes t with
    | none => exact href
    | some i => simp only [linkAt]; rw [block_link_other x n hn]; exact href
  | after t n =>
    obtain ⟨_, y, hy, hu, _⟩ := hok
    have hn : n.sch ≠ some x := by
      intro e; rw [hy] at e; cases e
      rw [sorted_not_userOrd hx] at hu; cases hu
    simp only [cstep, step, insertAfter]
    cases idxOfId c.sibs.nodes t with
    | none => exact href
    | some i => simp only [linkAt]; rw [block_link_other x n hn]; exact href
  | change id k => simp [isChange] at hc

theorem crun_ok (S : Schema) (cx : Cx) (fixed : Bool) (x : SRef) (hx : (S x).sorted = true) : ∀ (ops : List Op) (c : CSibs),
    Inv S cx c.sibs → HistOk S cx fixed c.sibs ops → (∀ o ∈ ops, isChange o = false) →
    LydsOk c.lyds (block x c.sibs.nodes) →
    Inv S cx (crun S cx fixed x c ops).sibs ∧
      LydsOk (crun S cx fixed x c ops).lyds (block x (crun S cx fixed x c ops).sibs.nodes)
  | [], _, h, _, _, href => ⟨h, href⟩
  | o :: r, c, h, hok, hc, href => by
    have hc1 := hc o (List.mem_cons_self ..)
    have h' : Inv S cx (cstep S cx fixed x c o).sibs := inv_step_gen S cx fixed c.sibs o h hok.1 (Or.inr hc1)
    exact crun_ok S cx fixed x hx r _ h' hok.2 (fun o' ho' => hc o' (List.mem_cons_of_mem _ ho'))
      (cstep_ok S cx fixed x hx c o h hok.1 hc1 href)

end LyModel.Sib
