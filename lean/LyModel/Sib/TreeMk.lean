import LyModel.Sib.Tree
/-!
# Sib.TreeMk — lists with several keys: `lyd_new_list2`, `lyd_new_path`, `lyd_find_sibling_val` with key predicates

The key of a list instance is the tuple of its key-leaf values in SCHEMA order (`Key.tup`; a single key stays `Key.int` /
`Key.str`), whatever the order of the predicates `[k='v']…` was: `lyd_create_list` creates one key leaf per predicate, in
predicate order, and links each with `lyd_insert_node(list, NULL, key, LYD_INSERT_NODE_DEFAULT)` — schema order.  The
instance is then placed among its siblings by `rb_compare_lists` (key by key) and indexed under the hash of all keys.
`lyd_new_path` first looks for the longest existing prefix of the path (`ly_path_eval_partial`: from the children of the
given parent for a relative path, from the first top-level sibling of its tree for an absolute one; list instances by key
tuple through `lyd_find_sibling_first`), answers `LY_EEXIST` if everything exists, and creates the rest top-down.
-/
namespace LyModel.Sib

def splitBytes (sep : UInt8) (b : Bytes) : List Bytes :=
  let r := b.foldl (fun (acc : List Bytes × Bytes) c => if c == sep then (acc.2.reverse :: acc.1, []) else (acc.1, c :: acc.2)) ([], [])
  (r.2.reverse :: r.1).reverse

/-- `name='value']` → (name, value) -/
def parsePred (b : Bytes) : Option (String × Bytes) :=
  let nm := b.takeWhile (· != 61)
  match b.dropWhile (· != 61) with
  | 61 :: 39 :: rest =>
    match rest.reverse with
    | 93 :: 39 :: v => some (stringOfBytes nm, v.reverse)
    | _ => none
  | _ => none

/-- one path segment `[prefix:]name[k='v']…` → (prefix, name, predicates in the order written) -/
def parseSeg (b : Bytes) : Option (Option String × String × List (String × Bytes)) :=
  match splitBytes 91 b with
  | [] => none
  | qn :: ps =>
    let pre := qn.takeWhile (· != 58)
    let (px, nm) := if pre.length == qn.length then (none, stringOfBytes qn) else (some (stringOfBytes pre), stringOfBytes (qn.drop (pre.length + 1)))
    (ps.mapM parsePred).map (fun l => (px, nm, l))

def mkKey : List Key → Key
  | [k] => k
  | ks => .tup (ks.map atomOf)

def Forest.keyEnts (f : Forest) (e : SEnt) : List SEnt := f.ents.filter (fun k => k.parent == some e.sid && k.kind == "key")

inductive KeyRes where
  | ok (key : Key) (canons : List (SEnt × Bytes))
  | bad            -- a value its type does not accept: LY_EVALID
  | malformed      -- a key missing / given twice / not a key of the list

/-- stored values of all keys (schema order) from the predicates -/
def Forest.keysOf (f : Forest) (e : SEnt) (preds : List (String × Bytes)) : KeyRes :=
  let kes := f.keyEnts e
  if preds.length != kes.length || !(preds.all (fun p => kes.any (·.name == p.1))) then .malformed else
  match kes.mapM (fun ke => (preds.find? (·.1 == ke.name)).map (fun p => (ke, p.2))) with
  | none => .malformed
  | some kv =>
    match kv.mapM (fun (ke, v) => (storeVal ke.ktype v).map (fun r => (ke, r))) with
    | none => .bad
    | some st => .ok (mkKey (st.map (·.2.2))) (st.map (fun x => (x.1, x.2.1)))

/-- `lyd_create_list`: the list node `id` alone in a group of its own, its key leaves (identities `base`, `base+1`, … in
    schema order) linked in predicate order by schema-ordered insertion -/
def Forest.createList (f : Forest) (id : Nat) (e : SEnt) (key : Key) (canons : List (SEnt × Bytes))
    (predOrder : List String) (base : Nat) : Forest × Node :=
  let g := f.nextGid
  let first := (canons.head?.map (·.2)).getD []
  let i : NInfo := ⟨id, some e.sid, "", first, .top g⟩
  let n : Node := ⟨id, some (f.sref e), key⟩
  let f1 := ({ f with nextGid := g + 1 }.setInfo i).setSibs (.top g) ⟨[n], none⟩
  let idOf := fun (ke : SEnt) => base + (canons.takeWhile (fun c => c.1.sid != ke.sid)).length
  let f2 := predOrder.foldl (fun (acc : Forest) nm =>
    match canons.find? (·.1.name == nm) with
    | none => acc
    | some (ke, canon) =>
      let ki : NInfo := ⟨idOf ke, some ke.sid, "", canon, .kids id⟩
      let kn : Node := ⟨idOf ke, some (acc.sref ke), .str []⟩
      let acc' := acc.setInfo ki
      acc'.setSibs (.kids id) (insertNode (acc'.schemaFor (some e.sid)) (acc'.cx (.kids id) (some e.sid)) (acc'.sibs (.kids id)) kn)) f1
  (f2, n)

def isListKind (k : String) : Bool := k == "ls" || k == "lu"

def opNewList2 (f : Forest) (id : Nat) (parent : Option Nat) (mod name : String) (preds : Bytes) : Res :=
  if (f.info id).isSome || (f.info (id + 1000)).isSome then .refuse "IdInUse" else
  match parent.map f.info with
  | some none => .refuse "NoNode"
  | pinfo =>
    let pinfo : Option NInfo := pinfo.bind (fun x => x)
    let psid := pinfo.bind (·.sid)
    if parent.isSome && ((psid.bind f.ent).map (fun e => isInnerKind e.kind)) != some true then .refuse "ParentNotInner" else
    match f.ents.find? (fun e => e.parent == psid && e.mod == mod && e.name == name && (isListKind e.kind || e.kind == "ld")) with
    | none => .done .enotfound f
    | some e =>
      if e.kind == "ld" then .refuse "OutOfFragment" else
      match (splitBytes 91 preds).drop 1 |>.mapM parsePred with
      | none => .refuse "BadPred"
      | some ps =>
        match f.keysOf e ps with
        | .malformed => .refuse "BadPred"
        | .bad => .done .evalid f
        | .ok key canons =>
          let (f1, n) := f.createList id e key canons (ps.map (·.1)) f.nextAuto
          let f2 := { f1 with nextAuto := f.nextAuto + canons.length }
          match parent, f2.info id with
          | some p, some i => .done .success (f2.place i (.kids p) (fun S cx s => insertNode S cx s n))
          | _, _ => .done .success f2

/-! ## `lyd_new_path` -/

structure PSeg where
  ent : SEnt
  preds : List (String × Bytes)

/-- schema nodes of the path: the first segment below `start` (`none` = top level; the prefix names the module), the others
    below their predecessor (same module) -/
def Forest.resolveSegs (f : Forest) : Option Nat → String → List (Option String × String × List (String × Bytes)) → Option (List PSeg)
  | _, _, [] => some []
  | par, curMod, (px, nm, ps) :: rest =>
    let m := px.getD curMod
    match f.ents.find? (fun e => e.parent == par && e.mod == m && e.name == nm) with
    | none => none
    | some e => (f.resolveSegs (some e.sid) m rest).map (fun l => ⟨e, ps⟩ :: l)

def rootOwnerFuel (f : Forest) : Nat → NInfo → Owner
  | 0, i => i.owner
  | k + 1, i =>
    match i.owner with
    | .top g => .top g
    | .kids p => match f.info p with
      | some pi => rootOwnerFuel f k pi
      | none => i.owner

/-- `ly_path_eval_partial`: identities of the existing nodes along the path, searched in list `o` and on downwards -/
def Forest.evalPartial (f : Forest) : Owner → List PSeg → List Nat
  | _, [] => []
  | o, sg :: rest =>
    let e := sg.ent
    let S := f.schemaFor e.parent
    let cx := f.cx o e.parent
    let s := f.sibs o
    let hit : Option Nat :=
      if isListKind e.kind then
        match f.keysOf e sg.preds with
        | .ok key _ => findFirst S cx s ⟨0, some (f.sref e), key⟩
        | _ => none
      else ((findSchema cx s (f.sref e)).bind (fun ix => s.nodes[ix]?)).map (·.id)
    match hit with
    | none => []
    | some id => id :: f.evalPartial (.kids id) rest

inductive MkRes where
  | ok (f : Forest)
  | evalid
  | unsupported

/-- the creating loop of `lyd_new_path_`; `cur` = the node the next one becomes a child of, `fresh` = identity for the
    next node (`none`: take the next automatic one) -/
def Forest.createSegs (f : Forest) (parent : Option Nat) (value : Bytes) : Option Nat → Option Nat → List PSeg → MkRes
  | _, _, [] => .ok f
  | cur, fresh, sg :: rest =>
    let e := sg.ent
    let (id, f0) := match fresh with
      | some i => (i, f)
      | none => (f.nextAuto, { f with nextAuto := f.nextAuto + 1 })
    let made : Option (Option (Forest × Node)) :=
      if isListKind e.kind then
        match f0.keysOf e sg.preds with
        | .ok key canons =>
          let r := f0.createList id e key canons (sg.preds.map (·.1)) f0.nextAuto
          some (some ({ r.1 with nextAuto := f0.nextAuto + canons.length }, r.2))
        | .bad => some none
        | .malformed => none
      else if e.kind == "c" || e.kind == "lf" then
        match (if e.kind == "lf" then storeVal e.ktype value else some ([], .str [])) with
        | none => some none
        | some (canon, key) =>
          let g := f0.nextGid
          let i : NInfo := ⟨id, some e.sid, "", canon, .top g⟩
          let n : Node := ⟨id, some (f0.sref e), key⟩
          some (some (({ f0 with nextGid := g + 1 }.setInfo i).setSibs (.top g) ⟨[n], none⟩, n))
      else none
    match made with
    | none => .unsupported
    | some none => .evalid
    | some (some (f1, n)) =>
      let target : Option Owner := match cur with
        | some cp => some (.kids cp)
        | none => (parent.bind f1.info).map (·.owner)
      let f2 := match target, f1.info id with
        | some o, some i => f1.place i o (fun S cx s => insertNode S cx s n)
        | _, _ => f1
      f2.createSegs parent value (some id) none rest

def opNewPath (f : Forest) (id : Nat) (parent : Option Nat) (path value : Bytes) : Res :=
  if (f.info id).isSome || (f.info (id + 1000)).isSome then .refuse "IdInUse" else
  match parent.map f.info with
  | some none => .refuse "NoNode"
  | pinfo =>
    let pinfo : Option NInfo := pinfo.bind (fun x => x)
    if (pinfo.map (fun p => p.sid.isNone)) == some true then .refuse "OpaqParent" else
    let absolute := path.head? == some 47
    if !absolute && pinfo.isNone then .done .einval f else
    match ((splitBytes 47 path).filter (· ≠ [])).mapM parseSeg with
    | none => .refuse "BadPath"
    | some raw =>
      let startSid := if absolute then none else pinfo.bind (·.sid)
      let startMod := ((startSid.bind f.ent).map (·.mod)).getD ""
      match f.resolveSegs startSid startMod raw with
      | none => .refuse "BadPath"
      | some [] => .refuse "BadPath"
      | some segs =>
        -- existing prefix
        let found : List Nat := match pinfo with
          | none => []
          | some p => f.evalPartial (if absolute then rootOwnerFuel f (f.infos.length + 1) p else .kids p.id) segs
        if found.length == segs.length then .done .eexist f else
        let cur : Option Nat := match found.getLast? with
          | some l => some l
          | none => if absolute then none else parent
        match f.createSegs parent value cur (some id) (segs.drop found.length) with
        | .ok f' => .done .success f'
        | .evalid => .done .evalid f
        | .unsupported => .refuse "OutOfFragment"

/-- `lyd_find_sibling_val(anchor, list, "[k='v']…")`: the instance with that key tuple, through the hash table if there is one -/
def opFindKeys (f : Forest) (anchor : Nat) (mod name : String) (preds : Bytes) : Res :=
  match f.info anchor with
  | none => .refuse "NoNode"
  | some a =>
    match a.sid.bind f.ent with
    | none => .refuse "OutOfFragment"
    | some ae =>
      match f.ents.find? (fun e => e.parent == ae.parent && e.mod == mod && e.name == name && isListKind e.kind) with
      | none => .refuse "NoSchema"
      | some e =>
        match (splitBytes 91 preds).drop 1 |>.mapM parsePred with
        | none => .refuse "BadPred"
        | some ps =>
          match f.keysOf e ps with
          | .malformed => .refuse "BadPred"
          | .bad => .found .evalid none
          | .ok key _ =>
            match findFirst (f.schemaFor ae.parent) (f.cx a.owner ae.parent) (f.sibs a.owner) ⟨0, some (f.sref e), key⟩ with
            | some r => .found .success (some r)
            | none => .found .enotfound none

end LyModel.Sib
