import LyModel.Sib.InvLemmas
/-! `inv_step` for every op: default insertion, insert before/after, change value (corrected), histories. -/
namespace LyModel.Sib

theorem sibs_eta (s : Sibs) : s = ⟨s.nodes, s.ht⟩ := by cases s; rfl

theorem inv_linkAt (S : Schema) (cx : Cx) (s : Sibs) (n : Node) (p : Nat)
    (h : Inv S cx s) (hn : NewOk S cx s n)
    (hs : (s.nodes.take p ++ n :: s.nodes.drop p).Pairwise (fun x y => nle S x y = true)) :
    Inv S cx (linkAt S cx (hkeyOf S) s n p).1 := by
  have e : s.nodes.take p ++ s.nodes.drop p = s.nodes := List.take_append_drop p s.nodes
  have h' : Inv S cx ⟨s.nodes.take p ++ s.nodes.drop p, s.ht⟩ := by rw [e, ← sibs_eta]; exact h
  have hn' : NewOk S cx ⟨s.nodes.take p ++ s.nodes.drop p, s.ht⟩ n := by rw [e, ← sibs_eta]; exact hn
  exact inv_link S cx _ _ s.ht n h' hn' hs

/-- `lyd_insert_node`: the list after the insertion is the stable sorted insertion -/
theorem insertNode_nodes (S : Schema) (cx : Cx) (s : Sibs) (n : Node) (h : Inv S cx s) (hn : NewOk S cx s n) :
    (insertNode S cx s n).nodes = sins (fun a b => nle S a b) n s.nodes := by
  simp only [insertNode, insertNodeH, linkAt, insertPos_eq S cx s n h hn]
  exact insAt_eq_sins (fun a b => nle S a b) n s.nodes

theorem inv_insertNode (S : Schema) (cx : Cx) (s : Sibs) (n : Node) (h : Inv S cx s) (hn : NewOk S cx s n) :
    Inv S cx (insertNode S cx s n) := by
  unfold insertNode insertNodeH
  apply inv_linkAt S cx s n _ h hn
  rw [insertPos_eq S cx s n h hn, insAt_eq_sins (fun a b => nle S a b) n s.nodes]
  exact sins_sorted (fun a b => nle S a b) (nle_total S) (nle_trans S) n s.nodes h.sorted

/-! ## insert before / after (user-ordered instances) -/

theorem idxOfId_split : ∀ (l : List Node) (t i : Nat), idxOfId l t = some i →
    ∃ a m b, l = a ++ m :: b ∧ a.length = i ∧ m.id = t
  | [], _, _, h => by simp [idxOfId] at h
  | x :: r, t, i, h => by
    simp only [idxOfId, List.findIdx?_cons] at h
    by_cases hx : (x.id == t) = true
    · simp only [hx, if_true, Option.some.injEq] at h
      exact ⟨[], x, r, rfl, by simpa using h, by simpa using hx⟩
    · simp only [hx, if_false, Bool.false_eq_true] at h
      cases hr : r.findIdx? (fun n => n.id == t) with
      | none => rw [hr] at h; cases h
      | some j =>
        rw [hr] at h
        simp only [Option.map_some, Option.some.injEq] at h
        obtain ⟨a, m, b, e1, e2, e3⟩ := idxOfId_split r t j (by simp [idxOfId, hr])
        exact ⟨x :: a, m, b, by rw [e1]; rfl, by simp [e2, h], e3⟩

/-- a tie of `m` (same schema, not system-ordered) can stand on either side of `m` -/
theorem pairwise_tie (S : Schema) (a b : List Node) (m n : Node)
    (h : (a ++ m :: b).Pairwise (fun x y => nle S x y = true))
    (h1 : ∀ e, nle S e n = nle S e m) (h2 : ∀ e, nle S n e = nle S m e) :
    (a ++ n :: m :: b).Pairwise (fun x y => nle S x y = true) ∧
    (a ++ m :: n :: b).Pairwise (fun x y => nle S x y = true) := by
  rw [List.pairwise_append] at h
  obtain ⟨ha, hmb, hcross⟩ := h
  have hmb' := List.pairwise_cons.mp hmb
  have hnm : nle S n m = true := by rw [h2]; exact nle_refl S m
  have hmn : nle S m n = true := by rw [h1]; exact nle_refl S m
  constructor
  · rw [List.pairwise_append]
    refine ⟨ha, ?_, ?_⟩
    · rw [List.pairwise_cons]
      refine ⟨?_, hmb⟩
      intro e he
      rcases List.mem_cons.mp he with e1 | e1
      · subst e1; exact hnm
      · rw [h2]; exact hmb'.1 e e1
    · intro x hx y hy
      rcases List.mem_cons.mp hy with e1 | e1
      · subst e1; rw [h1]; exact hcross x hx m (List.mem_cons_self ..)
      · exact hcross x hx y e1
  · rw [List.pairwise_append]
    refine ⟨ha, ?_, ?_⟩
    · rw [List.pairwise_cons]
      refine ⟨?_, ?_⟩
      · intro e he
        rcases List.mem_cons.mp he with e1 | e1
        · subst e1; exact hmn
        · exact hmb'.1 e e1
      · rw [List.pairwise_cons]
        refine ⟨?_, hmb'.2⟩
        intro e he
        rw [h2]; exact hmb'.1 e he
    · intro x hx y hy
      rcases List.mem_cons.mp hy with e1 | e1
      · subst e1; exact hcross x hx y (List.mem_cons_self ..)
      · rcases List.mem_cons.mp e1 with e2 | e2
        · subst e2; rw [h1]; exact hcross x hx m (List.mem_cons_self ..)
        · exact hcross x hx y (List.mem_cons_of_mem _ e2)

theorem userOrd_not_sorted {k : SKind} (h : k.userOrd = true) : k.sorted = false := by
  cases k with
  | leaf => rfl
  | cont => rfl
  | list o => cases o <;> simp [SKind.userOrd, SKind.sorted] at h ⊢
  | leaflist o => cases o <;> simp [SKind.userOrd, SKind.sorted] at h ⊢

theorem nle_tie_left (S : Schema) (m n : Node) (x : SRef) (hm : m.sch = some x) (hn : n.sch = some x)
    (hk : (S x).sorted = false) : (∀ e, nle S e n = nle S e m) ∧ (∀ e, nle S n e = nle S m e) := by
  constructor <;> intro e <;> cases he : e.sch <;> simp only [nle, he, hm, hn]
  · rename_i y
    by_cases e' : y = x
    · subst e'; simp [hk]
    · simp [e']
  · rename_i y
    by_cases e' : x = y
    · subst e'; simp [hk]
    · simp [e']

theorem take_drop_of_split (a : List Node) (m : Node) (b : List Node) :
    (a ++ m :: b).take a.length = a ∧ (a ++ m :: b).drop a.length = m :: b ∧
    (a ++ m :: b).take (a.length + 1) = a ++ [m] ∧ (a ++ m :: b).drop (a.length + 1) = b := by
  refine ⟨by simp, by simp, ?_, ?_⟩
  · have : a ++ m :: b = (a ++ [m]) ++ b := by simp
    rw [this]
    have hl : (a ++ [m]).length = a.length + 1 := by simp
    rw [← hl, List.take_left']
    rfl
  · have : a ++ m :: b = (a ++ [m]) ++ b := by simp
    rw [this]
    have hl : (a ++ [m]).length = a.length + 1 := by simp
    rw [← hl, List.drop_left']
    rfl

theorem inj_of_nodup_ids : ∀ (l : List Node), (l.map (·.id)).Nodup → ∀ a ∈ l, ∀ b ∈ l, a.id = b.id → a = b
  | [], _, a, ha, _, _, _ => by cases ha
  | x :: r, hnd, a, ha, b, hb, e => by
    rw [List.map_cons, List.nodup_cons] at hnd
    rcases List.mem_cons.mp ha with h1 | h1 <;> rcases List.mem_cons.mp hb with h2 | h2
    · rw [h1, h2]
    · subst h1; exact absurd (List.mem_map.mpr ⟨b, h2, e.symm⟩) hnd.1
    · subst h2; exact absurd (List.mem_map.mpr ⟨a, h1, e⟩) hnd.1
    · exact inj_of_nodup_ids r hnd.2 a h1 b h2 e

theorem inv_insertBefore (S : Schema) (cx : Cx) (s : Sibs) (t : Nat) (n : Node) (h : Inv S cx s)
    (hok : OpOk S cx s (.before t n)) : Inv S cx (insertBefore S cx s t n) := by
  obtain ⟨hn, x, hnx, huo, m, hm, hmt, hmx⟩ := hok
  unfold insertBefore
  cases hi : idxOfId s.nodes t with
  | none => exact h
  | some i =>
    obtain ⟨a, m', b, e1, e2, e3⟩ := idxOfId_split s.nodes t i hi
    -- the node found by identity is `m` (identities are unique)
    have hm' : m'.sch = some x := by
      have hm'mem : m' ∈ s.nodes := by rw [e1]; exact List.mem_append_right _ (List.mem_cons_self ..)
      have : m' = m := inj_of_nodup_ids s.nodes h.nodup m' hm'mem m hm (by rw [e3, hmt])
      rw [this]; exact hmx
    apply inv_linkAt S cx s n i h hn
    subst e2
    rw [e1, (take_drop_of_split a m' b).1, (take_drop_of_split a m' b).2.1]
    have hsorted : (a ++ m' :: b).Pairwise (fun x y => nle S x y = true) := by rw [← e1]; exact h.sorted
    have htie := nle_tie_left S m' n x hm' hnx (userOrd_not_sorted huo)
    exact (pairwise_tie S a b m' n hsorted htie.1 htie.2).1

theorem inv_insertAfter (S : Schema) (cx : Cx) (s : Sibs) (t : Nat) (n : Node) (h : Inv S cx s)
    (hok : OpOk S cx s (.after t n)) : Inv S cx (insertAfter S cx s t n) := by
  obtain ⟨hn, x, hnx, huo, m, hm, hmt, hmx⟩ := hok
  unfold insertAfter
  cases hi : idxOfId s.nodes t with
  | none => exact h
  | some i =>
    obtain ⟨a, m', b, e1, e2, e3⟩ := idxOfId_split s.nodes t i hi
    have hm' : m'.sch = some x := by
      have hm'mem : m' ∈ s.nodes := by rw [e1]; exact List.mem_append_right _ (List.mem_cons_self ..)
      have : m' = m := inj_of_nodup_ids s.nodes h.nodup m' hm'mem m hm (by rw [e3, hmt])
      rw [this]; exact hmx
    apply inv_linkAt S cx s n (i + 1) h hn
    subst e2
    rw [e1, (take_drop_of_split a m' b).2.2.1, (take_drop_of_split a m' b).2.2.2]
    have hsorted : (a ++ m' :: b).Pairwise (fun x y => nle S x y = true) := by rw [← e1]; exact h.sorted
    have htie := nle_tie_left S m' n x hm' hnx (userOrd_not_sorted huo)
    have := (pairwise_tie S a b m' n hsorted htie.1 htie.2).2
    simpa [List.append_assoc] using this

end LyModel.Sib
