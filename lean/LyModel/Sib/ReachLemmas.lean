import LyModel.Sib.ChangeLemmas
import LyModel.Sib.FindLemmas
import LyModel.Sib.PermLemmas
/-! Histories of edits; the concrete witness state used by the `_fails` theorem and the non-vacuity examples. -/
namespace LyModel.Sib

theorem inv_empty (S : Schema) (cx : Cx) (hwf : cx.nested = true → cx.top = false) : Inv S cx ⟨[], none⟩ := by
  refine ⟨List.Pairwise.nil, by simp, ?_, ?_, ?_, hwf, fun _ => rfl, ?_⟩
  · intro n hn; cases hn
  · intro _ a ha; cases ha
  · intro a ha; cases ha
  · intro recs h; cases h

theorem inv_step_gen (S : Schema) (cx : Cx) (fixed : Bool) (s : Sibs) (o : Op) (h : Inv S cx s) (hok : OpOk S cx s o)
    (hc : fixed = true ∨ isChange o = false) : Inv S cx (step S cx fixed s o) := by
  cases o with
  | insert n => exact inv_insertNode S cx s n h hok
  | unlink id => exact inv_unlinkNode S cx s id h
  | before t n => exact inv_insertBefore S cx s t n h hok
  | after t n => exact inv_insertAfter S cx s t n h hok
  | change id k =>
    rcases hc with hf | hf
    · subst hf
      exact inv_changeKeyFixed S cx s id k h
    · simp [isChange] at hf

theorem inv_runOps (S : Schema) (cx : Cx) (fixed : Bool) : ∀ (ops : List Op) (s : Sibs), Inv S cx s →
    HistOk S cx fixed s ops → (fixed = true ∨ ∀ o ∈ ops, isChange o = false) → Inv S cx (runOps S cx fixed s ops)
  | [], _, h, _, _ => h
  | o :: r, s, h, hok, hc => by
    have hc1 : fixed = true ∨ isChange o = false := by
      rcases hc with h1 | h1
      · exact Or.inl h1
      · exact Or.inr (h1 o (List.mem_cons_self ..))
    have hc2 : fixed = true ∨ ∀ o' ∈ r, isChange o' = false := by
      rcases hc with h1 | h1
      · exact Or.inl h1
      · exact Or.inr (fun o' ho' => h1 o' (List.mem_cons_of_mem _ ho'))
    exact inv_runOps S cx fixed r _ (inv_step_gen S cx fixed s o h hok.1 hc1) hok.2 hc2

theorem runOps_inserts_nodes (S : Schema) (cx : Cx) (fixed : Bool) : ∀ (ns : List Node) (s : Sibs), Inv S cx s →
    HistOk S cx fixed s (ns.map Op.insert) →
    (runOps S cx fixed s (ns.map Op.insert)).nodes = sinsAll (fun a b => nle S a b) s.nodes ns
  | [], _, _, _ => rfl
  | n :: r, s, h, hok => by
    simp only [List.map_cons, runOps, step, sinsAll, List.foldl_cons]
    have hn : NewOk S cx s n := hok.1
    have := runOps_inserts_nodes S cx fixed r (insertNode S cx s n) (inv_insertNode S cx s n h hn) hok.2
    rw [this, insertNode_nodes S cx s n h hn]
    rfl

/-! ## a concrete state: children `sll=1, sll=2, a, b` of a container whose hash table exists -/

def exS : Schema := fun r =>
  match r.idx with
  | 0 => .leaflist .sys
  | 1 => .leaf
  | 2 => .leaf
  | 3 => .leaflist .user
  | _ => .list .sys

def exCx : Cx := { nested := true, top := false, nsch := fun _ => 6 }

def exNodes : List Node :=
  [⟨1, some ⟨0, 0⟩, .int 1⟩, ⟨2, some ⟨0, 0⟩, .int 2⟩, ⟨3, some ⟨0, 1⟩, .str []⟩, ⟨4, some ⟨0, 2⟩, .str []⟩]

def exS0 : Sibs := ⟨exNodes, some (htContent exS exNodes)⟩

theorem exS0_inv : Inv exS exCx exS0 := by
  refine ⟨by decide, by decide, ?_, ?_, ?_, fun _ => rfl, ?_, ?_⟩
  · intro n hn x hx
    simp only [exS0, exNodes, List.mem_cons, List.not_mem_nil, or_false] at hn
    rcases hn with rfl | rfl | rfl | rfl <;> simp at hx <;> subst hx <;> decide
  · intro _ a ha b hb x y hx hy
    simp only [exS0, exNodes, List.mem_cons, List.not_mem_nil, or_false] at ha hb
    rcases ha with rfl | rfl | rfl | rfl <;> simp at hx <;> subst hx <;>
      rcases hb with rfl | rfl | rfl | rfl <;> simp at hy <;> subst hy <;> rfl
  · intro a ha b hb x hx hy hl
    simp only [exS0, exNodes, List.mem_cons, List.not_mem_nil, or_false] at ha hb
    rcases ha with rfl | rfl | rfl | rfl <;> simp at hx <;> subst hx <;>
      rcases hb with rfl | rfl | rfl | rfl <;> simp at hy <;> first | rfl | (simp [exS, SKind.listLike] at hl)
  · intro h; cases h
  · intro recs h
    simp only [exS0, Option.some.injEq] at h
    rw [← h]
    exact List.Perm.refl _

/-- a new instance `sll=0` may be inserted -/
def exNew : Node := ⟨9, some ⟨0, 0⟩, .int 0⟩

theorem exNew_ok : NewOk exS exCx exS0 exNew := by
  refine ⟨?_, ?_, ?_, ?_⟩
  · intro m hm
    simp only [exS0, exNodes, List.mem_cons, List.not_mem_nil, or_false] at hm
    rcases hm with rfl | rfl | rfl | rfl <;> decide
  · intro x hx; simp [exNew] at hx; subst hx; decide
  · intro _ a ha x y hx hy
    simp only [exS0, exNodes, List.mem_cons, List.not_mem_nil, or_false] at ha
    simp [exNew] at hy; subst hy
    rcases ha with rfl | rfl | rfl | rfl <;> simp at hx <;> subst hx <;> rfl
  · intro a _ x _ hy
    simp [exNew] at hy; subst hy; rfl

end LyModel.Sib
