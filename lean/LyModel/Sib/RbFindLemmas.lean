import LyModel.Sib.RbDelLemmas
/-! `rb_find`: sound for every tree, complete on a tree sorted with respect to the target. -/
namespace LyModel.Sib.Rb

variable {α : Type}

theorem findIdx_split (is : α → Bool) : ∀ (l : List α) (k : Nat), l.findIdx? is = some k →
    ∃ u e v, l = u ++ e :: v ∧ u.length = k ∧ is e = true
  | [], _, h => by simp at h
  | a :: l, k, h => by
    rw [List.findIdx?_cons] at h
    by_cases ha : is a = true
    · simp only [ha, if_true, Option.some.injEq] at h
      exact ⟨[], a, l, rfl, by simpa using h, ha⟩
    · simp only [ha, Bool.false_eq_true, if_false, Option.map_eq_some_iff] at h
      obtain ⟨k', hk', rfl⟩ := h
      obtain ⟨u, e, v, h1, h2, h3⟩ := findIdx_split is l k' hk'
      exact ⟨a :: u, e, v, by rw [h1]; rfl, by simp [h2], h3⟩

theorem findIdx_isSome (is : α → Bool) : ∀ (l : List α), (∃ d ∈ l, is d = true) → (l.findIdx? is).isSome = true
  | [], h => by obtain ⟨d, hd, _⟩ := h; cases hd
  | a :: l, h => by
    rw [List.findIdx?_cons]
    by_cases ha : is a = true
    · simp [ha]
    · obtain ⟨d, hd, hid⟩ := h
      rcases List.mem_cons.mp hd with e | e
      · subst e; exact absurd hid ha
      · have := findIdx_isSome is l ⟨d, e, hid⟩
        simp [ha, this]

theorem takeWhile_prefix (q : α → Bool) (l : List α) : ∃ w, l = l.takeWhile q ++ w :=
  ⟨l.dropWhile q, (List.takeWhile_append_dropWhile).symm⟩

/-- an element all of whose predecessors (and itself) satisfy `q` survives `takeWhile q` -/
theorem mem_takeWhile_of_all (q : α → Bool) : ∀ (u : List α) (d : α) (v : List α), (∀ a ∈ u, q a = true) → q d = true →
    d ∈ (u ++ d :: v).takeWhile q
  | [], d, v, _, hd => by simp [List.takeWhile_cons, hd]
  | a :: u, d, v, hu, hd => by
    have ha := hu a (List.mem_cons_self ..)
    simp only [List.cons_append, List.takeWhile_cons, ha, if_true]
    exact List.mem_cons_of_mem _ (mem_takeWhile_of_all q u d v (fun a' ha' => hu a' (List.mem_cons_of_mem _ ha')) hd)

/-- where the descent of `rb_find` stops: a node whose value compares equal -/
theorem findPivot_some (cmp : α → Int) (is : α → Bool) : ∀ (t : T α) (off p : Nat) (b : Bool),
    findPivot cmp is t off = some (p, b) →
    ∃ A x B, inorder t = A ++ x :: B ∧ p = off + A.length ∧ cmp x = 0 ∧ b = is x
  | .nil, _, _, _, h => by simp [findPivot] at h
  | .node _ l d r, off, p, b, h => by
    unfold findPivot at h
    by_cases h1 : cmp d > 0
    · simp only [h1, if_true] at h
      obtain ⟨A, x, B, e1, e2, e3, e4⟩ := findPivot_some cmp is l off p b h
      exact ⟨A, x, B ++ d :: inorder r, by simp [inorder, e1], e2, e3, e4⟩
    · simp only [h1, if_false] at h
      by_cases h2 : cmp d < 0
      · simp only [h2, if_true] at h
        obtain ⟨A, x, B, e1, e2, e3, e4⟩ := findPivot_some cmp is r _ p b h
        refine ⟨inorder l ++ d :: A, x, B, by simp [inorder, e1], ?_, e3, e4⟩
        rw [e2, size_eq_length]; simp; omega
      · simp only [h2, if_false, Option.some.injEq, Prod.mk.injEq] at h
        refine ⟨inorder l, d, inorder r, rfl, ?_, by omega, h.2.symm⟩
        rw [← h.1, size_eq_length]

/-- the in-order sequence is sorted with respect to the target: smaller values, then equal ones, then greater ones -/
def SortedFor (cmp : α → Int) (xs : List α) : Prop :=
  xs.Pairwise (fun a b => (cmp a > 0 → cmp b > 0) ∧ (cmp b < 0 → cmp a < 0))

theorem findPivot_none (cmp : α → Int) (is : α → Bool) : ∀ (t : T α) (off : Nat), SortedFor cmp (inorder t) →
    findPivot cmp is t off = none → ∀ d ∈ inorder t, cmp d ≠ 0
  | .nil, _, _, _ => by intro d hd; cases hd
  | .node _ l d r, off, hs, h => by
    unfold findPivot at h
    simp only [SortedFor, inorder] at hs
    rw [List.pairwise_append] at hs
    obtain ⟨hl, hdr, hcross⟩ := hs
    obtain ⟨hd, hr⟩ := List.pairwise_cons.mp hdr
    intro e he
    simp only [inorder] at he
    by_cases h1 : cmp d > 0
    · simp only [h1, if_true] at h
      rcases List.mem_append.mp he with he | he
      · exact findPivot_none cmp is l off hl h e he
      · rcases List.mem_cons.mp he with e1 | e1
        · subst e1; omega
        · have := (hd e e1).1 h1; omega
    · simp only [h1, if_false] at h
      by_cases h2 : cmp d < 0
      · simp only [h2, if_true] at h
        rcases List.mem_append.mp he with he | he
        · have := (hcross e he d (List.mem_cons_self ..)).2 h2; omega
        · rcases List.mem_cons.mp he with e1 | e1
          · subst e1; omega
          · exact findPivot_none cmp is r _ hr h e e1
      · simp [h2] at h

theorem take_mid (A : List α) (x : α) (B : List α) : (A ++ x :: B).take A.length = A := by simp

theorem drop_mid (A : List α) (x : α) (B : List α) : (A ++ x :: B).drop (A.length + 1) = B := by
  have : A ++ x :: B = (A ++ [x]) ++ B := by simp
  rw [this]
  exact List.drop_left' (by simp)

theorem findSeq_sound (cmp : α → Int) (is : α → Bool) (A : List α) (x : α) (B : List α) (j : Nat)
    (h : findSeq cmp is (A ++ x :: B) A.length = some j) :
    ∃ A' y B', A ++ x :: B = A' ++ y :: B' ∧ j = A'.length ∧ is y = true := by
  unfold findSeq at h
  simp only [take_mid, drop_mid] at h
  cases hb : (A.reverse.takeWhile (fun d => cmp d == 0)).findIdx? is with
  | some k =>
    rw [hb] at h
    simp only [Option.some.injEq] at h
    obtain ⟨u, e, v, h1, h2, h3⟩ := findIdx_split is _ k hb
    obtain ⟨w, hw⟩ := takeWhile_prefix (fun d => cmp d == 0) A.reverse
    rw [h1] at hw
    have hA : A = (v ++ w).reverse ++ e :: u.reverse := by
      have := congrArg List.reverse hw
      simpa using this
    refine ⟨(v ++ w).reverse, e, u.reverse ++ x :: B, by rw [hA]; simp, ?_, h3⟩
    have hl : A.length = (v ++ w).length + 1 + k := by rw [hA]; simp [h2]; omega
    rw [← h, hl]; simp; omega
  | none =>
    rw [hb] at h
    simp only [Option.map_eq_some_iff] at h
    obtain ⟨k, hk, rfl⟩ := h
    obtain ⟨u, e, v, h1, h2, h3⟩ := findIdx_split is _ k hk
    obtain ⟨w, hw⟩ := takeWhile_prefix (fun d => cmp d == 0) B
    rw [h1] at hw
    refine ⟨A ++ x :: u, e, v ++ w, by rw [hw]; simp, by simp [h2]; omega, h3⟩

theorem findSeq_complete (cmp : α → Int) (is : α → Bool) (his : ∀ d, is d = true → cmp d = 0)
    (A : List α) (x : α) (B : List α) (hs : SortedFor cmp (A ++ x :: B)) (hx : cmp x = 0) (hix : is x = false)
    (hex : ∃ d ∈ A ++ x :: B, is d = true) : (findSeq cmp is (A ++ x :: B) A.length).isSome = true := by
  unfold findSeq
  simp only [take_mid, drop_mid]
  unfold SortedFor at hs
  rw [List.pairwise_append] at hs
  obtain ⟨hA, hxB, hcross⟩ := hs
  obtain ⟨hxb, hB⟩ := List.pairwise_cons.mp hxB
  obtain ⟨d, hd, hid⟩ := hex
  have hd0 := his d hid
  rcases List.mem_append.mp hd with hdA | hdB
  · -- among the predecessors
    obtain ⟨A1, A2, rfl⟩ := List.append_of_mem hdA
    have hz : ∀ a ∈ A2.reverse, (fun d => cmp d == 0) a = true := by
      intro a ha
      have ha2 : a ∈ A2 := List.mem_reverse.mp ha
      rw [List.pairwise_append] at hA
      have h1 := (List.pairwise_cons.mp hA.2.1).1 a ha2
      have h2 := hcross a (List.mem_append_right _ (List.mem_cons_of_mem _ ha2)) x (List.mem_cons_self ..)
      have : cmp a = 0 := by
        have := h1.2; have := h2.1; omega
      simp [this]
    have hmem : d ∈ ((A1 ++ d :: A2).reverse).takeWhile (fun d => cmp d == 0) := by
      have : (A1 ++ d :: A2).reverse = A2.reverse ++ d :: A1.reverse := by simp
      rw [this]
      exact mem_takeWhile_of_all _ _ _ _ hz (by simp [hd0])
    have := findIdx_isSome is _ ⟨d, hmem, hid⟩
    cases hb : (((A1 ++ d :: A2).reverse).takeWhile (fun d => cmp d == 0)).findIdx? is with
    | some k => rfl
    | none => rw [hb] at this; cases this
  · rcases List.mem_cons.mp hdB with e | hdB
    · subst e; rw [hix] at hid; cases hid
    · obtain ⟨B1, B2, rfl⟩ := List.append_of_mem hdB
      have hz : ∀ b ∈ B1, (fun d => cmp d == 0) b = true := by
        intro b hb
        have h1 := hxb b (List.mem_append_left _ hb)
        rw [List.pairwise_append] at hB
        have h2 := hB.2.2 b hb d (List.mem_cons_self ..)
        have : cmp b = 0 := by
          have := h1.2; have := h2.1; omega
        simp [this]
      have hmem : d ∈ (B1 ++ d :: B2).takeWhile (fun d => cmp d == 0) :=
        mem_takeWhile_of_all _ _ _ _ hz (by simp [hd0])
      have := findIdx_isSome is _ ⟨d, hmem, hid⟩
      cases hb : ((A.reverse).takeWhile (fun d => cmp d == 0)).findIdx? is with
      | some k => rfl
      | none =>
        cases ha : ((B1 ++ d :: B2).takeWhile (fun d => cmp d == 0)).findIdx? is with
        | some k => rfl
        | none => rw [ha] at this; cases this

/-- whatever `rb_find` returns is a node that IS the target — on every tree -/
theorem find_sound (cmp : α → Int) (is : α → Bool) (t : T α) (j : Nat) (h : find cmp is t = some j) :
    ∃ A y B, inorder t = A ++ y :: B ∧ j = A.length ∧ is y = true := by
  cases t with
  | nil => simp [find] at h
  | node c l d r =>
    unfold find at h
    by_cases hd : is d = true
    · simp only [hd, if_true, Option.some.injEq] at h
      exact ⟨inorder l, d, inorder r, rfl, by rw [← h, size_eq_length], hd⟩
    · simp only [hd, Bool.false_eq_true, if_false] at h
      cases hp : findPivot cmp is (T.node c l d r) 0 with
      | none => rw [hp] at h; cases h
      | some pb =>
        obtain ⟨p, b⟩ := pb
        obtain ⟨A, x, B, e1, e2, _, e4⟩ := findPivot_some cmp is _ 0 p b hp
        rw [hp] at h
        have hpA : p = A.length := by omega
        cases b with
        | true =>
          simp only [Option.some.injEq] at h
          exact ⟨A, x, B, e1, by omega, e4.symm⟩
        | false =>
          simp only at h
          rw [e1, hpA] at h
          rw [e1]
          exact findSeq_sound cmp is A x B j h

/-- … and on a tree sorted with respect to the target it does return one whenever the target is in the tree -/
theorem find_complete (cmp : α → Int) (is : α → Bool) (his : ∀ d, is d = true → cmp d = 0) (t : T α)
    (hs : SortedFor cmp (inorder t)) (hex : ∃ d ∈ inorder t, is d = true) : (find cmp is t).isSome = true := by
  cases t with
  | nil => obtain ⟨d, hd, _⟩ := hex; cases hd
  | node c l d r =>
    unfold find
    by_cases hd : is d = true
    · simp [hd]
    · simp only [hd, Bool.false_eq_true, if_false]
      cases hp : findPivot cmp is (T.node c l d r) 0 with
      | none =>
        obtain ⟨e, he, hie⟩ := hex
        exact absurd (his e hie) (findPivot_none cmp is _ 0 hs hp e he)
      | some pb =>
        obtain ⟨p, b⟩ := pb
        obtain ⟨A, x, B, e1, e2, e3, e4⟩ := findPivot_some cmp is _ 0 p b hp
        have hpA : p = A.length := by omega
        cases b with
        | true => rfl
        | false =>
          simp only
          rw [e1, hpA]
          rw [e1] at hs hex
          exact findSeq_complete cmp is his A x B hs e3 e4.symm hex

theorem split_unique (is : α → Bool) : ∀ (A A' : List α) (y y' : α) (B B' : List α), A ++ y :: B = A' ++ y' :: B' →
    is y' = true → (∀ a ∈ A, is a = false) → (∀ b ∈ B, is b = false) → A'.length = A.length
  | [], [], _, _, _, _, _, _, _, _ => rfl
  | [], a' :: A', y, y', B, B', h, hy, _, hB => by
    simp only [List.nil_append, List.cons_append, List.cons.injEq] at h
    have : y' ∈ B := by rw [h.2]; exact List.mem_append_right _ (List.mem_cons_self ..)
    rw [hB y' this] at hy; cases hy
  | a :: A, [], y, y', B, B', h, hy, hA, _ => by
    simp only [List.nil_append, List.cons_append, List.cons.injEq] at h
    have := hA a (List.mem_cons_self ..)
    rw [h.1, hy] at this; cases this
  | a :: A, a' :: A', y, y', B, B', h, hy, hA, hB => by
    simp only [List.cons_append, List.cons.injEq] at h
    have := split_unique is A A' y y' B B' h.2 hy (fun a0 h0 => hA a0 (List.mem_cons_of_mem _ h0)) hB
    simp [this]

/-- the target is in the tree exactly once: `rb_find` returns its position -/
theorem find_unique (cmp : α → Int) (is : α → Bool) (his : ∀ d, is d = true → cmp d = 0) (t : T α)
    (hs : SortedFor cmp (inorder t)) (A : List α) (y : α) (B : List α) (ht : inorder t = A ++ y :: B) (hy : is y = true)
    (hA : ∀ a ∈ A, is a = false) (hB : ∀ b ∈ B, is b = false) : find cmp is t = some A.length := by
  have hc := find_complete cmp is his t hs ⟨y, by rw [ht]; exact List.mem_append_right _ (List.mem_cons_self ..), hy⟩
  cases hf : find cmp is t with
  | none => rw [hf] at hc; cases hc
  | some j =>
    obtain ⟨A', y', B', e1, e2, e3⟩ := find_sound cmp is t j hf
    rw [ht] at e1
    rw [e2, split_unique is A A' y y' B B' e1 e3 hA hB]

end LyModel.Sib.Rb
