import LyModel.Sib.Model
/-!
The invariant of one sibling list (`Inv`), the precondition under which a node may be inserted (`NewOk`),
the edit operations as data (`Op`) and the step function used by the reachability theorems.
-/
namespace LyModel.Sib

/-- Canonical, searchable form of one sibling list. -/
structure Inv (S : Schema) (cx : Cx) (s : Sibs) : Prop where
  /-- schema order (module rank, schema index), system-ordered instances sorted by key, opaque nodes last -/
  sorted : s.nodes.Pairwise (fun a b => nle S a b = true)
  /-- identities are unique -/
  nodup : (s.nodes.map (·.id)).Nodup
  /-- every schema reference is one `lys_getnext` reaches -/
  range : ∀ n ∈ s.nodes, ∀ x, n.sch = some x → x.idx < cx.nsch x.mod
  /-- below a parent all nodes have the same owner module -/
  oneMod : cx.top = false → ∀ a ∈ s.nodes, ∀ b ∈ s.nodes, ∀ x y, a.sch = some x → b.sch = some y → x.mod = y.mod
  /-- leaves and containers are instantiated at most once (lists and leaf-lists any number of times) -/
  single : ∀ a ∈ s.nodes, ∀ b ∈ s.nodes, ∀ x, a.sch = some x → b.sch = some x → (S x).listLike = false → a = b
  /-- only children of a schema node have a hash table, and their schema is not top-level -/
  cxwf : cx.nested = true → cx.top = false
  htTop : cx.nested = false → s.ht = none
  /-- whenever the hash table exists, its incrementally maintained content is the from-scratch content -/
  ht : ∀ recs, s.ht = some recs → recs.Perm (htContent S s.nodes)

/-- what `lyd_insert_*` may be given: a fresh identity, a schema reference of this level, and no second instance
    of a leaf / container (duplicates of those exist only in trees that were never validated; see `Inv.single`) -/
structure NewOk (S : Schema) (cx : Cx) (s : Sibs) (n : Node) : Prop where
  fresh : ∀ m ∈ s.nodes, m.id ≠ n.id
  range : ∀ x, n.sch = some x → x.idx < cx.nsch x.mod
  oneMod : cx.top = false → ∀ a ∈ s.nodes, ∀ x y, a.sch = some x → n.sch = some y → x.mod = y.mod
  single : ∀ a ∈ s.nodes, ∀ x, a.sch = some x → n.sch = some x → (S x).listLike = true

/-- first index (offset `k`) whose element does not satisfy `p` -/
def stopIdx {α : Type} (p : α → Bool) : List α → Nat → Option Nat
  | [], _ => none
  | a :: l, k => if p a then stopIdx p l (k + 1) else some k

/-- "schema rank ≤ the rank of `nx`" (opaque nodes rank above everything) -/
def rankLe (nx : SRef) (e : Node) : Bool :=
  match e.sch with
  | none => false
  | some ex => ex == nx || ex.lt nx

inductive Op where
  | insert (n : Node)
  | unlink (id : Nat)
  | before (target : Nat) (n : Node)
  | after (target : Nat) (n : Node)
  | change (id : Nat) (k : Key)

/-- one edit; `fixed` selects which `lyd_change_node_value` -/
def step (S : Schema) (cx : Cx) (fixed : Bool) (s : Sibs) : Op → Sibs
  | .insert n => insertNode S cx s n
  | .unlink id => unlinkNode S cx s id
  | .before t n => insertBefore S cx s t n
  | .after t n => insertAfter S cx s t n
  | .change id k => if fixed then (changeKeyFixed S cx s id k).1 else (changeKeyC S cx s id k).1

/-- the API-level preconditions of an edit -/
def OpOk (S : Schema) (cx : Cx) (s : Sibs) : Op → Prop
  | .insert n => NewOk S cx s n
  | .unlink _ => True
  | .before t n => NewOk S cx s n ∧ ∃ x, n.sch = some x ∧ (S x).userOrd = true ∧ ∃ m ∈ s.nodes, m.id = t ∧ m.sch = some x
  | .after t n => NewOk S cx s n ∧ ∃ x, n.sch = some x ∧ (S x).userOrd = true ∧ ∃ m ∈ s.nodes, m.id = t ∧ m.sch = some x
  | .change _ _ => True

def isChange : Op → Bool
  | .change _ _ => true
  | _ => false

/-- run a history; `none` as soon as a precondition does not hold -/
def runOps (S : Schema) (cx : Cx) (fixed : Bool) : Sibs → List Op → Sibs
  | s, [] => s
  | s, o :: r => runOps S cx fixed (step S cx fixed s o) r

/-- every op of the history meets its precondition in the state it is applied to -/
def HistOk (S : Schema) (cx : Cx) (fixed : Bool) : Sibs → List Op → Prop
  | _, [] => True
  | s, o :: r => OpOk S cx s o ∧ HistOk S cx fixed (step S cx fixed s o) r

end LyModel.Sib
