import LyModel.Sib.Tree
import LyModel.Sib.TreeMk
import LyModel.Sib.Rb
import LyModel.Sib.RbDel
import LyModel.Sib.RbMerge
/-!
driver ops of component `sib`:

  `run <variant> <desc-hex> <yang-hex,…> <script>` — `variant` = `c` (`lyd_change_node_value` as in the C source) or
  `f` (corrected call order); `desc` = the compiled schema as the harness reports it (echoed back so that both
  sides agree on it); the YANG text is for the harness only; `script` = ops separated by `;`, arguments by `,`:

    new,<id>,<parent|->,<mod:name>,<value-hex>     newopaq,<id>,<parent|->,<name>,<value-hex>
    newlist2,<id>,<parent|->,<mod:name>,<predicates-hex>   newpath,<id>,<parent|->,<path-hex>,<value-hex>
    findkeys,<anchor>,<mod:name>,<predicates-hex>
    ins_child,<id>,<target>   ins_sibling,<id>,<target>   ins_before,<id>,<target>   ins_after,<id>,<target>
    unlink,<id>   free,<id>   change,<id>,<value-hex>   find,<anchor>,<mod:name>,<value-hex>

  reply: `ok D=<desc-hex> | <result of op 1> | <result of op 2> …` where a result is `<RC> V0 <dump>` (state-changing
  op; `V0` = all consistency checks of the harness passed), `<RC> F<id|->` (find) or `R:<why>` (refused by the harness
  layer, state unchanged).
-/
namespace LyModel.Sib.Drv
open LyModel LyModel.Sib

def splitName (s : String) : String × String :=
  match s.splitOn ":" with
  | [m, n] => (m, n)
  | _ => ("", s)

def optNat (s : String) : Option (Option Nat) :=
  if s == "-" then some none else s.toNat?.map some

def runOp (f : Forest) (op : String) : Res :=
  match op.splitOn "," with
  | ["new", id, par, nm, v] =>
    match id.toNat?, optNat par, Hex.dec v with
    | some id, some par, some v => let (m, n) := splitName nm; opNew f id par m n v
    | _, _, _ => .refuse "BadArg"
  | ["newopaq", id, par, nm, v] =>
    match id.toNat?, optNat par, Hex.dec v with
    | some id, some par, some v => opNewOpaq f id par nm v
    | _, _, _ => .refuse "BadArg"
  | ["ins_child", a, b] =>
    match a.toNat?, b.toNat? with
    | some a, some b => opInsChild f a b
    | _, _ => .refuse "BadArg"
  | ["ins_sibling", a, b] =>
    match a.toNat?, b.toNat? with
    | some a, some b => opInsSibling f a b
    | _, _ => .refuse "BadArg"
  | ["ins_before", a, b] =>
    match a.toNat?, b.toNat? with
    | some a, some b => opInsRel false f a b
    | _, _ => .refuse "BadArg"
  | ["ins_after", a, b] =>
    match a.toNat?, b.toNat? with
    | some a, some b => opInsRel true f a b
    | _, _ => .refuse "BadArg"
  | ["unlink", a] =>
    match a.toNat? with
    | some a => opUnlink f a
    | none => .refuse "BadArg"
  | ["free", a] =>
    match a.toNat? with
    | some a => opFree f a
    | none => .refuse "BadArg"
  | ["change", a, v] =>
    match a.toNat?, Hex.dec v with
    | some a, some v => opChange f a v
    | _, _ => .refuse "BadArg"
  | ["find", a, nm, v] =>
    match a.toNat?, Hex.dec v with
    | some a, some v => let (m, n) := splitName nm; opFind f a m n v
    | _, _ => .refuse "BadArg"
  | ["newlist2", id, par, nm, preds] =>
    match id.toNat?, optNat par, Hex.dec preds with
    | some id, some par, some ps => let (m, n) := splitName nm; opNewList2 f id par m n ps
    | _, _, _ => .refuse "BadArg"
  | ["newpath", id, par, path, v] =>
    match id.toNat?, optNat par, Hex.dec path, Hex.dec v with
    | some id, some par, some p, some v => opNewPath f id par p v
    | _, _, _, _ => .refuse "BadArg"
  | ["findkeys", a, nm, preds] =>
    match a.toNat?, Hex.dec preds with
    | some a, some ps => let (m, n) := splitName nm; opFindKeys f a m n ps
    | _, _ => .refuse "BadArg"
  | _ => .refuse "BadOp"

def runScript (f : Forest) (ops : List String) : String :=
  (ops.foldl (fun (acc : String × Forest) op =>
    match runOp acc.2 op with
    | .refuse why => (acc.1 ++ " | R:" ++ why, acc.2)
    | .done rc f' => (acc.1 ++ " | " ++ rc.name ++ " V" ++ toString f'.verdict ++ f'.dump, f')
    | .found rc id => (acc.1 ++ " | " ++ rc.name ++ " F" ++ (match id with | some i => toString i | none => "-"), acc.2))
    ("", f)).1

/-! ### op `rbs`: insert / unlink scripts on one system-ordered `int32` leaf-list, red-black shape after every op -/

/-- an instance: value and creation serial (the identity `rb_find` looks for) -/
abbrev RbInst := Int × Nat

structure RbSt where
  lyds : Rb.Lyds RbInst
  /-- the instances in sibling order (kept separately: `lyd_insert_after_node` / `lyd_unlink_ignore_lyds`) -/
  sibs : List RbInst
  serial : Nat
  /-- the leader carries `lyds_tree` metadata that points to no tree (a duplicate: `lyd_dup_*` copies the metadata, not the tree) -/
  emptyMeta : Bool := false

def rbGt (d x : RbInst) : Bool := decide (d.1 > x.1)

def rbInsert (st : RbSt) (x : RbInst) : RbSt :=
  { st with lyds := st.lyds.insert rbGt st.sibs x,
            sibs := st.sibs.takeWhile (fun e => !rbGt e x) ++ x :: st.sibs.dropWhile (fun e => !rbGt e x) }

/-- `lyd_unlink`: the red-black node is the one `rb_find` returns for the data node -/
def rbUnlink (st : RbSt) (i : Nat) : Option (RbInst × RbSt) :=
  match st.sibs[i]? with
  | none => none
  | some x =>
    let pos := if st.lyds.n ≤ 1 then some i
      else Rb.find (fun d => if d.1 > x.1 then 1 else if d.1 < x.1 then -1 else 0) (fun d => d.2 == x.2) st.lyds.tree
    match pos with
    | none => none
    | some p => some (x, { st with lyds := st.lyds.unlink p, sibs := st.sibs.eraseIdx i })

def rbShow (st : RbSt) : String :=
  let f : RbInst → String := fun d => toString d.1 ++ ":" ++ toString d.2
  " | " ++ " ".intercalate (Rb.shape f st.lyds.tree) ++ (match st.lyds.tree with | .nil => (if st.emptyMeta && !st.sibs.isEmpty then " M0" else " M-") | _ => " M0") ++ " V0 =" ++
    String.join (st.sibs.map (fun d => " " ++ f d))

def rbStep (acc : String × RbSt) (tok : String) : String × RbSt :=
  let st := acc.2
  let arg := (tok.drop 1).toString
  match tok.take 1 |>.toString with
  | "i" =>
    match parseInt (bytesOfString arg) with
    | none => (acc.1 ++ " | R:BadKey", st)
    | some k =>
      let st' := rbInsert { st with serial := st.serial + 1 } (k, st.serial)
      (acc.1 ++ rbShow st', st')
  | "u" =>
    match arg.toNat?.bind (rbUnlink st) with
    | none => (acc.1 ++ " | R:NoInst", st)
    | some (_, st') => (acc.1 ++ rbShow st', st')
  | "m" =>
    -- `lyd_unlink_tree` + `lyd_insert_child` of the same node
    -- (a lone instance keeps its metadata and its one-node tree while unlinked, and `lyd_insert_node` finds no leader)
    match arg.toNat?.bind (rbUnlink st) with
    | none => (acc.1 ++ " | R:NoInst", st)
    | some (x, st') =>
      let st'' := if st.sibs.length ≤ 1 then st else rbInsert st' x
      (acc.1 ++ rbShow st'', st'')
  | "s" =>
    -- `lyd_unlink_siblings` of the i-th instance: `lyds_split`
    match arg.toNat? with
    | none => (acc.1 ++ " | R:NoInst", st)
    | some i =>
      if i ≥ st.sibs.length then (acc.1 ++ " | R:NoInst", st) else
      let st' : RbSt := { st with lyds := st.lyds.split i, sibs := st.sibs.take i }
      (acc.1 ++ rbShow st', st')
  | _ => (acc.1 ++ " | R:BadOp", st)

def handle (op : String) (args : List String) : String :=
  match op, args with
  | "run", [variant, desc, _yang, script] =>
    match (Hex.dec desc).map stringOfBytes |>.bind parseDesc with
    | none => "err BadDesc"
    | some ents =>
      let f : Forest := { ents := ents, infos := [], lists := [], nextGid := 0, fixedChange := variant.startsWith "f" }
      "ok D=" ++ Hex.enc (bytesOfString (showDesc ents)) ++ runScript f ((script.splitOn ";").filter (· ≠ ""))
  | "rb", [_variant, _desc, _yang, keys] =>
    -- stage 2: shape of the red-black tree after inserting the keys one by one, and its in-order sequence
    match (keys.splitOn ",").mapM (fun k => parseInt (bytesOfString k)) with
    | none => "err BadKey"
    | some ks =>
      -- a single instance has no tree yet (created lazily with the second instance)
      let t := ks.foldl (fun t k => Rb.insert (fun d x => decide (d > x)) k t) (Rb.T.nil : Rb.T Int)
      let t' := if ks.length < 2 then Rb.T.nil else t
      "ok " ++ " ".intercalate (Rb.shape (fun (k : Int) => toString k) t') ++ " | " ++
        " ".intercalate ((Rb.inorder t).map (fun (k : Int) => toString k))
  | "rbs", [_variant, _desc, _yang, script] =>
    "ok" ++ (((script.splitOn ",").filter (· ≠ "")).foldl rbStep ("", ⟨Rb.Lyds.empty, [], 0, false⟩)).1
  | "rbm", [_variant, _desc, _yang, dscript, sscript] =>
    -- two lists built by rbs scripts, then the second moved onto the first in one call (`lyds_merge`)
    let run := fun (st : RbSt) (sc : String) => (((sc.splitOn ",").filter (· ≠ "")).foldl rbStep ("", st)).2
    let d := run ⟨Rb.Lyds.empty, [], 0, false⟩ dscript
    let dup := sscript.startsWith "D"
    let s := run ⟨Rb.Lyds.empty, [], d.serial, false⟩ (if dup then (sscript.drop 1).toString else sscript)
    match s.sibs with
    | [] => "err Empty"
    | [x] => if d.sibs.isEmpty then "err Empty" else "ok" ++ rbShow (rbInsert d x)     -- a single node: `lyd_insert_node`
    | _ =>
      if d.sibs.isEmpty then "err Empty" else
      let t := Rb.mergeTree rbGt d.lyds.tree d.sibs (if dup then .nil else s.lyds.tree) s.sibs
      "ok" ++ rbShow { d with lyds := ⟨t, d.sibs.length + s.sibs.length⟩, sibs := Rb.inorder t }
  | "rbd", [_variant, _desc, _yang, dscript, sscript] =>
    -- `lyd_merge_siblings(…, LYD_MERGE_DESTRUCT)`: the source instances the target lacks, in sibling order, through `lyds_insert2`
    let run := fun (st : RbSt) (sc : String) => (((sc.splitOn ",").filter (· ≠ "")).foldl rbStep ("", st)).2
    -- a leading `D`: the target is replaced by its duplicate — the same instances, no sorting tree
    let d0 := run ⟨Rb.Lyds.empty, [], 0, false⟩ (if dscript.startsWith "D" then (dscript.drop 1).toString else dscript)
    let d : RbSt := if dscript.startsWith "D" then { d0 with lyds := ⟨.nil, d0.lyds.n⟩, emptyMeta := d0.lyds.tree matches .node .. } else d0
    let s := run ⟨Rb.Lyds.empty, [], d.serial, false⟩ sscript
    let moved := s.sibs.filter (fun x => !(d.sibs.any (fun y => y.1 == x.1)))
    let r := moved.foldl (fun (st : RbSt) (x : RbInst) =>
      ({ st with lyds := Rb.Lyds.insert2 rbGt st.sibs x st.lyds,
                 sibs := st.sibs.takeWhile (fun e => !rbGt e x) ++ x :: st.sibs.dropWhile (fun e => !rbGt e x) } : RbSt)) d
    "ok" ++ rbShow r
  | "rbp", [_variant, _desc, _yang, dscript, sscript] =>
    -- `lyd_dup_siblings(first source instance, target container, …)`: the copies (new identities, in source order) through the
    -- sibling loop of `lyd_dup` with its `first_llist` fast path
    let run := fun (st : RbSt) (sc : String) => (((sc.splitOn ",").filter (· ≠ "")).foldl rbStep ("", st)).2
    let d := run ⟨Rb.Lyds.empty, [], 0, false⟩ dscript
    let s := run ⟨Rb.Lyds.empty, [], d.serial, false⟩ sscript
    let copies : List RbInst := (List.range s.sibs.length).zip s.sibs |>.map (fun p => (p.2.1, s.serial + p.1))
    let r := Rb.Lyds.dupInto rbGt (d.lyds, d.sibs) copies
    -- the copy of the source leader keeps a (now empty) `lyds_tree` metadata when it was linked without `lyds_insert`
    "ok" ++ rbShow { d with lyds := r.1, sibs := r.2, emptyMeta := d.sibs.isEmpty && (s.lyds.tree matches .node ..) }
  | "rbleak", [] => "ok 0"
  | _, _ => "err BadOp"

end LyModel.Sib.Drv
