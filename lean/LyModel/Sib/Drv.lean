import LyModel.Sib.Tree
import LyModel.Sib.Rb
/-!
driver ops of component `sib`:

  `run <variant> <desc-hex> <yang-hex,…> <script>` — `variant` = `c` (`lyd_change_node_value` as in the C source) or
  `f` (corrected call order); `desc` = the compiled schema as the harness reports it (echoed back so that both
  sides agree on it); the YANG text is for the harness only; `script` = ops separated by `;`, arguments by `,`:

    new,<id>,<parent|->,<mod:name>,<value-hex>     newopaq,<id>,<parent|->,<name>,<value-hex>
    ins_child,<id>,<target>   ins_sibling,<id>,<target>   ins_before,<id>,<target>   ins_after,<id>,<target>
    unlink,<id>   free,<id>   change,<id>,<value-hex>   find,<anchor>,<mod:name>,<value-hex>

  reply: `ok D=<desc-hex> | <result of op 1> | <result of op 2> …` where a result is `<RC> V0 <dump>` (state-changing
  op; `V0` = all consistency checks of the harness passed), `<RC> F<id|->` (find) or `R:<why>` (refused by the harness
  layer, state unchanged).
-/
namespace LyModel.Sib.Drv
open LyModel LyModel.Sib

def splitName (s : String) : String × String :=
  match s.splitOn ":" with
  | [m, n] => (m, n)
  | _ => ("", s)

def optNat (s : String) : Option (Option Nat) :=
  if s == "-" then some none else s.toNat?.map some

def runOp (f : Forest) (op : String) : Res :=
  match op.splitOn "," with
  | ["new", id, par, nm, v] =>
    match id.toNat?, optNat par, Hex.dec v with
    | some id, some par, some v => let (m, n) := splitName nm; opNew f id par m n v
    | _, _, _ => .refuse "BadArg"
  | ["newopaq", id, par, nm, v] =>
    match id.toNat?, optNat par, Hex.dec v with
    | some id, some par, some v => opNewOpaq f id par nm v
    | _, _, _ => .refuse "BadArg"
  | ["ins_child", a, b] =>
    match a.toNat?, b.toNat? with
    | some a, some b => opInsChild f a b
    | _, _ => .refuse "BadArg"
  | ["ins_sibling", a, b] =>
    match a.toNat?, b.toNat? with
    | some a, some b => opInsSibling f a b
    | _, _ => .refuse "BadArg"
  | ["ins_before", a, b] =>
    match a.toNat?, b.toNat? with
    | some a, some b => opInsRel false f a b
    | _, _ => .refuse "BadArg"
  | ["ins_after", a, b] =>
    match a.toNat?, b.toNat? with
    | some a, some b => opInsRel true f a b
    | _, _ => .refuse "BadArg"
  | ["unlink", a] =>
    match a.toNat? with
    | some a => opUnlink f a
    | none => .refuse "BadArg"
  | ["free", a] =>
    match a.toNat? with
    | some a => opFree f a
    | none => .refuse "BadArg"
  | ["change", a, v] =>
    match a.toNat?, Hex.dec v with
    | some a, some v => opChange f a v
    | _, _ => .refuse "BadArg"
  | ["find", a, nm, v] =>
    match a.toNat?, Hex.dec v with
    | some a, some v => let (m, n) := splitName nm; opFind f a m n v
    | _, _ => .refuse "BadArg"
  | _ => .refuse "BadOp"

def runScript (f : Forest) (ops : List String) : String :=
  (ops.foldl (fun (acc : String × Forest) op =>
    match runOp acc.2 op with
    | .refuse why => (acc.1 ++ " | R:" ++ why, acc.2)
    | .done rc f' => (acc.1 ++ " | " ++ rc.name ++ " V" ++ toString f'.verdict ++ f'.dump, f')
    | .found rc id => (acc.1 ++ " | " ++ rc.name ++ " F" ++ (match id with | some i => toString i | none => "-"), acc.2))
    ("", f)).1

def handle (op : String) (args : List String) : String :=
  match op, args with
  | "run", [variant, desc, _yang, script] =>
    match (Hex.dec desc).map stringOfBytes |>.bind parseDesc with
    | none => "err BadDesc"
    | some ents =>
      let f : Forest := { ents := ents, infos := [], lists := [], nextGid := 0, fixedChange := variant.startsWith "f" }
      "ok D=" ++ Hex.enc (bytesOfString (showDesc ents)) ++ runScript f ((script.splitOn ";").filter (· ≠ ""))
  | "rb", [_variant, _desc, _yang, keys] =>
    -- stage 2: shape of the red-black tree after inserting the keys one by one, and its in-order sequence
    match (keys.splitOn ",").mapM (fun k => parseInt (bytesOfString k)) with
    | none => "err BadKey"
    | some ks =>
      -- a single instance has no tree yet (created lazily with the second instance)
      let t := ks.foldl (fun t k => Rb.insert (fun d x => decide (d > x)) k t) (Rb.T.nil : Rb.T Int)
      let t' := if ks.length < 2 then Rb.T.nil else t
      "ok " ++ " ".intercalate (Rb.shape (fun (k : Int) => toString k) t') ++ " | " ++
        " ".intercalate ((Rb.inorder t).map (fun (k : Int) => toString k))
  | _, _ => "err BadOp"

end LyModel.Sib.Drv
