import LyModel.Sib.SortLemmas
/-!
Stable insertion sort is canonical: the result of inserting a sequence of elements one by one depends only on the
sequence of each class of ties — two sequences with the same ties in the same relative order give the same list.
-/
namespace LyModel.Sib

variable {α : Type} [DecidableEq α]

def sinsAll (r : α → α → Bool) (l : List α) (ns : List α) : List α := ns.foldl (fun acc n => sins r n acc) l

section
variable (r : α → α → Bool)
variable (total : ∀ a b, r a b = true ∨ r b a = true)
variable (trans : ∀ a b c, r a b = true → r b c = true → r a c = true)

def eqv (a b : α) : Bool := r a b && r b a

include total in
theorem r_refl (a : α) : r a a = true := by rcases total a a with h | h <;> exact h

include trans in
theorem eqv_trans {a b c : α} (h1 : eqv r a b = true) (h2 : eqv r b c = true) : eqv r a c = true := by
  simp only [eqv, Bool.and_eq_true] at h1 h2 ⊢
  exact ⟨trans _ _ _ h1.1 h2.1, trans _ _ _ h2.2 h1.2⟩

theorem eqv_symm {a b : α} (h : eqv r a b = true) : eqv r b a = true := by
  simp only [eqv, Bool.and_eq_true] at h ⊢
  exact ⟨h.2, h.1⟩

include total trans in
/-- stability of one insertion -/
theorem filter_sins (a n : α) (l : List α) (hs : l.Pairwise (fun x y => r x y = true)) :
    (sins r n l).filter (eqv r a) = l.filter (eqv r a) ++ (if eqv r a n then [n] else []) := by
  unfold sins
  have hl := List.takeWhile_append_dropWhile (p := fun e => r e n) (l := l)
  have hsplit : l.filter (eqv r a) =
      (l.takeWhile (fun e => r e n)).filter (eqv r a) ++ (l.dropWhile (fun e => r e n)).filter (eqv r a) := by
    conv => lhs; rw [← hl]
    rw [List.filter_append]
  rw [List.filter_append, List.filter_cons, hsplit]
  by_cases han : eqv r a n = true
  · -- nothing behind the insertion point is tied with `n`
    have hdw : (l.dropWhile (fun e => r e n)).filter (eqv r a) = [] := by
      apply List.filter_eq_nil_iff.mpr
      intro d hd hda
      -- d is in the dropped part: not (r d n) for its head, and everything there is ≥ the head
      cases hdw' : l.dropWhile (fun e => r e n) with
      | nil => rw [hdw'] at hd; cases hd
      | cons x t =>
        have hx : r x n = false := head_dropWhile_not (p := fun e => r e n) hdw'
        have hdn : eqv r d n = true := eqv_trans r trans (eqv_symm r hda) han
        have hdn' : r d n = true := by simp only [eqv, Bool.and_eq_true] at hdn; exact hdn.1
        rw [hdw'] at hd
        have hsd : (x :: t).Pairwise (fun x y => r x y = true) := by
          rw [← hdw']
          exact List.Pairwise.sublist (List.dropWhile_sublist _) hs
        rcases List.mem_cons.mp hd with e | e
        · subst e; rw [hx] at hdn'; cases hdn'
        · have hxd : r x d = true := (List.pairwise_cons.mp hsd).1 d e
          have := trans _ _ _ hxd hdn'
          rw [hx] at this; cases this
    simp [han, hdw]
  · simp [han]

include total trans in
theorem sinsAll_sorted (l ns : List α) (hs : l.Pairwise (fun x y => r x y = true)) :
    (sinsAll r l ns).Pairwise (fun x y => r x y = true) := by
  induction ns generalizing l with
  | nil => exact hs
  | cons n t ih => exact ih (sins r n l) (sins_sorted r total trans n l hs)

theorem sinsAll_perm (l ns : List α) : (sinsAll r l ns).Perm (l ++ ns) := by
  induction ns generalizing l with
  | nil => simp [sinsAll]
  | cons n t ih =>
    have h1 := ih (sins r n l)
    have h2 : (sins r n l ++ t).Perm (l ++ n :: t) := by
      have := (sins_perm r n l).append_right t
      refine this.trans ?_
      simp only [List.cons_append]
      exact List.perm_middle.symm
    exact h1.trans h2

include total trans in
theorem filter_sinsAll (a : α) (l ns : List α) (hs : l.Pairwise (fun x y => r x y = true)) :
    (sinsAll r l ns).filter (eqv r a) = l.filter (eqv r a) ++ ns.filter (eqv r a) := by
  induction ns generalizing l with
  | nil => simp [sinsAll]
  | cons n t ih =>
    have h1 := ih (sins r n l) (sins_sorted r total trans n l hs)
    simp only [sinsAll, List.foldl_cons] at h1 ⊢
    rw [h1, filter_sins r total trans a n l hs, List.filter_cons]
    by_cases han : eqv r a n = true <;> simp [han]

include total trans in
/-- a sorted list is determined by its multiset and the order inside each class of ties -/
theorem sorted_unique : ∀ (l1 l2 : List α), l1.Pairwise (fun x y => r x y = true) → l2.Pairwise (fun x y => r x y = true) →
    l1.Perm l2 → (∀ a, l1.filter (eqv r a) = l2.filter (eqv r a)) → l1 = l2
  | [], l2, _, _, hp, _ => (List.nil_perm.mp hp).symm
  | a :: t1, l2, hs1, hs2, hp, hf => by
    cases l2 with
    | nil => exact absurd hp.symm (by intro h; exact List.cons_ne_nil _ _ (List.nil_perm.mp h))
    | cons b t2 =>
      have haa : eqv r a a = true := by simp [eqv, r_refl r total a]
      have hb1 : b ∈ a :: t1 := hp.symm.subset (List.mem_cons_self ..)
      have ha2 : a ∈ b :: t2 := hp.subset (List.mem_cons_self ..)
      have hab : r a b = true := by
        rcases List.mem_cons.mp hb1 with e | e
        · rw [e]; exact r_refl r total a
        · exact (List.pairwise_cons.mp hs1).1 b e
      have hba : r b a = true := by
        rcases List.mem_cons.mp ha2 with e | e
        · rw [e]; exact r_refl r total b
        · exact (List.pairwise_cons.mp hs2).1 a e
      have heab : eqv r a b = true := by simp [eqv, hab, hba]
      have hfa := hf a
      simp only [List.filter_cons, haa, heab, if_true] at hfa
      have hhead : a = b := (List.cons.inj hfa).1
      subst hhead
      have hpt : t1.Perm t2 := (List.perm_cons a).mp hp
      have hft : ∀ c, t1.filter (eqv r c) = t2.filter (eqv r c) := by
        intro c
        have := hf c
        simp only [List.filter_cons] at this
        by_cases hca : eqv r c a = true
        · simp only [hca, if_true] at this
          exact (List.cons.inj this).2
        · simp only [hca, if_false] at this
          exact this
      rw [sorted_unique t1 t2 (List.pairwise_cons.mp hs1).2 (List.pairwise_cons.mp hs2).2 hpt hft]

include total in
theorem perm_of_filters (xs ys : List α) (hf : ∀ a, xs.filter (eqv r a) = ys.filter (eqv r a)) : xs.Perm ys := by
  apply List.perm_iff_count.mpr
  intro a
  have haa : eqv r a a = true := by simp [eqv, r_refl r total a]
  have h1 : ∀ l : List α, l.count a = (l.filter (eqv r a)).count a := by
    intro l
    induction l with
    | nil => rfl
    | cons x t ih =>
      by_cases hx : eqv r a x = true
      · simp only [List.filter_cons, hx, if_true, List.count_cons, ih]
      · have hne : (x == a) = false := by
          simp only [beq_eq_false_iff_ne, ne_eq]
          intro e; subst e; exact hx haa
        simp only [List.filter_cons, hx, if_false, List.count_cons, ih, hne, Bool.false_eq_true]
        simp
  rw [h1 xs, h1 ys, hf a]

include total trans in
/-- Insertion-order independence up to ties. -/
theorem sinsAll_canonical (xs ys : List α) (hf : ∀ a, xs.filter (eqv r a) = ys.filter (eqv r a)) :
    sinsAll r [] xs = sinsAll r [] ys := by
  apply sorted_unique r total trans
  · exact sinsAll_sorted r total trans [] xs List.Pairwise.nil
  · exact sinsAll_sorted r total trans [] ys List.Pairwise.nil
  · have h1 := sinsAll_perm r [] xs
    have h2 := sinsAll_perm r [] ys
    simp only [List.nil_append] at h1 h2
    exact h1.trans ((perm_of_filters r total xs ys hf).trans h2.symm)
  · intro a
    rw [filter_sinsAll r total trans a [] xs List.Pairwise.nil, filter_sinsAll r total trans a [] ys List.Pairwise.nil, hf a]

end

end LyModel.Sib
