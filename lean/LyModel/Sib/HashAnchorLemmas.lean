import LyModel.Sib.HtLookupLemmas2
/-! `anchorHash` on a canonical list with an exact table yields the same position as the linear walk. -/
namespace LyModel.Sib

def gtIdx (s : Nat) (e : Node) : Bool :=
  match e.sch with
  | none => false
  | some ex => decide (s ≤ ex.idx)

theorem findIdx?_congr_mem {p q : Node → Bool} : ∀ {l : List Node}, (∀ x ∈ l, p x = q x) → l.findIdx? p = l.findIdx? q
  | [], _ => rfl
  | a :: l, h => by
    have ha := h a (List.mem_cons_self ..)
    simp only [List.findIdx?_cons, ha]
    rw [findIdx?_congr_mem (fun x hx => h x (List.mem_cons_of_mem _ hx))]

/-- if the schema with index `s` is instantiated, its first instance is the first node of index ≥ `s` -/
theorem findIdx?_gtIdx_of_inst (S : Schema) (mod s : Nat) : ∀ (l : List Node) (m : Node),
    l.Pairwise (fun a b => nle S a b = true) →
    (∀ e ∈ l, ∀ ex, e.sch = some ex → ex.mod = mod) →
    l.find? (fun e => e.sch == some ⟨mod, s⟩) = some m →
    l.findIdx? (gtIdx s) = l.findIdx? (fun e => e.sch == some ⟨mod, s⟩)
  | [], _, _, _, h => by simp at h
  | a :: t, m, hs, hmod, h => by
    by_cases ha : a.sch = some ⟨mod, s⟩
    · simp [List.findIdx?_cons, gtIdx, ha]
    · have ha' : (a.sch == some (⟨mod, s⟩ : SRef)) = false := by simpa using ha
      simp only [List.find?_cons, ha'] at h
      have hm : m ∈ t := List.mem_of_find?_eq_some h
      have hms : m.sch = some ⟨mod, s⟩ := by simpa using List.find?_some h
      have ham : nle S a m = true := (List.pairwise_cons.mp hs).1 m hm
      have hg : gtIdx s a = false := by
        cases has : a.sch with
        | none =>
          have := nle_none_left has ham
          rw [hms] at this; cases this
        | some ax =>
          have hax : ax.mod = mod := hmod a (List.mem_cons_self ..) ax has
          have hne : ax ≠ ⟨mod, s⟩ := fun e => ha (by rw [has, e])
          rw [nle_some_some has hms] at ham
          simp only [hne, if_false, SRef.lt, Bool.or_eq_true, Bool.and_eq_true, decide_eq_true_eq, beq_iff_eq] at ham
          simp only [gtIdx, has, decide_eq_false_iff_not]
          omega
      simp only [List.findIdx?_cons, hg, ha', Bool.false_eq_true, if_false]
      rw [findIdx?_gtIdx_of_inst S mod s t m (List.pairwise_cons.mp hs).2
        (fun e he => hmod e (List.mem_cons_of_mem _ he)) h]

theorem hashLoop_spec (S : Schema) (l : List Node) (recs : List Rec) (mod : Nat)
    (hs : l.Pairwise (fun a b => nle S a b = true))
    (hsing : ∀ a ∈ l, ∀ b ∈ l, ∀ y, a.sch = some y → b.sch = some y → (S y).listLike = false → a = b)
    (hnd : (l.map (·.id)).Nodup)
    (hp : recs.Perm (htContent S l))
    (hmod : ∀ e ∈ l, ∀ ex, e.sch = some ex → ex.mod = mod) :
    ∀ (fuel s : Nat), (∀ e ∈ l, ∀ ex, e.sch = some ex → ex.idx < s + fuel) →
      (hashLoop recs mod fuel s).bind (idxOfId l) = l.findIdx? (gtIdx s)
  | 0, s, hb => by
    have : l.findIdx? (gtIdx s) = none := by
      rw [List.findIdx?_eq_none_iff]
      intro e he
      cases hes : e.sch with
      | none => simp [gtIdx, hes]
      | some ex =>
        have := hb e he ex hes
        simp only [gtIdx, hes, decide_eq_false_iff_not]
        omega
    simp [hashLoop, this]
  | f + 1, s, hb => by
    have hspec := findSchemaHt_spec S l recs ⟨mod, s⟩ hs hsing hnd hp
    cases hfi : l.find? (fun e => e.sch == some (⟨mod, s⟩ : SRef)) with
    | some m =>
      rw [hfi] at hspec
      simp only [Option.map_some] at hspec
      simp only [hashLoop, hspec, Option.bind_some]
      rw [idxOfId_of_find? l m hnd hfi, findIdx?_gtIdx_of_inst S mod s l m hs hmod hfi]
    | none =>
      rw [hfi] at hspec
      simp only [Option.map_none] at hspec
      simp only [hashLoop, hspec]
      rw [hashLoop_spec S l recs mod hs hsing hnd hp hmod f (s + 1) (fun e he ex hex => by have := hb e he ex hex; omega)]
      apply findIdx?_congr_mem
      intro e he
      cases hes : e.sch with
      | none => simp [gtIdx, hes]
      | some ex =>
        have h1 : ex.mod = mod := hmod e he ex hes
        have h2 : ex.idx ≠ s := by
          intro hi
          have := List.find?_eq_none.mp hfi e he
          apply this
          have : ex = ⟨mod, s⟩ := sref_ext h1 hi
          simp [hes, this]
        simp only [gtIdx, hes]
        congr 1
        apply propext
        omega

/-- the first node of index > `nx.idx` sits right behind the nodes of rank ≤ `nx` -/
theorem gtIdx_takeWhile (S : Schema) (nx : SRef) : ∀ (l : List Node),
    l.Pairwise (fun a b => nle S a b = true) →
    (∀ e ∈ l, ∀ ex, e.sch = some ex → ex.mod = nx.mod) →
    (match l.findIdx? (gtIdx (nx.idx + 1)) with
     | some i => i = (l.takeWhile (rankLe nx)).length
     | none => (l.takeWhile (rankLe nx)).length = (l.takeWhile hasSch).length)
  | [], _, _ => by simp
  | a :: t, hs, hmod => by
    have ih := gtIdx_takeWhile S nx t (List.pairwise_cons.mp hs).2 (fun e he => hmod e (List.mem_cons_of_mem _ he))
    cases has : a.sch with
    | none =>
      have h1 : gtIdx (nx.idx + 1) a = false := by simp [gtIdx, has]
      have h2 : rankLe nx a = false := by simp [rankLe, has]
      have h3 : hasSch a = false := by simp [hasSch, has]
      have h4 : t.findIdx? (gtIdx (nx.idx + 1)) = none := by
        rw [List.findIdx?_eq_none_iff]
        intro e he
        have := nle_none_left has ((List.pairwise_cons.mp hs).1 e he)
        simp [gtIdx, this]
      simp [List.findIdx?_cons, h1, h2, h3, h4, List.takeWhile_cons]
    | some ax =>
      have hax : ax.mod = nx.mod := hmod a (List.mem_cons_self ..) ax has
      have h2 : rankLe nx a = decide (ax.idx ≤ nx.idx) := rankLe_same_mod has hax
      have h3 : hasSch a = true := by simp [hasSch, has]
      by_cases hle : ax.idx ≤ nx.idx
      · have h1 : gtIdx (nx.idx + 1) a = false := by
          simp only [gtIdx, has, decide_eq_false_iff_not]; omega
        have h2' : rankLe nx a = true := by rw [h2]; simp [hle]
        simp only [List.findIdx?_cons, h1, Bool.false_eq_true, if_false, List.takeWhile_cons, h2', h3, if_true,
          List.length_cons]
        cases hfi : t.findIdx? (gtIdx (nx.idx + 1)) with
        | none => rw [hfi] at ih; simp at ih ⊢; exact ih
        | some i => rw [hfi] at ih; simp at ih ⊢; exact ih
      · have h1 : gtIdx (nx.idx + 1) a = true := by
          simp only [gtIdx, has, decide_eq_true_eq]; omega
        have h2' : rankLe nx a = false := by rw [h2]; simp [hle]
        simp [List.findIdx?_cons, h1, h2', List.takeWhile_cons]

theorem anchorHash_pos (S : Schema) (cx : Cx) (l : List Node) (recs : List Rec) (n : Node) (nx : SRef)
    (hn : n.sch = some nx)
    (hs : l.Pairwise (fun a b => nle S a b = true))
    (hsing : ∀ a ∈ l, ∀ b ∈ l, ∀ y, a.sch = some y → b.sch = some y → (S y).listLike = false → a = b)
    (hnd : (l.map (·.id)).Nodup)
    (hp : recs.Perm (htContent S l))
    (hrange : ∀ e ∈ l, ∀ x, e.sch = some x → x.idx < cx.nsch x.mod)
    (hnr : nx.idx < cx.nsch nx.mod)
    (hmod : ∀ e ∈ l, ∀ ex, e.sch = some ex → ex.mod = nx.mod) :
    posBySchema l n (anchorHash cx recs l n) = (l.takeWhile (rankLe nx)).length := by
  cases l with
  | nil => simp [anchorHash, hn, posBySchema, opaqTail]
  | cons a t =>
    have key : anchorHash cx recs (a :: t) n = (a :: t).findIdx? (gtIdx (nx.idx + 1)) := by
      simp only [anchorHash, hn, List.isEmpty_cons, Bool.false_eq_true, if_false]
      apply hashLoop_spec S (a :: t) recs nx.mod hs hsing hnd hp hmod
      intro e he ex hex
      have h1 := hrange e he ex hex
      rw [hmod e he ex hex] at h1
      omega
    rw [key]
    have h := gtIdx_takeWhile S nx (a :: t) hs hmod
    cases hfi : (a :: t).findIdx? (gtIdx (nx.idx + 1)) with
    | some i =>
      rw [hfi] at h
      simp only [posBySchema]
      exact h
    | none =>
      rw [hfi] at h
      simp only [posBySchema, hn, Option.isSome_some, if_true]
      rw [opaqTail_eq S (a :: t) hs, h]
      have := length_takeWhile_le' hasSch (a :: t)
      omega

end LyModel.Sib
