import LyModel.Sib.RbDelInv
/-!
Stage 2: histories of insertions and removals on the red-black tree and on the `lyds_tree` record of one (leaf-)list
(definitions used by the statements of Props/C04Rb.lean and the induction behind `lyds_reachable`).
-/
namespace LyModel.Sib.Rb
open LyModel.Sib

variable {α : Type}

/-- an edit of the tree: `rb_insert_node` of a new instance, or `rb_remove_node` of the instance at a position -/
inductive RbOp (α : Type) where
  | ins (x : α)
  | del (i : Nat)

/-- what the C code does to the tree -/
def rbStep (gt : α → α → Bool) (t : T α) : RbOp α → T α
  | .ins x => Rb.insert gt x t
  | .del i => Rb.remove i t

/-- what the edit means for the sorted-stable instance list: a new instance goes behind every instance `≤` it, an
    unlinked one disappears, nothing else moves -/
def seqStep (gt : α → α → Bool) (l : List α) : RbOp α → List α
  | .ins x => sins (fun a b => !gt a b) x l
  | .del i => l.eraseIdx i

/-- the instances `l` of one (leaf-)list in sibling order and their `Lyds` record agree: the count; a valid tree; and the tree
    — if there is one: it is built by the first `lyds_insert` that finds a leader — lists exactly the instances, in sibling
    order -/
def LydsOk (s : Lyds α) (l : List α) : Prop :=
  s.n = l.length ∧ IsRB s.tree ∧ (s.tree = T.nil ∨ inorder s.tree = l)

/-- one edit of the list: `lyd_insert_node` of a new instance / `lyd_unlink` of the `i`-th one -/
def lydsStep (gt : α → α → Bool) (st : Lyds α × List α) : RbOp α → Lyds α × List α
  | .ins x => (st.1.insert gt st.2 x, sins (fun a b => !gt a b) x st.2)
  | .del i => if i < st.2.length then (st.1.unlink i, st.2.eraseIdx i) else st

theorem sins_length (r : α → α → Bool) (x : α) (l : List α) : (sins r x l).length = l.length + 1 := by
  have := (sins_perm r x l).length_eq
  simpa using this

theorem isRB_nil : IsRB (T.nil : T α) := ⟨trivial, trivial, rfl⟩

section
variable (gt : α → α → Bool)
variable (total : ∀ a b, gt a b = false ∨ gt b a = false)
variable (trans : ∀ a b c, gt a b = false → gt b c = false → gt a c = false)

include total trans in
theorem sins_sorted_gt (x : α) (l : List α) (hs : l.Pairwise (fun a b => gt a b = false)) :
    (sins (fun a b => !gt a b) x l).Pairwise (fun a b => gt a b = false) := by
  have := sins_sorted (fun a b => !gt a b) (by intro a b; simpa using total a b)
    (by intro a b c; simpa using trans a b c) x l (by simpa using hs)
  simpa using this

theorem sins_all_le (r : α → α → Bool) (x : α) : ∀ (l : List α), (∀ a ∈ l, r a x = true) → sins r x l = l ++ [x]
  | [], _ => rfl
  | a :: l, h => by
    have ha := h a (List.mem_cons_self ..)
    have ih := sins_all_le r x l (fun b hb => h b (List.mem_cons_of_mem _ hb))
    unfold sins at ih ⊢
    simp only [List.takeWhile_cons, List.dropWhile_cons, ha, if_true, List.cons_append]
    rw [ih]

include trans in
/-- `lyds_additionally_create_rb_tree` and its continuation: instances that are in order, inserted in that order -/
theorem build_ok : ∀ (l : List α) (t : T α), IsRB t → (inorder t ++ l).Pairwise (fun a b => gt a b = false) →
    IsRB (l.foldl (fun t x => Rb.insert gt x t) t) ∧ inorder (l.foldl (fun t x => Rb.insert gt x t) t) = inorder t ++ l
  | [], t, h, _ => ⟨h, by simp⟩
  | x :: l, t, h, hs => by
    simp only [List.foldl_cons]
    have hs' := hs
    rw [List.pairwise_append] at hs'
    obtain ⟨ht, _, hcross⟩ := hs'
    have hi : inorder (Rb.insert gt x t) = inorder t ++ [x] := by
      rw [inorder_insert gt trans x t ht]
      exact sins_all_le _ x _ (fun a ha => by simp [hcross a ha x (List.mem_cons_self ..)])
    have := build_ok l (Rb.insert gt x t) (insert_isRB gt x t h) (by rw [hi]; simpa using hs)
    rw [hi] at this
    simpa using this

include trans in
theorem base_ok (t : T α) (l : List α) (hrb : IsRB t) (ht : t = T.nil ∨ inorder t = l)
    (hs : l.Pairwise (fun a b => gt a b = false)) : IsRB (Lyds.base gt t l) ∧ inorder (Lyds.base gt t l) = l := by
  cases t with
  | nil =>
    have := build_ok gt trans l T.nil isRB_nil (by simpa [inorder] using hs)
    simpa [Lyds.base, inorder] using this
  | node c a d b =>
    rcases ht with h | h
    · cases h
    · exact ⟨hrb, h⟩

include total trans in
theorem lyds_step_ok (s : Lyds α) (l : List α) (o : RbOp α) (h : LydsOk s l) (hs : l.Pairwise (fun a b => gt a b = false)) :
    LydsOk (lydsStep gt (s, l) o).1 (lydsStep gt (s, l) o).2 ∧
    (lydsStep gt (s, l) o).2.Pairwise (fun a b => gt a b = false) := by
  obtain ⟨hn, hrb, ht⟩ := h
  cases o with
  | ins x =>
    refine ⟨?_, sins_sorted_gt gt total trans x l hs⟩
    simp only [lydsStep, Lyds.insert]
    by_cases h0 : s.n = 0
    · have hl : l = [] := List.eq_nil_of_length_eq_zero (by omega)
      subst hl
      simp only [h0, if_true]
      exact ⟨rfl, isRB_nil, Or.inl rfl⟩
    · simp only [h0, if_false]
      obtain ⟨hrb0, hin0⟩ := base_ok gt trans s.tree l hrb ht hs
      refine ⟨by simp [sins_length, hn], insert_isRB gt x _ hrb0, Or.inr ?_⟩
      simp only
      rw [inorder_insert gt trans x _ (by rw [hin0]; exact hs), hin0]
  | del i =>
    simp only [lydsStep]
    by_cases hi : i < l.length
    · simp only [hi, if_true]
      refine ⟨?_, hs.sublist (List.eraseIdx_sublist ..)⟩
      simp only [Lyds.unlink]
      by_cases h1 : s.n ≤ 1
      · simp only [h1, if_true]
        refine ⟨by simp [List.length_eraseIdx, hi]; omega, isRB_nil, Or.inl rfl⟩
      · simp only [h1, if_false]
        refine ⟨by simp [List.length_eraseIdx, hi]; omega, remove_isRB i _ hrb, ?_⟩
        rcases ht with hnil | hin
        · left; simp only; rw [hnil]; rfl
        · right; simp only; rw [inorder_remove, hin]
    · simp only [hi, if_false]
      exact ⟨⟨hn, hrb, ht⟩, hs⟩

include total trans in
theorem lyds_run_ok (ops : List (RbOp α)) : ∀ (st : Lyds α × List α), LydsOk st.1 st.2 →
    st.2.Pairwise (fun a b => gt a b = false) →
    LydsOk (ops.foldl (lydsStep gt) st).1 (ops.foldl (lydsStep gt) st).2 ∧
    (ops.foldl (lydsStep gt) st).2.Pairwise (fun a b => gt a b = false) := by
  induction ops with
  | nil => intro st h hs; exact ⟨h, hs⟩
  | cons o r ih =>
    intro st h hs
    simp only [List.foldl_cons]
    obtain ⟨h', hs'⟩ := lyds_step_ok gt total trans st.1 st.2 o h hs
    exact ih _ h' hs'

end

/-! ## `lyds_split` -/

theorem eraseIdx_iter (A : List α) : ∀ (k : Nat) (B : List α),
    (List.replicate k A.length).foldl (fun l j => l.eraseIdx j) (A ++ B) = A ++ B.drop k
  | 0, B => by simp
  | k + 1, [] => by
    simp only [List.replicate_succ, List.foldl_cons, List.append_nil, List.drop_nil]
    rw [List.eraseIdx_of_length_le (Nat.le_refl _)]
    have := eraseIdx_iter A k []
    simpa using this
  | k + 1, b :: B => by
    simp only [List.replicate_succ, List.foldl_cons]
    rw [List.eraseIdx_append_of_length_le (Nat.le_refl _)]
    simp only [Nat.sub_self, List.eraseIdx_cons_zero, List.drop_succ_cons]
    exact eraseIdx_iter A k B

theorem remove_iter_ok (i : Nat) : ∀ (k : Nat) (t : T α), IsRB t →
    IsRB ((List.replicate k i).foldl (fun t j => Rb.remove j t) t) ∧
    inorder ((List.replicate k i).foldl (fun t j => Rb.remove j t) t) =
      (List.replicate k i).foldl (fun l j => l.eraseIdx j) (inorder t)
  | 0, t, h => ⟨h, rfl⟩
  | k + 1, t, h => by
    simp only [List.replicate_succ, List.foldl_cons]
    have := remove_iter_ok i k (Rb.remove i t) (remove_isRB i t h)
    rw [inorder_remove] at this
    exact this

/-- `lyd_unlink_siblings` from the `i`-th instance on: what stays behind is the first `i` instances, with a tree that lists
    exactly them -/
theorem lyds_split_ok (s : Lyds α) (l : List α) (i : Nat) (h : LydsOk s l) : LydsOk (s.split i) (l.take i) := by
  obtain ⟨hn, hrb, ht⟩ := h
  unfold Lyds.split
  by_cases h0 : i = 0
  · subst h0; simp only [if_true, List.take_zero]
    exact ⟨rfl, isRB_nil, Or.inl rfl⟩
  · simp only [h0, if_false]
    by_cases h1 : s.n ≤ i
    · simp only [h1, if_true]
      rw [List.take_of_length_le (by omega)]
      exact ⟨hn, hrb, ht⟩
    · simp only [h1, if_false]
      have hlen0 : (l.take i).length = i := by rw [List.length_take]; omega
      rcases ht with hnil | hin
      · have hnil' : ∀ k, (List.replicate k i).foldl (fun t j => Rb.remove j t) (T.nil : T α) = T.nil := by
          intro k
          induction k with
          | zero => rfl
          | succ k ih => simp only [List.replicate_succ, List.foldl_cons]; exact ih
        rw [hnil, hnil']
        exact ⟨by simp [hlen0], isRB_nil, Or.inl rfl⟩
      obtain ⟨g1, g2⟩ := remove_iter_ok i (s.n - i) s.tree hrb
      have hsplit : l = l.take i ++ l.drop i := (List.take_append_drop i l).symm
      have hlen : (l.take i).length = i := by rw [List.length_take]; omega
      have key : (List.replicate (s.n - i) i).foldl (fun l j => l.eraseIdx j) l = l.take i := by
        have := eraseIdx_iter (l.take i) (s.n - i) (l.drop i)
        rw [hlen, ← hsplit] at this
        rw [this, List.drop_drop]
        have : l.drop (i + (s.n - i)) = [] := List.drop_eq_nil_of_le (by omega)
        simp [this]
      refine ⟨by simp [hlen], g1, Or.inr ?_⟩
      simp only
      rw [g2, hin, key]

/-! ## merge with `LYD_MERGE_DESTRUCT` -/

section
variable (gt : α → α → Bool)
variable (total : ∀ a b, gt a b = false ∨ gt b a = false)
variable (trans : ∀ a b c, gt a b = false → gt b c = false → gt a c = false)

include total trans in
theorem destruct_run_ok (moves : List Nat) : ∀ (st : (Lyds α × List α) × (Lyds α × List α)),
    LydsOk st.1.1 st.1.2 → st.1.2.Pairwise (fun a b => gt a b = false) → LydsOk st.2.1 st.2.2 → st.2.1.tree = T.nil →
    let r := moves.foldl (destructStep gt) st
    LydsOk r.1.1 r.1.2 ∧ r.1.2.Pairwise (fun a b => gt a b = false) ∧ LydsOk r.2.1 r.2.2 ∧ r.2.1.tree = T.nil := by
  induction moves with
  | nil => intro st h1 h2 h3 h4; exact ⟨h1, h2, h3, h4⟩
  | cons i r ih =>
    intro st h1 h2 h3 h4
    simp only [List.foldl_cons]
    apply ih
    all_goals unfold destructStep
    all_goals cases hx : st.2.2[i]? with
      | none => simp only; first | exact h1 | exact h2 | exact h3 | exact h4
      | some x => ?_
    · have := (lyds_step_ok gt total trans st.1.1 st.1.2 (.ins x) h1 h2).1
      simpa [lydsStep, Lyds.insert2, sins] using this
    · have := (lyds_step_ok gt total trans st.1.1 st.1.2 (.ins x) h1 h2).2
      simpa [lydsStep, sins] using this
    · have hi : i < st.2.2.length := by
        rcases Nat.lt_or_ge i st.2.2.length with h | h
        · exact h
        · rw [List.getElem?_eq_none h] at hx; cases hx
      refine ⟨?_, isRB_nil, Or.inl rfl⟩
      simp only [List.length_eraseIdx, hi, if_true]
      rw [h3.1]
    · rfl
end

/-! ## the `first_llist` fast path of `lyd_dup` -/

section
variable (gt : α → α → Bool)
variable (total : ∀ a b, gt a b = false ∨ gt b a = false)
variable (trans : ∀ a b c, gt a b = false → gt b c = false → gt a c = false)

include total trans in
/-- the slow path: every copy through `lyd_insert_node(…, DEFAULT)` -/
theorem dup_slow_ok : ∀ (ys : List α) (st : Lyds α × List α), LydsOk st.1 st.2 → st.2.Pairwise (fun a b => gt a b = false) →
    let r := ys.foldl (fun (s : Lyds α × List α) (y : α) =>
      (s.1.insert gt s.2 y, s.2.takeWhile (fun e => !gt e y) ++ y :: s.2.dropWhile (fun e => !gt e y))) st
    r.2 = ys.foldl (fun l y => sins (fun a b => !gt a b) y l) st.2 ∧ LydsOk r.1 r.2 ∧ r.2.Pairwise (fun a b => gt a b = false)
  | [], st, h, hs => ⟨rfl, h, hs⟩
  | y :: ys, st, h, hs => by
    simp only [List.foldl_cons]
    obtain ⟨g1, g2⟩ := lyds_step_ok gt total trans st.1 st.2 (.ins y) h hs
    exact dup_slow_ok ys _ g1 g2

include trans in
/-- the fast path: the copies arrive in order behind everything present, there is no tree: appending is the sorted place -/
theorem dup_fast_ok : ∀ (ys : List α) (k : Nat) (l : List α), (l ++ ys).Pairwise (fun a b => gt a b = false) → k = l.length →
    let r := ys.foldl (fun (s : Lyds α × List α) (y : α) => ((⟨s.1.tree, s.1.n + 1⟩ : Lyds α), s.2 ++ [y])) ((⟨T.nil, k⟩ : Lyds α), l)
    r.2 = ys.foldl (fun l y => sins (fun a b => !gt a b) y l) l ∧ LydsOk r.1 r.2 ∧ r.2.Pairwise (fun a b => gt a b = false)
  | [], k, l, hs, hk => ⟨rfl, ⟨hk, isRB_nil, Or.inl rfl⟩, by simpa using hs⟩
  | y :: ys, k, l, hs, hk => by
    simp only [List.foldl_cons]
    have hle : ∀ a ∈ l, (fun a b => !gt a b) a y = true := by
      intro a ha
      rw [List.pairwise_append] at hs
      simp [hs.2.2 a ha y (List.mem_cons_self ..)]
    rw [sins_all_le _ y l hle]
    exact dup_fast_ok ys (k + 1) (l ++ [y]) (by simpa using hs) (by simp [hk])

include total trans in
theorem dupInto_ok (st : Lyds α × List α) (copies : List α) (h : LydsOk st.1 st.2)
    (hs : st.2.Pairwise (fun a b => gt a b = false)) (hc : copies.Pairwise (fun a b => gt a b = false)) :
    (Lyds.dupInto gt st copies).2 = copies.foldl (fun l y => sins (fun a b => !gt a b) y l) st.2 ∧
    LydsOk (Lyds.dupInto gt st copies).1 (Lyds.dupInto gt st copies).2 ∧
    (Lyds.dupInto gt st copies).2.Pairwise (fun a b => gt a b = false) := by
  cases copies with
  | nil => exact ⟨rfl, h, hs⟩
  | cons x rest =>
    obtain ⟨g1, g2⟩ := lyds_step_ok gt total trans st.1 st.2 (.ins x) h hs
    simp only [Lyds.dupInto]
    split
    · -- the fast path: the parent had no instance
      rename_i hf
      have hnil : st.2 = [] := by
        have := (Bool.and_eq_true _ _).mp hf
        simpa using this.2
      have hn0 : st.1.n = 0 := by rw [h.1, hnil]; rfl
      have e1 : st.1.insert gt st.2 x = (⟨T.nil, 1⟩ : Lyds α) := by simp [Lyds.insert, hn0]
      rw [e1, hnil]
      simp only [List.takeWhile_nil, List.dropWhile_nil, List.nil_append, List.foldl_cons]
      have := dup_fast_ok gt trans rest 1 [x] (by simpa using hc) rfl
      simpa [sins] using this
    · have := dup_slow_ok gt total trans rest _ g1 g2
      simpa [lydsStep, sins] using this
end

end LyModel.Sib.Rb

namespace LyModel.Sib

/-- the comparison the sibling-list model orders system-ordered instances by (`Key.le`, i.e. the type plugin's `sort`
    callback), as `rb_compare(d, x) > 0` -/
def keyGt (d x : Node) : Bool := !(d.key.le x.key)

theorem keyGt_trans (a b c : Node) : keyGt a b = false → keyGt b c = false → keyGt a c = false := by
  simp only [keyGt, Bool.not_eq_false']
  exact Key.le_trans a.key b.key c.key

theorem keyGt_total (a b : Node) : keyGt a b = false ∨ keyGt b a = false := by
  simp only [keyGt, Bool.not_eq_false']
  exact Key.le_total a.key b.key

end LyModel.Sib
