import LyModel.Compile.Model
/-! Whole-tree invariants of every tree `compileNode` builds: config inheritance and the mandatory flag of containers. -/
namespace LyModel.Compile

/-- the two local laws of a compiled node and its children -/
def nodeOK (d : CData) (kids : List CNode) : Prop :=
  (∀ k ∈ kids, d.config = false → k.d.config = false) ∧
  (d.kind = .container → d.mand = (!d.presence && kids.any (·.d.mand)))

mutual
def Good : CNode → Prop
  | .mk d kids => nodeOK d kids ∧ GoodL kids
def GoodL : List CNode → Prop
  | [] => True
  | c :: r => Good c ∧ GoodL r
end

theorem goodL_iff (l : List CNode) : GoodL l ↔ ∀ c ∈ l, Good c := by
  induction l with
  | nil => simp [GoodL]
  | cons a r ih => simp [GoodL, ih]

/-- all nodes of the list are good and obey the config of their (common) parent -/
def Inv (pc : Bool) (l : List CNode) : Prop := ∀ c ∈ l, (pc = false → c.d.config = false) ∧ Good c

theorem Inv.nil (pc : Bool) : Inv pc [] := by intro c hc; cases hc
theorem Inv.append {pc l1 l2} (h1 : Inv pc l1) (h2 : Inv pc l2) : Inv pc (l1 ++ l2) := by
  intro c hc; rcases List.mem_append.mp hc with h | h; exact h1 c h; exact h2 c h
theorem Inv.of_subset {pc l1 l2} (h : Inv pc l2) (hs : ∀ c ∈ l1, c ∈ l2) : Inv pc l1 := fun c hc => h c (hs c hc)

def pcfg (cx : Cx) : Bool := match cx.parent with | some pi => pi.config | none => true

/-- post-processing of a finished node that touches neither config, mandatory, kind, presence nor the children -/
def SameCore (c c' : CNode) : Prop :=
  c'.d.config = c.d.config ∧ c'.d.mand = c.d.mand ∧ c'.d.kind = c.d.kind ∧ c'.d.presence = c.d.presence ∧ c'.children = c.children

theorem good_mk (d : CData) (kids : List CNode) : Good (.mk d kids) ↔ nodeOK d kids ∧ GoodL kids := by simp [Good]

theorem SameCore.good {c c' : CNode} (h : SameCore c c') (hg : Good c) : Good c' := by
  obtain ⟨d, kids⟩ := c
  obtain ⟨d', kids'⟩ := c'
  simp only [SameCore, CNode.d, CNode.children] at h
  obtain ⟨h1, h2, h3, h4, h5⟩ := h
  subst h5
  rw [good_mk] at hg ⊢
  refine ⟨?_, hg.2⟩
  unfold nodeOK at *
  rw [h1, h2, h3, h4]
  exact hg.1

theorem sameCore_addWhens (k : Nat) (c : CNode) : SameCore c (addWhens k c) := by
  obtain ⟨d, kids⟩ := c; simp [SameCore, addWhens, CNode.d, CNode.children]
theorem sameCore_setDisabled (c : CNode) : SameCore c (setDisabled c) := by
  obtain ⟨d, kids⟩ := c; simp [SameCore, setDisabled, CNode.d, CNode.children]
theorem SameCore.refl (c : CNode) : SameCore c c := ⟨rfl, rfl, rfl, rfl, rfl⟩
theorem SameCore.trans {a b c : CNode} (h1 : SameCore a b) (h2 : SameCore b c) : SameCore a c := by
  obtain ⟨a1, a2, a3, a4, a5⟩ := h1
  obtain ⟨b1, b2, b3, b4, b5⟩ := h2
  exact ⟨b1.trans a1, b2.trans a2, b3.trans a3, b4.trans a4, b5.trans a5⟩

theorem Inv.map {pc l} (f : CNode → CNode) (hf : ∀ c, SameCore c (f c)) (h : Inv pc l) : Inv pc (l.map f) := by
  intro c hc
  obtain ⟨a, ha, rfl⟩ := List.mem_map.mp hc
  obtain ⟨h1, h2⟩ := h a ha
  exact ⟨fun hp => by rw [(hf a).1]; exact h1 hp, (hf a).good h2⟩

/-! ### connecting keeps the members -/

theorem connectPos1_mem (children : List CNode) (pm : String) (n c : CNode) (h : c ∈ connectPos1 children pm n) :
    c ∈ children ∨ c = n := by
  unfold connectPos1 at h
  split at h
  · simp at h; exact Or.inr h
  · split at h
    · rcases List.mem_append.mp h with h | h
      · exact Or.inl h
      · simp at h; exact Or.inr h
    · split at h
      · simp only [List.append_assoc, List.mem_append, List.mem_cons, List.not_mem_nil, or_false] at h
        rcases h with h | h | h
        · exact Or.inl ((List.takeWhile_sublist _).subset h)
        · exact Or.inr h
        · exact Or.inl (List.mem_of_mem_drop h)
      · simp only [List.append_assoc, List.mem_append, List.mem_cons, List.not_mem_nil, or_false] at h
        rcases h with h | h | h
        · exact Or.inl (List.mem_of_mem_take h)
        · exact Or.inr h
        · exact Or.inl (List.mem_of_mem_drop h)

theorem connectPos_mem (children : List CNode) (pm : String) (n c : CNode) (h : c ∈ connectPos children pm n) :
    c ∈ children ∨ c = n := by
  unfold connectPos at h
  simp only [List.mem_append] at h
  rcases h with (h | h) | h
  · exact Or.inl ((List.mem_filter.mp h).1)
  · rcases connectPos1_mem _ pm n c h with h | h
    · exact Or.inl ((List.mem_filter.mp h).1)
    · exact Or.inr h
  · exact Or.inl ((List.mem_filter.mp h).1)

theorem inv_connectPos {pc acc pm n} (ha : Inv pc acc) (hn : Inv pc [n]) : Inv pc (connectPos acc pm n) := by
  intro c hc
  rcases connectPos_mem acc pm n c hc with h | h
  · exact ha c h
  · subst h; exact hn c (by simp)

theorem inv_connect {pc acc pm n r} (ha : Inv pc acc) (hn : Inv pc [n]) (h : connect acc pm n = .ok r) : Inv pc r := by
  unfold connect at h
  simp only at h
  split at h
  · cases h
  · split at h
    · cases h
    · simp only [Except.ok.injEq] at h; subst h; exact inv_connectPos ha hn

theorem inv_connectAll {pc pm} : ∀ (news acc r : List CNode), Inv pc acc → Inv pc news → connectAll acc pm news = .ok r → Inv pc r := by
  intro news
  induction news with
  | nil => intro acc r ha _ h; simp only [connectAll, Except.ok.injEq] at h; subst h; exact ha
  | cons n rest ih =>
    intro acc r ha hn h
    simp only [connectAll] at h
    cases hc : connect acc pm n with
    | error e => simp [hc, bind, Except.bind] at h
    | ok a =>
      simp only [hc, bind, Except.bind] at h
      exact ih a r (inv_connect ha (fun c hc' => hn c (by simp at hc'; simp [hc'])) hc) (fun c hc' => hn c (by simp [hc'])) h

theorem inv_connectCase {pc acc pm n r} (ha : Inv pc acc) (hn : Inv pc [n]) (h : connectCase acc pm n = .ok r) : Inv pc r := by
  unfold connectCase at h
  split at h
  · cases h
  · simp only [Except.ok.injEq] at h; subst h; exact inv_connectPos ha hn

theorem inv_foldCase {pc pm} : ∀ (news acc r : List CNode), Inv pc acc → Inv pc news →
    news.foldlM (fun a c => connectCase a pm c) acc = .ok r → Inv pc r := by
  intro news
  induction news with
  | nil => intro acc r ha _ h; simp only [List.foldlM, pure, Except.pure, Except.ok.injEq] at h; subst h; exact ha
  | cons n rest ih =>
    intro acc r ha hn h
    simp only [List.foldlM] at h
    cases hc : connectCase acc pm n with
    | error e => simp [hc, bind, Except.bind] at h
    | ok a =>
      simp only [hc, bind, Except.bind] at h
      exact ih a r (inv_connectCase ha (fun c hc' => hn c (by simp at hc'; simp [hc'])) hc) (fun c hc' => hn c (by simp [hc'])) h

/-! ### the non-recursive parts of `compileNode` -/

theorem compileConfig_under (pi : PInfo) (c : Option Bool) (v : Bool) (h : compileConfig (some pi) c = .ok v)
    (hp : pi.config = false) : v = false := by
  obtain ⟨m, n, k, pc, ps⟩ := pi
  simp only at hp
  subst hp
  rcases c with _ | b <;> (try cases b) <;> simp [compileConfig] at h <;> (try subst h) <;> rfl

theorem nodeHead_facts (env : Env) (st : St) (cx : Cx) (inh : Nat) (p0 : Props) (st' : St) (h : Head)
    (hh : nodeHead env st cx inh p0 = .ok (st', h)) :
    pcfg h.cxk = h.d0.config ∧ (pcfg cx = false → h.d0.config = false) ∧ h.d0.kind = h.p.kind ∧ h.d0.presence = false ∧
    h.d0.mand = false := by
  unfold nodeHead at hh
  simp only at hh
  split at hh
  · cases hh
  · split at hh
    · cases hh
    · split at hh
      · cases hh
      · split at hh
        · cases hh
        · cases hh
        · rename_i cfgv stv hc hs
          simp only [Except.ok.injEq, Prod.mk.injEq] at hh
          obtain ⟨_, rfl⟩ := hh
          refine ⟨rfl, ?_, rfl, rfl, rfl⟩
          intro hp
          simp only
          split at hc
          · simp only [Except.ok.injEq] at hc; exact hc.symm
          · cases hpar : cx.parent with
            | none => simp [pcfg, hpar] at hp
            | some pi =>
              simp only [pcfg, hpar] at hp
              rw [hpar] at hc
              exact compileConfig_under pi _ _ hc hp

theorem leafBody_facts (env : Env) (cx : Cx) (h : Head) (c : CNode) (hk : leafish h.p.kind = true) (hd : h.d0.kind = h.p.kind)
    (hb : leafBody env cx h = .ok c) : c.children = [] ∧ c.d.config = h.d0.config ∧ c.d.kind ≠ .container := by
  have hne : h.d0.kind ≠ .container := by
    rw [hd]; intro hc; rw [hc] at hk; simp [leafish] at hk
  unfold leafBody at hb
  simp only at hb
  split at hb
  · cases hb
  · repeat' split at hb
    all_goals first
      | (cases hb; done)
      | (simp only [Except.ok.injEq] at hb; subst hb; exact ⟨rfl, rfl, hne⟩)

theorem finishInner_facts (h : Head) (acc : List CNode) (c : CNode) (hd : h.d0.kind = h.p.kind)
    (hf : finishInner h acc = .ok c) :
    c.children = acc ∧ c.d.config = h.d0.config ∧ (c.d.kind = .container → c.d.mand = (!c.d.presence && acc.any (·.d.mand))) := by
  unfold finishInner at hf
  simp only at hf
  split at hf
  · simp only [Except.ok.injEq] at hf; subst hf; exact ⟨rfl, rfl, fun _ => rfl⟩
  · split at hf
    · cases hf
    · rename_i hk _
      simp only [Except.ok.injEq] at hf; subst hf
      exact ⟨rfl, rfl, fun hc => by simp only [CNode.d] at hc; rw [hd, hk] at hc; cases hc⟩
  · rename_i hk
    simp only [Except.ok.injEq] at hf; subst hf
    exact ⟨rfl, rfl, fun hc => by simp only [CNode.d] at hc; rw [hd, hk] at hc; cases hc⟩
  · rename_i hk1 hk2 hk3
    simp only [Except.ok.injEq] at hf; subst hf
    refine ⟨rfl, rfl, fun hc => ?_⟩
    simp only [CNode.d] at hc
    rw [hd] at hc
    exact absurd hc hk1

theorem good_of_parts (c : CNode) (acc : List CNode) (hch : c.children = acc) (hi : Inv c.d.config acc)
    (hm : c.d.kind = .container → c.d.mand = (!c.d.presence && acc.any (·.d.mand))) : Good c := by
  obtain ⟨d, kids⟩ := c
  simp only [CNode.children] at hch
  subst hch
  rw [good_mk]
  refine ⟨⟨fun k hk hc => (hi k hk).1 hc, hm⟩, (goodL_iff _).mpr fun k hk => (hi k hk).2⟩

/-! ### the induction over the compiler -/

/-- the five statements proved together by induction on the fuel -/
def Stmt (env : Env) (fuel : Nat) : Prop :=
  (∀ st cx inh pn st' cs, compileNode env fuel st cx inh pn = .ok (st', cs) → Inv (pcfg cx) cs) ∧
  (∀ st cx inh pns st' cs, compileNodes env fuel st cx inh pns = .ok (st', cs) → Inv (pcfg cx) cs) ∧
  (∀ st cx acc pns st' r, compileChoiceKids env fuel st cx acc pns = .ok (st', r) → Inv (pcfg cx) acc → Inv (pcfg cx) r) ∧
  (∀ st cx acc st' r, applyAugs env fuel st cx acc = .ok (st', r) → Inv (pcfg cx) acc → Inv (pcfg cx) r) ∧
  (∀ st cx a b acc st' r, compileAug env fuel st cx a b acc = .ok (st', r) → Inv (pcfg cx) acc → Inv (pcfg cx) r)


theorem stmt_zero (env : Env) : Stmt env 0 := by
  refine ⟨?_, ?_, ?_, ?_, ?_⟩
  · intro st cx inh pn st' cs h; simp [compileNode] at h
  · intro st cx inh pns st' cs h; simp [compileNodes] at h
  · intro st cx acc pns st' r h; simp [compileChoiceKids] at h
  · intro st cx acc st' r h; simp [applyAugs] at h
  · intro st cx a b acc st' r h; simp [compileAug] at h

theorem sameCore_cond (b : Bool) (k : Nat) (c : CNode) : SameCore c ((if b then setDisabled else id) (addWhens k c)) := by
  cases b
  · exact sameCore_addWhens k c
  · exact (sameCore_addWhens k c).trans (sameCore_setDisabled _)

theorem stmt_node (env : Env) (fuel : Nat) (ih : Stmt env fuel) :
    ∀ st cx inh pn st' cs, compileNode env (fuel + 1) st cx inh pn = .ok (st', cs) → Inv (pcfg cx) cs := by
  intro st cx inh pn st' cs h
  cases pn with
  | uses u augs =>
    simp only [compileNode] at h
    split at h
    · cases h
    · split at h
      · cases h
      · split at h
        · cases h
        · split at h
          · cases h
          · rename_i st2 cs2 h2
            split at h
            · cases h
            · simp only [Except.ok.injEq, Prod.mk.injEq] at h
              rw [← h.2]
              have := ih.2.1 _ _ _ _ _ _ h2
              exact Inv.map _ (fun c => sameCore_cond _ _ c) this
  | node p0 kids =>
    simp only [compileNode] at h
    split at h
    · cases h
    · rename_i st1 hd hh
      obtain ⟨hpc, hunder, hkind, _, _⟩ := nodeHead_facts env st cx inh p0 st1 hd hh
      split at h
      · -- leaf / leaf-list
        rename_i hleaf
        split at h
        · cases h
        · rename_i c hb
          simp only [Except.ok.injEq, Prod.mk.injEq] at h
          rw [← h.2]
          obtain ⟨hch, hcfg, hnc⟩ := leafBody_facts env cx hd c hleaf hkind hb
          intro c' hc'
          simp only [List.mem_singleton] at hc'
          subst hc'
          refine ⟨fun hp => by rw [hcfg]; exact hunder hp, ?_⟩
          exact good_of_parts c' [] hch (Inv.nil _) (fun hk => absurd hk hnc)
      · split at h
        · cases h
        · rename_i st2 acc hbody
          split at h
          · cases h
          · rename_i st3 acc3a haug
            split at h
            · cases h
            · rename_i st3b cs3b hops
              split at h
              · cases h
              · rename_i acc3 hconn3
                split at h
                · cases h
                · rename_i c hfin
                  simp only [Except.ok.injEq, Prod.mk.injEq] at h
                  rw [← h.2]
                  obtain ⟨hch, hcfg, hm⟩ := finishInner_facts hd acc3 c hkind hfin
                  -- the children before the augments
                  have hacc : Inv (pcfg hd.cxk) acc := by
                    split at hbody
                    · exact ih.2.2.1 _ _ _ _ _ _ hbody (Inv.nil _)
                    · split at hbody
                      · cases hbody
                      · rename_i st4 cs4 h4
                        split at hbody
                        · cases hbody
                        · rename_i acc5 h5
                          simp only [Except.ok.injEq, Prod.mk.injEq] at hbody
                          rw [← hbody.2]
                          exact inv_connectAll _ _ _ (Inv.nil _) (ih.2.1 _ _ _ _ _ _ h4) h5
                  have hacc3a : Inv (pcfg hd.cxk) acc3a := ih.2.2.2.1 _ _ _ _ _ haug hacc
                  have hacc3 : Inv (pcfg hd.cxk) acc3 := inv_connectAll _ _ _ hacc3a (ih.2.1 _ _ _ _ _ _ hops) hconn3
                  intro c' hc'
                  simp only [List.mem_singleton] at hc'
                  subst hc'
                  refine ⟨fun hp => by rw [hcfg]; exact hunder hp, ?_⟩
                  rw [hpc, ← hcfg] at hacc3
                  exact good_of_parts c' acc3 hch hacc3 hm

theorem stmt_nodes (env : Env) (fuel : Nat) (ih : Stmt env fuel) :
    ∀ st cx inh pns st' cs, compileNodes env (fuel + 1) st cx inh pns = .ok (st', cs) → Inv (pcfg cx) cs := by
  intro st cx inh pns st' cs h
  cases pns with
  | nil => simp only [compileNodes, Except.ok.injEq, Prod.mk.injEq] at h; rw [← h.2]; exact Inv.nil _
  | cons n rest =>
    simp only [compileNodes] at h
    split at h
    · cases h
    · rename_i st1 cs1 h1
      split at h
      · cases h
      · rename_i st2 cs2 h2
        simp only [Except.ok.injEq, Prod.mk.injEq] at h
        rw [← h.2]
        exact (ih.1 _ _ _ _ _ _ h1).append (ih.2.1 _ _ _ _ _ _ h2)


theorem sameCore_status (c : CNode) : SameCore c (match c.children.head? with
    | some k => CNode.mk { c.d with status := k.d.status } c.children
    | none => c) := by
  split
  · obtain ⟨d, kids⟩ := c; simp [SameCore, CNode.d, CNode.children]
  · exact SameCore.refl c

theorem stmt_choice (env : Env) (fuel : Nat) (ih : Stmt env fuel) :
    ∀ st cx acc pns st' r, compileChoiceKids env (fuel + 1) st cx acc pns = .ok (st', r) → Inv (pcfg cx) acc → Inv (pcfg cx) r := by
  intro st cx acc pns st' r h hacc
  cases pns with
  | nil => simp only [compileChoiceKids, Except.ok.injEq, Prod.mk.injEq] at h; rw [← h.2]; exact hacc
  | cons n rest =>
    simp only [compileChoiceKids] at h
    split at h
    · cases h
    · rename_i st1 cs1 hone
      split at h
      · cases h
      · rename_i acc2 hfold
        have hcs : Inv (pcfg cx) cs1 := by
          split at hone
          · cases hone
          · split at hone
            · exact ih.1 _ _ _ _ _ _ hone
            · split at hone
              · cases hone
              · rename_i st3 cs3 h3
                simp only [Except.ok.injEq, Prod.mk.injEq] at hone
                rw [← hone.2]
                exact Inv.map _ (fun c => sameCore_status c) (ih.1 _ _ _ _ _ _ h3)
        exact ih.2.2.1 _ _ _ _ _ _ h (inv_foldCase _ _ _ hacc hcs hfold)

theorem stmt_aug (env : Env) (fuel : Nat) (ih : Stmt env fuel) :
    ∀ st cx a b acc st' r, compileAug env (fuel + 1) st cx a b acc = .ok (st', r) → Inv (pcfg cx) acc → Inv (pcfg cx) r := by
  intro st cx a b acc st' r h hacc
  obtain ⟨hd, kids⟩ := a
  simp only [compileAug] at h
  split at h
  · cases h
  split at h
  · cases h
  split at h
  · cases h
  split at h
  · cases h
  rename_i st1 cases1 cs1 hr
  have hnews : Inv (pcfg cx) (cases1 ++ cs1) := by
    split at hr
    · split at hr
      · cases hr
      · rename_i st2 cs2 h2
        simp only [Except.ok.injEq, Prod.mk.injEq] at hr
        obtain ⟨_, hc, hcs⟩ := hr
        rw [← hc, ← hcs]
        simp only [List.append_nil]
        have t := ih.2.2.1 _ _ _ _ _ _ h2 (Inv.nil _)
        exact t
    · split at hr
      · cases hr
      · rename_i st2 cs2 h2
        simp only [Except.ok.injEq, Prod.mk.injEq] at hr
        obtain ⟨_, hc, hcs⟩ := hr
        rw [← hc, ← hcs]
        simp only [List.nil_append]
        have t := ih.2.1 _ _ _ _ _ _ h2
        exact t
  repeat' split at h
  all_goals first
    | (cases h; done)
    | (simp only [Except.ok.injEq, Prod.mk.injEq] at h
       rw [← h.2]
       first
         | exact inv_foldCase _ _ _ hacc (Inv.map _ (fun c => sameCore_cond _ _ c) hnews) (by assumption)
         | exact inv_foldCase _ _ _ hacc (Inv.map _ (fun c => (sameCore_addWhens _ c).trans (sameCore_setDisabled _)) hnews) (by assumption)
         | exact inv_foldCase _ _ _ hacc (Inv.map _ (fun c => sameCore_addWhens _ c) hnews) (by assumption)
         | exact inv_connectAll _ _ _ hacc (Inv.map _ (fun c => sameCore_cond _ _ c) hnews) (by assumption)
         | exact inv_connectAll _ _ _ hacc (Inv.map _ (fun c => (sameCore_addWhens _ c).trans (sameCore_setDisabled _)) hnews) (by assumption)
         | exact inv_connectAll _ _ _ hacc (Inv.map _ (fun c => sameCore_addWhens _ c) hnews) (by assumption))

theorem stmt_augs (env : Env) (fuel : Nat) (ih : Stmt env fuel) :
    ∀ st cx acc st' r, applyAugs env (fuel + 1) st cx acc = .ok (st', r) → Inv (pcfg cx) acc → Inv (pcfg cx) r := by
  intro st cx acc st' r h hacc
  simp only [applyAugs] at h
  split at h
  · split at h
    · cases h
    · rename_i st1 acc1 h1
      exact ih.2.2.2.1 _ _ _ _ _ h (ih.2.2.2.2 _ _ _ _ _ _ _ h1 hacc)
  · split at h
    · simp only [Except.ok.injEq, Prod.mk.injEq] at h; rw [← h.2]; exact hacc
    · split at h
      · cases h
      · rename_i st1 acc1 h1
        have t := ih.2.2.2.2 _ _ _ _ _ _ _ h1 hacc
        exact ih.2.2.2.1 _ _ _ _ _ h t

theorem stmt_all (env : Env) : ∀ fuel, Stmt env fuel := by
  intro fuel
  induction fuel with
  | zero => exact stmt_zero env
  | succ n ih => exact ⟨stmt_node env n ih, stmt_nodes env n ih, stmt_choice env n ih, stmt_augs env n ih, stmt_aug env n ih⟩

end LyModel.Compile
