import LyModel.Compile.Model
/-! Whole-tree invariants of every tree `compileNode` builds: config inheritance and the mandatory flag of containers. -/
namespace LyModel.Compile

/-- the two local laws of a compiled node and its children -/
def nodeOK (d : CData) (kids : List CNode) : Prop :=
  (∀ k ∈ kids, d.config = false → k.d.config = false) ∧
  (d.kind = .container → d.mand = (!d.presence && kids.any (·.d.mand)))

mutual
def Good : CNode → Prop
  | .mk d kids => nodeOK d kids ∧ GoodL kids
def GoodL : List CNode → Prop
  | [] => True
  | c :: r => Good c ∧ GoodL r
end

theorem goodL_iff (l : List CNode) : GoodL l ↔ ∀ c ∈ l, Good c := by
  induction l with
  | nil => simp [GoodL]
  | cons a r ih => simp [GoodL, ih]

/-- all nodes of the list are good and obey the config of their (common) parent -/
def Inv (pc : Bool) (l : List CNode) : Prop := ∀ c ∈ l, (pc = false → c.d.config = false) ∧ Good c

theorem Inv.nil (pc : Bool) : Inv pc [] := by intro c hc; cases hc
theorem Inv.append {pc l1 l2} (h1 : Inv pc l1) (h2 : Inv pc l2) : Inv pc (l1 ++ l2) := by
  intro c hc; rcases List.mem_append.mp hc with h | h; exact h1 c h; exact h2 c h
theorem Inv.of_subset {pc l1 l2} (h : Inv pc l2) (hs : ∀ c ∈ l1, c ∈ l2) : Inv pc l1 := fun c hc => h c (hs c hc)

def pcfg (cx : Cx) : Bool := match cx.parent with | some pi => pi.config | none => true

/-- post-processing of a finished node that touches neither config, mandatory, kind, presence nor the children -/
def SameCore (c c' : CNode) : Prop :=
  c'.d.config = c.d.config ∧ c'.d.mand = c.d.mand ∧ c'.d.kind = c.d.kind ∧ c'.d.presence = c.d.presence ∧ c'.children = c.children

theorem good_mk (d : CData) (kids : List CNode) : Good (.mk d kids) ↔ nodeOK d kids ∧ GoodL kids := by simp [Good]

theorem SameCore.good {c c' : CNode} (h : SameCore c c') (hg : Good c) : Good c' := by
  obtain ⟨d, kids⟩ := c
  obtain ⟨d', kids'⟩ := c'
  simp only [SameCore, CNode.d, CNode.children] at h
  obtain ⟨h1, h2, h3, h4, h5⟩ := h
  subst h5
  rw [good_mk] at hg ⊢
  refine ⟨?_, hg.2⟩
  unfold nodeOK at *
  rw [h1, h2, h3, h4]
  exact hg.1

theorem sameCore_addWhens (k : Nat) (c : CNode) : SameCore c (addWhens k c) := by
  obtain ⟨d, kids⟩ := c; simp [SameCore, addWhens, CNode.d, CNode.children]
theorem sameCore_setDisabled (c : CNode) : SameCore c (setDisabled c) := by
  obtain ⟨d, kids⟩ := c; simp [SameCore, setDisabled, CNode.d, CNode.children]
theorem SameCore.refl (c : CNode) : SameCore c c := ⟨rfl, rfl, rfl, rfl, rfl⟩
theorem SameCore.trans {a b c : CNode} (h1 : SameCore a b) (h2 : SameCore b c) : SameCore a c := by
  obtain ⟨a1, a2, a3, a4, a5⟩ := h1
  obtain ⟨b1, b2, b3, b4, b5⟩ := h2
  exact ⟨b1.trans a1, b2.trans a2, b3.trans a3, b4.trans a4, b5.trans a5⟩

theorem Inv.map {pc l} (f : CNode → CNode) (hf : ∀ c, SameCore c (f c)) (h : Inv pc l) : Inv pc (l.map f) := by
  intro c hc
  obtain ⟨a, ha, rfl⟩ := List.mem_map.mp hc
  obtain ⟨h1, h2⟩ := h a ha
  exact ⟨fun hp => by rw [(hf a).1]; exact h1 hp, (hf a).good h2⟩

/-! ### connecting keeps the members -/

theorem connectPos_mem (children : List CNode) (pm : String) (n c : CNode) (h : c ∈ connectPos children pm n) :
    c ∈ children ∨ c = n := by
  unfold connectPos at h
  split at h
  · simp at h; exact Or.inr h
  · split at h
    · rcases List.mem_append.mp h with h | h
      · exact Or.inl h
      · simp at h; exact Or.inr h
    · split at h
      · simp only [List.append_assoc, List.mem_append, List.mem_cons, List.not_mem_nil, or_false] at h
        rcases h with h | h | h
        · exact Or.inl (List.mem_of_mem_takeWhile h)
        · exact Or.inr h
        · exact Or.inl (List.mem_of_mem_drop h)
      · simp only [List.append_assoc, List.mem_append, List.mem_cons, List.not_mem_nil, or_false] at h
        rcases h with h | h | h
        · exact Or.inl (List.mem_of_mem_take h)
        · exact Or.inr h
        · exact Or.inl (List.mem_of_mem_drop h)

theorem Inv.connectPos {pc acc pm n} (ha : Inv pc acc) (hn : Inv pc [n]) : Inv pc (connectPos acc pm n) := by
  intro c hc
  rcases connectPos_mem acc pm n c hc with h | h
  · exact ha c h
  · subst h; exact hn c (by simp)

theorem Inv.connect {pc acc pm n r} (ha : Inv pc acc) (hn : Inv pc [n]) (h : connect acc pm n = .ok r) : Inv pc r := by
  unfold connect at h
  simp only at h
  split at h
  · cases h
  · split at h
    · cases h
    · simp only [Except.ok.injEq] at h; subst h; exact ha.connectPos hn

theorem Inv.connectAll {pc pm} : ∀ (news acc r : List CNode), Inv pc acc → Inv pc news → connectAll acc pm news = .ok r → Inv pc r := by
  intro news
  induction news with
  | nil => intro acc r ha _ h; simp only [connectAll, Except.ok.injEq] at h; subst h; exact ha
  | cons n rest ih =>
    intro acc r ha hn h
    simp only [LyModel.Compile.connectAll] at h
    cases hc : LyModel.Compile.connect acc pm n with
    | error e => simp [hc, bind, Except.bind] at h
    | ok a =>
      simp only [hc, bind, Except.bind] at h
      exact ih a r (ha.connect (fun c hc' => hn c (by simp at hc'; simp [hc'])) hc) (fun c hc' => hn c (by simp [hc'])) h

theorem Inv.connectCase {pc acc pm n r} (ha : Inv pc acc) (hn : Inv pc [n]) (h : connectCase acc pm n = .ok r) : Inv pc r := by
  unfold connectCase at h
  split at h
  · cases h
  · simp only [Except.ok.injEq] at h; subst h; exact ha.connectPos hn

theorem Inv.foldCase {pc pm} : ∀ (news acc r : List CNode), Inv pc acc → Inv pc news →
    news.foldlM (fun a c => connectCase a pm c) acc = .ok r → Inv pc r := by
  intro news
  induction news with
  | nil => intro acc r ha _ h; simp only [List.foldlM, pure, Except.pure, Except.ok.injEq] at h; subst h; exact ha
  | cons n rest ih =>
    intro acc r ha hn h
    simp only [List.foldlM] at h
    cases hc : LyModel.Compile.connectCase acc pm n with
    | error e => simp [hc, bind, Except.bind] at h
    | ok a =>
      simp only [hc, bind, Except.bind] at h
      exact ih a r (ha.connectCase (fun c hc' => hn c (by simp at hc'; simp [hc'])) hc) (fun c hc' => hn c (by simp [hc'])) h

end LyModel.Compile
