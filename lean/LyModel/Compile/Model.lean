import LyModel.Base
import LyModel.Iff.Range
/-! Expansion core of the libyang schema compiler (C11): a parsed-schema DSL and `compile`, mirroring the ORDER in which
`lys_compile` (schema_compile.c), `lys_compile_node_` / `lys_compile_uses` (schema_compile_node.c) and the amend look-ups of
schema_compile_amend.c (`lys_precompile_uses_augments_refines`, `lys_compile_node_deviations_refines`,
`lys_compile_node_augments`, `lys_precompile_own_augments`, `lys_precompile_own_deviations`) do things.

Compiled nodes are identified by their absolute schema path (list of (module, name)); the C code identifies the context
node of a refine / uses-augment by pointer, which is the same thing as long as sibling names are unique — and
`lys_compile_node_uniqness` aborts the compilation otherwise.  All error codes are collapsed to `fail` (the tie compares
accept/reject and the compiled tree); `fuel` is the model's own out-of-fuel verdict and never a libyang verdict. -/
namespace LyModel.Compile
open LyModel

inductive Err | fail | fuel
  deriving DecidableEq, Repr

inductive Kind | container | list | leaf | leaflist | choice | case | action | input | output | notif
  deriving DecidableEq, Repr, Inhabited

def Kind.name : Kind → String
  | .container => "container" | .list => "list" | .leaf => "leaf" | .leaflist => "leaf-list" | .choice => "choice" | .case => "case"
  | .action => "action" | .input => "input" | .output => "output" | .notif => "notification"

abbrev QName := String × String          -- (module name, node name)
abbrev Path := List QName

/-- a type use: the name of a built-in type or of a typedef, and an optional `range` (numeric types) / `length` (string) argument -/
structure TypeUse where
  ref : String := "string"
  restr : Option String := none
  deriving Repr, DecidableEq, Inhabited

structure Typedef where
  name : String
  typ : TypeUse
  dflt : Option String := none
  units : Option String := none
  deriving Repr, Inhabited

/-- statements of a parsed data node (`struct lysp_node_*`, the members the model follows); status 0 = none, 1 current,
2 deprecated, 3 obsolete (the order `lys_compile_status` compares in) -/
structure Props where
  kind : Kind
  name : String
  config : Option Bool := none
  status : Nat := 0
  mand : Option Bool := none
  presence : Bool := false
  whens : Nat := 0
  iffs : List String := []
  dflts : List String := []
  min : Nat := 0
  max : Nat := 0                  -- 0 = unbounded
  setMin : Bool := false          -- LYS_SET_MIN / LYS_SET_MAX (what `deviate add` looks at)
  setMax : Bool := false
  typ : TypeUse := {}
  units : Option String := none
  deriving Repr, Inhabited

/-- `struct lysp_refine` -/
structure Refine where
  path : List String
  dflts : Option (List String) := none
  config : Option Bool := none
  mand : Option Bool := none
  presence : Bool := false
  min : Option Nat := none
  max : Option Nat := none
  iffs : List String := []
  deriving Repr, Inhabited

/-- header of an `augment`: for a uses-augment the path is relative (module component unused) -/
structure AugHdr where
  path : Path
  whens : Nat := 0
  iffs : List String := []
  status : Nat := 0
  deriving Repr, Inhabited

structure UsesP where
  grouping : String
  refines : List Refine := []
  whens : Nat := 0
  iffs : List String := []
  status : Nat := 0
  deriving Repr, Inhabited

inductive PNode
  | node (p : Props) (children : List PNode)
  | uses (u : UsesP) (augs : List (AugHdr × List PNode))
  deriving Inhabited

abbrev PAug := AugHdr × List PNode

inductive DevKind | notSupported | add | replace | delete
  deriving DecidableEq, Repr, Inhabited

/-- one `deviate` statement -/
structure Deviate where
  kind : DevKind
  dflts : List String := []
  config : Option Bool := none
  mand : Option Bool := none
  min : Option Nat := none
  max : Option Nat := none
  units : Option String := none
  deriving Repr, Inhabited

structure Deviation where
  path : Path
  deviates : List Deviate
  deriving Repr, Inhabited

structure Module where
  name : String
  data : List PNode := []
  augments : List PAug := []
  deviations : List Deviation := []
  deriving Inhabited

/-- a module set: typedefs and groupings are the top-level ones of the first module (the others reach them through a prefix) -/
structure Schema where
  typedefs : List Typedef := []
  groupings : List (String × List PNode) := []
  mods : List Module := []
  features : List String := []          -- the enabled features
  deriving Inhabited

/-! ## compiled tree -/

structure CType where
  base : String
  parts : Option (List Range.Part)
  deriving Inhabited

structure CData where
  mod : String
  name : String
  kind : Kind
  config : Bool            -- true = LYS_CONFIG_W
  status : Nat
  mand : Bool              -- LYS_MAND_TRUE
  presence : Bool
  whens : Nat
  disabled : Bool          -- member of unres->disabled (removed at the end of the dep-set compilation)
  dflts : List String
  min : Nat
  max : Nat
  typ : Option CType
  units : Option String
  noCfg : Bool := false    -- inside RPC / action / notification: no config flag at all (`config` is then false = "not LYS_CONFIG_W")
  deriving Inhabited

inductive CNode
  | mk (d : CData) (children : List CNode)
  deriving Inhabited

def CNode.d : CNode → CData | .mk d _ => d
def CNode.children : CNode → List CNode | .mk _ c => c
def CNode.qname (c : CNode) : QName := (c.d.mod, c.d.name)

/-! ## types: `lys_compile_type` -/

structure Cfg where
  rfx : Range.RFix := {}
  rfnReverse : Bool := true      -- F80 repaired: refines of inner uses are applied first (scan from the end)
  augRmSwap : Bool := true       -- `ly_set_rm(&ctx->augs, …)` moves the LAST pending augment into the hole (F81)
  fixF390 : Bool := false        -- fixes/F390.diff: top-level augment bodies are compiled with an empty groupings stack
  fixF392 : Bool := false        -- fixes/F392.diff: removal of a disabled mandatory node re-evaluates the parents' mandatory flag
  deriving Inhabited

def builtins : List String := ["int8", "int16", "int32", "uint8", "uint16", "uint32", "string", "boolean"]

def findTypedef (tds : List Typedef) (n : String) : Option Typedef := tds.find? (·.name == n)

/-- the typedef chain of a type use, nearest typedef first, and the built-in type it ends in (the first loop of `lys_compile_type`) -/
def typeChain (tds : List Typedef) : Nat → String → Except Err (List Typedef × String)
  | 0, _ => .error .fail
  | fuel + 1, ref =>
    if builtins.contains ref then .ok ([], ref) else
    match findTypedef tds ref with
    | none => .error .fail
    | some td => do
      let (ch, b) ← typeChain tds fuel td.typ.ref
      .ok (td :: ch, b)

/-- the bytes of an ASCII argument (kernel-reducible, unlike `toUTF8`) -/
def toBytes (s : String) : Bytes := s.toList.map fun c => c.toNat.toUInt8

/-- one restriction step: `lys_compile_type_range` on top of the restriction compiled so far -/
def restrStep (cfg : Cfg) (base : String) (cur : Option (List Range.Part)) (r : Option String) : Except Err (Option (List Range.Part)) :=
  match r with
  | none => .ok cur
  | some arg =>
    match Range.typeOf base 0 with
    | none => .error .fail                      -- `boolean`: no range/length
    | some t =>
      match Range.compileRange cfg.rfx t cur (toBytes arg) with
      | .ok parts => .ok (some parts)
      | .error _ => .error .fail

/-- restrictions from the built-in type down to the type use (second loop of `lys_compile_type`): the argument list is
ordered from the typedef nearest to the built-in type to the leaf's own `type` statement -/
def restrFold (cfg : Cfg) (base : String) : Option (List Range.Part) → List (Option String) → Except Err (Option (List Range.Part))
  | cur, [] => .ok cur
  | cur, r :: rest => do
    let c ← restrStep cfg base cur r
    restrFold cfg base c rest

structure TypeRes where
  typ : CType
  dflt : Option String      -- default of the nearest typedef that has one
  units : Option String     -- units of the nearest typedef that has them
  deriving Inhabited

def compileType (cfg : Cfg) (tds : List Typedef) (t : TypeUse) : Except Err TypeRes := do
  let (chain, base) ← typeChain tds (tds.length + 1) t.ref
  let parts ← restrFold cfg base none ((chain.reverse.map (·.typ.restr)) ++ [t.restr])
  .ok { typ := { base := base, parts := parts }, dflt := chain.findSome? (·.dflt), units := chain.findSome? (·.units) }

/-- value check of a default against the compiled type (`lys_compile_unres_dflt` → type plugin store), canonical spellings only -/
def parseIntStr (s : String) : Option Int :=
  match s.toList with
  | '-' :: ds => if ds.isEmpty || !ds.all Char.isDigit then none else some (-(Int.ofNat ((String.ofList ds).toNat!)))
  | ds => if ds.isEmpty || !ds.all Char.isDigit then none else some (Int.ofNat ((String.ofList ds).toNat!))

def inParts (parts : Option (List Range.Part)) (lo hi v : Int) : Bool :=
  match parts with
  | none => decide (lo ≤ v) && decide (v ≤ hi)
  | some ps => ps.any fun p => decide (p.min ≤ v) && decide (v ≤ p.max)

def dfltValid (t : CType) (v : String) : Bool :=
  if t.base == "boolean" then v == "true" || v == "false"
  else if t.base == "string" then inParts t.parts 0 18446744073709551615 (Int.ofNat v.length)
  else match Range.typeOf t.base 0, parseIntStr v with
    | some rt, some i => inParts t.parts rt.lo rt.hi i
    | _, _ => false

/-! ## amendments kept in the compile context (`struct lysc_ctx`: uses_rfns, uses_augs, augs, devs) -/

structure URfn where
  ctx : Path                 -- nodeid_ctx_node
  nodeid : List String
  rfns : List Refine         -- all refines of one uses with the same target
  usesId : Nat               -- uses_p
  deriving Inhabited

structure UAug where
  uid : Nat                  -- object identity
  ctx : Path
  nodeid : List String
  aug : PAug
  usesId : Nat
  deriving Inhabited

structure TAug where
  id : Nat                   -- object identity (ly_set_rm looks the pointer up)
  owner : String             -- aug_pmod
  aug : PAug
  deriving Inhabited

structure TDev where
  path : Path
  devs : List Deviate        -- all deviates of all deviations of this target, in deviating-module order
  count : Nat := 1           -- number of `deviation` statements merged here
  deriving Inhabited

structure St where
  rfns : List URfn := []
  uaugs : List UAug := []
  augs : List TAug := []
  devs : List TDev := []
  next : Nat := 0
  used : List String := []       -- groupings with LYS_USED_GRP
  deriving Inhabited

/-- info about the compiled parent that children look at -/
structure PInfo where
  mod : String
  name : String
  kind : Kind
  config : Bool
  status : Nat
  deriving Inhabited

structure Cx where
  cur : String                   -- ctx->cur_mod
  ppath : Path := []             -- path of the compiled parent ([] = top level)
  parent : Option PInfo := none
  disabled : Bool := false       -- LYS_COMPILE_DISABLED
  stack : List String := []      -- ctx->groupings
  grp : Bool := false            -- LYS_COMPILE_GROUPING (validation of an unused grouping)
  noCfg : Bool := false          -- LYS_COMPILE_NO_CONFIG
  io : Nat := 0                  -- 1 = inside input, 2 = inside output, 3 = inside a notification (LYS_IS_INPUT / _OUTPUT / _NOTIF)
  deriving Inhabited

/-! ### refine / deviate application on the parsed node copy -/

def leafish (k : Kind) : Bool := k == .leaf || k == .leaflist

/-- `lys_apply_refine` -/
def applyRefine (r : Refine) (p : Props) : Except Err Props := do
  let p ← match r.dflts with
    | none => pure p
    | some ds =>
      match p.kind with
      | .leaf => if ds.length == 1 then pure { p with dflts := ds } else .error .fail
      | .leaflist => pure { p with dflts := ds }
      | _ => .error .fail           -- (choice default is outside the DSL)
  let p := match r.config with | none => p | some c => { p with config := some c }
  let p ← match r.mand with
    | none => pure p
    | some m => if p.kind == .leaf || p.kind == .choice then pure { p with mand := some m } else .error .fail
  let p ← if r.presence then (if p.kind == .container then pure { p with presence := true } else .error .fail) else pure p
  let p ← match r.min with
    | none => pure p
    | some n => if p.kind == .leaflist || p.kind == .list then pure { p with min := n } else .error .fail
  let p ← match r.max with
    | none => pure p
    | some n => if p.kind == .leaflist || p.kind == .list then pure { p with max := n } else .error .fail
  -- if-feature can be added to leaf, leaf-list, list, container, choice, case (not to an operation or its input / output)
  if !r.iffs.isEmpty && (p.kind == .action || p.kind == .notif || p.kind == .input || p.kind == .output) then .error .fail else
  pure { p with iffs := p.iffs ++ r.iffs }

def applyRefines : List Refine → Props → Except Err Props
  | [], p => .ok p
  | r :: rest, p => do let p ← applyRefine r p; applyRefines rest p

/-- `lys_apply_deviate_add` / `_delete` / `_replace` (the properties of the DSL) -/
def applyDeviate (d : Deviate) (p : Props) : Except Err Props :=
  match d.kind with
  | .notSupported => .ok p
  | .add => do
    let p ← match d.units with
      | none => pure p
      | some u => if !leafish p.kind || p.units.isSome then .error .fail else pure { p with units := some u }
    let p ← if d.dflts.isEmpty then pure p else
      match p.kind with
      | .leaf => if d.dflts.length != 1 || !p.dflts.isEmpty then .error .fail else pure { p with dflts := d.dflts }
      | .leaflist => pure { p with dflts := p.dflts ++ d.dflts }
      | _ => .error .fail
    let p ← match d.config with
      | none => pure p
      | some c => if p.kind == .case || p.config.isSome then .error .fail else pure { p with config := some c }
    let p ← match d.mand with
      | none => pure p
      | some m => if !(p.kind == .leaf || p.kind == .choice) || p.mand.isSome then .error .fail else pure { p with mand := some m }
    let p ← match d.min with
      | none => pure p
      | some n => if !(p.kind == .leaflist || p.kind == .list) || p.setMin then .error .fail else pure { p with min := n, setMin := true }
    match d.max with
      | none => pure p
      | some n => if !(p.kind == .leaflist || p.kind == .list) || p.setMax then .error .fail else pure { p with max := n, setMax := true }
  | .delete => do
    let p ← match d.units with
      | none => pure p
      | some u => if !leafish p.kind || p.units != some u then .error .fail else pure { p with units := none }
    if d.dflts.isEmpty then pure p else
      match p.kind with
      | .leaf => if d.dflts.length != 1 || p.dflts != d.dflts then .error .fail else pure { p with dflts := [] }
      | .leaflist =>
        d.dflts.foldlM (fun (q : Props) v => if q.dflts.contains v then pure { q with dflts := q.dflts.erase v } else .error .fail) p
      | _ => .error .fail
  | .replace => do
    let p ← match d.units with
      | none => pure p
      | some u => if !leafish p.kind || p.units.isNone then .error .fail else pure { p with units := some u }
    let p ← if d.dflts.isEmpty then pure p else
      if p.kind == .leaf && d.dflts.length == 1 && !p.dflts.isEmpty then pure { p with dflts := d.dflts } else .error .fail
    let p ← match d.config with
      | none => pure p
      | some c => if p.kind == .case then .error .fail else pure { p with config := some c }
    let p ← match d.mand with
      | none => pure p
      | some m => if p.kind == .leaf || p.kind == .choice then pure { p with mand := some m } else .error .fail
    let p ← match d.min with
      | none => pure p
      | some n => if !(p.kind == .leaflist || p.kind == .list) || !p.setMin then .error .fail else pure { p with min := n }
    match d.max with
      | none => pure p
      | some n => if !(p.kind == .leaflist || p.kind == .list) || !p.setMax then .error .fail else pure { p with max := n }

def applyDeviates : List Deviate → Props → Except Err Props
  | [], p => .ok p
  | d :: rest, p => do let p ← applyDeviate d p; applyDeviates rest p

/-- the refines of `lys_compile_node_deviations_refines`: scan (from the end when F80 is repaired), apply every refine whose
context node + nodeid is this node, remove it keeping the order of the others -/
def takeRefines (cfg : Cfg) (path : Path) (cur : String) (rfns : List URfn) (p : Props) : Except Err (List URfn × Props) :=
  let isT (r : URfn) : Bool := r.ctx ++ r.nodeid.map (fun n => (cur, n)) == path
  let hit := rfns.filter isT
  let rest := rfns.filter (fun r => !isT r)
  let order := if cfg.rfnReverse then hit.reverse else hit
  do
    let p ← order.foldlM (fun q r => applyRefines r.rfns q) p
    pure (rest, p)

/-- `ly_set_rm_index`: the last element moves into the hole -/
def rmSwapIdx {α} (l : List α) (i : Nat) : List α :=
  match l.getLast? with
  | none => l
  | some last => if i + 1 ≥ l.length then l.take i else (l.take i ++ [last] ++ (l.drop (i + 1)).dropLast)

/-- the deviations of `lys_compile_node_deviations_refines`: the FIRST structure whose target is this node -/
def takeDevs (path : Path) (devs : List TDev) (p : Props) : Except Err (List TDev × Props × Bool) :=
  match devs.findIdx? (·.path == path) with
  | none => .ok (devs, p, false)
  | some i =>
    let dv := devs[i]!
    if dv.devs.any (·.kind == .notSupported) then .ok (rmSwapIdx devs i, p, true)
    else do
      let p ← applyDeviates dv.devs p
      pure (rmSwapIdx devs i, p, false)

/-! ### flags -/

/-- `lys_compile_config` (outside RPC/notification) -/
def compileConfig (parent : Option PInfo) (c : Option Bool) : Except Err Bool :=
  let v := match c with
    | some b => b
    | none => match parent with | some pi => pi.config | none => true
  match parent with
  | some pi => if !pi.config && v then .error .fail else .ok v
  | none => .ok v

/-- `lys_compile_status` -/
def compileStatus (parsed inherited parent : Nat) : Except Err Nat :=
  if parent != 0 && parsed != 0 && parent > parsed then .error .fail
  else if inherited != 0 && parsed != 0 && inherited > parsed then .error .fail
  else if parent != 0 && inherited != 0 && parent > inherited then .error .fail
  else if parsed != 0 then .ok parsed
  else if inherited != 0 then .ok inherited
  else if parent != 0 then .ok parent
  else .ok 1

def enabled (feats : List String) (iffs : List String) : Bool := iffs.all feats.contains

/-! ### connecting a node: `lys_compile_node_connect` + `lys_compile_node_uniqness` -/

/-- which sibling list of the parent a node lives in: children, actions, notifications -/
def Kind.cls (k : Kind) : Nat := if k == .action then 1 else if k == .notif then 2 else 0

/-- position of a new node in ONE sibling list of `parentMod`'s node -/
def connectPos1 (children : List CNode) (parentMod : String) (n : CNode) : List CNode :=
  match children.getLast? with
  | none => [n]
  | some last =>
    if last.d.mod == n.d.mod then children ++ [n]
    else if parentMod == n.d.mod then
      let own := children.takeWhile (·.d.mod == n.d.mod)
      own ++ [n] ++ children.drop own.length
    else
      -- walk back from the last child: after the last node of our module / of a "smaller" module / of the parent's module
      let rev := children.reverse
      let k := (rev.findIdx? fun a => a.d.mod == n.d.mod || decide (a.d.mod < n.d.mod) || a.d.mod == parentMod).getD rev.length
      let cut := children.length - k
      children.take cut ++ [n] ++ children.drop cut

/-- the children are kept as children ++ actions ++ notifications (the order of the dump); a new node goes into its own list -/
def connectPos (children : List CNode) (parentMod : String) (n : CNode) : List CNode :=
  children.filter (fun c => decide (c.d.kind.cls < n.d.kind.cls)) ++
  connectPos1 (children.filter (fun c => c.d.kind.cls == n.d.kind.cls)) parentMod n ++
  children.filter (fun c => decide (c.d.kind.cls > n.d.kind.cls))

mutual
/-- the data nodes inside a choice that a sibling of the choice is compared with (`lys_getnext` without WITHCHOICE) -/
def dataIn : Nat → CNode → List QName
  | 0, _ => []
  | f + 1, c => dataInCases f c.children
def dataInCases : Nat → List CNode → List QName
  | 0, _ => []
  | _, [] => []
  | f + 1, cs :: rest => dataInKids f cs.children ++ dataInCases f rest
def dataInKids : Nat → List CNode → List QName
  | 0, _ => []
  | _, [] => []
  | f + 1, k :: rest => (if k.d.kind == .choice then dataIn f k else [k.qname]) ++ dataInKids f rest
end

def depthFuel : Nat := 64

/-- what a later sibling is compared with -/
def vis (c : CNode) : List QName := c.qname :: (if c.d.kind == .choice then dataIn depthFuel c else [])

/-- names inside a choice in connect order, with the flag "is a (nested) choice name": checked against the earlier ones -/
def innerOk (outer : List QName) (c : CNode) : Bool :=
  let names := dataIn depthFuel c
  let rec go (seen : List QName) : List QName → Bool
    | [] => true
    | n :: rest => !(outer.contains n) && !(seen.contains n) && go (n :: seen) rest
  go [] names

def casesOk (c : CNode) : Bool :=
  let ns := c.children.map (·.qname)
  let rec go : List QName → Bool
    | [] => true
    | n :: rest => !(rest.contains n) && go rest
  go ns

/-- uniqueness of everything inside the new node that shares the data-sibling namespace of `acc`, then the insertion.
`acc` are the children of a data parent (container, list, case is handled by its choice, top level). -/
def connect (acc : List CNode) (parentMod : String) (n : CNode) : Except Err (List CNode) :=
  let outer := (acc.map vis).flatten
  if outer.contains n.qname then .error .fail
  else if n.d.kind == .choice && !(innerOk outer n) then .error .fail
  else .ok (connectPos acc parentMod n)

def connectAll (acc : List CNode) (parentMod : String) : List CNode → Except Err (List CNode)
  | [] => .ok acc
  | n :: rest => do let a ← connect acc parentMod n; connectAll a parentMod rest

/-- cases under a choice: only the case names are compared (`exclude->nodetype == LYS_CASE`) -/
def connectCase (acc : List CNode) (parentMod : String) (n : CNode) : Except Err (List CNode) :=
  if (acc.map (·.qname)).contains n.qname then .error .fail else .ok (connectPos acc parentMod n)

def distinctStr : List String → Bool
  | [] => true
  | s :: rest => !(rest.contains s) && distinctStr rest

def addWhens (k : Nat) (c : CNode) : CNode := .mk { c.d with whens := c.d.whens + k } c.children
def setDisabled (c : CNode) : CNode := .mk { c.d with disabled := true } c.children

/-! ### the node compiler -/

structure Env where
  cfg : Cfg
  sch : Schema
  deriving Inhabited

def rmTAug (cfg : Cfg) (augs : List TAug) (id : Nat) : List TAug :=
  match augs.findIdx? (·.id == id) with
  | none => augs
  | some i => if cfg.augRmSwap then rmSwapIdx augs i else augs.eraseIdx i

def addRefines (st : St) (ctx : Path) (id : Nat) : List Refine → St
  | [] => st
  | r :: rest =>
    let st' := match st.rfns.findIdx? (fun x => x.usesId == id && x.nodeid == r.path) with
      | some i => { st with rfns := st.rfns.modify i (fun x => { x with rfns := x.rfns ++ [r] }) }
      | none => { st with rfns := st.rfns ++ [{ ctx := ctx, nodeid := r.path, rfns := [r], usesId := id }] }
    addRefines st' ctx id rest

def mkLeafType (env : Env) (p : Props) : Except Err (CType × Option String × List String) := do
  let tr ← compileType env.cfg env.sch.typedefs p.typ
  let units := match p.units with | some u => some u | none => tr.units
  .ok (tr.typ, units, match tr.dflt with | some d => [d] | none => [])

/-- sibling list a parsed statement ends up in (a `uses` is handled where it stands, among the data nodes) -/
def PNode.cls : PNode → Nat
  | .node p _ => p.kind.cls
  | .uses _ _ => 0
def dataOf (kids : List PNode) : List PNode := kids.filter (·.cls == 0)
/-- the actions, then the notifications: compiled after the data children (and, in a container / list, after its augments) -/
def opsOf (kids : List PNode) : List PNode := kids.filter (·.cls == 1) ++ kids.filter (·.cls == 2)

/-- what `lys_compile_node_` settles before the node-type specific part: refines and deviations applied to the parsed
statements, if-feature, config, status -/
structure Head where
  p : Props            -- the parsed node after refines and deviations
  d0 : CData           -- generic part of the compiled node
  cxk : Cx             -- context of the children
  dis : Bool           -- LYS_COMPILE_DISABLED while compiling it
  deriving Inhabited

def nodeHead (env : Env) (st : St) (cx : Cx) (inh : Nat) (p0 : Props) : Except Err (St × Head) :=
  -- lys_compile_node_: deviations and refines first
  let path := cx.ppath ++ [(cx.cur, p0.name)]
  match takeRefines env.cfg path cx.cur st.rfns p0 with
  | .error e => .error e
  | .ok (rfns, p1) =>
  match takeDevs path st.devs p1 with
  | .error e => .error e
  | .ok (devs, p, notSupp) =>
    let st := { st with rfns := rfns, devs := devs }
    let en := enabled env.sch.features p.iffs || cx.grp
    let notSupp := notSupp && !cx.grp
    let selfDis := (notSupp || !en) && !cx.disabled
    let dis := cx.disabled || notSupp || !en
    -- an action / notification inside an RPC, action or notification is an error (`lys_compile_node`)
    if (p.kind == .action || p.kind == .notif) && cx.io != 0 then .error .fail else
    -- LYS_COMPILE_NO_CONFIG: config statements are ignored, the node has no config flag
    let noCfg := cx.noCfg || p.kind == .action || p.kind == .notif
    match (if noCfg then .ok false else compileConfig cx.parent (if p.kind == .case then none else p.config)), compileStatus p.status inh (match cx.parent with | some pi => pi.status | none => 0) with
    | .error e, _ => .error e
    | _, .error e => .error e
    | .ok cfgv, .ok stv =>
      let me : PInfo := { mod := cx.cur, name := p.name, kind := p.kind, config := cfgv, status := stv }
      let io : Nat := if p.kind == .input then 1 else if p.kind == .output then 2 else if p.kind == .notif then 3 else cx.io
      let cxk : Cx := { cx with ppath := path, parent := some me, disabled := dis, noCfg := noCfg, io := io }
      let d0 : CData := { mod := cx.cur, name := p.name, kind := p.kind, config := cfgv, status := stv, mand := false,
                          presence := false, whens := p.whens, disabled := selfDis, dflts := [], min := 0, max := 0, typ := none, units := none,
                          noCfg := noCfg }
      .ok (st, { p := p, d0 := d0, cxk := cxk, dis := dis })

/-- `lys_compile_node_leaf` / `_leaflist` (+ the default part of `lys_compile_unres_depset`) -/
def leafBody (env : Env) (cx : Cx) (h : Head) : Except Err CNode :=
  let p := h.p
  match mkLeafType env p with
  | .error e => .error e
  | .ok (t, units, tdf) =>
    if p.kind == .leaf then
      let mand := p.mand == some true
      if !p.dflts.isEmpty && mand then .error .fail else
      -- lys_compile_unres_leaf_dlft: the type's default is ignored for a mandatory leaf; values are checked unless disabled
      let dfl := if !p.dflts.isEmpty then p.dflts else if mand then [] else tdf
      if !h.dis && !cx.grp && !(dfl.all (dfltValid t)) then .error .fail else
      .ok (.mk { h.d0 with mand := mand, dflts := dfl, typ := some t, units := units } [])
    else
      let mand := p.min > 0
      if !p.dflts.isEmpty && mand then .error .fail else
      if p.max != 0 && p.min > p.max then .error .fail else
      let dfl := if !p.dflts.isEmpty then p.dflts else if mand then [] else tdf
      if !h.dis && !cx.grp && !(dfl.all (dfltValid t)) then .error .fail else
      if !h.dis && !cx.grp && h.d0.config && !p.dflts.isEmpty && !distinctStr p.dflts then .error .fail else
      .ok (.mk { h.d0 with mand := mand, dflts := dfl, typ := some t, units := units, min := p.min, max := p.max } [])

/-- the node-type specific flags of an inner node once its children (and augments) are there:
`lys_compile_mandatory_parents` (a non-presence container is flagged by every mandatory child), list min/max, choice mandatory -/
def finishInner (h : Head) (acc : List CNode) : Except Err CNode :=
  let p := h.p
  match p.kind with
  | .container => .ok (.mk { h.d0 with presence := p.presence, mand := !p.presence && acc.any (·.d.mand) } acc)
  | .list => if p.max != 0 && p.min > p.max then .error .fail else .ok (.mk { h.d0 with mand := p.min > 0, min := p.min, max := p.max } acc)
  | .choice => .ok (.mk { h.d0 with mand := p.mand == some true } acc)
  | _ => .ok (.mk h.d0 acc)

mutual
/-- `lys_compile_node` for one parsed child: the new compiled nodes (one, or those of a `uses`) -/
def compileNode (env : Env) : Nat → St → Cx → Nat → PNode → Except Err (St × List CNode)
  | 0, _, _, _, _ => .error .fuel
  | fuel + 1, st, cx, inh, .uses u augs =>
    -- lys_compile_uses
    match env.sch.groupings.find? (·.1 == u.grouping) with
    | none => .error .fail
    | some (_, body) =>
      if cx.stack.contains u.grouping then .error .fail else
      let uid0 := st.next
      -- lys_precompile_uses_augments_refines: augments first, then refines
      let st := { st with used := if st.used.contains u.grouping then st.used else u.grouping :: st.used,
                          next := uid0 + 1 + augs.length,
                          uaugs := st.uaugs ++ augs.zipIdx.map fun (a, k) =>
                            { uid := uid0 + 1 + k, ctx := cx.ppath, nodeid := a.1.path.map (·.2), aug := a, usesId := uid0 } }
      let st := addRefines st cx.ppath uid0 u.refines
      let pst := match cx.parent with | some pi => pi.status | none => 0
      match compileStatus u.status inh pst with
      | .error e => .error e
      | .ok uflags =>
        let en := enabled env.sch.features u.iffs || cx.grp
        let udis := !en && !cx.disabled
        let cx' := { cx with disabled := cx.disabled || !en, stack := u.grouping :: cx.stack }
        -- grouping children, then its actions, then its notifications (three `lys_compile_uses_children` calls)
        match compileNodes env fuel st cx' uflags (dataOf body ++ opsOf body) with
        | .error e => .error e
        | .ok (st, cs) =>
          let cs := cs.map fun c => (if udis then setDisabled else id) (addWhens u.whens c)
          if st.uaugs.any (·.usesId == uid0) || st.rfns.any (·.usesId == uid0) then .error .fail
          else .ok (st, cs)
  | fuel + 1, st, cx, inh, .node p0 kids =>
    match nodeHead env st cx inh p0 with
    | .error e => .error e
    | .ok (st, h) =>
      if leafish h.p.kind then
        match leafBody env cx h with
        | .error e => .error e
        | .ok c => .ok (st, [c])
      else
        -- the children: cases of a choice, or the data children connected in statement order
        let body : Except Err (St × List CNode) :=
          if h.p.kind == .choice then compileChoiceKids env fuel st h.cxk [] kids
          else
            match compileNodes env fuel st h.cxk 0 (dataOf kids) with
            | .error e => .error e
            | .ok (st, cs) =>
              match connectAll [] cx.cur cs with
              | .error e => .error e
              | .ok acc => .ok (st, acc)
        match body with
        | .error e => .error e
        | .ok (st, acc) =>
          -- then the augments of this node
          match applyAugs env fuel st h.cxk acc with
          | .error e => .error e
          | .ok (st, acc) =>
            -- then its actions and notifications (`lys_compile_node_container` / `_list`)
            match compileNodes env fuel st h.cxk 0 (opsOf kids) with
            | .error e => .error e
            | .ok (st, cs2) =>
              match connectAll acc cx.cur cs2 with
              | .error e => .error e
              | .ok acc =>
                match finishInner h acc with
                | .error e => .error e
                | .ok c => .ok (st, [c])

/-- children of one parsed parent, in statement order -/
def compileNodes (env : Env) : Nat → St → Cx → Nat → List PNode → Except Err (St × List CNode)
  | 0, _, _, _, _ => .error .fuel
  | _ + 1, st, _, _, [] => .ok (st, [])
  | fuel + 1, st, cx, inh, n :: rest =>
    match compileNode env fuel st cx inh n with
    | .error e => .error e
    | .ok (st, cs) =>
      match compileNodes env fuel st cx inh rest with
      | .error e => .error e
      | .ok (st, cs2) => .ok (st, cs ++ cs2)

/-- `lys_compile_node_choice_child`: a case, or the shorthand (an implicit case named after its only child, whose status it copies) -/
def compileChoiceKids (env : Env) : Nat → St → Cx → List CNode → List PNode → Except Err (St × List CNode)
  | 0, _, _, _, _ => .error .fuel
  | _ + 1, st, _, acc, [] => .ok (st, acc)
  | fuel + 1, st, cx, acc, n :: rest =>
    let one : Except Err (St × List CNode) :=
      match n with
      | .uses _ _ => .error .fail          -- outside the DSL
      | .node p kids =>
        if p.kind == .case then compileNode env fuel st cx 0 n
        else
          match compileNode env fuel st cx 0 (.node { kind := .case, name := p.name } [.node p kids]) with
          | .error e => .error e
          | .ok (st, cs) =>
            .ok (st, cs.map fun c => match c.children.head? with
              | some k => .mk { c.d with status := k.d.status } c.children
              | none => c)
    match one with
    | .error e => .error e
    | .ok (st, cs) =>
      match cs.foldlM (fun a c => connectCase a cx.cur c) acc with
      | .error e => .error e
      | .ok acc => compileChoiceKids env fuel st cx acc rest

/-- `lys_compile_node_augments` for the node described by `cx` (path `cx.ppath`, children `acc`): the uses-augments from
the end, then the top-level ones with the restart after every application -/
def applyAugs (env : Env) : Nat → St → Cx → List CNode → Except Err (St × List CNode)
  | 0, _, _, _ => .error .fuel
  | fuel + 1, st, cx, acc =>
    let isU (a : UAug) : Bool := a.ctx ++ a.nodeid.map (fun n => (cx.cur, n)) == cx.ppath
    match (st.uaugs.reverse.find? isU) with
    | some ua =>
      let st := { st with uaugs := st.uaugs.filter fun a => a.uid != ua.uid }
      match compileAug env fuel st cx ua.aug true acc with
      | .error e => .error e
      | .ok (st, acc) => applyAugs env fuel st cx acc
    | none =>
      match st.augs.find? (fun a => a.aug.1.path == cx.ppath) with
      | none => .ok (st, acc)
      | some ta =>
        match compileAug env fuel st { cx with cur := ta.owner, stack := if env.cfg.fixF390 then [] else cx.stack } ta.aug false acc with
        | .error e => .error e
        | .ok (st, acc) =>
          let st := { st with augs := rmTAug env.cfg st.augs ta.id }
          applyAugs env fuel st cx acc

/-- `lys_compile_augment` + `lys_compile_augment_children`: the children go below the target described by `cx` -/
def compileAug (env : Env) : Nat → St → Cx → PAug → Bool → List CNode → Except Err (St × List CNode)
  | 0, _, _, _, _, _ => .error .fuel
  | fuel + 1, st, cx, (h, kids), isUses, acc =>
    let tgt := cx.parent.getD default
    let en := enabled env.sch.features h.iffs || cx.grp
    let adis := !en && !cx.disabled
    let cx' := { cx with disabled := cx.disabled || !en }
    let allowMand := h.whens > 0 || tgt.kind == .choice || cx.cur == tgt.mod
    if tgt.kind == .leaf || tgt.kind == .leaflist || tgt.kind == .action then .error .fail else
    -- actions / notifications only into containers and lists
    if !(tgt.kind == .container || tgt.kind == .list) && kids.any (fun k => match k with | .node p _ => p.kind == .action || p.kind == .notif | _ => false) then .error .fail else
    if tgt.kind != .choice && kids.any (fun k => match k with | .node p _ => p.kind == .case | _ => false) then .error .fail else
    let r : Except Err (St × List CNode × List CNode) :=
      if tgt.kind == .choice then
        match compileChoiceKids env fuel st cx' [] kids with
        | .error e => .error e
        | .ok (st, cs) => .ok (st, cs, [])
      else
        match compileNodes env fuel st cx' h.status (dataOf kids ++ opsOf kids) with
        | .error e => .error e
        | .ok (st, cs) => .ok (st, [], cs)
    let _ := isUses
    match r with
    | .error e => .error e
    | .ok (st, cases, cs) =>
      let fix (c : CNode) : CNode := (if adis then setDisabled else id) (addWhens h.whens c)
      let news := (cases ++ cs).map fix
      if !allowMand && news.any (fun c => c.d.config && c.d.mand) then .error .fail else
      if tgt.kind == .choice then
        match news.foldlM (fun a c => connectCase a tgt.mod c) acc with
        | .error e => .error e
        | .ok acc => .ok (st, acc)
      else
        match connectAll acc tgt.mod news with
        | .error e => .error e
        | .ok acc => .ok (st, acc)
end

/-! ## a module, a module set -/

/-- `lys_precompile_own_augments`: the augments of the modules in `augmented_by` (in that order) whose target is in `m` -/
def ownAugs (sch : Schema) (m : String) (augBy : List String) : List TAug :=
  let all := augBy.flatMap fun am =>
    match sch.mods.find? (·.name == am) with
    | none => []
    | some mm => (mm.augments.filter fun a => (a.1.path.head?.map (·.1)) == some m).map fun a => (am, a)
  all.zipIdx.map fun ((am, a), k) => { id := k, owner := am, aug := a }

def addDev (devs : List TDev) (d : Deviation) : List TDev :=
  match devs.findIdx? (·.path == d.path) with
  | some i => devs.modify i fun x => { x with devs := x.devs ++ d.deviates, count := x.count + 1 }
  | none => devs ++ [{ path := d.path, devs := d.deviates }]

/-- `lys_precompile_own_deviations` -/
def ownDevs (sch : Schema) (m : String) (devBy : List String) : Except Err (List TDev) :=
  let ds := devBy.flatMap fun dm =>
    match sch.mods.find? (·.name == dm) with
    | none => []
    | some mm => mm.deviations.filter fun d => (d.path.head?.map (·.1)) == some m
  let devs := ds.foldl addDev []
  if devs.any (fun x => x.devs.any (·.kind == .notSupported) && x.count > 1) then .error .fail else .ok devs

mutual
/-- the disabled nodes are removed when the dep set is finished (`lys_compile_unres_depset`); with fixes/F392.diff the
mandatory flag of a container that lost its mandatory children is cleared (`lys_compile_mandatory_parents(parent, 0)`) -/
def pruneNode (fix : Bool) : Nat → CNode → CNode
  | 0, c => c
  | f + 1, .mk d cs =>
    let k := pruneList fix f cs
    .mk (if fix && d.kind == .container then { d with mand := d.mand && k.any (·.d.mand) } else d) k
def pruneList (fix : Bool) : Nat → List CNode → List CNode
  | 0, l => l
  | _, [] => []
  | f + 1, c :: rest =>
    if c.d.disabled then
      -- the input / output of an operation is embedded in it: `deviate not-supported` removes its children, the node stays
      if c.d.kind == .input || c.d.kind == .output then .mk c.d [] :: pruneList fix f rest else pruneList fix f rest
    else pruneNode fix f c :: pruneList fix f rest
end

mutual
def sizeP : Nat → PNode → Nat
  | 0, _ => 1
  | f + 1, .node _ k => 1 + sizePs f k
  | f + 1, .uses _ a => 1 + sizeAs f a
def sizePs : Nat → List PNode → Nat
  | 0, _ => 1
  | _, [] => 1
  | f + 1, n :: r => sizeP f n + sizePs f r
def sizeAs : Nat → List PAug → Nat
  | 0, _ => 1
  | _, [] => 1
  | f + 1, a :: r => 1 + sizePs f a.2 + sizeAs f r
end

/-- generous fuel: every recursive call of the compiler consumes one unit; groupings are re-instantiated at most
`(#groupings + 1)` deep and the whole text of the schema is visited at most once per level and pending augment -/
def fuelFor (sch : Schema) : Nat :=
  let txt := sch.mods.foldl (fun a m => a + sizePs 1000 m.data + sizeAs 1000 m.augments) 0 +
             sch.groupings.foldl (fun a g => a + sizePs 1000 g.2) 0
  (txt + 4) * (sch.groupings.length + 2) * 4 + 64

def checkGroupings (env : Env) (fuel : Nat) (st : St) (m : String) : List (String × List PNode) → Except Err St
  | [] => .ok st
  | (g, _) :: rest =>
    if st.used.contains g then checkGroupings env fuel st m rest else
    let fake : PInfo := { mod := m, name := "fake", kind := .container, config := true, status := 1 }
    match compileNode env fuel st { cur := m, ppath := [(m, "fake")], parent := some fake, grp := true } 0 (.uses { grouping := g } []) with
    | .error e => .error e
    | .ok (st, cs) =>
      match connectAll [] m cs with
      | .error e => .error e
      | .ok _ => checkGroupings env fuel st m rest

/-- `lys_compile` of one module, before the removal of the disabled nodes -/
def compileModuleRaw (env : Env) (fuel : Nat) (m : Module) (augBy devBy : List String) : Except Err (List CNode) := do
  let devs ← ownDevs env.sch m.name devBy
  let st : St := { augs := ownAugs env.sch m.name augBy, devs := devs }
  let (st, cs) ← compileNodes env fuel st { cur := m.name } 0 (dataOf m.data ++ opsOf m.data)
  let top ← connectAll [] m.name cs
  -- the groupings nobody instantiated are validated in a fake container (`lys_compile_grouping`)
  let st ← if (env.sch.mods.head?.map (·.name)) == some m.name then checkGroupings env fuel st m.name env.sch.groupings else pure st
  -- lys_compile_unres_mod: every augment and deviation must have found its target
  if !st.augs.isEmpty || !st.devs.isEmpty then .error .fail else .ok top

def compileModule (env : Env) (fuel : Nat) (m : Module) (augBy devBy : List String) : Except Err (List CNode) := do
  let top ← compileModuleRaw env fuel m augBy devBy
  .ok (pruneList env.cfg.fixF392 1000 top)

/-! ### load order: who is in `augmented_by` / `deviated_by`, in which order (`lys_precompile_augments_deviations`) -/

structure Links where
  implemented : List String := []
  augBy : List (String × List String) := []
  devBy : List (String × List String) := []
  deriving Inhabited

def addRef (l : List (String × List String)) (target m : String) : List (String × List String) :=
  match l.findIdx? (·.1 == target) with
  | some i => l.modify i fun x => if x.2.contains m then x else (x.1, x.2 ++ [m])
  | none => l ++ [(target, [m])]

def pathMods (p : Path) : List String := p.foldl (fun a q => if a.contains q.1 then a else a ++ [q.1]) []

def implement (sch : Schema) : Nat → Links → String → Links
  | 0, lk, _ => lk
  | fuel + 1, lk, m =>
    if lk.implemented.contains m then lk else
    match sch.mods.find? (·.name == m) with
    | none => lk
    | some mm =>
      let lk := { lk with implemented := lk.implemented ++ [m] }
      let lk := mm.augments.foldl (fun (lk : Links) a => match a.1.path.head? with
        | some q => { lk with augBy := addRef lk.augBy q.1 m } | none => lk) lk
      let lk := mm.deviations.foldl (fun (lk : Links) d => match d.path.head? with
        | some q => { lk with devBy := addRef lk.devBy q.1 m } | none => lk) lk
      let set := (mm.augments.map (·.1.path) ++ mm.deviations.map (·.path)).foldl
        (fun a p => (pathMods p).foldl (fun a x => if a.contains x then a else a ++ [x]) a) []
      set.foldl (fun lk x => if x == m then lk else implement sch fuel lk x) lk

def links (sch : Schema) (order : List String) : Links :=
  order.foldl (fun lk m => implement sch (sch.mods.length + 1) lk m) {}

def lookupL (l : List (String × List String)) (m : String) : List String := (l.find? (·.1 == m)).map (·.2) |>.getD []

/-- the whole set, loaded in `order`: the compiled data of every module (in the order of `sch.mods`) -/
def compileSet (cfg : Cfg) (sch : Schema) (order : List String) : Except Err (List (String × List CNode)) :=
  let lk := links sch order
  let env : Env := { cfg := cfg, sch := sch }
  sch.mods.mapM fun m => do
    let cs ← compileModule env (fuelFor sch) m (lookupL lk.augBy m.name) (lookupL lk.devBy m.name)
    pure (m.name, cs)

end LyModel.Compile
