import LyModel.Compile.Model
/-! RFC 7950 §7.13 meaning of `uses`: the grouping body is copied to the place of the `uses`, the refines are applied to the
copy (inner uses first, the outer uses refines the already refined result), the uses-augments are spliced into it, and the
`when` / `if-feature` / `status` of the `uses` go to every copied top node.  `expand` removes every `uses` (and with them
the groupings) of a module set this way; top-level augments, deviations and typedefs stay (they are properties of the
construct-free schema that `compile` handles by `takeDevs` / `applyAugs` / `compileType`). -/
namespace LyModel.Compile

/-- status of a `uses` / `augment` pushed onto a copied node (`lys_compile_status`: an inherited schema-only status
must not be "worse" than the explicit one) -/
def pushStatus (inh : Nat) (s : Nat) : Except Err Nat :=
  if s != 0 then (if inh != 0 && inh > s then .error .fail else .ok s) else .ok inh

def pushHdr (whens : Nat) (iffs : List String) (status : Nat) : PNode → Except Err PNode
  | .node p kids => do
    let s ← pushStatus status p.status
    .ok (.node { p with whens := p.whens + whens, iffs := p.iffs ++ iffs, status := s } kids)
  | n => .ok n

/-- the shorthand case made explicit: a case named after its only child, with the child's status (which
`lys_compile_node_choice_child` copies) -/
def wrapCase : PNode → PNode
  | .node p kids => if p.kind == .case then .node p kids else .node { kind := .case, name := p.name, status := p.status } [.node p kids]
  | n => n

/-- change the node at a relative path -/
def modifyAt (f : Props → Except Err Props) : Nat → List String → List PNode → Except Err (List PNode)
  | 0, _, _ => .error .fuel
  | _, [], _ => .error .fail
  | _, _ :: _, [] => .error .fail
  | fuel + 1, seg :: rest, n :: ns =>
    match n with
    | .node p kids =>
      if p.name == seg then
        (if rest.isEmpty then do let p' ← f p; .ok (.node p' kids :: ns)
         else do let k ← modifyAt f fuel rest kids; .ok (.node p k :: ns))
      else do let r ← modifyAt f fuel (seg :: rest) ns; .ok (n :: r)
    | _ => do let r ← modifyAt f fuel (seg :: rest) ns; .ok (n :: r)

/-- append children below the node at a relative path -/
def insertAt (add : Kind → Except Err (List PNode)) : Nat → List String → List PNode → Except Err (List PNode)
  | 0, _, _ => .error .fuel
  | _, [], _ => .error .fail
  | _, _ :: _, [] => .error .fail
  | fuel + 1, seg :: rest, n :: ns =>
    match n with
    | .node p kids =>
      if p.name == seg then
        (if rest.isEmpty then do let a ← add p.kind; .ok (.node p (kids ++ a) :: ns)
         else do let k ← insertAt add fuel rest kids; .ok (.node p k :: ns))
      else do let r ← insertAt add fuel (seg :: rest) ns; .ok (n :: r)
    | _ => do let r ← insertAt add fuel (seg :: rest) ns; .ok (n :: r)

mutual
def expandNode (sch : Schema) : Nat → List String → PNode → Except Err (List PNode)
  | 0, _, _ => .error .fuel
  | fuel + 1, stack, .node p kids => do
    let k ← expandNodes sch fuel stack kids
    .ok [.node p (if p.kind == .choice then k.map wrapCase else k)]
  | fuel + 1, stack, .uses u augs =>
    match sch.groupings.find? (·.1 == u.grouping) with
    | none => .error .fail
    | some (_, body) =>
      if stack.contains u.grouping then .error .fail else do
      let b ← expandNodes sch fuel (u.grouping :: stack) body
      let b ← u.refines.foldlM (fun b r => modifyAt (applyRefine r) 1000 r.path b) b
      let b ← expandAugs sch fuel stack augs b
      b.mapM (pushHdr u.whens u.iffs u.status)
def expandNodes (sch : Schema) : Nat → List String → List PNode → Except Err (List PNode)
  | 0, _, _ => .error .fuel
  | _ + 1, _, [] => .ok []
  | fuel + 1, stack, n :: rest => do
    let a ← expandNode sch fuel stack n
    let b ← expandNodes sch fuel stack rest
    .ok (a ++ b)
/-- the uses-augments of one `uses`, spliced into the copy in statement order -/
def expandAugs (sch : Schema) : Nat → List String → List PAug → List PNode → Except Err (List PNode)
  | 0, _, _, _ => .error .fuel
  | _ + 1, _, [], b => .ok b
  | fuel + 1, stack, (h, kids) :: rest, b => do
    let k ← expandNodes sch fuel stack kids
    let b ← insertAt (fun tk =>
      -- into a choice: the shorthand stays a shorthand (the header goes to the node, `compile` wraps it)
      if tk == .leaf || tk == .leaflist then .error .fail
      else if tk == .choice then (k.map wrapCase).mapM (pushHdr h.whens h.iffs 0)
      else k.mapM (pushHdr h.whens h.iffs h.status)) 1000 (h.path.map (·.2)) b
    expandAugs sch fuel stack rest b
end

mutual
/-- the groupings a list of statements refers to (through `uses`, at any depth, uses-augments included) -/
def usesIn : Nat → List PNode → List String
  | 0, _ => []
  | _, [] => []
  | f + 1, .node _ kids :: rest => usesIn f kids ++ usesIn f rest
  | f + 1, .uses u augs :: rest => u.grouping :: (usesInAugs f augs ++ usesIn f rest)
def usesInAugs : Nat → List PAug → List String
  | 0, _ => []
  | _, [] => []
  | f + 1, (_, kids) :: rest => usesIn f kids ++ usesInAugs f rest
end

/-- transitive closure over the grouping bodies -/
def reachG (sch : Schema) : Nat → List String → List String → List String
  | 0, _, seen => seen
  | _, [], seen => seen
  | f + 1, g :: rest, seen =>
    if seen.contains g then reachG sch f rest seen
    else
      let body := ((sch.groupings.find? (·.1 == g)).map (·.2)).getD []
      reachG sch f (usesIn 1000 body ++ rest) (g :: seen)

/-- every `uses` of a module set replaced by its meaning -/
def expand (_cfg : Cfg) (sch : Schema) (_order : List String) : Except Err Schema := do
  let fuel := fuelFor sch
  let mods ← sch.mods.mapM fun m => do
    let data ← expandNodes sch fuel [] m.data
    let augs ← m.augments.mapM fun (h, kids) => do
      let k ← expandNodes sch fuel [] kids
      pure (h, k)
    pure { m with data := data, augments := augs }
  -- the groupings nobody instantiates stay as they are (with the groupings THEY refer to): `lys_compile` validates unused
  -- groupings, so an invalid one still fails; the instantiated ones are gone with their `uses`
  let fromData := sch.mods.flatMap fun m => usesIn 1000 m.data ++ usesInAugs 1000 m.augments
  let used := reachG sch (fuel + 1000) fromData []
  let unusedG := (sch.groupings.filter fun g => !used.contains g.1)
  let needed := reachG sch (fuel + 1000) (unusedG.map (·.1)) []
  .ok { sch with mods := mods, groupings := sch.groupings.filter fun g => !used.contains g.1 || needed.contains g.1 }

end LyModel.Compile
