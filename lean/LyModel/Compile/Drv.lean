import LyModel.Compile.Model
import LyModel.Compile.Expand
import LyModel.Generated.IffSrc
import LyModel.Generated.CompileSrc
/-! driver ops of the schema-compiler core (reached through component `iff`, ops `cdump` / `cexpand` / `cflat`):
the DSL value arrives as a token stream (prefix notation, see tools/checks/c11exp.py `ser_*`), the reply is the canonical
dump of the compiled tree, one token per node -/
namespace LyModel.Compile.Drv
open LyModel LyModel.Compile

abbrev P := StateT (List String) Option

def tok : P String := fun s => match s with | [] => none | t :: r => some (t, r)
def nat : P Nat := do let t ← tok; match t.toNat? with | some n => pure n | none => failure
def optStr : P (Option String) := do
  let t ← tok
  if t == "~" then pure none else if t.startsWith "=" then pure (some (String.ofList (t.toList.drop 1))) else failure
def optBool : P (Option Bool) := do
  let t ← tok
  if t == "~" then pure none else if t == "0" then pure (some false) else if t == "1" then pure (some true) else failure
def optNat : P (Option Nat) := do
  let t ← tok
  if t == "~" then pure none else match t.toNat? with | some n => pure (some n) | none => failure
def bool : P Bool := do let t ← tok; if t == "1" then pure true else if t == "0" then pure false else failure

def many {α} (p : P α) : Nat → P (List α)
  | 0 => pure []
  | n + 1 => do let a ← p; let r ← many p n; pure (a :: r)
def counted {α} (p : P α) : P (List α) := do let n ← nat; many p n

def kindOf : String → Option Kind
  | "container" => some .container | "list" => some .list | "leaf" => some .leaf | "leaf-list" => some .leaflist
  | "choice" => some .choice | "case" => some .case | "action" => some .action | "input" => some .input | "output" => some .output
  | "notification" => some .notif | _ => none

def qname : P QName := do let m ← tok; let n ← tok; pure (m, n)

def refine : P Refine := do
  let path ← counted tok
  let t ← tok
  let dflts ← if t == "~" then pure none else match t.toNat? with
    | some n => do let d ← many tok n; pure (some d)
    | none => failure
  let config ← optBool
  let mand ← optBool
  let presence ← bool
  let min ← optNat
  let max ← optNat
  let iffs ← counted tok
  pure { path, dflts, config, mand, presence, min, max, iffs }

mutual
def pnode : Nat → P PNode
  | 0 => failure
  | f + 1 => do
    let t ← tok
    if t == "N" then do
      let k ← tok
      let some kind := kindOf k | failure
      let name ← tok
      let config ← optBool
      let status ← nat
      let mand ← optBool
      let presence ← bool
      let whens ← nat
      let iffs ← counted tok
      let dflts ← counted tok
      let min ← nat
      let max ← nat
      let setMin ← bool
      let setMax ← bool
      let ref ← tok
      let restr ← optStr
      let units ← optStr
      let kids ← pnodes f
      pure (.node { kind, name, config, status, mand, presence, whens, iffs, dflts, min, max, setMin, setMax, typ := { ref, restr }, units } kids)
    else if t == "U" then do
      let grouping ← tok
      let whens ← nat
      let status ← nat
      let iffs ← counted tok
      let refines ← counted refine
      let n ← nat
      let augs ← paugs f n
      pure (.uses { grouping, refines, whens, iffs, status } augs)
    else failure
def pnodes : Nat → P (List PNode)
  | 0 => failure
  | f + 1 => do let n ← nat; pmany f n
def pmany : Nat → Nat → P (List PNode)
  | 0, _ => failure
  | _, 0 => pure []
  | f + 1, n + 1 => do let a ← pnode f; let r ← pmany f n; pure (a :: r)
def paug : Nat → P PAug
  | 0 => failure
  | f + 1 => do
    let path ← counted qname
    let whens ← nat
    let status ← nat
    let iffs ← counted tok
    let kids ← pnodes f
    pure ({ path, whens, iffs, status }, kids)
def paugs : Nat → Nat → P (List PAug)
  | 0, _ => failure
  | _, 0 => pure []
  | f + 1, n + 1 => do let a ← paug f; let r ← paugs f n; pure (a :: r)
end

def devKindOf : String → Option DevKind
  | "not-supported" => some .notSupported | "add" => some .add | "replace" => some .replace | "delete" => some .delete | _ => none

def deviate : P Deviate := do
  let k ← tok
  let some kind := devKindOf k | failure
  let dflts ← counted tok
  let config ← optBool
  let mand ← optBool
  let min ← optNat
  let max ← optNat
  let units ← optStr
  pure { kind, dflts, config, mand, min, max, units }

def deviation : P Deviation := do
  let path ← counted qname
  let deviates ← counted deviate
  pure { path, deviates }

def typedef : P Typedef := do
  let name ← tok
  let ref ← tok
  let restr ← optStr
  let dflt ← optStr
  let units ← optStr
  pure { name, typ := { ref, restr }, dflt, units }

def pmodule (f : Nat) : P Module := do
  let name ← tok
  let data ← pnodes f
  let n ← nat
  let augments ← paugs f n
  let deviations ← counted deviation
  pure { name, data, augments, deviations }

def schema (f : Nat) : P Schema := do
  let t ← tok
  if t != "S" then failure
  let features ← counted tok
  let typedefs ← counted typedef
  let groupings ← counted (do let n ← tok; let b ← pnodes f; pure (n, b))
  let mods ← counted (pmodule f)
  pure { typedefs, groupings, mods, features }

/-! ### serialisation (the inverse; used for `cexpand`) -/

def sOptStr : Option String → String | none => "~" | some s => "=" ++ s
def sOptBool : Option Bool → String | none => "~" | some true => "1" | some false => "0"
def sOptNat : Option Nat → String | none => "~" | some n => toString n
def sBool (b : Bool) : String := if b then "1" else "0"
def sList (l : List String) : List String := toString l.length :: l

def sRefine (r : Refine) : List String :=
  sList r.path ++ (match r.dflts with | none => ["~"] | some d => sList d) ++
  [sOptBool r.config, sOptBool r.mand, sBool r.presence, sOptNat r.min, sOptNat r.max] ++ sList r.iffs

mutual
def sNode : Nat → PNode → List String
  | 0, _ => []
  | f + 1, .node p kids =>
    ["N", p.kind.name, p.name, sOptBool p.config, toString p.status, sOptBool p.mand, sBool p.presence, toString p.whens] ++
    sList p.iffs ++ sList p.dflts ++ [toString p.min, toString p.max, sBool p.setMin, sBool p.setMax, p.typ.ref, sOptStr p.typ.restr,
    sOptStr p.units] ++ sNodes f kids
  | f + 1, .uses u augs =>
    ["U", u.grouping, toString u.whens, toString u.status] ++ sList u.iffs ++ [toString u.refines.length] ++
    (u.refines.map sRefine).flatten ++ [toString augs.length] ++ sAugs f augs
def sNodes : Nat → List PNode → List String
  | 0, _ => []
  | f + 1, l => toString l.length :: sMany f l
def sMany : Nat → List PNode → List String
  | 0, _ => []
  | _, [] => []
  | f + 1, n :: r => sNode f n ++ sMany f r
def sAugs : Nat → List PAug → List String
  | 0, _ => []
  | _, [] => []
  | f + 1, (h, kids) :: r =>
    (toString h.path.length :: (h.path.map fun q => [q.1, q.2]).flatten) ++ [toString h.whens, toString h.status] ++ sList h.iffs ++
    sNodes f kids ++ sAugs f r
end

def sDeviate (d : Deviate) : List String :=
  [match d.kind with | .notSupported => "not-supported" | .add => "add" | .replace => "replace" | .delete => "delete"] ++
  sList d.dflts ++ [sOptBool d.config, sOptBool d.mand, sOptNat d.min, sOptNat d.max, sOptStr d.units]

def sSchema (s : Schema) : List String :=
  ["S"] ++ sList s.features ++ [toString s.typedefs.length] ++
  (s.typedefs.map fun t => [t.name, t.typ.ref, sOptStr t.typ.restr, sOptStr t.dflt, sOptStr t.units]).flatten ++
  [toString s.groupings.length] ++ (s.groupings.map fun g => g.1 :: sNodes 1000 g.2).flatten ++
  [toString s.mods.length] ++ (s.mods.map fun m =>
    [m.name] ++ sNodes 1000 m.data ++ [toString m.augments.length] ++ sAugs 1000 m.augments ++ [toString m.deviations.length] ++
    (m.deviations.map fun d => (toString d.path.length :: (d.path.map fun q => [q.1, q.2]).flatten) ++ [toString d.deviates.length] ++
      (d.deviates.map sDeviate).flatten).flatten).flatten

/-! ### canonical dump -/

def showParts : Option (List Range.Part) → String
  | none => "-"
  | some ps => ",".intercalate (ps.map fun p => toString p.min ++ ".." ++ toString p.max)

def showNode (top : Bool) (path : String) (d : CData) : String :=
  "|".intercalate [path, if top && d.kind == .action then "RPC" else d.kind.name, if d.noCfg then "-" else if d.config then "W" else "R", toString d.status, if d.mand then "M" else "-",
    if d.presence then "P" else "-", if d.dflts.isEmpty then "-" else ",".intercalate d.dflts, toString d.min, toString d.max,
    match d.typ with | none => "-" | some t => t.base ++ ":" ++ showParts t.parts,
    sOptStr d.units, toString d.whens]

mutual
def dumpNode : Nat → String → CNode → List String
  | 0, _, _ => []
  | f + 1, pre, .mk d kids =>
    let path := pre ++ "/" ++ d.mod ++ ":" ++ d.name
    showNode (pre == "") path d :: dumpList f path kids
def dumpList : Nat → String → List CNode → List String
  | 0, _, _ => []
  | _, _, [] => []
  | f + 1, pre, c :: r => dumpNode f pre c ++ dumpList f pre r
end

def cfg : Cfg :=
  { rfx := { f30 := Generated.RANGE_FIX_F30, f51 := Generated.RANGE_FIX_F51 },
    rfnReverse := Generated.COMPILE_RFN_REVERSE, augRmSwap := Generated.COMPILE_AUG_RM_SWAP,
    fixF390 := Generated.COMPILE_FIX_F390, fixF392 := Generated.COMPILE_FIX_F392 }

def showErr : Err → String | .fail => "err Fail" | .fuel => "err Fuel"

def dumpSet (r : Except Err (List (String × List CNode))) : String :=
  match r with
  | .error e => showErr e
  | .ok ms =>
    let toks := (ms.map fun (m, cs) => ("M:" ++ m) :: dumpList 1000 "" cs).flatten
    "ok " ++ " ".intercalate toks

/-- `cdump <order,comma> <schema tokens…>` / `cflat …` (compile of the expansion) / `cexpand …` (the expansion itself) -/
def handle (op : String) (args : List String) : String :=
  match args with
  | ord :: rest =>
    match (schema rest.length).run rest with
    | some (sch, []) =>
      let order := if ord == "-" then sch.mods.map (·.name) else ord.splitOn ","
      if op == "cdump" then dumpSet (compileSet cfg sch order)
      else if op == "cflat" then
        match expand cfg sch order with
        | .error e => showErr e
        | .ok s' => dumpSet (compileSet cfg s' order)
      else if op == "cexpand" then
        match expand cfg sch order with
        | .error e => showErr e
        | .ok s' => "ok " ++ " ".intercalate (sSchema s')
      else "err BadOp"
    | _ => "err BadArg"
  | _ => "err BadArg"

end LyModel.Compile.Drv
