import LyModel.Compile.LemmasInv
/-! From the compile-time invariant `Good` to the two readable whole-tree predicates, through `compileModuleRaw`, the
removal of the disabled nodes and `compileSet`. -/
namespace LyModel.Compile

/-- a config-false node has no config-true child, at every level -/
def cfgLocal (d : CData) (kids : List CNode) : Prop := ∀ k ∈ kids, d.config = false → k.d.config = false
/-- a container is flagged mandatory iff it is a non-presence container with a mandatory child, at every level -/
def mandLocal (d : CData) (kids : List CNode) : Prop := d.kind = .container → d.mand = (!d.presence && kids.any (·.d.mand))

mutual
def Tree (R : CData → List CNode → Prop) : CNode → Prop
  | .mk d kids => R d kids ∧ TreeL R kids
def TreeL (R : CData → List CNode → Prop) : List CNode → Prop
  | [] => True
  | c :: r => Tree R c ∧ TreeL R r
end

theorem treeL_iff (R) (l : List CNode) : TreeL R l ↔ ∀ c ∈ l, Tree R c := by
  induction l with
  | nil => simp [TreeL]
  | cons a r ih => simp [TreeL, ih]

mutual
theorem good_tree_cfg : ∀ (c : CNode), Good c → Tree cfgLocal c
  | .mk d kids, h => by
    rw [good_mk] at h
    exact ⟨h.1.1, goodL_tree_cfg kids h.2⟩
theorem goodL_tree_cfg : ∀ (l : List CNode), GoodL l → TreeL cfgLocal l
  | [], _ => trivial
  | c :: r, h => ⟨good_tree_cfg c h.1, goodL_tree_cfg r h.2⟩
end

mutual
theorem good_tree_mand : ∀ (c : CNode), Good c → Tree mandLocal c
  | .mk d kids, h => by
    rw [good_mk] at h
    exact ⟨h.1.2, goodL_tree_mand kids h.2⟩
theorem goodL_tree_mand : ∀ (l : List CNode), GoodL l → TreeL mandLocal l
  | [], _ => trivial
  | c :: r, h => ⟨good_tree_mand c h.1, goodL_tree_mand r h.2⟩
end

/-! ### removal of the disabled nodes -/

/-- what pruning keeps of a node -/
def PruneRel (c c' : CNode) : Prop :=
  c'.d.config = c.d.config ∧ c'.d.kind = c.d.kind ∧ c'.d.presence = c.d.presence ∧ (c'.d.mand = true → c.d.mand = true)

theorem prune_cfg (fix : Bool) : ∀ f,
    (∀ c, Tree cfgLocal c → Tree cfgLocal (pruneNode fix f c) ∧ PruneRel c (pruneNode fix f c)) ∧
    (∀ l, TreeL cfgLocal l → TreeL cfgLocal (pruneList fix f l) ∧ ∀ k' ∈ pruneList fix f l, ∃ k ∈ l, PruneRel k k') := by
  intro f
  induction f with
  | zero =>
    refine ⟨fun c h => ?_, fun l h => ?_⟩
    · simp only [pruneNode]; exact ⟨h, rfl, rfl, rfl, id⟩
    · simp only [pruneList]; exact ⟨h, fun k' hk => ⟨k', hk, rfl, rfl, rfl, id⟩⟩
  | succ n ih =>
    refine ⟨fun c h => ?_, fun l h => ?_⟩
    · obtain ⟨d, cs⟩ := c
      simp only [pruneNode]
      simp only [Tree] at h
      obtain ⟨hk, hsub⟩ := ih.2 cs h.2
      refine ⟨?_, ?_⟩
      · simp only [Tree]
        refine ⟨?_, hk⟩
        intro k' hk' hc
        obtain ⟨k, hkm, hrel⟩ := hsub k' hk'
        rw [hrel.1]
        apply h.1 k hkm
        split at hc <;> simpa using hc
      · refine ⟨?_, ?_, ?_, ?_⟩ <;> simp only [CNode.d] <;> split <;> simp
        intro hm _ _ _; exact hm
    · cases l with
      | nil => simp only [pruneList]; exact ⟨trivial, fun k' hk => by cases hk⟩
      | cons c rest =>
        simp only [pruneList]
        simp only [TreeL] at h
        obtain ⟨hr1, hr2⟩ := ih.2 rest h.2
        split
        · split
          · rename_i hio
            refine ⟨⟨?_, hr1⟩, fun k' hk' => ?_⟩
            · simp [Tree, TreeL, cfgLocal]
            · rcases List.mem_cons.mp hk' with rfl | hk'
              · exact ⟨c, List.mem_cons_self, rfl, rfl, rfl, id⟩
              · obtain ⟨k, hk, hrel⟩ := hr2 k' hk'; exact ⟨k, List.mem_cons_of_mem _ hk, hrel⟩
          · exact ⟨hr1, fun k' hk' => by obtain ⟨k, hk, hrel⟩ := hr2 k' hk'; exact ⟨k, List.mem_cons_of_mem _ hk, hrel⟩⟩
        · obtain ⟨hc1, hc2⟩ := ih.1 c h.1
          refine ⟨⟨hc1, hr1⟩, fun k' hk' => ?_⟩
          rcases List.mem_cons.mp hk' with rfl | hk'
          · exact ⟨c, List.mem_cons_self, hc2⟩
          · obtain ⟨k, hk, hrel⟩ := hr2 k' hk'; exact ⟨k, List.mem_cons_of_mem _ hk, hrel⟩

theorem any_mand_of_sub {l l' : List CNode} (h : ∀ k' ∈ l', ∃ k ∈ l, PruneRel k k') (ha : l'.any (·.d.mand) = true) :
    l.any (·.d.mand) = true := by
  simp only [List.any_eq_true] at ha ⊢
  obtain ⟨k', hk', hm⟩ := ha
  obtain ⟨k, hk, hrel⟩ := h k' hk'
  exact ⟨k, hk, hrel.2.2.2 hm⟩

/-- with fixes/F392.diff pruning keeps the mandatory law -/
theorem prune_mand : ∀ f,
    (∀ c, Tree mandLocal c → Tree mandLocal (pruneNode true f c) ∧ PruneRel c (pruneNode true f c)) ∧
    (∀ l, TreeL mandLocal l → TreeL mandLocal (pruneList true f l) ∧ ∀ k' ∈ pruneList true f l, ∃ k ∈ l, PruneRel k k') := by
  intro f
  induction f with
  | zero =>
    refine ⟨fun c h => ?_, fun l h => ?_⟩
    · simp only [pruneNode]; exact ⟨h, rfl, rfl, rfl, id⟩
    · simp only [pruneList]; exact ⟨h, fun k' hk => ⟨k', hk, rfl, rfl, rfl, id⟩⟩
  | succ n ih =>
    refine ⟨fun c h => ?_, fun l h => ?_⟩
    · obtain ⟨d, cs⟩ := c
      simp only [pruneNode]
      simp only [Tree] at h
      obtain ⟨hk, hsub⟩ := ih.2 cs h.2
      have hany := @any_mand_of_sub cs (pruneList true n cs) hsub
      refine ⟨?_, ?_⟩
      · simp only [Tree]
        refine ⟨?_, hk⟩
        intro hkind
        by_cases hc : d.kind = .container
        · have h1 := h.1 hc
          simp only [hc, Bool.true_and, beq_self_eq_true, if_true] at hkind ⊢
          rw [h1]
          cases hp : d.presence <;> simp only [Bool.not_true, Bool.not_false, Bool.false_and, Bool.true_and]
          cases ha : (pruneList true n cs).any (·.d.mand)
          · simp
          · rw [hany ha]; rfl
        · simp only [Bool.true_and, beq_iff_eq, hc, if_false] at hkind
      · refine ⟨?_, ?_, ?_, ?_⟩ <;> simp only [CNode.d] <;> split <;> simp
        intro hm _ _ _; exact hm
    · cases l with
      | nil => simp only [pruneList]; exact ⟨trivial, fun k' hk => by cases hk⟩
      | cons c rest =>
        simp only [pruneList]
        simp only [TreeL] at h
        obtain ⟨hr1, hr2⟩ := ih.2 rest h.2
        split
        · split
          · rename_i hio
            refine ⟨⟨?_, hr1⟩, fun k' hk' => ?_⟩
            · simp only [Tree, TreeL, mandLocal, and_true]; intro hk; rw [hk] at hio; simp at hio
            · rcases List.mem_cons.mp hk' with rfl | hk'
              · exact ⟨c, List.mem_cons_self, rfl, rfl, rfl, id⟩
              · obtain ⟨k, hk, hrel⟩ := hr2 k' hk'; exact ⟨k, List.mem_cons_of_mem _ hk, hrel⟩
          · exact ⟨hr1, fun k' hk' => by obtain ⟨k, hk, hrel⟩ := hr2 k' hk'; exact ⟨k, List.mem_cons_of_mem _ hk, hrel⟩⟩
        · obtain ⟨hc1, hc2⟩ := ih.1 c h.1
          refine ⟨⟨hc1, hr1⟩, fun k' hk' => ?_⟩
          rcases List.mem_cons.mp hk' with rfl | hk'
          · exact ⟨c, List.mem_cons_self, hc2⟩
          · obtain ⟨k, hk, hrel⟩ := hr2 k' hk'; exact ⟨k, List.mem_cons_of_mem _ hk, hrel⟩

/-! ### a module -/

theorem compileModuleRaw_good (env : Env) (fuel : Nat) (m : Module) (a d : List String) (top : List CNode)
    (h : compileModuleRaw env fuel m a d = .ok top) : GoodL top := by
  unfold compileModuleRaw at h
  simp only [bind, Except.bind, pure, Except.pure] at h
  split at h
  · cases h
  · split at h
    · cases h
    · rename_i st cs hcs
      split at h
      · cases h
      · rename_i top' hconn
        have hinv : Inv true top' := inv_connectAll _ _ _ (Inv.nil _) (by have t := (stmt_all env fuel).2.1 _ _ _ _ _ _ hcs; exact t) hconn
        have hg : GoodL top' := (goodL_iff _).mpr fun c hc => (hinv c hc).2
        repeat' split at h
        all_goals first
          | (cases h; done)
          | (simp only [Except.ok.injEq] at h; subst h; exact hg)


theorem mapM_ok_mem {α β} (f : α → Except Err β) : ∀ (l : List α) (ms : List β), l.mapM f = .ok ms →
    ∀ x ∈ ms, ∃ a ∈ l, f a = .ok x := by
  intro l
  induction l with
  | nil => intro ms h x hx; simp [pure, Except.pure] at h; subst h; cases hx
  | cons a r ih =>
    intro ms h x hx
    simp only [List.mapM_cons, bind, Except.bind] at h
    cases hf : f a with
    | error e => simp [hf] at h
    | ok b =>
      simp only [hf] at h
      cases hr : List.mapM f r with
      | error e => simp [hr] at h
      | ok bs =>
        simp only [hr, pure, Except.pure, Except.ok.injEq] at h
        subst h
        rcases List.mem_cons.mp hx with rfl | hx
        · exact ⟨a, List.mem_cons_self, hf⟩
        · obtain ⟨a', ha', hfa⟩ := ih bs hr x hx
          exact ⟨a', List.mem_cons_of_mem _ ha', hfa⟩

theorem compileSet_mem (cfg : Cfg) (sch : Schema) (order : List String) (ms : List (String × List CNode))
    (h : compileSet cfg sch order = .ok ms) : ∀ x ∈ ms, ∃ (m : Module) (a d : List String) (top : List CNode),
      compileModuleRaw { cfg := cfg, sch := sch } (fuelFor sch) m a d = .ok top ∧ x.2 = pruneList cfg.fixF392 1000 top := by
  intro x hx
  unfold compileSet at h
  simp only at h
  obtain ⟨m, _, hm⟩ := mapM_ok_mem _ _ _ h x hx
  simp only [bind, Except.bind, compileModule] at hm
  cases hc : compileModuleRaw { cfg := cfg, sch := sch } (fuelFor sch) m (lookupL (links sch order).augBy m.name) (lookupL (links sch order).devBy m.name) with
  | error e => simp [hc] at hm
  | ok top =>
    simp only [hc, pure, Except.pure, Except.ok.injEq] at hm
    exact ⟨m, _, _, top, hc, by rw [← hm]⟩


end LyModel.Compile
