import LyModel.YangStr.Lex
/-! Facts about single bytes, proved by exhaustive evaluation over the 256 values. -/
namespace LyModel.YangStr
open LyModel.Utf8 LyModel.Generated

theorem forall_uint8 (P : UInt8 → Prop) (h : ∀ n : Fin 256, P (UInt8.ofNat n.val)) : ∀ b, P b := by
  intro b
  have := h ⟨b.toNat, b.toNat_lt⟩
  simpa using this

set_option maxRecDepth 100000 in
theorem byte_ascii_lt : ∀ b : UInt8, (b &&& 0x80 == 0) = true → b < 0x80 := by
  apply forall_uint8; decide

end LyModel.YangStr
