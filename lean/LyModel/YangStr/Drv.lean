import LyModel.YangStr.Lex
/-! driver ops of component `yangstr` (same ops as `harness/wb_yang.c`) -/
namespace LyModel.YangStr.Drv
open LyModel LyModel.YangStr

/-- C string view of a decoded argument: bytes before the first NUL -/
def cstr (b : Bytes) : Bytes := b.takeWhile (· != 0)

mutual
def serStmt : Stmt → String
  | .mk kw arg flags cs =>
    "S" ++ Hex.enc kw ++ ":" ++ (match arg with | some a => Hex.enc a | none => "N") ++ ":" ++ toString flags ++
      "{" ++ serStmts cs ++ "}"
def serStmts : List Stmt → String
  | [] => ""
  | s :: ss => serStmt s ++ serStmts ss
end

def tokName : Tok → String
  | .semi => "semi" | .lbrace => "lbrace" | .rbrace => "rbrace" | .kw => "kw" | .ext => "ext"

def handle (op : String) (args : List String) : String :=
  match op, args with
  | "encode", [h] =>
    match Hex.dec h with
    | some s => "ok " ++ Hex.enc (encode (cstr s))
    | none => "err BadHex"
  | "yprtext", [fmt, lvl, fl, nh, th] =>
    match lvl.toNat?, fl.toNat?, Hex.dec nh, Hex.dec th with
    | some l, some f, some n, some t => "ok " ++ Hex.enc (printText (fmt == "1") l f (cstr n) (cstr t))
    | _, _, _, _ => "err BadArg"
  | "qstring", [ind, h] =>
    match ind.toNat?, Hex.dec h with
    | some i, some s =>
      let s := cstr s
      match readQString i s with
      | .ok (w, ind', rest) => "ok " ++ Hex.enc w ++ " " ++ toString (s.length - rest.length) ++ " " ++ toString ind'
      | .error e => "err " ++ e.name
    | _, _ => "err BadArg"
  | "getarg", [mb, ind, h] =>
    match ind.toNat?, Hex.dec h with
    | some i, some s =>
      let s := cstr s
      match getArgument (mb == "1") i s with
      | .ok a => "ok " ++ (match a.word with | some w => Hex.enc w | none => "N") ++ " " ++ toString a.flags ++ " " ++
          toString (s.length - a.rest.length) ++ " " ++ toString a.ind
      | .error e => "err " ++ e.name
    | _, _ => "err BadArg"
  | "getkw", [ind, depth, h] =>
    match ind.toNat?, depth.toNat?, Hex.dec h with
    | some i, some d, some s =>
      let s := cstr s
      match getKeyword i d s with
      | .ok k => "ok " ++ tokName k.tok ++ " " ++ Hex.enc k.word ++ " " ++ toString (s.length - k.rest.length) ++ " " ++
          toString k.ind ++ " " ++ toString k.depth
      | .error e => "err " ++ e.name
    | _, _, _ => "err BadArg"
  | "stmts", [h] =>
    match Hex.dec h with
    | some s =>
      let s := cstr s
      let (ss, e) := parseTop (s.length + 1) 0 0 s
      "ok " ++ (if ss.isEmpty then "-" else serStmts ss) ++ " " ++ e.name
    | none => "err BadHex"
  | "prstmts", [fmt, lvl, h] =>
    match lvl.toNat?, Hex.dec h with
    | some l, some s =>
      let s := cstr s
      let (ss, e) := parseTop (s.length + 1) 0 0 s
      "ok " ++ Hex.enc (printStmts (fmt == "1") l ss) ++ " " ++ e.name
    | _, _ => "err BadArg"
  | _, _ => "err BadOp"

end LyModel.YangStr.Drv
