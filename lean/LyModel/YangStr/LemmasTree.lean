import LyModel.YangStr.LemmasStmt
/-!
`parse_ext_substmt` over what `yprp_stmt` printed: the statement-tree round trip.
-/
namespace LyModel.YangStr
open LyModel.Utf8 LyModel.Generated

/-- the keyword token lexes as itself when a blank or a newline follows (semantic side condition: holds for every YANG
    keyword and for `prefix:name` unless `lysp_match_kw` trips over the prefix, see `get_keyword`) -/
structure KwOk (kw : Bytes) : Prop where
  start : ∃ c r, kw = c :: r ∧ StartChar c
  lex : ∀ (ind depth : Nat) (sep : UInt8) (r : Bytes), (sep = 32 ∨ sep = 10) →
    ∃ tok ind', tok ≠ Tok.rbrace ∧
      kwAt ind depth (kw ++ sep :: r) = .ok { tok := tok, word := kw, ind := ind', depth := depth, rest := sep :: r }

/-- … and when `;` follows immediately (extension keywords, `input`, `output`) -/
def KwBareOk (kw : Bytes) : Prop :=
  ∀ (ind depth : Nat) (r : Bytes), ∃ tok ind', tok ≠ Tok.rbrace ∧
    kwAt ind depth (kw ++ 59 :: r) = .ok { tok := tok, word := kw, ind := ind', depth := depth, rest := 59 :: r }

/-- an argument that can stand without quotes -/
structure UnquotedOk (a : Bytes) : Prop where
  text : isYangText a = true
  ne : a ≠ []
  plain : ∀ b ∈ a, PlainByte b
  nocmt : NoCmt a

/-- the argument of a statement as the printer can reproduce it: absent; unquoted (flags 0) and able to stand without
    quotes; double-quoted without CR; single-quoted -/
def ArgOk (kw : Bytes) (arg : Option Bytes) (flags : Nat) (leaf : Bool) : Prop :=
  match arg with
  | none => flags = 0 ∧ (leaf = true → KwBareOk kw)
  | some a =>
    (flags = 0 ∧ UnquotedOk a) ∨
    (flags = LYS_DOUBLEQUOTED ∧ isYangText a = true ∧ 13 ∉ a) ∨
    (flags = LYS_SINGLEQUOTED ∧ isYangText a = true)

mutual
def WfStmt : Stmt → Prop
  | .mk kw arg flags kids => KwOk kw ∧ ArgOk kw arg flags kids.isEmpty ∧ WfStmts kids
def WfStmts : List Stmt → Prop
  | [] => True
  | s :: ss => WfStmt s ∧ WfStmts ss
end

mutual
/-- nesting depth of blocks -/
def height : Stmt → Nat
  | .mk _ _ _ kids => heightL kids + 1
def heightL : List Stmt → Nat
  | [] => 0
  | s :: ss => max (height s) (heightL ss)
end

mutual
/-- fuel `parseStmt` / `parseChildren` need -/
def need : Stmt → Nat
  | .mk _ _ _ kids => needL kids + 1
def needL : List Stmt → Nat
  | [] => 1
  | s :: ss => max (need s) (needL ss) + 1
end

def kwOf : Stmt → Bytes
  | .mk kw _ _ _ => kw

/-- what `yprp_stmt` prints between the keyword and the `;` / ` {` -/
def argText (fmt : Bool) (l nameLen : Nat) (arg : Option Bytes) (flags : Nat) : Bytes :=
  match arg with
  | some a =>
    if flags != 0 then printTextArg fmt l (if flags &&& LYS_SINGLEQUOTED != 0 then LYS_YPR_TEXT_SINGLEQUOTED else 0) nameLen a
    else 32 :: a
  | none => []

/-- what `yprp_stmt` prints after the keyword, up to the end of the statement's last line, followed by the newline
    and `rest` -/
def afterKw (fmt : Bool) (l : Nat) (s : Stmt) (rest : Bytes) : Bytes :=
  match s with
  | .mk kw arg flags kids =>
    argText fmt l kw.length arg flags ++
      (if kids.isEmpty then 59 :: 10 :: rest
       else 32 :: 123 :: 10 :: (printStmts fmt (incLevel l) kids ++ (indentOf fmt l ++ 125 :: 10 :: rest)))

theorem printStmt_append (fmt : Bool) (l : Nat) (s : Stmt) (x : Bytes) :
    printStmt fmt l s ++ x = indentOf fmt l ++ (kwOf s ++ afterKw fmt l s x) := by
  cases s with
  | mk kw arg flags kids =>
    unfold printStmt afterKw argText kwOf stmtTail
    cases arg with
    | none =>
      cases hk : kids.isEmpty <;> simp [hk]
    | some a =>
      by_cases hf : flags = 0
      · cases hk : kids.isEmpty <;> simp [hk, hf]
      · cases hk : kids.isEmpty <;> simp [hk, hf, printText, List.append_assoc]

end LyModel.YangStr

namespace LyModel.YangStr
open LyModel.Utf8 LyModel.Generated

theorem NoCmt_snoc : ∀ (a : Bytes) (t : UInt8), NoCmt a → t ≠ 47 → t ≠ 42 → NoCmt (a ++ [t])
  | [], _, _, _, _ => trivial
  | [x], t, _, h47, h42 => by
    refine ⟨?_, trivial⟩
    rintro ⟨_, h | h⟩
    · exact h47 h
    · exact h42 h
  | x :: y :: r, t, h, h47, h42 => ⟨h.1, NoCmt_snoc (y :: r) t h.2 h47 h42⟩

/-- the tail of a statement after its argument: `k` blanks and then `;` or `{` -/
structure TailOk (t0 : Bytes) : Prop where
  head : ∃ b r, t0 = b :: r ∧ (b = 59 ∨ b = 123)

theorem TailOk.restOk {t0 : Bytes} (h : TailOk t0) : RestOk t0 := by
  obtain ⟨b, r, rfl, hb⟩ := h.head
  rcases hb with rfl | rfl <;> exact ⟨by decide, by decide, by decide, by decide, by decide⟩

/-- `get_argument` over the argument part printed by `yprp_stmt`, followed by `k ≤ 1` blanks and `;` / `{` -/
theorem arg_parse (fmt : Bool) (l ind k : Nat) (kw : Bytes) (arg : Option Bytes) (flags : Nat) (leaf : Bool) (t0 : Bytes)
    (hk : (k = 0 ∧ ∃ r, t0 = 59 :: r) ∨ (k = 1 ∧ ∃ r, t0 = 123 :: r)) (hok : ArgOk kw arg flags leaf) :
    ∃ i1 j, getArgument true ind (argText fmt l kw.length arg flags ++ (spaces k ++ t0)) =
      .ok { word := arg, flags := flags, ind := i1, rest := spaces j ++ t0 } := by
  have htail : TailOk t0 := by
    rcases hk with ⟨_, r, rfl⟩ | ⟨_, r, rfl⟩
    · exact ⟨59, r, rfl, Or.inl rfl⟩
    · exact ⟨123, r, rfl, Or.inr rfl⟩
  cases arg with
  | none =>
    obtain ⟨hf, _⟩ := hok
    subst hf
    rcases hk with ⟨rfl, r, rfl⟩ | ⟨rfl, r, rfl⟩
    · exact ⟨ind, 0, by simp [argText, spaces, getArgument, getArgLoop, argDone]⟩
    · exact ⟨ind + 1, 0, by simp [argText, spaces, getArgument, getArgLoop, argDone]⟩
  | some a =>
    rcases hok with ⟨hf, hu⟩ | ⟨hf, hy, hcr⟩ | ⟨hf, hy⟩
    · -- unquoted
      subst hf
      have hya := ychars_of_isYangText a hu.text
      have harg : argText fmt l kw.length (some a) 0 ++ (spaces k ++ t0) = 32 :: (a ++ (spaces k ++ t0)) := by simp [argText]
      rw [harg]
      rcases hk with ⟨rfl, r, rfl⟩ | ⟨rfl, r, rfl⟩
      · obtain ⟨i1, e⟩ := getArgLoop_unquoted true a hya hu.plain 59 (Or.inl rfl) (NoCmt_snoc a 59 hu.nocmt (by decide) (by decide))
          ((a ++ 59 :: r).length + 1) (ind + 1) [] r (Nat.le_refl _) (Or.inr hu.ne)
        refine ⟨i1, 0, ?_⟩
        simp only [getArgument, spaces, List.replicate_zero, List.nil_append, List.length_cons]
        rw [getArgLoop_space, e]
        simp
      · obtain ⟨i1, e⟩ := getArgLoop_unquoted true a hya hu.plain 32 (Or.inr rfl) (NoCmt_snoc a 32 hu.nocmt (by decide) (by decide))
          ((a ++ 32 :: 123 :: r).length + 1) (ind + 1) [] (123 :: r) (Nat.le_refl _) (Or.inr hu.ne)
        refine ⟨i1, 1, ?_⟩
        have hs1 : spaces 1 = [32] := rfl
        simp only [getArgument, hs1, List.cons_append, List.nil_append, List.length_cons]
        rw [getArgLoop_space, e]
        simp
    · -- double-quoted (block style)
      subst hf
      have harg : argText fmt l kw.length (some a) LYS_DOUBLEQUOTED = printTextArg fmt l 0 kw.length a := by
        simp [argText, LYS_DOUBLEQUOTED, LYS_SINGLEQUOTED]
      rw [harg]
      obtain ⟨i1, e⟩ := text_dq_getArgument true fmt l 0 kw.length ind a t0 (by decide) (ychars_of_isYangText a hy) hcr
        (fun h => absurd h (by decide)) htail.restOk k
      exact ⟨i1, 0, by rw [e]; simp [spaces]⟩
    · -- single-quoted
      subst hf
      have harg : argText fmt l kw.length (some a) LYS_SINGLEQUOTED = printTextArg fmt l LYS_YPR_TEXT_SINGLEQUOTED kw.length a := by
        simp [argText, LYS_SINGLEQUOTED]
      rw [harg]
      obtain ⟨i1, e⟩ := text_sq_getArgument true fmt l LYS_YPR_TEXT_SINGLEQUOTED kw.length ind a t0 (by decide) (ychars_of_isYangText a hy)
        htail.restOk k
      exact ⟨i1, 0, by rw [e]; simp [spaces]⟩

end LyModel.YangStr

namespace LyModel.YangStr
open LyModel.Utf8 LyModel.Generated

/-- `parse_ext_substmt`, entered after the keyword of `s` was read, over the rest of what `yprp_stmt` printed for `s` -/
def PStmt (s : Stmt) : Prop :=
  ∀ (fmt : Bool) (l ind depth f : Nat) (rest : Bytes), WfStmt s → depth + height s ≤ 500 → need s ≤ f →
    ∃ ind', parseStmt f (kwOf s) ind depth (afterKw fmt l s rest) = .ok (s, ind', depth, 10 :: rest)

/-- the substatement loop over what `yprp_stmt` printed for the statements `ss`, up to the closing brace -/
def QStmts (ss : List Stmt) : Prop :=
  ∀ (fmt : Bool) (l ind depth n f : Nat) (rest : Bytes), WfStmts ss → 0 < depth → depth + heightL ss ≤ 500 → needL ss ≤ f →
    ∃ ind', parseStmt.parseChildren f ind depth (10 :: (printStmts fmt l ss ++ (spaces n ++ 125 :: rest))) =
      .ok (ss, ind', depth - 1, rest)

theorem tok_rbrace_beq : (Tok.rbrace == Tok.rbrace) = true := rfl
theorem tok_semi_beq : (Tok.semi == Tok.semi) = true := rfl
theorem tok_lbrace_semi : (Tok.lbrace == Tok.semi) = false := rfl
theorem tok_lbrace_ne : (Tok.lbrace != Tok.lbrace) = false := rfl

theorem step_nil : QStmts [] := by
  intro fmt l ind depth n f rest _ hd hh hf
  obtain ⟨f, rfl⟩ : ∃ g, f = g + 1 := ⟨f - 1, by simp [needL] at hf; omega⟩
  refine ⟨n + 1, ?_⟩
  have hin : (10 :: (printStmts fmt l [] ++ (spaces n ++ 125 :: rest))) = 10 :: (spaces n ++ 125 :: rest) := by
    simp [printStmts]
  rw [hin, parseStmt.parseChildren, getKeyword_nl_spaces _ _ _ 125 _ (by decide), kwAt_rbrace _ _ _ hd (by omega)]
  simp only [tok_rbrace_beq, if_true]

/-- the first byte after the keyword is a blank, a newline or — for a childless statement without argument — `;` -/
theorem afterKw_head (fmt : Bool) (l : Nat) (kw : Bytes) (arg : Option Bytes) (flags : Nat) (kids : List Stmt) (x : Bytes)
    (hok : ArgOk kw arg flags kids.isEmpty) :
    ∃ sep tl, afterKw fmt l (.mk kw arg flags kids) x = sep :: tl ∧
      (sep = 32 ∨ sep = 10 ∨ (sep = 59 ∧ KwBareOk kw)) := by
  unfold afterKw argText
  cases arg with
  | none =>
    cases hk : kids.isEmpty with
    | true =>
      simp only [hk, if_true, List.nil_append]
      exact ⟨59, _, rfl, Or.inr (Or.inr ⟨rfl, hok.2 hk⟩)⟩
    | false =>
      simp only [hk, Bool.false_eq_true, if_false, List.nil_append]
      exact ⟨32, _, rfl, Or.inl rfl⟩
  | some a =>
    rcases hok with ⟨hf, _⟩ | ⟨hf, _⟩ | ⟨hf, _⟩
    · subst hf
      simp only [show ((0 : Nat) != 0) = false by decide, Bool.false_eq_true, if_false]
      exact ⟨32, _, rfl, Or.inl rfl⟩
    · subst hf
      have h1 : (LYS_DOUBLEQUOTED != 0) = true := by decide
      have h2 : (LYS_DOUBLEQUOTED &&& LYS_SINGLEQUOTED != 0) = false := by decide
      simp only [h1, h2, if_true, Bool.false_eq_true, if_false]
      rw [printTextArg_block _ _ _ _ _ (by simp [flagSingleLine, LYS_YPR_TEXT_SINGLELINE])]
      exact ⟨10, _, rfl, Or.inr (Or.inl rfl)⟩
    · subst hf
      have h1 : (LYS_SINGLEQUOTED != 0) = true := by decide
      have h2 : (LYS_SINGLEQUOTED &&& LYS_SINGLEQUOTED != 0) = true := by decide
      simp only [h1, h2, if_true]
      rw [printTextArg_block _ _ _ _ _ (by simp [flagSingleLine, LYS_YPR_TEXT_SINGLEQUOTED, LYS_YPR_TEXT_SINGLELINE])]
      exact ⟨10, _, rfl, Or.inr (Or.inl rfl)⟩

theorem step_cons (s : Stmt) (ss : List Stmt) (hp : PStmt s) (hq : QStmts ss) : QStmts (s :: ss) := by
  intro fmt l ind depth n f rest hwf hd hh hf
  obtain ⟨hws, hwss⟩ : WfStmt s ∧ WfStmts ss := by simpa [WfStmts] using hwf
  obtain ⟨f, rfl⟩ : ∃ g, f = g + 1 := ⟨f - 1, by simp [needL] at hf; omega⟩
  have hneed : need s ≤ f ∧ needL ss ≤ f := by simp [needL] at hf; omega
  have hheight : depth + height s ≤ 500 ∧ depth + heightL ss ≤ 500 := by simp [heightL] at hh; omega
  cases s with
  | mk kw arg flags kids =>
    obtain ⟨hkw, harg, _⟩ : KwOk kw ∧ ArgOk kw arg flags kids.isEmpty ∧ WfStmts kids := by simpa [WfStmt] using hws
    obtain ⟨c, r, hkwe, hstart⟩ := hkw.start
    -- the input, seen from the lexer
    have hin : (10 :: (printStmts fmt l (.mk kw arg flags kids :: ss) ++ (spaces n ++ 125 :: rest))) =
        10 :: (spaces (indentOf fmt l).length ++ (kw ++ afterKw fmt l (.mk kw arg flags kids) (printStmts fmt l ss ++ (spaces n ++ 125 :: rest)))) := by
      rw [printStmts, List.append_assoc, printStmt_append, ← indentOf_eq]
      rfl
    obtain ⟨sep, tl, htl, hsep⟩ := afterKw_head fmt l kw arg flags kids (printStmts fmt l ss ++ (spaces n ++ 125 :: rest)) harg
    -- the keyword lexes as itself
    have hlex : ∃ tok i1, tok ≠ Tok.rbrace ∧ kwAt (indentOf fmt l).length depth (kw ++ sep :: tl) =
        .ok { tok := tok, word := kw, ind := i1, depth := depth, rest := sep :: tl } := by
      rcases hsep with h | h | ⟨h, hb⟩
      · exact hkw.lex _ _ sep tl (Or.inl h)
      · exact hkw.lex _ _ sep tl (Or.inr h)
      · subst h; exact hb _ _ tl
    obtain ⟨tok, i1, htok, hk⟩ := hlex
    obtain ⟨i2, hps⟩ := hp fmt l i1 depth f (printStmts fmt l ss ++ (spaces n ++ 125 :: rest)) hws hheight.1 hneed.1
    obtain ⟨i3, hqs⟩ := hq fmt l i2 depth n f rest hwss hd hheight.2 hneed.2
    refine ⟨i3, ?_⟩
    have hkw2 : getKeyword ind depth (10 :: (spaces (indentOf fmt l).length ++
        (kw ++ afterKw fmt l (.mk kw arg flags kids) (printStmts fmt l ss ++ (spaces n ++ 125 :: rest))))) =
        .ok { tok := tok, word := kw, ind := i1, depth := depth, rest := sep :: tl } := by
      rw [htl, hkwe, List.cons_append, getKeyword_nl_spaces _ _ _ c _ hstart, ← List.cons_append, ← hkwe, hk]
    have htokb : (tok == Tok.rbrace) = false := by
      cases tok <;> first | rfl | exact absurd rfl htok
    rw [hin, parseStmt.parseChildren, hkw2]
    simp only [htokb, Bool.false_eq_true, if_false]
    rw [← htl]
    simp only [kwOf] at hps
    rw [hps]
    simp only []
    rw [hqs]

theorem step_mk (kw : Bytes) (arg : Option Bytes) (flags : Nat) (kids : List Stmt) (hq : QStmts kids) :
    PStmt (.mk kw arg flags kids) := by
  intro fmt l ind depth f rest hwf hh hf
  obtain ⟨hkw, harg, hwk⟩ : KwOk kw ∧ ArgOk kw arg flags kids.isEmpty ∧ WfStmts kids := by simpa [WfStmt] using hwf
  obtain ⟨f, rfl⟩ : ∃ g, f = g + 1 := ⟨f - 1, by simp [need] at hf; omega⟩
  have hneed : needL kids ≤ f := by simp [need] at hf; omega
  have hheight : depth + heightL kids + 1 ≤ 500 := by simp [height] at hh; omega
  cases hk : kids.isEmpty with
  | true =>
    have hkids : kids = [] := by cases kids with
      | nil => rfl
      | cons _ _ => simp at hk
    subst hkids
    obtain ⟨i1, j, ha⟩ := arg_parse fmt l ind 0 kw arg flags true (59 :: 10 :: rest) (Or.inl ⟨rfl, _, rfl⟩) (by simpa using harg)
    refine ⟨i1 + j + 1, ?_⟩
    have hin : afterKw fmt l (.mk kw arg flags []) rest = argText fmt l kw.length arg flags ++ (spaces 0 ++ 59 :: 10 :: rest) := by
      simp [afterKw, spaces]
    rw [hin, kwOf, parseStmt, ha]
    simp only []
    rw [getKeyword_spaces _ _ _ 59 _ (by decide), kwAt_semi]
    simp only [tok_semi_beq, if_true]
  | false =>
    obtain ⟨i1, j, ha⟩ := arg_parse fmt l ind 1 kw arg flags false
      (123 :: 10 :: (printStmts fmt (incLevel l) kids ++ (indentOf fmt l ++ 125 :: 10 :: rest))) (Or.inr ⟨rfl, _, rfl⟩)
      (by simpa [hk] using harg)
    obtain ⟨i2, hqs⟩ := hq fmt (incLevel l) (i1 + j + 1) (depth + 1) (indentOf fmt l).length f (10 :: rest) hwk (by omega) (by omega) hneed
    refine ⟨i2, ?_⟩
    have hin : afterKw fmt l (.mk kw arg flags kids) rest = argText fmt l kw.length arg flags ++
        (spaces 1 ++ 123 :: 10 :: (printStmts fmt (incLevel l) kids ++ (indentOf fmt l ++ 125 :: 10 :: rest))) := by
      simp [afterKw, hk, spaces]
    rw [hin, kwOf, parseStmt, ha]
    simp only []
    have h500 : LY_MAX_BLOCK_DEPTH = 500 := rfl
    rw [getKeyword_spaces _ _ _ 123 _ (by decide), kwAt_lbrace _ _ _ (by omega)]
    simp only [tok_lbrace_semi, tok_lbrace_ne, Bool.false_eq_true, if_false]
    rw [← indentOf_eq fmt l] at hqs
    rw [hqs]
    simp

theorem pstmt_all (s : Stmt) : PStmt s :=
  Stmt.rec (motive_1 := PStmt) (motive_2 := QStmts) (fun kw arg flags kids hq => step_mk kw arg flags kids hq) step_nil
    (fun s ss hp hq => step_cons s ss hp hq) s

theorem qstmts_all (ss : List Stmt) : QStmts ss :=
  Stmt.rec_1 (motive_1 := PStmt) (motive_2 := QStmts) (fun kw arg flags kids hq => step_mk kw arg flags kids hq) step_nil
    (fun s ss hp hq => step_cons s ss hp hq) ss

end LyModel.YangStr

namespace LyModel.YangStr
open LyModel.Utf8 LyModel.Generated

/-! ### the fuel the parser is started with (input length + 1) suffices -/

theorem afterKw_length_ge (fmt : Bool) (l : Nat) (kw : Bytes) (arg : Option Bytes) (flags : Nat) (kids : List Stmt) :
    (if kids.isEmpty then 2 else 5 + (printStmts fmt (incLevel l) kids).length) ≤ (afterKw fmt l (.mk kw arg flags kids) []).length := by
  unfold afterKw
  cases hk : kids.isEmpty <;> simp [hk] <;> omega

theorem need_le_aux (s : Stmt) : ∀ (fmt : Bool) (l : Nat), WfStmt s → need s + 1 ≤ (printStmt fmt l s).length :=
  Stmt.rec (motive_1 := fun s => ∀ (fmt : Bool) (l : Nat), WfStmt s → need s + 1 ≤ (printStmt fmt l s).length)
    (motive_2 := fun ss => ∀ (fmt : Bool) (l : Nat), WfStmts ss → needL ss ≤ (printStmts fmt l ss).length + 1)
    (fun kw arg flags kids ih fmt l hwf => by
      obtain ⟨hkw, _, hwk⟩ : KwOk kw ∧ ArgOk kw arg flags kids.isEmpty ∧ WfStmts kids := by simpa [WfStmt] using hwf
      obtain ⟨c, r, hkwe, _⟩ := hkw.start
      subst hkwe
      have hp := printStmt_append fmt l (.mk (c :: r) arg flags kids) []
      rw [List.append_nil] at hp
      have hlen := afterKw_length_ge fmt l (c :: r) arg flags kids
      have hih := ih fmt (incLevel l) hwk
      have hn1 : needL ([] : List Stmt) = 1 := rfl
      rw [hp]
      simp only [List.length_append, kwOf, need, List.length_cons]
      cases hk : kids.isEmpty with
      | true =>
        have : kids = [] := by cases kids with
          | nil => rfl
          | cons _ _ => simp at hk
        subst this
        simp only [hk, if_true] at hlen
        omega
      | false =>
        simp only [hk, Bool.false_eq_true, if_false] at hlen
        omega)
    (fun fmt l _ => by simp [needL, printStmts])
    (fun s ss ihs ihss fmt l hwf => by
      obtain ⟨hws, hwss⟩ : WfStmt s ∧ WfStmts ss := by simpa [WfStmts] using hwf
      have h1 := ihs fmt l hws
      have h2 := ihss fmt l hwss
      simp only [needL, printStmts, List.length_append]
      omega)
    s

theorem needL_le (ss : List Stmt) (fmt : Bool) (l : Nat) (hwf : WfStmts ss) : needL ss ≤ (printStmts fmt l ss).length + 1 :=
  Stmt.rec_1 (motive_1 := fun s => ∀ (fmt : Bool) (l : Nat), WfStmt s → need s + 1 ≤ (printStmt fmt l s).length)
    (motive_2 := fun ss => ∀ (fmt : Bool) (l : Nat), WfStmts ss → needL ss ≤ (printStmts fmt l ss).length + 1)
    (fun kw arg flags kids _ fmt l hwf => need_le_aux (.mk kw arg flags kids) fmt l hwf)
    (fun fmt l _ => by simp [needL, printStmts])
    (fun s ss ihs ihss fmt l hwf => by
      obtain ⟨hws, hwss⟩ : WfStmt s ∧ WfStmts ss := by simpa [WfStmts] using hwf
      have h1 := ihs fmt l hws
      have h2 := ihss fmt l hwss
      simp only [needL, printStmts, List.length_append]
      omega)
    ss fmt l hwf

end LyModel.YangStr
