import LyModel.YangStr.LemmasTree
/-!
`KwOk` for every keyword of the generated trie `yangKwTrie` (`lysp_match_kw`).

`get_keyword` looks at the keyword and at the ONE byte behind it; what follows that byte does not matter.  `walkAlts_sep`
makes this precise for the walk over the `IF_KW` / `IF_KW_PREFIX` alternatives: when the separator byte `sep` occurs in none
of the strings of the trie, the walk on `a ++ sep :: t` does the same thing for every `t`.  So the walk can be evaluated once,
on the closed input `w ++ [sep]` (`kwCheck`, by `decide` over the finite keyword list `yangKeywords`), and the result holds
for every continuation, column and depth.
-/
namespace LyModel.YangStr
open LyModel.Utf8 LyModel.Generated

/-- the strings of the alternatives (to the depth `walkAlts` descends with the same fuel) do not contain `sep` -/
def sepFree : (fuel : Nat) → List KwNode → UInt8 → Bool
  | 0, _, _ => true
  | _, [], _ => true
  | f + 1, .kw s :: ns, sep => !s.contains sep && sepFree f ns sep
  | f + 1, .pre s alts :: ns, sep => !s.contains sep && sepFree f alts sep && sepFree f ns sep

/-- the words the alternatives spell (to the depth `walkAlts` descends with the same fuel) -/
def altWords : (fuel : Nat) → List KwNode → List Bytes
  | 0, _ => []
  | _, [] => []
  | f + 1, .kw s :: ns => s :: altWords f ns
  | f + 1, .pre s alts :: ns => (altWords f alts).map (s ++ ·) ++ altWords f ns

/-- every keyword of the generated trie: first byte (the `case` label) followed by a word of its alternatives -/
def yangKeywords : List Bytes := yangKwTrie.flatMap fun e => (altWords 8 e.2).map (e.1 :: ·)

theorem stripPrefix_sep (sep : UInt8) : ∀ (s a : Bytes), s.contains sep = false →
    (∀ t, stripPrefix s (a ++ sep :: t) = none) ∨ ∃ a', ∀ t, stripPrefix s (a ++ sep :: t) = some (a' ++ sep :: t)
  | [], a, _ => Or.inr ⟨a, fun t => by cases a <;> rfl⟩
  | p :: ps, [], h => by
    left
    intro t
    have hne : p ≠ sep := by
      intro e
      subst e
      simp at h
    simp only [List.nil_append, stripPrefix, if_neg hne]
  | p :: ps, c :: cs, h => by
    have hps : ps.contains sep = false := by
      simp only [List.contains_cons, Bool.or_eq_false_iff] at h
      exact h.2
    by_cases hpc : p = c
    · rcases stripPrefix_sep sep ps cs hps with h1 | ⟨a', h1⟩
      · left; intro t; simp only [List.cons_append, stripPrefix, if_pos hpc, h1]
      · right; exact ⟨a', fun t => by simp only [List.cons_append, stripPrefix, if_pos hpc, h1]⟩
    · left; intro t; simp only [List.cons_append, stripPrefix, if_neg hpc]

/-- locality of the walk: what stands behind a separator that occurs nowhere in the alternatives is not looked at -/
theorem walkAlts_sep (sep : UInt8) : ∀ (f : Nat) (alts : List KwNode) (a : Bytes), sepFree f alts sep = true →
    ∃ m k a', ∀ t, walkAlts f alts (a ++ sep :: t) = (m, k, a' ++ sep :: t)
  | 0, _, a, _ => ⟨false, 0, a, fun _ => by simp only [walkAlts]⟩
  | _ + 1, [], a, _ => ⟨false, 0, a, fun _ => by simp only [walkAlts]⟩
  | f + 1, .kw s :: ns, a, h => by
    simp only [sepFree, Bool.and_eq_true, Bool.not_eq_true'] at h
    rcases stripPrefix_sep sep s a h.1 with h1 | ⟨a', h1⟩
    · obtain ⟨m, k, a', h2⟩ := walkAlts_sep sep f ns a h.2
      exact ⟨m, k, a', fun t => by simp only [walkAlts, h1, h2]⟩
    · exact ⟨true, s.length, a', fun t => by simp only [walkAlts, h1]⟩
  | f + 1, .pre s alts :: ns, a, h => by
    simp only [sepFree, Bool.and_eq_true, Bool.not_eq_true'] at h
    rcases stripPrefix_sep sep s a h.1.1 with h1 | ⟨a', h1⟩
    · obtain ⟨m, k, a', h2⟩ := walkAlts_sep sep f ns a h.2
      exact ⟨m, k, a', fun t => by simp only [walkAlts, h1, h2]⟩
    · obtain ⟨m, k, a'', h2⟩ := walkAlts_sep sep f alts a' h.1.2
      exact ⟨m, k + s.length, a'', fun t => by simp only [walkAlts, h1, h2, Nat.add_comm]⟩

/-- the closed check: the first byte of `kw` is a `case` label of the trie, `sep` occurs in none of the strings below it, and the
    walk on the rest of `kw` followed by `sep` alone matches a keyword, consumes exactly `kw` and stops in front of `sep` -/
def kwCheck (sep : UInt8) (kw : Bytes) : Bool :=
  match kw with
  | [] => false
  | c :: w =>
    decide (StartChar c) && c != 59 && c != 123 && c != 125 &&
    match yangKwTrie.find? (fun e => e.1 == c) with
    | none => false
    | some e => sepFree 8 e.2 sep && decide (walkAlts 8 e.2 (w ++ [sep]) = (true, w.length, [sep]))

theorem matchKw_of_check (sep c : UInt8) (w r : Bytes) (hsep : isAlnum sep = false) (h : kwCheck sep (c :: w) = true) :
    matchKw (c :: w ++ sep :: r) = (true, (c :: w).length, (c :: w).length) := by
  simp only [kwCheck, Bool.and_eq_true] at h
  obtain ⟨_, h2⟩ := h
  simp only [List.cons_append, matchKw]
  cases hf : yangKwTrie.find? (fun e => e.1 == c) with
  | none => rw [hf] at h2; cases h2
  | some e =>
    rw [hf] at h2
    simp only [Bool.and_eq_true, decide_eq_true_eq] at h2
    obtain ⟨m, k, a', hw⟩ := walkAlts_sep sep 8 e.2 w h2.1
    have h0 := hw []
    rw [h2.2] at h0
    simp only [Prod.mk.injEq] at h0
    obtain ⟨hm, hk, ha⟩ := h0
    have ha' : a' = [] := by
      cases a' with
      | nil => rfl
      | cons x xs =>
        have := congrArg List.length ha
        simp at this
    subst ha'
    simp only [hw r, ← hm, ← hk, List.nil_append, rd, List.getD_cons_zero, hsep, Bool.false_eq_true, if_false,
      List.length_cons, Nat.add_comm]

/-- a matched keyword followed by a blank or a newline is returned as a keyword token, at every column and depth, with the column
    counter advanced by its length -/
theorem kwAt_of_matchKw (ind depth : Nat) (c sep : UInt8) (w r : Bytes) (h1 : c ≠ 59) (h2 : c ≠ 123) (h3 : c ≠ 125)
    (hsep : sep = 32 ∨ sep = 10) (hm : matchKw (c :: w ++ sep :: r) = (true, (c :: w).length, (c :: w).length)) :
    kwAt ind depth (c :: w ++ sep :: r) =
      .ok { tok := .kw, word := c :: w, ind := ind + (c :: w).length, depth := depth, rest := sep :: r } := by
  have hd : (c :: w ++ sep :: r).drop (c :: w).length = sep :: r := List.drop_left
  have ht : (c :: w ++ sep :: r).take (c :: w).length = c :: w := List.take_left
  unfold kwAt
  split
  · rename_i heq; simp only [List.cons_append, List.cons.injEq] at heq; exact absurd heq.1 h1
  · rename_i heq; simp only [List.cons_append, List.cons.injEq] at heq; exact absurd heq.1 h2
  · rename_i heq; simp only [List.cons_append, List.cons.injEq] at heq; exact absurd heq.1 h3
  · simp only [hm, hd, ht, if_true]
    rcases hsep with rfl | rfl <;> simp

/-- … and `input` / `output` followed directly by `;` (the two statements without argument) -/
theorem kwAt_bare_of_matchKw (ind depth : Nat) (c : UInt8) (w r : Bytes) (h1 : c ≠ 59) (h2 : c ≠ 123) (h3 : c ≠ 125)
    (hio : c :: w = kwInput ∨ c :: w = kwOutput)
    (hm : matchKw (c :: w ++ 59 :: r) = (true, (c :: w).length, (c :: w).length)) :
    kwAt ind depth (c :: w ++ 59 :: r) =
      .ok { tok := .kw, word := c :: w, ind := ind + (c :: w).length, depth := depth, rest := 59 :: r } := by
  have hd : (c :: w ++ 59 :: r).drop (c :: w).length = 59 :: r := List.drop_left
  have ht : (c :: w ++ 59 :: r).take (c :: w).length = c :: w := List.take_left
  unfold kwAt
  split
  · rename_i heq; simp only [List.cons_append, List.cons.injEq] at heq; exact absurd heq.1 h1
  · rename_i heq; simp only [List.cons_append, List.cons.injEq] at heq; exact absurd heq.1 h2
  · rename_i heq; simp only [List.cons_append, List.cons.injEq] at heq; exact absurd heq.1 h3
  · simp only [hm, hd, ht, if_true]
    rcases hio with e | e <;> rw [e] <;> simp

/-- the closed check holds for every keyword of the trie, for both separators the printers write behind a keyword -/
theorem yangKeywords_check : (yangKeywords.all fun kw => kwCheck 32 kw && kwCheck 10 kw) = true := by decide

/-- **every keyword of the generated trie lexes as itself**: followed by a blank or a newline, at every column `ind`, depth and
    continuation `r`, `get_keyword` (from `keyword_start:` on) returns it as a keyword token, leaves the separator in the input
    and has advanced the column counter by exactly the length of the keyword -/
theorem kwAt_yangKeyword (kw : Bytes) (hkw : kw ∈ yangKeywords) (ind depth : Nat) (sep : UInt8) (r : Bytes)
    (hsep : sep = 32 ∨ sep = 10) :
    kwAt ind depth (kw ++ sep :: r) =
      .ok { tok := .kw, word := kw, ind := ind + kw.length, depth := depth, rest := sep :: r } := by
  have hc := List.all_eq_true.1 yangKeywords_check kw hkw
  simp only [Bool.and_eq_true] at hc
  have hcs : kwCheck sep kw = true := by rcases hsep with rfl | rfl; exact hc.1; exact hc.2
  have hal : isAlnum sep = false := by rcases hsep with rfl | rfl <;> decide
  cases kw with
  | nil => simp [kwCheck] at hcs
  | cons c w =>
    have h := hcs
    simp only [kwCheck, Bool.and_eq_true, bne_iff_ne, ne_eq] at h
    exact kwAt_of_matchKw ind depth c sep w r h.1.1.1.2 h.1.1.2 h.1.2 hsep (matchKw_of_check sep c w r hal hcs)

theorem startChar_of_yangKeyword (kw : Bytes) (hkw : kw ∈ yangKeywords) : ∃ c r, kw = c :: r ∧ StartChar c := by
  have hc := List.all_eq_true.1 yangKeywords_check kw hkw
  simp only [Bool.and_eq_true] at hc
  cases kw with
  | nil => simp [kwCheck] at hc
  | cons c w =>
    have h := hc.1
    simp only [kwCheck, Bool.and_eq_true, decide_eq_true_eq] at h
    exact ⟨c, w, rfl, h.1.1.1.1⟩

theorem kwAt_bare_input_output (kw : Bytes) (hkw : kw = kwInput ∨ kw = kwOutput) (ind depth : Nat) (r : Bytes) :
    kwAt ind depth (kw ++ 59 :: r) =
      .ok { tok := .kw, word := kw, ind := ind + kw.length, depth := depth, rest := 59 :: r } := by
  have hcs : kwCheck 59 kw = true := by rcases hkw with rfl | rfl <;> decide
  cases kw with
  | nil => simp [kwCheck] at hcs
  | cons c w =>
    have h := hcs
    simp only [kwCheck, Bool.and_eq_true, bne_iff_ne, ne_eq] at h
    exact kwAt_bare_of_matchKw ind depth c w r h.1.1.1.2 h.1.1.2 h.1.2 hkw (matchKw_of_check 59 c w r (by decide) hcs)
