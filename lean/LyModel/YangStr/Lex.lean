import LyModel.Text.Utf8
import LyModel.YangStr.Print
import LyModel.Generated.Consts
/-!
# YANG lexer, string side (`parser_yang.c`)

`storeChar` = `buf_store_char` (string arguments), `skipComment` = `skip_comment`, `readQString` = `read_qstring`,
`getArgument` = `get_argument` (`Y_STR_ARG` / `Y_MAYBE_STR_ARG`), `getKeyword` = `get_keyword` with
`lysp_match_kw`, `parseStmt` = `parse_ext_substmt`.

The input is a C string (no NUL inside; the end of the list is the terminating NUL).  `ind` is `ctx->indent`, the
column counter the lexer keeps itself (tabs count `Y_TAB_SPACES`, a multi-byte character counts 1) — with all the
places where the C code forgets or double-counts it, because the column of an opening `"` decides how much
indentation is stripped from the following lines.  The dynamic buffer (`need_buf`, `word_b`) is abstracted to the
accumulated bytes; `racc` is the word so far, reversed.  Every loop iteration consumes at least one byte, so
`fuel = length + 1` suffices (proved for the round-trip statements in `Lemmas`).
-/
namespace LyModel.YangStr
open LyModel.Utf8 LyModel.Generated

inductive LexErr
  | inChar | inStrExp | eof | commentEof | badEscape | notQuoted | commentInWord | idFirst | idChar | maxDepth
  | expSemiBrace | fuel
  deriving Repr, DecidableEq, BEq

def LexErr.name : LexErr → String
  | .inChar => "InChar" | .inStrExp => "InStrExp" | .eof => "Eof" | .commentEof => "CommentEof"
  | .badEscape => "BadEscape" | .notQuoted => "NotQuoted" | .commentInWord => "CommentInWord"
  | .idFirst => "IdFirst" | .idChar => "IdChar" | .maxDepth => "MaxDepth" | .expSemiBrace => "ExpSemiBrace"
  | .fuel => "Fuel"

/-- `is_yangutf8char` (ranges generated from the macro) -/
def isYangChar (c : Nat) : Bool := yangCharRanges.any fun r => r.1 ≤ c && c ≤ r.2

/-- length in bytes of the character at the head of `inp` if `buf_store_char` accepts it
    (`ly_getutf8` succeeds and `lysp_check_stringchar` passes), with the code point -/
def charAt (inp : Bytes) : Option (Nat × Nat) :=
  match getUtf8 inp with
  | some (c, n) => if isYangChar c then some (c, n) else none
  | none => none

/-- `buf_store_char` for a string argument: append the character at the head of `inp`; `ctx->indent` is reset by
    a newline and otherwise advanced by one -/
def storeChar (inp : Bytes) (ind : Nat) (racc : Bytes) : Except LexErr (Nat × Bytes × Bytes) :=
  match charAt inp with
  | none => .error .inChar
  | some (c, n) => .ok (if c == 10 then 0 else ind + 1, (inp.take n).reverse ++ racc, inp.drop n)

/-- the strings `buf_store_char` accepts character by character: well-formed UTF-8 (as `ly_getutf8` sees it) of
    characters that pass `is_yangutf8char` — what a string argument of a parsed module can contain -/
def validText : (fuel : Nat) → Bytes → Bool
  | 0, _ => false
  | _, [] => true
  | f + 1, c :: cs =>
    match charAt (c :: cs) with
    | some (_, n) => validText f ((c :: cs).drop n)
    | none => false

def isYangText (s : Bytes) : Bool := validText (s.length + 1) s

/-- `skip_comment`; `cm`: 1 line comment, 2 block comment, 3 block comment after `*`.  Returns the new
    `ctx->indent` and the rest of the input. -/
def skipComment : (cm : Nat) → (ind : Nat) → Bytes → Except LexErr (Nat × Bytes)
  | cm, ind, [] => if cm ≥ 2 then .error .commentEof else .ok (ind, [])
  | cm, ind, c :: cs =>
    let cm' :=
      if cm == 1 then (if c == 10 then 0 else 1)
      else if cm == 2 then (if c == 42 then 3 else 2)
      else (if c == 47 then 0 else if c != 42 then 2 else 3)
    let ind' := if c == 10 then 0 else ind + 1
    if cm' == 0 then .ok (ind', cs) else skipComment cm' ind' cs

/-- states of `read_qstring` -/
inductive QS | sq | dq | esc | next | cont
  deriving Repr, DecidableEq, BEq

/-- local variables of `read_qstring` plus `ctx->indent` and the word -/
structure QSt where
  bi : Nat        -- block_indent
  ci : Nat        -- current_indent
  tws : Nat       -- trailing_ws
  ind : Nat       -- ctx->indent
  racc : Bytes    -- word, reversed
  deriving Repr, BEq

/-- the stored byte for the character after a backslash (generated from the escape switch) -/
def unesc (c : UInt8) : Option UInt8 := (yangUnescTable.find? (fun e => e.1 == c)).map (·.2)

/-- `case '\n':` of the double-quoted state (also reached from `'\r'` after skipping it), `inp` at the character
    that is stored -/
def dqNewline (st : QSt) (inp : Bytes) : Except LexErr (QSt × Bytes) :=
  let st1 := if st.bi != 0 then { st with racc := st.racc.drop st.tws, ci := 0 } else st
  match storeChar inp st1.ind st1.racc with
  | .error e => .error e
  | .ok (_, racc, rest) => .ok ({ st1 with racc := racc, ind := 0, tws := 0 }, rest)

/-- result of `read_qstring`: final local state, state of the string automaton, rest of the input -/
abbrev QRes := Except LexErr (QSt × QS × Bytes)

/-- main loop of `read_qstring` (after the opening quote) -/
def qloop : (fuel : Nat) → QS → QSt → Bytes → QRes
  | 0, _, _, _ => .error .fuel
  | _, q, st, [] => .ok (st, q, [])
  | f + 1, .sq, st, c :: cs =>
    if c == 39 then qloop f .next { st with ind := st.ind + 1 } cs
    else match storeChar (c :: cs) st.ind st.racc with
      | .error e => .error e
      | .ok (ind, racc, rest) => qloop f .sq { st with ind := ind, racc := racc } rest
  | f + 1, .dq, st, c :: cs =>
    if c == 34 then qloop f .next { st with ind := st.ind + 1, tws := 0 } cs
    else if c == 92 then qloop f .esc { st with tws := 0, ci := st.bi } cs
    else if c == 32 then
      if st.ci < st.bi then qloop f .dq { st with ci := st.ci + 1, ind := st.ind + 1 } cs
      else match storeChar (c :: cs) st.ind st.racc with
        | .error e => .error e
        | .ok (ind, racc, rest) => qloop f .dq { st with ind := ind, racc := racc, tws := st.tws + 1 } rest
    else if c == 9 then
      if st.ci < st.bi then
        -- a tab inside the indentation: columns beyond block_indent are stored as spaces
        let k := st.ci + Y_TAB_SPACES - st.bi
        qloop f .dq { st with ci := if st.ci + Y_TAB_SPACES > st.bi then st.bi else st.ci + Y_TAB_SPACES,
                              ind := st.ind + Y_TAB_SPACES, racc := spaces k ++ st.racc, tws := st.tws + k } cs
      else match storeChar (c :: cs) st.ind st.racc with
        | .error e => .error e
        | .ok (ind, racc, rest) =>
          qloop f .dq { st with ind := ind + (Y_TAB_SPACES - 1), racc := racc, tws := st.tws + 1 } rest
    else if c == 13 then
      -- CR must be followed by LF or by the two characters `\n`; it is skipped, the *next* character is stored
      match cs with
      | 10 :: _ => match dqNewline st cs with
        | .error e => .error e
        | .ok (st', rest) => qloop f .dq st' rest
      | 92 :: 110 :: _ => match dqNewline st cs with
        | .error e => .error e
        | .ok (st', rest) => qloop f .dq st' rest
      | _ => .error .inChar
    else if c == 10 then
      match dqNewline st (c :: cs) with
      | .error e => .error e
      | .ok (st', rest) => qloop f .dq st' rest
    else match storeChar (c :: cs) st.ind st.racc with
      | .error e => .error e
      | .ok (ind, racc, rest) => qloop f .dq { st with ci := st.bi, ind := ind, racc := racc, tws := 0 } rest
  | f + 1, .esc, st, c :: cs =>
    match unesc c with
    | none => .error .badEscape
    | some b => qloop f .dq { st with ind := if b == 10 then 0 else st.ind + 1, racc := b :: st.racc } cs
  | f + 1, .next, st, c :: cs =>
    if c == 43 then qloop f .cont { st with ind := st.ind + 1 } cs
    else if c == 13 then
      match cs with
      | 10 :: r => qloop f .next { st with ind := st.ind + 2 } r
      | _ => .error .inChar
    else if c == 10 || c == 32 || c == 9 then qloop f .next { st with ind := st.ind + 1 } cs
    else .ok (st, .next, c :: cs)
  | f + 1, .cont, st, c :: cs =>
    if c == 13 then
      match cs with
      | 10 :: r => qloop f .cont { st with ind := st.ind + 2 } r
      | _ => .error .inChar
    else if c == 10 || c == 32 || c == 9 then qloop f .cont { st with ind := st.ind + 1 } cs
    else if c == 39 then qloop f .sq { st with ind := st.ind + 1 } cs
    else if c == 34 then qloop f .dq { st with ind := st.ind + 1 } cs
    else if c == 47 then
      match cs with
      | 47 :: r => match skipComment 1 (st.ind + 2) r with
        | .error e => .error e
        | .ok (ind, r') => qloop f .cont { st with ind := ind } r'
      | 42 :: r => match skipComment 2 (st.ind + 2) r with
        | .error e => .error e
        | .ok (ind, r') => qloop f .cont { st with ind := ind } r'
      | _ => .error .notQuoted
    else .error .notQuoted

/-- `read_qstring` with `ctx->indent = ind`, `inp` at the opening quote (`"` or, by the assertion, `'`):
    the word, the new `ctx->indent`, the rest of the input. -/
def readQString (ind : Nat) (inp : Bytes) : Except LexErr (Bytes × Nat × Bytes) :=
  match inp with
  | [] => .error .eof
  | c :: cs =>
    let st : QSt := if c == 34 then { bi := ind + 1, ci := ind + 1, tws := 0, ind := ind + 1, racc := [] }
                    else { bi := 0, ci := 0, tws := 0, ind := ind + 1, racc := [] }
    match qloop (cs.length + 1) (if c == 34 then .dq else .sq) st cs with
    | .error e => .error e
    | .ok (st', _, rest) => .ok (st'.racc.reverse, st'.ind, rest)

/-- result of `get_argument`: the word (`none` = NULL: no argument), quoting flags, `ctx->indent`, rest -/
structure ArgRes where
  word : Option Bytes
  flags : Nat
  ind : Nat
  rest : Bytes
  deriving Repr, BEq, DecidableEq

def argDone (racc : Bytes) (ind : Nat) (rest : Bytes) : Except LexErr ArgRes :=
  .ok { word := if racc.isEmpty then none else some racc.reverse, flags := 0, ind := ind, rest := rest }

/-- `get_argument(ctx, Y_STR_ARG | Y_MAYBE_STR_ARG, &flags, …)`; `racc` = the unquoted word read so far -/
def getArgLoop (maybe : Bool) : (fuel : Nat) → (ind : Nat) → (racc : Bytes) → Bytes → Except LexErr ArgRes
  | 0, _, _, _ => .error .fuel
  | _, _, _, [] => .error .eof
  | f + 1, ind, racc, c :: cs =>
    let store (_ : Unit) : Except LexErr ArgRes :=
      match storeChar (c :: cs) ind racc with
      | .error e => .error e
      | .ok (ind', racc', rest) => getArgLoop maybe f ind' racc' rest
    if c == 39 || c == 34 then
      if !racc.isEmpty then .error .inStrExp
      else match readQString ind (c :: cs) with
        | .error e => .error e
        | .ok (w, ind', rest) =>
          .ok { word := some w, flags := if c == 39 then LYS_SINGLEQUOTED else LYS_DOUBLEQUOTED, ind := ind', rest := rest }
    else if c == 47 then
      match cs with
      | 47 :: r =>
        if !racc.isEmpty then .error .commentInWord
        else match skipComment 1 (ind + 2) r with
          | .error e => .error e
          | .ok (ind', r') => getArgLoop maybe f ind' racc r'
      | 42 :: r =>
        if !racc.isEmpty then .error .commentInWord
        else match skipComment 2 (ind + 2) r with
          | .error e => .error e
          | .ok (ind', r') => getArgLoop maybe f ind' racc r'
      | _ => store ()
    else if c == 32 then
      if !racc.isEmpty then argDone racc ind (c :: cs) else getArgLoop maybe f (ind + 1) racc cs
    else if c == 9 then
      if !racc.isEmpty then argDone racc ind (c :: cs) else getArgLoop maybe f (ind + Y_TAB_SPACES) racc cs
    else if c == 13 then
      match cs with
      | 10 :: r =>
        -- the CR is consumed (`MOVE_INPUT`) before the word is found finished
        if !racc.isEmpty then argDone racc (ind + 1) cs else getArgLoop maybe f 0 racc r
      | _ => .error .inChar
    else if c == 10 then
      if !racc.isEmpty then argDone racc ind (c :: cs) else getArgLoop maybe f 0 racc cs
    else if c == 59 || c == 123 then
      if !racc.isEmpty || maybe then argDone racc ind (c :: cs) else .error .inStrExp
    else if c == 125 then .error .inStrExp
    else store ()

def getArgument (maybe : Bool) (ind : Nat) (inp : Bytes) : Except LexErr ArgRes :=
  getArgLoop maybe (inp.length + 1) ind [] inp

/-! ## keywords -/

def stripPrefix : Bytes → Bytes → Option Bytes
  | [], r => some r
  | _ :: _, [] => none
  | p :: ps, c :: cs => if p = c then stripPrefix ps cs else none

/-- walk of the `IF_KW`/`IF_KW_PREFIX` alternatives: (a keyword matched, bytes consumed, rest) -/
def walkAlts : (fuel : Nat) → List KwNode → Bytes → Bool × Nat × Bytes
  | 0, _, inp => (false, 0, inp)
  | _, [], inp => (false, 0, inp)
  | f + 1, .kw s :: ns, inp =>
    match stripPrefix s inp with
    | some r => (true, s.length, r)
    | none => walkAlts f ns inp
  | f + 1, .pre s alts :: ns, inp =>
    match stripPrefix s inp with
    | some r => let (m, k, r') := walkAlts f alts r; (m, s.length + k, r')
    | none => walkAlts f ns inp

def isAlnum (c : UInt8) : Bool := (48 ≤ c && c ≤ 57) || (65 ≤ c && c ≤ 90) || (97 ≤ c && c ≤ 122)
def isIdentStart (c : Nat) : Bool := (97 ≤ c && c ≤ 122) || (65 ≤ c && c ≤ 90) || c == 95
def isIdentChar (c : Nat) : Bool := isIdentStart c || (48 ≤ c && c ≤ 57) || c == 45 || c == 46

inductive Tok | semi | lbrace | rbrace | kw | ext
  deriving Repr, DecidableEq, BEq

/-- `lysp_match_kw(in, &indent)` for a non-structural first byte: (keyword matched, bytes consumed from the input
    — 0 after the back-out `in->current = start` —, amount added to `*indent`, which the back-out does not undo) -/
def matchKw (inp : Bytes) : Bool × Nat × Nat :=
  match inp with
  | [] => (false, 0, 0)
  | c :: cs =>
    match yangKwTrie.find? (fun e => e.1 == c) with
    | none => (false, 0, 0)
    | some e =>
      let (m, k, r) := walkAlts 8 e.2 cs
      if isAlnum (rd r 0) then (false, 0, 1 + k) else (m, 1 + k, 1 + k)

/-- the `extension:` loop of `get_keyword`: identifier characters up to a separator; `pfx` is the `prefix`
    state (0 none yet, 1 just after the colon, 2 in the local name); `first` = at the start of the word -/
def extLoop : (fuel : Nat) → (first : Bool) → (pfx : Nat) → (ind : Nat) → (n : Nat) → Bytes → Except LexErr (Nat × Nat × Nat × Bytes)
  | 0, _, _, _, _, _ => .error .fuel
  | _, _, _, _, _, [] => .error .eof
  | f + 1, first, pfx, ind, n, c :: cs =>
    if c == 32 || c == 9 || c == 10 || c == 13 || c == 123 || c == 59 then .ok (pfx, ind, n, c :: cs)
    else match getUtf8 (c :: cs) with
      | none => .error .inChar
      | some (cp, len) =>
        if first || pfx == 1 then
          if !isIdentStart cp then .error .idFirst
          else extLoop f false (if first then 0 else 2) (ind + 1) (n + len) ((c :: cs).drop len)
        else if cp == 58 && pfx == 0 then extLoop f false 1 (ind + 1) (n + len) ((c :: cs).drop len)
        else if !isIdentChar cp then .error .idChar
        else extLoop f false pfx (ind + 1) (n + len) ((c :: cs).drop len)

/-- skipping of `optsep` and comments at the start of `get_keyword` -/
def skipSep : (fuel : Nat) → (ind : Nat) → Bytes → Except LexErr (Nat × Bytes)
  | 0, _, _ => .error .fuel
  | _, ind, [] => .ok (ind, [])
  | f + 1, ind, c :: cs =>
    if c == 47 then
      match cs with
      | 47 :: r => match skipComment 1 (ind + 2) r with
        | .error e => .error e
        | .ok (ind', r') => skipSep f ind' r'
      | 42 :: r => match skipComment 2 (ind + 2) r with
        | .error e => .error e
        | .ok (ind', r') => skipSep f ind' r'
      | _ => .error .idFirst
    else if c == 10 then skipSep f 0 cs
    else if c == 32 then skipSep f (ind + 1) cs
    else if c == 9 then skipSep f (ind + Y_TAB_SPACES) cs
    else if c == 13 then
      match cs with
      | 10 :: _ => skipSep f ind cs
      | _ => .ok (ind, c :: cs)
    else .ok (ind, c :: cs)

structure KwRes where
  tok : Tok
  word : Bytes
  ind : Nat
  depth : Nat
  rest : Bytes
  deriving Repr, BEq

def kwInput : Bytes := [105, 110, 112, 117, 116]
def kwOutput : Bytes := [111, 117, 116, 112, 117, 116]

/-- `isalnum(c) || c == '_' || c == '-' || c == '.'` (C locale) -/
def isIdCont (c : UInt8) : Bool :=
  (48 ≤ c && c ≤ 57) || (65 ≤ c && c ≤ 90) || (97 ≤ c && c ≤ 122) || c == 95 || c == 45 || c == 46

/-- `get_keyword` from `keyword_start:` on (after `optsep` and comments); `depth` is `ctx->depth` (a `uint32_t`) -/
def kwAt (ind depth : Nat) (s : Bytes) : Except LexErr KwRes :=
  match s with
  | 59 :: r => .ok { tok := .semi, word := [59], ind := ind + 1, depth := depth, rest := r }
  | 123 :: r =>
    let d := (depth + 1) % 4294967296      -- `ctx->depth++` on a `uint32_t`
    if d > LY_MAX_BLOCK_DEPTH then .error .maxDepth
    else .ok { tok := .lbrace, word := [123], ind := ind + 1, depth := d, rest := r }
  | 125 :: r => .ok { tok := .rbrace, word := [125], ind := ind + 1, depth := (depth + 4294967295) % 4294967296, rest := r }
  | _ =>
    let (m, k, dind) := matchKw s
    let ind1 := ind + dind
    let r := s.drop k
    let ext (first : Bool) (pfx : Nat) (ind : Nat) (n : Nat) (r : Bytes) : Except LexErr KwRes :=
      match extLoop (r.length + 1) first pfx ind n r with
      | .error e => .error e
      | .ok (pfx', ind', n', r') =>
        if pfx' != 2 then .error .inStrExp
        else .ok { tok := .ext, word := s.take n', ind := ind', depth := depth, rest := r' }
    if m then
      match r with
      | [] => .error .inStrExp
      | c :: cs =>
        if c == 13 then
          match cs with
          | 10 :: _ => .ok { tok := .kw, word := s.take (k + 1), ind := ind1 + 1, depth := depth, rest := cs }
          | _ => .error .inChar
        else if c == 10 || c == 9 || c == 32 then .ok { tok := .kw, word := s.take k, ind := ind1, depth := depth, rest := r }
        else if c == 58 then ext false 1 (ind1 + 1) (k + 1) cs
        else if (c == 123 || c == 59) && (s.take k == kwInput || s.take k == kwOutput) then
          .ok { tok := .kw, word := s.take k, ind := ind1, depth := depth, rest := r }
        else if isIdCont c then
          -- an identifier that only starts with a keyword: it can still be the prefix of an extension instance (since the
          -- `fix:` for F105; before, this was `inStrExp`)
          ext false 0 ind1 k r
        else .error .inStrExp
    else ext (k == 0) 0 ind1 k r

/-- `get_keyword` -/
def getKeyword (ind depth : Nat) (inp : Bytes) : Except LexErr KwRes :=
  match skipSep (inp.length + 1) ind inp with
  | .error e => .error e
  | .ok (ind, s) => kwAt ind depth s

/-! ## generic statements (`parse_ext_substmt`) -/

/-- `parse_ext_substmt(ctx, kw, word, word_len, &child)` after the keyword `word` has been read: the statement
    with its subtree, `ctx->indent`, `ctx->depth`, the rest. -/
def parseStmt : (fuel : Nat) → (word : Bytes) → (ind depth : Nat) → Bytes → Except LexErr (Stmt × Nat × Nat × Bytes)
  | 0, _, _, _, _ => .error .fuel
  | f + 1, word, ind, depth, inp =>
    match getArgument true ind inp with
    | .error e => .error e
    | .ok a =>
      match getKeyword a.ind depth a.rest with
      | .error e => .error e
      | .ok k =>
        if k.tok == .semi then .ok (.mk word a.word a.flags [], k.ind, k.depth, k.rest)
        else if k.tok != .lbrace then .error .expSemiBrace
        else
          match parseChildren f k.ind k.depth k.rest with
          | .error e => .error e
          | .ok (cs, ind', depth', rest') => .ok (.mk word a.word a.flags cs, ind', depth', rest')
where
  /-- the `YANG_READ_SUBSTMT_FOR_GOTO` loop: keywords until the closing brace -/
  parseChildren : (fuel : Nat) → (ind depth : Nat) → Bytes → Except LexErr (List Stmt × Nat × Nat × Bytes)
  | 0, _, _, _ => .error .fuel
  | f + 1, ind, depth, inp =>
    match getKeyword ind depth inp with
    | .error e => .error e
    | .ok k =>
      if k.tok == .rbrace then .ok ([], k.ind, k.depth, k.rest)
      else
        match parseStmt f k.word k.ind k.depth k.rest with
        | .error e => .error e
        | .ok (s, ind', depth', rest') =>
          match parseChildren f ind' depth' rest' with
          | .error e => .error e
          | .ok (ss, ind'', depth'', rest'') => .ok (s :: ss, ind'', depth'', rest'')

/-- harness op `stmts`: statements from the start of a text until `get_keyword` fails (at the latest at the end of
    the input, with `Eof`): the statements read and the error that ended the loop -/
def parseTop : (fuel : Nat) → (ind depth : Nat) → Bytes → List Stmt × LexErr
  | 0, _, _, _ => ([], .fuel)
  | f + 1, ind, depth, inp =>
    match getKeyword ind depth inp with
    | .error e => ([], e)
    | .ok k =>
      match parseStmt (inp.length + 1) k.word k.ind k.depth k.rest with
      | .error e => ([], e)
      | .ok (s, ind', depth', rest') =>
        let (ss, e) := parseTop f ind' depth' rest'
        (s :: ss, e)

end LyModel.YangStr
