import LyModel.YangStr.LemmasArg
/-!
`get_keyword` / `parse_ext_substmt` run over what `yprp_stmt` printed: building blocks of `stmt_tree_roundtrip`.
-/
namespace LyModel.YangStr
open LyModel.Utf8 LyModel.Generated

/-- a byte at which the skipping of `optsep` and comments stops -/
def StartChar (c : UInt8) : Prop := c ≠ 47 ∧ c ≠ 10 ∧ c ≠ 32 ∧ c ≠ 9 ∧ c ≠ 13

instance (c : UInt8) : Decidable (StartChar c) := by unfold StartChar; exact inferInstance

theorem skipSep_stop (f ind : Nat) (c : UInt8) (r : Bytes) (h : StartChar c) :
    skipSep (f + 1) ind (c :: r) = .ok (ind, c :: r) := by
  obtain ⟨h47, h10, h32, h9, h13⟩ := h
  simp [skipSep, h47, h10, h32, h9, h13]

theorem skipSep_nl (f ind : Nat) (r : Bytes) : skipSep (f + 1) ind (10 :: r) = skipSep f 0 r := by
  simp [skipSep]

theorem skipSep_spaces (n : Nat) : ∀ (f ind : Nat) (r : Bytes),
    skipSep (f + n) ind (spaces n ++ r) = skipSep f (ind + n) r := by
  induction n with
  | zero => intro f ind r; simp [spaces]
  | succ n ih =>
    intro f ind r
    have e : spaces (n + 1) ++ r = 32 :: (spaces n ++ r) := by simp [spaces, List.replicate_succ]
    rw [e, show f + (n + 1) = (f + n) + 1 by omega]
    have : skipSep (f + n + 1) ind (32 :: (spaces n ++ r)) = skipSep (f + n) (ind + 1) (spaces n ++ r) := by
      simp [skipSep]
    rw [this, ih]
    congr 1; omega

theorem getKeyword_nl_spaces (ind depth n : Nat) (c : UInt8) (r : Bytes) (h : StartChar c) :
    getKeyword ind depth (10 :: (spaces n ++ c :: r)) = kwAt n depth (c :: r) := by
  unfold getKeyword
  have hl : (10 :: (spaces n ++ c :: r)).length + 1 = ((r.length + 1) + 1 + n) + 1 := by
    simp [spaces_length]; omega
  rw [hl, skipSep_nl, skipSep_spaces, skipSep_stop _ _ _ _ h]
  simp

theorem getKeyword_spaces (ind depth n : Nat) (c : UInt8) (r : Bytes) (h : StartChar c) :
    getKeyword ind depth (spaces n ++ c :: r) = kwAt (ind + n) depth (c :: r) := by
  unfold getKeyword
  have hl : (spaces n ++ c :: r).length + 1 = ((r.length + 1) + 1) + n := by
    simp [spaces_length]; omega
  rw [hl, skipSep_spaces, skipSep_stop _ _ _ _ h]

theorem kwAt_semi (ind depth : Nat) (r : Bytes) :
    kwAt ind depth (59 :: r) = .ok { tok := .semi, word := [59], ind := ind + 1, depth := depth, rest := r } := rfl

theorem kwAt_rbrace (ind depth : Nat) (r : Bytes) (hd : 0 < depth) (hd2 : depth < 4294967296) :
    kwAt ind depth (125 :: r) = .ok { tok := .rbrace, word := [125], ind := ind + 1, depth := depth - 1, rest := r } := by
  have hm : (depth + 4294967295) % 4294967296 = depth - 1 := by omega
  have : kwAt ind depth (125 :: r) =
      .ok { tok := .rbrace, word := [125], ind := ind + 1, depth := (depth + 4294967295) % 4294967296, rest := r } := rfl
  rw [this, hm]

theorem kwAt_lbrace (ind depth : Nat) (r : Bytes) (hd : depth + 1 ≤ LY_MAX_BLOCK_DEPTH) :
    kwAt ind depth (123 :: r) = .ok { tok := .lbrace, word := [123], ind := ind + 1, depth := depth + 1, rest := r } := by
  have h500 : LY_MAX_BLOCK_DEPTH = 500 := rfl
  have hm : (depth + 1) % 4294967296 = depth + 1 := Nat.mod_eq_of_lt (by omega)
  have : kwAt ind depth (123 :: r) =
      (if (depth + 1) % 4294967296 > LY_MAX_BLOCK_DEPTH then .error .maxDepth
       else .ok { tok := .lbrace, word := [123], ind := ind + 1, depth := (depth + 1) % 4294967296, rest := r }) := rfl
  rw [this, hm, if_neg (by omega)]

end LyModel.YangStr

namespace LyModel.YangStr
open LyModel.Utf8 LyModel.Generated

/-! ### unquoted arguments -/

/-- a `/` is never followed by `/` or `*` (no comment starter inside an unquoted string) -/
def NoCmt : Bytes → Prop
  | [] => True
  | [_] => True
  | a :: b :: r => ¬ (a = 47 ∧ (b = 47 ∨ b = 42)) ∧ NoCmt (b :: r)

instance NoCmt.dec : (a : Bytes) → Decidable (NoCmt a)
  | [] => isTrue trivial
  | [_] => isTrue trivial
  | a :: b :: r => by
    unfold NoCmt
    exact @instDecidableAnd _ _ inferInstance (NoCmt.dec (b :: r))

/-- a byte that neither ends nor is forbidden in an unquoted string -/
def PlainByte (b : UInt8) : Prop :=
  b ≠ 32 ∧ b ≠ 9 ∧ b ≠ 10 ∧ b ≠ 13 ∧ b ≠ 59 ∧ b ≠ 123 ∧ b ≠ 125 ∧ b ≠ 34 ∧ b ≠ 39

instance (b : UInt8) : Decidable (PlainByte b) := by unfold PlainByte; exact inferInstance

theorem NoCmt_tail (c : UInt8) (r : Bytes) (h : NoCmt (c :: r)) : NoCmt r := by
  cases r with
  | nil => trivial
  | cons b r => exact h.2

theorem NoCmt_drop (ch r : Bytes) (h : NoCmt (ch ++ r)) : NoCmt r := by
  induction ch with
  | nil => exact h
  | cons b bs ih => exact ih (NoCmt_tail b _ h)

theorem getArgLoop_store_ascii (maybe : Bool) (f ind : Nat) (racc : Bytes) (c : UInt8) (cs : Bytes)
    (hp : PlainByte c) (hslash : c = 47 → ∀ r, cs ≠ 47 :: r ∧ cs ≠ 42 :: r)
    (hc : charAt (c :: cs) = some (c.toNat, 1)) :
    getArgLoop maybe (f + 1) ind racc (c :: cs) = getArgLoop maybe f (ind + 1) (c :: racc) cs := by
  obtain ⟨h32, h9, h10, h13, h59, h123, h125, h34, h39⟩ := hp
  have h10' : ¬ c.toNat = 10 := uint8_toNat_ne c 10 h10
  by_cases h47 : c = 47
  · subst h47
    have hs := hslash rfl
    cases cs with
    | nil => simp [getArgLoop, storeChar_ascii 47 [] _ _ hc]
    | cons d ds =>
      have hd47 : d ≠ 47 := fun e => (hs ds).1 (by rw [e])
      have hd42 : d ≠ 42 := fun e => (hs ds).2 (by rw [e])
      simp [getArgLoop, storeChar_ascii 47 (d :: ds) _ _ hc, hd47, hd42]
  · simp [getArgLoop, h32, h9, h10, h13, h59, h123, h125, h34, h39, h47, storeChar_ascii c cs _ _ hc, h10']

theorem getArgLoop_store_multi (maybe : Bool) (f ind : Nat) (racc ch cs : Bytes) (cp : Nat) (h2 : 2 ≤ ch.length)
    (hge : ∀ b ∈ ch, 0x80 ≤ b) (hc : charAt (ch ++ cs) = some (cp, ch.length)) :
    getArgLoop maybe (f + 1) ind racc (ch ++ cs) =
      getArgLoop maybe f (if cp == 10 then 0 else ind + 1) (ch.reverse ++ racc) cs := by
  cases ch with
  | nil => simp at h2
  | cons b bs =>
    have hb := hge b (by simp)
    have e := storeChar_multi (b :: bs) cs cp ind racc hc
    rw [List.cons_append] at e ⊢
    simp [getArgLoop, ge80_ne b hb 39 (by decide), ge80_ne b hb 34 (by decide), ge80_ne b hb 47 (by decide),
      ge80_ne b hb 32 (by decide), ge80_ne b hb 9 (by decide), ge80_ne b hb 13 (by decide), ge80_ne b hb 10 (by decide),
      ge80_ne b hb 59 (by decide), ge80_ne b hb 123 (by decide), ge80_ne b hb 125 (by decide), e]

theorem getArgLoop_end (maybe : Bool) (f ind : Nat) (racc : Bytes) (t : UInt8) (r : Bytes) (ht : t = 59 ∨ t = 32)
    (hne : racc ≠ []) :
    getArgLoop maybe (f + 1) ind racc (t :: r) =
      .ok { word := some racc.reverse, flags := 0, ind := ind, rest := t :: r } := by
  have hemp : racc.isEmpty = false := by cases racc with
    | nil => exact absurd rfl hne
    | cons _ _ => rfl
  rcases ht with rfl | rfl <;> simp [getArgLoop, argDone, hemp]

theorem getArgLoop_unquoted (maybe : Bool) :
    ∀ a, YChars a → (∀ b ∈ a, PlainByte b) → ∀ (t : UInt8), (t = 59 ∨ t = 32) → NoCmt (a ++ [t]) →
    ∀ (fuel ind : Nat) (racc rest : Bytes), (a ++ t :: rest).length + 1 ≤ fuel → (racc ≠ [] ∨ a ≠ []) →
      ∃ ind', getArgLoop maybe fuel ind racc (a ++ t :: rest) =
        .ok { word := some (racc.reverse ++ a), flags := 0, ind := ind', rest := t :: rest } := by
  intro a ha
  induction ha with
  | nil =>
    intro _ t ht _ fuel ind racc rest hf hne
    obtain ⟨f, rfl⟩ : ∃ f, fuel = f + 1 := ⟨fuel - 1, by simp at hf; omega⟩
    have hr : racc ≠ [] := by rcases hne with h | h; exact h; exact absurd rfl h
    exact ⟨ind, by simpa using getArgLoop_end maybe f ind racc t rest ht hr⟩
  | ascii c r hlt hne0 hall hrest ih =>
    intro hp t ht hnc fuel ind racc rest hf _
    obtain ⟨f, rfl⟩ : ∃ f, fuel = f + 1 := ⟨fuel - 1, by simp at hf; omega⟩
    have hslash : c = 47 → ∀ q, (r ++ t :: rest) ≠ 47 :: q ∧ (r ++ t :: rest) ≠ 42 :: q := by
      intro hc q
      cases r with
      | nil =>
        simp only [List.nil_append]
        have h1 := hnc
        simp only [List.cons_append, List.nil_append] at h1
        constructor
        · intro e; injection e with e1 _; exact h1.1 ⟨hc, Or.inl e1⟩
        · intro e; injection e with e1 _; exact h1.1 ⟨hc, Or.inr e1⟩
      | cons d ds =>
        have h1 := hnc
        simp only [List.cons_append] at h1 ⊢
        constructor
        · intro e; injection e with e1 _; exact h1.1 ⟨hc, Or.inl e1⟩
        · intro e; injection e with e1 _; exact h1.1 ⟨hc, Or.inr e1⟩
    rw [List.cons_append, getArgLoop_store_ascii maybe f ind racc c _ (hp c (by simp)) hslash (hall _)]
    obtain ⟨ind', e⟩ := ih (fun b hb => hp b (by simp [hb])) t ht (NoCmt_tail c _ (by simpa using hnc)) f (ind + 1) (c :: racc) rest
      (by simp at hf ⊢; omega) (Or.inl (by simp))
    exact ⟨ind', by rw [e]; simp⟩
  | multi ch r cp h2 hge hall hrest ih =>
    intro hp t ht hnc fuel ind racc rest hf _
    obtain ⟨f, rfl⟩ : ∃ f, fuel = f + 1 := ⟨fuel - 1, by simp at hf; omega⟩
    rw [List.append_assoc, getArgLoop_store_multi maybe f ind racc ch _ cp h2 hge (hall _)]
    obtain ⟨ind', e⟩ := ih (fun b hb => hp b (by simp [hb])) t ht (NoCmt_drop ch _ (by simpa using hnc)) f _ (ch.reverse ++ racc) rest
      (by simp at hf ⊢; omega) (Or.inl (by
        cases ch with
        | nil => simp at h2
        | cons b bs => simp))
    exact ⟨ind', by rw [e]; simp⟩

theorem getUtf8_ascii (c : UInt8) (cs : Bytes) (h1 : (c &&& 0x80 == 0) = true)
    (h2 : (c < 0x20 && c != 0x9 && c != 0xa && c != 0xd) = false) : getUtf8 (c :: cs) = some (c.toNat, 1) := by
  unfold getUtf8
  simp only [rd, List.getD_cons_zero, h1, if_true, h2]
  simp

end LyModel.YangStr
