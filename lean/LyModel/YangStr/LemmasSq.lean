import LyModel.YangStr.LemmasDq
/-!
The single-quoted state of `read_qstring` run over what `ypr_text` printed for a single-quoted text (no newline):
raw bytes, every run of `'` spliced in as `' + "'''" +\n<indent>'`.
-/
namespace LyModel.YangStr
open LyModel.Utf8 LyModel.Generated

theorem qloop_sq_store (f : Nat) (st : QSt) (c : UInt8) (cs : Bytes) (h39 : c ≠ 39)
    (hc : charAt (c :: cs) = some (c.toNat, 1)) :
    qloop (f + 1) .sq st (c :: cs) =
      qloop f .sq { st with ind := if c.toNat == 10 then 0 else st.ind + 1, racc := c :: st.racc } cs := by
  simp [qloop, h39, storeChar_ascii c cs _ _ hc]

theorem qloop_sq_multi (f : Nat) (st : QSt) (ch cs : Bytes) (cp : Nat) (h2 : 2 ≤ ch.length) (hge : ∀ b ∈ ch, 0x80 ≤ b)
    (hc : charAt (ch ++ cs) = some (cp, ch.length)) :
    qloop (f + 1) .sq st (ch ++ cs) =
      qloop f .sq { st with ind := if cp == 10 then 0 else st.ind + 1, racc := ch.reverse ++ st.racc } cs := by
  cases ch with
  | nil => simp at h2
  | cons b bs =>
    have hb := hge b (by simp)
    have e := storeChar_multi (b :: bs) cs cp st.ind st.racc hc
    rw [List.cons_append] at e ⊢
    simp [qloop, ge80_ne b hb 39 (by decide), e]

/-- `' + "` : from the single-quoted state into the double-quoted one -/
theorem qloop_sq_open (f : Nat) (st : QSt) (cs : Bytes) :
    qloop (f + 5) .sq st (sqOpen ++ cs) = qloop f .dq { st with ind := st.ind + 5 } cs := by
  simp [qloop, sqOpen]

theorem qloop_cont_skip_spaces (k : Nat) : ∀ (f : Nat) (st : QSt) (cs : Bytes),
    qloop (f + k) .cont st (spaces k ++ cs) = qloop f .cont { st with ind := st.ind + k } cs := by
  induction k with
  | zero => intro f st cs; simp [spaces]
  | succ k ih =>
    intro f st cs
    have e : spaces (k + 1) ++ cs = 32 :: (spaces k ++ cs) := by simp [spaces, List.replicate_succ]
    rw [e, show f + (k + 1) = (f + k) + 1 by omega]
    have : qloop (f + k + 1) .cont st (32 :: (spaces k ++ cs)) = qloop (f + k) .cont { st with ind := st.ind + 1 } (spaces k ++ cs) := by
      simp [qloop]
    rw [this, ih]
    simp only [Nat.add_assoc, Nat.add_comm 1 k]

/-- `" +\n<indent>'` : from the double-quoted state back into the single-quoted one -/
theorem qloop_sq_close (m f : Nat) (st : QSt) (cs : Bytes) :
    qloop (f + (m + 5)) .dq st (sqClose (spaces m) ++ cs) =
      qloop f .sq { st with ind := st.ind + (m + 5), tws := 0 } cs := by
  have e : sqClose (spaces m) ++ cs = 34 :: 32 :: 43 :: 10 :: (spaces m ++ (39 :: cs)) := by simp [sqClose]
  rw [e, show f + (m + 5) = ((f + 1) + m) + 4 by omega]
  have s1 : ∀ g (st : QSt) (r : Bytes), qloop (g + 4) .dq st (34 :: 32 :: 43 :: 10 :: r) =
      qloop g .cont { st with ind := st.ind + 4, tws := 0 } r := by
    intro g st r; simp [qloop]
  rw [s1, qloop_cont_skip_spaces]
  have s2 : ∀ g (st : QSt) (r : Bytes), qloop (g + 1) .cont st (39 :: r) = qloop g .sq { st with ind := st.ind + 1 } r := by
    intro g st r; simp [qloop]
  rw [s2]
  congr 1
  simp only [Nat.add_assoc]
  congr 1
  omega

theorem sqBody_sim (m : Nat) :
    ∀ s, YChars s →
    ∀ (run : Bool) (fuel : Nat) (st : QSt) (tail : Bytes),
      (sqBody (spaces m) run s ++ tail).length + 1 ≤ fuel →
      ∃ fuel' st', tail.length + 1 ≤ fuel' ∧ st'.racc = s.reverse ++ st.racc ∧
        qloop fuel (if run then .dq else .sq) st (sqBody (spaces m) run s ++ tail) = qloop fuel' .sq st' tail := by
  intro s hs
  induction hs with
  | nil =>
    intro run fuel st tail hf
    cases run with
    | false => exact ⟨fuel, st, by simpa [sqBody] using hf, by simp, by simp [sqBody]⟩
    | true =>
      have hb : sqBody (spaces m) true [] ++ tail = sqClose (spaces m) ++ tail := by simp [sqBody]
      rw [hb] at hf ⊢
      have hl : (sqClose (spaces m) ++ tail).length = tail.length + (m + 5) := by
        simp [sqClose, spaces_length]; omega
      obtain ⟨f, rfl⟩ : ∃ f, fuel = f + (m + 5) := ⟨fuel - (m + 5), by omega⟩
      refine ⟨f, _, by omega, ?_, by simpa using qloop_sq_close m f st tail⟩
      simp
  | ascii c rest hlt hne hall hrest ih =>
    intro run fuel st tail hf
    have ihT : ∀ (fuel : Nat) (st : QSt) (tail : Bytes), (sqBody (spaces m) true rest ++ tail).length + 1 ≤ fuel →
        ∃ fuel' st', tail.length + 1 ≤ fuel' ∧ st'.racc = rest.reverse ++ st.racc ∧
          qloop fuel .dq st (sqBody (spaces m) true rest ++ tail) = qloop fuel' .sq st' tail :=
      fun fuel st tail h => by simpa using ih true fuel st tail h
    have ihF : ∀ (fuel : Nat) (st : QSt) (tail : Bytes), (sqBody (spaces m) false rest ++ tail).length + 1 ≤ fuel →
        ∃ fuel' st', tail.length + 1 ≤ fuel' ∧ st'.racc = rest.reverse ++ st.racc ∧
          qloop fuel .sq st (sqBody (spaces m) false rest ++ tail) = qloop fuel' .sq st' tail :=
      fun fuel st tail h => by simpa using ih false fuel st tail h
    by_cases h39 : c = 39
    · subst h39
      cases run with
      | false =>
        have hb : sqBody (spaces m) false (39 :: rest) ++ tail = sqOpen ++ (39 :: (sqBody (spaces m) true rest ++ tail)) := by
          simp [sqBody]
        rw [hb] at hf ⊢
        have hl : (sqOpen ++ (39 :: (sqBody (spaces m) true rest ++ tail))).length = (sqBody (spaces m) true rest ++ tail).length + 6 := by
          simp [sqOpen]
        obtain ⟨f, rfl⟩ : ∃ f, fuel = (f + 1) + 5 := ⟨fuel - 6, by omega⟩
        simp only [Bool.false_eq_true, ↓reduceIte]
        rw [qloop_sq_open, qloop_dq_default f _ 39 _ (by decide) (by decide) (by decide) (by decide) (by decide) (by decide) (hall _)]
        obtain ⟨fuel', st', hf', hr', he'⟩ := ihT f
          { bi := st.bi, ci := st.bi, tws := 0, ind := st.ind + 5 + 1, racc := 39 :: st.racc } tail (by omega)
        exact ⟨fuel', st', hf', by rw [hr']; simp, he'⟩
      | true =>
        have hb : sqBody (spaces m) true (39 :: rest) ++ tail = 39 :: (sqBody (spaces m) true rest ++ tail) := by
          simp [sqBody]
        rw [hb] at hf ⊢
        obtain ⟨f, rfl⟩ : ∃ f, fuel = f + 1 := ⟨fuel - 1, by simp at hf; omega⟩
        simp only [↓reduceIte]
        rw [qloop_dq_default f _ 39 _ (by decide) (by decide) (by decide) (by decide) (by decide) (by decide) (hall _)]
        obtain ⟨fuel', st', hf', hr', he'⟩ := ihT f
          { st with ci := st.bi, ind := st.ind + 1, racc := 39 :: st.racc, tws := 0 } tail (by simp at hf ⊢; omega)
        exact ⟨fuel', st', hf', by rw [hr']; simp, he'⟩
    · cases run with
      | false =>
        have hb : sqBody (spaces m) false (c :: rest) ++ tail = c :: (sqBody (spaces m) false rest ++ tail) := by
          by_cases hc10 : c = 10 <;> simp [sqBody, hc10, h39]
        rw [hb] at hf ⊢
        obtain ⟨f, rfl⟩ : ∃ f, fuel = f + 1 := ⟨fuel - 1, by simp at hf; omega⟩
        simp only [Bool.false_eq_true, ↓reduceIte]
        rw [qloop_sq_store f st c _ h39 (hall _)]
        obtain ⟨fuel', st', hf', hr', he'⟩ := ihF f
          { st with ind := if c.toNat == 10 then 0 else st.ind + 1, racc := c :: st.racc } tail (by simp at hf ⊢; omega)
        exact ⟨fuel', st', hf', by rw [hr']; simp, he'⟩
      | true =>
        have hb : sqBody (spaces m) true (c :: rest) ++ tail = sqClose (spaces m) ++ (c :: (sqBody (spaces m) false rest ++ tail)) := by
          by_cases hc10 : c = 10 <;> simp [sqBody, hc10, h39]
        rw [hb] at hf ⊢
        have hl : (sqClose (spaces m) ++ (c :: (sqBody (spaces m) false rest ++ tail))).length =
            (sqBody (spaces m) false rest ++ tail).length + 1 + (m + 5) := by
          simp [sqClose, spaces_length]; omega
        obtain ⟨f, rfl⟩ : ∃ f, fuel = (f + 1) + (m + 5) := ⟨fuel - (m + 6), by omega⟩
        simp only [↓reduceIte]
        rw [qloop_sq_close, qloop_sq_store f _ c _ h39 (hall _)]
        obtain ⟨fuel', st', hf', hr', he'⟩ := ihF f
          { bi := st.bi, ci := st.ci, tws := 0, ind := if c.toNat == 10 then 0 else st.ind + (m + 5) + 1, racc := c :: st.racc } tail (by omega)
        exact ⟨fuel', st', hf', by rw [hr']; simp, he'⟩
  | multi ch rest cp h2 hge hall hrest ih =>
    intro run fuel st tail hf
    have ihF : ∀ (fuel : Nat) (st : QSt) (tail : Bytes), (sqBody (spaces m) false rest ++ tail).length + 1 ≤ fuel →
        ∃ fuel' st', tail.length + 1 ≤ fuel' ∧ st'.racc = rest.reverse ++ st.racc ∧
          qloop fuel .sq st (sqBody (spaces m) false rest ++ tail) = qloop fuel' .sq st' tail :=
      fun fuel st tail h => by simpa using ih false fuel st tail h
    have hrec : ∀ (l : Bytes), (∀ x ∈ l, 0x80 ≤ x) → sqBody (spaces m) false (l ++ rest) = l ++ sqBody (spaces m) false rest := by
      intro l hl
      induction l with
      | nil => rfl
      | cons x xs ihx =>
        have hx := hl x (by simp)
        rw [List.cons_append, sqBody]
        simp [ge80_ne x hx 10 (by decide), ge80_ne x hx 39 (by decide), ihx (fun y hy => hl y (by simp [hy]))]
    have hbodyT : sqBody (spaces m) true (ch ++ rest) = sqClose (spaces m) ++ (ch ++ sqBody (spaces m) false rest) := by
      cases ch with
      | nil => simp at h2
      | cons b bs =>
        have hb := hge b (by simp)
        rw [List.cons_append, sqBody]
        simp [ge80_ne b hb 10 (by decide), ge80_ne b hb 39 (by decide), hrec bs (fun y hy => hge y (by simp [hy]))]
    cases run with
    | false =>
      have hb : sqBody (spaces m) false (ch ++ rest) ++ tail = ch ++ (sqBody (spaces m) false rest ++ tail) := by
        rw [hrec ch hge]; simp
      rw [hb] at hf ⊢
      obtain ⟨f, rfl⟩ : ∃ f, fuel = f + 1 := ⟨fuel - 1, by rw [List.length_append] at hf; omega⟩
      simp only [Bool.false_eq_true, ↓reduceIte]
      rw [qloop_sq_multi f st ch _ cp h2 hge (hall _)]
      obtain ⟨fuel', st', hf', hr', he'⟩ := ihF f
        { st with ind := if cp == 10 then 0 else st.ind + 1, racc := ch.reverse ++ st.racc } tail (by rw [List.length_append] at hf; omega)
      exact ⟨fuel', st', hf', by rw [hr']; simp, he'⟩
    | true =>
      have hb : sqBody (spaces m) true (ch ++ rest) ++ tail = sqClose (spaces m) ++ (ch ++ (sqBody (spaces m) false rest ++ tail)) := by
        rw [hbodyT]; simp
      rw [hb] at hf ⊢
      have hl : (sqClose (spaces m) ++ (ch ++ (sqBody (spaces m) false rest ++ tail))).length =
          (sqBody (spaces m) false rest ++ tail).length + ch.length + (m + 5) := by
        simp [sqClose, spaces_length]; omega
      obtain ⟨f, rfl⟩ : ∃ f, fuel = (f + 1) + (m + 5) := ⟨fuel - (m + 6), by omega⟩
      simp only [↓reduceIte]
      rw [qloop_sq_close, qloop_sq_multi f _ ch _ cp h2 hge (hall _)]
      obtain ⟨fuel', st', hf', hr', he'⟩ := ihF f
        { bi := st.bi, ci := st.ci, tws := 0, ind := if cp == 10 then 0 else st.ind + (m + 5) + 1, racc := ch.reverse ++ st.racc } tail (by omega)
      exact ⟨fuel', st', hf', by rw [hr']; simp, he'⟩

end LyModel.YangStr
