import LyModel.YangStr.LemmasSq
/-!
`get_argument` / `read_qstring` run over what `ypr_encode` and `ypr_text` printed: the round-trip statements in the
form the property file quotes them.
-/
namespace LyModel.YangStr
open LyModel.Utf8 LyModel.Generated

theorem encode_readQString (s rest : Bytes) (col k : Nat) (hs : YChars s) (hcr : 13 ∉ s) (hr : RestOk rest) :
    ∃ ind', readQString col (34 :: (encode s ++ 34 :: (spaces k ++ rest))) = .ok (s, ind', rest) := by
  obtain ⟨fuel', st', hf', _, _, hr', he'⟩ := encode_sim s hs hcr ((encode s ++ 34 :: (spaces k ++ rest)).length + 1)
    { bi := col + 1, ci := col + 1, tws := 0, ind := col + 1, racc := [] } (34 :: (spaces k ++ rest)) rfl (Nat.le_refl _)
  obtain ⟨f, rfl⟩ : ∃ f, fuel' = ((f + 1) + k) + 1 := ⟨fuel' - (k + 2), by simp [spaces_length] at hf'; omega⟩
  refine ⟨st'.ind + 1 + k, ?_⟩
  simp only [readQString, beq_self_eq_true, if_true]
  rw [he', qloop_dq_quote, qloop_next_spaces, qloop_next_done _ _ _ hr]
  simp [hr']

/-- the same through `get_argument` (what the parser calls), at any column and after any amount of `optsep` is not
    needed here: the quote is the first byte -/
theorem getArgLoop_quote (maybe : Bool) (f ind : Nat) (cs w rest : Bytes) (ind' : Nat)
    (h : readQString ind (34 :: cs) = .ok (w, ind', rest)) :
    getArgLoop maybe (f + 1) ind [] (34 :: cs) =
      .ok { word := some w, flags := LYS_DOUBLEQUOTED, ind := ind', rest := rest } := by
  simp [getArgLoop, h]

theorem getArgLoop_squote (maybe : Bool) (f ind : Nat) (cs w rest : Bytes) (ind' : Nat)
    (h : readQString ind (39 :: cs) = .ok (w, ind', rest)) :
    getArgLoop maybe (f + 1) ind [] (39 :: cs) =
      .ok { word := some w, flags := LYS_SINGLEQUOTED, ind := ind', rest := rest } := by
  simp [getArgLoop, h]

theorem getArgLoop_space (maybe : Bool) (f ind : Nat) (cs : Bytes) :
    getArgLoop maybe (f + 1) ind [] (32 :: cs) = getArgLoop maybe f (ind + 1) [] cs := by
  simp [getArgLoop]

theorem getArgLoop_nl (maybe : Bool) (f ind : Nat) (cs : Bytes) :
    getArgLoop maybe (f + 1) ind [] (10 :: cs) = getArgLoop maybe f 0 [] cs := by
  simp [getArgLoop]

theorem getArgLoop_spaces (maybe : Bool) (k : Nat) : ∀ (f ind : Nat) (cs : Bytes),
    getArgLoop maybe (f + k) ind [] (spaces k ++ cs) = getArgLoop maybe f (ind + k) [] cs := by
  induction k with
  | zero => intro f ind cs; simp [spaces]
  | succ k ih =>
    intro f ind cs
    have e : spaces (k + 1) ++ cs = 32 :: (spaces k ++ cs) := by simp [spaces, List.replicate_succ]
    rw [e, show f + (k + 1) = (f + k) + 1 by omega, getArgLoop_space, ih]
    congr 1; omega

end LyModel.YangStr

namespace LyModel.YangStr
open LyModel.Utf8 LyModel.Generated

/-- a double-quoted text body whose continuation lines carry `n` blanks, read with the opening quote at (lexer)
    column `col` (`n ≤ col + 1`): faithful — if the blanks do not reach the column after the quote (`n < col + 1`),
    provided no continuation line starts with a blank -/
theorem dqBody_readQString (n col : Nat) (s rest : Bytes) (hn : n ≤ col + 1) (hs : YChars s) (hcr : 13 ∉ s)
    (hns : n < col + 1 → NoNlSp s) (hr : RestOk rest) (k : Nat) :
    ∃ ind', readQString col (34 :: (dqBody n false s ++ 34 :: (spaces k ++ rest))) = .ok (s, ind', rest) := by
  obtain ⟨fuel', st', hf', _, hr', he'⟩ := dqBody_sim n (col + 1) hn (by omega) s hs hcr hns false
    ((dqBody n false s ++ 34 :: (spaces k ++ rest)).length + 1)
    { bi := col + 1, ci := col + 1, tws := 0, ind := col + 1, racc := [] } (34 :: (spaces k ++ rest))
    ⟨rfl, Nat.le_refl _, fun h => absurd h (Nat.lt_irrefl _), fun h => absurd rfl h⟩ (Nat.le_refl _)
  obtain ⟨f, rfl⟩ : ∃ f, fuel' = ((f + 1) + k) + 1 := ⟨fuel' - (k + 2), by simp [spaces_length] at hf'; omega⟩
  refine ⟨st'.ind + 1 + k, ?_⟩
  simp only [readQString, beq_self_eq_true, if_true]
  rw [he', qloop_dq_quote, qloop_next_spaces, qloop_next_done _ _ _ hr]
  simp [hr']

theorem sqBody_readQString (m col : Nat) (s rest : Bytes) (hs : YChars s) (hr : RestOk rest) (k : Nat) :
    ∃ ind', readQString col (39 :: (sqBody (spaces m) false s ++ 39 :: (spaces k ++ rest))) = .ok (s, ind', rest) := by
  obtain ⟨fuel', st', hf', hr', he'⟩ := sqBody_sim m s hs false
    ((sqBody (spaces m) false s ++ 39 :: (spaces k ++ rest)).length + 1)
    { bi := 0, ci := 0, tws := 0, ind := col + 1, racc := [] } (39 :: (spaces k ++ rest)) (Nat.le_refl _)
  obtain ⟨f, rfl⟩ : ∃ f, fuel' = ((f + 1) + k) + 1 := ⟨fuel' - (k + 2), by simp [spaces_length] at hf'; omega⟩
  refine ⟨st'.ind + 1 + k, ?_⟩
  have e0 : ((39 : UInt8) == 34) = false := by decide
  simp only [readQString, e0, Bool.false_eq_true, if_false]
  simp only [Bool.false_eq_true, if_false] at he'
  rw [he']
  have : qloop (f + 1 + k + 1) .sq st' (39 :: (spaces k ++ rest)) =
      qloop (f + 1 + k) .next { st' with ind := st'.ind + 1 } (spaces k ++ rest) := by
    simp [qloop]
  rw [this, qloop_next_spaces, qloop_next_done _ _ _ hr]
  simp [hr']

theorem indentOf_eq (fmt : Bool) (level : Nat) : indentOf fmt level = spaces (indentOf fmt level).length := by
  simp [indentOf, spaces]

theorem incLevel_eq (level : Nat) (h : level + 1 < 65536) : incLevel level = level + 1 := by
  simp [incLevel, Nat.mod_eq_of_lt h]

theorem printTextArg_single (fmt : Bool) (level flags nameLen : Nat) (text : Bytes)
    (h : (flagSingleLine flags && !(flagSingleQuoted flags && text.contains 39)) = true) :
    printTextArg fmt level flags nameLen text =
      32 :: (if flagSingleQuoted flags then 39 else 34) ::
        ((if flagSingleQuoted flags then sqBody (indentOf fmt level) false text
          else dqBody ((indentOf fmt level).length + nameLen + 2) false text) ++
          [if flagSingleQuoted flags then 39 else 34]) := by
  unfold printTextArg
  simp only [h, if_true]
  rfl

theorem printTextArg_block (fmt : Bool) (level flags nameLen : Nat) (text : Bytes)
    (h : (flagSingleLine flags && !(flagSingleQuoted flags && text.contains 39)) = false) :
    printTextArg fmt level flags nameLen text =
      10 :: (indentOf fmt (incLevel level) ++ (if flagSingleQuoted flags then 39 else 34) ::
        ((if flagSingleQuoted flags then sqBody (indentOf fmt (incLevel level)) false text
          else dqBody ((indentOf fmt (incLevel level)).length + 1) false text) ++
          [if flagSingleQuoted flags then 39 else 34])) := by
  unfold printTextArg
  simp only [h, Bool.false_eq_true, if_false]
  simp

/-- `get_argument` over newline, `k` blanks and a quoted string -/
theorem getArgLoop_nl_spaces (maybe : Bool) (k fuel ind : Nat) (cs : Bytes) (r : Except LexErr ArgRes) (hf : k + 2 ≤ fuel)
    (h : ∀ f, getArgLoop maybe (f + 1) (0 + k) [] cs = r) :
    getArgLoop maybe fuel ind [] (10 :: (spaces k ++ cs)) = r := by
  obtain ⟨f, rfl⟩ : ∃ f, fuel = ((f + 1) + k) + 1 := ⟨fuel - (k + 2), by omega⟩
  rw [getArgLoop_nl, getArgLoop_spaces, h]

/-- double-quoted `ypr_text` output read by `get_argument`; in a single-line statement the lexer's column counter
    after the keyword is the true column (`ind = indentation + length of the name`) -/
theorem text_dq_getArgument (maybe fmt : Bool) (level flags nameLen ind : Nat) (s rest : Bytes)
    (hq : flagSingleQuoted flags = false) (hs : YChars s) (hcr : 13 ∉ s)
    (hind : flagSingleLine flags = true → ind = (indentOf fmt level).length + nameLen)
    (hr : RestOk rest) (k : Nat) :
    ∃ ind', getArgument maybe ind (printTextArg fmt level flags nameLen s ++ (spaces k ++ rest)) =
      .ok { word := some s, flags := LYS_DOUBLEQUOTED, ind := ind', rest := rest } := by
  cases hsl : flagSingleLine flags with
  | true =>
    have harg : printTextArg fmt level flags nameLen s ++ (spaces k ++ rest) =
        32 :: 34 :: (dqBody ((indentOf fmt level).length + nameLen + 2) false s ++ 34 :: (spaces k ++ rest)) := by
      rw [printTextArg_single _ _ _ _ _ (by simp [hsl, hq])]
      simp [hq]
    have hi := hind hsl
    obtain ⟨ind', h⟩ := dqBody_readQString ((indentOf fmt level).length + nameLen + 2) (ind + 1) s rest (by omega) hs hcr
      (fun h => absurd h (by omega)) hr k
    refine ⟨ind', ?_⟩
    rw [harg]
    simp only [getArgument, List.length_cons]
    rw [getArgLoop_space, getArgLoop_quote _ _ _ _ _ _ _ h]
  | false =>
    have harg : printTextArg fmt level flags nameLen s ++ (spaces k ++ rest) =
        10 :: (spaces (indentOf fmt (incLevel level)).length ++
          34 :: (dqBody ((indentOf fmt (incLevel level)).length + 1) false s ++ 34 :: (spaces k ++ rest))) := by
      rw [printTextArg_block _ _ _ _ _ (by simp [hsl]), ← indentOf_eq]
      simp [hq]
    obtain ⟨ind', h⟩ := dqBody_readQString ((indentOf fmt (incLevel level)).length + 1) (0 + (indentOf fmt (incLevel level)).length) s rest
      (by omega) hs hcr (fun h => absurd h (by omega)) hr k
    refine ⟨ind', ?_⟩
    rw [harg]
    unfold getArgument
    apply getArgLoop_nl_spaces
    · simp [spaces_length]
    · intro f
      exact getArgLoop_quote _ _ _ _ _ _ _ h

/-- single-quoted `ypr_text` output read by `get_argument` -/
theorem text_sq_getArgument (maybe fmt : Bool) (level flags nameLen ind : Nat) (s rest : Bytes)
    (hq : flagSingleQuoted flags = true) (hs : YChars s) (hr : RestOk rest) (k : Nat) :
    ∃ ind', getArgument maybe ind (printTextArg fmt level flags nameLen s ++ (spaces k ++ rest)) =
      .ok { word := some s, flags := LYS_SINGLEQUOTED, ind := ind', rest := rest } := by
  cases hsl : (flagSingleLine flags && !(flagSingleQuoted flags && s.contains 39)) with
  | true =>
    have harg : printTextArg fmt level flags nameLen s ++ (spaces k ++ rest) =
        32 :: 39 :: (sqBody (spaces (indentOf fmt level).length) false s ++ 39 :: (spaces k ++ rest)) := by
      rw [printTextArg_single _ _ _ _ _ hsl, ← indentOf_eq]
      simp [hq]
    obtain ⟨ind', h⟩ := sqBody_readQString (indentOf fmt level).length (ind + 1) s rest hs hr k
    refine ⟨ind', ?_⟩
    rw [harg]
    simp only [getArgument, List.length_cons]
    rw [getArgLoop_space, getArgLoop_squote _ _ _ _ _ _ _ h]
  | false =>
    have harg : printTextArg fmt level flags nameLen s ++ (spaces k ++ rest) =
        10 :: (spaces (indentOf fmt (incLevel level)).length ++
          39 :: (sqBody (spaces (indentOf fmt (incLevel level)).length) false s ++ 39 :: (spaces k ++ rest))) := by
      rw [printTextArg_block _ _ _ _ _ hsl, ← indentOf_eq]
      simp [hq]
    obtain ⟨ind', h⟩ := sqBody_readQString (indentOf fmt (incLevel level)).length (0 + (indentOf fmt (incLevel level)).length) s rest
      hs hr k
    refine ⟨ind', ?_⟩
    rw [harg]
    unfold getArgument
    apply getArgLoop_nl_spaces
    · simp [spaces_length]
    · intro f
      exact getArgLoop_squote _ _ _ _ _ _ _ h

end LyModel.YangStr

namespace LyModel.YangStr

theorem infix_cons_of_infix {a b : UInt8} (c : UInt8) (r : Bytes) (h : [a, b] <:+: r) : [a, b] <:+: c :: r := by
  obtain ⟨p, q, e⟩ := h
  exact ⟨c :: p, q, by simp [← e]⟩

theorem noSpNl_of_not_infix : ∀ s : Bytes, ¬ [32, 10] <:+: s → NoSpNl s
  | [], _ => trivial
  | [_], _ => trivial
  | a :: b :: r, h => by
    refine ⟨?_, noSpNl_of_not_infix (b :: r) (fun h' => h (infix_cons_of_infix a _ h'))⟩
    rintro ⟨rfl, rfl⟩
    exact h ⟨[], r, rfl⟩

theorem noNlSp_of_not_infix : ∀ s : Bytes, ¬ [10, 32] <:+: s → NoNlSp s
  | [], _ => trivial
  | [_], _ => trivial
  | a :: b :: r, h => by
    refine ⟨?_, noNlSp_of_not_infix (b :: r) (fun h' => h (infix_cons_of_infix a _ h'))⟩
    rintro ⟨rfl, rfl⟩
    exact h ⟨[], r, rfl⟩

end LyModel.YangStr
