import LyModel.YangStr.LemmasUtf8
/-!
One-step equations of the `read_qstring` automaton (`qloop`) and the inductive view of valid text.
-/
namespace LyModel.YangStr
open LyModel.Utf8 LyModel.Generated

/-- inductive view of `isYangText`: a sequence of characters, each one ASCII byte or a block of bytes `≥ 0x80`,
    each accepted by `buf_store_char` whatever follows -/
inductive YChars : Bytes → Prop
  | nil : YChars []
  | ascii (c : UInt8) (rest : Bytes) : c < 0x80 → c ≠ 0 → (∀ t, charAt (c :: t) = some (c.toNat, 1)) → YChars rest →
      YChars (c :: rest)
  | multi (ch rest : Bytes) (cp : Nat) : 2 ≤ ch.length → (∀ b ∈ ch, 0x80 ≤ b) →
      (∀ t, charAt (ch ++ t) = some (cp, ch.length)) → YChars rest → YChars (ch ++ rest)

theorem ychars_of_validText : ∀ (f : Nat) (s : Bytes), validText f s = true → YChars s := by
  intro f
  induction f with
  | zero => intro s h; simp [validText] at h
  | succ f ih =>
    intro s h
    cases s with
    | nil => exact .nil
    | cons c cs =>
      unfold validText at h
      split at h
      · rename_i cp n hc
        obtain ⟨ch, rest, he, hl, hall, hsh⟩ := charAt_spec _ _ _ hc
        have hd : (c :: cs).drop n = rest := by rw [he, ← hl]; simp
        rw [hd] at h
        have ihr := ih rest h
        rcases hsh with ⟨c', rfl, hlt, hne, hcp⟩ | ⟨h2, hge⟩
        · rw [he]
          refine .ascii c' rest hlt hne ?_ ihr
          intro t
          have := hall t
          simpa [hcp, ← hl] using this
        · rw [he]
          refine .multi ch rest cp (by omega) hge ?_ ihr
          intro t
          rw [hl]
          exact hall t
      · simp at h

theorem ychars_of_isYangText (s : Bytes) (h : isYangText s = true) : YChars s :=
  ychars_of_validText _ s h

end LyModel.YangStr

namespace LyModel.YangStr
open LyModel.Utf8 LyModel.Generated

/-! ### printer side -/

set_option maxRecDepth 100000 in
theorem encByte_plain : ∀ c : UInt8, c ≠ 9 → c ≠ 10 → c ≠ 34 → c ≠ 92 → encByte c = [c] := by
  apply forall_uint8; decide

theorem encByte_9 : encByte 9 = [92, 116] := by decide
theorem encByte_10 : encByte 10 = [92, 110] := by decide
theorem encByte_34 : encByte 34 = [92, 34] := by decide
theorem encByte_92 : encByte 92 = [92, 92] := by decide
theorem unesc_116 : unesc 116 = some 9 := by decide
theorem unesc_110 : unesc 110 = some 10 := by decide
theorem unesc_34 : unesc 34 = some 34 := by decide
theorem unesc_92 : unesc 92 = some 92 := by decide

theorem ge80_ne (b : UInt8) (h : 0x80 ≤ b) (k : UInt8) (hk : k < 0x80) : b ≠ k := by
  intro e; subst e
  exact absurd (UInt8.le_iff_toNat_le.mp h) (by have := UInt8.lt_iff_toNat_lt.mp hk; simp at *; omega)

theorem encByte_ge80 (b : UInt8) (h : 0x80 ≤ b) : encByte b = [b] :=
  encByte_plain b (ge80_ne b h 9 (by decide)) (ge80_ne b h 10 (by decide)) (ge80_ne b h 34 (by decide))
    (ge80_ne b h 92 (by decide))

theorem spaces_succ (m : Nat) : spaces m ++ [32] = spaces (m + 1) := by
  simp [spaces, List.replicate_succ']

theorem spaces_length (m : Nat) : (spaces m).length = m := by simp [spaces]

theorem encode_nil : encode [] = [] := rfl
theorem encode_cons (c : UInt8) (cs : Bytes) : encode (c :: cs) = encByte c ++ encode cs := by
  simp [encode, List.flatMap_cons]

theorem encode_append_ge80 (ch rest : Bytes) (h : ∀ b ∈ ch, 0x80 ≤ b) : encode (ch ++ rest) = ch ++ encode rest := by
  induction ch with
  | nil => rfl
  | cons b bs ih =>
    rw [List.cons_append, encode_cons, encByte_ge80 b (h b (by simp)), ih (fun x hx => h x (by simp [hx]))]
    rfl

theorem dqBody_false_append_ge80 (n : Nat) (ch rest : Bytes) (h : ∀ b ∈ ch, 0x80 ≤ b) :
    dqBody n false (ch ++ rest) = ch ++ dqBody n false rest := by
  induction ch with
  | nil => rfl
  | cons b bs ih =>
    have hb := h b (by simp)
    have h10 : b ≠ 10 := ge80_ne b hb 10 (by decide)
    have h32 : (b == 32) = false := by simpa using ge80_ne b hb 32 (by decide)
    rw [List.cons_append, dqBody]
    simp only [beq_iff_eq, h10, if_false, h32]
    rw [encByte_ge80 b hb, ih (fun x hx => h x (by simp [hx]))]
    rfl

theorem dqBody_append_ge80 (n : Nat) (sp : Bool) (ch rest : Bytes) (h2 : 2 ≤ ch.length) (h : ∀ b ∈ ch, 0x80 ≤ b) :
    dqBody n sp (ch ++ rest) = ch ++ dqBody n false rest := by
  cases ch with
  | nil => simp at h2
  | cons b bs =>
    have hb := h b (by simp)
    have h10 : b ≠ 10 := ge80_ne b hb 10 (by decide)
    have h32 : (b == 32) = false := by simpa using ge80_ne b hb 32 (by decide)
    rw [List.cons_append, dqBody]
    simp only [beq_iff_eq, h10, if_false, h32]
    rw [encByte_ge80 b hb, dqBody_false_append_ge80 n bs rest (fun x hx => h x (by simp [hx]))]
    rfl

/-! ### lexer side: one-step equations of the double-quoted state -/

theorem storeChar_ascii (c : UInt8) (t : Bytes) (ind : Nat) (racc : Bytes) (h : charAt (c :: t) = some (c.toNat, 1)) :
    storeChar (c :: t) ind racc = .ok (if c.toNat == 10 then 0 else ind + 1, c :: racc, t) := by
  unfold storeChar
  rw [h]
  simp

theorem storeChar_multi (ch t : Bytes) (cp : Nat) (ind : Nat) (racc : Bytes) (h : charAt (ch ++ t) = some (cp, ch.length)) :
    storeChar (ch ++ t) ind racc = .ok (if cp == 10 then 0 else ind + 1, ch.reverse ++ racc, t) := by
  unfold storeChar
  rw [h]
  simp

theorem qloop_dq_quote (f : Nat) (st : QSt) (cs : Bytes) :
    qloop (f + 1) .dq st (34 :: cs) = qloop f .next { st with ind := st.ind + 1, tws := 0 } cs := rfl

theorem qloop_dq_bs (f : Nat) (st : QSt) (cs : Bytes) :
    qloop (f + 1) .dq st (92 :: cs) = qloop f .esc { st with tws := 0, ci := st.bi } cs := rfl

theorem qloop_esc (f : Nat) (st : QSt) (e b : UInt8) (cs : Bytes) (h : unesc e = some b) :
    qloop (f + 1) .esc st (e :: cs) =
      qloop f .dq { st with ind := if b == 10 then 0 else st.ind + 1, racc := b :: st.racc } cs := by
  simp [qloop, h]

theorem uint8_toNat_ne (c k : UInt8) (h : c ≠ k) : ¬ c.toNat = k.toNat := fun e => h (UInt8.toNat_inj.mp e)

theorem qloop_dq_default (f : Nat) (st : QSt) (c : UInt8) (cs : Bytes)
    (h34 : c ≠ 34) (h92 : c ≠ 92) (h32 : c ≠ 32) (h9 : c ≠ 9) (h13 : c ≠ 13) (h10 : c ≠ 10)
    (hc : charAt (c :: cs) = some (c.toNat, 1)) :
    qloop (f + 1) .dq st (c :: cs) =
      qloop f .dq { st with ci := st.bi, ind := st.ind + 1, racc := c :: st.racc, tws := 0 } cs := by
  have h10' : ¬ c.toNat = 10 := uint8_toNat_ne c 10 h10
  simp [qloop, h34, h92, h32, h9, h13, h10, storeChar_ascii c cs _ _ hc, h10']

theorem qloop_dq_multi (f : Nat) (st : QSt) (ch cs : Bytes) (cp : Nat) (h2 : 2 ≤ ch.length) (hge : ∀ b ∈ ch, 0x80 ≤ b)
    (hc : charAt (ch ++ cs) = some (cp, ch.length)) :
    qloop (f + 1) .dq st (ch ++ cs) =
      qloop f .dq { st with ci := st.bi, ind := if cp == 10 then 0 else st.ind + 1, racc := ch.reverse ++ st.racc, tws := 0 } cs := by
  cases ch with
  | nil => simp at h2
  | cons b bs =>
    have hb := hge b (by simp)
    have e := storeChar_multi (b :: bs) cs cp st.ind st.racc hc
    rw [List.cons_append] at e ⊢
    simp [qloop, ge80_ne b hb 34 (by decide), ge80_ne b hb 92 (by decide), ge80_ne b hb 32 (by decide),
      ge80_ne b hb 9 (by decide), ge80_ne b hb 13 (by decide), ge80_ne b hb 10 (by decide), e]

theorem qloop_dq_space_store (f : Nat) (st : QSt) (cs : Bytes) (h : ¬ st.ci < st.bi)
    (hc : charAt (32 :: cs) = some ((32 : UInt8).toNat, 1)) :
    qloop (f + 1) .dq st (32 :: cs) =
      qloop f .dq { st with ind := st.ind + 1, racc := 32 :: st.racc, tws := st.tws + 1 } cs := by
  simp [qloop, h, storeChar_ascii 32 cs _ _ hc]

theorem qloop_dq_space_skip (f : Nat) (st : QSt) (cs : Bytes) (h : st.ci < st.bi) :
    qloop (f + 1) .dq st (32 :: cs) = qloop f .dq { st with ci := st.ci + 1, ind := st.ind + 1 } cs := by
  simp [qloop, h]

theorem qloop_dq_skip_spaces (k : Nat) : ∀ (f : Nat) (st : QSt) (cs : Bytes), st.ci + k ≤ st.bi →
    qloop (f + k) .dq st (spaces k ++ cs) = qloop f .dq { st with ci := st.ci + k, ind := st.ind + k } cs := by
  induction k with
  | zero => intro f st cs _; simp [spaces]
  | succ k ih =>
    intro f st cs h
    have e : spaces (k + 1) ++ cs = 32 :: (spaces k ++ cs) := by simp [spaces, List.replicate_succ]
    rw [e, show f + (k + 1) = (f + k) + 1 by omega, qloop_dq_space_skip _ _ _ (by omega), ih _ _ _ (by simp; omega)]
    simp only [Nat.add_assoc, Nat.add_comm 1 k]

theorem qloop_dq_newline (f : Nat) (st : QSt) (cs : Bytes) (hbi : st.bi ≠ 0)
    (hc : charAt (10 :: cs) = some ((10 : UInt8).toNat, 1)) :
    qloop (f + 1) .dq st (10 :: cs) =
      qloop f .dq { st with ci := 0, ind := 0, racc := 10 :: st.racc.drop st.tws, tws := 0 } cs := by
  simp [qloop, dqNewline, hbi, storeChar_ascii 10 cs _ _ hc]

end LyModel.YangStr
