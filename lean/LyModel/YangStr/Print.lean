import LyModel.Base
import LyModel.Generated.YangStr
/-!
# YANG schema printer, string side (`printer_yang.c`)

`encode` = `ypr_encode`, `printText` = `ypr_text` (with `ypr_text_squote_line`), `printStmt` = `yprp_stmt`
(the generic statement tree of extension-instance substatements).  Strings are C strings: no NUL inside.
`fmt` is `DO_FORMAT` (`!(options & LY_PRINT_SHRINK)`), `level` is `pctx->level` (a `uint16_t`).
Core Lean only (linked into `lydrv`).
-/
namespace LyModel.YangStr
open LyModel.Generated

/-- what `ypr_encode` writes for one byte (table generated from the two switches of the function) -/
def encByte (b : UInt8) : Bytes :=
  match yangEncExceptions.find? (fun e => e.1 == b) with
  | some e => e.2
  | none => [b]

/-- `ypr_encode(out, text, -1)` -/
def encode (s : Bytes) : Bytes := s.flatMap encByte

def spaces (n : Nat) : Bytes := List.replicate n 32

/-- `"%*s", INDENT` -/
def indentOf (fmt : Bool) (level : Nat) : Bytes := spaces (if fmt then 2 * level else 0)

/-- `LEVEL++` on a `uint16_t` -/
def incLevel (l : Nat) : Nat := (l + 1) % 65536

/-- what follows a literal newline of the text: `if (nl[1] != '\n') ly_print_("%*s", cont_indent, "")` -/
def contIndent (n : Nat) (next : Bytes) : Bytes :=
  if next.head? == some 10 then [] else spaces n

/-- body of a double-quoted text: segments between newlines go through `ypr_encode`; a newline is literal and followed
    by `n` blanks (none in front of an empty line) — unless the line ends in a blank (`sp`), which the reader would
    strip: then the line break is written as the escape `\n` and the text continues on the same line -/
def dqBody (n : Nat) : (sp : Bool) → Bytes → Bytes
  | _, [] => []
  | sp, c :: cs =>
    if c == 10 then (if sp then [92, 110] else 10 :: contIndent n cs) ++ dqBody n false cs
    else encByte c ++ dqBody n (c == 32) cs

def sqOpen : Bytes := [39, 32, 43, 32, 34]                              -- `' + "`
def sqClose (ind : Bytes) : Bytes := [34, 32, 43, 10] ++ ind ++ [39]    -- `" +\n<indent>'`

/-- body of a single-quoted text (`ypr_text_squote_line` per line): raw bytes, every run of `'` is spliced in as
    `' + "'''" +\n<indent>'`; `run` = inside such a run -/
def sqBody (ind : Bytes) : Bool → Bytes → Bytes
  | run, [] => if run then sqClose ind else []
  | run, c :: cs =>
    if c == 10 then (if run then sqClose ind else []) ++ 10 :: sqBody ind false cs   -- nothing may be added inside single quotes
    else if c == 39 then (if run then [] else sqOpen) ++ 39 :: sqBody ind true cs
    else (if run then sqClose ind else []) ++ c :: sqBody ind false cs

def flagSingleLine (flags : Nat) : Bool := flags &&& LYS_YPR_TEXT_SINGLELINE != 0
def flagSingleQuoted (flags : Nat) : Bool := flags &&& LYS_YPR_TEXT_SINGLEQUOTED != 0

/-- `ypr_text`: what it prints after the statement name (of `nameLen` bytes) — separator, opening quote, text, closing
    quote.  Continuation lines of a double-quoted text start in the column after the opening quote (`cont_indent`). -/
def printTextArg (fmt : Bool) (level flags nameLen : Nat) (text : Bytes) : Bytes :=
  let sq := flagSingleQuoted flags
  let single := flagSingleLine flags && !(sq && text.contains 39)
  let quot : UInt8 := if sq then 39 else 34
  let lvl := if single then level else incLevel level
  let ind := indentOf fmt lvl
  let n := if single then ind.length + nameLen + 2 else ind.length + 1
  (if single then [32, quot] else 10 :: (ind ++ [quot])) ++
    ((if sq then sqBody ind false text else dqBody n false text) ++ [quot])

/-- `ypr_text(pctx, name, text, flags)`: everything it prints (up to and including the closing quote) -/
def printText (fmt : Bool) (level flags : Nat) (name text : Bytes) : Bytes :=
  indentOf fmt level ++ name ++ printTextArg fmt level flags name.length text

/-- `struct lysp_stmt`: keyword text, optional argument, quoting flags of the argument, children -/
inductive Stmt where
  | mk (kw : Bytes) (arg : Option Bytes) (flags : Nat) (children : List Stmt)
  deriving Repr, BEq, Inhabited

def stmtTail (hasChild : Bool) : Bytes := if hasChild then [32, 123, 10] else [59, 10]   -- " {\n" | ";\n"

mutual
/-- `yprp_stmt` -/
def printStmt (fmt : Bool) (level : Nat) : Stmt → Bytes
  | .mk kw arg flags children =>
    let tail := stmtTail (!children.isEmpty)
    let head :=
      match arg with
      | some a =>
        if flags != 0 then
          printText fmt level (if flags &&& LYS_SINGLEQUOTED != 0 then LYS_YPR_TEXT_SINGLEQUOTED else 0) kw a ++ tail
        else indentOf fmt level ++ kw ++ 32 :: (a ++ tail)
      | none => indentOf fmt level ++ kw ++ tail
    if children.isEmpty then head
    else head ++ printStmts fmt (incLevel level) children ++ indentOf fmt level ++ [125, 10]
def printStmts (fmt : Bool) (level : Nat) : List Stmt → Bytes
  | [] => []
  | s :: ss => printStmt fmt level s ++ printStmts fmt level ss
end

end LyModel.YangStr
