import LyModel.YangStr.LemmasStep
/-!
The double-quoted state of `read_qstring` run over what `ypr_text` printed for a text: the simulation lemma.
-/
namespace LyModel.YangStr
open LyModel.Utf8 LyModel.Generated

/-- no blank immediately before a newline (the text the lexer's trailing-whitespace stripping leaves alone) -/
def NoSpNl : Bytes → Prop
  | [] => True
  | [_] => True
  | a :: b :: r => ¬ (a = 32 ∧ b = 10) ∧ NoSpNl (b :: r)

/-- no blank immediately after a newline (continuation lines do not start with a blank) -/
def NoNlSp : Bytes → Prop
  | [] => True
  | [_] => True
  | a :: b :: r => ¬ (a = 10 ∧ b = 32) ∧ NoNlSp (b :: r)

theorem NoSpNl_tail (c : UInt8) (r : Bytes) (h : NoSpNl (c :: r)) : NoSpNl r := by
  cases r with
  | nil => trivial
  | cons b r => exact h.2

theorem NoNlSp_tail (c : UInt8) (r : Bytes) (h : NoNlSp (c :: r)) : NoNlSp r := by
  cases r with
  | nil => trivial
  | cons b r => exact h.2

theorem NoSpNl_drop (ch r : Bytes) (h : NoSpNl (ch ++ r)) : NoSpNl r := by
  induction ch with
  | nil => exact h
  | cons b bs ih => exact ih (NoSpNl_tail b _ h)

theorem NoNlSp_drop (ch r : Bytes) (h : NoNlSp (ch ++ r)) : NoNlSp r := by
  induction ch with
  | nil => exact h
  | cons b bs ih => exact ih (NoNlSp_tail b _ h)

/-- the invariant of the simulation: `block_indent` is fixed, the indentation counter has not run past it, the lexer
    would strip a blank only where the text offers none, and it counts trailing blanks only while the printer knows
    (`sp`) that the line so far ends in a blank -/
structure DqInv (bi : Nat) (st : QSt) (sp : Bool) (s : Bytes) : Prop where
  hbi : st.bi = bi
  hci : st.ci ≤ bi
  hsp : st.ci < bi → ∀ r, s ≠ 32 :: r
  htw : st.tws ≠ 0 → sp = true

theorem dqBody_sim (n bi : Nat) (hn : n ≤ bi) (hbi0 : bi ≠ 0) :
    ∀ s, YChars s → 13 ∉ s → (n < bi → NoNlSp s) →
    ∀ (sp : Bool) (fuel : Nat) (st : QSt) (tail : Bytes), DqInv bi st sp s →
      (dqBody n sp s ++ tail).length + 1 ≤ fuel →
      ∃ fuel' st', tail.length + 1 ≤ fuel' ∧ st'.bi = bi ∧ st'.racc = s.reverse ++ st.racc ∧
        qloop fuel .dq st (dqBody n sp s ++ tail) = qloop fuel' .dq st' tail := by
  intro s hs
  induction hs with
  | nil =>
    intro _ _ sp fuel st tail hinv hf
    exact ⟨fuel, st, by simpa [dqBody] using hf, hinv.hbi, by simp, by simp [dqBody]⟩
  | ascii c rest hlt hne hall hrest ih =>
    intro hcr hns sp fuel st tail hinv hf
    have hcr' : 13 ∉ rest := fun h => hcr (by simp [h])
    have hc13 : c ≠ 13 := fun h => hcr (by simp [h])
    have hns' : n < bi → NoNlSp rest := fun h => NoNlSp_tail c rest (hns h)
    by_cases h10 : c = 10
    · subst h10
      cases sp with
      | true =>
        -- the line ends in a blank: the line break is the escape `\n`
        have hbody : dqBody n true (10 :: rest) ++ tail = 92 :: 110 :: (dqBody n false rest ++ tail) := by
          simp [dqBody]
        rw [hbody] at hf ⊢
        obtain ⟨f, rfl⟩ : ∃ f, fuel = (f + 1) + 1 := ⟨fuel - 2, by simp at hf; omega⟩
        rw [qloop_dq_bs, qloop_esc _ _ 110 10 _ unesc_110]
        have hinv' : DqInv bi { st with tws := 0, ci := st.bi, ind := 0, racc := 10 :: st.racc } false rest := by
          refine ⟨hinv.hbi, by simp [hinv.hbi], ?_, ?_⟩
          · intro h; simp [hinv.hbi] at h
          · intro h; exact absurd rfl h
        obtain ⟨fuel', st', hf', hb', hr', he'⟩ := ih hcr' hns' false f _ tail hinv' (by simp at hf ⊢; omega)
        exact ⟨fuel', st', hf', hb', by rw [hr']; simp, by simpa using he'⟩
      | false =>
        have htws : st.tws = 0 := by
          by_cases h : st.tws = 0
          · exact h
          · exact absurd (hinv.htw h) (by decide)
        have hbody : dqBody n false (10 :: rest) ++ tail = 10 :: (contIndent n rest ++ (dqBody n false rest ++ tail)) := by
          simp [dqBody]
        rw [hbody] at hf ⊢
        obtain ⟨f, rfl⟩ : ∃ f, fuel = f + 1 := ⟨fuel - 1, by simp at hf; omega⟩
        rw [qloop_dq_newline f st _ (by rw [hinv.hbi]; exact hbi0) (hall _)]
        by_cases hnext : rest.head? = some 10
        · have hci : contIndent n rest = [] := by simp [contIndent, hnext]
          rw [hci, List.nil_append] at hf ⊢
          have hinv' : DqInv bi { st with ci := 0, ind := 0, racc := 10 :: st.racc.drop st.tws, tws := 0 } false rest := by
            refine ⟨hinv.hbi, Nat.zero_le _, ?_, ?_⟩
            · intro _ r e; rw [e] at hnext; simp at hnext
            · intro h; exact absurd rfl h
          obtain ⟨fuel', st', hf', hb', hr', he'⟩ := ih hcr' hns' false f _ tail hinv' (by simp at hf ⊢; omega)
          refine ⟨fuel', st', hf', hb', ?_, he'⟩
          rw [hr', htws]; simp
        · have hci : contIndent n rest = spaces n := by simp [contIndent, hnext]
          rw [hci] at hf ⊢
          have hlen : (spaces n ++ (dqBody n false rest ++ tail)).length = n + (dqBody n false rest ++ tail).length := by
            rw [List.length_append, spaces_length]
          have hf2 : n + (dqBody n false rest ++ tail).length + 1 ≤ f := by
            rw [List.length_cons, hlen] at hf; omega
          obtain ⟨f', rfl⟩ : ∃ f', f = f' + n := ⟨f - n, by omega⟩
          rw [qloop_dq_skip_spaces n f' _ _ (by simp; rw [hinv.hbi]; omega)]
          have hinv' : DqInv bi { st with ci := 0 + n, ind := 0 + n, racc := 10 :: st.racc.drop st.tws, tws := 0 } false rest := by
            refine ⟨hinv.hbi, by simp; omega, ?_, ?_⟩
            · intro hlt' r e
              have : n < bi := by simpa using hlt'
              have h2 := hns this
              rw [e] at h2
              exact h2.1 ⟨rfl, rfl⟩
            · intro h; exact absurd rfl h
          obtain ⟨fuel', st', hf', hb', hr', he'⟩ := ih hcr' hns' false f' _ tail hinv' (by omega)
          refine ⟨fuel', st', hf', hb', ?_, he'⟩
          rw [hr', htws]; simp
    · by_cases h32 : c = 32
      · subst h32
        have hnlt : ¬ st.ci < st.bi := by
          intro h; rw [hinv.hbi] at h; exact hinv.hsp h rest rfl
        have hbody : dqBody n sp (32 :: rest) ++ tail = 32 :: (dqBody n true rest ++ tail) := by
          rw [dqBody]; simp [encByte_plain 32 (by decide) (by decide) (by decide) (by decide)]
        rw [hbody] at hf ⊢
        obtain ⟨f, rfl⟩ : ∃ f, fuel = f + 1 := ⟨fuel - 1, by simp at hf; omega⟩
        rw [qloop_dq_space_store f st _ hnlt (hall _)]
        have hinv' : DqInv bi { st with ind := st.ind + 1, racc := 32 :: st.racc, tws := st.tws + 1 } true rest := by
          refine ⟨hinv.hbi, hinv.hci, ?_, fun _ => rfl⟩
          intro h; exact absurd (by rw [hinv.hbi]; exact h) hnlt
        obtain ⟨fuel', st', hf', hb', hr', he'⟩ := ih hcr' hns' true f _ tail hinv' (by simp at hf ⊢; omega)
        exact ⟨fuel', st', hf', hb', by rw [hr']; simp, he'⟩
      · have h32b : (c == 32) = false := by simpa using h32
        have hstep : ∃ (k : Nat) (pre : Bytes) (ind' : Nat), dqBody n sp (c :: rest) ++ tail = pre ++ (dqBody n false rest ++ tail) ∧
            pre.length = k + 1 ∧
            ∀ f, qloop (f + (k + 1)) .dq st (pre ++ (dqBody n false rest ++ tail)) =
              qloop f .dq { st with ci := st.bi, ind := ind', racc := c :: st.racc, tws := 0 } (dqBody n false rest ++ tail) := by
          by_cases h9 : c = 9
          · subst h9
            refine ⟨1, [92, 116], st.ind + 1, ?_, rfl, ?_⟩
            · rw [dqBody]; simp [encByte_9]
            · intro f
              rw [show f + (1 + 1) = (f + 1) + 1 by omega, List.cons_append, qloop_dq_bs, List.cons_append, List.nil_append,
                qloop_esc _ _ 116 9 _ unesc_116]
              rfl
          · by_cases h34 : c = 34
            · subst h34
              refine ⟨1, [92, 34], st.ind + 1, ?_, rfl, ?_⟩
              · rw [dqBody]; simp [encByte_34]
              · intro f
                rw [show f + (1 + 1) = (f + 1) + 1 by omega, List.cons_append, qloop_dq_bs, List.cons_append, List.nil_append,
                  qloop_esc _ _ 34 34 _ unesc_34]
                rfl
            · by_cases h92 : c = 92
              · subst h92
                refine ⟨1, [92, 92], st.ind + 1, ?_, rfl, ?_⟩
                · rw [dqBody]; simp [encByte_92]
                · intro f
                  rw [show f + (1 + 1) = (f + 1) + 1 by omega, List.cons_append, qloop_dq_bs, List.cons_append, List.nil_append,
                    qloop_esc _ _ 92 92 _ unesc_92]
                  rfl
              · refine ⟨0, [c], st.ind + 1, ?_, rfl, ?_⟩
                · rw [dqBody]; simp [h10, h32b, encByte_plain c h9 h10 h34 h92]
                · intro f
                  rw [List.cons_append, List.nil_append, qloop_dq_default f st c _ h34 h92 h32 h9 hc13 h10 (hall _)]
        obtain ⟨k, pre, ind', hb, hl, hq⟩ := hstep
        rw [hb] at hf ⊢
        obtain ⟨f, rfl⟩ : ∃ f, fuel = f + (k + 1) := ⟨fuel - (k + 1), by rw [List.length_append, hl] at hf; omega⟩
        rw [hq f]
        have hinv' : DqInv bi { st with ci := st.bi, ind := ind', racc := c :: st.racc, tws := 0 } false rest := by
          refine ⟨hinv.hbi, by simp [hinv.hbi], ?_, ?_⟩
          · intro h; simp [hinv.hbi] at h
          · intro h; exact absurd rfl h
        obtain ⟨fuel', st', hf', hb', hr', he'⟩ := ih hcr' hns' false f _ tail hinv' (by
          rw [List.length_append, hl] at hf; omega)
        exact ⟨fuel', st', hf', hb', by rw [hr']; simp, he'⟩
  | multi ch rest cp h2 hge hall hrest ih =>
    intro hcr hns sp fuel st tail hinv hf
    have hcr' : 13 ∉ rest := fun h => hcr (by simp [h])
    have hbody : dqBody n sp (ch ++ rest) ++ tail = ch ++ (dqBody n false rest ++ tail) := by
      rw [dqBody_append_ge80 _ _ _ _ h2 hge, List.append_assoc]
    rw [hbody] at hf ⊢
    obtain ⟨f, rfl⟩ : ∃ f, fuel = f + 1 := ⟨fuel - 1, by rw [List.length_append] at hf; omega⟩
    rw [qloop_dq_multi f st ch _ cp h2 hge (hall _)]
    have hinv' : DqInv bi { st with ci := st.bi, ind := if cp == 10 then 0 else st.ind + 1, racc := ch.reverse ++ st.racc, tws := 0 } false rest := by
      refine ⟨hinv.hbi, by simp [hinv.hbi], ?_, ?_⟩
      · intro h; simp [hinv.hbi] at h
      · intro h; exact absurd rfl h
    obtain ⟨fuel', st', hf', hb', hr', he'⟩ := ih hcr' (fun h => NoNlSp_drop ch rest (hns h)) false f _ tail hinv' (by
      rw [List.length_append] at hf; omega)
    exact ⟨fuel', st', hf', hb', by rw [hr']; simp, he'⟩

end LyModel.YangStr

namespace LyModel.YangStr
open LyModel.Utf8 LyModel.Generated

/-- `ypr_encode` output run through the double-quoted state: no literal newline occurs, so the indentation counter
    stays at `block_indent` and nothing is stripped -/
theorem encode_sim :
    ∀ s, YChars s → 13 ∉ s →
    ∀ (fuel : Nat) (st : QSt) (tail : Bytes), st.ci = st.bi →
      (encode s ++ tail).length + 1 ≤ fuel →
      ∃ fuel' st', tail.length + 1 ≤ fuel' ∧ st'.bi = st.bi ∧ st'.ci = st'.bi ∧ st'.racc = s.reverse ++ st.racc ∧
        qloop fuel .dq st (encode s ++ tail) = qloop fuel' .dq st' tail := by
  intro s hs
  induction hs with
  | nil =>
    intro _ fuel st tail hci hf
    exact ⟨fuel, st, by simpa [encode] using hf, rfl, hci, by simp, by simp [encode]⟩
  | ascii c rest hlt hne hall hrest ih =>
    intro hcr fuel st tail hci hf
    have hcr' : 13 ∉ rest := fun h => hcr (by simp [h])
    have hc13 : c ≠ 13 := fun h => hcr (by simp [h])
    by_cases h32 : c = 32
    · subst h32
      have hnlt : ¬ st.ci < st.bi := by omega
      have hbody : encode (32 :: rest) ++ tail = 32 :: (encode rest ++ tail) := by
        rw [encode_cons]; simp [encByte_plain 32 (by decide) (by decide) (by decide) (by decide)]
      rw [hbody] at hf ⊢
      obtain ⟨f, rfl⟩ : ∃ f, fuel = f + 1 := ⟨fuel - 1, by simp at hf; omega⟩
      rw [qloop_dq_space_store f st _ hnlt (hall _)]
      obtain ⟨fuel', st', hf', hb', hc', hr', he'⟩ := ih hcr' f { st with ind := st.ind + 1, racc := 32 :: st.racc, tws := st.tws + 1 } tail hci
        (by simp at hf ⊢; omega)
      exact ⟨fuel', st', hf', hb', hc', by rw [hr']; simp, he'⟩
    · have hstep : ∃ (k : Nat) (pre : Bytes) (ind' : Nat), encode (c :: rest) ++ tail = pre ++ (encode rest ++ tail) ∧
          pre.length = k + 1 ∧
          ∀ f, qloop (f + (k + 1)) .dq st (pre ++ (encode rest ++ tail)) =
            qloop f .dq { st with ci := st.bi, ind := ind', racc := c :: st.racc, tws := 0 } (encode rest ++ tail) := by
        by_cases h9 : c = 9
        · subst h9
          refine ⟨1, [92, 116], st.ind + 1, ?_, rfl, ?_⟩
          · rw [encode_cons]; simp [encByte_9]
          · intro f
            rw [show f + (1 + 1) = (f + 1) + 1 by omega, List.cons_append, qloop_dq_bs, List.cons_append, List.nil_append,
              qloop_esc _ _ 116 9 _ unesc_116]
            rfl
        · by_cases h10 : c = 10
          · subst h10
            refine ⟨1, [92, 110], 0, ?_, rfl, ?_⟩
            · rw [encode_cons]; simp [encByte_10]
            · intro f
              rw [show f + (1 + 1) = (f + 1) + 1 by omega, List.cons_append, qloop_dq_bs, List.cons_append, List.nil_append,
                qloop_esc _ _ 110 10 _ unesc_110]
              rfl
          · by_cases h34 : c = 34
            · subst h34
              refine ⟨1, [92, 34], st.ind + 1, ?_, rfl, ?_⟩
              · rw [encode_cons]; simp [encByte_34]
              · intro f
                rw [show f + (1 + 1) = (f + 1) + 1 by omega, List.cons_append, qloop_dq_bs, List.cons_append, List.nil_append,
                  qloop_esc _ _ 34 34 _ unesc_34]
                rfl
            · by_cases h92 : c = 92
              · subst h92
                refine ⟨1, [92, 92], st.ind + 1, ?_, rfl, ?_⟩
                · rw [encode_cons]; simp [encByte_92]
                · intro f
                  rw [show f + (1 + 1) = (f + 1) + 1 by omega, List.cons_append, qloop_dq_bs, List.cons_append, List.nil_append,
                    qloop_esc _ _ 92 92 _ unesc_92]
                  rfl
              · refine ⟨0, [c], st.ind + 1, ?_, rfl, ?_⟩
                · rw [encode_cons]; simp [encByte_plain c h9 h10 h34 h92]
                · intro f
                  rw [List.cons_append, List.nil_append, qloop_dq_default f st c _ h34 h92 h32 h9 hc13 h10 (hall _)]
      obtain ⟨k, pre, ind', hb, hl, hq⟩ := hstep
      rw [hb] at hf ⊢
      obtain ⟨f, rfl⟩ : ∃ f, fuel = f + (k + 1) := ⟨fuel - (k + 1), by rw [List.length_append, hl] at hf; omega⟩
      rw [hq f]
      obtain ⟨fuel', st', hf', hb', hc', hr', he'⟩ := ih hcr' f { st with ci := st.bi, ind := ind', racc := c :: st.racc, tws := 0 } tail rfl
        (by rw [List.length_append, hl] at hf; omega)
      exact ⟨fuel', st', hf', hb', hc', by rw [hr']; simp, he'⟩
  | multi ch rest cp h2 hge hall hrest ih =>
    intro hcr fuel st tail hci hf
    have hcr' : 13 ∉ rest := fun h => hcr (by simp [h])
    have hbody : encode (ch ++ rest) ++ tail = ch ++ (encode rest ++ tail) := by
      rw [encode_append_ge80 _ _ hge, List.append_assoc]
    rw [hbody] at hf ⊢
    obtain ⟨f, rfl⟩ : ∃ f, fuel = f + 1 := ⟨fuel - 1, by rw [List.length_append] at hf; omega⟩
    rw [qloop_dq_multi f st ch _ cp h2 hge (hall _)]
    obtain ⟨fuel', st', hf', hb', hc', hr', he'⟩ := ih hcr' f
      { st with ci := st.bi, ind := if cp == 10 then 0 else st.ind + 1, racc := ch.reverse ++ st.racc, tws := 0 } tail rfl
      (by rw [List.length_append] at hf; omega)
    exact ⟨fuel', st', hf', hb', hc', by rw [hr']; simp, he'⟩

/-- what may follow the closing quote: anything but optsep and `+` (which would continue the string) -/
def RestOk : Bytes → Prop
  | [] => True
  | c :: _ => c ≠ 43 ∧ c ≠ 13 ∧ c ≠ 10 ∧ c ≠ 32 ∧ c ≠ 9

instance (r : Bytes) : Decidable (RestOk r) := by
  cases r with
  | nil => exact isTrue trivial
  | cons c cs => unfold RestOk; exact inferInstance

theorem qloop_next_done (f : Nat) (st : QSt) (rest : Bytes) (h : RestOk rest) :
    qloop (f + 1) .next st rest = .ok (st, .next, rest) := by
  cases rest with
  | nil => rfl
  | cons c cs =>
    obtain ⟨h43, h13, h10, h32, h9⟩ := h
    simp [qloop, h43, h13, h10, h32, h9]

theorem qloop_next_spaces (k : Nat) : ∀ (f : Nat) (st : QSt) (cs : Bytes),
    qloop (f + k) .next st (spaces k ++ cs) = qloop f .next { st with ind := st.ind + k } cs := by
  induction k with
  | zero => intro f st cs; simp [spaces]
  | succ k ih =>
    intro f st cs
    have e : spaces (k + 1) ++ cs = 32 :: (spaces k ++ cs) := by simp [spaces, List.replicate_succ]
    rw [e, show f + (k + 1) = (f + k) + 1 by omega]
    have : qloop (f + k + 1) .next st (32 :: (spaces k ++ cs)) = qloop (f + k) .next { st with ind := st.ind + 1 } (spaces k ++ cs) := by
      simp [qloop]
    rw [this, ih]
    simp only [Nat.add_assoc, Nat.add_comm 1 k]

end LyModel.YangStr
