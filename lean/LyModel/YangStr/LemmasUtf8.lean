import LyModel.YangStr.LemmasByte
/-!
`ly_getutf8` looks at no more bytes than the character it returns, the bytes of a multi-byte character are all
`≥ 0x80`, and a one-byte character is its own code point: what the round-trip proofs need to know about UTF-8.
-/
namespace LyModel.YangStr
open LyModel.Utf8 LyModel.Generated

/-- `getUtf8` as a function of the first four bytes -/
def g4 (b0 b1 b2 b3 : UInt8) : Option (Nat × Nat) :=
  if b0 &&& 0x80 == 0 then
    if b0 < 0x20 && b0 != 0x9 && b0 != 0xa && b0 != 0xd then none else some (b0.toNat, 1)
  else if b0 &&& 0xE0 == 0xC0 then
    if !isCont b1 then none else
    let c := ((b0 &&& 0x1F).toNat <<< 6) ||| (b1 &&& 0x3F).toNat
    if c < 0x80 then none else some (c, 2)
  else if b0 &&& 0xF0 == 0xE0 then
    if !isCont b1 then none else
    if !isCont b2 then none else
    let c := ((((b0 &&& 0x0F).toNat <<< 6) ||| (b1 &&& 0x3F).toNat) <<< 6) ||| (b2 &&& 0x3F).toNat
    if c < 0x800 || (c > 0xD7FF && c < 0xE000) || c > 0xFFFD then none else some (c, 3)
  else if b0 &&& 0xF8 == 0xF0 then
    if !isCont b1 then none else
    if !isCont b2 then none else
    if !isCont b3 then none else
    let c := ((((((b0 &&& 0x07).toNat <<< 6) ||| (b1 &&& 0x3F).toNat) <<< 6) ||| (b2 &&& 0x3F).toNat) <<< 6) |||
      (b3 &&& 0x3F).toNat
    if c < 0x10000 || c > 0x10FFFF then none else some (c, 4)
  else none

theorem getUtf8_eq_g4 (inp : Bytes) : getUtf8 inp = g4 (rd inp 0) (rd inp 1) (rd inp 2) (rd inp 3) := by
  unfold getUtf8 g4
  rfl

set_option maxRecDepth 100000 in
theorem byte_cont_ge : ∀ b : UInt8, isCont b = true → 0x80 ≤ b := by
  apply forall_uint8; decide

set_option maxRecDepth 100000 in
theorem byte_lead2_ge : ∀ b : UInt8, (b &&& 0xE0 == 0xC0) = true → 0x80 ≤ b := by
  apply forall_uint8; decide

set_option maxRecDepth 100000 in
theorem byte_lead3_ge : ∀ b : UInt8, (b &&& 0xF0 == 0xE0) = true → 0x80 ≤ b := by
  apply forall_uint8; decide

set_option maxRecDepth 100000 in
theorem byte_lead4_ge : ∀ b : UInt8, (b &&& 0xF8 == 0xF0) = true → 0x80 ≤ b := by
  apply forall_uint8; decide

set_option maxRecDepth 100000 in
theorem byte_ascii_ok_ne0 : ∀ b : UInt8, (b < 0x20 && b != 0x9 && b != 0xa && b != 0xd) = false → b ≠ 0 := by
  apply forall_uint8; decide

/-- the four shapes of a successful `g4` -/
theorem g4_cases (b0 b1 b2 b3 : UInt8) (cp n : Nat) (h : g4 b0 b1 b2 b3 = some (cp, n)) :
    (n = 1 ∧ b0 < 0x80 ∧ b0 ≠ 0 ∧ cp = b0.toNat ∧ ∀ x y z, g4 b0 x y z = some (cp, 1)) ∨
    (n = 2 ∧ 0x80 ≤ b0 ∧ 0x80 ≤ b1 ∧ ∀ y z, g4 b0 b1 y z = some (cp, 2)) ∨
    (n = 3 ∧ 0x80 ≤ b0 ∧ 0x80 ≤ b1 ∧ 0x80 ≤ b2 ∧ ∀ z, g4 b0 b1 b2 z = some (cp, 3)) ∨
    (n = 4 ∧ 0x80 ≤ b0 ∧ 0x80 ≤ b1 ∧ 0x80 ≤ b2 ∧ 0x80 ≤ b3) := by
  unfold g4 at h
  split at h
  · rename_i h0
    split at h
    · simp at h
    · rename_i h1
      simp only [Option.some.injEq, Prod.mk.injEq] at h
      refine Or.inl ⟨h.2.symm, byte_ascii_lt b0 h0, byte_ascii_ok_ne0 b0 (by simpa using h1), h.1.symm, ?_⟩
      intro x y z
      unfold g4
      simp only [h0, if_true]
      rw [if_neg h1, h.1]
  · rename_i h0
    split at h
    · rename_i h2
      split at h
      · simp at h
      · rename_i hc1
        simp only at h
        split at h
        · simp at h
        · rename_i hc
          simp only [Option.some.injEq, Prod.mk.injEq] at h
          refine Or.inr (Or.inl ⟨h.2.symm, byte_lead2_ge b0 h2, byte_cont_ge b1 (by simpa using hc1), ?_⟩)
          intro y z
          unfold g4
          rw [if_neg h0, if_pos h2, if_neg hc1]
          simp only
          rw [if_neg hc, h.1]
    · rename_i h2
      split at h
      · rename_i h3
        split at h
        · simp at h
        · rename_i hc1
          split at h
          · simp at h
          · rename_i hc2
            simp only at h
            split at h
            · simp at h
            · rename_i hc
              simp only [Option.some.injEq, Prod.mk.injEq] at h
              refine Or.inr (Or.inr (Or.inl ⟨h.2.symm, byte_lead3_ge b0 h3, byte_cont_ge b1 (by simpa using hc1),
                byte_cont_ge b2 (by simpa using hc2), ?_⟩))
              intro z
              unfold g4
              rw [if_neg h0, if_neg h2, if_pos h3, if_neg hc1, if_neg hc2]
              simp only
              rw [if_neg hc, h.1]
      · rename_i h3
        split at h
        · rename_i h4
          split at h
          · simp at h
          · rename_i hc1
            split at h
            · simp at h
            · rename_i hc2
              split at h
              · simp at h
              · rename_i hc3
                simp only at h
                split at h
                · simp at h
                · simp only [Option.some.injEq, Prod.mk.injEq] at h
                  exact Or.inr (Or.inr (Or.inr ⟨h.2.symm, byte_lead4_ge b0 h4, byte_cont_ge b1 (by simpa using hc1),
                    byte_cont_ge b2 (by simpa using hc2), byte_cont_ge b3 (by simpa using hc3)⟩))
        · simp at h

end LyModel.YangStr

namespace LyModel.YangStr
open LyModel.Utf8 LyModel.Generated

theorem rd_zero_cons (b : UInt8) (r : Bytes) : rd (b :: r) 0 = b := rfl
theorem rd_succ_cons (b : UInt8) (r : Bytes) (i : Nat) : rd (b :: r) (i + 1) = rd r i := rfl
theorem rd_nil (i : Nat) : rd [] i = 0 := by simp [rd]

theorem uint8_ge80_ne0 (b : UInt8) (h : 0x80 ≤ b) : b ≠ 0 := by
  intro e; subst e; exact absurd h (by decide)

theorem rd_ne_zero (inp : Bytes) (h : rd inp 0 ≠ 0) : ∃ r, inp = rd inp 0 :: r := by
  cases inp with
  | nil => exact absurd (rd_nil 0) h
  | cons b r => exact ⟨r, rfl⟩

/-- What `buf_store_char` accepts at the head of `inp` is a prefix `ch` of 1–4 bytes that is accepted in front of
    any continuation, and is either one ASCII byte (its own code point) or consists of bytes `≥ 0x80`. -/
theorem charAt_spec (inp : Bytes) (cp n : Nat) (h : charAt inp = some (cp, n)) :
    ∃ ch rest, inp = ch ++ rest ∧ ch.length = n ∧ (∀ t, charAt (ch ++ t) = some (cp, n)) ∧
      ((∃ c, ch = [c] ∧ c < 0x80 ∧ c ≠ 0 ∧ cp = c.toNat) ∨ (2 ≤ n ∧ ∀ b ∈ ch, 0x80 ≤ b)) := by
  unfold charAt at h
  split at h
  · rename_i c0 n0 hg
    split at h
    · rename_i hy
      simp only [Option.some.injEq, Prod.mk.injEq] at h
      obtain ⟨rfl, rfl⟩ := h
      rw [getUtf8_eq_g4] at hg
      have key : ∀ ch t, (getUtf8 (ch ++ t) = some (c0, n0)) → charAt (ch ++ t) = some (c0, n0) := by
        intro ch t e
        unfold charAt
        rw [e]
        simp [hy]
      rcases g4_cases _ _ _ _ _ _ hg with ⟨rfl, hlt, hne, hcp, hall⟩ | ⟨rfl, h0, h1, hall⟩ | ⟨rfl, h0, h1, h2, hall⟩ |
        ⟨rfl, h0, h1, h2, h3⟩
      · obtain ⟨r, hr⟩ := rd_ne_zero inp hne
        refine ⟨[rd inp 0], r, hr, rfl, ?_, Or.inl ⟨_, rfl, hlt, hne, hcp⟩⟩
        intro t
        apply key
        rw [getUtf8_eq_g4]
        exact hall _ _ _
      · obtain ⟨r, hr⟩ := rd_ne_zero inp (uint8_ge80_ne0 _ h0)
        have h1' : rd r 0 = rd inp 1 := by rw [hr]; rfl
        obtain ⟨r1, hr1⟩ := rd_ne_zero r (by rw [h1']; exact uint8_ge80_ne0 _ h1)
        refine ⟨[rd inp 0, rd inp 1], r1, ?_, rfl, ?_, Or.inr ⟨by omega, ?_⟩⟩
        · have e := hr; rw [hr1, h1'] at e; exact e
        · intro t
          apply key
          rw [getUtf8_eq_g4]
          exact hall _ _
        · intro b hb
          simp only [List.mem_cons, List.not_mem_nil, or_false] at hb
          rcases hb with rfl | rfl <;> assumption
      · obtain ⟨r, hr⟩ := rd_ne_zero inp (uint8_ge80_ne0 _ h0)
        have h1' : rd r 0 = rd inp 1 := by rw [hr]; rfl
        obtain ⟨r1, hr1⟩ := rd_ne_zero r (by rw [h1']; exact uint8_ge80_ne0 _ h1)
        have h2' : rd r1 0 = rd inp 2 := by rw [hr, hr1]; rfl
        obtain ⟨r2, hr2⟩ := rd_ne_zero r1 (by rw [h2']; exact uint8_ge80_ne0 _ h2)
        refine ⟨[rd inp 0, rd inp 1, rd inp 2], r2, ?_, rfl, ?_, Or.inr ⟨by omega, ?_⟩⟩
        · have e := hr; rw [hr1, h1', hr2, h2'] at e; exact e
        · intro t
          apply key
          rw [getUtf8_eq_g4]
          exact hall _
        · intro b hb
          simp only [List.mem_cons, List.not_mem_nil, or_false] at hb
          rcases hb with rfl | rfl | rfl <;> assumption
      · obtain ⟨r, hr⟩ := rd_ne_zero inp (uint8_ge80_ne0 _ h0)
        have h1' : rd r 0 = rd inp 1 := by rw [hr]; rfl
        obtain ⟨r1, hr1⟩ := rd_ne_zero r (by rw [h1']; exact uint8_ge80_ne0 _ h1)
        have h2' : rd r1 0 = rd inp 2 := by rw [hr, hr1]; rfl
        obtain ⟨r2, hr2⟩ := rd_ne_zero r1 (by rw [h2']; exact uint8_ge80_ne0 _ h2)
        have h3' : rd r2 0 = rd inp 3 := by rw [hr, hr1, hr2]; rfl
        obtain ⟨r3, hr3⟩ := rd_ne_zero r2 (by rw [h3']; exact uint8_ge80_ne0 _ h3)
        refine ⟨[rd inp 0, rd inp 1, rd inp 2, rd inp 3], r3, ?_, rfl, ?_, Or.inr ⟨by omega, ?_⟩⟩
        · have e := hr; rw [hr1, h1', hr2, h2', hr3, h3'] at e; exact e
        · intro t
          apply key
          rw [getUtf8_eq_g4]
          exact hg
        · intro b hb
          simp only [List.mem_cons, List.not_mem_nil, or_false] at hb
          rcases hb with rfl | rfl | rfl | rfl <;> assumption
    · simp at h
  · simp at h

end LyModel.YangStr
