/-
Shared basics for all model files (core Lean only: this file is linked into `lydrv`).
-/
namespace LyModel

abbrev Bytes := List UInt8

namespace Hex

def digit (n : Nat) : Char :=
  if n < 10 then Char.ofNat (48 + n) else Char.ofNat (87 + n)

def encByte (b : UInt8) : List Char := [digit (b.toNat / 16), digit (b.toNat % 16)]

/-- hex-encode; the empty string is written `-` (Appendix B of DESIGN.md) -/
def enc (bs : Bytes) : String :=
  if bs.isEmpty then "-" else String.ofList (bs.flatMap encByte)

def val (c : Char) : Option Nat :=
  if '0' ≤ c ∧ c ≤ '9' then some (c.toNat - 48)
  else if 'a' ≤ c ∧ c ≤ 'f' then some (c.toNat - 87)
  else if 'A' ≤ c ∧ c ≤ 'F' then some (c.toNat - 55)
  else none

def decChars : List Char → Option Bytes
  | [] => some []
  | [_] => none
  | a :: b :: r => do
    let x ← val a
    let y ← val b
    let t ← decChars r
    pure (UInt8.ofNat (x * 16 + y) :: t)

def dec (s : String) : Option Bytes :=
  if s == "-" then some [] else decChars s.toList

end Hex

def bytesOfString (s : String) : Bytes := s.toUTF8.toList

/-- lossy, for diagnostics only -/
def stringOfBytes (b : Bytes) : String := String.ofList (b.map fun x => Char.ofNat x.toNat)

def natToDec (n : Nat) : String := toString n

end LyModel
