import LyModel.Text.Spec
/-!
# An independent reader of JSON documents (RFC 8259), for the statement "the printed JSON means the tree"

`parseValue` is written from the grammar of RFC 8259 (`value`, `object`, `member`, `array`, `string`, `number`, the three literal
names, insignificant white space) and knows nothing about the printer.  Strings are read by `JsonSpec.readToken` (the string
reader of `Text/Spec.lean`: escapes, `\u` with surrogate pairs).  Fuel = an upper bound of the nesting + members; `parseDoc`
supplies `length + 1`, which always suffices because every recursive call has consumed at least one byte.
-/
namespace LyModel.JsonDoc
open LyModel

/-- a JSON value as a reader reports it: strings decoded, numbers / literal names as their token text -/
inductive JV where
  | str (b : Bytes)
  | lit (b : Bytes)
  | obj (keys : List Bytes) (vals : List JV)
  | arr (xs : List JV)
  deriving Repr

def isWs (b : UInt8) : Bool := b == 32 || b == 9 || b == 10 || b == 13

def skipWs : Bytes → Bytes
  | [] => []
  | b :: r => if isWs b then skipWs r else b :: r

/-- bytes a number or a literal name can consist of -/
def isLitByte (b : UInt8) : Bool :=
  (48 ≤ b && b ≤ 57) || b == 45 || b == 43 || b == 46 || (97 ≤ b && b ≤ 122) || (65 ≤ b && b ≤ 90)

def takeLit : Bytes → Bytes × Bytes
  | [] => ([], [])
  | b :: r => if isLitByte b then ((takeLit r).1.cons b, (takeLit r).2) else ([], b :: r)

def isDigit (b : UInt8) : Bool := 48 ≤ b && b ≤ 57

def digits : Bytes → Bytes × Bytes
  | [] => ([], [])
  | b :: r => if isDigit b then ((digits r).1.cons b, (digits r).2) else ([], b :: r)

/-- RFC 8259 sec. 6: `[ minus ] int [ frac ] [ exp ]` -/
def isNumber (t : Bytes) : Bool :=
  let t1 := if t.head? == some 45 then t.tail else t
  let (ip, r1) := digits t1
  if ip.isEmpty || (ip.length > 1 && ip.head? == some 48) then false
  else
    let r2 := if r1.head? == some 46 then
        let (fp, r) := digits r1.tail
        if fp.isEmpty then none else some r
      else some r1
    match r2 with
    | none => false
    | some r2 =>
      if r2.isEmpty then true
      else if r2.head? == some 101 || r2.head? == some 69 then
        let r3 := r2.tail
        let r4 := if r3.head? == some 43 || r3.head? == some 45 then r3.tail else r3
        let (ep, r5) := digits r4
        !ep.isEmpty && r5.isEmpty
      else false

def sTrue : Bytes := [116, 114, 117, 101]
def sFalse : Bytes := [102, 97, 108, 115, 101]
def sNull : Bytes := [110, 117, 108, 108]

def validLit (t : Bytes) : Bool := t == sTrue || t == sFalse || t == sNull || isNumber t

mutual
def parseValue : Nat → Bytes → Option (JV × Bytes)
  | 0, _ => none
  | f + 1, inp =>
    let i := skipWs inp
    if i.head? = some 34 then
      match JsonSpec.readToken i with
      | some (s, r) => some (.str s, r)
      | none => none
    else if i.head? = some 123 then
      match parseMembers f (skipWs i.tail) true with
      | some (ks, vs, r) => some (.obj ks vs, r)
      | none => none
    else if i.head? = some 91 then
      match parseItems f (skipWs i.tail) true with
      | some (xs, r) => some (.arr xs, r)
      | none => none
    else
      let t := takeLit i
      if validLit t.1 then some (.lit t.1, t.2) else none
/-- members after `{` (input already white-space skipped); `first`: an immediately closing `}` is allowed -/
def parseMembers : Nat → Bytes → Bool → Option (List Bytes × List JV × Bytes)
  | 0, _, _ => none
  | f + 1, i, first =>
    if first = true ∧ i.head? = some 125 then some ([], [], i.tail)
    else
      match JsonSpec.readToken i with
      | none => none
      | some (k, r1) =>
        let r1 := skipWs r1
        if r1.head? = some 58 then
          match parseValue f r1.tail with
          | none => none
          | some (v, r3) =>
            let r3 := skipWs r3
            if r3.head? = some 44 then
              match parseMembers f (skipWs r3.tail) false with
              | some (ks, vs, r5) => some (k :: ks, v :: vs, r5)
              | none => none
            else if r3.head? = some 125 then some ([k], [v], r3.tail)
            else none
        else none
/-- items after `[` -/
def parseItems : Nat → Bytes → Bool → Option (List JV × Bytes)
  | 0, _, _ => none
  | f + 1, i, first =>
    if first = true ∧ i.head? = some 93 then some ([], i.tail)
    else
      match parseValue f i with
      | none => none
      | some (v, r3) =>
        let r3 := skipWs r3
        if r3.head? = some 44 then
          match parseItems f (skipWs r3.tail) false with
          | some (xs, r5) => some (v :: xs, r5)
          | none => none
        else if r3.head? = some 93 then some ([v], r3.tail)
        else none
end

/-- a complete JSON text: one value, then only white space -/
def parseDoc (inp : Bytes) : Option JV :=
  match parseValue (inp.length + 1) inp with
  | some (v, r) => if (skipWs r).isEmpty then some v else none
  | none => none

end LyModel.JsonDoc
