import LyModel.JsonTree.Model
/-!
# What the JSON data printer is supposed to write (RFC 7951 sec. 4, 5), stated without any printer state

`specData` is the declarative description: inside an object, the children are cut into maximal runs of adjacent instances of
one schema node; a run of a leaf / container contributes one member per printed instance, a run of a leaf-list / list
contributes ONE member whose value is the array of its printed instances (no member when none is printed); members are
separated by commas, names are qualified at the top level and where the module changes.  There is no `level`,
`level_printed`, open-array stack here.

`sim` is the intermediate machine used in the proof (`JsonTree/Refine.lean`): the printer's walk with the state reduced to
"closed, something already printed in this object?" / "inside the array of schema node x".
-/
namespace LyModel.JsonTree
open LyModel

def NKind.isArr : NKind → Bool
  | .leaflist | .list => true
  | _ => false

/-- a sibling as the object-level layout sees it: the text of its value (`body`) is already known -/
structure Item where
  sid : Nat
  isArr : Bool
  modName : Bytes
  name : Bytes
  shown : Bool
  body : Bytes
  /-- the metadata object of a leaf with annotations (the value of its `@name` member); empty = none -/
  after : Bytes
  deriving Repr

/-- items separated by commas -/
def sep : List Bytes → Bytes
  | [] => []
  | [x] => x
  | x :: y :: r => x ++ [44] ++ sep (y :: r)

/-- `"module:name":` resp. `"name":` (RFC 7951 sec. 4: qualified at the top level and when the module differs from the parent's) -/
def keyOf (top : Bool) (pmod : Option Bytes) (modName name : Bytes) : Bytes :=
  [34] ++ (if top || pmod != some modName then modName ++ [58] else []) ++ name ++ [34, 58]

/-- `"@module:name":` resp. `"@name":` (RFC 7952 sec. 5.2.2), qualified like the member it belongs to -/
def keyAt (top : Bool) (pmod : Option Bytes) (modName name : Bytes) : Bytes :=
  [34, 64] ++ (if top || pmod != some modName then modName ++ [58] else []) ++ name ++ [34, 58]

/-- the `@name` member that follows the member of a leaf with annotations -/
def afterMem (top : Bool) (pmod : Option Bytes) (i : Item) : List Bytes :=
  if i.after.isEmpty then [] else [keyAt top pmod i.modName i.name ++ i.after]

/-- the member of a leaf / container instance, and the `@name` member after it -/
def plainMems (top : Bool) (pmod : Option Bytes) (i : Item) : List Bytes :=
  (keyOf top pmod i.modName i.name ++ i.body) :: afterMem top pmod i

/-- the members contributed by one run (`first :: more`, all of one schema node) -/
def runMembers (top : Bool) (pmod : Option Bytes) (first : Item) (more : List Item) : List Bytes :=
  let shown := (first :: more).filter (·.shown)
  if first.isArr then
    match shown with
    | [] => []
    | f :: _ => [keyOf top pmod f.modName f.name ++ [91] ++ sep (shown.map (·.body)) ++ [93]]
  else shown.flatMap (plainMems top pmod)

/-- members of an object whose children are `its`: run by run -/
def members (top : Bool) (pmod : Option Bytes) : List Item → List Bytes
  | [] => []
  | i :: rest =>
    runMembers top pmod i (rest.takeWhile (·.sid == i.sid)) ++ members top pmod (rest.dropWhile (·.sid == i.sid))
termination_by l => l.length
decreasing_by
  simp only [List.length_cons]
  exact Nat.lt_succ_of_le (List.dropWhile_sublist _).length_le

/-- one member of a metadata object (RFC 7952 sec. 5.2): `"module:annotation":value` -/
def metaText (m : JMeta) : Bytes := [34] ++ m.modName ++ [58] ++ m.name ++ [34, 58] ++ printValue m.kind m.value

/-- the metadata object -/
def metaObjText (ms : List JMeta) : Bytes := [123] ++ sep (ms.map metaText) ++ [125]

/-- the `"@":{…}` member a container / list entry with annotations starts with -/
def metaMember (ms : List JMeta) : List Bytes := if ms.isEmpty then [] else [[34, 64, 34, 58] ++ metaObjText ms]

/-- members, each preceded by a comma when something precedes it -/
def cc (p : Bool) : List Bytes → Bytes
  | [] => []
  | m :: r => (if p then [44] else []) ++ m ++ cc true r

/-- the metadata object of a LEAF with annotations (containers and list entries have it inside their body) -/
def afterOf (n : JNode) : Bytes :=
  if n.kind == .leaf && !n.metas.isEmpty then metaObjText n.metas else []

mutual
/-- the JSON text of one instance's value -/
def body : JNode → Bytes
  | .mk kind _ modName _ _ metas vkind value kids =>
    match kind with
    | .leaf | .leaflist => printValue vkind value
    | .cont | .list => [123] ++ sep (metaMember metas ++ members false (some modName) (items kids)) ++ [125]
def items : List JNode → List Item
  | [] => []
  | n :: r => ⟨n.sid, n.kind.isArr, n.modName, n.name, n.shown, body n, afterOf n⟩ :: items r
end

/-- the specification of `json_print_data` (all siblings, shrink); metadata: the `@` member of containers and list entries (the
    `@name` member of leaves and the `@name` array of leaf-lists are not in the specification yet) -/
def specData (forest : List JNode) : Bytes :=
  [123] ++ sep (members true none (items forest)) ++ [125]

/-! ## the intermediate machine -/

inductive Mode
  | closed (p : Bool)      -- at object level; `p`: a member has been written in this object
  | opened (x : Nat)       -- inside the array of schema node `x`, after at least one item
  deriving Repr, DecidableEq

def simStep (top : Bool) (pmod : Option Bytes) (m : Mode) (it : Item) (isLast : Bool) : Bytes × Mode :=
  match m with
  | .closed p =>
    if !it.shown then ([], .closed p)
    else
      let k := (if p then [44] else []) ++ keyOf top pmod it.modName it.name
      if it.isArr then
        (k ++ [91] ++ it.body ++ (if isLast then [93] else []), if isLast then .closed true else .opened it.sid)
      else (k ++ it.body ++ cc true (afterMem top pmod it), .closed true)
  | .opened x =>
    if !it.shown then (if isLast then ([93], .closed true) else ([], .opened x))
    else ([44] ++ it.body ++ (if isLast then [93] else []), if isLast then .closed true else .opened x)

def sim (top : Bool) (pmod : Option Bytes) (m : Mode) : List Item → Bytes × Mode
  | [] => ([], m)
  | it :: rest =>
    let isLast := match rest with | [] => true | n :: _ => n.sid != it.sid
    let (b, m1) := simStep top pmod m it isLast
    let (r, m2) := sim top pmod m1 rest
    (b ++ r, m2)

end LyModel.JsonTree
