import LyModel.JsonTree.Doc
import LyModel.JsonTree.Spec
import LyModel.Text.SpecLemmas
/-! The independent JSON reader applied to comma-separated members / items whose values it reads back (flat level). -/
set_option linter.unusedSimpArgs false
set_option linter.unusedVariables false
namespace LyModel.JsonDoc
open LyModel LyModel.JsonTree

theorem skipWs_cons (b : UInt8) (r : Bytes) (h : isWs b = false) : skipWs (b :: r) = b :: r := by
  simp [skipWs, h]

/-- what may follow a value inside an object / array / at the end of the text -/
def After (r : Bytes) : Prop := r = [] ∨ ∃ c t, r = c :: t ∧ (c = 44 ∨ c = 125 ∨ c = 93)

theorem After.skipWs {r : Bytes} (h : After r) : skipWs r = r := by
  rcases h with rfl | ⟨c, t, rfl, hc⟩
  · rfl
  · rcases hc with rfl | rfl | rfl <;> exact skipWs_cons _ _ (by decide)

theorem After.noLit {r : Bytes} (h : After r) : r = [] ∨ ∃ c t, r = c :: t ∧ isLitByte c = false := by
  rcases h with rfl | ⟨c, t, rfl, hc⟩
  · exact Or.inl rfl
  · exact Or.inr ⟨c, t, rfl, by rcases hc with rfl | rfl | rfl <;> decide⟩

theorem takeLit_append (v r : Bytes) (hv : ∀ b ∈ v, isLitByte b = true)
    (hr : r = [] ∨ ∃ c t, r = c :: t ∧ isLitByte c = false) : takeLit (v ++ r) = (v, r) := by
  induction v with
  | nil =>
    rcases hr with rfl | ⟨c, t, rfl, hc⟩
    · simp [takeLit]
    · simp [takeLit, hc]
  | cons b t ih =>
    have hb := hv b (by simp)
    have := ih (fun x hx => hv x (by simp [hx]))
    simp [takeLit, hb, this]

/-- `parseValue` reads `b` back as `v`, whatever follows (a separator / closing bracket / the end) -/
def Good (b : Bytes) (v : JV) : Prop :=
  ∀ (fuel : Nat) (r : Bytes), b.length + 1 ≤ fuel → After r → parseValue fuel (b ++ r) = some (v, r)

/-- a literal token the printer writes for a number / boolean -/
def LitOk (v : Bytes) : Prop := v ≠ [] ∧ (∀ b ∈ v, isLitByte b = true) ∧ validLit v = true

theorem isLitByte_props (b : UInt8) (h : isLitByte b = true) : isWs b = false ∧ b ≠ 34 ∧ b ≠ 123 ∧ b ≠ 91 := by
  have : ∀ n < 256, isLitByte (UInt8.ofNat n) = true →
      isWs (UInt8.ofNat n) = false ∧ UInt8.ofNat n ≠ 34 ∧ UInt8.ofNat n ≠ 123 ∧ UInt8.ofNat n ≠ 91 := by decide +kernel
  have := this b.toNat (UInt8.toNat_lt b) (by simpa using h)
  simpa using this

theorem good_lit (v : Bytes) (h : LitOk v) : Good v (.lit v) := by
  obtain ⟨hne, hb, hv⟩ := h
  intro fuel r hf ha
  obtain ⟨f, rfl⟩ : ∃ f, fuel = f + 1 := ⟨fuel - 1, by omega⟩
  cases v with
  | nil => exact absurd rfl hne
  | cons c t =>
    obtain ⟨hws, h34, h123, h91⟩ := isLitByte_props c (hb c (by simp))
    have htl := takeLit_append (c :: t) r hb ha.noLit
    simp only [List.cons_append] at htl ⊢
    simp only [parseValue, skipWs_cons _ _ hws, List.head?_cons, Option.some.injEq, h34, h123, h91, if_false, htl, hv, if_true]

theorem readToken_print (s r : Bytes) (hs : ∀ b ∈ s, b ≠ 0) : JsonSpec.readToken (JsonText.printString s ++ r) = some (s, r) := by
  have := JsonText.spec_read_print s hs r ((s.flatMap JsonText.esc ++ 34 :: r).length + 1) (by simp [List.length_append])
  simpa [JsonSpec.readToken, JsonText.printString] using this

theorem good_str (s : Bytes) (hs : ∀ b ∈ s, b ≠ 0) : Good (JsonText.printString s) (.str s) := by
  intro fuel r hf ha
  obtain ⟨f, rfl⟩ : ∃ f, fuel = f + 1 := ⟨fuel - 1, by omega⟩
  have hrt := readToken_print s r hs
  have hp : JsonText.printString s ++ r = 34 :: (s.flatMap JsonText.esc ++ [34] ++ r) := by simp [JsonText.printString]
  rw [hp] at hrt ⊢
  simp only [parseValue, skipWs_cons _ _ (by decide : isWs 34 = false), List.head?_cons, if_true, hrt]

/-- bytes of YANG identifiers and module names (what member names are made of), `:` and the `@` of metadata members -/
def isKeyByte (b : UInt8) : Bool :=
  (48 ≤ b && b ≤ 57) || (65 ≤ b && b ≤ 90) || (97 ≤ b && b ≤ 122) || b == 95 || b == 45 || b == 46 || b == 58 || b == 64

def KeyOk (k : Bytes) : Prop := ∀ b ∈ k, isKeyByte b = true

theorem esc_keyByte (b : UInt8) (h : isKeyByte b = true) : JsonText.esc b = [b] ∧ b ≠ 0 := by
  have : ∀ n < 256, isKeyByte (UInt8.ofNat n) = true → JsonText.esc (UInt8.ofNat n) = [UInt8.ofNat n] ∧ UInt8.ofNat n ≠ 0 := by
    decide +kernel
  have := this b.toNat (UInt8.toNat_lt b) (by simpa using h)
  simpa using this

theorem flatMap_esc_key (k : Bytes) (hk : KeyOk k) : k.flatMap JsonText.esc = k := by
  induction k with
  | nil => rfl
  | cons b t ih =>
    have := (esc_keyByte b (hk b (by simp))).1
    simp [List.flatMap_cons, this, ih (fun x hx => hk x (by simp [hx]))]

theorem readToken_key (k r : Bytes) (hk : KeyOk k) : JsonSpec.readToken (34 :: (k ++ 34 :: r)) = some (k, r) := by
  have := readToken_print k r (fun b hb => (esc_keyByte b (hk b hb)).2)
  simpa [JsonText.printString, flatMap_esc_key k hk] using this

/-- a member as text and as value -/
structure MemV where
  key : Bytes
  body : Bytes
  v : JV

def renderMem (m : MemV) : Bytes := [34] ++ m.key ++ [34, 58] ++ m.body

theorem sep_cons_cons (x y : Bytes) (l : List Bytes) : sep (x :: y :: l) = x ++ 44 :: sep (y :: l) := by
  simp [sep]

theorem sep_head_mem (m : MemV) (l : List MemV) : ∃ t, sep ((m :: l).map renderMem) = 34 :: t := by
  cases l with
  | nil => exact ⟨m.key ++ 34 :: 58 :: m.body, by simp [sep, renderMem]⟩
  | cons y t => exact ⟨m.key ++ 34 :: 58 :: (m.body ++ 44 :: sep ((y :: t).map renderMem)), by simp [sep, renderMem]⟩

theorem sep_length_mem (m : MemV) (l : List MemV) :
    (sep ((m :: l).map renderMem)).length = m.key.length + m.body.length + 3 + (if l = [] then 0 else 1 + (sep (l.map renderMem)).length) := by
  cases l with
  | nil => simp [sep, renderMem]; omega
  | cons y t => simp [sep, renderMem]; omega

theorem parseMembers_sep : ∀ (ms : List MemV), ms ≠ [] → (∀ m ∈ ms, KeyOk m.key) → (∀ m ∈ ms, Good m.body m.v) →
    ∀ (fuel : Nat) (r : Bytes) (first : Bool), (sep (ms.map renderMem)).length + 1 ≤ fuel →
      parseMembers fuel (sep (ms.map renderMem) ++ 125 :: r) first = some (ms.map (·.key), ms.map (·.v), r)
  | [], hne, _, _, _, _, _, _ => absurd rfl hne
  | m :: rest, _, hk, hg, fuel, r, first, hf => by
    obtain ⟨f, rfl⟩ : ∃ f, fuel = f + 1 := ⟨fuel - 1, by omega⟩
    have hkm := hk m (by simp)
    have hgm := hg m (by simp)
    cases rest with
    | nil =>
      -- the last member
      have e : sep ([m].map renderMem) ++ 125 :: r = 34 :: (m.key ++ 34 :: (58 :: (m.body ++ 125 :: r))) := by
        simp [sep, renderMem]
      rw [e]
      have hlen : (sep ([m].map renderMem)).length = m.key.length + m.body.length + 3 := by
        simp [sep, renderMem]; omega
      have hv := hgm f (125 :: r) (by omega) (Or.inr ⟨125, r, rfl, Or.inr (Or.inl rfl)⟩)
      simp only [parseMembers, List.head?_cons, Option.some.injEq, readToken_key _ _ hkm,
        skipWs_cons _ _ (by decide : isWs 58 = false), List.tail_cons, hv, skipWs_cons _ _ (by decide : isWs 125 = false),
        if_true, List.map_cons, List.map_nil]
      try simp
    | cons m2 rest2 =>
      have ih := parseMembers_sep (m2 :: rest2) (by simp) (fun x hx => hk x (by simp [hx])) (fun x hx => hg x (by simp [hx]))
      obtain ⟨t2, ht2⟩ := sep_head_mem m2 rest2
      have e : sep ((m :: m2 :: rest2).map renderMem) ++ 125 :: r =
          34 :: (m.key ++ 34 :: (58 :: (m.body ++ 44 :: (sep ((m2 :: rest2).map renderMem) ++ 125 :: r)))) := by
        simp [sep, renderMem, List.append_assoc]
      rw [e]
      have hlen := sep_length_mem m (m2 :: rest2)
      simp only [reduceCtorEq, if_false] at hlen
      have hv := hgm f (44 :: (sep ((m2 :: rest2).map renderMem) ++ 125 :: r))
        (by omega) (Or.inr ⟨44, _, rfl, Or.inl rfl⟩)
      have hrec := ih f r false (by omega)
      have hsk : skipWs (sep ((m2 :: rest2).map renderMem) ++ 125 :: r) = sep ((m2 :: rest2).map renderMem) ++ 125 :: r := by
        rw [ht2]; exact skipWs_cons _ _ (by decide)
      have hmk : (m :: m2 :: rest2).map (·.key) = m.key :: (m2 :: rest2).map (·.key) := rfl
      have hmv : (m :: m2 :: rest2).map (·.v) = m.v :: (m2 :: rest2).map (·.v) := rfl
      rw [hmk, hmv]
      generalize sep (List.map renderMem (m2 :: rest2)) = S at *
      generalize (m2 :: rest2).map (·.key) = KS at *
      generalize (m2 :: rest2).map (·.v) = VS at *
      simp only [parseMembers, List.head?_cons, Option.some.injEq, readToken_key _ _ hkm,
        skipWs_cons _ _ (by decide : isWs 58 = false), List.tail_cons, hv, skipWs_cons _ _ (by decide : isWs 44 = false),
        if_true, hsk, hrec]
      try simp

/-- an object whose members are read back -/
theorem good_obj (ms : List MemV) (hk : ∀ m ∈ ms, KeyOk m.key) (hg : ∀ m ∈ ms, Good m.body m.v) :
    Good ([123] ++ sep (ms.map renderMem) ++ [125]) (.obj (ms.map (·.key)) (ms.map (·.v))) := by
  intro fuel r hf ha
  obtain ⟨f, rfl⟩ : ∃ f, fuel = f + 1 := ⟨fuel - 1, by omega⟩
  have e : [123] ++ sep (ms.map renderMem) ++ [125] ++ r = 123 :: (sep (ms.map renderMem) ++ 125 :: r) := by simp
  rw [e]
  simp only [List.length_append, List.length_cons, List.length_nil] at hf
  cases ms with
  | nil =>
    obtain ⟨f', rfl⟩ : ∃ f', f = f' + 1 := ⟨f - 1, by omega⟩
    simp [parseValue, skipWs_cons _ _ (by decide : isWs 123 = false), sep, parseMembers,
      skipWs_cons _ _ (by decide : isWs 125 = false)]
  | cons m rest =>
    obtain ⟨t, ht⟩ := sep_head_mem m rest
    have hrec := parseMembers_sep (m :: rest) (by simp) hk hg f r true (by omega)
    have hsk : skipWs (sep ((m :: rest).map renderMem) ++ 125 :: r) = sep ((m :: rest).map renderMem) ++ 125 :: r := by
      rw [ht]; exact skipWs_cons _ _ (by decide)
    generalize sep (List.map renderMem (m :: rest)) = S at *
    simp only [parseValue, skipWs_cons _ _ (by decide : isWs 123 = false), List.head?_cons, Option.some.injEq, List.tail_cons,
      hsk, hrec]
    try simp

/-- an item of an array as text and as value -/
structure ItV where
  body : Bytes
  v : JV

/-- the first byte of a value the printer writes is never white space (needed after `[` and `,`) -/
def Starts (b : Bytes) : Prop := ∃ c t, b = c :: t ∧ isWs c = false ∧ c ≠ 93

theorem parseItems_sep : ∀ (xs : List ItV), xs ≠ [] → (∀ x ∈ xs, Good x.body x.v) → (∀ x ∈ xs, Starts x.body) →
    ∀ (fuel : Nat) (r : Bytes) (first : Bool), (sep (xs.map (·.body))).length + 2 ≤ fuel →
      parseItems fuel (sep (xs.map (·.body)) ++ 93 :: r) first = some (xs.map (·.v), r)
  | [], hne, _, _, _, _, _, _ => absurd rfl hne
  | x :: rest, _, hg, hs, fuel, r, first, hf => by
    obtain ⟨f, rfl⟩ : ∃ f, fuel = f + 1 := ⟨fuel - 1, by omega⟩
    have hgx := hg x (by simp)
    obtain ⟨c, t, hb, hws, h93⟩ := hs x (by simp)
    cases rest with
    | nil =>
      have e : sep ([x].map (·.body)) ++ 93 :: r = x.body ++ 93 :: r := by simp [sep]
      have hlen : (sep ([x].map (·.body))).length = x.body.length := by simp [sep]
      rw [e]
      have hv := hgx f (93 :: r) (by omega) (Or.inr ⟨93, r, rfl, Or.inr (Or.inr rfl)⟩)
      have hh : (x.body ++ 93 :: r).head? = some c := by rw [hb]; rfl
      have hnf : ¬ (first = true ∧ (x.body ++ 93 :: r).head? = some 93) := by
        rw [hh]; intro h; exact h93 (by simpa using h.2)
      simp only [parseItems, hnf, if_false, hv, skipWs_cons _ _ (by decide : isWs 93 = false), List.head?_cons,
        Option.some.injEq, List.tail_cons, List.map_cons, List.map_nil]
      try simp
    | cons x2 rest2 =>
      have ih := parseItems_sep (x2 :: rest2) (by simp) (fun y hy => hg y (by simp [hy])) (fun y hy => hs y (by simp [hy]))
      obtain ⟨c2, t2, hb2, hws2, _⟩ := hs x2 (by simp)
      have e : sep ((x :: x2 :: rest2).map (·.body)) ++ 93 :: r = x.body ++ 44 :: (sep ((x2 :: rest2).map (·.body)) ++ 93 :: r) := by
        simp [sep, List.append_assoc]
      have hlen : (sep ((x :: x2 :: rest2).map (·.body))).length = x.body.length + 1 + (sep ((x2 :: rest2).map (·.body))).length := by
        simp [sep]; omega
      have hpos : 1 ≤ x.body.length := by rw [hb]; simp
      rw [e]
      have hv := hgx f (44 :: (sep ((x2 :: rest2).map (·.body)) ++ 93 :: r))
        (by omega) (Or.inr ⟨44, _, rfl, Or.inl rfl⟩)
      have hrec := ih f r false (by omega)
      have hh : (x.body ++ 44 :: (sep ((x2 :: rest2).map (·.body)) ++ 93 :: r)).head? = some c := by rw [hb]; rfl
      have hnf : ¬ (first = true ∧ (x.body ++ 44 :: (sep ((x2 :: rest2).map (·.body)) ++ 93 :: r)).head? = some 93) := by
        rw [hh]; intro h; exact h93 (by simpa using h.2)
      have hsk : skipWs (sep ((x2 :: rest2).map (·.body)) ++ 93 :: r) = sep ((x2 :: rest2).map (·.body)) ++ 93 :: r := by
        have : ∃ t', sep ((x2 :: rest2).map (·.body)) = c2 :: t' := by
          cases rest2 with
          | nil => exact ⟨t2, by simp [sep, hb2]⟩
          | cons y z => exact ⟨t2 ++ 44 :: sep ((y :: z).map (·.body)), by simp [sep, hb2]⟩
        obtain ⟨t', ht'⟩ := this
        rw [ht']; exact skipWs_cons _ _ hws2
      have hmv : (x :: x2 :: rest2).map (·.v) = x.v :: (x2 :: rest2).map (·.v) := rfl
      rw [hmv]
      generalize sep (List.map (fun x => x.body) (x2 :: rest2)) = S at *
      generalize (x2 :: rest2).map (·.v) = VS at *
      simp only [parseItems, hnf, if_false, hv, skipWs_cons _ _ (by decide : isWs 44 = false), List.head?_cons,
        Option.some.injEq, if_true, List.tail_cons, hsk, hrec]
      try simp

theorem good_arr (xs : List ItV) (hne : xs ≠ []) (hg : ∀ x ∈ xs, Good x.body x.v) (hs : ∀ x ∈ xs, Starts x.body) :
    Good ([91] ++ sep (xs.map (·.body)) ++ [93]) (.arr (xs.map (·.v))) := by
  intro fuel r hf ha
  obtain ⟨f, rfl⟩ : ∃ f, fuel = f + 1 := ⟨fuel - 1, by omega⟩
  have e : [91] ++ sep (xs.map (·.body)) ++ [93] ++ r = 91 :: (sep (xs.map (·.body)) ++ 93 :: r) := by simp
  rw [e]
  simp only [List.length_append, List.length_cons, List.length_nil] at hf
  have hrec := parseItems_sep xs hne hg hs f r true (by omega)
  have hsk : skipWs (sep (xs.map (·.body)) ++ 93 :: r) = sep (xs.map (·.body)) ++ 93 :: r := by
    cases xs with
    | nil => exact absurd rfl hne
    | cons x rest =>
      obtain ⟨c, t, hb, hws, _⟩ := hs x (by simp)
      have : ∃ t', sep ((x :: rest).map (·.body)) = c :: t' := by
        cases rest with
        | nil => exact ⟨t, by simp [sep, hb]⟩
        | cons y z => exact ⟨t ++ 44 :: sep ((y :: z).map (·.body)), by simp [sep, hb]⟩
      obtain ⟨t', ht'⟩ := this
      rw [ht']; exact skipWs_cons _ _ hws
  generalize sep (List.map (fun x => x.body) xs) = S at *
  simp only [parseValue, skipWs_cons _ _ (by decide : isWs 91 = false), List.head?_cons, Option.some.injEq, List.tail_cons,
    hsk, hrec]
  try simp

end LyModel.JsonDoc
