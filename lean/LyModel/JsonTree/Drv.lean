import LyModel.JsonTree.Spec
import LyModel.JsonTree.Doc
import LyModel.JsonTree.MetaView
import LyModel.Generated.JsonTyping
/-! driver op of component `jsontree`: `print <rows-hex>` — rows as printed by harness `api_rt` (`jview`). -/
namespace LyModel.JsonTree.Drv
open LyModel LyModel.JsonTree

/-- the generated base-type table of `json_print_value` -/
def vkindOf (bt : Nat) : Option VKind :=
  match Generated.jsonTyping.find? (fun e => e.1 == bt) with
  | some (_, _, "str") => some .str
  | some (_, _, "lit") => some .lit
  | some (_, _, "empty") => some .empty
  | _ => none

structure Row where
  depth : Nat
  kind : NKind
  sid : Nat
  modName : Bytes
  name : Bytes
  shown : Bool
  vkind : VKind
  value : Bytes
  metas : List JMeta

def parseMeta (s : String) : Option JMeta :=
  match s.splitOn "," with
  | [m, n, bt, v] => do
    let b ← bt.toNat?
    let k ← vkindOf b
    let val ← Hex.dec v
    pure { modName := bytesOfString m, name := bytesOfString n, kind := k, value := val }
  | _ => none

def parseKind : String → Option NKind
  | "leaf" => some .leaf | "leaflist" => some .leaflist | "cont" => some .cont | "list" => some .list | _ => none

def parseRow (line : String) : Option Row :=
  match (line.splitOn " ").filter (· ≠ "") with
  | d :: k :: sid :: m :: n :: sh :: bt :: v :: ms => do
    let depth ← d.toNat?
    let kind ← parseKind k
    let s ← sid.toNat?
    let b ← bt.toNat?
    let vk ← if kind == .leaf || kind == .leaflist then vkindOf b else some .str
    let val ← Hex.dec v
    let metas ← ms.mapM parseMeta
    pure { depth, kind, sid := s, modName := bytesOfString m, name := bytesOfString n, shown := sh == "1", vkind := vk, value := val, metas }
  | _ => none

def build : (fuel : Nat) → (d : Nat) → List Row → List JNode × List Row
  | 0, _, rs => ([], rs)
  | _, _, [] => ([], [])
  | fuel + 1, d, r :: rs =>
    if r.depth != d then ([], r :: rs)
    else
      if r.kind == .leaf || r.kind == .leaflist then
        let (sibs, rest) := build fuel d rs
        (JNode.mk r.kind r.sid r.modName r.name r.shown r.metas r.vkind r.value [] :: sibs, rest)
      else
        let (kids, rest) := build fuel (d + 1) rs
        let (sibs, rest') := build fuel d rest
        (JNode.mk r.kind r.sid r.modName r.name r.shown r.metas r.vkind r.value kids :: sibs, rest')

/-- canonical rendering of what the independent reader reports (compared with Python's `json` in the check) -/
partial def canon : JsonDoc.JV → String
  | .str b => "s" ++ Hex.enc b
  | .lit b => "l" ++ Hex.enc b
  | .obj ks vs => "{" ++ ",".intercalate ((ks.zip vs).map fun (k, v) => Hex.enc k ++ ":" ++ canon v) ++ "}"
  | .arr xs => "[" ++ ",".intercalate (xs.map canon) ++ "]"

def handle (op : String) (args : List String) : String :=
  match op, args with
  | "print", [h] =>
    match Hex.dec h with
    | none => "err BadHex"
    | some b =>
      let lines := ((String.fromUTF8? (ByteArray.mk b.toArray)).getD "").splitOn "\n" |>.filter (· ≠ "")
      match lines.mapM parseRow with
      | none => "err Unsupported"
      | some rows =>
        let (forest, rest) := build (2 * rows.length + 2) 0 rows
        if rest.isEmpty then "ok " ++ Hex.enc (printData forest) else "err BadRows"
  | "spec", [h] =>
    -- the declarative specification (metadata: `@` of containers and list entries, `@name` of leaves; not yet the `@name` array of leaf-lists)
    match Hex.dec h with
    | none => "err BadHex"
    | some b =>
      let lines := ((String.fromUTF8? (ByteArray.mk b.toArray)).getD "").splitOn "\n" |>.filter (· ≠ "")
      match lines.mapM parseRow with
      | none => "err Unsupported"
      | some rows =>
        let (forest, rest) := build (2 * rows.length + 2) 0 rows
        if !rest.isEmpty then "err BadRows"
        else if rows.any (fun r => !r.metas.isEmpty && r.kind == .leaflist) then "err HasMeta"
        else "ok " ++ Hex.enc (specData forest)
  | "jcheck", [h, hp] =>
    -- trees WITH metadata: the state-free expectation `jsonViewM` (RFC 7951 / 7952 sec. 5.2) against what the independent reader
    -- makes of LIBYANG's bytes, the model's output against these bytes, and the hypotheses
    -- -> ok <jmetaOk> <has metadata> <model = libyang> <reader(libyang) = jsonViewM | x>
    match Hex.dec h, Hex.dec hp with
    | some b, some px =>
      let lines := ((String.fromUTF8? (ByteArray.mk b.toArray)).getD "").splitOn "\n" |>.filter (· ≠ "")
      match lines.mapM parseRow with
      | none => "err Unsupported"
      | some rows =>
        let (forest, rest) := build (2 * rows.length + 2) 0 rows
        if !rest.isEmpty then "err BadRows"
        else
          let read := match JsonDoc.parseDoc px with
            | none => "x"
            | some v => if canon v == canon (jsonViewM forest) then "1" else "0"
          "ok " ++ (if jmetaOk forest then "1" else "0") ++ " " ++ (if rows.any (fun r => !r.metas.isEmpty) then "1" else "0") ++ " " ++
            (if printData forest == px then "1" else "0") ++ " " ++ read
    | _, _ => "err BadHex"
  | "docparse", [h] =>
    match Hex.dec h with
    | none => "err BadHex"
    | some b =>
      match JsonDoc.parseDoc b with
      | some v => "ok " ++ canon v
      | none => "err NotJson"
  | _, _ => "err BadOp"

end LyModel.JsonTree.Drv
