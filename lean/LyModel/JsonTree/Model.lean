import LyModel.Text.JsonText
/-!
# The JSON data printer's tree walk (`printer_json.c`, shrink mode)

`json_print_data` / `json_print_node` / `json_print_container` / `json_print_inner` / `json_print_leaf` /
`json_print_leaf_list` / `json_print_attributes` / `json_print_metadata` / `json_print_meta_attr_leaflist` / `json_print_member(2)` /
`json_print_value`, with the printer's own comma bookkeeping (`level`, `level_printed`, the stack of open arrays, the pending
leaf-list whose metadata array is written after its last instance) as explicit state.  The input is the sibling forest as the
printer walks it — *including* the nodes `lyd_node_should_print` rejects (`shown = false`): skipping them is where the
bookkeeping is delicate (finding F16).  Strings go through `JsonText.printString` (generated escape table).
-/
namespace LyModel.JsonTree
open LyModel

/-- how `json_print_value` writes a value (from the generated base-type table): quoted string, bare literal (`null` when
    empty), or `[null]` -/
inductive VKind | str | lit | empty
  deriving Repr, DecidableEq, BEq

structure JMeta where
  modName : Bytes
  name : Bytes
  kind : VKind
  value : Bytes
  deriving Repr

inductive NKind | leaf | leaflist | cont | list
  deriving Repr, DecidableEq, BEq

/-- a data node as the printer sees it; `sid` identifies the schema node (`matching_node`) -/
inductive JNode where
  | mk (kind : NKind) (sid : Nat) (modName name : Bytes) (shown : Bool) (metas : List JMeta) (vkind : VKind) (value : Bytes)
       (kids : List JNode)
  deriving Repr

namespace JNode
def kind : JNode → NKind | mk k .. => k
def sid : JNode → Nat | mk _ s .. => s
def modName : JNode → Bytes | mk _ _ m .. => m
def name : JNode → Bytes | mk _ _ _ n .. => n
def shown : JNode → Bool | mk _ _ _ _ s .. => s
def metas : JNode → List JMeta | mk _ _ _ _ _ ms .. => ms
def vkind : JNode → VKind | mk _ _ _ _ _ _ vk .. => vk
def value : JNode → Bytes | mk _ _ _ _ _ _ _ v _ => v
def kids : JNode → List JNode | mk _ _ _ _ _ _ _ _ ks => ks
end JNode

structure St where
  level : Nat
  lp : Nat                 -- level_printed
  opens : List Nat         -- open arrays (sids), innermost first
  pend : Option Nat        -- first_leaflist (its sid)
  deriving Repr

def sNull : Bytes := [110, 117, 108, 108]
def sEmpty : Bytes := [91, 110, 117, 108, 108, 93]      -- "[null]"

def printValue (k : VKind) (v : Bytes) : Bytes :=
  match k with
  | .str => JsonText.printString v
  | .lit => if v.isEmpty then sNull else v
  | .empty => sEmpty

/-- PRINT_COMMA -/
def comma (s : St) : Bytes := if s.lp ≥ s.level then [44] else []

/-- `json_print_member` (parent module `pmod`; `none` at top level) -/
def member (s : St) (pmod : Option Bytes) (modName name : Bytes) (isAttr : Bool) : Bytes :=
  comma s ++ [34] ++ (if isAttr then [64] else []) ++
    (if s.level == 1 || pmod != some modName then modName ++ [58] else []) ++ name ++ [34, 58]

/-- `json_print_metadata` (without the with-defaults tag) -/
def printMetas : St → List JMeta → Bytes × St
  | s, [] => ([], s)
  | s, m :: ms =>
    let a := comma s ++ [34] ++ m.modName ++ [58] ++ m.name ++ [34, 58] ++ printValue m.kind m.value
    let (r, s') := printMetas { s with lp := s.level } ms
    (a ++ r, s')

/-- the `{ … }` object with the metadata, after its member name has been written -/
def metaObject (s : St) (metas : List JMeta) : Bytes × St :=
  let (m, s1) := printMetas { s with level := s.level + 1 } metas
  ([123] ++ m ++ [125], { s1 with level := s.level, lp := s.level })

def isOpen (s : St) (sid : Nat) : Bool := s.opens.head? == some sid

/-- one entry of the metadata array of a leaf-list -/
def metaArrayEntries : St → List JNode → Bytes × St
  | s, [] => ([], s)
  | s, n :: r =>
    if !n.shown then metaArrayEntries s r      -- no value was printed for it, so no item either (since the `fix:` for F96)
    else
    let c := comma s
    let (e, s1) := if n.metas.isEmpty then (sNull, s) else
      let (m, s') := printMetas { s with level := s.level + 1 } n.metas
      ([123] ++ m ++ [125], { s' with level := s.level })
    let (t, s2) := metaArrayEntries { s1 with lp := s1.level } r
    (c ++ e ++ t, s2)

/-- `json_print_meta_attr_leaflist` over the run of instances (ALL instances of the run, shown or not) -/
def metaArray (s : St) (pmod : Option Bytes) (run : List JNode) : Bytes × St :=
  match run with
  | [] => ([], s)
  | f :: _ =>
    let m := member s pmod f.modName f.name true
    let (es, s1) := metaArrayEntries { s with level := s.level + 1 } run
    (m ++ [91] ++ es ++ [93], { s1 with level := s.level, lp := s.level, pend := none })

/-- first half of `json_print_inner`: optional comma, `{`, the `"@"` metadata member; returns the state for the children -/
def innerPre (s : St) (metas : List JMeta) (inArray : Bool) : Bytes × St :=
  let c : Bytes := if inArray && s.lp ≥ s.level then [44] else []
  let s1 := { s with level := s.level + 1 }
  let (a, s2) : Bytes × St :=
    if metas.isEmpty then ([], s1)
    else
      let (o, s') := metaObject s1 metas
      (comma s1 ++ [34, 64, 34, 58] ++ o, s')
  (c ++ [123] ++ a, s2)

/-- second half: `}`, `LEVEL_DEC`, `LEVEL_PRINTED` (`lvl` = level of the enclosing member) -/
def innerPost (lvl : Nat) (s3 : St) : St := { s3 with level := lvl, lp := lvl }

mutual
/-- `json_print_node` without its tail; `isLast`: no next sibling of the same schema node -/
def printNode (s : St) (pmod : Option Bytes) (n : JNode) (isLast : Bool) : Bytes × St :=
  match n with
  | .mk kind sid modName name shown metas vkind value kids =>
    if !shown then
      -- not printed at all; a trailing skipped instance still closes the array of the printed ones
      if isOpen s sid && isLast then ([93], { s with level := s.level - 1, opens := s.opens.tail })
      else ([], s)
    else
      match kind with
      | .leaf =>
        let m := member s pmod modName name false
        let v := printValue vkind value
        let s1 := { s with lp := s.level }
        if metas.isEmpty then (m ++ v, s1)
        else
          let am := member s1 pmod modName name true
          let (o, s2) := metaObject s1 metas
          (m ++ v ++ am ++ o, s2)
      | .cont =>
        let m := member s pmod modName name false
        let (a, s2) := innerPre s metas false
        let (k, s3) := printSibs s2 (some modName) [] kids
        (m ++ a ++ k ++ [125], innerPost s.level s3)
      | .leaflist =>
        let (pre, s1) : Bytes × St :=
          if !isOpen s sid then (member s pmod modName name false ++ [91], { s with level := s.level + 1, opens := sid :: s.opens })
          else ([44], s)
        let v := printValue vkind value
        let s2 := if s1.pend.isNone && !metas.isEmpty then { s1 with pend := some sid } else s1
        if isLast then (pre ++ v ++ [93], { s2 with level := s2.level - 1, opens := s2.opens.tail })
        else (pre ++ v, s2)
      | .list =>
        let (pre, s1) : Bytes × St :=
          if !isOpen s sid then (member s pmod modName name false ++ [91], { s with level := s.level + 1, opens := sid :: s.opens })
          else ([], s)
        let (a, s2) := innerPre s1 metas true
        let (k, s3) := printSibs s2 (some modName) [] kids
        let s4 := innerPost s1.level s3
        if isLast then (pre ++ a ++ k ++ [125, 93], { s4 with level := s4.level - 1, opens := s4.opens.tail })
        else (pre ++ a ++ k ++ [125], s4)
/-- the loop over a sibling list, with the tail of `json_print_node` after every node -/
def printSibs (s : St) (pmod : Option Bytes) (before : List JNode) : List JNode → Bytes × St
  | [] => ([], s)
  | n :: rest =>
    let isLast := match rest with | [] => true | m :: _ => m.sid != n.sid
    let (b, s1) := printNode s pmod n isLast
    -- tail: skipped when the node was not printed and did not close an array (early return)
    let early := !n.shown && !(isOpen s n.sid && isLast)
    let (t, s2) : Bytes × St :=
      if early then ([], s1)
      else
        let s1' := { s1 with lp := s1.level }
        match s1'.pend with
        | some psid =>
          if isLast || psid != n.sid then
            let run := ((before.takeWhile fun x => x.sid == psid).reverse) ++ (if n.sid == psid then [n] else [])
            metaArray s1' pmod run
          else ([], s1')
        | none => ([], s1')
    let (r, s3) := printSibs s2 pmod (n :: before) rest
    (b ++ t ++ r, s3)
end

/-- `json_print_data` with `LYD_PRINT_WITHSIBLINGS | LYD_PRINT_SHRINK` -/
def printData (forest : List JNode) : Bytes :=
  if forest.isEmpty then [123, 125] else
  let (b, _) := printSibs { level := 1, lp := 0, opens := [], pend := none } none [] forest
  [123] ++ b ++ [125]

end LyModel.JsonTree
