import LyModel.JsonTree.Model
import LyModel.JsonTree.Doc
/-!
# What an RFC 8259 reader should report for a data tree WITH metadata (RFC 7951 sec. 4-6, RFC 7952 sec. 5.2), state-free

`jsonViewM forest` is the value the independent reader `JsonDoc.parseDoc` is expected to return for the JSON text of a forest as the
printer walks it (nodes with `shown = false` are not printed).  Inside an object the children are cut into runs of adjacent instances
of one schema node:

* a leaf contributes the member `name: value` and, if it has annotations, the member `@name: {metadata object}` right after it;
* a container contributes `name: {…}` whose first member is `@: {metadata object}` if it has annotations;
* a leaf-list run contributes ONE member `name: [values of the printed instances]` and, if some printed instance has annotations,
  ONE member `@name: [ … ]` with exactly one item per PRINTED instance, in order: `null` for an instance without annotations, its
  metadata object otherwise (RFC 7952 sec. 5.2.2: aligned by array index);
* a list run contributes `name: [{…}, …]`, each entry with its own `@` member first;
* the metadata object has one member `module:annotation` per annotation, the value typed as RFC 7951 sec. 6 says;
* member names are module-qualified at the top level and where the module differs from the parent's.

No printer state (level, level_printed, open arrays, pending leaf-list) occurs here.  Executable (driver op `jcheck`): the check
compares it with what the reader makes of LIBYANG's bytes for every generated tree.  A theorem connecting it to the model of the
printer (`json_document_faithful_meta`) is OPEN; `json_document_faithful` covers the trees without metadata.
-/
namespace LyModel.JsonTree
open LyModel LyModel.JsonDoc

def valM (k : VKind) (v : Bytes) : JV :=
  match k with
  | .str => .str v
  | .lit => .lit (if v.isEmpty then JsonDoc.sNull else v)
  | .empty => .arr [.lit JsonDoc.sNull]

def objOfPairs (ps : List (Bytes × JV)) : JV := .obj (ps.map (·.1)) (ps.map (·.2))

/-- RFC 7952 sec. 5.2: the metadata object -/
def metaObjM (metas : List JMeta) : JV := objOfPairs (metas.map fun m => (m.modName ++ [58] ++ m.name, valM m.kind m.value))

def qualM (top : Bool) (pmod : Option Bytes) (modName name : Bytes) : Bytes :=
  (if top || pmod != some modName then modName ++ [58] else []) ++ name

/-- the members of an object whose children are the given siblings; `fuel` bounds the nesting plus the number of runs -/
def membersM : (fuel : Nat) → (top : Bool) → (pmod : Option Bytes) → List JNode → List (Bytes × JV)
  | 0, _, _, _ => []
  | _ + 1, _, _, [] => []
  | f + 1, top, pmod, n :: rest =>
    let run := n :: rest.takeWhile (·.sid == n.sid)
    let after := rest.dropWhile (·.sid == n.sid)
    let shown := run.filter (·.shown)
    let q := qualM top pmod n.modName n.name
    let bodyOf (x : JNode) : JV :=
      match x.kind with
      | .leaf | .leaflist => valM x.vkind x.value
      | .cont | .list =>
        objOfPairs ((if x.metas.isEmpty then [] else [([64], metaObjM x.metas)]) ++ membersM f false (some x.modName) x.kids)
    let ms : List (Bytes × JV) :=
      match n.kind with
      | .leaf => shown.flatMap fun x => (q, bodyOf x) :: (if x.metas.isEmpty then [] else [([64] ++ q, metaObjM x.metas)])
      | .cont => shown.map fun x => (q, bodyOf x)
      | .leaflist =>
        if shown.isEmpty then []
        else (q, JV.arr (shown.map bodyOf)) ::
          (if shown.any (fun x => !x.metas.isEmpty) then
            [([64] ++ q, JV.arr (shown.map fun x => if x.metas.isEmpty then JV.lit JsonDoc.sNull else metaObjM x.metas))]
           else [])
      | .list => if shown.isEmpty then [] else [(q, JV.arr (shown.map bodyOf))]
    ms ++ membersM f top pmod after

mutual
def msize : JNode → Nat
  | .mk _ _ _ _ _ _ _ _ kids => 2 + msizes kids
def msizes : List JNode → Nat
  | [] => 1
  | n :: r => msize n + msizes r
end

/-- the reader's view of a forest with metadata: the top-level object -/
def jsonViewM (forest : List JNode) : JV := objOfPairs (membersM (msizes forest + 1) true none forest)

/-- the hypotheses of the (open) theorem as far as they are known: a node's schema node differs from its ancestors' and adjacent
    instances of one schema node are of one kind (as for `json_tree_refines_spec`); one annotation at most once per instance -/
def adjKindB : List JNode → Bool
  | a :: b :: r => (b.sid != a.sid || b.kind == a.kind) && adjKindB (b :: r)
  | _ => true

def metasDistinct : List JMeta → Bool
  | [] => true
  | m :: r => !(r.any fun x => x.modName == m.modName && x.name == m.name) && metasDistinct r

mutual
def jmetaOkB (anc : List Nat) : JNode → Bool
  | .mk _ sid _ _ _ metas _ _ kids => !anc.contains sid && metasDistinct metas && adjKindB kids && jmetaOkL (sid :: anc) kids
def jmetaOkL (anc : List Nat) : List JNode → Bool
  | [] => true
  | n :: r => jmetaOkB anc n && jmetaOkL anc r
end

def jmetaOk (forest : List JNode) : Bool := adjKindB forest && jmetaOkL [] forest

end LyModel.JsonTree
