import LyModel.JsonTree.DocLemmas
import LyModel.JsonTree.Refine
/-! The independent JSON reader applied to the declarative layout `specData` recovers the tree (`jsonView`). -/
set_option linter.unusedSimpArgs false
set_option linter.unusedVariables false
namespace LyModel.JsonTree
open LyModel LyModel.JsonDoc

/-- RFC 7951 sec. 4 member name: qualified at the top level and when the module differs from the parent's -/
def qualName (top : Bool) (pmod : Option Bytes) (modName name : Bytes) : Bytes :=
  (if top || pmod != some modName then modName ++ [58] else []) ++ name

theorem keyOf_eq (top : Bool) (pmod : Option Bytes) (m n : Bytes) :
    keyOf top pmod m n = [34] ++ qualName top pmod m n ++ [34, 58] := by
  simp [keyOf, qualName, List.append_assoc]

/-- a sibling with the value a reader should report for it -/
structure ItemB where
  it : Item
  v : JV
  /-- the value of the metadata object of a leaf with annotations (used when `it.after` is not empty) -/
  av : JV

/-- the member of a leaf / container instance and the `@name` member after it, as (name, text, value) -/
def plainV (top : Bool) (pmod : Option Bytes) (i : ItemB) : List MemV :=
  ⟨qualName top pmod i.it.modName i.it.name, i.it.body, i.v⟩ ::
    (if i.it.after.isEmpty then [] else [⟨[64] ++ qualName top pmod i.it.modName i.it.name, i.it.after, i.av⟩])

theorem plainMems_eq (top : Bool) (pmod : Option Bytes) (i : ItemB) :
    plainMems top pmod i.it = (plainV top pmod i).map renderMem := by
  unfold plainMems plainV afterMem
  split <;> simp [renderMem, keyOf_eq, keyAt, qualName, List.append_assoc]

/-- the members one run contributes, as (name, text, value) -/
def runV (top : Bool) (pmod : Option Bytes) (first : ItemB) (more : List ItemB) : List MemV :=
  let shown := (first :: more).filter (·.it.shown)
  if first.it.isArr then
    match shown with
    | [] => []
    | f :: _ => [⟨qualName top pmod f.it.modName f.it.name, [91] ++ sep (shown.map (·.it.body)) ++ [93], .arr (shown.map (·.v))⟩]
  else shown.flatMap (plainV top pmod)

def membersV (top : Bool) (pmod : Option Bytes) : List ItemB → List MemV
  | [] => []
  | i :: rest =>
    runV top pmod i (rest.takeWhile (·.it.sid == i.it.sid)) ++ membersV top pmod (rest.dropWhile (·.it.sid == i.it.sid))
termination_by l => l.length
decreasing_by
  simp only [List.length_cons]
  exact Nat.lt_succ_of_le (List.dropWhile_sublist _).length_le

theorem runMembers_eq (top : Bool) (pmod : Option Bytes) (i : ItemB) (more : List ItemB) :
    runMembers top pmod i.it (more.map (·.it)) = (runV top pmod i more).map renderMem := by
  have hf : (i.it :: more.map (·.it)).filter (·.shown) = ((i :: more).filter (·.it.shown)).map (·.it) := by
    have e : i.it :: more.map (·.it) = (i :: more).map (·.it) := rfl
    rw [e, List.filter_map]; rfl
  unfold runMembers runV
  simp only [hf]
  cases hia : i.it.isArr
  · simp only [Bool.false_eq_true, if_false]
    induction (List.filter (fun x => x.it.shown) (i :: more)) with
    | nil => simp
    | cons x t ih => simp [List.flatMap_cons, plainMems_eq, ih]
  · simp only [if_true]
    cases hsh : (i :: more).filter (·.it.shown) with
    | nil => simp
    | cons f sh => simp [renderMem, keyOf_eq, List.append_assoc, List.map_map, Function.comp_def]

theorem members_eq_render (top : Bool) (pmod : Option Bytes) (n : Nat) : ∀ (l : List ItemB), l.length ≤ n →
    members top pmod (l.map (·.it)) = (membersV top pmod l).map renderMem := by
  induction n with
  | zero =>
    intro l hl
    have : l = [] := List.eq_nil_of_length_eq_zero (Nat.le_zero.1 hl)
    subst this; simp [members, membersV]
  | succ n ih =>
    intro l hl
    cases l with
    | nil => simp [members, membersV]
    | cons i rest =>
      have hdl : (rest.dropWhile (·.it.sid == i.it.sid)).length ≤ n := by
        have := (List.dropWhile_sublist (l := rest) (·.it.sid == i.it.sid)).length_le
        simp only [List.length_cons] at hl; omega
      have htw : (rest.map (·.it)).takeWhile (·.sid == i.it.sid) = (rest.takeWhile (·.it.sid == i.it.sid)).map (·.it) := by
        rw [List.takeWhile_map]; rfl
      have hdw : (rest.map (·.it)).dropWhile (·.sid == i.it.sid) = (rest.dropWhile (·.it.sid == i.it.sid)).map (·.it) := by
        rw [List.dropWhile_map]; rfl
      rw [List.map_cons, members, membersV, htw, hdw, runMembers_eq, ih _ hdl, List.map_append]

/-- what the reader needs of one sibling: its value text is read back, starts with a non-blank byte, names are identifiers -/
def ItemOk (i : ItemB) : Prop :=
  Good i.it.body i.v ∧ Starts i.it.body ∧ KeyOk i.it.modName ∧ KeyOk i.it.name ∧ (i.it.after.isEmpty = false → Good i.it.after i.av)

theorem qualName_ok (top : Bool) (pmod : Option Bytes) (m n : Bytes) (hm : KeyOk m) (hn : KeyOk n) :
    KeyOk (qualName top pmod m n) := by
  intro b hb
  unfold qualName at hb
  split at hb
  · simp only [List.append_assoc, List.mem_append, List.mem_cons, List.mem_nil_iff, or_false] at hb
    rcases hb with h | rfl | h
    · exact hm b h
    · decide
    · exact hn b h
  · simp only [List.nil_append] at hb
    exact hn b hb

theorem runV_ok (top : Bool) (pmod : Option Bytes) (i : ItemB) (more : List ItemB) (h : ∀ x ∈ i :: more, ItemOk x) :
    ∀ m ∈ runV top pmod i more, KeyOk m.key ∧ Good m.body m.v := by
  intro m hm
  have hsh : ∀ x ∈ (i :: more).filter (·.it.shown), ItemOk x := fun x hx => h x (List.mem_filter.1 hx).1
  unfold runV at hm
  cases hia : i.it.isArr
  · simp only [hia, Bool.false_eq_true, if_false, List.mem_flatMap] at hm
    obtain ⟨x, hx, hmx⟩ := hm
    obtain ⟨hg, _, hkm, hkn, hga⟩ := hsh x hx
    unfold plainV at hmx
    rcases List.mem_cons.mp hmx with rfl | hmx
    · exact ⟨qualName_ok _ _ _ _ hkm hkn, hg⟩
    · split at hmx
      · cases hmx
      · rename_i hne
        simp only [List.mem_singleton] at hmx
        subst hmx
        refine ⟨?_, hga (by simpa using hne)⟩
        intro b hb
        simp only [List.mem_append, List.mem_singleton] at hb
        rcases hb with rfl | hb
        · decide
        · exact qualName_ok _ _ _ _ hkm hkn b hb
  · simp only [hia, if_true] at hm
    cases hf : (i :: more).filter (·.it.shown) with
    | nil => rw [hf] at hm; simp at hm
    | cons f sh =>
      rw [hf] at hm hsh
      simp only [List.mem_cons, List.mem_nil_iff, or_false] at hm
      subst hm
      obtain ⟨_, _, hkm, hkn, _⟩ := hsh f (by simp)
      refine ⟨qualName_ok _ _ _ _ hkm hkn, ?_⟩
      have := good_arr ((f :: sh).map fun x => (⟨x.it.body, x.v⟩ : ItV)) (by simp)
        (by intro x hx; obtain ⟨y, hy, rfl⟩ := List.mem_map.1 hx; exact (hsh y hy).1)
        (by intro x hx; obtain ⟨y, hy, rfl⟩ := List.mem_map.1 hx; exact (hsh y hy).2.1)
      simpa [List.map_map, Function.comp_def] using this

theorem membersV_ok (top : Bool) (pmod : Option Bytes) (n : Nat) : ∀ (l : List ItemB), l.length ≤ n → (∀ x ∈ l, ItemOk x) →
    ∀ m ∈ membersV top pmod l, KeyOk m.key ∧ Good m.body m.v := by
  induction n with
  | zero =>
    intro l hl _ m hm
    have : l = [] := List.eq_nil_of_length_eq_zero (Nat.le_zero.1 hl)
    subst this; simp [membersV] at hm
  | succ n ih =>
    intro l hl hok m hm
    cases l with
    | nil => simp [membersV] at hm
    | cons i rest =>
      rw [membersV] at hm
      rcases List.mem_append.1 hm with h | h
      · refine runV_ok top pmod i _ ?_ m h
        intro x hx
        rcases List.mem_cons.1 hx with rfl | hx'
        · exact hok _ (by simp)
        · exact hok x (List.mem_cons_of_mem _ ((List.takeWhile_sublist _).subset hx'))
      · have hdl : (rest.dropWhile (·.it.sid == i.it.sid)).length ≤ n := by
          have := (List.dropWhile_sublist (l := rest) (·.it.sid == i.it.sid)).length_le
          simp only [List.length_cons] at hl; omega
        exact ih _ hdl (fun x hx => hok x (List.mem_cons_of_mem _ ((List.dropWhile_sublist _).subset hx))) m h

/-- the value a reader should report for a leaf / leaf-list instance (RFC 7951 sec. 6 through `json_print_value`) -/
def valueV (k : VKind) (v : Bytes) : JV :=
  match k with
  | .str => .str v
  | .lit => .lit (if v.isEmpty then JsonDoc.sNull else v)
  | .empty => .arr [.lit JsonDoc.sNull]

/-- the members of a metadata object (RFC 7952 sec. 5.2), as (name, text, value) -/
def metaMems (metas : List JMeta) : List MemV :=
  metas.map fun m => ⟨m.modName ++ [58] ++ m.name, printValue m.kind m.value, valueV m.kind m.value⟩

/-- the metadata object as a reader reports it: one member `module:annotation` per annotation -/
def metaObjV (metas : List JMeta) : JV := .obj ((metaMems metas).map (·.key)) ((metaMems metas).map (·.v))

/-- the `@` member of a container / list entry with annotations -/
def metaMemV (metas : List JMeta) : List MemV := if metas.isEmpty then [] else [⟨[64], metaObjText metas, metaObjV metas⟩]

theorem metaMember_eq (metas : List JMeta) : metaMember metas = (metaMemV metas).map renderMem := by
  unfold metaMember metaMemV
  split <;> simp [renderMem]

theorem metaObjText_eq (metas : List JMeta) : metaObjText metas = [123] ++ sep ((metaMems metas).map renderMem) ++ [125] := by
  have : (metaMems metas).map renderMem = metas.map metaText := by
    simp [metaMems, renderMem, metaText, List.append_assoc, Function.comp_def]
  rw [this]; rfl

mutual
/-- the JSON value a data node stands for: the reader's view of the tree (`jsonView` below) -/
def bodyV : JNode → JV
  | .mk kind _ modName _ _ metas vkind value kids =>
    match kind with
    | .leaf | .leaflist => valueV vkind value
    | .cont | .list =>
      .obj ((metaMemV metas ++ membersV false (some modName) (itemsB kids)).map (·.key))
        ((metaMemV metas ++ membersV false (some modName) (itemsB kids)).map (·.v))
def itemsB : List JNode → List ItemB
  | [] => []
  | n :: r => ⟨itemOf n, bodyV n, metaObjV n.metas⟩ :: itemsB r
end

theorem itemsB_map (l : List JNode) : (itemsB l).map (·.it) = items l := by
  induction l with
  | nil => simp [itemsB, items]
  | cons n r ih => simp [itemsB, items_cons, ih]

/-- values as the type plugins canonicalise them: strings without NUL, numbers / booleans as JSON literal tokens -/
def ValueOk (k : VKind) (v : Bytes) : Prop :=
  match k with
  | .str => ∀ b ∈ v, b ≠ 0
  | .lit => v = [] ∨ LitOk v
  | .empty => True

mutual
def OkJ : JNode → Prop
  | .mk kind _ modName name _ metas vkind value kids =>
    KeyOk modName ∧ KeyOk name ∧ ((kind = .leaf ∨ kind = .leaflist) → ValueOk vkind value) ∧ OkJL kids ∧
      ∀ m ∈ metas, KeyOk m.modName ∧ KeyOk m.name ∧ ValueOk m.kind m.value
def OkJL : List JNode → Prop
  | [] => True
  | n :: r => OkJ n ∧ OkJL r
end

theorem litOk_null : LitOk JsonDoc.sNull := ⟨by decide, by decide, by decide⟩

theorem starts_of_lit (v : Bytes) (h : LitOk v) : Starts v := by
  obtain ⟨hne, hb, _⟩ := h
  cases v with
  | nil => exact absurd rfl hne
  | cons c t =>
    have hp := isLitByte_props c (hb c (by simp))
    refine ⟨c, t, rfl, hp.1, ?_⟩
    intro h93; subst h93
    have := hb 93 (by simp)
    revert this; decide

theorem good_value (k : VKind) (v : Bytes) (h : ValueOk k v) : Good (printValue k v) (valueV k v) ∧ Starts (printValue k v) := by
  cases k with
  | str =>
    refine ⟨good_str v h, ⟨34, v.flatMap JsonText.esc ++ [34], ?_, by decide, by decide⟩⟩
    simp [printValue, JsonText.printString]
  | lit =>
    by_cases he : v.isEmpty = true
    · simp only [printValue, valueV, he, if_true]
      exact ⟨good_lit _ litOk_null, starts_of_lit _ litOk_null⟩
    · have hne : v ≠ [] := fun e => he (by simp [e])
      rcases h with h | h
      · exact absurd h hne
      · simp only [printValue, valueV, he, Bool.false_eq_true, if_false]
        exact ⟨good_lit v h, starts_of_lit v h⟩
  | empty =>
    have := good_arr [(⟨JsonDoc.sNull, .lit JsonDoc.sNull⟩ : ItV)] (by simp)
      (by intro x hx; simp at hx; subst hx; exact good_lit _ litOk_null)
      (by intro x hx; simp at hx; subst hx; exact starts_of_lit _ litOk_null)
    refine ⟨by simpa [printValue, valueV, sEmpty, JsonDoc.sNull, sep] using this, ⟨91, [110, 117, 108, 108, 93], ?_, by decide, by decide⟩⟩
    simp [printValue, sEmpty]

/-- the metadata object is read back as the object of its annotations -/
theorem good_metaObj (metas : List JMeta) (hmetas : ∀ m ∈ metas, KeyOk m.modName ∧ KeyOk m.name ∧ ValueOk m.kind m.value) :
    Good (metaObjText metas) (metaObjV metas) := by
  have hk : ∀ m ∈ metaMems metas, KeyOk m.key := by
    intro m hm
    obtain ⟨x, hx, rfl⟩ := List.mem_map.mp hm
    obtain ⟨h1, h2, _⟩ := hmetas x hx
    intro b hb
    simp only [List.mem_append, List.mem_singleton] at hb
    rcases hb with (hb | rfl) | hb
    · exact h1 b hb
    · decide
    · exact h2 b hb
  have hg : ∀ m ∈ metaMems metas, Good m.body m.v := by
    intro m hm
    obtain ⟨x, hx, rfl⟩ := List.mem_map.mp hm
    exact (good_value x.kind x.value (hmetas x hx).2.2).1
  have hgo := good_obj (metaMems metas) hk hg
  rw [← metaObjText_eq] at hgo
  exact hgo

/-- the `@name` member of a leaf with annotations is read back -/
theorem after_good (n : JNode) (hok : OkJ n) : (afterOf n).isEmpty = false → Good (afterOf n) (metaObjV n.metas) := by
  obtain ⟨kind, sid, modName, name, shown, metas, vkind, value, kids⟩ := n
  obtain ⟨_, _, _, _, hmetas⟩ := hok
  by_cases hc : (kind == NKind.leaf && !metas.isEmpty) = true
  · have e : afterOf (JNode.mk kind sid modName name shown metas vkind value kids) = metaObjText metas := by
      unfold afterOf; exact if_pos hc
    rw [e]; intro _; exact good_metaObj metas hmetas
  · have e : afterOf (JNode.mk kind sid modName name shown metas vkind value kids) = [] := by
      unfold afterOf; exact if_neg hc
    rw [e]; intro h; simp at h

theorem size_mem_le (l : List JNode) (n : JNode) (h : n ∈ l) : size n ≤ sizes l := by
  induction l with
  | nil => simp at h
  | cons a r ih =>
    simp only [sizes]
    rcases List.mem_cons.1 h with rfl | h'
    · omega
    · have := ih h'; omega

theorem okJL_mem (l : List JNode) (h : OkJL l) (n : JNode) (hn : n ∈ l) : OkJ n := by
  induction l with
  | nil => simp at hn
  | cons a r ih =>
    rcases List.mem_cons.1 hn with rfl | h'
    · exact h.1
    · exact ih h.2 h'

theorem itemsB_mem (l : List JNode) (x : ItemB) (h : x ∈ itemsB l) : ∃ n ∈ l, x = ⟨itemOf n, bodyV n, metaObjV n.metas⟩ := by
  induction l with
  | nil => simp [itemsB] at h
  | cons a r ih =>
    simp only [itemsB, List.mem_cons] at h
    rcases h with rfl | h
    · exact ⟨a, by simp, rfl⟩
    · obtain ⟨n, hn, e⟩ := ih h
      exact ⟨n, List.mem_cons_of_mem _ hn, e⟩

/-- every node's text is read back as its value -/
theorem good_node (N : Nat) : ∀ (n : JNode), size n ≤ N → OkJ n → Good (body n) (bodyV n) ∧ Starts (body n) := by
  induction N with
  | zero => intro n hn; have := size_pos n; omega
  | succ N ih =>
    intro n hsz hok
    obtain ⟨kind, sid, modName, name, shown, metas, vkind, value, kids⟩ := n
    obtain ⟨hkm, hkn, hval, hkids, hmetas⟩ := hok
    -- the metadata object, and the `@` member
    have hmm : (∀ m ∈ metaMemV metas, KeyOk m.key) ∧ (∀ m ∈ metaMemV metas, Good m.body m.v) := by
      unfold metaMemV
      split
      · exact ⟨by simp, by simp⟩
      · have hk : ∀ m ∈ metaMems metas, KeyOk m.key := by
          intro m hm
          obtain ⟨x, hx, rfl⟩ := List.mem_map.mp hm
          obtain ⟨h1, h2, _⟩ := hmetas x hx
          intro b hb
          simp only [List.mem_append, List.mem_singleton] at hb
          rcases hb with (hb | rfl) | hb
          · exact h1 b hb
          · decide
          · exact h2 b hb
        have hg : ∀ m ∈ metaMems metas, Good m.body m.v := by
          intro m hm
          obtain ⟨x, hx, rfl⟩ := List.mem_map.mp hm
          exact (good_value x.kind x.value (hmetas x hx).2.2).1
        have hgo := good_obj (metaMems metas) hk hg
        rw [← metaObjText_eq] at hgo
        refine ⟨?_, ?_⟩
        · intro m hm
          simp only [List.mem_singleton] at hm
          subst hm
          intro b hb
          simp only [List.mem_singleton] at hb
          subst hb; decide
        · intro m hm
          simp only [List.mem_singleton] at hm
          subst hm
          exact hgo
    have hobj : Good ([123] ++ sep (metaMember metas ++ members false (some modName) (items kids)) ++ [125])
        (.obj ((metaMemV metas ++ membersV false (some modName) (itemsB kids)).map (·.key))
          ((metaMemV metas ++ membersV false (some modName) (itemsB kids)).map (·.v))) := by
      have hitems : ∀ x ∈ itemsB kids, ItemOk x := by
        intro x hx
        obtain ⟨k, hk, rfl⟩ := itemsB_mem kids x hx
        have hszk : size k ≤ N := by
          have := size_mem_le kids k hk
          simp only [size] at hsz; omega
        have hokk := okJL_mem kids hkids k hk
        obtain ⟨hg, hs⟩ := ih k hszk hokk
        obtain ⟨k1, k2, k3, k4, k5, k6, k7, k8, k9⟩ := k
        exact ⟨hg, hs, hokk.1, hokk.2.1, after_good _ hokk⟩
      have hmo := membersV_ok false (some modName) _ (itemsB kids) (Nat.le_refl _) hitems
      have := good_obj (metaMemV metas ++ membersV false (some modName) (itemsB kids))
        (fun m hm => by
          rcases List.mem_append.mp hm with h | h
          · exact hmm.1 m h
          · exact (hmo m h).1)
        (fun m hm => by
          rcases List.mem_append.mp hm with h | h
          · exact hmm.2 m h
          · exact (hmo m h).2)
      rw [List.map_append, ← metaMember_eq, ← members_eq_render false (some modName) _ (itemsB kids) (Nat.le_refl _), itemsB_map] at this
      exact this
    have hst : Starts ([123] ++ sep (metaMember metas ++ members false (some modName) (items kids)) ++ [125]) :=
      ⟨123, sep (metaMember metas ++ members false (some modName) (items kids)) ++ [125], by simp, by decide, by decide⟩
    cases kind
    · simpa [body, bodyV] using good_value vkind value (hval (Or.inl rfl))
    · simpa [body, bodyV] using good_value vkind value (hval (Or.inr rfl))
    · exact ⟨by simpa [body, bodyV] using hobj, by simpa [body] using hst⟩
    · exact ⟨by simpa [body, bodyV] using hobj, by simpa [body] using hst⟩

/-- the reader's view of a forest: the top-level object -/
def jsonView (forest : List JNode) : JV :=
  .obj ((membersV true none (itemsB forest)).map (·.key)) ((membersV true none (itemsB forest)).map (·.v))

/-- the independent JSON reader recovers the tree from the declarative layout -/
theorem parseDoc_specData (forest : List JNode) (hok : OkJL forest) : parseDoc (specData forest) = some (jsonView forest) := by
  have hitems : ∀ x ∈ itemsB forest, ItemOk x := by
    intro x hx
    obtain ⟨k, hk, rfl⟩ := itemsB_mem forest x hx
    have hokk := okJL_mem forest hok k hk
    obtain ⟨hg, hs⟩ := good_node (size k) k (Nat.le_refl _) hokk
    obtain ⟨k1, k2, k3, k4, k5, k6, k7, k8, k9⟩ := k
    exact ⟨hg, hs, hokk.1, hokk.2.1, after_good _ hokk⟩
  have hmo := membersV_ok true none _ (itemsB forest) (Nat.le_refl _) hitems
  have hg := good_obj (membersV true none (itemsB forest)) (fun m hm => (hmo m hm).1) (fun m hm => (hmo m hm).2)
  rw [← members_eq_render true none _ (itemsB forest) (Nat.le_refl _), itemsB_map] at hg
  have := hg ((specData forest).length + 1) [] (by simp [specData]) (Or.inl rfl)
  unfold parseDoc
  simp only [specData, List.append_nil] at this ⊢
  rw [this]
  simp [skipWs, jsonView]

end LyModel.JsonTree
