import LyModel.JsonTree.Spec
/-! Part II of the refinement: the intermediate machine `sim`, started at object level, writes exactly the members of the
    declarative layout, comma-separated (flat lists only: no trees, no printer state). -/
namespace LyModel.JsonTree
open LyModel

theorem cc_append (p : Bool) (a b : List Bytes) : cc p (a ++ b) = cc p a ++ cc (p || !a.isEmpty) b := by
  induction a generalizing p with
  | nil => simp [cc]
  | cons m r ih => simp [cc, ih, List.append_assoc]

theorem cc_true_eq (ms : List Bytes) : cc true ms = (ms.map fun m => [44] ++ m).flatten := by
  induction ms with
  | nil => simp [cc]
  | cons m r ih => simp [cc, ih]

theorem cc_false_eq_sep (ms : List Bytes) : cc false ms = sep ms := by
  cases ms with
  | nil => simp [cc, sep]
  | cons m r =>
    simp only [cc, Bool.false_eq_true, if_false, List.nil_append]
    induction r generalizing m with
    | nil => simp [cc, sep]
    | cons y t ih => simp only [cc, sep, if_true, ih y, List.append_assoc]

theorem cc_eq_sep (p : Bool) (ms : List Bytes) :
    cc p ms = if ms.isEmpty then [] else (if p then [44] else []) ++ sep ms := by
  cases ms with
  | nil => simp [cc]
  | cons m r =>
    have h := cc_false_eq_sep (m :: r)
    simp only [cc, Bool.false_eq_true, if_false, List.nil_append] at h
    cases p <;> simp [cc, h, List.append_assoc]

/-- `isLast` as `sim` computes it -/
def lastOf (it : Item) (l : List Item) : Bool :=
  match l with
  | [] => true
  | n :: _ => n.sid != it.sid

theorem sim_cons (top : Bool) (pmod : Option Bytes) (m : Mode) (it : Item) (rest : List Item) :
    sim top pmod m (it :: rest) =
      ((simStep top pmod m it (lastOf it rest)).1 ++ (sim top pmod (simStep top pmod m it (lastOf it rest)).2 rest).1,
       (sim top pmod (simStep top pmod m it (lastOf it rest)).2 rest).2) := by
  cases rest <;> simp [sim, lastOf]

/-- adjacent items of one schema node are of one kind -/
def AdjArr : List Item → Prop
  | a :: b :: r => (b.sid = a.sid → b.isArr = a.isArr) ∧ AdjArr (b :: r)
  | _ => True

theorem AdjArr.tail {a : Item} {l : List Item} (h : AdjArr (a :: l)) : AdjArr l := by
  cases l with
  | nil => trivial
  | cons b r => exact h.2

/-- the rest of a run: the leading items with the schema node of `i` -/
theorem run_split (i : Item) (rest : List Item) :
    rest = rest.takeWhile (·.sid == i.sid) ++ rest.dropWhile (·.sid == i.sid) := (List.takeWhile_append_dropWhile).symm

theorem dropWhile_head (i : Item) (rest : List Item) : lastOf i (rest.dropWhile (·.sid == i.sid)) = true := by
  induction rest with
  | nil => rfl
  | cons a r ih =>
    simp only [List.dropWhile_cons]
    split
    · exact ih
    · rename_i h; simpa [lastOf] using h

/-- inside an open array: the remaining instances of the run, then `]` -/
theorem sim_opened_run (top : Bool) (pmod : Option Bytes) (x : Nat) (run rest : List Item) (hne : run ≠ [])
    (hrun : ∀ j ∈ run, j.sid = x) (hrest : ∀ n, rest.head? = some n → n.sid ≠ x) :
    sim top pmod (.opened x) (run ++ rest) =
      (cc true ((run.filter (·.shown)).map (·.body)) ++ [93] ++ (sim top pmod (.closed true) rest).1,
       (sim top pmod (.closed true) rest).2) := by
  induction run with
  | nil => exact absurd rfl hne
  | cons j more ih =>
    have hj : j.sid = x := hrun j (by simp)
    rw [List.cons_append, sim_cons]
    cases more with
    | nil =>
      have hl : lastOf j ([] ++ rest) = true := by
        cases rest with
        | nil => rfl
        | cons n r => simp only [List.nil_append, lastOf, bne_iff_ne, ne_eq]; rw [hj]; exact hrest n rfl
      rw [hl]
      cases hs : j.shown <;> simp [simStep, hs, cc, List.filter]
    | cons k more' =>
      have hk : k.sid = x := hrun k (by simp)
      have hl : lastOf j ((k :: more') ++ rest) = false := by simp [lastOf, hj, hk]
      rw [hl]
      have ih' := ih (by simp) (fun a ha => hrun a (List.mem_cons_of_mem _ ha))
      cases hs : j.shown
      · simp only [simStep, hs, Bool.not_false, if_true, Bool.false_eq_true, if_false, List.nil_append]
        rw [ih']
        simp [List.filter, hs]
      · simp only [simStep, hs, Bool.not_true, Bool.false_eq_true, if_false, List.append_nil]
        rw [ih']
        simp [List.filter, hs, cc, List.append_assoc]

/-- a run of a leaf-list / list met at object level -/
theorem sim_closed_arr_run (top : Bool) (pmod : Option Bytes) (p : Bool) (x : Nat) (run rest : List Item) (hne : run ≠ [])
    (hrun : ∀ j ∈ run, j.sid = x ∧ j.isArr = true) (hrest : ∀ n, rest.head? = some n → n.sid ≠ x) :
    sim top pmod (.closed p) (run ++ rest) =
      match run.filter (·.shown) with
      | [] => sim top pmod (.closed p) rest
      | f :: sh => ((if p then [44] else []) ++ keyOf top pmod f.modName f.name ++ [91] ++ sep ((f :: sh).map (·.body)) ++ [93] ++
                      (sim top pmod (.closed true) rest).1, (sim top pmod (.closed true) rest).2) := by
  induction run with
  | nil => exact absurd rfl hne
  | cons j more ih =>
    obtain ⟨hj, hja⟩ := hrun j (by simp)
    rw [List.cons_append, sim_cons]
    cases more with
    | nil =>
      have hl : lastOf j ([] ++ rest) = true := by
        cases rest with
        | nil => rfl
        | cons n r => simp only [List.nil_append, lastOf, bne_iff_ne, ne_eq]; rw [hj]; exact hrest n rfl
      rw [hl]
      cases hs : j.shown <;> simp [simStep, hs, hja, List.filter, sep, List.append_assoc]
    | cons k more' =>
      have hk : k.sid = x := (hrun k (by simp)).1
      have hl : lastOf j ((k :: more') ++ rest) = false := by simp [lastOf, hj, hk]
      rw [hl]
      cases hs : j.shown
      · have ih' := ih (by simp) (fun a ha => hrun a (List.mem_cons_of_mem _ ha))
        simp only [simStep, hs, Bool.not_false, if_true, List.nil_append]
        rw [ih']
        simp [List.filter, hs]
      · have ho := sim_opened_run top pmod x (k :: more') rest (by simp)
          (fun a ha => (hrun a (List.mem_cons_of_mem _ ha)).1) hrest
        simp only [simStep, hs, Bool.not_true, Bool.false_eq_true, if_false, hja, if_true, List.append_nil, hj]
        rw [ho]
        simp only [List.filter, hs]
        have hsep : ∀ (b : Bytes) (l : List Bytes), b ++ cc true l = sep (b :: l) := by
          intro b l
          have := cc_false_eq_sep (b :: l)
          simpa [cc] using this
        simp only [List.map_cons, ← hsep, List.append_assoc]

/-- a run of leaves / containers met at object level: one member per printed instance -/
theorem sim_closed_plain_run (top : Bool) (pmod : Option Bytes) (p : Bool) (x : Nat) (run rest : List Item)
    (hrun : ∀ j ∈ run, j.sid = x ∧ j.isArr = false) :
    sim top pmod (.closed p) (run ++ rest) =
      (cc p ((run.filter (·.shown)).flatMap (plainMems top pmod)) ++
        (sim top pmod (.closed (p || !(run.filter (·.shown)).isEmpty)) rest).1,
       (sim top pmod (.closed (p || !(run.filter (·.shown)).isEmpty)) rest).2) := by
  induction run generalizing p with
  | nil => simp [cc]
  | cons j more ih =>
    obtain ⟨hj, hja⟩ := hrun j (by simp)
    have ih' := fun q => ih q (fun a ha => hrun a (List.mem_cons_of_mem _ ha))
    rw [List.cons_append, sim_cons]
    cases hs : j.shown
    · simp only [simStep, hs, Bool.not_false, if_true, List.nil_append]
      rw [ih' p]; simp [List.filter, hs]
    · simp only [simStep, hs, Bool.not_true, Bool.false_eq_true, if_false, hja]
      rw [ih' true]
      simp only [List.filter, hs, List.flatMap_cons, cc_append, plainMems, cc, List.isEmpty_cons, Bool.not_false, Bool.or_true,
        List.append_assoc, Bool.true_or]

end LyModel.JsonTree

namespace LyModel.JsonTree
open LyModel

theorem takeWhile_sid (i : Item) (rest : List Item) : ∀ j ∈ rest.takeWhile (·.sid == i.sid), j.sid = i.sid := by
  induction rest with
  | nil => intro j hj; simp at hj
  | cons a r ih =>
    intro j hj
    simp only [List.takeWhile_cons] at hj
    split at hj
    · rename_i ha
      rcases List.mem_cons.1 hj with rfl | hj'
      · simpa using ha
      · exact ih j hj'
    · simp at hj

theorem takeWhile_isArr (i : Item) (rest : List Item) (hadj : AdjArr (i :: rest)) :
    ∀ j ∈ rest.takeWhile (·.sid == i.sid), j.isArr = i.isArr := by
  induction rest generalizing i with
  | nil => intro j hj; simp at hj
  | cons a r ih =>
    intro j hj
    simp only [List.takeWhile_cons] at hj
    split at hj
    · rename_i ha
      have hai : a.sid = i.sid := by simpa using ha
      have h1 : a.isArr = i.isArr := hadj.1 hai
      rcases List.mem_cons.1 hj with rfl | hj'
      · exact h1
      · have := ih a hadj.2 j (by simpa [hai] using hj')
        rw [this, h1]
    · simp at hj

theorem AdjArr_dropWhile (q : Item → Bool) (l : List Item) (h : AdjArr l) : AdjArr (l.dropWhile q) := by
  induction l with
  | nil => trivial
  | cons a r ih =>
    simp only [List.dropWhile_cons]
    split
    · exact ih h.tail
    · exact h

theorem dropWhile_head_ne (i : Item) (rest : List Item) :
    ∀ n, (rest.dropWhile (·.sid == i.sid)).head? = some n → n.sid ≠ i.sid := by
  intro n hn
  have := dropWhile_head i rest
  cases hd : rest.dropWhile (·.sid == i.sid) with
  | nil => rw [hd] at hn; simp at hn
  | cons a r =>
    rw [hd] at hn this
    simp only [List.head?_cons, Option.some.injEq] at hn
    subst hn
    simpa [lastOf] using this

/-- **Part II**: started at object level, the machine writes the members of the declarative layout, comma-separated. -/
theorem sim_closed_members (top : Bool) (pmod : Option Bytes) (n : Nat) :
    ∀ (its : List Item), its.length ≤ n → AdjArr its → ∀ p : Bool,
      sim top pmod (.closed p) its = (cc p (members top pmod its), .closed (p || !(members top pmod its).isEmpty)) := by
  induction n with
  | zero =>
    intro its hlen _ p
    have : its = [] := List.eq_nil_of_length_eq_zero (Nat.le_zero.1 hlen)
    subst this
    simp [sim, members, cc]
  | succ n ih =>
    intro its hlen hadj p
    cases its with
    | nil => simp [sim, members, cc]
    | cons i rest =>
      have hsplit := run_split i rest
      have hdl : (rest.dropWhile (·.sid == i.sid)).length ≤ n := by
        have := (List.dropWhile_sublist (l := rest) (·.sid == i.sid)).length_le
        simp only [List.length_cons] at hlen; omega
      have ihd := ih _ hdl (AdjArr_dropWhile _ _ hadj.tail)
      have hne := dropWhile_head_ne i rest
      rw [members]
      generalize hdw : rest.dropWhile (·.sid == i.sid) = dw at *
      generalize htw : rest.takeWhile (·.sid == i.sid) = tw at *
      have hsid : ∀ j ∈ tw, j.sid = i.sid := htw ▸ takeWhile_sid i rest
      have harr : ∀ j ∈ tw, j.isArr = i.isArr := htw ▸ takeWhile_isArr i rest hadj
      have e : i :: rest = (i :: tw) ++ dw := by rw [hsplit]; rfl
      rw [e]
      cases hia : i.isArr
      · -- leaf / container run
        have := sim_closed_plain_run top pmod p i.sid (i :: tw) dw (by
          intro j hj
          rcases List.mem_cons.1 hj with rfl | hj'
          · exact ⟨rfl, hia⟩
          · exact ⟨hsid j hj', by rw [harr j hj', hia]⟩)
        rw [this, ihd]
        simp only [runMembers, hia, Bool.false_eq_true, if_false]
        rw [cc_append]
        simp only [Bool.or_assoc, List.append_assoc, Prod.mk.injEq, true_and]
        congr 1
        cases (List.filter (fun x => x.shown) (i :: tw)) <;> cases (members top pmod dw) <;> simp [plainMems, cc]
      · have := sim_closed_arr_run top pmod p i.sid (i :: tw) dw (by simp) (by
          intro j hj
          rcases List.mem_cons.1 hj with rfl | hj'
          · exact ⟨rfl, hia⟩
          · exact ⟨hsid j hj', by rw [harr j hj', hia]⟩) hne
        rw [this]
        simp only [runMembers, hia, if_true]
        cases hf : (i :: tw).filter (·.shown) with
        | nil => simp only []; rw [ihd]; simp
        | cons f sh =>
          simp only []
          rw [ihd]
          simp [cc, List.append_assoc]

theorem sim_closed_false (top : Bool) (pmod : Option Bytes) (its : List Item) (hadj : AdjArr its) :
    (sim top pmod (.closed false) its).1 = sep (members top pmod its) := by
  rw [sim_closed_members top pmod its.length its (Nat.le_refl _) hadj false, cc_false_eq_sep]

end LyModel.JsonTree
