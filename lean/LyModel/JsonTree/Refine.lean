import LyModel.JsonTree.Runs
/-! Part I of the refinement: the printer's walk (`printSibs`, with `level`, `level_printed`, the open-array stack) on a tree
    without metadata behaves as the intermediate machine `sim` on the flat item list; with Part II: `printData = specData`. -/
set_option linter.unusedSimpArgs false
set_option linter.unusedVariables false
namespace LyModel.JsonTree
open LyModel

/-- adjacent instances of one schema node are of one kind -/
def AdjKind : List JNode → Prop
  | a :: b :: r => (b.sid = a.sid → b.kind = a.kind) ∧ AdjKind (b :: r)
  | _ => True

theorem AdjKind.tail {a : JNode} {l : List JNode} (h : AdjKind (a :: l)) : AdjKind l := by
  cases l with
  | nil => trivial
  | cons b r => exact h.2

mutual
/-- the trees the theorem is about: metadata on leaves, containers and list entries (v3; leaf-list instances carry none),
    a node's schema node differs from those of its ancestors (`anc`), adjacent instances of one schema node are of one kind -/
def Ok (anc : List Nat) : JNode → Prop
  | .mk kind sid _ _ _ metas _ _ kids =>
    (kind = .leaflist → metas = []) ∧ sid ∉ anc ∧ AdjKind kids ∧ OkL (sid :: anc) kids
def OkL (anc : List Nat) : List JNode → Prop
  | [] => True
  | n :: r => Ok anc n ∧ OkL anc r
end

mutual
def size : JNode → Nat
  | .mk _ _ _ _ _ _ _ _ kids => 1 + sizes kids
def sizes : List JNode → Nat
  | [] => 0
  | n :: r => size n + sizes r
end

theorem items_adj (l : List JNode) (h : AdjKind l) : AdjArr (items l) := by
  induction l with
  | nil => simp [items, AdjArr]
  | cons a r ih =>
    cases r with
    | nil => simp [items, AdjArr]
    | cons b t =>
      simp only [items, AdjArr]
      refine ⟨fun hs => ?_, ?_⟩
      · rw [h.1 hs]
      · have := ih h.2
        simpa [items] using this

/-- the printer state at object level `L` with enclosing open arrays `O`, as seen by the machine -/
def Inv (s : St) (L : Nat) (O : List Nat) : Mode → Prop
  | .closed p => s.level = L ∧ s.opens = O ∧ s.pend = none ∧ s.lp ≤ L ∧ (p = true ↔ s.lp = L)
  | .opened x => s.level = L + 1 ∧ s.opens = x :: O ∧ s.pend = none ∧ s.lp = L + 1

theorem member_eq (s : St) (L : Nat) (O : List Nat) (p : Bool) (h : Inv s L O (.closed p)) (pmod : Option Bytes)
    (modName name : Bytes) :
    member s pmod modName name false = (if p then [44] else []) ++ keyOf (L == 1) pmod modName name := by
  obtain ⟨hl, _, _, hle, hp⟩ := h
  have hc : comma s = if p then [44] else [] := by
    unfold comma
    cases p
    · have : ¬ s.lp = L := fun e => by simpa using hp.2 e
      have : ¬ s.lp ≥ s.level := by omega
      simp [this]
    · have : s.lp = L := hp.1 rfl
      have : s.lp ≥ s.level := by omega
      simp [this]
  unfold member keyOf
  rw [hc, hl]
  simp [List.append_assoc]

/-- the tail of `json_print_node` when no leaf-list metadata is pending -/
def tailSt (early : Bool) (s1 : St) : St := if early then s1 else { s1 with lp := s1.level }

/-- `isLast` as `printSibs` computes it -/
def lastN (n : JNode) (rest : List JNode) : Bool :=
  match rest with
  | [] => true
  | m :: _ => m.sid != n.sid

theorem printSibs_cons (s : St) (pmod : Option Bytes) (before : List JNode) (n : JNode) (rest : List JNode)
    (hp : (printNode s pmod n (lastN n rest)).2.pend = none) :
    printSibs s pmod before (n :: rest) =
      ((printNode s pmod n (lastN n rest)).1 ++
        (printSibs (tailSt (!n.shown && !(isOpen s n.sid && lastN n rest)) (printNode s pmod n (lastN n rest)).2) pmod (n :: before) rest).1,
       (printSibs (tailSt (!n.shown && !(isOpen s n.sid && lastN n rest)) (printNode s pmod n (lastN n rest)).2) pmod (n :: before) rest).2) := by
  conv => lhs; unfold printSibs
  cases rest with
  | nil =>
    simp only [lastN] at hp ⊢
    generalize printNode s pmod n true = r at *
    obtain ⟨b, s1⟩ := r
    simp only [] at hp
    generalize (!n.shown && !(isOpen s n.sid && true)) = e
    cases e
    · simp only [tailSt, Bool.false_eq_true, if_false, hp, List.nil_append, List.append_nil]
    · simp only [tailSt, if_true, List.nil_append, List.append_nil]
  | cons m t =>
    simp only [lastN] at hp ⊢
    generalize printNode s pmod n (m.sid != n.sid) = r at *
    obtain ⟨b, s1⟩ := r
    simp only [] at hp
    generalize (!n.shown && !(isOpen s n.sid && (m.sid != n.sid))) = e
    cases e
    · simp only [tailSt, Bool.false_eq_true, if_false, hp, List.nil_append, List.append_nil]
    · simp only [tailSt, if_true, List.nil_append, List.append_nil]

theorem printMetas_eq : ∀ (ms : List JMeta) (s : St),
    printMetas s ms = (cc (decide (s.lp ≥ s.level)) (ms.map metaText), if ms.isEmpty then s else { s with lp := s.level })
  | [], s => by simp [printMetas, cc]
  | m :: r, s => by
    have ih := printMetas_eq r { s with lp := s.level }
    simp only [printMetas, ih, List.map_cons, cc, List.isEmpty_cons, Bool.false_eq_true, if_false]
    have hc : comma s = if decide (s.lp ≥ s.level) = true then [44] else [] := by unfold comma; simp
    refine Prod.ext ?_ ?_
    · simp [hc, metaText, List.append_assoc]
    · cases r <;> simp

/-- the `"@":{…}` member at the start of an object: no comma in front, the object level is "printed" afterwards -/
theorem innerPre_meta (s : St) (m : JMeta) (ms : List JMeta) (inArray : Bool) (hlp : s.lp ≤ s.level) :
    innerPre s (m :: ms) inArray =
      ((if inArray && decide (s.lp ≥ s.level) then [44] else []) ++ [123] ++ ([34, 64, 34, 58] ++ metaObjText (m :: ms)),
       { s with level := s.level + 1, lp := s.level + 1 }) := by
  have h1 : ¬ (s.lp ≥ s.level + 1) := by omega
  have h2 : ¬ (s.lp ≥ s.level + 1 + 1) := by omega
  simp only [innerPre, metaObject, printMetas_eq, List.isEmpty_cons, Bool.false_eq_true, if_false, comma, h1, h2, decide_false,
    List.nil_append, metaObjText, cc_false_eq_sep]

theorem sep_cons_cc (a : Bytes) (ms : List Bytes) : sep (a :: ms) = a ++ cc true ms := by
  have := cc_false_eq_sep (a :: ms)
  simpa [cc] using this.symm

/-- what the children of an inner node print, for every state at their level (supplied by the induction) -/
def KidsSpec (anc : List Nat) (modName : Bytes) (kids : List JNode) : Prop :=
  ∀ (p : Bool) (s2 : St) (before' : List JNode) (L' : Nat) (O' : List Nat), 2 ≤ L' → Inv s2 L' O' (.closed p) →
    (∀ x, O'.head? = some x → x ∈ anc) →
    ∃ s3 q, printSibs s2 (some modName) before' kids = (cc p (members false (some modName) (items kids)), s3) ∧
      Inv s3 L' O' (.closed q)

def itemOf (n : JNode) : Item := ⟨n.sid, n.kind.isArr, n.modName, n.name, n.shown, body n, afterOf n⟩

theorem afterMem_of_nil (top : Bool) (pmod : Option Bytes) (i : Item) (h : i.after = []) : afterMem top pmod i = [] := by
  simp [afterMem, h]

theorem afterOf_notleaf (kind : NKind) (sid : Nat) (modName name : Bytes) (shown : Bool) (metas : List JMeta) (vkind : VKind)
    (value : Bytes) (kids : List JNode) (h : kind ≠ .leaf) : afterOf (.mk kind sid modName name shown metas vkind value kids) = [] := by
  cases kind <;> simp_all [afterOf, JNode.kind] <;> (intro h'; exact absurd h' (by decide))

theorem afterOf_leaf_nil (sid : Nat) (modName name : Bytes) (shown : Bool) (vkind : VKind)
    (value : Bytes) (kids : List JNode) : afterOf (.mk .leaf sid modName name shown [] vkind value kids) = [] := by
  simp [afterOf, JNode.metas]

theorem afterOf_leaf_cons (sid : Nat) (modName name : Bytes) (shown : Bool) (m : JMeta) (ms : List JMeta) (vkind : VKind)
    (value : Bytes) (kids : List JNode) :
    afterOf (.mk .leaf sid modName name shown (m :: ms) vkind value kids) = metaObjText (m :: ms) := by
  simp [afterOf, JNode.metas, JNode.kind]
  intro h'; exact absurd h' (by decide)

theorem afterMem_notleaf (top : Bool) (pmod : Option Bytes) (a : Nat) (b : Bool) (c d : Bytes) (e : Bool) (f : Bytes)
    (kind : NKind) (sid : Nat) (modName name : Bytes) (shown : Bool) (metas : List JMeta) (vkind : VKind)
    (value : Bytes) (kids : List JNode) (h : kind ≠ .leaf) :
    afterMem top pmod ⟨a, b, c, d, e, f, afterOf (.mk kind sid modName name shown metas vkind value kids)⟩ = [] := by
  simp [afterMem, afterOf_notleaf kind sid modName name shown metas vkind value kids h]

theorem member_at (s : St) (pmod : Option Bytes) (modName name : Bytes) :
    member { s with lp := s.level } pmod modName name true = [44] ++ keyAt (s.level == 1) pmod modName name := by
  simp [member, comma, keyAt, List.append_assoc]

theorem metaObjText_ne_nil (ms : List JMeta) : (metaObjText ms).isEmpty = false := by simp [metaObjText]

/-- the metadata object after its member name (`json_print_metadata` between braces) -/
theorem metaObject_eq (s : St) (m : JMeta) (ms : List JMeta) (hlp : s.lp ≤ s.level) :
    metaObject s (m :: ms) = (metaObjText (m :: ms), { s with lp := s.level }) := by
  have h1 : ¬ (s.lp ≥ s.level + 1) := by omega
  simp [metaObject, printMetas_eq, h1, metaObjText, cc_false_eq_sep]

theorem items_cons (n : JNode) (r : List JNode) : items (n :: r) = itemOf n :: items r := by
  simp [items, itemOf]

theorem isOpen_closed (s : St) (L : Nat) (O : List Nat) (p : Bool) (h : Inv s L O (.closed p)) (anc : List Nat)
    (hO : ∀ x, O.head? = some x → x ∈ anc) (sid : Nat) (hs : sid ∉ anc) : isOpen s sid = false := by
  unfold isOpen
  rw [h.2.1]
  cases hh : O.head? with
  | none => rfl
  | some x =>
    have := hO x hh
    have : x ≠ sid := fun e => hs (e ▸ this)
    simp [this]

theorem isOpen_opened (s : St) (L : Nat) (O : List Nat) (x : Nat) (h : Inv s L O (.opened x)) : isOpen s x = true := by
  unfold isOpen
  rw [h.2.1]; simp

/-- one node and the tail of `json_print_node`, in object-level mode -/
theorem node_step_closed (s : St) (pmod : Option Bytes) (n : JNode) (isLast : Bool) (L : Nat) (O : List Nat) (p : Bool)
    (anc : List Nat) (hL : 1 ≤ L) (hinv : Inv s L O (.closed p)) (hok : Ok anc n) (hO : ∀ x, O.head? = some x → x ∈ anc)
    (hk : KidsSpec (n.sid :: anc) n.modName n.kids) :
    (printNode s pmod n isLast).2.pend = none ∧
    (printNode s pmod n isLast).1 = (simStep (L == 1) pmod (.closed p) (itemOf n) isLast).1 ∧
    Inv (tailSt (!n.shown && !(isOpen s n.sid && isLast)) (printNode s pmod n isLast).2) L O
      (simStep (L == 1) pmod (.closed p) (itemOf n) isLast).2 := by
  obtain ⟨kind, sid, modName, name, shown, metas, vkind, value, kids⟩ := n
  obtain ⟨hmeta, hfresh, hadj, hkids⟩ := hok
  have hopen : isOpen s sid = false := isOpen_closed s L O p hinv anc hO sid hfresh
  have hmem := member_eq s L O p hinv pmod modName name
  obtain ⟨hl, ho, hpd, hle, hp⟩ := hinv
  simp only [JNode.sid, JNode.shown, JNode.modName, JNode.kids] at hk ⊢
  cases shown
  · -- not printed: nothing happens
    simp only [printNode, Bool.not_false, if_true, hopen, Bool.false_and, Bool.false_eq_true, if_false, simStep, itemOf, JNode.shown,
      tailSt, Bool.not_false, Bool.true_and, Bool.and_self]
    exact ⟨hpd, trivial, hl, ho, hpd, hle, hp⟩
  · cases kind
    · -- leaf
      cases metas with
      | nil =>
        simp only [printNode, Bool.not_true, Bool.false_eq_true, if_false, List.isEmpty_nil, if_true, simStep, itemOf, JNode.shown,
          JNode.kind, NKind.isArr, JNode.sid, JNode.modName, JNode.name, body, tailSt, Bool.false_and, afterOf_leaf_nil,
          afterMem_of_nil, cc, List.append_nil]
        refine ⟨hpd, by rw [hmem], hl, ho, hpd, by simp [hl], by simp [hl]⟩
      | cons m ms =>
        have hlp : ({ s with lp := s.level } : St).lp ≤ ({ s with lp := s.level } : St).level := by simp
        have hcm : comma ({ s with lp := s.level } : St) = [44] := by simp [comma]
        simp only [printNode, Bool.not_true, Bool.false_eq_true, if_false, List.isEmpty_cons, simStep, itemOf, JNode.shown,
          JNode.kind, NKind.isArr, JNode.sid, JNode.modName, JNode.name, body, tailSt, Bool.false_and, afterOf_leaf_cons,
          afterMem, metaObjText_ne_nil, cc, List.append_nil, metaObject_eq _ m ms hlp, member_at, if_true]
        refine ⟨hpd, ?_, hl, ho, hpd, by simp [hl], by simp [hl]⟩
        rw [hmem]
        simp [hl, List.append_assoc]
    · -- leaf-list
      have := hmeta rfl; subst this
      simp only [printNode, Bool.not_true, Bool.false_eq_true, if_false, hopen, List.isEmpty_nil, simStep, itemOf, JNode.shown,
        JNode.kind, NKind.isArr, JNode.sid, JNode.modName, JNode.name, body, tailSt, Bool.false_and, if_true, Bool.not_false,
        Bool.and_false]
      cases isLast
      · simp only [Bool.false_eq_true, if_false, List.append_nil]
        refine ⟨hpd, by simp [hmem, List.append_assoc], ?_⟩
        simp [Inv, hl, ho, hpd]
      · simp only [if_true]
        refine ⟨hpd, by simp [hmem, List.append_assoc], ?_⟩
        simp [Inv, hl, ho, hpd]
    · -- container
      cases metas with
      | nil =>
        have hs2 : Inv { s with level := s.level + 1 } (L + 1) O (.closed false) := by
          refine ⟨by simp [hl], ho, hpd, by simp; omega, ?_⟩
          simp; omega
        obtain ⟨s3, q, hpk, hi3⟩ := hk false { s with level := s.level + 1 } [] (L + 1) O (by omega) hs2
          (fun x hx => List.mem_cons_of_mem _ (hO x hx))
        simp only [printNode, Bool.not_true, Bool.false_eq_true, if_false, innerPre, List.isEmpty_nil, if_true, Bool.false_and,
          List.append_nil, hpk, cc_false_eq_sep, metaMember, afterMem_notleaf, ne_eq, reduceCtorEq, not_false_eq_true, cc, innerPost, simStep, itemOf, JNode.shown, JNode.kind, NKind.isArr, JNode.sid, JNode.modName,
          JNode.name, body, tailSt, JNode.kids]
        obtain ⟨h3l, h3o, h3p, _, _⟩ := hi3
        refine ⟨h3p, by simp [hmem, List.append_assoc], ?_⟩
        simp [Inv, hl, h3o, h3p]
      | cons m ms =>
        have hlp : s.lp ≤ s.level := by omega
        have hs2 : Inv { s with level := s.level + 1, lp := s.level + 1 } (L + 1) O (.closed true) :=
          ⟨by simp [hl], ho, hpd, by simp [hl], by simp [hl]⟩
        obtain ⟨s3, q, hpk, hi3⟩ := hk true { s with level := s.level + 1, lp := s.level + 1 } [] (L + 1) O (by omega) hs2
          (fun x hx => List.mem_cons_of_mem _ (hO x hx))
        obtain ⟨h3l, h3o, h3p, _, _⟩ := hi3
        simp only [printNode, Bool.not_true, Bool.false_eq_true, if_false, innerPre_meta s m ms false hlp, Bool.false_and, hpk, innerPost,
          simStep, itemOf, JNode.shown, JNode.kind, NKind.isArr, JNode.sid, JNode.modName, JNode.name, body, tailSt, JNode.kids,
          metaMember, List.isEmpty_cons, List.cons_append, List.nil_append, sep_cons_cc, if_true, afterMem_notleaf, ne_eq, reduceCtorEq,
          not_false_eq_true, cc, List.append_nil]
        refine ⟨h3p, by simp [hmem, List.append_assoc], ?_⟩
        simp [Inv, hl, h3o, h3p]
    · -- list
      cases metas with
      | nil =>
        have hs2 : Inv { s with level := s.level + 1 + 1, opens := sid :: s.opens } (L + 2) (sid :: O) (.closed false) := by
          refine ⟨by simp [hl], by simp [ho], hpd, by simp; omega, ?_⟩
          simp; omega
        obtain ⟨s3, q, hpk, hi3⟩ := hk false { s with level := s.level + 1 + 1, opens := sid :: s.opens } [] (L + 2) (sid :: O) (by omega) hs2
          (fun x hx => by simp at hx; subst hx; simp)
        have hnc : ¬ (s.lp ≥ s.level + 1) := by omega
        simp only [printNode, Bool.not_true, Bool.false_eq_true, if_false, hopen, innerPre, List.isEmpty_nil, if_true, Bool.true_and,
          hnc, decide_false, List.append_nil, List.nil_append, hpk, cc_false_eq_sep, metaMember, innerPost, simStep, itemOf, JNode.shown, JNode.kind, NKind.isArr,
          JNode.sid, JNode.modName, JNode.name, body, tailSt, JNode.kids, Bool.not_false, Bool.false_and, Bool.and_false, ge_iff_le]
        obtain ⟨h3l, h3o, h3p, _, _⟩ := hi3
        cases isLast
        · simp only [Bool.false_eq_true, if_false, List.append_nil]
          refine ⟨h3p, by simp [hmem, List.append_assoc], ?_⟩
          simp [Inv, hl, h3o, h3p]
        · simp only [if_true]
          refine ⟨h3p, by simp [hmem, List.append_assoc], ?_⟩
          simp [Inv, hl, h3o, h3p, ho]
      | cons m ms =>
        have hlp : ({ s with level := s.level + 1, opens := sid :: s.opens } : St).lp ≤ ({ s with level := s.level + 1, opens := sid :: s.opens } : St).level := by
          simp; omega
        have hs2 : Inv { s with level := s.level + 1 + 1, opens := sid :: s.opens, lp := s.level + 1 + 1 } (L + 2) (sid :: O) (.closed true) :=
          ⟨by simp [hl], by simp [ho], hpd, by simp [hl], by simp [hl]⟩
        obtain ⟨s3, q, hpk, hi3⟩ := hk true { s with level := s.level + 1 + 1, opens := sid :: s.opens, lp := s.level + 1 + 1 } [] (L + 2) (sid :: O)
          (by omega) hs2 (fun x hx => by simp at hx; subst hx; simp)
        have hnc : ¬ (s.lp ≥ s.level + 1) := by omega
        obtain ⟨h3l, h3o, h3p, _, _⟩ := hi3
        simp only [printNode, Bool.not_true, Bool.false_eq_true, if_false, hopen, innerPre_meta _ m ms true hlp, if_true, Bool.true_and,
          hnc, decide_false, List.append_nil, List.nil_append, hpk, innerPost, simStep, itemOf, JNode.shown, JNode.kind, NKind.isArr,
          JNode.sid, JNode.modName, JNode.name, body, tailSt, JNode.kids, Bool.not_false, Bool.false_and, Bool.and_false, ge_iff_le,
          metaMember, List.isEmpty_cons, List.cons_append, sep_cons_cc]
        cases isLast
        · simp only [Bool.false_eq_true, if_false, List.append_nil]
          refine ⟨h3p, by simp [hmem, List.append_assoc], ?_⟩
          simp [Inv, hl, h3o, h3p]
        · simp only [if_true]
          refine ⟨h3p, by simp [hmem, List.append_assoc], ?_⟩
          simp [Inv, hl, h3o, h3p, ho]

/-- one node and the tail of `json_print_node`, inside the open array of its schema node -/
theorem node_step_opened (s : St) (pmod : Option Bytes) (n : JNode) (isLast : Bool) (L : Nat) (O : List Nat)
    (anc : List Nat) (hL : 1 ≤ L) (hinv : Inv s L O (.opened n.sid)) (hok : Ok anc n) (harr : n.kind.isArr = true)
    (hk : KidsSpec (n.sid :: anc) n.modName n.kids) :
    (printNode s pmod n isLast).2.pend = none ∧
    (printNode s pmod n isLast).1 = (simStep (L == 1) pmod (.opened n.sid) (itemOf n) isLast).1 ∧
    Inv (tailSt (!n.shown && !(isOpen s n.sid && isLast)) (printNode s pmod n isLast).2) L O
      (simStep (L == 1) pmod (.opened n.sid) (itemOf n) isLast).2 := by
  have hopen : isOpen s n.sid = true := isOpen_opened s L O n.sid hinv
  obtain ⟨kind, sid, modName, name, shown, metas, vkind, value, kids⟩ := n
  obtain ⟨hmeta, hfresh, hadj, hkids⟩ := hok
  obtain ⟨hl, ho, hpd, hlp⟩ := hinv
  simp only [JNode.sid, JNode.shown, JNode.modName, JNode.kids, JNode.kind] at hk hopen hl ho hlp harr ⊢
  cases shown
  · cases isLast
    · simp only [printNode, Bool.not_false, if_true, hopen, Bool.and_false, Bool.false_eq_true, if_false, simStep, itemOf,
        JNode.shown, tailSt, Bool.not_false, Bool.and_self, Bool.true_and]
      exact ⟨hpd, trivial, hl, ho, hpd, hlp⟩
    · simp only [printNode, Bool.not_false, if_true, hopen, Bool.and_true, simStep, itemOf, JNode.shown, tailSt, Bool.not_true,
        Bool.and_false, Bool.false_eq_true, if_false]
      refine ⟨hpd, trivial, ?_⟩
      simp [Inv, hl, ho, hpd]
  · cases kind
    · simp [NKind.isArr] at harr
    · -- leaf-list item
      have := hmeta rfl; subst this
      simp only [printNode, Bool.not_true, Bool.false_eq_true, if_false, hopen, List.isEmpty_nil, simStep, itemOf, JNode.shown,
        JNode.kind, NKind.isArr, JNode.sid, JNode.modName, JNode.name, body, tailSt, Bool.false_and, if_true, Bool.not_false,
        Bool.and_false]
      cases isLast
      · simp only [Bool.false_eq_true, if_false, List.append_nil]
        refine ⟨hpd, trivial, ?_⟩
        simp [Inv, hl, ho, hpd]
      · simp only [if_true]
        refine ⟨hpd, by simp [List.append_assoc], ?_⟩
        simp [Inv, hl, ho, hpd]
    · simp [NKind.isArr] at harr
    · -- list item
      cases metas with
      | nil =>
        have hs2 : Inv { s with level := s.level + 1 } (L + 2) (sid :: O) (.closed false) := by
          refine ⟨by simp [hl], ho, hpd, by simp; omega, ?_⟩
          simp; omega
        obtain ⟨s3, q, hpk, hi3⟩ := hk false { s with level := s.level + 1 } [] (L + 2) (sid :: O) (by omega) hs2
          (fun x hx => by simp at hx; subst hx; simp)
        have hc : s.lp ≥ s.level := by omega
        simp only [printNode, Bool.not_true, Bool.false_eq_true, if_false, hopen, innerPre, List.isEmpty_nil, if_true, Bool.true_and,
          hc, decide_true, List.append_nil, List.nil_append, hpk, cc_false_eq_sep, metaMember, innerPost, simStep, itemOf, JNode.shown, JNode.kind, NKind.isArr,
          JNode.sid, JNode.modName, JNode.name, body, tailSt, JNode.kids, Bool.not_false, Bool.false_and, Bool.and_false, ge_iff_le]
        obtain ⟨h3l, h3o, h3p, _, _⟩ := hi3
        cases isLast
        · simp only [Bool.false_eq_true, if_false, List.append_nil]
          refine ⟨h3p, by simp [List.append_assoc], ?_⟩
          simp [Inv, hl, h3o, h3p]
        · simp only [if_true]
          refine ⟨h3p, by simp [List.append_assoc], ?_⟩
          simp [Inv, hl, h3o, h3p, ho]
      | cons m ms =>
        have hlp' : s.lp ≤ s.level := by omega
        have hs2 : Inv { s with level := s.level + 1, lp := s.level + 1 } (L + 2) (sid :: O) (.closed true) :=
          ⟨by simp [hl], ho, hpd, by simp [hl], by simp [hl]⟩
        obtain ⟨s3, q, hpk, hi3⟩ := hk true { s with level := s.level + 1, lp := s.level + 1 } [] (L + 2) (sid :: O) (by omega) hs2
          (fun x hx => by simp at hx; subst hx; simp)
        have hc : s.lp ≥ s.level := by omega
        obtain ⟨h3l, h3o, h3p, _, _⟩ := hi3
        simp only [printNode, Bool.not_true, Bool.false_eq_true, if_false, hopen, innerPre_meta s m ms true hlp', if_true, Bool.true_and,
          hc, decide_true, List.append_nil, List.nil_append, hpk, innerPost, simStep, itemOf, JNode.shown, JNode.kind, NKind.isArr,
          JNode.sid, JNode.modName, JNode.name, body, tailSt, JNode.kids, Bool.not_false, Bool.false_and, Bool.and_false, ge_iff_le,
          metaMember, List.isEmpty_cons, List.cons_append, sep_cons_cc]
        cases isLast
        · simp only [Bool.false_eq_true, if_false, List.append_nil]
          refine ⟨h3p, by simp [List.append_assoc], ?_⟩
          simp [Inv, hl, h3o, h3p]
        · simp only [if_true]
          refine ⟨h3p, by simp [List.append_assoc], ?_⟩
          simp [Inv, hl, h3o, h3p, ho]

theorem size_pos (n : JNode) : 1 ≤ size n := by
  cases n; simp [size]

theorem lastN_eq (n : JNode) (rest : List JNode) : lastN n rest = lastOf (itemOf n) (items rest) := by
  cases rest with
  | nil => simp [lastN, lastOf, items]
  | cons m t => simp [lastN, lastOf, items, itemOf]

theorem lastN_false (n : JNode) (rest : List JNode) (h : lastN n rest = false) : ∃ h t, rest = h :: t ∧ h.sid = n.sid := by
  cases rest with
  | nil => simp [lastN] at h
  | cons m t => exact ⟨m, t, rfl, by simpa [lastN] using h⟩

theorem simStep_opened (top : Bool) (pmod : Option Bytes) (m : Mode) (it : Item) (isLast : Bool) (y : Nat)
    (hm : (∃ p, m = .closed p) ∨ m = .opened it.sid) (h : (simStep top pmod m it isLast).2 = .opened y) :
    isLast = false ∧ y = it.sid ∧ ((∃ p, m = .closed p) → it.isArr = true) := by
  rcases hm with ⟨p, rfl⟩ | rfl
  · unfold simStep at h
    cases hs : it.shown <;> cases ha : it.isArr <;> cases isLast <;> simp [hs, ha] at h ⊢
    exact h.symm
  · unfold simStep at h
    cases hs : it.shown <;> cases isLast <;> simp [hs] at h ⊢
    all_goals exact h.symm

/-- **Part I**: the printer's walk over a sibling list is the intermediate machine on the items. -/
theorem printSibs_sim (N : Nat) : ∀ (sibs : List JNode), sizes sibs ≤ N →
    ∀ (s : St) (pmod : Option Bytes) (before : List JNode) (L : Nat) (O : List Nat) (m : Mode) (anc : List Nat),
      1 ≤ L → Inv s L O m → OkL anc sibs → AdjKind sibs → (∀ x, O.head? = some x → x ∈ anc) →
      (∀ x, m = .opened x → ∃ h t, sibs = h :: t ∧ h.sid = x ∧ h.kind.isArr = true) →
      ∃ s', printSibs s pmod before sibs = ((sim (L == 1) pmod m (items sibs)).1, s') ∧
        Inv s' L O (sim (L == 1) pmod m (items sibs)).2 := by
  induction N with
  | zero =>
    intro sibs hsz s pmod before L O m anc hL hinv _ _ _ _
    cases sibs with
    | nil => exact ⟨s, by unfold printSibs; simp [items, sim], by simpa [items, sim] using hinv⟩
    | cons n r => have := size_pos n; simp [sizes] at hsz; omega
  | succ N ih =>
    intro sibs hsz s pmod before L O m anc hL hinv hok hadj hO hm
    cases sibs with
    | nil => exact ⟨s, by unfold printSibs; simp [items, sim], by simpa [items, sim] using hinv⟩
    | cons n rest =>
      have hn1 := size_pos n
      simp only [sizes] at hsz
      obtain ⟨hokn, hokr⟩ := hok
      -- the children, by induction
      have hk : KidsSpec (n.sid :: anc) n.modName n.kids := by
        obtain ⟨kind, sid, modName, name, shown, metas, vkind, value, kids⟩ := n
        obtain ⟨_, _, hadjk, hokk⟩ := hokn
        intro p s2 before' L' O' hL' hi2 hO'
        have hszk : sizes kids ≤ N := by simp only [size] at hsz; omega
        obtain ⟨s3, h1, h2⟩ := ih kids hszk s2 (some modName) before' L' O' (.closed p) (sid :: anc) (by omega) hi2 hokk hadjk hO'
          (fun x hx => by cases hx)
        have hL1 : (L' == 1) = false := by simp; omega
        rw [hL1] at h1 h2
        have hII := sim_closed_members false (some modName) (items kids).length (items kids) (Nat.le_refl _) (items_adj kids hadjk) p
        rw [hII] at h1 h2
        exact ⟨s3, _, h1, h2⟩
      have hszr : sizes rest ≤ N := by omega
      -- the node itself
      have hstep : (printNode s pmod n (lastN n rest)).2.pend = none ∧
          (printNode s pmod n (lastN n rest)).1 = (simStep (L == 1) pmod m (itemOf n) (lastN n rest)).1 ∧
          Inv (tailSt (!n.shown && !(isOpen s n.sid && lastN n rest)) (printNode s pmod n (lastN n rest)).2) L O
            (simStep (L == 1) pmod m (itemOf n) (lastN n rest)).2 := by
        cases m with
        | closed p => exact node_step_closed s pmod n _ L O p anc hL hinv hokn hO hk
        | opened x =>
          obtain ⟨h, t, he, hx, ha⟩ := hm x rfl
          simp only [List.cons.injEq] at he
          obtain ⟨e1, e2⟩ := he
          subst e1
          subst e2
          subst hx
          exact node_step_opened s pmod n _ L O anc hL hinv hokn ha hk
      obtain ⟨hpd, hb, hinv'⟩ := hstep
      have hmode : (∃ p, m = .closed p) ∨ m = .opened (itemOf n).sid := by
        cases m with
        | closed p => exact Or.inl ⟨p, rfl⟩
        | opened x =>
          obtain ⟨h, t, he, hx, _⟩ := hm x rfl
          simp only [List.cons.injEq] at he
          right; rw [← hx, he.1]; rfl
      -- the rest, by induction
      obtain ⟨s', hr1, hr2⟩ := ih rest hszr _ pmod (n :: before) L O _ anc hL hinv' hokr hadj.tail hO (by
        intro y hy
        obtain ⟨hlast, hyv, harr⟩ := simStep_opened _ _ _ _ _ y hmode hy
        obtain ⟨h, t, he, hs⟩ := lastN_false n rest hlast
        refine ⟨h, t, he, by rw [hs, hyv]; rfl, ?_⟩
        subst he
        have hkind : h.kind = n.kind := hadj.1 hs
        rw [hkind]
        rcases hmode with hc | ho
        · exact harr hc
        · obtain ⟨x, rfl⟩ : ∃ x, m = .opened x := ⟨_, ho⟩
          obtain ⟨h0, t0, he0, _, ha0⟩ := hm x rfl
          simp only [List.cons.injEq] at he0
          rw [he0.1]; exact ha0)
      refine ⟨s', ?_, ?_⟩
      · rw [printSibs_cons s pmod before n rest hpd, items_cons, sim_cons, ← lastN_eq, hr1, hb]
      · rw [items_cons, sim_cons, ← lastN_eq]
        exact hr2

/-- the printer's output is the declarative layout -/
theorem printData_eq_spec (forest : List JNode) (hok : OkL [] forest) (hadj : AdjKind forest) :
    printData forest = specData forest := by
  unfold printData specData
  cases forest with
  | nil => simp [items, members, sep]
  | cons n r =>
    have hinv : Inv { level := 1, lp := 0, opens := [], pend := none } 1 [] (.closed false) := by
      simp [Inv]
    obtain ⟨s', h1, _⟩ := printSibs_sim (sizes (n :: r)) (n :: r) (Nat.le_refl _) _ none [] 1 [] (.closed false) [] (Nat.le_refl _) hinv
      hok hadj (fun x hx => by cases hx) (fun x hx => by cases hx)
    have hII := sim_closed_false true none (items (n :: r)) (items_adj _ hadj)
    simp only [List.isEmpty_cons, Bool.false_eq_true, if_false, h1]
    have : ((1 : Nat) == 1) = true := rfl
    rw [this, hII]

end LyModel.JsonTree
