import LyModel.Text.XmlLemmas
import LyModel.Text.JsonLemmas
import LyModel.Text.Spec
/-! What the independent readers of `Text/Spec.lean` recover from libyang's printers (helper lemmas for C12). -/
set_option linter.unusedSimpArgs false

namespace LyModel.XmlText

theorem escSpec_head_ne_gt (attr : Bool) (b : UInt8) (t : Bytes) : (escSpec attr b ++ t).head? ≠ some 62 ∨ False := by
  left
  unfold escSpec
  repeat' split
  all_goals simp_all

theorem dumpText_not_close (attr : Bool) (l : Bytes) : XmlSpec.stripPrefix [93, 62] (dumpText attr l) = none := by
  match l with
  | [] => simp [dumpText, XmlSpec.stripPrefix]
  | b :: r =>
    rw [dumpText_cons]
    by_cases h : b = 93
    · subst h
      have e : escSpec attr 93 = [93] := by cases attr <;> decide
      rw [e]
      match r with
      | [] => simp [dumpText, XmlSpec.stripPrefix]
      | b' :: r' =>
        rw [dumpText_cons]
        have := (escSpec_head_ne_gt attr b' (dumpText attr r')).resolve_right id
        cases hh : escSpec attr b' ++ dumpText attr r' with
        | nil => simp [XmlSpec.stripPrefix]
        | cons x xs =>
          rw [hh] at this
          have : x ≠ 62 := by simpa using this
          simp [XmlSpec.stripPrefix, Ne.symm this]
    · have : (escSpec attr b ++ dumpText attr r).head? ≠ some 93 := by
        unfold escSpec
        repeat' split
        all_goals simp_all
      cases hh : escSpec attr b ++ dumpText attr r with
      | nil => simp [XmlSpec.stripPrefix]
      | cons x xs =>
        rw [hh] at this
        have : x ≠ 93 := by simpa using this
        simp [XmlSpec.stripPrefix, Ne.symm this]

def NoCtl (s : Bytes) : Prop := ∀ b ∈ s, ¬ (b < 32 ∧ b ≠ 9 ∧ b ≠ 10 ∧ b ≠ 13)

theorem spec_read_dump (attr : Bool) : ∀ (s : Bytes), NoCtl s → ∀ fuel, (dumpText attr s).length + 1 ≤ fuel →
    XmlSpec.read attr fuel (dumpText attr s) = some s
  | [], _, fuel, hf => by
    obtain ⟨f, rfl⟩ : ∃ f, fuel = f + 1 := ⟨fuel - 1, by simp [dumpText] at hf; omega⟩
    simp [dumpText, XmlSpec.read]
  | b :: r, hc, fuel, hf => by
    obtain ⟨f, rfl⟩ : ∃ f, fuel = f + 1 := ⟨fuel - 1, by omega⟩
    have hcr : NoCtl r := fun x hx => hc x (by simp [hx])
    have hcb := hc b (by simp)
    rw [dumpText_cons] at hf ⊢
    rw [List.length_append] at hf
    have ih := fun (h : (dumpText attr r).length + 1 ≤ f) => spec_read_dump attr r hcr f h
    have hclose := dumpText_not_close attr r
    by_cases h38 : b = 38
    · subst h38
      have := ih (by simp [escSpec] at hf; omega)
      simp [escSpec, XmlSpec.read, XmlSpec.reference, XmlSpec.stripPrefix, this]
    · by_cases h60 : b = 60
      · subst h60
        have := ih (by simp [escSpec] at hf; omega)
        simp [escSpec, XmlSpec.read, XmlSpec.reference, XmlSpec.stripPrefix, this]
      · by_cases h62 : b = 62
        · subst h62
          have := ih (by simp [escSpec] at hf; omega)
          simp [escSpec, XmlSpec.read, XmlSpec.reference, XmlSpec.stripPrefix, this]
        · by_cases h34 : b = 34 ∧ attr = true
          · obtain ⟨h34, ha⟩ := h34; subst h34; subst ha
            have := ih (by simp [escSpec] at hf; omega)
            simp [escSpec, XmlSpec.read, XmlSpec.reference, XmlSpec.stripPrefix, this]
          · by_cases h13 : b = 13
            · subst h13
              have e : escSpec attr 13 = [38, 35, 120, 68, 59] := by cases attr <;> decide
              rw [e] at hf ⊢
              have := ih (by simp at hf; omega)
              simp [XmlSpec.read, XmlSpec.reference, XmlSpec.hexRef, XmlSpec.hexVal?, XmlSpec.isChar, XmlSpec.encode, this]
            · by_cases h9 : b = 9 ∧ attr = true
              · obtain ⟨h9, ha⟩ := h9; subst h9; subst ha
                have e : escSpec true 9 = [38, 35, 120, 57, 59] := by decide
                rw [e] at hf ⊢
                have := ih (by simp at hf; omega)
                simp [XmlSpec.read, XmlSpec.reference, XmlSpec.hexRef, XmlSpec.hexVal?, XmlSpec.isChar, XmlSpec.encode, this]
              · by_cases h10 : b = 10 ∧ attr = true
                · obtain ⟨h10, ha⟩ := h10; subst h10; subst ha
                  have e : escSpec true 10 = [38, 35, 120, 65, 59] := by decide
                  rw [e] at hf ⊢
                  have := ih (by simp at hf; omega)
                  simp [XmlSpec.read, XmlSpec.reference, XmlSpec.hexRef, XmlSpec.hexVal?, XmlSpec.isChar, XmlSpec.encode, this]
                · have hesc : escSpec attr b = [b] := by simp [escSpec, h38, h60, h62, h34, h13, h9, h10]
                  rw [hesc] at hf ⊢
                  have := ih (by simp at hf; omega)
                  have hctl : (decide (b < 32) && b != 9 && b != 10 && b != 13) = false := by
                    simp only [Bool.and_eq_false_iff, decide_eq_false_iff_not, bne_eq_false_iff_eq, Bool.and_eq_true,
                      decide_eq_true_eq, bne_iff_ne] at *
                    by_cases hlt : b < 32
                    · by_cases e9 : b = 9
                      · exact Or.inl (Or.inl (Or.inr e9))
                      · by_cases e10 : b = 10
                        · exact Or.inl (Or.inr e10)
                        · by_cases e13 : b = 13
                          · exact Or.inr e13
                          · exact absurd ⟨hlt, e9, e10, e13⟩ hcb
                    · exact Or.inl (Or.inl (Or.inl hlt))
                  have ha9 : (attr && (b == 9 || b == 10)) = false := by
                    cases attr <;> simp_all
                  have ha34 : (attr && b == 34) = false := by
                    cases attr <;> simp_all
                  simp [XmlSpec.read, h60, h38, h13, hctl, ha9, ha34, hclose, this]

end LyModel.XmlText

namespace LyModel.JsonText

theorem hex_digits_ok : ∀ n < 256, (n < 32 ∨ n = 127) →
    XmlSpec.hexVal? (hexUp (n / 16)) = some (n / 16) ∧ XmlSpec.hexVal? (hexUp (n % 16)) = some (n % 16) := by
  decide +kernel

theorem hex4_ctl (b : UInt8) (h : b < 32 ∨ b = 127) (r : Bytes) :
    JsonSpec.hex4 (48 :: 48 :: hexUp (b.toNat / 16) :: hexUp (b.toNat % 16) :: r) = some (b.toNat, r) := by
  have hn : b.toNat < 32 ∨ b.toNat = 127 := by
    rcases h with h | h
    · exact Or.inl (by simpa using UInt8.lt_iff_toNat_lt.mp h)
    · subst h; right; rfl
  obtain ⟨h1, h2⟩ := hex_digits_ok b.toNat (UInt8.toNat_lt b) hn
  have h0 : XmlSpec.hexVal? 48 = some 0 := by decide
  simp only [JsonSpec.hex4, JsonSpec.hexVal?, h0, h1, h2, Option.bind_eq_bind, Option.bind_some, Option.pure_def]
  congr 2
  omega

theorem spec_read_print : ∀ (s : Bytes), (∀ b ∈ s, b ≠ 0) → ∀ (rest : Bytes) (fuel : Nat), (s.flatMap esc).length + 1 ≤ fuel →
    JsonSpec.readString fuel (s.flatMap esc ++ 34 :: rest) = some (s, rest)
  | [], _, rest, fuel, hf => by
    obtain ⟨f, rfl⟩ : ∃ f, fuel = f + 1 := ⟨fuel - 1, by omega⟩
    simp [JsonSpec.readString]
  | b :: r, hz, rest, fuel, hf => by
    obtain ⟨f, rfl⟩ : ∃ f, fuel = f + 1 := ⟨fuel - 1, by omega⟩
    have hb0 : b ≠ 0 := hz b (by simp)
    have hzr : ∀ x ∈ r, x ≠ 0 := fun x hx => hz x (by simp [hx])
    rw [flatMap_esc_cons b r hb0] at hf ⊢
    rw [List.length_append] at hf
    have ih := fun (h : (r.flatMap esc).length + 1 ≤ f) => spec_read_print r hzr rest f h
    by_cases h34 : b = 34
    · subst h34
      have e : (escSpec 34).length = 2 := by decide
      have := ih (by rw [e] at hf; omega)
      simp [escSpec, JsonSpec.readString, this]
    · by_cases h92 : b = 92
      · subst h92
        have e : (escSpec 92).length = 2 := by decide
        have := ih (by rw [e] at hf; omega)
        simp [escSpec, JsonSpec.readString, this]
      · by_cases h13 : b = 13
        · subst h13
          have e : (escSpec 13).length = 2 := by decide
          have := ih (by rw [e] at hf; omega)
          simp [escSpec, JsonSpec.readString, this]
        · by_cases h9 : b = 9
          · subst h9
            have e : (escSpec 9).length = 2 := by decide
            have := ih (by rw [e] at hf; omega)
            simp [escSpec, JsonSpec.readString, this]
          · by_cases hctl : b < 32 ∨ b = 127
            · have hesc : escSpec b = [92, 117, 48, 48, hexUp (b.toNat / 16), hexUp (b.toNat % 16)] := by
                simp [escSpec, h34, h92, h13, h9, hctl]
              rw [hesc] at hf ⊢
              have := ih (by simp only [List.length_cons, List.length_nil] at hf; omega)
              have hlt : b.toNat < 128 := by
                rcases hctl with h | h
                · have : b.toNat < 32 := by simpa using UInt8.lt_iff_toNat_lt.mp h
                  omega
                · subst h; decide
              have henc : XmlSpec.encode b.toNat = [b] := by simp [XmlSpec.encode, hlt]
              have hns1 : ¬ (0xD800 ≤ b.toNat) := by omega
              have hns2 : ¬ (0xDC00 ≤ b.toNat) := by omega
              simp [JsonSpec.readString, hex4_ctl b hctl, henc, hns1, hns2, this]
            · have hesc : escSpec b = [b] := by simp [escSpec, h34, h92, h13, h9, hctl]
              rw [hesc] at hf ⊢
              have := ih (by simp only [List.length_cons, List.length_nil] at hf; omega)
              have hnlt : ¬ b < 32 := fun h => hctl (Or.inl h)
              simp [JsonSpec.readString, h34, h92, hnlt, this]

end LyModel.JsonText

namespace LyModel.Utf8
open LyModel.XmlText

/-- a byte of an accepted text is never NUL nor a forbidden control character -/
theorem yangText_bytes {s : Bytes} (hs : YangText s) :
    ∀ b ∈ s, b ≠ 0 ∧ ¬ (b < 32 ∧ b ≠ 9 ∧ b ≠ 10 ∧ b ≠ 13) := by
  induction hs with
  | nil => simp
  | @cons s cp n hg _ ih =>
    intro b hb
    rw [← List.take_append_drop n s] at hb
    rcases List.mem_append.mp hb with hb | hb
    · obtain ⟨b0, r, rfl, hb0, hshape⟩ := getUtf8_shape hg
      rcases hshape with ⟨rfl, _, _, hctl⟩ | ⟨_, hall⟩
      · simp at hb; subst hb; exact ⟨hb0, hctl⟩
      · have h128 := hall b hb
        refine ⟨?_, ?_⟩
        · intro h; subst h; simp at h128
        · intro ⟨hlt, _⟩
          have : b.toNat < 32 := by simpa using UInt8.lt_iff_toNat_lt.mp hlt
          omega
    · exact ih b hb

end LyModel.Utf8
