import LyModel.Text.Utf8
/-! Facts about `getUtf8` used by the lexer round-trip proofs. -/
namespace LyModel.Utf8

@[simp] theorem rd_nil (i : Nat) : rd [] i = 0 := by simp [rd]
@[simp] theorem rd_cons_zero (a : UInt8) (l : Bytes) : rd (a :: l) 0 = a := by simp [rd]
@[simp] theorem rd_cons_succ (a : UInt8) (l : Bytes) (i : Nat) : rd (a :: l) (i + 1) = rd l i := by simp [rd]

theorem isCont_zero : isCont 0 = false := by decide

theorem isCont_ge_nat : ∀ n < 256, isCont (UInt8.ofNat n) = true → 128 ≤ n := by decide +kernel

theorem isCont_ge (b : UInt8) (h : isCont b = true) : 128 ≤ b.toNat := by
  have := isCont_ge_nat b.toNat (UInt8.toNat_lt b)
  simp at this; exact this h

set_option linter.unusedSimpArgs false in
/-- An accepted character lies entirely inside the list, and acceptance only looks at those bytes. -/
theorem getUtf8_append {s : Bytes} {cp n : Nat} (h : getUtf8 s = some (cp, n)) :
    0 < n ∧ n ≤ s.length ∧ ∀ t, getUtf8 (s ++ t) = some (cp, n) := by
  match s with
  | [] => simp [getUtf8] at h
  | [a] =>
    simp only [getUtf8, rd_cons_zero, rd_cons_succ, rd_nil, isCont_zero, List.cons_append, List.nil_append] at h ⊢
    repeat' split at h
    all_goals (simp_all <;> omega)
  | [a, b] =>
    simp only [getUtf8, rd_cons_zero, rd_cons_succ, rd_nil, isCont_zero, List.cons_append, List.nil_append] at h ⊢
    repeat' split at h
    all_goals (simp_all <;> omega)
  | [a, b, c] =>
    simp only [getUtf8, rd_cons_zero, rd_cons_succ, rd_nil, isCont_zero, List.cons_append, List.nil_append] at h ⊢
    repeat' split at h
    all_goals (simp_all <;> omega)
  | a :: b :: c :: d :: r =>
    simp only [getUtf8, rd_cons_zero, rd_cons_succ, rd_nil, isCont_zero, List.cons_append, List.nil_append] at h ⊢
    repeat' split at h
    all_goals (simp_all <;> omega)

theorem hi_bit_nat : ∀ n < 256, ¬ (UInt8.ofNat n &&& 128 = 0) → 128 ≤ n := by decide +kernel
theorem hi_bit (b : UInt8) (h : ¬ (b &&& 128 = 0)) : 128 ≤ b.toNat := by
  have := hi_bit_nat b.toNat (UInt8.toNat_lt b); simp at this; exact this h
theorem lo_bit_nat : ∀ n < 256, (UInt8.ofNat n &&& 128 = 0) → n < 128 := by decide +kernel
theorem lo_bit (b : UInt8) (h : b &&& 128 = 0) : b.toNat < 128 := by
  have := lo_bit_nat b.toNat (UInt8.toNat_lt b); simp at this; exact this h

theorem ne_zero_of_ctl (a : UInt8) (h : a < 32 → ¬a = 9 → ¬a = 10 → a = 13) : a ≠ 0 := by
  intro h0; subst h0; have := h (by decide) (by decide) (by decide); exact absurd this (by decide)
theorem ne_zero_of_hi (a : UInt8) (h : ¬ (a &&& 128 = 0)) : a ≠ 0 := by
  intro h0; subst h0; exact h (by decide)

set_option linter.unusedSimpArgs false in
/-- Shape of an accepted character: a single byte below 0x80 (not NUL, not a forbidden control), or `n > 1`
    bytes all ≥ 0x80. -/
theorem getUtf8_shape {s : Bytes} {cp n : Nat} (h : getUtf8 s = some (cp, n)) :
    ∃ b0 r, s = b0 :: r ∧ b0 ≠ 0 ∧
      ((n = 1 ∧ b0.toNat < 128 ∧ cp = b0.toNat ∧ ¬ (b0 < 0x20 ∧ b0 ≠ 9 ∧ b0 ≠ 10 ∧ b0 ≠ 13)) ∨
       (1 < n ∧ ∀ b ∈ s.take n, 128 ≤ b.toNat)) := by
  match s with
  | [] => simp [getUtf8] at h
  | [a] =>
    refine ⟨a, [], rfl, ?_⟩
    simp only [getUtf8, rd_cons_zero, rd_cons_succ, rd_nil, isCont_zero] at h
    repeat' split at h
    all_goals simp_all
    all_goals first
      | (rename_i h1 h2; obtain ⟨rfl, rfl⟩ := h
         exact ⟨ne_zero_of_ctl _ h2, lo_bit _ h1⟩)
      | (obtain ⟨_, rfl⟩ := h
         refine ⟨ne_zero_of_hi _ (by assumption), ?_⟩
         simp
         refine ⟨?_, ?_⟩ <;> try refine ⟨?_, ?_⟩ <;> try refine ⟨?_, ?_⟩
         all_goals first | exact hi_bit _ (by assumption) | exact isCont_ge _ (by assumption))
  | [a, b] =>
    refine ⟨a, [b], rfl, ?_⟩
    simp only [getUtf8, rd_cons_zero, rd_cons_succ, rd_nil, isCont_zero] at h
    repeat' split at h
    all_goals simp_all
    all_goals first
      | (rename_i h1 h2; obtain ⟨rfl, rfl⟩ := h
         exact ⟨ne_zero_of_ctl _ h2, lo_bit _ h1⟩)
      | (obtain ⟨_, rfl⟩ := h
         refine ⟨ne_zero_of_hi _ (by assumption), ?_⟩
         simp
         refine ⟨?_, ?_⟩ <;> try refine ⟨?_, ?_⟩ <;> try refine ⟨?_, ?_⟩
         all_goals first | exact hi_bit _ (by assumption) | exact isCont_ge _ (by assumption))
  | [a, b, c] =>
    refine ⟨a, [b, c], rfl, ?_⟩
    simp only [getUtf8, rd_cons_zero, rd_cons_succ, rd_nil, isCont_zero] at h
    repeat' split at h
    all_goals simp_all
    all_goals first
      | (rename_i h1 h2; obtain ⟨rfl, rfl⟩ := h
         exact ⟨ne_zero_of_ctl _ h2, lo_bit _ h1⟩)
      | (obtain ⟨_, rfl⟩ := h
         refine ⟨ne_zero_of_hi _ (by assumption), ?_⟩
         simp
         refine ⟨?_, ?_⟩ <;> try refine ⟨?_, ?_⟩ <;> try refine ⟨?_, ?_⟩
         all_goals first | exact hi_bit _ (by assumption) | exact isCont_ge _ (by assumption))
  | a :: b :: c :: d :: r =>
    refine ⟨a, b :: c :: d :: r, rfl, ?_⟩
    simp only [getUtf8, rd_cons_zero, rd_cons_succ, rd_nil, isCont_zero] at h
    repeat' split at h
    all_goals simp_all
    all_goals first
      | (rename_i h1 h2; obtain ⟨rfl, rfl⟩ := h
         exact ⟨ne_zero_of_ctl _ h2, lo_bit _ h1⟩)
      | (obtain ⟨_, rfl⟩ := h
         refine ⟨ne_zero_of_hi _ (by assumption), ?_⟩
         simp
         refine ⟨?_, ?_⟩ <;> try refine ⟨?_, ?_⟩ <;> try refine ⟨?_, ?_⟩
         all_goals first | exact hi_bit _ (by assumption) | exact isCont_ge _ (by assumption))

set_option linter.unusedSimpArgs false in
/-- acceptance looks only at the accepted bytes -/
theorem getUtf8_take {s : Bytes} {cp n : Nat} (h : getUtf8 s = some (cp, n)) :
    ∀ t, getUtf8 (s.take n ++ t) = some (cp, n) := by
  intro t
  match s with
  | [] => simp [getUtf8] at h
  | [a] =>
    simp only [getUtf8, rd_cons_zero, rd_cons_succ, rd_nil, isCont_zero] at h
    repeat' split at h
    all_goals simp_all
    all_goals (obtain ⟨rfl, rfl⟩ := h; simp_all [getUtf8])
  | [a, b] =>
    simp only [getUtf8, rd_cons_zero, rd_cons_succ, rd_nil, isCont_zero] at h
    repeat' split at h
    all_goals simp_all
    all_goals (obtain ⟨rfl, rfl⟩ := h; simp_all [getUtf8])
  | [a, b, c] =>
    simp only [getUtf8, rd_cons_zero, rd_cons_succ, rd_nil, isCont_zero] at h
    repeat' split at h
    all_goals simp_all
    all_goals (obtain ⟨rfl, rfl⟩ := h; simp_all [getUtf8])
  | a :: b :: c :: d :: r =>
    simp only [getUtf8, rd_cons_zero, rd_cons_succ, rd_nil, isCont_zero] at h
    repeat' split at h
    all_goals simp_all
    all_goals (obtain ⟨rfl, rfl⟩ := h; simp_all [getUtf8])

theorem two_byte_bound (a b : UInt8) : (a.toNat &&& 31) <<< 6 ||| b.toNat &&& 63 < 2048 := by
  have h1 : a.toNat &&& 31 ≤ 31 := Nat.and_le_right
  have h2 : b.toNat &&& 63 ≤ 63 := Nat.and_le_right
  have h3 : (a.toNat &&& 31) <<< 6 < 2 ^ 11 := by rw [Nat.shiftLeft_eq]; omega
  have h4 : b.toNat &&& 63 < 2 ^ 11 := by omega
  exact Nat.or_lt_two_pow h3 h4

set_option linter.unusedSimpArgs false in
theorem getUtf8_cp_bounds {s : Bytes} {cp n : Nat} (h : getUtf8 s = some (cp, n)) (hn : 1 < n) :
    128 ≤ cp ∧ cp ≤ 0x10FFFF := by
  match s with
  | [] => simp [getUtf8] at h
  | [a] =>
    simp only [getUtf8, rd_cons_zero, rd_cons_succ, rd_nil, isCont_zero] at h
    repeat' split at h
    all_goals simp_all
    all_goals (obtain ⟨rfl, rfl⟩ := h; first | omega | (have := two_byte_bound a 0; omega))
  | a :: b :: r =>
    simp only [getUtf8, rd_cons_zero, rd_cons_succ, rd_nil, isCont_zero] at h
    repeat' split at h
    all_goals simp_all
    all_goals (obtain ⟨rfl, rfl⟩ := h; first | omega | (have := two_byte_bound a b; omega))

/-- `YangText s`: `s` splits into characters `ly_getutf8` accepts — what the XML and JSON lexers let through, i.e.
    what a string value that came from parsed input can hold. -/
inductive YangText : Bytes → Prop
  | nil : YangText []
  | cons {s : Bytes} {cp n : Nat} : getUtf8 s = some (cp, n) → YangText (s.drop n) → YangText s

theorem decodeAll_yangText : ∀ (fuel : Nat) (s : Bytes) (cps : List Nat), decodeAll fuel s = some cps → YangText s
  | 0, _, _, h => by simp [decodeAll] at h
  | _ + 1, [], _, _ => .nil
  | f + 1, a :: l, cps, h => by
    simp only [decodeAll] at h
    split at h
    · rename_i c n hg
      cases hd : decodeAll f (List.drop n (a :: l)) with
      | none => simp [hd] at h
      | some cps' => exact .cons hg (decodeAll_yangText f _ cps' hd)
    · simp at h

/-- the executable checker is sound for `YangText` -/
theorem isYangText_sound (s : Bytes) (h : isYangText s = true) : YangText s := by
  simp only [isYangText, Bool.and_eq_true, Option.isSome_iff_exists] at h
  obtain ⟨⟨cps, hc⟩, _⟩ := h
  exact decodeAll_yangText _ _ _ hc

end LyModel.Utf8
