import LyModel.Base
/-!
# UTF-8 leaf functions of `ly_common.c`

`getUtf8` = `ly_getutf8`, `putUtf8` = `ly_pututf8`, `checkUtf8` = `ly_checkutf8`.
Input buffers are C strings: the list holds the bytes before the terminating NUL, reading at the end of
the list reads the NUL (`0`).  Core Lean only (linked into `lydrv`).
-/
namespace LyModel.Utf8

/-- `buf[i]` on a NUL-terminated buffer -/
def rd (b : Bytes) (i : Nat) : UInt8 := b.getD i 0

@[inline] def isCont (b : UInt8) : Bool := b &&& 0xC0 == 0x80

/-- `ly_getutf8`: code point and number of bytes consumed, `none` = `LY_EINVAL`. -/
def getUtf8 (inp : Bytes) : Option (Nat × Nat) :=
  let b0 := rd inp 0
  if b0 &&& 0x80 == 0 then
    if b0 < 0x20 && b0 != 0x9 && b0 != 0xa && b0 != 0xd then none else some (b0.toNat, 1)
  else if b0 &&& 0xE0 == 0xC0 then
    let b1 := rd inp 1
    if !isCont b1 then none else
    let c := ((b0 &&& 0x1F).toNat <<< 6) ||| (b1 &&& 0x3F).toNat
    if c < 0x80 then none else some (c, 2)
  else if b0 &&& 0xF0 == 0xE0 then
    let b1 := rd inp 1
    if !isCont b1 then none else
    let b2 := rd inp 2
    if !isCont b2 then none else
    let c := ((((b0 &&& 0x0F).toNat <<< 6) ||| (b1 &&& 0x3F).toNat) <<< 6) ||| (b2 &&& 0x3F).toNat
    if c < 0x800 || (c > 0xD7FF && c < 0xE000) || c > 0xFFFD then none else some (c, 3)
  else if b0 &&& 0xF8 == 0xF0 then
    let b1 := rd inp 1
    if !isCont b1 then none else
    let b2 := rd inp 2
    if !isCont b2 then none else
    let b3 := rd inp 3
    if !isCont b3 then none else
    let c := ((((((b0 &&& 0x07).toNat <<< 6) ||| (b1 &&& 0x3F).toNat) <<< 6) ||| (b2 &&& 0x3F).toNat) <<< 6) |||
      (b3 &&& 0x3F).toNat
    if c < 0x10000 || c > 0x10FFFF then none else some (c, 4)
  else none

/-- `ly_pututf8` -/
def putUtf8 (v : Nat) : Option Bytes :=
  if v < 0x80 then
    if v < 0x20 && v != 0x09 && v != 0x0a && v != 0x0d then none else some [UInt8.ofNat v]
  else if v < 0x800 then
    some [UInt8.ofNat (0xC0 ||| (v >>> 6)), UInt8.ofNat (0x80 ||| (v &&& 0x3F))]
  else if v < 0xFFFE then
    if (v &&& 0xF800) == 0xD800 || (v ≥ 0xFDD0 && v ≤ 0xFDEF) then none else
    some [UInt8.ofNat (0xE0 ||| (v >>> 12)), UInt8.ofNat (0x80 ||| ((v >>> 6) &&& 0x3F)), UInt8.ofNat (0x80 ||| (v &&& 0x3F))]
  else if v < 0x10FFFE then
    if (v &&& 0xFFFE) == 0xFFFE then none else
    some [UInt8.ofNat (0xF0 ||| (v >>> 18)), UInt8.ofNat (0x80 ||| ((v >>> 12) &&& 0x3F)),
          UInt8.ofNat (0x80 ||| ((v >>> 6) &&& 0x3F)), UInt8.ofNat (0x80 ||| (v &&& 0x3F))]
  else none

/-- lexicographic `<` of the first `n` bytes against constants (`ly_utf8_less`) -/
def lessThan : Bytes → List UInt8 → Bool
  | _, [] => false
  | inp, k :: ks => let b := rd inp 0; if b < k then true else if b > k then false else lessThan inp.tail ks

def greaterThan : Bytes → List UInt8 → Bool
  | _, [] => false
  | inp, k :: ks => let b := rd inp 0; if b > k then true else if b < k then false else greaterThan inp.tail ks

def andEqual : Bytes → List (UInt8 × UInt8) → Bool
  | _, [] => true
  | inp, (m, v) :: r => (rd inp 0 &&& m == v) && andEqual inp.tail r

/-- `ly_checkutf8 input in_len`: length of the first character or `none`. -/
def checkUtf8 (inp : Bytes) (inLen : Nat) : Option Nat :=
  let b0 := rd inp 0
  if b0 &&& 0x80 == 0 then
    if lessThan inp [0x20] && b0 != 0x9 && b0 != 0xa && b0 != 0xd then none else some 1
  else if b0 &&& 0xE0 == 0xC0 && inLen > 1 then
    if lessThan inp [0xC2, 0x80] || greaterThan inp [0xDF, 0xBF] || !andEqual inp [(0xE0, 0xC0), (0xC0, 0x80)] then none
    else some 2
  else if b0 &&& 0xF0 == 0xE0 && inLen > 2 then
    if !lessThan inp [0xED, 0xA0, 0x80] && !greaterThan inp [0xED, 0xBF, 0xBF] then none
    else if lessThan inp [0xE0, 0xA0, 0x80] || greaterThan inp [0xEF, 0xBF, 0xBF] ||
        !andEqual inp [(0xF0, 0xE0), (0xC0, 0x80), (0xC0, 0x80)] then none
    else some 3
  else if b0 &&& 0xF8 == 0xF0 && inLen > 3 then
    if lessThan inp [0xF0, 0x90, 0x80, 0x80] || greaterThan inp [0xF4, 0x8F, 0xBF, 0xBF] ||
        !andEqual inp [(0xF8, 0xF0), (0xC0, 0x80), (0xC0, 0x80), (0xC0, 0x80)] then none
    else some 4
  else none

/-- Decode a whole buffer with `getUtf8`; `none` if any character is rejected. -/
def decodeAll : (fuel : Nat) → Bytes → Option (List Nat)
  | 0, _ => none
  | _, [] => some []
  | f + 1, s =>
    match getUtf8 s with
    | some (c, n) => (decodeAll f (s.drop n)).map (c :: ·)
    | none => none

/-- A byte string every character of which `ly_getutf8` accepts: exactly what the XML and JSON lexers let
    through, hence what a parsed string value can contain. -/
def isYangText (s : Bytes) : Bool := (decodeAll (s.length + 1) s).isSome && !s.contains 0

end LyModel.Utf8
