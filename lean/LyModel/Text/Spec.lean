import LyModel.Base
/-!
# Independent readers written from the standards (not from libyang)

`XmlSpec.read` — character data / attribute value processing of XML 1.0 (Fifth Edition): §2.11 end-of-line handling
(applied to the literal input first), §4.1 character and entity references (the five predefined entities, §4.6),
§3.3.3 attribute-value normalisation (literal white space becomes a space; referenced characters are kept), §2.4
(`<` and a bare `&` are not allowed, `]]>` is not allowed in content, the delimiting quote is not allowed in an
attribute value).  Bytes ≥ 0x80 are passed through: UTF-8 well-formedness is checked by the independent parsers of
the correspondence run (expat, Python `json`), not here.

`JsonSpec.readString` — RFC 8259 §7 strings.

These are the (P) side of C12: what *any conformant reader* recovers from libyang's output.
-/
namespace LyModel.XmlSpec

def isDigit (b : UInt8) : Bool := 48 ≤ b && b ≤ 57
def hexVal? (b : UInt8) : Option Nat :=
  if 48 ≤ b && b ≤ 57 then some (b.toNat - 48)
  else if 65 ≤ b && b ≤ 70 then some (b.toNat - 55)
  else if 97 ≤ b && b ≤ 102 then some (b.toNat - 87)
  else none

/-- XML 1.0 production [2] Char -/
def isChar (c : Nat) : Bool :=
  c == 9 || c == 10 || c == 13 || (32 ≤ c && c ≤ 0xD7FF) || (0xE000 ≤ c && c ≤ 0xFFFD) || (0x10000 ≤ c && c ≤ 0x10FFFF)

/-- standard UTF-8 encoding of a scalar value -/
def encode (c : Nat) : Bytes :=
  if c < 0x80 then [UInt8.ofNat c]
  else if c < 0x800 then [UInt8.ofNat (0xC0 + c / 64), UInt8.ofNat (0x80 + c % 64)]
  else if c < 0x10000 then [UInt8.ofNat (0xE0 + c / 4096), UInt8.ofNat (0x80 + c / 64 % 64), UInt8.ofNat (0x80 + c % 64)]
  else [UInt8.ofNat (0xF0 + c / 262144), UInt8.ofNat (0x80 + c / 4096 % 64), UInt8.ofNat (0x80 + c / 64 % 64),
        UInt8.ofNat (0x80 + c % 64)]

/-- digits of a character reference up to `;` -/
def decRef : Bytes → Nat → Bool → Option (Nat × Bytes)
  | [], _, _ => none
  | b :: r, n, any =>
    if b == 59 then (if any then some (n, r) else none)
    else if isDigit b then decRef r (10 * n + (b.toNat - 48)) true
    else none

def hexRef : Bytes → Nat → Bool → Option (Nat × Bytes)
  | [], _, _ => none
  | b :: r, n, any =>
    if b == 59 then (if any then some (n, r) else none)
    else match hexVal? b with
      | some v => hexRef r (16 * n + v) true
      | none => none

def stripPrefix : Bytes → Bytes → Option Bytes
  | [], r => some r
  | _ :: _, [] => none
  | p :: ps, c :: cs => if p = c then stripPrefix ps cs else none

/-- what follows an `&`: the referenced character (UTF-8) and the rest -/
def reference (cs : Bytes) : Option (Bytes × Bytes) :=
  match cs with
  | 35 :: 120 :: r => (hexRef r 0 false).bind fun (n, r') => if isChar n then some (encode n, r') else none
  | 35 :: r => (decRef r 0 false).bind fun (n, r') => if isChar n then some (encode n, r') else none
  | _ =>
    match stripPrefix [108, 116, 59] cs with
    | some r => some ([60], r)
    | none =>
    match stripPrefix [103, 116, 59] cs with
    | some r => some ([62], r)
    | none =>
    match stripPrefix [97, 109, 112, 59] cs with
    | some r => some ([38], r)
    | none =>
    match stripPrefix [97, 112, 111, 115, 59] cs with
    | some r => some ([39], r)
    | none =>
    match stripPrefix [113, 117, 111, 116, 59] cs with
    | some r => some ([34], r)
    | none => none

/-- The value a conformant processor reports for literal text `inp` found as element content (`attr = false`) or
    inside a double-quoted attribute value (`attr = true`); `none` = not well-formed. -/
def read (attr : Bool) : (fuel : Nat) → Bytes → Option Bytes
  | 0, _ => none
  | _, [] => some []
  | fuel + 1, c :: cs =>
    if c == 60 then none                                   -- '<'
    else if c < 32 && c != 9 && c != 10 && c != 13 then none   -- not a Char (production [2])
    else if c == 38 then                                   -- '&'
      match reference cs with
      | some (ch, r) => (read attr fuel r).map (ch ++ ·)
      | none => none
    else if c == 13 then                                   -- §2.11: CR LF and lone CR become LF (then §3.3.3 in attributes)
      let r := match cs with | 10 :: r => r | _ => cs
      (read attr fuel r).map ((if attr then 32 else 10) :: ·)
    else if attr && (c == 9 || c == 10) then (read attr fuel cs).map (32 :: ·)
    else if attr && c == 34 then none                      -- the delimiter itself
    else if !attr && c == 93 && (stripPrefix [93, 62] cs).isSome then none   -- "]]>" in content
    else (read attr fuel cs).map (c :: ·)

def readAll (attr : Bool) (inp : Bytes) : Option Bytes := read attr (inp.length + 1) inp

end LyModel.XmlSpec

namespace LyModel.JsonSpec

def hexVal? := XmlSpec.hexVal?

def hex4 : Bytes → Option (Nat × Bytes)
  | a :: b :: c :: d :: r => do
    let w ← hexVal? a; let x ← hexVal? b; let y ← hexVal? c; let z ← hexVal? d
    pure (((w * 16 + x) * 16 + y) * 16 + z, r)
  | _ => none

/-- RFC 8259 §7: the string value of the token that starts after the opening quotation mark; result = value and the
    input after the closing quotation mark.  Unescaped characters must be ≥ U+0020 and neither `"` nor `\`;
    surrogate pairs combine; a lone surrogate is rejected (no scalar value). -/
def readString : (fuel : Nat) → Bytes → Option (Bytes × Bytes)
  | 0, _ => none
  | _, [] => none
  | fuel + 1, c :: cs =>
    if c == 34 then some ([], cs)
    else if c < 32 then none
    else if c == 92 then
      match cs with
      | 34 :: r => (readString fuel r).map fun (s, t) => (34 :: s, t)
      | 92 :: r => (readString fuel r).map fun (s, t) => (92 :: s, t)
      | 47 :: r => (readString fuel r).map fun (s, t) => (47 :: s, t)
      | 98 :: r => (readString fuel r).map fun (s, t) => (8 :: s, t)
      | 102 :: r => (readString fuel r).map fun (s, t) => (12 :: s, t)
      | 110 :: r => (readString fuel r).map fun (s, t) => (10 :: s, t)
      | 114 :: r => (readString fuel r).map fun (s, t) => (13 :: s, t)
      | 116 :: r => (readString fuel r).map fun (s, t) => (9 :: s, t)
      | 117 :: r =>
        match hex4 r with
        | none => none
        | some (u, r') =>
          if 0xD800 ≤ u && u ≤ 0xDBFF then
            match r' with
            | 92 :: 117 :: r'' =>
              match hex4 r'' with
              | some (l, r3) =>
                if 0xDC00 ≤ l && l ≤ 0xDFFF then
                  (readString fuel r3).map fun (s, t) => (XmlSpec.encode (0x10000 + (u - 0xD800) * 1024 + (l - 0xDC00)) ++ s, t)
                else none
              | none => none
            | _ => none
          else if 0xDC00 ≤ u && u ≤ 0xDFFF then none
          else (readString fuel r').map fun (s, t) => (XmlSpec.encode u ++ s, t)
      | _ => none
    else (readString fuel cs).map fun (s, t) => (c :: s, t)

/-- a complete string token -/
def readToken (inp : Bytes) : Option (Bytes × Bytes) :=
  match inp with
  | 34 :: r => readString (r.length + 1) r
  | _ => none

end LyModel.JsonSpec
