import LyModel.Text.Utf8
import LyModel.Generated.XmlEsc
/-!
# XML character data: `lyxml_dump_text` (printer) and `lyxml_parse_value` (lexer)

The printer's per-byte decision comes from the *generated* table (`Generated.xmlEscExceptions`), i.e. from the
source of `lyxml_dump_text` as it is now.  The lexer is modelled by hand; the output buffer is abstracted to
the accumulated bytes (its sizing arithmetic is a C05 obligation, modelled in `Text/XmlBuf.lean`).
-/
namespace LyModel.XmlText
open LyModel.Utf8

inductive LexErr | eof | badEntity | badCharRef | expSemicolon | badRefValue | cdataNterm | inChar
  deriving Repr, DecidableEq

def LexErr.name : LexErr → String
  | .eof => "Eof" | .badEntity => "BadEntity" | .badCharRef => "BadCharRef" | .expSemicolon => "ExpSemicolon"
  | .badRefValue => "BadRefValue" | .cdataNterm => "CdataNterm" | .inChar => "InChar"

/-- what `lyxml_dump_text` writes for one byte -/
def esc (attr : Bool) (b : UInt8) : Bytes :=
  match Generated.xmlEscExceptions.find? (fun e => e.1 == b && e.2.1 == attr) with
  | some e => e.2.2
  | none => [b]

def dumpText (attr : Bool) (s : Bytes) : Bytes := s.flatMap (esc attr)

def isXmlWs (b : UInt8) : Bool := b == 0x20 || b == 0x9 || b == 0xa || b == 0xd
def isDigit (b : UInt8) : Bool := 0x30 ≤ b && b ≤ 0x39
def isXDigit (b : UInt8) : Bool := isDigit b || (0x41 ≤ b && b ≤ 0x46) || (0x61 ≤ b && b ≤ 0x66)

def stripPrefix : Bytes → Bytes → Option Bytes
  | [], r => some r
  | _ :: _, [] => none
  | p :: ps, c :: cs => if p = c then stripPrefix ps cs else none

def sLt : Bytes := [108, 116, 59]            -- "lt;"
def sGt : Bytes := [103, 116, 59]            -- "gt;"
def sAmp : Bytes := [97, 109, 112, 59]       -- "amp;"
def sApos : Bytes := [97, 112, 111, 115, 59] -- "apos;"
def sQuot : Bytes := [113, 117, 111, 116, 59]-- "quot;"
def sCdata : Bytes := [60, 33, 91, 67, 68, 65, 84, 65, 91] -- "<![CDATA["

/-- predefined entity after the `&` -/
def entity (cs : Bytes) : Option (UInt8 × Bytes) :=
  match stripPrefix sLt cs with
  | some r => some (60, r)
  | none =>
  match stripPrefix sGt cs with
  | some r => some (62, r)
  | none =>
  match stripPrefix sAmp cs with
  | some r => some (38, r)
  | none =>
  match stripPrefix sApos cs with
  | some r => some (39, r)
  | none =>
  match stripPrefix sQuot cs with
  | some r => some (34, r)
  | none => none

/-- decimal digits: `n = 10*n + d` in `uint32_t` -/
def decDigits : Bytes → Nat → Nat × Bytes
  | [], n => (n, [])
  | c :: cs, n => if isDigit c then decDigits cs ((10 * n + (c.toNat - 48)) % 4294967296) else (n, c :: cs)

def hexVal (c : UInt8) : Nat :=
  if isDigit c then c.toNat - 48 else if c > 70 then 10 + (c.toNat - 97) else 10 + (c.toNat - 65)

def hexDigits : Bytes → Nat → Nat × Bytes
  | [], n => (n, [])
  | c :: cs, n => if isXDigit c then hexDigits cs ((16 * n + hexVal c) % 4294967296) else (n, c :: cs)

/-- split at the first occurrence of `]]>` (`strstr`) -/
def findCdataEnd : Bytes → Option (Bytes × Bytes)
  | [] => none
  | c :: cs =>
    match stripPrefix [93, 93, 62] (c :: cs) with
    | some r => some ([], r)
    | none => (findCdataEnd cs).map fun (a, r) => (c :: a, r)

/-- `lyxml_parse_value`: value bytes, `ws_only`, rest of input (positioned at `endc`). -/
def parseValue (endc : UInt8) : (fuel : Nat) → (inp : Bytes) → (ws : Bool) → Except LexErr (Bytes × Bool × Bytes)
  | 0, _, _ => .error .eof
  | _, [], _ => .error .eof
  | fuel + 1, c :: cs, ws =>
    if c == 0 then .error .eof
    else if c == 38 then           -- '&'
      match cs with
      | 35 :: r =>                  -- "&#"
        let numRes : Option (Nat × Bytes) :=
          match r with
          | d :: _ =>
            if isDigit d then some (decDigits r 0)
            else if d == 120 && isXDigit (rd r 1) then some (hexDigits (r.drop 1) 0)
            else none
          | [] => none
        match numRes with
        | none => .error .badCharRef
        | some (n, r') =>
          match r' with
          | 59 :: r'' =>
            match putUtf8 n with
            | none => .error .badRefValue
            | some bs => (parseValue endc fuel r'' false).map fun (v, w, rest) => (bs ++ v, w, rest)
          | _ => .error .expSemicolon
      | _ =>
        match entity cs with
        | some (ch, r) => (parseValue endc fuel r false).map fun (v, w, rest) => (ch :: v, w, rest)
        | none => .error .badEntity
    else match stripPrefix sCdata (c :: cs) with
    | some r =>
      match findCdataEnd r with
      | none => .error .cdataNterm
      | some (data, r') =>
        let ws' := ws && data.all isXmlWs
        (parseValue endc fuel r' ws').map fun (v, w, rest) => (data ++ v, w, rest)
    | none =>
      if c == endc then .ok ([], ws, c :: cs)
      else
        match getUtf8 (c :: cs) with
        | none => .error .inChar
        | some (_, n) =>
          let ws' := ws && isXmlWs c
          (parseValue endc fuel ((c :: cs).drop n) ws').map fun (v, w, rest) => ((c :: cs).take n ++ v, w, rest)

/-- entry point with enough fuel: every step consumes at least one input byte -/
def parse (endc : UInt8) (inp : Bytes) : Except LexErr (Bytes × Bool × Bytes) :=
  parseValue endc (inp.length + 1) inp true

end LyModel.XmlText
