import LyModel.Text.XmlText
import LyModel.Text.Utf8Lemmas
/-! Helper lemmas for the XML text round trip (property theorems are in `Props/C01.lean`). -/
namespace LyModel.XmlText
open LyModel.Utf8

/-- the escaping rule the round-trip proof needs; `esc_eq_spec` shows the *generated* table satisfies it -/
def escSpec (attr : Bool) (b : UInt8) : Bytes :=
  if b = 38 then [38, 97, 109, 112, 59]
  else if b = 60 then [38, 108, 116, 59]
  else if b = 62 then [38, 103, 116, 59]
  else if b = 34 ∧ attr = true then [38, 113, 117, 111, 116, 59]
  else if b = 13 then [38, 35, 120, 68, 59]
  else if b = 9 ∧ attr = true then [38, 35, 120, 57, 59]
  else if b = 10 ∧ attr = true then [38, 35, 120, 65, 59]
  else [b]

theorem esc_eq_spec_nat (attr : Bool) : ∀ n < 256, esc attr (UInt8.ofNat n) = escSpec attr (UInt8.ofNat n) := by
  cases attr <;> decide +kernel

theorem esc_eq_spec (attr : Bool) (b : UInt8) : esc attr b = escSpec attr b := by
  have := esc_eq_spec_nat attr b.toNat (UInt8.toNat_lt b)
  simpa using this

end LyModel.XmlText

namespace LyModel.XmlText
open LyModel.Utf8

theorem dumpText_cons (attr : Bool) (b : UInt8) (l : Bytes) :
    dumpText attr (b :: l) = escSpec attr b ++ dumpText attr l := by
  simp [dumpText, esc_eq_spec]

theorem dumpText_append (attr : Bool) (a b : Bytes) :
    dumpText attr (a ++ b) = dumpText attr a ++ dumpText attr b := by
  simp [dumpText]

theorem escSpec_hi (attr : Bool) (b : UInt8) (h : 128 ≤ b.toNat) : escSpec attr b = [b] := by
  have h1 : b ≠ 38 := by intro h'; subst h'; simp at h
  have h2 : b ≠ 60 := by intro h'; subst h'; simp at h
  have h3 : b ≠ 62 := by intro h'; subst h'; simp at h
  have h4 : b ≠ 34 := by intro h'; subst h'; simp at h
  have h5 : b ≠ 13 := by intro h'; subst h'; simp at h
  have h6 : b ≠ 9 := by intro h'; subst h'; simp at h
  have h7 : b ≠ 10 := by intro h'; subst h'; simp at h
  simp [escSpec, h1, h2, h3, h4, h5, h6, h7]

theorem dumpText_hi (attr : Bool) : ∀ (l : Bytes), (∀ b ∈ l, 128 ≤ b.toNat) → dumpText attr l = l
  | [], _ => by simp [dumpText]
  | b :: l, h => by
    rw [dumpText_cons, escSpec_hi attr b (h b (by simp)), dumpText_hi attr l (fun x hx => h x (by simp [hx]))]
    rfl

theorem dumpText_length_pos (attr : Bool) (b : UInt8) (l : Bytes) : 0 < (dumpText attr (b :: l)).length := by
  rw [dumpText_cons]; unfold escSpec; repeat' split
  all_goals simp

/-- white space that the printer writes literally: only that leaves the lexer's `ws_only` flag set
    (an entity or character reference always clears it) -/
def wsLit (attr : Bool) (b : UInt8) : Bool := isXmlWs b && (escSpec attr b == [b])

/-- the end character must be one the printer escapes in the given mode -/
def EndOk (attr : Bool) (endc : UInt8) : Prop := endc = 60 ∨ (endc = 34 ∧ attr = true)

end LyModel.XmlText

namespace LyModel.XmlText
open LyModel.Utf8

theorem stripCdata_ne (b : UInt8) (X : Bytes) (h : b ≠ 60) : stripPrefix sCdata (b :: X) = none := by
  simp [sCdata, stripPrefix, Ne.symm h]

set_option linter.unusedSimpArgs false in
theorem parseValue_dump (attr : Bool) (endc : UInt8) (hend : EndOk attr endc) (rest : Bytes)
    (hrest : stripPrefix sCdata (endc :: rest) = none)
    {s : Bytes} (hs : YangText s) :
    ∀ (fuel : Nat) (ws : Bool), (dumpText attr s).length + 1 ≤ fuel →
      parseValue endc fuel (dumpText attr s ++ endc :: rest) ws = .ok (s, ws && s.all (wsLit attr), endc :: rest) := by
  have hend0 : endc ≠ 0 := by rcases hend with h | ⟨h, _⟩ <;> simp [h]
  have hend38 : endc ≠ 38 := by rcases hend with h | ⟨h, _⟩ <;> simp [h]
  induction hs with
  | nil =>
    intro fuel ws hf
    obtain ⟨f, rfl⟩ : ∃ f, fuel = f + 1 := ⟨fuel - 1, by omega⟩
    simp [dumpText, parseValue, hend0, hend38, hrest]
  | @cons s cp n hg _ ih =>
    intro fuel ws hf
    obtain ⟨b0, r, rfl, hb0, hshape⟩ := getUtf8_shape hg
    obtain ⟨f, rfl⟩ : ∃ f, fuel = f + 1 := ⟨fuel - 1, by omega⟩
    rcases hshape with ⟨rfl, hlt, _, _⟩ | ⟨hn, hall⟩
    · -- single byte
      simp only [List.drop_succ_cons, List.drop_zero] at ih
      rw [dumpText_cons] at hf ⊢
      by_cases h38 : b0 = 38
      · subst h38
        have := ih f false (by simp [escSpec] at hf; omega)
        simp [escSpec, parseValue, entity, stripPrefix, sLt, sGt, sAmp, this, isXmlWs, wsLit, Except.map]
      · by_cases h60 : b0 = 60
        · subst h60
          have := ih f false (by simp [escSpec] at hf; omega)
          simp [escSpec, parseValue, entity, stripPrefix, sLt, this, isXmlWs, wsLit, Except.map]
        · by_cases h62 : b0 = 62
          · subst h62
            have := ih f false (by simp [escSpec] at hf; omega)
            simp [escSpec, parseValue, entity, stripPrefix, sLt, sGt, this, isXmlWs, wsLit, Except.map]
          · by_cases h34 : b0 = 34 ∧ attr = true
            · obtain ⟨h34, ha⟩ := h34; subst h34; subst ha
              have := ih f false (by simp [escSpec] at hf; omega)
              simp [escSpec, parseValue, entity, stripPrefix, sLt, sGt, sAmp, sApos, sQuot, this, isXmlWs, wsLit, Except.map]
            · by_cases h13 : b0 = 13
              · subst h13
                have e : escSpec attr 13 = [38, 35, 120, 68, 59] := by cases attr <;> decide
                rw [e] at hf ⊢
                have := ih f false (by simp at hf; omega)
                simp [parseValue, isDigit, isXDigit, rd, hexDigits, hexVal, putUtf8, this, isXmlWs, wsLit, Except.map, e]
              · by_cases h9 : b0 = 9 ∧ attr = true
                · obtain ⟨h9, ha⟩ := h9; subst h9; subst ha
                  have e : escSpec true 9 = [38, 35, 120, 57, 59] := by decide
                  rw [e] at hf ⊢
                  have := ih f false (by simp at hf; omega)
                  simp [parseValue, isDigit, isXDigit, rd, hexDigits, hexVal, putUtf8, this, isXmlWs, wsLit, Except.map, e]
                · by_cases h10 : b0 = 10 ∧ attr = true
                  · obtain ⟨h10, ha⟩ := h10; subst h10; subst ha
                    have e : escSpec true 10 = [38, 35, 120, 65, 59] := by decide
                    rw [e] at hf ⊢
                    have := ih f false (by simp at hf; omega)
                    simp [parseValue, isDigit, isXDigit, rd, hexDigits, hexVal, putUtf8, this, isXmlWs, wsLit, Except.map, e]
                  · have hesc : escSpec attr b0 = [b0] := by simp [escSpec, h38, h60, h62, h34, h13, h9, h10]
                    rw [hesc] at hf ⊢
                    have hne : b0 ≠ endc := by
                      rcases hend with h | ⟨h, ha⟩
                      · subst h; exact h60
                      · subst h; intro hc; exact h34 ⟨hc, ha⟩
                    have hget := getUtf8_take hg (dumpText attr r ++ endc :: rest)
                    simp only [List.take_succ_cons, List.take_zero, List.singleton_append] at hget
                    have := ih f (ws && isXmlWs b0) (by simp at hf; omega)
                    simp [parseValue, hb0, h38, stripCdata_ne b0 _ h60, hne, hget, this, Bool.and_assoc, Except.map, wsLit, hesc]
    · -- multi-byte character: copied verbatim by the printer, skipped as one character by the lexer
      have hb128 : 128 ≤ b0.toNat := hall b0 (by
        have : 0 < n := by omega
        cases n with
        | zero => omega
        | succ m => simp)
      have hsplit : b0 :: r = (b0 :: r).take n ++ (b0 :: r).drop n := (List.take_append_drop n _).symm
      have hnle : n ≤ r.length + 1 := by simpa using (getUtf8_append hg).2.1
      have hdump : dumpText attr (b0 :: r) = (b0 :: r).take n ++ dumpText attr ((b0 :: r).drop n) := by
        conv => lhs; rw [hsplit]
        rw [dumpText_append, dumpText_hi attr _ hall]
      obtain ⟨tl, htk⟩ : ∃ tl, (b0 :: r).take n = b0 :: tl := by
        cases n with
        | zero => omega
        | succ m => exact ⟨r.take m, by simp⟩
      have hlen : ((b0 :: r).take n).length = n := by simp [List.length_take]; omega
      rw [hdump] at hf ⊢
      have hget := getUtf8_take hg (dumpText attr ((b0 :: r).drop n) ++ endc :: rest)
      have h38 : b0 ≠ 38 := by intro h; subst h; simp at hb128
      have h60 : b0 ≠ 60 := by intro h; subst h; simp at hb128
      have hne : b0 ≠ endc := by
        rcases hend with h | ⟨h, _⟩ <;> (subst h; intro hc; subst hc; simp at hb128)
      have hws : isXmlWs b0 = false := by
        simp only [isXmlWs]
        have e1 : b0 ≠ 32 := by intro h; subst h; simp at hb128
        have e2 : b0 ≠ 9 := by intro h; subst h; simp at hb128
        have e3 : b0 ≠ 10 := by intro h; subst h; simp at hb128
        have e4 : b0 ≠ 13 := by intro h; subst h; simp at hb128
        simp [e1, e2, e3, e4]
      have := ih f (ws && isXmlWs b0) (by simp [List.length_append] at hf; omega)
      rw [List.append_assoc]
      rw [htk] at hget hlen ⊢
      simp only [List.cons_append] at hget ⊢
      have htake : List.take n (b0 :: (tl ++ (dumpText attr (List.drop n (b0 :: r)) ++ endc :: rest))) = b0 :: tl := by
        have : b0 :: (tl ++ (dumpText attr (List.drop n (b0 :: r)) ++ endc :: rest)) = (b0 :: tl) ++ (dumpText attr (List.drop n (b0 :: r)) ++ endc :: rest) := rfl
        rw [this, List.take_left' hlen]
      have hdrop : List.drop n (b0 :: (tl ++ (dumpText attr (List.drop n (b0 :: r)) ++ endc :: rest))) = dumpText attr (List.drop n (b0 :: r)) ++ endc :: rest := by
        have : b0 :: (tl ++ (dumpText attr (List.drop n (b0 :: r)) ++ endc :: rest)) = (b0 :: tl) ++ (dumpText attr (List.drop n (b0 :: r)) ++ endc :: rest) := rfl
        rw [this, List.drop_left' hlen]
      rw [hws, Bool.and_false] at this
      simp only [parseValue]
      simp only [hb0, h38, stripCdata_ne b0 _ h60, hne, hget, htake, hdrop, this, hws, Except.map, beq_iff_eq, if_false, Bool.and_false, Bool.false_and]
      have hall' : (b0 :: r).all (wsLit attr) = false := by simp [wsLit, hws]
      simp [hall', this, ← htk, List.take_append_drop]

end LyModel.XmlText
