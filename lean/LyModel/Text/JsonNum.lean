import LyModel.Text.Utf8
import LyModel.Generated.Consts
import LyModel.Generated.LexConsts
/-!
# JSON numbers: `lyjson_number` and `lyjson_exp_number` (`src/json.c`) as a buffer program

The input is a C string (`Utf8.rd`: reading at/after the end of the list yields the NUL).  `lyjson_number` scans
the RFC 8259 number grammar, short-cuts zero mantissas and zero exponents, and otherwise hands the text to
`lyjson_exp_number`, which composes the exponent-free decimal string in a freshly allocated buffer of
`buf_len + 1` bytes.  The model keeps

* `bufLen`  — the computed `buf_len` (so the allocation is `bufLen + 1` bytes),
* `writes`  — every store `buf[i] = b` in program order (the `memset`s and the final NUL included),
* `lens`    — every length handed to `memset` / `lyjson_exp_number_copy_num_part` as a signed number
              (the C converts them to `size_t` / `uint32_t`: a negative one would be a wild write),

and the value is *read back from the buffer* the writes produce (`ExpOut.value`), not computed separately.
Nothing is idealised: the miscounted branch of F14 (`0.5e1` → `.`) is reproduced.

Core Lean only (linked into `lydrv`).
-/
namespace LyModel.JsonNum
open LyModel.Utf8 (rd)

inductive NumErr | invChar | eof | tooLong | expRange | maxLen
  deriving Repr, DecidableEq

def NumErr.name : NumErr → String
  | .invChar => "InvChar" | .eof => "Eof" | .tooLong => "TooLong" | .expRange => "ExpRange" | .maxLen => "MaxLen"

def isDigit (b : UInt8) : Bool := 48 ≤ b && b ≤ 57

/-- iterations of `while (isdigit(in[offset])) ++offset` on the rest of the input -/
def countDigits : Bytes → Nat
  | [] => 0
  | c :: cs => if isDigit c then countDigits cs + 1 else 0

/-- `in[a .. a+n)` as `rd` reads it: bytes behind the end of the list read as the NUL (0) -/
def slice (inp : Bytes) (a n : Nat) : Bytes :=
  let t := (inp.drop a).take n
  t ++ List.replicate (n - t.length) 0

/-- number of leading `'0'` bytes -/
def zerosPrefix : Bytes → Nat
  | [] => 0
  | c :: cs => if c == 48 then zerosPrefix cs + 1 else 0

/-- `lyjson_count_in_row(in + a, in + b, '0', FORWARD)` -/
def countFwd (inp : Bytes) (a b : Nat) : Nat := if a ≥ b then 0 else zerosPrefix (slice inp a (b - a))

/-- `lyjson_count_in_row(in + a, in + b, '0', BACKWARD)` -/
def countBack (inp : Bytes) (a b : Nat) : Nat := if a ≥ b then 0 else zerosPrefix (slice inp a (b - a)).reverse

/-- value of a digit string (what `strtoll` accumulates before it saturates) -/
def digitsVal (ds : Bytes) : Nat := ds.foldl (fun v d => 10 * v + (d.toNat - 48)) 0

structure Scan where
  /-- 1 when the text starts with `-` -/
  minus : Nat
  /-- offset of `e`/`E` -/
  expOff : Option Nat
  /-- length of the whole number text -/
  off : Nat
  deriving Repr, DecidableEq

/-- the `invalid_character:` label -/
def invalidAt (inp : Bytes) (k : Nat) : NumErr := if rd inp k != 0 then .invChar else .eof

/-- `minus = in[0] == '-'` -/
def signOff (inp : Bytes) : Nat := if rd inp 0 == 45 then 1 else 0

/-- offset behind the integer part that starts at `m`: a single `0`, or a run of digits -/
def intEnd (inp : Bytes) (m : Nat) : Nat :=
  if rd inp m == 48 then m + 1 else m + 1 + countDigits (inp.drop (m + 1))

/-- offset behind the optional fraction that starts at `o1` -/
def fracEnd (inp : Bytes) (o1 : Nat) : Nat :=
  if rd inp o1 == 46 then o1 + 1 + countDigits (inp.drop (o1 + 1)) else o1

/-- the scanning part of `lyjson_number` -/
def scan (inp : Bytes) : Except NumErr Scan :=
  let m := signOff inp
  if !isDigit (rd inp m) then .error (invalidAt inp m) else
  let o1 := intEnd inp m
  if rd inp o1 == 46 && !isDigit (rd inp (o1 + 1)) then .error (invalidAt inp (o1 + 1)) else
  let o2 := fracEnd inp o1
  if rd inp o2 == 101 || rd inp o2 == 69 then
    let o3 := if rd inp (o2 + 1) == 43 || rd inp (o2 + 1) == 45 then o2 + 2 else o2 + 1
    if !isDigit (rd inp o3) then .error (invalidAt inp o3) else
    .ok { minus := m, expOff := some o2, off := o3 + countDigits (inp.drop o3) }
  else .ok { minus := m, expOff := none, off := o2 }

/-- `lyjson_number_is_zero(in + a, in + b)` -/
def isZero (inp : Bytes) (a b : Nat) : Bool :=
  let a := if rd inp a == 45 || rd inp a == 43 then a + 1 else a
  if rd inp a == 48 && rd inp (a + 1) == 46 then
    if !(a + 2 < b) then true else countFwd inp (a + 2) b == b - (a + 2)
  else if a ≤ b then countFwd inp a b == b - a else false

/-! ## `lyjson_exp_number` -/

abbrev Writes := List (Nat × UInt8)

/-- `memset(buf + base, b, n)` -/
def memsetW (base : Nat) (b : UInt8) (n : Nat) : Writes := (List.range n).map fun k => (base + k, b)

/-- the loop of `lyjson_exp_number_copy_num_part` (`dst = buf + base`): stores and the final `d` -/
def copyGo (decIdx : Option Nat) (dp : Int) (base : Nat) : Bytes → (n d : Nat) → Writes × Nat
  | [], _, d => ([], d)
  | c :: cs, n, d =>
    if decIdx == some n then copyGo decIdx dp base cs (n + 1) d
    else if (d : Int) == dp then
      let r := copyGo decIdx dp base cs (n + 1) (d + 2)
      ((base + d, 46) :: (base + d + 1, c) :: r.1, r.2)
    else
      let r := copyGo decIdx dp base cs (n + 1) (d + 1)
      ((base + d, c) :: r.1, r.2)

def copyNumPart (num : Bytes) (decIdx : Option Nat) (dp : Int) (base : Nat) : Writes × Nat :=
  copyGo decIdx dp base num 0 0

structure ExpOut where
  bufLen : Nat
  writes : Writes
  lens : List Int
  deriving Repr, DecidableEq

/-- bytes the allocation `malloc(buf_len + 1)` provides -/
def ExpOut.alloc (r : ExpOut) : Nat := r.bufLen + 1

/-- content of fresh heap memory (any value: no theorem depends on it, the harness never sees it) -/
def poison : UInt8 := 0xAA

def applyWrites (buf : Bytes) (ws : Writes) : Bytes := ws.foldl (fun b w => b.set w.1 w.2) buf

def ExpOut.buffer (r : ExpOut) : Bytes := applyWrites (List.replicate r.alloc poison) r.writes

/-- `*res`, `*res_len`: the first `buf_len` bytes of the buffer -/
def ExpOut.value (r : ExpOut) : Bytes := r.buffer.take r.bufLen

/-- what `lyjson_exp_number` derives from the text before it composes the result -/
structure Prep where
  /-- 1 for a leading `-` -/
  m : Nat
  leadingZero : Bool
  /-- offset of the 'numeric part' -/
  numOff : Nat
  /-- `num_len` after the trailing zeros were cut (`uint16_t`) -/
  numLen : Nat
  /-- index of the old decimal point in the numeric part -/
  decIdx : Option Nat
  dp : Int
  dot : Int
  deriving Repr, DecidableEq

def findDot (num : Bytes) : Option Nat :=
  match num.findIdx? (· == 46) with
  | some i => some i
  | none => none

/-- `dp_position = dec_point ? dec_point - num + e_val : num_len + e_val` -/
def dpOf (decIdx : Option Nat) (numLen0 : Nat) (eVal : Int) : Int :=
  (match decIdx with | some p => (p : Int) | none => (numLen0 : Int)) + eVal

/-- the trailing zeros cut from the numeric part: counted backwards from `exponent`, down to `num + dp_position - 1` -/
def trimOf (inp : Bytes) (numOff expOff : Nat) (dp : Int) : Nat :=
  if dp > 0 then countBack inp (numOff + (dp - 1).toNat) expOff else countBack inp numOff expOff

/-- `dot`: -1 the old point falls away, 0 it is moved, 1 a byte for a new one is needed -/
def dotOf (decIdx : Option Nat) (numLen : Nat) (dp : Int) : Int :=
  if decIdx.isSome && ((numLen : Int) - 1 == dp) then -1 else if decIdx.isSome then 0 else 1

def prep (inp : Bytes) (expOff : Nat) (eVal : Int) : Prep :=
  let m := signOff inp
  let leadingZero := rd inp m == 48
  let numOff := if leadingZero then m + 1 else m
  let numLen0 := (expOff - numOff) % 65536                        -- uint16_t num_len = exponent - num
  let decIdx := findDot (slice inp numOff numLen0)
  let dp := dpOf decIdx numLen0 eVal
  let trim := trimOf inp numOff expOff dp
  let numLen := (numLen0 + 65536 - trim % 65536) % 65536          -- num_len -= …  (uint16_t)
  { m, leadingZero, numOff, numLen, decIdx, dp, dot := dotOf decIdx numLen dp }

def minusW (m : Nat) : Writes := if m == 1 then [(0, 45)] else []

/-- what one composition branch yields: `buf_len` as the signed sum the C computes, the stores before the final NUL,
    the lengths handed to `memset` / the copy loop -/
abbrev Composed := Int × Writes × List Int

/-- `dp_position <= 0`: "0." zeros digits -/
def composeB1 (inp : Bytes) (p : Prep) : Composed :=
  let m := p.m
  let zeros := p.dp.natAbs
  let bufLen : Int := m + 1 + p.dot + zeros + p.numLen
  let c := copyNumPart (slice inp p.numOff p.numLen) p.decIdx (-1) (m + 2 + zeros)
  (bufLen, minusW m ++ [(m, 48), (m + 1, 46)] ++ memsetW (m + 2) 48 zeros ++ c.1, [(zeros : Int), p.numLen])

/-- mantissa `0.ddd`, the point moves inside the digits — as in libyang 3.7.8 (finding F14: `dp_position--`, and the
    byte of the new point is not counted when `dot = 0`) -/
def composeB2orig (inp : Bytes) (p : Prep) : Composed :=
  let m := p.m
  let num := p.numOff + 1
  let numLen := (p.numLen + 65535) % 65536
  let dp := p.dp - 1
  let zeros0 := countFwd inp num (num + (dp + 1).toNat)
  let allZ := (zeros0 : Int) == dp + 1
  let zeros : Int := if allZ then (zeros0 : Int) - 1 else zeros0
  let dp := if allZ then 1 else dp
  let dot : Int := if allZ then 1 else 0
  let bufLen : Int := m + dot + ((numLen : Int) - zeros)
  let n : Int := (numLen : Int) - zeros
  let c := copyNumPart (slice inp (num + zeros.toNat) n.toNat) none dp m
  (bufLen, minusW m ++ c.1, [n])

/-- the same branch as rewritten by `fixes/F14.diff` -/
def composeB2fixed (inp : Bytes) (p : Prep) : Composed :=
  let m := p.m
  let num := p.numOff + 1
  let numLen := (p.numLen + 65535) % 65536
  let zeros0 := countFwd inp num (num + p.dp.toNat)
  let allZ := (zeros0 : Int) == p.dp
  let zeros : Int := if allZ then (zeros0 : Int) - 1 else zeros0
  let dp := if allZ then 1 else p.dp - zeros
  let bufLen : Int := m + 1 + ((numLen : Int) - zeros)
  let n : Int := (numLen : Int) - zeros
  let c := copyNumPart (slice inp (num + zeros.toNat) n.toNat) none dp m
  (bufLen, minusW m ++ c.1, [n])

/-- no leading zero, the point moves inside the digits -/
def composeB3 (inp : Bytes) (p : Prep) : Composed :=
  let m := p.m
  let bufLen : Int := m + p.dot + p.numLen
  let c := copyNumPart (slice inp p.numOff p.numLen) p.decIdx p.dp m
  (bufLen, minusW m ++ c.1, [(p.numLen : Int)])

/-- mantissa `0.ddd`, integer result: digits without their leading zeros, then zeros -/
def composeB4 (inp : Bytes) (p : Prep) : Composed :=
  let m := p.m
  let num := p.numOff + 1
  let numLen := (p.numLen + 65535) % 65536
  let zeros := countFwd inp num (num + numLen)
  let bufLen : Int := m + p.dp - zeros
  let n : Int := (numLen : Int) - zeros
  let c := copyNumPart (slice inp (num + zeros) n.toNat) none p.dp m
  let i := m + c.2
  let pad : Int := bufLen - i
  (bufLen, minusW m ++ c.1 ++ memsetW i 48 pad.toNat, [n, pad])

/-- no leading zero, integer result: digits, then zeros -/
def composeB5 (inp : Bytes) (p : Prep) : Composed :=
  let m := p.m
  let bufLen : Int := m + p.dp
  let c := copyNumPart (slice inp p.numOff p.numLen) p.decIdx p.dp m
  let i := m + c.2
  let pad : Int := bufLen - i
  (bufLen, minusW m ++ c.1 ++ memsetW i 48 pad.toNat, [(p.numLen : Int), pad])

/-- "Final composition of the result": the `if` chain of the source as it is now — `Generated.lyjsonExpLeadingZeroFixed`
    is read off the source by the translator (3.7.8: false) -/
def compose (inp : Bytes) (p : Prep) : Composed :=
  if p.dp ≤ 0 then composeB1 inp p
  else if Generated.lyjsonExpLeadingZeroFixed then
    if p.leadingZero && p.dp < (p.numLen : Int) - 1 then composeB2fixed inp p
    else if !p.leadingZero && p.dp < p.numLen then composeB3 inp p
    else if p.leadingZero then composeB4 inp p
    else composeB5 inp p
  else
    if p.leadingZero && p.dp < p.numLen then composeB2orig inp p
    else if p.dp < p.numLen then composeB3 inp p
    else if p.leadingZero then composeB4 inp p
    else composeB5 inp p

/-- the digits `strtoll(exponent + 1, …)` converts -/
def expDigits (inp : Bytes) (expOff : Nat) : Bytes :=
  let s := rd inp (expOff + 1)
  let dOff := if s == 43 || s == 45 then expOff + 2 else expOff + 1
  slice inp dOff (countDigits (inp.drop dOff))

/-- `e_val = strtoll(exponent + 1, NULL, 10)` when it is in range -/
def expVal (inp : Bytes) (expOff : Nat) : Int :=
  if rd inp (expOff + 1) == 45 then -(digitsVal (expDigits inp expOff) : Int) else digitsVal (expDigits inp expOff)

/-- `lyjson_exp_number(ctx, in, in + expOff, …)` -/
def expNumber (inp : Bytes) (expOff : Nat) : Except NumErr ExpOut :=
  if expOff > 65535 then .error .tooLong else
  -- `errno || e_val > UINT16_MAX || e_val < -UINT16_MAX` (an overflowing `strtoll` is > 65535 as well)
  if digitsVal (expDigits inp expOff) > 65535 then .error .expRange else
  let p := prep inp expOff (expVal inp expOff)
  let c := compose inp p
  -- `lyjson_get_buffer_for_number`: `(uint64_t)buf_len + 1 > LY_NUMBER_MAXLEN`
  if c.1 < 0 || c.1 + 1 > Generated.LY_NUMBER_MAXLEN then .error .maxLen else
  .ok { bufLen := c.1.toNat, writes := c.2.1 ++ [(c.1.toNat, 0)], lens := c.2.2 }

/-- result of `lyjson_number`: the value either points into the input (`dyn = false`) or is the new buffer -/
structure NumOut where
  value : Bytes
  /-- bytes of input consumed (`ly_in_skip`) -/
  consumed : Nat
  dyn : Bool
  /-- the buffer program of the dynamic case -/
  exp : Option ExpOut
  deriving Repr, DecidableEq

/-- `lyjson_number` -/
def number (inp : Bytes) : Except NumErr NumOut :=
  match scan inp with
  | .error e => .error e
  | .ok s =>
    let mantEnd := s.expOff.getD s.off
    if isZero inp 0 mantEnd then .ok { value := slice inp 0 (s.minus + 1), consumed := s.off, dyn := false, exp := none }
    else match s.expOff with
      | some e =>
        if isZero inp (e + 1) s.off then .ok { value := slice inp 0 e, consumed := s.off, dyn := false, exp := none }
        else match expNumber inp e with
          | .error x => .error x
          | .ok r => .ok { value := r.value, consumed := s.off, dyn := true, exp := some r }
      | none =>
        if s.off > Generated.LY_NUMBER_MAXLEN then .error .maxLen
        else .ok { value := slice inp 0 s.off, consumed := s.off, dyn := false, exp := none }

/-- everything a `jsonnum` reply carries -/
def numberReply (inp : Bytes) : String :=
  match number inp with
  | .error e => "err " ++ e.name
  | .ok r => "ok " ++ Hex.enc r.value ++ " " ++ toString (inp.length - r.consumed) ++ " " ++ (if r.dyn then "1" else "0")

end LyModel.JsonNum
