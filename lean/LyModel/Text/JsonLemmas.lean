import LyModel.Text.JsonText
import LyModel.Text.Utf8Lemmas
/-! Helper lemmas for the JSON string round trip (property theorems are in `Props/C01.lean`). -/
namespace LyModel.JsonText
open LyModel.Utf8

def hexUp (n : Nat) : UInt8 := if n < 10 then UInt8.ofNat (48 + n) else UInt8.ofNat (55 + n)

/-- the escaping rule the round-trip proof needs; `esc_eq_spec` shows the *generated* table satisfies it -/
def escSpec (b : UInt8) : Bytes :=
  if b = 34 then [92, 34]
  else if b = 92 then [92, 92]
  else if b = 13 then [92, 114]
  else if b = 9 then [92, 116]
  else if b < 32 ∨ b = 127 then [92, 117, 48, 48, hexUp (b.toNat / 16), hexUp (b.toNat % 16)]
  else [b]

/-- byte 0 never reaches the per-byte body (it terminates the C string), so the table starts at 1 -/
theorem esc_eq_spec_nat : ∀ n < 256, 0 < n → esc (UInt8.ofNat n) = escSpec (UInt8.ofNat n) := by decide +kernel

theorem esc_eq_spec (b : UInt8) (hb : b ≠ 0) : esc b = escSpec b := by
  have := esc_eq_spec_nat b.toNat (UInt8.toNat_lt b) (by
    rcases Nat.eq_zero_or_pos b.toNat with h | h
    · exact absurd (UInt8.toNat_inj.mp (by simpa using h)) hb
    · exact h)
  simpa using this

theorem flatMap_esc_cons (b : UInt8) (l : Bytes) (hb : b ≠ 0) : (b :: l).flatMap esc = escSpec b ++ l.flatMap esc := by
  simp [esc_eq_spec b hb]

theorem escSpec_hi (b : UInt8) (h : 128 ≤ b.toNat) : escSpec b = [b] := by
  have h1 : b ≠ 34 := by intro h'; subst h'; simp at h
  have h2 : b ≠ 92 := by intro h'; subst h'; simp at h
  have h3 : b ≠ 13 := by intro h'; subst h'; simp at h
  have h4 : b ≠ 9 := by intro h'; subst h'; simp at h
  have h5 : ¬ (b < 32 ∨ b = 127) := by
    intro h'; rcases h' with h' | h'
    · have : b.toNat < 32 := by simpa using UInt8.lt_iff_toNat_lt.mp h'
      omega
    · subst h'; simp at h
  simp [escSpec, h1, h2, h3, h4, h5]

theorem flatMap_esc_hi : ∀ (l : Bytes), (∀ b ∈ l, 128 ≤ b.toNat) → l.flatMap esc = l
  | [], _ => by simp
  | b :: l, h => by
    have hb : b ≠ 0 := by intro h'; subst h'; have := h 0 (by simp); simp at this
    rw [flatMap_esc_cons b l hb, escSpec_hi b (h b (by simp)), flatMap_esc_hi l (fun x hx => h x (by simp [hx]))]
    rfl

theorem isJsonStrChar_ascii (x : Nat) (h1 : 32 ≤ x) (h2 : x ≠ 34) (h3 : x ≠ 92) (h4 : x < 128) : isJsonStrChar x = true := by
  simp only [isJsonStrChar, Bool.or_eq_true, Bool.and_eq_true, beq_iff_eq, decide_eq_true_eq]
  omega

theorem isJsonStrChar_hi (x : Nat) (h1 : 128 ≤ x) (h2 : x ≤ 0x10FFFF) : isJsonStrChar x = true := by
  simp only [isJsonStrChar, Bool.or_eq_true, Bool.and_eq_true, beq_iff_eq, decide_eq_true_eq]
  omega

set_option linter.unusedSimpArgs false in
theorem parseString_print {s : Bytes} (hs : YangText s) (rest : Bytes) :
    ∀ (fuel : Nat), (s.flatMap esc).length + 1 ≤ fuel →
      parseString fuel (s.flatMap esc ++ 34 :: rest) = .ok (s, rest) := by
  induction hs with
  | nil =>
    intro fuel hf
    obtain ⟨f, rfl⟩ : ∃ f, fuel = f + 1 := ⟨fuel - 1, by omega⟩
    simp [parseString]
  | @cons s cp n hg _ ih =>
    intro fuel hf
    obtain ⟨b0, r, rfl, hb0, hshape⟩ := getUtf8_shape hg
    obtain ⟨f, rfl⟩ : ∃ f, fuel = f + 1 := ⟨fuel - 1, by omega⟩
    rcases hshape with ⟨rfl, hlt, hcp, hctl⟩ | ⟨hn, hall⟩
    · simp only [List.drop_succ_cons, List.drop_zero] at ih
      rw [flatMap_esc_cons b0 r hb0] at hf ⊢
      rw [List.length_append] at hf
      by_cases h34 : b0 = 34
      · subst h34
        have e : (escSpec 34).length = 2 := by decide
        have := ih f (by rw [e] at hf; omega)
        simp [escSpec, parseString, putUtf8, this, Except.map]
      · by_cases h92 : b0 = 92
        · subst h92
          have e : (escSpec 92).length = 2 := by decide
          have := ih f (by rw [e] at hf; omega)
          simp [escSpec, parseString, putUtf8, this, Except.map]
        · by_cases h13 : b0 = 13
          · subst h13
            have e : (escSpec 13).length = 2 := by decide
            have := ih f (by rw [e] at hf; omega)
            simp [escSpec, parseString, putUtf8, this, Except.map]
          · by_cases h9 : b0 = 9
            · subst h9
              have e : (escSpec 9).length = 2 := by decide
              have := ih f (by rw [e] at hf; omega)
              simp [escSpec, parseString, putUtf8, this, Except.map]
            · by_cases h10 : b0 = 10
              · subst h10
                have e : (escSpec 10).length = 6 := by decide
                have := ih f (by rw [e] at hf; omega)
                simp [escSpec, hexUp, parseString, uValue, hexDigitC, putUtf8, this, Except.map]
              · by_cases h127 : b0 = 127
                · subst h127
                  have e : (escSpec 127).length = 6 := by decide
                  have := ih f (by rw [e] at hf; omega)
                  simp [escSpec, hexUp, parseString, uValue, hexDigitC, putUtf8, this, Except.map]
                · have hge : 32 ≤ b0.toNat := by
                    rcases Nat.lt_or_ge b0.toNat 32 with hlt32 | hge
                    · exfalso; apply hctl
                      exact ⟨UInt8.lt_iff_toNat_lt.mpr (by simpa using hlt32), h9, h10, h13⟩
                    · exact hge
                  have hnlt : ¬ (b0 < 32 ∨ b0 = 127) := by
                    intro h'; rcases h' with h' | h'
                    · have : b0.toNat < 32 := by simpa using UInt8.lt_iff_toNat_lt.mp h'
                      omega
                    · exact h127 h'
                  have hesc : escSpec b0 = [b0] := by simp [escSpec, h34, h92, h13, h9, hnlt]
                  rw [hesc] at hf ⊢
                  have hget := getUtf8_take hg (r.flatMap esc ++ 34 :: rest)
                  simp only [List.take_succ_cons, List.take_zero, List.singleton_append] at hget
                  have := ih f (by simp only [List.length_cons, List.length_nil] at hf; omega)
                  have hjs : isJsonStrChar cp = true := by
                    subst hcp
                    exact isJsonStrChar_ascii _ hge (by intro h; exact h34 (UInt8.toNat_inj.mp (by simpa using h)))
                      (by intro h; exact h92 (UInt8.toNat_inj.mp (by simpa using h))) hlt
                  simp [parseString, hb0, h92, h34, hget, hjs, this, Except.map]
    · have hb128 : 128 ≤ b0.toNat := hall b0 (by
        cases n with
        | zero => omega
        | succ m => simp)
      have hsplit : b0 :: r = (b0 :: r).take n ++ (b0 :: r).drop n := (List.take_append_drop n _).symm
      have hnle : n ≤ r.length + 1 := by simpa using (getUtf8_append hg).2.1
      have hdump : (b0 :: r).flatMap esc = (b0 :: r).take n ++ ((b0 :: r).drop n).flatMap esc := by
        conv => lhs; rw [hsplit]
        rw [List.flatMap_append, flatMap_esc_hi _ hall]
      obtain ⟨tl, htk⟩ : ∃ tl, (b0 :: r).take n = b0 :: tl := by
        cases n with
        | zero => omega
        | succ m => exact ⟨r.take m, by simp⟩
      have hlen : ((b0 :: r).take n).length = n := by simp [List.length_take]; omega
      rw [hdump] at hf ⊢
      have hget := getUtf8_take hg (((b0 :: r).drop n).flatMap esc ++ 34 :: rest)
      have h92 : b0 ≠ 92 := by intro h; subst h; simp at hb128
      have h34 : b0 ≠ 34 := by intro h; subst h; simp at hb128
      have hjs : isJsonStrChar cp = true := by
        have := getUtf8_cp_bounds hg hn
        exact isJsonStrChar_hi cp this.1 this.2
      have := ih f (by simp only [List.length_append] at hf; omega)
      rw [List.append_assoc]
      rw [htk] at hget hlen ⊢
      simp only [List.cons_append] at hget ⊢
      have htake : List.take n (b0 :: (tl ++ (((b0 :: r).drop n).flatMap esc ++ 34 :: rest))) = b0 :: tl := by
        have : b0 :: (tl ++ (((b0 :: r).drop n).flatMap esc ++ 34 :: rest)) = (b0 :: tl) ++ (((b0 :: r).drop n).flatMap esc ++ 34 :: rest) := rfl
        rw [this, List.take_left' hlen]
      have hdrop : List.drop n (b0 :: (tl ++ (((b0 :: r).drop n).flatMap esc ++ 34 :: rest))) = ((b0 :: r).drop n).flatMap esc ++ 34 :: rest := by
        have : b0 :: (tl ++ (((b0 :: r).drop n).flatMap esc ++ 34 :: rest)) = (b0 :: tl) ++ (((b0 :: r).drop n).flatMap esc ++ 34 :: rest) := rfl
        rw [this, List.drop_left' hlen]
      simp only [parseString]
      simp only [hb0, h92, h34, hget, hjs, htake, hdrop, this, Except.map, beq_iff_eq, if_false, Bool.not_true]
      simp [← htk, List.take_append_drop]

end LyModel.JsonText
