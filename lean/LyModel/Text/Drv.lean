import LyModel.Text.XmlText
import LyModel.Text.JsonText
import LyModel.Text.Spec
/-! driver ops of component `text` -/
namespace LyModel.Text.Drv
open LyModel

def handle (op : String) (args : List String) : String :=
  match op, args with
  | "xmldump", [attr, h] =>
    match Hex.dec h with
    | some s => "ok " ++ Hex.enc (XmlText.dumpText (attr == "1") s)
    | none => "err BadHex"
  | "xmlparse", [endc, h] =>
    match Hex.dec endc, Hex.dec h with
    | some [e], some s =>
      match XmlText.parse e s with
      | .ok (v, ws, rest) => "ok " ++ Hex.enc v ++ " " ++ (if ws then "1" else "0") ++ " " ++ toString rest.length
      | .error e => "err " ++ e.name
    | _, _ => "err BadHex"
  | "jsonprint", [h] =>
    match Hex.dec h with
    | some s => "ok " ++ Hex.enc (JsonText.printString s)
    | none => "err BadHex"
  | "jsonparse", [h] =>
    match Hex.dec h with
    | some s =>
      match JsonText.parse s with
      | .ok (v, rest) => "ok " ++ Hex.enc v ++ " " ++ toString rest.length
      | .error e => "err " ++ e.name
    | none => "err BadHex"
  | "specxml", [attr, h] =>
    match Hex.dec h with
    | some s => match XmlSpec.readAll (attr == "1") s with
      | some v => "ok " ++ Hex.enc v
      | none => "err NotWellFormed"
    | none => "err BadHex"
  | "specjson", [h] =>
    match Hex.dec h with
    | some s => match JsonSpec.readToken s with
      | some (v, rest) => "ok " ++ Hex.enc v ++ " " ++ toString rest.length
      | none => "err Invalid"
    | none => "err BadHex"
  | "getutf8", [h] =>
    match Hex.dec h with
    | some s => match Utf8.getUtf8 s with
      | some (c, n) => "ok " ++ toString c ++ " " ++ toString n
      | none => "err Inval"
    | none => "err BadHex"
  | "pututf8", [v] =>
    match v.toNat? with
    | some n => match Utf8.putUtf8 n with
      | some bs => "ok " ++ Hex.enc bs
      | none => "err Inval"
    | none => "err BadArg"
  | "checkutf8", [h, l] =>
    match Hex.dec h, l.toNat? with
    | some s, some n => match Utf8.checkUtf8 s n with
      | some k => "ok " ++ toString k
      | none => "err Inval"
    | _, _ => "err BadArg"
  | _, _ => "err BadOp"

end LyModel.Text.Drv
