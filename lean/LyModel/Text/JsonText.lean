import LyModel.Text.Utf8
import LyModel.Generated.JsonEsc
/-!
# JSON strings: `json_print_string` (printer) and `lyjson_string` (lexer)
-/
namespace LyModel.JsonText
open LyModel.Utf8

inductive LexErr | eof | badEscape | badUnicode | badRefValue | inChar | notStrChar
  deriving Repr, DecidableEq

def LexErr.name : LexErr → String
  | .eof => "Eof" | .badEscape => "BadEscape" | .badUnicode => "BadUnicode" | .badRefValue => "BadRefValue"
  | .inChar => "InChar" | .notStrChar => "NotStrChar"

def esc (b : UInt8) : Bytes :=
  match Generated.jsonEscExceptions.find? (fun e => e.1 == b) with
  | some e => e.2
  | none => [b]

/-- `json_print_string`: quoted and escaped -/
def printString (s : Bytes) : Bytes := 34 :: (s.flatMap esc ++ [34])

def isJsonStrChar (c : Nat) : Bool :=
  c == 0x20 || c == 0x21 || (c ≥ 0x23 && c ≤ 0x5b) || (c ≥ 0x5d && c ≤ 0x10ffff)

/-- value of `in[offset+i]` as the C computes it: `char` is signed, the sum is taken in `size_t` -/
def hexDigitC (b : UInt8) : Int :=
  let c : Int := if b < 128 then b.toNat else (b.toNat : Int) - 256
  if 48 ≤ b && b ≤ 57 then c - 48 else if c > 70 then 10 + (c - 97) else 10 + (c - 65)

/-- the `\uXXXX` loop: `none` when a NUL is met -/
def uValue : (n : Nat) → Bytes → Int → Option Int
  | 0, _, v => some v
  | _ + 1, [], _ => none
  | n + 1, c :: cs, v => if c == 0 then none else uValue n cs (16 * v + hexDigitC c)

/-- `lyjson_string` from just after the opening quote: value and the rest after the closing quote. -/
def parseString : (fuel : Nat) → Bytes → Except LexErr (Bytes × Bytes)
  | 0, _ => .error .eof
  | _, [] => .error .eof
  | fuel + 1, c :: cs =>
    if c == 0 then .error .eof
    else if c == 92 then         -- backslash
      let simple (v : Nat) (r : Bytes) : Except LexErr (Bytes × Bytes) :=
        match putUtf8 v with
        | none => .error .badRefValue
        | some bs => (parseString fuel r).map fun (s, rest) => (bs ++ s, rest)
      match cs with
      | 34 :: r => simple 0x22 r
      | 92 :: r => simple 0x5c r
      | 47 :: r => simple 0x2f r
      | 98 :: r => simple 0x08 r
      | 102 :: r => simple 0x0c r
      | 110 :: r => simple 0x0a r
      | 114 :: r => simple 0x0d r
      | 116 :: r => simple 0x09 r
      | 117 :: r =>
        match uValue 4 r 0 with
        | none => .error .badUnicode
        | some v => simple (v % 4294967296).toNat (r.drop 4)
      | _ => .error .badEscape
    else if c == 34 then .ok ([], cs)
    else
      match getUtf8 (c :: cs) with
      | none => .error .inChar
      | some (v, n) =>
        if !isJsonStrChar v then .error .notStrChar
        else (parseString fuel ((c :: cs).drop n)).map fun (s, rest) => ((c :: cs).take n ++ s, rest)

def parse (inp : Bytes) : Except LexErr (Bytes × Bytes) := parseString (inp.length + 1) inp

end LyModel.JsonText
