import LyModel.Merge.LemmasDupSibs
import LyModel.Merge.LemmasWf
/-!
# `LYD_DUP_WITH_PARENTS`: the duplicate hangs below a copy of the chain of its ancestors, each with its keys and nothing
  else
-/
namespace LyModel.Merge
open LyModel LyModel.Tree

/-- the options the parents are duplicated with -/
def shallowOpts (o : DupOpts) : DupOpts := { o with recursive := false }

/-- `r` is the copy of the path `path` (top first) that ends above the node `d`: a duplicated parent has the parent's
schema node and metadata (if asked for), the duplicates of its leading keys, and exactly one more child -/
def PathOnly (S : Schema) (o : DupOpts) : List DNode → DNode → DNode → Prop
  | [], d, r => r = d
  | p :: rest, d, r =>
    r.sid = p.sid ∧ r.metas = dupMetas o p.metas ∧
      ∃ child, r.kids = (keysOf S p.kids).map (dupNode S (shallowOpts o)) ++ [child] ∧ PathOnly S o rest d child

/-- going down the chain (nearest ancestor first) the schema ids grow past every ancestor's keys -/
def ChainOK (S : Schema) : List DNode → Nat → Prop
  | [], _ => True
  | p :: ps, below => p.isTerm = false ∧ (∀ k ∈ keysOf S p.kids, k.sid < below) ∧ ChainOK S ps p.sid

theorem kids_dupNode_shallow (S : Schema) (o : DupOpts) (p : DNode) :
    (dupNode S (shallowOpts o) p).kids = (keysOf S p.kids).map (dupNode S (shallowOpts o)) := by
  cases p with
  | term => simp [dupNode, DNode.kids, keysOf]
  | inner s f m ks => simp [dupNode, shallowOpts, DNode.kids, dupKeys_eq_map]

theorem metas_dupNode (S : Schema) (o : DupOpts) (p : DNode) : (dupNode S o p).metas = dupMetas o p.metas := by
  cases p <;> simp [dupNode, DNode.metas]

theorem dupMetas_shallow (o : DupOpts) (m : List Meta) : dupMetas (shallowOpts o) m = dupMetas o m := rfl

theorem insertNode_after_keys (S : Schema) (ks : List DNode) (z : DNode) (h : ∀ k ∈ ks, k.sid < z.sid) :
    insertNode S ks z = ks ++ [z] := by
  apply insertNode_append
  intro y hy
  have := h y hy
  exact ⟨by omega, fun e => by omega⟩

/-- one duplicated parent around the subtree below it -/
theorem wrap_pathOnly (S : Schema) (o : DupOpts) (d p inner : DNode) (below : List DNode) (b : Bool) (ks : List DNode)
    (hpt : p.isTerm = false) (hks : ks = (dupNode S (shallowOpts o) p).kids ++ [inner])
    (h : PathOnly S o below d inner) :
    PathOnly S o (p :: below) d (((dupNode S (shallowOpts o) p).setKids ks).setDflt b) := by
  simp only [PathOnly]
  refine ⟨by simp, by simp [metas_dupNode, dupMetas_shallow], inner, ?_, h⟩
  rw [kids_setKids_of_inner _ _ _ (by simpa using hpt), hks, kids_dupNode_shallow]

/-- wrapping the finished subtree into the duplicated parents, nearest first -/
theorem nestParents_path (S : Schema) (o : DupOpts) (d : DNode) : ∀ (rest : List DNode) (ds : List Bool) (inner : DNode)
    (below : List DNode), rest.length ≤ ds.length → ChainOK S rest inner.sid → PathOnly S o below d inner →
    PathOnly S o (rest.reverse ++ below) d (nestParents S ((rest.map (dupNode S (shallowOpts o))).zip ds) inner)
  | [], _, inner, below, _, _, h => by simpa [nestParents] using h
  | p :: ps, [], _, _, hl, _, _ => by simp at hl
  | p :: ps, d0 :: ds, inner, below, hl, hc, h => by
    simp only [ChainOK] at hc
    simp only [List.map_cons, List.zip_cons_cons, nestParents, List.reverse_cons, List.append_assoc,
      List.singleton_append]
    apply nestParents_path S o d ps ds _ (p :: below) (by simpa using hl)
    · simpa using hc.2.2
    · apply wrap_pathOnly S o d p inner below d0 _ hc.1 ?_ h
      apply insertNode_after_keys
      intro k hk
      rw [kids_dupNode_shallow] at hk
      obtain ⟨k0, hk0, rfl⟩ := List.mem_map.1 hk
      simpa using hc.2.1 k0 hk0

theorem length_ancDel : ∀ l : List Bool, (ancDel l).length = l.length
  | [] => rfl
  | true :: r => by simp [ancDel, length_ancDel r]
  | false :: r => by simp [ancDel]

theorem length_chainFlags : ∀ (l : List Bool) (b : Bool), (chainFlags l b).length = l.length
  | [], _ => rfl
  | d :: ds, b => by simp [chainFlags, length_chainFlags ds]

theorem length_foldl_ancDel : ∀ (l : List DNode) (a : List Bool),
    (List.foldl (fun a k => if k.flags.dflt = true then a else ancDel a) a l).length = a.length
  | [], _ => rfl
  | x :: xs, a => by
    simp only [List.foldl_cons]
    split
    · exact length_foldl_ancDel xs a
    · rw [length_foldl_ancDel xs, length_ancDel]

/-- the assembled result, for any list of final default flags that is long enough -/
theorem assemble_path (S : Schema) (o : DupOpts) (p1 : DNode) (rest : List DNode) (x : DNode) (fl : List Bool)
    (hl : rest.length + 1 ≤ fl.length) (hc : ChainOK S (p1 :: rest) x.sid) :
    PathOnly S o (p1 :: rest).reverse x
      (nestParents S ((rest.map (dupNode S (shallowOpts o))).zip (fl.drop 1))
        (((dupNode S (shallowOpts o) p1).setKids ((dupNode S (shallowOpts o) p1).kids ++ [x])).setDflt (fl.headD false))) := by
  simp only [ChainOK] at hc
  have := nestParents_path S o x rest (fl.drop 1) _ [p1] (by simp; omega) (by simpa using hc.2.2)
    (wrap_pathOnly S o x p1 x [] (fl.headD false) _ hc.1 rfl (by simp [PathOnly]))
  simpa using this

/-- **with parents**: `lyd_dup_single(node, NULL, … | LYD_DUP_WITH_PARENTS)` of a non-key node `n` with the ancestors
`anc` (nearest first) -/
theorem dupTop_with_parents (S : Schema) (o : DupOpts) (anc : List DNode) (n : DNode) (hw : o.withParents = true)
    (hne : anc ≠ []) (hk : S.isKey n.sid = false) (hc : ChainOK S anc n.sid) :
    ∃ root, dupTop S o true anc [n] = [root] ∧ PathOnly S o anc.reverse (dupNode S o n) root := by
  cases anc with
  | nil => exact absurd rfl hne
  | cons p1 rest =>
    have hc' := hc
    simp only [ChainOK] at hc'
    have hlt : ∀ k ∈ (dupNode S (shallowOpts o) p1).kids, k.sid < (dupNode S o n).sid := by
      intro k hk'
      rw [kids_dupNode_shallow] at hk'
      obtain ⟨k0, hk0, rfl⟩ := List.mem_map.1 hk'
      simpa using hc'.2.1 k0 hk0
    -- the loop links the one duplicate behind the keys
    have hloop : dupSibsLoop S o true [n] (dupNode S (shallowOpts o) p1).kids none =
        (dupNode S (shallowOpts o) p1).kids ++ [dupNode S o n] := by
      simp only [dupSibsLoop, hk, Bool.false_eq_true, if_false]
      split
      · exact insertBySchema_append _ _ (fun y hy => Nat.le_of_lt (hlt y hy))
      · exact insertNode_after_keys S _ _ hlt
    have hunf : dupTop S o true (p1 :: rest) [n] =
        [nestParents S ((rest.map (dupNode S (shallowOpts o))).zip
            ((List.foldl (fun a k => if k.flags.dflt = true then a else ancDel a)
              (chainFlags ((dupNode S (shallowOpts o) p1 :: rest.map (dupNode S (shallowOpts o))).map (·.flags.dflt)) true)
              ((dupSibsLoop S o true [n] (dupNode S (shallowOpts o) p1).kids none).filter
                fun k => !(S.isKey k.sid))).drop 1))
          (((dupNode S (shallowOpts o) p1).setKids (dupSibsLoop S o true [n] (dupNode S (shallowOpts o) p1).kids none)).setDflt
            ((List.foldl (fun a k => if k.flags.dflt = true then a else ancDel a)
              (chainFlags ((dupNode S (shallowOpts o) p1 :: rest.map (dupNode S (shallowOpts o))).map (·.flags.dflt)) true)
              ((dupSibsLoop S o true [n] (dupNode S (shallowOpts o) p1).kids none).filter
                fun k => !(S.isKey k.sid))).headD false))] := by
      simp [dupTop, hw, shallowOpts]
    rw [hunf, hloop]
    refine ⟨_, rfl, ?_⟩
    apply assemble_path S o p1 rest (dupNode S o n) _ ?_ (by simpa using hc)
    rw [length_foldl_ancDel, length_chainFlags]
    simp

/-- one link of `ChainOK` in a well-shaped tree: a non-key child comes, in the schema, after all keys of its parent -/
theorem chainOK_link {S : Schema} {q : Option Nat} {p c : DNode} (hp : shapeNode S q p = true) (hc : c ∈ noKeys S p.kids) :
    p.isTerm = false ∧ ∀ k ∈ keysOf S p.kids, k.sid < c.sid := by
  cases p with
  | term => simp [DNode.kids, noKeys] at hc
  | inner s f m ks =>
    simp only [shapeNode, Bool.and_eq_true, List.all_eq_true, Bool.not_eq_true', decide_eq_true_eq] at hp
    refine ⟨rfl, fun k hk => ?_⟩
    have h1 := keysSeq_le S s _ 0 hp.1.1.2 k hk
    have h2 := (hp.1.2 c hc).2
    omega

end LyModel.Merge
