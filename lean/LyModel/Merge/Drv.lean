import LyModel.Merge.Model
import LyModel.Merge.Wf
/-! driver ops of component `merge` (C14): see harness/api_merge.c for the protocol -/
namespace LyModel.Merge.Drv
open LyModel LyModel.Tree LyModel.Merge

def withSchema (dsl : String) (k : Schema → String) : String :=
  match Schema.ofHex dsl with
  | some S => k S
  | none => "err BadSchema"

/-- a tree argument must be in canonical order (the harness re-dumps what it built and compares) -/
def withTree (S : Schema) (h : String) (k : List DNode → String) : String :=
  match forestOfHex S h with
  | none => "err BadTree"
  | some f => if dumpTok (canon S (heightL f + 1) f) == dumpTok f then k f else "err NonCanonical"

def handle (op : String) (args : List String) : String :=
  match op, args with
  | "schema", [dsl, _yang] =>
    withSchema dsl fun S => "ok " ++ toString S.nodes.length ++ " " ++ " ".intercalate S.summary
  | "merge", [dsl, t, s, o, api] =>
    withSchema dsl fun S => withTree S t fun T => withTree S s fun Src =>
      match o.toNat?, api.toNat? with
      | some on, some a =>
        let r := if a == 1 then mergeTree S (MergeOpts.ofNat on) T Src else merge S (MergeOpts.ofNat on) T Src
        "ok " ++ dumpTok r ++ " 0"
      | _, _ => "err BadArg"
  | "dup", [dsl, t, idx, o, mode] =>
    withSchema dsl fun S => withTree S t fun T =>
      match idx.toNat?, o.toNat?, mode.toNat? with
      | some i, some on, some m =>
        match locateNode T i with
        | none => "err BadIndex"
        | some (anc, sibs) =>
          let opts := DupOpts.ofNat on
          let single := m % 2 == 0
          let r := dupTop S opts single anc sibs
          -- the returned node: the copy of the first original, below the duplicated parents
          let depth := if opts.withParents then anc.length else 0
          let first := match sibs with
            | n :: _ => dupNode S opts n
            | [] => default
          let ri := match indexOfAt (2 * sizeL r + 2) r first depth 0 with
            | .inl (some k) => toString k
            | _ => "?"
          "ok " ++ dumpTok r ++ " " ++ ri
      | _, _, _ => "err BadArg"
  | "dupinto", [dsl, t, idx, o, mode, trg, pidx] =>
    withSchema dsl fun S => withTree S t fun T => withTree S trg fun P =>
      match idx.toNat?, o.toNat?, mode.toNat?, pidx.toNat? with
      | some i, some on, some m, some pi =>
        match locateNode T i, P[pi]? with
        | some (anc, sibs), some par =>
          let opts := DupOpts.ofNat on
          match anc.getLast? with
          | none => "err BadParent"
          | some top =>
            if top.sid != par.sid || par.isTerm || (anc.length > 1 && !opts.withParents) then "err BadParent"
            else if anc.length == 1 then "ok " ++ dumpTok (P.set pi (dupInto S opts (m % 2 == 0) par sibs))
            else "ok " ++ dumpTok (P.set pi (dupIntoChain S opts (m % 2 == 0) par anc.dropLast sibs))
        | _, _ => "err BadIndex"
      | _, _, _, _ => "err BadArg"
  | "wf", [dsl, t] =>
    withSchema dsl fun S =>
      match forestOfHex S t with
      | none => "err BadTree"
      | some f => "ok " ++ (if wfForest S f then "1" else "0")
  | _, _ => "err BadOp"

end LyModel.Merge.Drv
