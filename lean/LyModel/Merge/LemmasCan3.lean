import LyModel.Merge.LemmasCan2
/-!
# The merged tree is in canonical order with unique instances: the induction over the source
-/
namespace LyModel.Merge
open LyModel LyModel.Tree

theorem SrcC.kids {S : Schema} {p : Option Nat} {s : Nat} {f : Flags} {m : List Meta} {ks : List DNode}
    (h : SrcC S p (.inner s f m ks)) : ∀ c ∈ ks, SrcC S (some s) c := by
  obtain ⟨h1, h2, h3⟩ := h
  simp only [shapeNode, Bool.and_eq_true] at h1
  simp only [ordNode, Bool.and_eq_true] at h2
  simp only [flagsOk, Bool.and_eq_true] at h3
  intro c hc
  exact ⟨(shapeAll_iff S (some s) ks).1 h1.2 c hc, (ordAll_iff S ks).1 h2.2 c hc, (flagsOkL_iff ks).1 h3.2 c hc⟩

theorem shape_setVal_setFlags (S : Schema) (p : Option Nat) (t : DNode) (v : Bytes) (f : Flags) :
    shapeNode S p ((t.setVal v).setFlags f) = shapeNode S p t := by
  cases t <;> simp [DNode.setVal, DNode.setFlags, shapeNode]

theorem ordNode_setVal_setFlags (S : Schema) (t : DNode) (v : Bytes) (f : Flags) :
    ordNode S ((t.setVal v).setFlags f) = ordNode S t := by
  cases t <;> simp [DNode.setVal, DNode.setFlags, ordNode]

mutual
theorem can_mergeNode (S : Schema) (o : MergeOpts) : ∀ (x : DNode) (p : Option Nat) (ctx : List Ctx) (st : St),
    SrcC S p x → Can S p st.cur → Can S p (mergeNode S o ctx x st).cur
  | .term ss sf sm sv, p, ctx, st, hx, hc => by
    simp only [mergeNode]
    split
    · rename_i i fi c hfm
      obtain ⟨t, hg, hs⟩ := findMatch_sid S st _ i fi c hfm
      simp only [hg]
      split
      · rename_i hcond
        simp only [Bool.and_eq_true] at hcond
        have hts : shapeNode S p t = true := (shapeAll_iff S p _).1 hc.1 t (List.mem_of_getElem? hg)
        have hto : ordNode S t = true := (ordAll_iff S _).1 hc.2.2 t (List.mem_of_getElem? hg)
        simp only [changeTerm]
        exact can_set S p st.cur i t _ hc hg (by rw [shape_setVal_setFlags]; exact hts)
          (by rw [ordNode_setVal_setFlags]; exact hto) (fun y => okPair_leaf_left S t y _ _ hcond.1)
          (fun y => okPair_leaf_right S t y _ _ hcond.1)
      · exact hc
    · rename_i fi c hfm
      rw [insertSrc_cur, insNode_eq_cp S o _ hx.2.2]
      exact can_insert S p st.cur _ hc (by rw [cp, shapeNode_relabel]; exact hx.1)
        (by rw [cp, ordNode_relabel]; exact hx.2.1) (fresh_of_unmatched S o p st _ fi c hfm hc hx)
  | .inner ss sf sm sks, p, ctx, st, hx, hc => by
    simp only [mergeNode]
    split
    · rename_i i fi c hfm
      obtain ⟨t, hg, hs⟩ := findMatch_sid S st _ i fi c hfm
      simp only [hg]
      have hts : shapeNode S p t = true := (shapeAll_iff S p _).1 hc.1 t (List.mem_of_getElem? hg)
      have hto : ordNode S t = true := (ordAll_iff S _).1 hc.2.2 t (List.mem_of_getElem? hg)
      have hlx : lvlOk S (.inner ss sf sm sks) = true := lvlOk_of_wf S p _ hx.1 hx.2.1
      have hlt : lvlOk S t = true := lvlOk_of_wf S p t hts hto
      have htt : t.isTerm = false := by
        rw [sameShape hlt hlx hs]; rfl
      cases t with
      | term => simp [DNode.isTerm] at htt
      | inner ts tf tm tk =>
        have e : ts = ss := hs
        subst e
        obtain ⟨hs1, hs2, _⟩ := lvlOk_kids hlx
        obtain ⟨ht1, ht2, _⟩ := lvlOk_kids hlt
        have hts' := hts
        simp only [shapeNode, Bool.and_eq_true] at hts'
        have hto' := hto
        simp only [ordNode, Bool.and_eq_true] at hto'
        -- the merge of the children
        have hsub : Can S (some ts) (mergeKids S o
            ({ np := S.isNpCont (DNode.inner ts tf tm tk).sid, others := allDfltExcept st.cur i } :: ctx) true sks
            { cur := tk, cache := [], anc := (DNode.inner ts tf tm tk).flags.dflt :: st.anc }).cur :=
          can_mergeKids S o sks (some ts) _ true _ hx.kids ⟨hts'.2, hto'.1, hto'.2⟩
        have hk := keysOf_sub S o
          ({ np := S.isNpCont (DNode.inner ts tf tm tk).sid, others := allDfltExcept st.cur i } :: ctx) ts sks tk
          { cur := tk, cache := [], anc := (DNode.inner ts tf tm tk).flags.dflt :: st.anc } rfl hs1 hs2 ht2
        have hlev := level_mergeKids S o
          ({ np := S.isNpCont (DNode.inner ts tf tm tk).sid, others := allDfltExcept st.cur i } :: ctx)
          (keyQ S (ts + listKeys S ts)) sks true
          { cur := tk, cache := [], anc := (DNode.inner ts tf tm tk).flags.dflt :: st.anc } ht1 ht2
          (fun c hc' => hs2 c (procList_subset S true sks c hc'))
        have hnk := noKeys_all S (ts + listKeys S ts) _ hlev.1 hlev.2
        simp only [kids_inner]
        rw [setKids_setDflt_inner]
        refine can_set S p st.cur i _ _ hc hg ?_ ?_ (fun y => okPair_inner_congr_left S ts _ _ _ _ _ _ y hk)
          (fun y => okPair_inner_congr_right S ts _ _ _ _ _ _ y hk)
        · simp only [shapeNode, Bool.and_eq_true, List.all_eq_true, Bool.not_eq_true', decide_eq_true_eq]
          refine ⟨⟨⟨hts'.1.1.1, ?_⟩, ?_⟩, hsub.1⟩
          · rw [hk]; exact hts'.1.1.2
          · intro c hc'
            exact hnk c hc'
        · simp only [ordNode, Bool.and_eq_true]
          exact ⟨hsub.2.1, hsub.2.2⟩
    · rename_i fi c hfm
      rw [insertSrc_cur, insNode_eq_cp S o _ hx.2.2]
      exact can_insert S p st.cur _ hc (by rw [cp, shapeNode_relabel]; exact hx.1)
        (by rw [cp, ordNode_relabel]; exact hx.2.1) (fresh_of_unmatched S o p st _ fi c hfm hc hx)
theorem can_mergeKids (S : Schema) (o : MergeOpts) : ∀ (l : List DNode) (p : Option Nat) (ctx : List Ctx) (ld : Bool)
    (st : St), (∀ c ∈ l, SrcC S p c) → Can S p st.cur → Can S p (mergeKids S o ctx ld l st).cur
  | [], _, _, _, _, _, hc => by simpa [mergeKids] using hc
  | c :: cs, p, ctx, ld, st, hl, hc => by
    simp only [mergeKids]
    split
    · exact can_mergeKids S o cs p ctx true st (fun y hy => hl y (by simp [hy])) hc
    · exact can_mergeKids S o cs p ctx false _ (fun y hy => hl y (by simp [hy]))
        (can_mergeNode S o c p ctx st (hl c (by simp)) hc)
end

end LyModel.Merge
