import LyModel.Merge.LemmasKeep
/-!
# A target node whose path the source does not contain is unchanged in the result: the induction
-/
namespace LyModel.Merge
open LyModel LyModel.Tree

theorem nthIdx_congr (p q : DNode → Bool) : ∀ (l : List DNode) (k i : Nat), (∀ w ∈ l, p w = q w) →
    nthIdx p l k i = nthIdx q l k i
  | [], _, _, _ => by simp [nthIdx]
  | x :: xs, k, i, h => by
    simp only [nthIdx, h x (by simp)]
    split
    · cases k with
      | zero => rfl
      | succ k => exact nthIdx_congr p q xs k (i + 1) (fun w hw => h w (by simp [hw]))
    · exact nthIdx_congr p q xs k (i + 1) (fun w hw => h w (by simp [hw]))

theorem firstIdx_congr (p q : DNode → Bool) (l : List DNode) (h : ∀ w ∈ l, p w = q w) : firstIdx p l = firstIdx q l :=
  nthIdx_congr p q l 0 0 h

theorem kids_setKids_inner (n : DNode) (k : List DNode) (b : Bool) (h : n.isTerm = false) :
    ((n.setKids k).setDflt b).kids = k := by
  cases n with
  | term => simp [DNode.isTerm] at h
  | inner => simp [DNode.setKids, DNode.setDflt, DNode.setFlags, DNode.kids]

theorem matchP_key_nonkey {S : Schema} {a b : DNode} (ha : S.isKey a.sid = false) (hb : S.isKey b.sid = true) :
    matchP S a b = false := by
  cases hm : matchP S a b with
  | false => rfl
  | true =>
    have := matchP_sid hm
    rw [this, ha] at hb
    exact absurd hb (by simp)

/-- the source sibling with `y0`'s identity is merged into `y0`; nothing else touches `y0` -/
theorem keep_matched (S : Schema) (o : MergeOpts) (y0 x0 : DNode) (hy0 : lvlOk S y0 = true)
    (hdy0 : S.isDupInst y0.sid = false) (hy0t : y0.isTerm = false) (hy0k : S.isKey y0.sid = false) :
    ∀ (l : List DNode) (ctx : List Ctx) (ld : Bool) (st : St), l.find? (matchP S y0) = some x0 →
      AbsAt S y0 st.cur (fun t => t = y0) → (∀ x ∈ l, SrcOk S x) → pairwiseB (okPair S) l = true →
      lvlOkL S st.cur = true →
      ∃ ctx' anc', AbsAt S y0 (mergeKids S o ctx ld l st).cur
        (fun t' => t'.kids = (mergeKids S o ctx' true x0.kids { cur := y0.kids, cache := [], anc := anc' }).cur)
  | [], _, _, _, hf, _, _, _, _ => by simp at hf
  | c :: cs, ctx, ld, st, hf, ha, hs, hp, hc => by
    rw [pairwiseB_cons] at hp
    have hsc := hs c (by simp)
    have hscs : ∀ x ∈ cs, SrcOk S x := fun x hx => hs x (by simp [hx])
    simp only [mergeKids]
    split
    · rename_i hk
      simp only [Bool.and_eq_true] at hk
      have : matchP S y0 c = false := matchP_key_nonkey hy0k hk.2
      simp only [List.find?_cons, this] at hf
      exact keep_matched S o y0 x0 hy0 hdy0 hy0t hy0k cs ctx true st hf ha hscs hp.2 hc
    · cases hm : matchP S y0 c with
      | false =>
        simp only [List.find?_cons, hm] at hf
        exact keep_matched S o y0 x0 hy0 hdy0 hy0t hy0k cs ctx false _ hf
          (absAt_step_other S o ctx y0 c st _ ha hm hy0 hdy0 hsc hc) hscs hp.2
          (lvlOk_mergeNode S o c ctx st hsc.1 hsc.2.1 hc)
      | true =>
        simp only [List.find?_cons, hm, Option.some.injEq] at hf
        subst hf
        have hcs : c.sid = y0.sid := matchP_sid hm
        have hdc : S.isDupInst c.sid = false := by rw [hcs]; exact hdy0
        have hct : c.isTerm = false := by rw [sameShape hsc.1 hy0 hcs]; exact hy0t
        obtain ⟨i, t, hfi, hg, ht⟩ := ha
        subst ht
        -- `c` is looked up like `y0`
        have hfc : firstIdx (matchP S c) st.cur = some i := by
          rw [← hfi]
          apply firstIdx_congr
          intro w hw
          exact matchP_congr hy0 hsc.1 ((lvlOkL_iff S _).1 hc w hw) hdy0 hm
        cases c with
        | term => simp [DNode.isTerm] at hct
        | inner ss sf sm sks =>
          cases t with
          | term => simp [DNode.isTerm] at hy0t
          | inner ts tf tm tk =>
            have e : ss = ts := hcs
            subst e
            obtain ⟨hs1, hs2, _⟩ := lvlOk_kids hsc.1
            obtain ⟨_, ht2, _⟩ := lvlOk_kids hy0
            refine ⟨{ np := S.isNpCont (DNode.inner ss tf tm tk).sid, others := allDfltExcept st.cur i } :: ctx,
              tf.dflt :: st.anc, ?_⟩
            have hk := keysOf_sub S o
              ({ np := S.isNpCont (DNode.inner ss tf tm tk).sid, others := allDfltExcept st.cur i } :: ctx) ss sks tk
              { cur := tk, cache := [], anc := tf.dflt :: st.anc } rfl hs1 hs2 ht2
            have hstep : AbsAt S (DNode.inner ss tf tm tk)
                (mergeNode S o ctx (DNode.inner ss sf sm sks) st).cur
                (fun t' => t'.kids = (mergeKids S o
                  ({ np := S.isNpCont (DNode.inner ss tf tm tk).sid, others := allDfltExcept st.cur i } :: ctx) true sks
                  { cur := tk, cache := [], anc := tf.dflt :: st.anc }).cur) := by
              rw [mergeNode_inner_matched S o ctx ss sf sm sks st i _ hdc hfc hg]
              apply AbsAt.replace i _ hfi
              · rw [matchP_setKids S _ _ _ _ hdy0 hk rfl]; exact matchP_refl S _
              · simp [DNode.setKids, DNode.setDflt, DNode.setFlags, DNode.kids, DNode.flags]
            apply absAt_preserved S o _ _ hy0 hdy0 cs ctx false _ hstep ?_ hscs
              (lvlOk_mergeNode S o _ ctx st hsc.1 hsc.2.1 hc)
            intro x hx
            have hcx := (okPair_not_match (hp.1 x hx) (noDupInst_sid (hscs x hx).2.2.2)).2
            rw [← matchP_congr hy0 hsc.1 (hscs x hx).1 hdy0 hm]
            exact hcx

/-- **keep**: a chain of target nodes that the source does not contain ends, in the merged level, at the same node -/
theorem keep_chain (S : Schema) (o : MergeOpts) : ∀ (chain : List DNode) (ldT : Bool) (l : List DNode) (ctx : List Ctx)
    (ld : Bool) (st : St) (y : DNode), lvlOkL S st.cur = true → pairwiseB (okPair S) st.cur = true →
    ordAll S st.cur = true → (∀ x ∈ l, SrcOk S x) → pairwiseB (okPair S) l = true → IsChain S chain ldT st.cur →
    (∀ c ∈ chain, S.isDupInst c.sid = false ∧ S.isKey c.sid = false) → chain.getLast? = some y →
    descend S chain l = none → descend S chain (mergeKids S o ctx ld l st).cur = some y
  | [], _, _, _, _, _, _, _, _, _, _, _, hc, _, _, _ => by simp [IsChain] at hc
  | [y0], ldT, l, ctx, ld, st, y, hlv, hpw, _, hs, _, hc, hd, hl, hn => by
    simp only [List.getLast?_singleton, Option.some.injEq] at hl
    subst hl
    simp only [IsChain] at hc
    have hmem := procList_subset S ldT _ _ hc
    obtain ⟨a, b, e⟩ := mem_split hmem
    have hy0 : lvlOk S y0 = true := (lvlOkL_iff S _).1 hlv y0 hmem
    have hself : AbsAt S y0 st.cur (fun t => t = y0) := by
      rw [e] at hpw ⊢; exact self_first S a y0 b hpw (hd y0 (by simp)).1
    simp only [descend] at hn
    have hnone : ∀ x ∈ l, matchP S y0 x = false := by
      intro x hx
      have := List.find?_eq_none.1 hn x hx
      simpa using this
    obtain ⟨t, h1, h2⟩ := find?_of_absAt
      (absAt_preserved S o y0 _ hy0 (hd y0 (by simp)).1 l ctx ld st hself hnone hs hlv)
    simp [descend, h1, h2]
  | y0 :: y1 :: ys, ldT, l, ctx, ld, st, y, hlv, hpw, hord, hs, hpl, hc, hd, hl, hn => by
    simp only [IsChain] at hc
    have hmem := procList_subset S ldT _ _ hc.1
    obtain ⟨a, b, e⟩ := mem_split hmem
    have hy0 : lvlOk S y0 = true := (lvlOkL_iff S _).1 hlv y0 hmem
    have hoy : ordNode S y0 = true := (ordAll_iff S _).1 hord y0 hmem
    have hd0 := hd y0 (by simp)
    have hself : AbsAt S y0 st.cur (fun t => t = y0) := by
      rw [e] at hpw ⊢; exact self_first S a y0 b hpw hd0.1
    have hl' : (y1 :: ys).getLast? = some y := by simpa [List.getLast?_cons_cons] using hl
    have hd' : ∀ c ∈ y1 :: ys, S.isDupInst c.sid = false ∧ S.isKey c.sid = false := fun c hc' => hd c (by simp [hc'])
    cases y0 with
    | term =>
      have := hc.2
      cases ys <;> simp [IsChain, procList, noKeys, DNode.kids] at this
    | inner ts tf tm tk =>
      simp only [ordNode, Bool.and_eq_true] at hoy
      obtain ⟨_, _, hkl⟩ := lvlOk_kids hy0
      simp only [descend] at hn
      cases hfx : l.find? (matchP S (DNode.inner ts tf tm tk)) with
      | none =>
        have hnone : ∀ x ∈ l, matchP S (DNode.inner ts tf tm tk) x = false := by
          intro x hx
          have := List.find?_eq_none.1 hfx x hx
          simpa using this
        obtain ⟨t, h1, h2⟩ := find?_of_absAt
          (absAt_preserved S o _ _ hy0 hd0.1 l ctx ld st hself hnone hs hlv)
        subst h2
        have := descend_self S (y1 :: ys) true tk y hoy.1 hoy.2 hc.2 (fun c hc' => (hd' c hc').1) hl'
        simp only [descend, h1]
        exact this
      | some x0 =>
        simp only [hfx] at hn
        obtain ⟨ctx', anc', habs⟩ := keep_matched S o _ x0 hy0 hd0.1 rfl hd0.2 l ctx ld st hfx hself hs hpl hlv
        obtain ⟨t, h1, h2⟩ := find?_of_absAt habs
        have hx0mem : x0 ∈ l := List.mem_of_find?_eq_some hfx
        have hx0 := hs x0 hx0mem
        have hx0m : matchP S (DNode.inner ts tf tm tk) x0 = true := by
          have := List.find?_some hfx
          simpa using this
        have hx0t : x0.isTerm = false := by
          rw [sameShape hx0.1 hy0 (matchP_sid hx0m)]; rfl
        cases x0 with
        | term => simp [DNode.isTerm] at hx0t
        | inner xs xf xm xk =>
          obtain ⟨hkx, hpx⟩ := hx0.kids
          have := keep_chain S o (y1 :: ys) true xk ctx' true { cur := tk, cache := [], anc := anc' } y hkl hoy.1 hoy.2
            hkx hpx hc.2 hd' hl' hn
          simp only [descend, h1]
          rw [h2]
          exact this

/-! ## audit addition: a matched term node that `lyd_merge_sibling_r` does not overwrite stays as it is

What the source may hold at the end of a chain of target nodes without the target node changing: nothing (`keep_chain`), or a term
node the lookup matches but the merge does not copy — an instance of a leaf-list (its value is its identity), or a default leaf
without `LYD_MERGE_DEFAULTS`. -/

/-- the source node found at the end of the chain (if any) leaves the target node `y` alone -/
def LeavesAlone (S : Schema) (o : MergeOpts) (y : DNode) : Option DNode → Prop
  | none => True
  | some x => x.isTerm = true ∧ (S.isKind y.sid .leaf && (o.defaults || !x.flags.dflt)) = false

/-- the source sibling with `y0`'s identity is a term node that is matched and not copied; nothing else touches `y0` -/
theorem keep_term_matched (S : Schema) (o : MergeOpts) (y0 x0 : DNode) (hy0 : lvlOk S y0 = true)
    (hdy0 : S.isDupInst y0.sid = false) (hy0k : S.isKey y0.sid = false) (hx0t : x0.isTerm = true)
    (hg : (S.isKind y0.sid .leaf && (o.defaults || !x0.flags.dflt)) = false) :
    ∀ (l : List DNode) (ctx : List Ctx) (ld : Bool) (st : St), l.find? (matchP S y0) = some x0 →
      AbsAt S y0 st.cur (fun t => t = y0) → (∀ x ∈ l, SrcOk S x) → pairwiseB (okPair S) l = true →
      lvlOkL S st.cur = true → AbsAt S y0 (mergeKids S o ctx ld l st).cur (fun t => t = y0)
  | [], _, _, _, hf, _, _, _, _ => by simp at hf
  | c :: cs, ctx, ld, st, hf, ha, hs, hp, hc => by
    rw [pairwiseB_cons] at hp
    have hsc := hs c (by simp)
    have hscs : ∀ x ∈ cs, SrcOk S x := fun x hx => hs x (by simp [hx])
    simp only [mergeKids]
    split
    · rename_i hk
      simp only [Bool.and_eq_true] at hk
      have : matchP S y0 c = false := matchP_key_nonkey hy0k hk.2
      simp only [List.find?_cons, this] at hf
      exact keep_term_matched S o y0 x0 hy0 hdy0 hy0k hx0t hg cs ctx true st hf ha hscs hp.2 hc
    · cases hm : matchP S y0 c with
      | false =>
        simp only [List.find?_cons, hm] at hf
        exact keep_term_matched S o y0 x0 hy0 hdy0 hy0k hx0t hg cs ctx false _ hf
          (absAt_step_other S o ctx y0 c st _ ha hm hy0 hdy0 hsc hc) hscs hp.2
          (lvlOk_mergeNode S o c ctx st hsc.1 hsc.2.1 hc)
      | true =>
        simp only [List.find?_cons, hm, Option.some.injEq] at hf
        subst hf
        have hcs : c.sid = y0.sid := matchP_sid hm
        have hdc : S.isDupInst c.sid = false := by rw [hcs]; exact hdy0
        have ha0 := ha
        obtain ⟨i, t, hfi, hgt, ht⟩ := ha
        subst ht
        have hfc : firstIdx (matchP S c) st.cur = some i := by
          rw [← hfi]
          apply firstIdx_congr
          intro w hw
          exact matchP_congr hy0 hsc.1 ((lvlOkL_iff S _).1 hc w hw) hdy0 hm
        cases c with
        | inner => simp [DNode.isTerm] at hx0t
        | term ss sf sm sv =>
          have hstep : mergeNode S o ctx (DNode.term ss sf sm sv) st = st := by
            rw [mergeNode_term_matched S o ctx ss sf sm sv st i t hdc hfc hgt]
            simp only [DNode.flags] at hg
            simp [hg]
          rw [hstep]
          apply absAt_preserved S o _ _ hy0 hdy0 cs ctx false st ha0 ?_ hscs hc
          intro x hx
          have hcx := (okPair_not_match (hp.1 x hx) (noDupInst_sid (hscs x hx).2.2.2)).2
          rw [← matchP_congr hy0 hsc.1 (hscs x hx).1 hdy0 hm]
          exact hcx

/-- **keep**, extended: a chain of target nodes ends, in the merged level, at the same node if the source does not contain the
chain or holds at its end a term node that is matched without being copied (`LeavesAlone`) -/
theorem keep_chain_alone (S : Schema) (o : MergeOpts) : ∀ (chain : List DNode) (ldT : Bool) (l : List DNode) (ctx : List Ctx)
    (ld : Bool) (st : St) (y : DNode), lvlOkL S st.cur = true → pairwiseB (okPair S) st.cur = true →
    ordAll S st.cur = true → (∀ x ∈ l, SrcOk S x) → pairwiseB (okPair S) l = true → IsChain S chain ldT st.cur →
    (∀ c ∈ chain, S.isDupInst c.sid = false ∧ S.isKey c.sid = false) → chain.getLast? = some y →
    LeavesAlone S o y (descend S chain l) → descend S chain (mergeKids S o ctx ld l st).cur = some y
  | [], _, _, _, _, _, _, _, _, _, _, _, hc, _, _, _ => by simp [IsChain] at hc
  | [y0], ldT, l, ctx, ld, st, y, hlv, hpw, _, hs, hpl, hc, hd, hl, hn => by
    simp only [List.getLast?_singleton, Option.some.injEq] at hl
    subst hl
    simp only [IsChain] at hc
    have hmem := procList_subset S ldT _ _ hc
    obtain ⟨a, b, e⟩ := mem_split hmem
    have hy0 : lvlOk S y0 = true := (lvlOkL_iff S _).1 hlv y0 hmem
    have hd0 := hd y0 (by simp)
    have hself : AbsAt S y0 st.cur (fun t => t = y0) := by
      rw [e] at hpw ⊢; exact self_first S a y0 b hpw hd0.1
    simp only [descend] at hn
    cases hfx : l.find? (matchP S y0) with
    | none =>
      have hnone : ∀ x ∈ l, matchP S y0 x = false := by
        intro x hx
        have := List.find?_eq_none.1 hfx x hx
        simpa using this
      obtain ⟨t, h1, h2⟩ := find?_of_absAt (absAt_preserved S o y0 _ hy0 hd0.1 l ctx ld st hself hnone hs hlv)
      simp [descend, h1, h2]
    | some x0 =>
      rw [hfx] at hn
      obtain ⟨t, h1, h2⟩ := find?_of_absAt
        (keep_term_matched S o y0 x0 hy0 hd0.1 hd0.2 hn.1 hn.2 l ctx ld st hfx hself hs hpl hlv)
      simp [descend, h1, h2]
  | y0 :: y1 :: ys, ldT, l, ctx, ld, st, y, hlv, hpw, hord, hs, hpl, hc, hd, hl, hn => by
    simp only [IsChain] at hc
    have hmem := procList_subset S ldT _ _ hc.1
    obtain ⟨a, b, e⟩ := mem_split hmem
    have hy0 : lvlOk S y0 = true := (lvlOkL_iff S _).1 hlv y0 hmem
    have hoy : ordNode S y0 = true := (ordAll_iff S _).1 hord y0 hmem
    have hd0 := hd y0 (by simp)
    have hself : AbsAt S y0 st.cur (fun t => t = y0) := by
      rw [e] at hpw ⊢; exact self_first S a y0 b hpw hd0.1
    have hl' : (y1 :: ys).getLast? = some y := by simpa [List.getLast?_cons_cons] using hl
    have hd' : ∀ c ∈ y1 :: ys, S.isDupInst c.sid = false ∧ S.isKey c.sid = false := fun c hc' => hd c (by simp [hc'])
    cases y0 with
    | term =>
      have := hc.2
      cases ys <;> simp [IsChain, procList, noKeys, DNode.kids] at this
    | inner ts tf tm tk =>
      simp only [ordNode, Bool.and_eq_true] at hoy
      obtain ⟨_, _, hkl⟩ := lvlOk_kids hy0
      simp only [descend] at hn
      cases hfx : l.find? (matchP S (DNode.inner ts tf tm tk)) with
      | none =>
        have hnone : ∀ x ∈ l, matchP S (DNode.inner ts tf tm tk) x = false := by
          intro x hx
          have := List.find?_eq_none.1 hfx x hx
          simpa using this
        obtain ⟨t, h1, h2⟩ := find?_of_absAt
          (absAt_preserved S o _ _ hy0 hd0.1 l ctx ld st hself hnone hs hlv)
        subst h2
        have := descend_self S (y1 :: ys) true tk y hoy.1 hoy.2 hc.2 (fun c hc' => (hd' c hc').1) hl'
        simp only [descend, h1]
        exact this
      | some x0 =>
        simp only [hfx] at hn
        obtain ⟨ctx', anc', habs⟩ := keep_matched S o _ x0 hy0 hd0.1 rfl hd0.2 l ctx ld st hfx hself hs hpl hlv
        obtain ⟨t, h1, h2⟩ := find?_of_absAt habs
        have hx0mem : x0 ∈ l := List.mem_of_find?_eq_some hfx
        have hx0 := hs x0 hx0mem
        have hx0m : matchP S (DNode.inner ts tf tm tk) x0 = true := by
          have := List.find?_some hfx
          simpa using this
        have hx0t : x0.isTerm = false := by
          rw [sameShape hx0.1 hy0 (matchP_sid hx0m)]; rfl
        cases x0 with
        | term => simp [DNode.isTerm] at hx0t
        | inner xs xf xm xk =>
          obtain ⟨hkx, hpx⟩ := hx0.kids
          have := keep_chain_alone S o (y1 :: ys) true xk ctx' true { cur := tk, cache := [], anc := anc' } y hkl hoy.1 hoy.2
            hkx hpx hc.2 hd' hl' hn
          simp only [descend, h1]
          rw [h2]
          exact this

end LyModel.Merge
