import LyModel.Merge.LemmasLevel
/-!
# `lvlOk`: the part of well-formedness of the *target* that the content theorems need and every merge step keeps
  (node kinds; children in schema order; a child has a key's schema id exactly when it is one of the leading keys)
-/
namespace LyModel.Merge
open LyModel LyModel.Tree

/-- below an instance of schema node `s` (bound `B = s + number of keys`): key ids are `≤ B`, all others `> B` -/
def keyQ (S : Schema) (B : Nat) (sid : Nat) : Bool := S.isKey sid == decide (sid ≤ B)

mutual
def lvlOk (S : Schema) : DNode → Bool
  | .term s _ _ _ => S.isTerm s
  | .inner s _ _ ks =>
    S.isInner s && sidSorted ks && ks.all (fun c => keyQ S (s + listKeys S s) c.sid) && lvlOkL S ks
def lvlOkL (S : Schema) : List DNode → Bool
  | [] => true
  | n :: ns => lvlOk S n && lvlOkL S ns
end

theorem lvlOkL_iff (S : Schema) : ∀ l : List DNode, lvlOkL S l = true ↔ ∀ n ∈ l, lvlOk S n = true
  | [] => by simp [lvlOkL]
  | n :: ns => by simp [lvlOkL, lvlOkL_iff S ns]

theorem sidSorted_map (f : DNode → DNode) (hf : ∀ n, (f n).sid = n.sid) :
    ∀ l : List DNode, sidSorted (l.map f) = sidSorted l
  | [] => rfl
  | x :: xs => by
    have ih := sidSorted_map f hf xs
    simp only [sidSorted] at ih
    simp only [sidSorted, List.map_cons, pairwiseB, List.all_map, ih]
    congr 2
    funext y
    simp [sidLe, hf]

theorem all_sid_map (P : Nat → Bool) (f : DNode → DNode) (hf : ∀ n, (f n).sid = n.sid) (ks : List DNode) :
    (ks.map f).all (fun c => P c.sid) = ks.all (fun c => P c.sid) := by
  rw [List.all_map]
  congr 1
  funext c
  simp [hf]

mutual
theorem lvlOk_relabel (S : Schema) (ff : Flags → Flags) (fm : List Meta → List Meta) :
    ∀ n : DNode, lvlOk S (relabel ff fm n) = lvlOk S n
  | .term .. => by simp [relabel, lvlOk]
  | .inner s f m ks => by
    have ih := lvlOkL_relabel S ff fm ks
    simp only [relabel, lvlOk, ih]
    rw [relabelL_eq_map, sidSorted_map _ (sid_relabel ff fm),
      all_sid_map (keyQ S (s + listKeys S s)) _ (sid_relabel ff fm)]
theorem lvlOkL_relabel (S : Schema) (ff : Flags → Flags) (fm : List Meta → List Meta) :
    ∀ l : List DNode, lvlOkL S (relabelL ff fm l) = lvlOkL S l
  | [] => by simp [relabelL]
  | n :: ns => by simp [relabelL, lvlOkL, lvlOk_relabel S ff fm n, lvlOkL_relabel S ff fm ns]
end

theorem lvlOk_setFlags (S : Schema) (f : Flags) (n : DNode) : lvlOk S (n.setFlags f) = lvlOk S n := by
  cases n <;> simp [DNode.setFlags, lvlOk]

theorem lvlOk_setVal (S : Schema) (v : Bytes) (n : DNode) : lvlOk S (n.setVal v) = lvlOk S n := by
  cases n <;> simp [DNode.setVal, lvlOk]

theorem lvlOk_setDflt (S : Schema) (b : Bool) (n : DNode) : lvlOk S (n.setDflt b) = lvlOk S n := by
  simp [DNode.setDflt, lvlOk_setFlags]

theorem lvlOkL_set (S : Schema) (l : List DNode) (i : Nat) (t' : DNode) (h : lvlOkL S l = true) (ht : lvlOk S t' = true) :
    lvlOkL S (l.set i t') = true := by
  rw [lvlOkL_iff] at h ⊢
  intro n hn
  rcases List.mem_or_eq_of_mem_set hn with hn | rfl
  · exact h n hn
  · exact ht

theorem lvlOkL_insertNode (S : Schema) (l : List DNode) (z : DNode) (h : lvlOkL S l = true) (hz : lvlOk S z = true) :
    lvlOkL S (insertNode S l z) = true := by
  obtain ⟨a, b, h1, h2⟩ := insertNode_shape S l z
  rw [h2]
  rw [h1, lvlOkL_iff] at h
  rw [lvlOkL_iff]
  intro n hn
  rcases List.mem_append.1 hn with hn | hn
  · exact h n (List.mem_append_left _ hn)
  · rcases List.mem_cons.1 hn with rfl | hn
    · exact hz
    · exact h n (List.mem_append_right _ hn)

/-- under consistent flags the linked node is the relabelled source node -/
theorem insNode_eq_cp (S : Schema) (o : MergeOpts) (x : DNode) (h : flagsOk x = true) : insNode S o x = cp o x := by
  have hx : (if o.destruct then x else dupNode S DupOpts.full x) = x := by
    split <;> simp [dupNode_full S x h]
  simp only [insNode, hx, cp, cpFlags]
  split
  · simp [relabel_id]
  · simp [setNew_eq_relabel]

theorem procList_subset (S : Schema) (ld : Bool) (l : List DNode) : ∀ c ∈ procList S ld l, c ∈ l := by
  intro c hc
  simp only [procList] at hc
  split at hc
  · exact (List.dropWhile_suffix _).subset hc
  · exact hc

mutual
theorem lvlOk_mergeNode (S : Schema) (o : MergeOpts) : ∀ (x : DNode) (ctx : List Ctx) (st : St), lvlOk S x = true →
    flagsOk x = true → lvlOkL S st.cur = true → lvlOkL S (mergeNode S o ctx x st).cur = true
  | .term ss sf sm sv, ctx, st, hx, hf, hc => by
    simp only [mergeNode]
    split
    · rename_i i fi c hfm
      obtain ⟨t, hg, hs⟩ := findMatch_sid S st _ i fi c hfm
      simp only [hg]
      split
      · simp only [changeTerm]
        apply lvlOkL_set S _ _ _ hc
        rw [lvlOk_setFlags, lvlOk_setVal]
        exact (lvlOkL_iff S _).1 hc t (List.mem_of_getElem? hg)
      · exact hc
    · rw [insertSrc_cur, insNode_eq_cp S o _ hf]
      exact lvlOkL_insertNode S _ _ hc (by rw [cp, lvlOk_relabel]; exact hx)
  | .inner ss sf sm sks, ctx, st, hx, hf, hc => by
    simp only [mergeNode]
    split
    · rename_i i fi c hfm
      obtain ⟨t, hg, hs⟩ := findMatch_sid S st _ i fi c hfm
      simp only [hg]
      apply lvlOkL_set S _ _ _ hc
      rw [lvlOk_setDflt]
      have ht : lvlOk S t = true := (lvlOkL_iff S _).1 hc t (List.mem_of_getElem? hg)
      simp only [lvlOk, Bool.and_eq_true] at hx
      simp only [flagsOk, Bool.and_eq_true] at hf
      cases t with
      | term ts tf tm tv => simpa [DNode.setKids] using ht
      | inner ts tf tm tk =>
        have e : ts = ss := hs
        subst e
        simp only [lvlOk, Bool.and_eq_true] at ht
        simp only [DNode.setKids, lvlOk, Bool.and_eq_true, DNode.kids, DNode.flags]
        have hlev := level_mergeKids S o
          ({ np := S.isNpCont (DNode.inner ts tf tm tk).sid, others := allDfltExcept st.cur i } :: ctx)
          (keyQ S (ts + listKeys S ts)) sks true
          { cur := tk, cache := [], anc := tf.dflt :: st.anc } ht.1.1.2 (by simpa using ht.1.2)
          (fun c hc' => by
            have := procList_subset S true sks c hc'
            have hall := hx.1.2
            simp only [List.all_eq_true] at hall
            exact hall c this)
        refine ⟨⟨⟨ht.1.1.1, hlev.1⟩, by simpa using hlev.2⟩, ?_⟩
        exact lvlOk_mergeKids S o sks _ true _ hx.2 hf.2 ht.2
    · rw [insertSrc_cur, insNode_eq_cp S o _ hf]
      exact lvlOkL_insertNode S _ _ hc (by rw [cp, lvlOk_relabel]; exact hx)
theorem lvlOk_mergeKids (S : Schema) (o : MergeOpts) : ∀ (l : List DNode) (ctx : List Ctx) (ld : Bool) (st : St),
    lvlOkL S l = true → flagsOkL l = true → lvlOkL S st.cur = true → lvlOkL S (mergeKids S o ctx ld l st).cur = true
  | [], _, _, _, _, _, hc => by simpa [mergeKids] using hc
  | c :: cs, ctx, ld, st, hl, hf, hc => by
    simp only [lvlOkL, Bool.and_eq_true] at hl
    simp only [flagsOkL, Bool.and_eq_true] at hf
    simp only [mergeKids]
    split
    · exact lvlOk_mergeKids S o cs ctx true st hl.2 hf.2 hc
    · exact lvlOk_mergeKids S o cs ctx false _ hl.2 hf.2 (lvlOk_mergeNode S o c ctx st hl.1 hf.1 hc)
end

end LyModel.Merge
