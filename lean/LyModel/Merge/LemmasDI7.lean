import LyModel.Merge.LemmasDI6
/-!
# What a merge step does to the node found for another source node: `Keeps` (the `k`-th match of `x` has a property,
  and — `x` a duplicate-instance node — the cache will not hand that match out again) is kept by every later step
-/
namespace LyModel.Merge
open LyModel LyModel.Tree

/-! ## `dupLookup`, computed -/

theorem dupLookup_zero (S : Schema) (st : St) (y : DNode) (h0 : st.cur.countP (matchP S y) = 0) :
    dupLookup S st y = (none, cacheSet st.cache y (1, 1)) := by
  simp [dupLookup, h0]

theorem dupLookup_of_none (S : Schema) (st : St) (y : DNode) (h0 : st.cur.countP (matchP S y) ≠ 0)
    (hg : cacheGet st.cache y = none) :
    dupLookup S st y = (some 0, cacheSet st.cache y (1, st.cur.countP (matchP S y))) := by
  have h1 : ¬ (0 = st.cur.countP (matchP S y)) := fun h => h0 h.symm
  have h2 : 0 < st.cur.countP (matchP S y) := by omega
  simp [dupLookup, h0, hg, h1, h2]

theorem dupLookup_of_get (S : Schema) (st : St) (y : DNode) (u N : Nat) (h0 : st.cur.countP (matchP S y) ≠ 0)
    (hg : cacheGet st.cache y = some (u, N)) :
    dupLookup S st y = if u = N then (none, st.cache)
      else (if u < st.cur.countP (matchP S y) then some u else none, cacheSet st.cache y (u + 1, N)) := by
  simp [dupLookup, h0, hg]

theorem dupLookup_cache_other (S : Schema) (st : St) (y x : DNode) (he : eqContent y x = false) :
    cacheGet (dupLookup S st y).2 x = cacheGet st.cache x := by
  simp only [dupLookup]
  split
  · exact cacheGet_cacheSet_other y x _ he _
  · split
    · rfl
    · exact cacheGet_cacheSet_other y x _ he _

theorem StepD.cache {S : Schema} {o : MergeOpts} {y : DNode} {st st' : St} (hs : StepD S o y st st') :
    (S.isDupInst y.sid = false → st'.cache = st.cache) ∧
    (S.isDupInst y.sid = true → st'.cache = (dupLookup S st y).2) := by
  cases hs with
  | ins c d h1 h2 h3 h4 h5 => exact ⟨fun h => (h4 h).2, fun h => by rw [h5 h]⟩
  | set a t b t' h1 h2 h3 h4 h5 h6 h7 => exact ⟨fun h => (h6 h).2, fun h => by rw [h7 h]⟩

/-! ## a step by a source node that `x` does not match -/

theorem stepD_other (S : Schema) (o : MergeOpts) (x y : DNode) (st st' : St) (k : Nat) (Φ : DNode → Prop)
    (hs : StepD S o y st st') (hxy : matchP S x y = false)
    (hl : S.isDupInst x.sid = false → lvlOk S x = true ∧ lvlOk S y = true) :
    (AbsK (matchP S x) k st.cur Φ → AbsK (matchP S x) k st'.cur Φ) ∧
      st'.cur.countP (matchP S x) = st.cur.countP (matchP S x) := by
  cases hs with
  | ins c d h1 h2 h3 h4 h5 =>
    have hz : matchP S x (cp o y) = false := by rw [cp, matchP_relabel_right]; exact hxy
    rw [h1, h2]
    exact ⟨fun h => h.insert_false c d _ hz, by rw [countP_insert]; simp [hz]⟩
  | set a t b t' h1 h2 hm hinv h5 h6 h7 =>
    have hpt : matchP S x t = false := by
      cases hpt : matchP S x t with
      | false => rfl
      | true =>
        exfalso
        have e : x.sid = y.sid := by rw [← matchP_sid hpt, matchP_sid hm]
        cases hdx : S.isDupInst x.sid with
        | true =>
          have hdy : S.isDupInst y.sid = true := by rw [← e]; exact hdx
          rw [matchP_dup S x t hdx] at hpt
          rw [matchP_dup S y t hdy] at hm
          rw [matchP_dup S x y hdx, eqContent_trans (eqContent_symm hm) hpt] at hxy
          exact absurd hxy (by simp)
        | false =>
          obtain ⟨hlx, hly⟩ := hl hdx
          have := matchP_trans hpt hm hdx (sameShape hlx hly e)
          rw [this] at hxy
          exact absurd hxy (by simp)
    rw [h1, h2]
    refine ⟨fun h => h.replace_other a b t t' (hinv x) (fun h' => ?_), countP_replace _ a b t t' (hinv x)⟩
    rw [hpt] at h'
    exact absurd h' (by simp)

/-! ## a step by a source node equal to the duplicate-instance node `x` -/

theorem stepD_class (S : Schema) (o : MergeOpts) (x y : DNode) (st st' : St) (k : Nat) (Φ : DNode → Prop)
    (hs : StepD S o y st st') (hdy : S.isDupInst y.sid = true) (he : eqContent y x = true)
    (hk : (dupLookup S st y).1 ≠ some k) (h : AbsK (matchP S x) k st.cur Φ) : AbsK (matchP S x) k st'.cur Φ := by
  have hp : matchP S x = matchP S y := matchP_class S hdy he
  rw [hp] at h ⊢
  cases hs with
  | ins c d h1 h2 h3 h4 h5 =>
    rw [h1] at h
    rw [h2]
    exact h.insert_after c d _ h3
  | set a t b t' h1 h2 hm hinv h5 h6 h7 =>
    rw [h1] at h
    rw [h2]
    refine h.replace_other a b t t' (hinv y) (fun _ hr => ?_)
    rw [h7 hdy] at hk
    exact hk (by rw [hr])

/-! ## `Keeps` -/

def Keeps (S : Schema) (x : DNode) (k : Nat) (st : St) (Φ : DNode → Prop) : Prop :=
  AbsK (matchP S x) k st.cur Φ ∧
    (S.isDupInst x.sid = true → ∃ u N, cacheGet st.cache x = some (u, N) ∧ (k < u ∨ u = N))

theorem keeps_step (S : Schema) (o : MergeOpts) (x y : DNode) (st st' : St) (k : Nat) (Φ : DNode → Prop)
    (hs : StepD S o y st st') (hk : Keeps S x k st Φ) (hxy : S.isDupInst x.sid = false → matchP S x y = false)
    (hl : S.isDupInst x.sid = false → lvlOk S x = true ∧ lvlOk S y = true) : Keeps S x k st' Φ := by
  cases hdx : S.isDupInst x.sid with
  | false =>
    refine ⟨(stepD_other S o x y st st' k Φ hs (hxy hdx) hl).1 hk.1, fun h => ?_⟩
    rw [hdx] at h
    exact absurd h (by simp)
  | true =>
    obtain ⟨u, N, hg, hor⟩ := hk.2 hdx
    cases he : eqContent y x with
    | false =>
      have hxy' : matchP S x y = false := by rw [matchP_dup S x y hdx]; exact he
      refine ⟨(stepD_other S o x y st st' k Φ hs hxy' hl).1 hk.1, fun _ => ⟨u, N, ?_, hor⟩⟩
      cases hdy : S.isDupInst y.sid with
      | false => rw [hs.cache.1 hdy]; exact hg
      | true => rw [hs.cache.2 hdy, dupLookup_cache_other S st y x he]; exact hg
    | true =>
      have hdy : S.isDupInst y.sid = true := by rw [eqContent_sid he]; exact hdx
      have hgy : cacheGet st.cache y = some (u, N) := by
        rw [cacheGet_congr st.cache ((eqContent_iff y x).1 he)]; exact hg
      have hp : matchP S x = matchP S y := matchP_class S hdy he
      have hT : k < st.cur.countP (matchP S y) := by rw [← hp]; exact hk.1.lt_count
      have hlk := dupLookup_of_get S st y u N (by omega) hgy
      by_cases huN : u = N
      · simp only [huN, if_true] at hlk
        refine ⟨stepD_class S o x y st st' k Φ hs hdy he (by rw [hlk]; simp) hk.1, fun _ => ⟨u, N, ?_, hor⟩⟩
        rw [hs.cache.2 hdy, hlk]
        exact hg
      · simp only [huN, if_false] at hlk
        have hku : k < u := by
          rcases hor with h | h
          · exact h
          · exact absurd h huN
        refine ⟨stepD_class S o x y st st' k Φ hs hdy he ?_ hk.1, fun _ => ⟨u + 1, N, ?_, Or.inl (by omega)⟩⟩
        · rw [hlk]
          simp only
          split
          · intro h
            have := Option.some.inj h
            omega
          · simp
        · rw [hs.cache.2 hdy, hlk]
          exact cacheGet_cacheSet_same y x _ he _

theorem keeps_run (S : Schema) (o : MergeOpts) (p : Option Nat) (x : DNode) (k : Nat) (Φ : DNode → Prop)
    (hlx : lvlOk S x = true) : ∀ (cs : List DNode) (ctx : List Ctx) (ld : Bool) (st : St), Keeps S x k st Φ →
    (S.isDupInst x.sid = false → ∀ y ∈ cs, matchP S x y = false) → (∀ y ∈ cs, SrcC S p y) → Can S p st.cur →
    Keeps S x k (mergeKids S o ctx ld cs st) Φ
  | [], _, _, _, hk, _, _, _ => by simpa [mergeKids] using hk
  | c :: cs, ctx, ld, st, hk, hm, hs, hc => by
    simp only [mergeKids]
    split
    · exact keeps_run S o p x k Φ hlx cs ctx true st hk (fun h y hy => hm h y (by simp [hy]))
        (fun y hy => hs y (by simp [hy])) hc
    · have hsc := hs c (by simp)
      have hstep := mergeNode_stepD S o ctx p c st hsc hc
      exact keeps_run S o p x k Φ hlx cs ctx false _
        (keeps_step S o x c st _ k Φ hstep hk (fun h => hm h c (by simp))
          (fun _ => ⟨hlx, lvlOk_of_wf S p c hsc.1 hsc.2.1⟩))
        (fun h y hy => hm h y (by simp [hy])) (fun y hy => hs y (by simp [hy]))
        (can_mergeNode S o c p ctx st hsc hc)

end LyModel.Merge
