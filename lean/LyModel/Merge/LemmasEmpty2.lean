import LyModel.Merge.LemmasEmpty
/-!
# Merging into the empty target copies the source: the induction
-/
namespace LyModel.Merge
open LyModel LyModel.Tree

/-- the prefix `pre` of the source siblings has been copied into the (initially empty) target level -/
structure EInv (S : Schema) (o : MergeOpts) (pre : List DNode) (st : St) : Prop where
  cur : st.cur = pre.map (cp o)
  cache : ∀ y ∈ pre, S.isDupInst y.sid = true → cacheGet st.cache y = some (1, 1)

theorem strip_cp (o : MergeOpts) (x : DNode) : strip (cp o x) = strip x := strip_relabel _ _ x

theorem instMatch_dup (S : Schema) (x y : DNode) (hd : S.isDupInst x.sid = true) :
    instMatch S x y = (y.sid == x.sid && eqContent y x) := by
  simp [instMatch, hd]

theorem instMatch_nodup (S : Schema) (x y : DNode) (hd : S.isDupInst x.sid = false) :
    instMatch S x y = (y.sid == x.sid &&
      (if x.isTerm then y.isTerm && y.val == x.val else keysEq (keysOf S y.kids) (keysOf S x.kids))) := by
  simp [instMatch, hd]

theorem instMatch_sid {S : Schema} {x y : DNode} (h : instMatch S x y = true) : y.sid = x.sid := by
  simp only [instMatch, Bool.and_eq_true, beq_iff_eq] at h
  exact h.1

/-- the lookup for the next source sibling finds nothing usable in the copied prefix -/
theorem findMatch_empty (S : Schema) (o : MergeOpts) (pre : List DNode) (st : St) (x : DNode)
    (inv : EInv S o pre st) (hok : ∀ y ∈ pre, okPair S y x = true) :
    (findMatch S st x = (none, true, st.cache) ∧ (S.isDupInst x.sid = true → ∀ y ∈ pre, eqContent x y = false)) ∨
    (findMatch S st x = (none, false, st.cache) ∧ S.isDupInst x.sid = true ∧ ∃ y ∈ pre, eqContent y x = true) := by
  have hcur := inv.cur
  cases hlk : (S.isKind x.sid .list || S.isKind x.sid .leaflist) with
  | false =>
    have hnd : S.isDupInst x.sid = false := by
      cases hd : S.isDupInst x.sid with
      | false => rfl
      | true => rw [isDupInst_listKind S _ hd] at hlk; exact absurd hlk (by simp)
    have hnone : firstIdx (fun y => y.sid == x.sid) st.cur = none := by
      apply firstIdx_none
      intro y' hy'
      rw [hcur] at hy'
      obtain ⟨y, hy, rfl⟩ := List.mem_map.1 hy'
      cases hs : ((cp o y).sid == x.sid) with
      | false => rfl
      | true =>
        have e : y.sid = x.sid := by simpa [cp] using hs
        have := okPair_distinct (hok y hy) e
        simp only [distinctInst, e, hnd, hlk] at this
        simp at this
    left
    refine ⟨?_, fun h => by rw [hnd] at h; exact absurd h (by simp)⟩
    simp only [findMatch, hlk, hnone]
    simp
  | true =>
    cases hd : S.isDupInst x.sid with
    | false =>
      have hnone : firstIdx (instMatch S x) st.cur = none := by
        apply firstIdx_none
        intro y' hy'
        rw [hcur] at hy'
        obtain ⟨y, hy, rfl⟩ := List.mem_map.1 hy'
        cases hm : instMatch S x (cp o y) with
        | false => rfl
        | true =>
          have hm' : instMatch S x y = true := by rwa [cp, instMatch_relabel_right] at hm
          have e : y.sid = x.sid := instMatch_sid hm'
          have := okPair_distinct (hok y hy) e
          simp only [distinctInst, e, hd, hlk, hm'] at this
          simp at this
      left
      refine ⟨?_, fun h => absurd h (by simp)⟩
      simp only [findMatch, hlk, hnone]
      simp
    | true =>
      rcases firstIdx_eq_none_or (instMatch S x) st.cur with hnone | ⟨j, y', hj, hget, hm⟩
      · left
        refine ⟨by simp only [findMatch, hlk, hnone]; simp, fun _ y hy => ?_⟩
        cases he : eqContent x y with
        | false => rfl
        | true =>
          have hmem : cp o y ∈ st.cur := by rw [hcur]; exact List.mem_map_of_mem hy
          have : instMatch S x (cp o y) = true := by
            rw [cp, instMatch_relabel_right, instMatch_dup S x y hd]
            simp [eqContent_sid (eqContent_symm he), eqContent_symm he]
          have h0 : ∀ z ∈ st.cur, instMatch S x z = false := by
            intro z hz
            cases hz' : instMatch S x z with
            | false => rfl
            | true =>
              have := nthIdx_none (instMatch S x) st.cur 0 0
              -- firstIdx is none, so no element matches
              exfalso
              have hne : ∀ l : List DNode, ∀ i, nthIdx (instMatch S x) l 0 i = none → ∀ w ∈ l, instMatch S x w = false := by
                intro l
                induction l with
                | nil => intro _ _ w hw; simp at hw
                | cons a as ih =>
                  intro i hn w hw
                  simp only [nthIdx] at hn
                  split at hn
                  · simp at hn
                  · rename_i ha
                    rcases List.mem_cons.1 hw with rfl | hw'
                    · simpa using ha
                    · exact ih (i + 1) hn w hw'
              have := hne st.cur 0 hnone z hz
              rw [this] at hz'
              exact absurd hz' (by simp)
          rw [h0 _ hmem] at this
          exact absurd this (by simp)
      · right
        have hy'mem : y' ∈ st.cur := List.mem_of_getElem? hget
        rw [hcur] at hy'mem
        obtain ⟨y, hy, rfl⟩ := List.mem_map.1 hy'mem
        have hm' : instMatch S x y = true := by rwa [cp, instMatch_relabel_right] at hm
        rw [instMatch_dup S x y hd] at hm'
        simp only [Bool.and_eq_true, beq_iff_eq] at hm'
        have hyd : S.isDupInst y.sid = true := by rw [hm'.1]; exact hd
        have hc : cacheGet st.cache x = some (1, 1) := by
          rw [cacheGet_congr st.cache ((eqContent_iff x y).1 (eqContent_symm hm'.2))]
          exact inv.cache y hy hyd
        refine ⟨?_, rfl, y, hy, hm'.2⟩
        simp only [findMatch, hlk, hj, hd, hc]
        simp

theorem mergeNode_empty_step (S : Schema) (o : MergeOpts) (ctx : List Ctx) (pre : List DNode) (st : St) (x : DNode)
    (inv : EInv S o pre st) (hok : ∀ y ∈ pre, okPair S y x = true) (hf : flagsOk x = true) :
    EInv S o (pre ++ [x]) (mergeNode S o ctx x st) := by
  have happ : insertNode S st.cur (cp o x) = (pre ++ [x]).map (cp o) := by
    rw [inv.cur, List.map_append, List.map_cons, List.map_nil]
    apply insertNode_append
    intro y' hy'
    obtain ⟨y, hy, rfl⟩ := List.mem_map.1 hy'
    refine ⟨by simpa [cp] using okPair_le (hok y hy), fun e hs => ?_⟩
    have e' : y.sid = x.sid := by simpa [cp] using e
    have hs' : S.isSorted x.sid = true := by simpa [cp] using hs
    rw [cp, cp, cmpInst_relabel]
    exact okPair_sorted (hok y hy) e' hs'
  rcases findMatch_empty S o pre st x inv hok with ⟨hfm, hfresh⟩ | ⟨hfm, hd, y, hy, he⟩
  · rw [mergeNode_of_none S o ctx x st _ _ hfm, insertSrc_eq S o st _ _ x hf]
    refine ⟨happ, ?_⟩
    intro z hz hzd
    simp only [Bool.true_and]
    cases hd : S.isDupInst x.sid with
    | false =>
      simp only [Bool.false_eq_true, if_false]
      rcases List.mem_append.1 hz with hz | hz
      · exact inv.cache z hz hzd
      · simp only [List.mem_singleton] at hz; subst hz; rw [hd] at hzd; exact absurd hzd (by simp)
    | true =>
      simp only [if_true]
      rcases List.mem_append.1 hz with hz | hz
      · rw [cacheGet_cacheSet_other x z _ (hfresh hd z hz)]
        exact inv.cache z hz hzd
      · simp only [List.mem_singleton] at hz; subst hz
        exact cacheGet_cacheSet_same z z _ (eqContent_refl z) _
  · rw [mergeNode_of_none S o ctx x st _ _ hfm, insertSrc_eq S o st _ _ x hf]
    refine ⟨happ, ?_⟩
    intro z hz hzd
    simp only [Bool.false_and, Bool.false_eq_true, if_false]
    rcases List.mem_append.1 hz with hz | hz
    · exact inv.cache z hz hzd
    · simp only [List.mem_singleton] at hz; subst hz
      have hyd : S.isDupInst y.sid = true := by rw [eqContent_sid he]; exact hd
      rw [cacheGet_congr st.cache ((eqContent_iff z y).1 (eqContent_symm he))]
      exact inv.cache y hy hyd

theorem pairwiseB_cons {α : Type} (r : α → α → Bool) (x : α) (xs : List α) :
    pairwiseB r (x :: xs) = true ↔ (∀ y ∈ xs, r x y = true) ∧ pairwiseB r xs = true := by
  simp [pairwiseB]

theorem mergeKids_empty_aux (S : Schema) (o : MergeOpts) (ctx : List Ctx) :
    ∀ (rest pre : List DNode) (st : St), EInv S o pre st → (∀ x ∈ rest, ∀ y ∈ pre, okPair S y x = true) →
      pairwiseB (okPair S) rest = true → flagsOkL rest = true →
      (mergeKids S o ctx false rest st).cur = (pre ++ rest).map (cp o)
  | [], pre, st, inv, _, _, _ => by simp [mergeKids, inv.cur]
  | x :: rest, pre, st, inv, hpre, hpw, hf => by
    simp only [flagsOkL, Bool.and_eq_true] at hf
    rw [pairwiseB_cons] at hpw
    simp only [mergeKids, Bool.false_and, Bool.false_eq_true, if_false]
    have step := mergeNode_empty_step S o ctx pre st x inv (hpre x (by simp)) hf.1
    have := mergeKids_empty_aux S o ctx rest (pre ++ [x]) _ step
      (by
        intro z hz y hy
        rcases List.mem_append.1 hy with hy | hy
        · exact hpre z (by simp [hz]) y hy
        · simp only [List.mem_singleton] at hy; subst hy; exact hpw.1 z hz)
      hpw.2 hf.2
    simpa using this

end LyModel.Merge
