import LyModel.Merge.LemmasDI7
/-!
# After a merge every source node is absorbed in the result — duplicate-instance nodes included

The cache invariant of the first merge (`CacheInv1`): for a class of equal instances of which `P` source instances have
been processed, the cache entry is `(min P N, N)` and the target holds `max P N` instances, `N ≥ 1` the number of
target instances when the class was first looked up (1 if there was none).  So the `P`-th source instance (from 0) is
matched with, or linked as, the `P`-th target instance of the class (`stepD_rank`) — which is what `AbsD` asks for.
-/
namespace LyModel.Merge
open LyModel LyModel.Tree

def CacheInv1 (S : Schema) (cache : Cache) (pre cur : List DNode) : Prop :=
  ∀ x, S.isDupInst x.sid = true →
    (rkc x pre = 0 ∧ cacheGet cache x = none) ∨
    (∃ u N, cacheGet cache x = some (u, N) ∧ 1 ≤ rkc x pre ∧ 1 ≤ N ∧
      ((rkc x pre ≤ N ∧ u = rkc x pre ∧ cur.countP (matchP S x) = N) ∨
       (N ≤ rkc x pre ∧ u = N ∧ cur.countP (matchP S x) = rkc x pre)))

theorem cacheInv1_nil (S : Schema) (cur : List DNode) : CacheInv1 S [] [] cur :=
  fun _ _ => Or.inl ⟨rfl, rfl⟩

/-- the entry of `y`'s class after `y` has been processed; `T'` the number of equal target nodes then -/
def NewEntry (cache' : Cache) (y : DNode) (P T' : Nat) : Prop :=
  ∃ u N, cacheGet cache' y = some (u, N) ∧ 1 ≤ N ∧
    ((P + 1 ≤ N ∧ u = P + 1 ∧ T' = N) ∨ (N ≤ P + 1 ∧ u = N ∧ T' = P + 1))

theorem dupLookup_inv1 (S : Schema) (st : St) (y : DNode) (pre : List DNode) (hd : S.isDupInst y.sid = true)
    (hinv : CacheInv1 S st.cache pre st.cur) :
    ((dupLookup S st y).1 = none ∧ st.cur.countP (matchP S y) = rkc y pre ∧
      NewEntry (dupLookup S st y).2 y (rkc y pre) (st.cur.countP (matchP S y) + 1)) ∨
    ((dupLookup S st y).1 = some (rkc y pre) ∧
      NewEntry (dupLookup S st y).2 y (rkc y pre) (st.cur.countP (matchP S y))) := by
  rcases hinv y hd with ⟨hP, hg⟩ | ⟨u, N, hg, hP1, hN1, hcase⟩
  · by_cases h0 : st.cur.countP (matchP S y) = 0
    · left
      rw [dupLookup_zero S st y h0]
      refine ⟨rfl, by omega, 1, 1, cacheGet_cacheSet_same y y _ (eqContent_refl y) _, by omega, ?_⟩
      left; omega
    · right
      rw [dupLookup_of_none S st y h0 hg]
      refine ⟨by rw [hP], _, _, cacheGet_cacheSet_same y y _ (eqContent_refl y) _, by omega, ?_⟩
      left; omega
  · have h0 : st.cur.countP (matchP S y) ≠ 0 := by
      rcases hcase with ⟨_, _, h⟩ | ⟨_, _, h⟩ <;> omega
    rw [dupLookup_of_get S st y u N h0 hg]
    rcases hcase with ⟨hle, hu, hT⟩ | ⟨hle, hu, hT⟩
    · by_cases hPN : rkc y pre = N
      · left
        have huN : u = N := by omega
        simp only [huN, if_true]
        refine ⟨trivial, by omega, N, N, by rw [hg, huN], hN1, ?_⟩
        right; omega
      · right
        have huN : ¬ u = N := by omega
        have hlt : u < st.cur.countP (matchP S y) := by omega
        simp only [huN, if_false, hlt, if_true]
        refine ⟨by rw [hu], u + 1, N, cacheGet_cacheSet_same y y _ (eqContent_refl y) _, hN1, ?_⟩
        left; omega
    · left
      simp only [hu, if_true]
      refine ⟨trivial, by omega, N, N, by rw [hg, hu], hN1, ?_⟩
      right; omega

/-- where the step finds / puts the node for `y`: at the position `rk S y pre` among the matches -/
theorem stepD_rank (S : Schema) (o : MergeOpts) (y : DNode) (st st' : St) (pre : List DNode) (hs : StepD S o y st st')
    (hinv : CacheInv1 S st.cache pre st.cur) :
    AbsK (matchP S y) (rk S y pre) st'.cur
      (fun t' => (t' = cp o y ∨ ∃ t, t ∈ st.cur ∧ t.sid = y.sid ∧ subOf S o y t t')) := by
  cases hs with
  | ins c d h1 h2 h3 h4 h5 =>
    have hr : (c ++ d).countP (matchP S y) = rk S y pre := by
      rw [← h1]
      simp only [rk]
      split
      · rename_i hd
        rcases dupLookup_inv1 S st y pre hd hinv with ⟨_, h, _⟩ | ⟨h, _⟩
        · exact h
        · rw [h5 hd] at h; exact absurd h (by simp)
      · rename_i hd
        exact (h4 (by simpa using hd)).1
    rw [h2, ← hr]
    exact AbsK.inserted c d _ (by rw [cp, matchP_relabel_right]; exact matchP_refl S y) h3 (Or.inl rfl)
  | set a t b t' h1 h2 hm hinvt hsub h6 h7 =>
    have hr : a.countP (matchP S y) = rk S y pre := by
      simp only [rk]
      split
      · rename_i hd
        rcases dupLookup_inv1 S st y pre hd hinv with ⟨h, _⟩ | ⟨h, _⟩
        · rw [h7 hd] at h; exact absurd h (by simp)
        · rw [h7 hd] at h; exact Option.some.inj h
      · rename_i hd
        exact (h6 (by simpa using hd)).1
    rw [h2, ← hr]
    exact AbsK.replace_self a b t' (by rw [hinvt]; exact hm) (Or.inr ⟨t, by rw [h1]; simp, matchP_sid hm, hsub⟩)

/-- the cache invariant is kept by a step -/
theorem inv1_step (S : Schema) (o : MergeOpts) (y : DNode) (st st' : St) (pre : List DNode) (hs : StepD S o y st st')
    (hinv : CacheInv1 S st.cache pre st.cur) : CacheInv1 S st'.cache (y :: pre) st'.cur := by
  intro x hdx
  cases he : eqContent y x with
  | false =>
    have hxy : matchP S x y = false := by rw [matchP_dup S x y hdx]; exact he
    have hcnt := (stepD_other S o x y st st' 0 (fun _ => True) hs hxy
      (fun h => by rw [hdx] at h; exact absurd h (by simp))).2
    have hcache : cacheGet st'.cache x = cacheGet st.cache x := by
      cases hdy : S.isDupInst y.sid with
      | false => rw [hs.cache.1 hdy]
      | true => rw [hs.cache.2 hdy, dupLookup_cache_other S st y x he]
    have hrk : rkc x (y :: pre) = rkc x pre := by rw [rkc_cons, he]; simp
    rw [hrk, hcnt, hcache]
    exact hinv x hdx
  | true =>
    have hdy : S.isDupInst y.sid = true := by rw [eqContent_sid he]; exact hdx
    have hp : matchP S x = matchP S y := matchP_class S hdy he
    have hrk : rkc x (y :: pre) = rkc y pre + 1 := by
      rw [rkc_class he, rkc_cons, eqContent_refl]; simp
    have hcache : cacheGet st'.cache x = cacheGet (dupLookup S st y).2 y := by
      rw [hs.cache.2 hdy, cacheGet_congr _ ((eqContent_iff y x).1 he)]
    right
    rw [hrk, hp, hcache]
    have key : NewEntry (dupLookup S st y).2 y (rkc y pre) (st'.cur.countP (matchP S y)) := by
      cases hs with
      | ins c d h1 h2 h3 h4 h5 =>
        have hz : matchP S y (cp o y) = true := by rw [cp, matchP_relabel_right]; exact matchP_refl S y
        have hT : st'.cur.countP (matchP S y) = st.cur.countP (matchP S y) + 1 := by
          rw [h2, h1, countP_insert]; simp [hz]
        rw [hT]
        rcases dupLookup_inv1 S st y pre hdy hinv with ⟨_, _, h⟩ | ⟨h, _⟩
        · exact h
        · rw [h5 hdy] at h; exact absurd h (by simp)
      | set a t b t' h1 h2 hm hinvt hsub h6 h7 =>
        have hT : st'.cur.countP (matchP S y) = st.cur.countP (matchP S y) := by
          rw [h2, h1]; exact countP_replace _ a b t t' (hinvt y)
        rw [hT]
        rcases dupLookup_inv1 S st y pre hdy hinv with ⟨h, _⟩ | ⟨_, h⟩
        · rw [h7 hdy] at h; exact absurd h (by simp)
        · exact h
    obtain ⟨u, N, h1, h2, h3⟩ := key
    exact ⟨u, N, h1, by omega, h2, h3⟩

/-- a copy absorbs the children of its original -/
theorem absΦD_cp (S : Schema) (o : MergeOpts) (y : DNode) (hy : SrcD S y) : absΦD S o y (cp o y) := by
  have h := cp_absorbsD S o y [] [] [] hy (by simp [rk, rkc_nil])
  rw [absD_eq] at h
  obtain ⟨a, t, b, e, _, _, hΦ⟩ := h
  cases a with
  | nil =>
    simp only [List.nil_append, List.cons.injEq] at e
    rw [← e.1] at hΦ
    exact hΦ
  | cons a0 as =>
    simp at e

/-! ## the induction -/

theorem can_kids {S : Schema} {p : Option Nat} {cur : List DNode} {t : DNode} (hc : Can S p cur) (ht : t ∈ cur) :
    Can S (some t.sid) t.kids := by
  have hts : shapeNode S p t = true := (shapeAll_iff S p _).1 hc.1 t ht
  have hto : ordNode S t = true := (ordAll_iff S _).1 hc.2.2 t ht
  cases t with
  | term => exact ⟨rfl, rfl, rfl⟩
  | inner ts tf tm tk =>
    simp only [shapeNode, Bool.and_eq_true] at hts
    simp only [ordNode, Bool.and_eq_true] at hto
    exact ⟨hts.2, hto.1, hto.2⟩

mutual
theorem mergeNode_absorbsD (S : Schema) (o : MergeOpts) : ∀ (x : DNode) (p : Option Nat) (ctx : List Ctx) (st : St)
    (pre : List DNode), SrcC S p x → Can S p st.cur → CacheInv1 S st.cache pre st.cur →
    AbsD S o x pre (mergeNode S o ctx x st).cur
  | .term ss sf sm sv, p, ctx, st, pre, hx, hc, hinv => by
    have hstep := mergeNode_stepD S o ctx p _ st hx hc
    rw [absD_eq]
    apply (stepD_rank S o _ st _ pre hstep hinv).mono
    intro t' h
    rcases h with rfl | ⟨t, _, _, hsub⟩
    · exact absΦD_cp S o _ hx.srcD
    · exact hsub
  | .inner ss sf sm sks, p, ctx, st, pre, hx, hc, hinv => by
    have hstep := mergeNode_stepD S o ctx p _ st hx hc
    rw [absD_eq]
    apply (stepD_rank S o _ st _ pre hstep hinv).mono
    intro t' h
    rcases h with rfl | ⟨t, htm, hts, ctx', anc', hk⟩
    · exact absΦD_cp S o _ hx.srcD
    · show AbsDK S o true sks [] t'.kids
      rw [hk]
      have hck : Can S (some ss) t.kids := by
        have := can_kids hc htm
        rw [hts] at this
        exact this
      have hord := hx.2.1
      simp only [ordNode, Bool.and_eq_true] at hord
      exact mergeKids_absorbsD S o sks (some ss) ctx' true { cur := t.kids, cache := [], anc := anc' } [] hx.kids
        hord.1 hck (cacheInv1_nil S _)
theorem mergeKids_absorbsD (S : Schema) (o : MergeOpts) : ∀ (l : List DNode) (p : Option Nat) (ctx : List Ctx)
    (ld : Bool) (st : St) (pre : List DNode), (∀ x ∈ l, SrcC S p x) → pairwiseB (okPair S) l = true →
    Can S p st.cur → CacheInv1 S st.cache pre st.cur → AbsDK S o ld l pre (mergeKids S o ctx ld l st).cur
  | [], _, _, _, _, _, _, _, _, _ => by simp [AbsDK]
  | c :: cs, p, ctx, ld, st, pre, hs, hp, hc, hinv => by
    rw [pairwiseB_cons] at hp
    have hscs : ∀ y ∈ cs, SrcC S p y := fun y hy => hs y (by simp [hy])
    simp only [AbsDK, mergeKids]
    split
    · exact mergeKids_absorbsD S o cs p ctx true st pre hscs hp.2 hc hinv
    · have hsc := hs c (by simp)
      have hlc : lvlOk S c = true := lvlOk_of_wf S p c hsc.1 hsc.2.1
      have hstep := mergeNode_stepD S o ctx p c st hsc hc
      have habs := mergeNode_absorbsD S o c p ctx st pre hsc hc hinv
      have hinv1 := inv1_step S o c st _ pre hstep hinv
      have hc1 := can_mergeNode S o c p ctx st hsc hc
      refine ⟨?_, mergeKids_absorbsD S o cs p ctx false _ (c :: pre) hscs hp.2 hc1 hinv1⟩
      rw [absD_eq] at habs ⊢
      have hkeeps : Keeps S c (rk S c pre) (mergeNode S o ctx c st) (absΦD S o c) := by
        refine ⟨habs, fun hd => ?_⟩
        have hrk : rkc c (c :: pre) = rkc c pre + 1 := by rw [rkc_cons, eqContent_refl]; simp
        simp only [rk, hd, if_true]
        rcases hinv1 c hd with ⟨h0, _⟩ | ⟨u, N, hg, _, _, hcase⟩
        · omega
        · refine ⟨u, N, hg, ?_⟩
          rcases hcase with ⟨_, hu, _⟩ | ⟨_, hu, _⟩
          · left; omega
          · right; exact hu
      refine (keeps_run S o p c _ _ hlc cs ctx false _ hkeeps (fun hd y hy => ?_) hscs hc1).1
      cases hdy : S.isDupInst y.sid with
      | false => exact (okPair_not_match (hp.1 y hy) hdy).2
      | true =>
        apply matchP_sid_ne
        intro e
        rw [e, hd] at hdy
        exact absurd hdy (by simp)
end

end LyModel.Merge
