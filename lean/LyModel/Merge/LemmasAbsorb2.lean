import LyModel.Merge.LemmasAbsorb
/-!
# Merging an absorbed node is the identity; a copy absorbs its original
-/
namespace LyModel.Merge
open LyModel LyModel.Tree

/-! ## merging an absorbed node changes nothing -/

mutual
theorem absorbed_noop (S : Schema) (o : MergeOpts) : ∀ (x : DNode) (ctx : List Ctx) (st : St),
    noDupInst S x = true → Absorbed S o x st.cur → mergeNode S o ctx x st = st
  | .term ss sf sm sv, ctx, st, hd, ha => by
    simp only [noDupInst, Bool.not_eq_true'] at hd
    obtain ⟨i, trg, hf, hg, hc⟩ := ha
    rw [mergeNode_term_matched S o ctx ss sf sm sv st i trg hd hf hg]
    split
    · rename_i hcond
      obtain ⟨hv, hdf, hw⟩ := hc hcond
      have hne : (trg.val != sv) = false := by simp [hv]
      have hfl : ({ trg.flags with dflt := sf.dflt } : Flags) = trg.flags := by rw [← hdf]
      have hfin : (if o.withFlags = true then sf else trg.flags) = trg.flags := by
        split
        · rename_i h; exact (hw h).symm
        · rfl
      simp only [changeTerm, hne, Bool.false_eq_true, if_false, hfl, hfin, ← hdf, Bool.and_not_self, Bool.not_and_self]
      rw [← hv, setVal_self, setFlags_self, set_self _ _ _ hg]
    · rfl
  | .inner ss sf sm sks, ctx, st, hd, ha => by
    simp only [noDupInst, Bool.and_eq_true, Bool.not_eq_true'] at hd
    obtain ⟨i, trg, hf, hg, hk⟩ := ha
    rw [mergeNode_inner_matched S o ctx ss sf sm sks st i trg hd.1 hf hg]
    have := absorbedK_noop S o sks ({ np := S.isNpCont trg.sid, others := allDfltExcept st.cur i } :: ctx) true
      { cur := trg.kids, cache := [], anc := trg.flags.dflt :: st.anc } hd.2 hk
    simp only [this, List.headD_cons, List.tail_cons, setKids_self, setDflt_self, set_self _ _ _ hg]
theorem absorbedK_noop (S : Schema) (o : MergeOpts) : ∀ (l : List DNode) (ctx : List Ctx) (ld : Bool) (st : St),
    noDupInstL S l = true → AbsorbedK S o ld l st.cur → mergeKids S o ctx ld l st = st
  | [], _, _, _, _, _ => by simp [mergeKids]
  | c :: cs, ctx, ld, st, hd, ha => by
    simp only [noDupInstL, Bool.and_eq_true] at hd
    simp only [AbsorbedK] at ha
    simp only [mergeKids]
    split
    · rename_i hc
      simp only [hc, if_true] at ha
      exact absorbedK_noop S o cs ctx true st hd.2 ha
    · rename_i hc
      simp only [hc, if_false] at ha
      rw [absorbed_noop S o c ctx st hd.1 ha.1]
      exact absorbedK_noop S o cs ctx false st hd.2 ha.2
end

/-! ## distinct source siblings do not match each other -/

theorem okPair_not_match {S : Schema} {y c : DNode} (h : okPair S y c = true) (hd : S.isDupInst c.sid = false) :
    matchP S c y = false ∧ matchP S y c = false := by
  by_cases e : y.sid = c.sid
  · have hdi := okPair_distinct h e
    have hdy : S.isDupInst y.sid = false := by rw [e]; exact hd
    simp only [distinctInst, hdy, Bool.false_eq_true, if_false] at hdi
    split at hdi
    · rename_i hk
      simp only [Bool.and_eq_true, Bool.not_eq_true'] at hdi
      have hk' : (S.isKind c.sid .list || S.isKind c.sid .leaflist) = true := by rw [← e]; exact hk
      simp only [matchP, hk, hk', if_true]
      exact ⟨hdi.2, hdi.1⟩
    · simp at hdi
  · constructor
    · cases hm : matchP S c y with
      | false => rfl
      | true => exact absurd (matchP_sid hm) e
    · cases hm : matchP S y c with
      | false => rfl
      | true => exact absurd (matchP_sid hm).symm e

/-! ## a copy absorbs its original -/

theorem cpFlags_dflt (o : MergeOpts) (f : Flags) : (cpFlags o f).dflt = f.dflt := by
  simp only [cpFlags]; split <;> rfl

theorem kids_cp (o : MergeOpts) (x : DNode) : (cp o x).kids = x.kids.map (cp o) := kids_relabel _ _ x

theorem pairwiseB_tail {α : Type} (r : α → α → Bool) (x : α) (xs : List α) (h : pairwiseB r (x :: xs) = true) :
    pairwiseB r xs = true := ((pairwiseB_cons r x xs).1 h).2

mutual
theorem cp_absorbs (S : Schema) (o : MergeOpts) : ∀ (c : DNode) (a b : List DNode), ordNode S c = true →
    noDupInst S c = true → (∀ y ∈ a, matchP S c y = false) → Absorbed S o c (a ++ cp o c :: b)
  | .term ss sf sm sv, a, b, _, _, ha => by
    refine ⟨a.length, cp o (.term ss sf sm sv), firstIdx_append _ a _ b ha ?_, getElem?_append_cons _ _ _, ?_⟩
    · rw [cp, matchP_relabel_right]; exact matchP_refl S _
    · intro _
      refine ⟨by simp [cp, relabel, DNode.val], by simp [cp, relabel, DNode.flags, cpFlags_dflt], fun hw => ?_⟩
      simp [cp, relabel, cpFlags, hw, DNode.flags]
  | .inner ss sf sm sks, a, b, ho, hd, ha => by
    simp only [ordNode, Bool.and_eq_true] at ho
    simp only [noDupInst, Bool.and_eq_true] at hd
    refine ⟨a.length, cp o (.inner ss sf sm sks), firstIdx_append _ a _ b ha ?_, getElem?_append_cons _ _ _, ?_⟩
    · rw [cp, matchP_relabel_right]; exact matchP_refl S _
    · show AbsorbedK S o true sks (cp o (DNode.inner ss sf sm sks)).kids
      rw [kids_cp]
      have := cpK_absorbs S o sks [] true ho.1 (by simp) ho.2 hd.2
      simpa [DNode.kids] using this
theorem cpK_absorbs (S : Schema) (o : MergeOpts) : ∀ (rest pre : List DNode) (ld : Bool),
    pairwiseB (okPair S) rest = true → (∀ y ∈ pre, ∀ c ∈ rest, okPair S y c = true) → ordAll S rest = true →
    noDupInstL S rest = true → AbsorbedK S o ld rest ((pre ++ rest).map (cp o))
  | [], _, _, _, _, _, _ => by simp [AbsorbedK]
  | c :: cs, pre, ld, hp, hpre, ho, hd => by
    simp only [ordAll, Bool.and_eq_true] at ho
    simp only [noDupInstL, Bool.and_eq_true] at hd
    rw [pairwiseB_cons] at hp
    have hrec : ∀ ld', AbsorbedK S o ld' cs (((pre ++ [c]) ++ cs).map (cp o)) := fun ld' =>
      cpK_absorbs S o cs (pre ++ [c]) ld' hp.2
        (by
          intro y hy z hz
          rcases List.mem_append.1 hy with hy | hy
          · exact hpre y hy z (by simp [hz])
          · simp only [List.mem_singleton] at hy; subst hy; exact hp.1 z hz)
        ho.2 hd.2
    have hl : (pre ++ [c]) ++ cs = pre ++ c :: cs := by simp
    simp only [AbsorbedK]
    split
    · rw [← hl]; exact hrec true
    · refine ⟨?_, by rw [← hl]; exact hrec false⟩
      have hdc : S.isDupInst c.sid = false := by
        cases c <;> simp_all [noDupInst, DNode.sid]
      have : (pre ++ c :: cs).map (cp o) = pre.map (cp o) ++ cp o c :: cs.map (cp o) := by simp
      rw [this]
      apply cp_absorbs S o c _ _ ho.1 hd.1
      intro y' hy'
      obtain ⟨y, hy, rfl⟩ := List.mem_map.1 hy'
      rw [cp, matchP_relabel_right]
      exact (okPair_not_match (hpre y hy c (by simp)) hdc).1
end

end LyModel.Merge
