import LyModel.Merge.LemmasWf
/-!
# Addressing nodes by paths of (schema node, keys / value): `descend`, chains of nodes of a forest
-/
namespace LyModel.Merge
open LyModel LyModel.Tree

/-- Follow a path given by exemplar nodes: at each level the first sibling with the exemplar's schema node and — for a
list / leaf-list — its keys / value (`matchP`: the comparison `lyd_find_sibling_first` / `lyd_find_sibling_val` make);
the node found for the last exemplar. -/
def descend (S : Schema) : List DNode → List DNode → Option DNode
  | [], _ => none
  | [k], f => f.find? (matchP S k)
  | k :: k2 :: ks, f =>
    match f.find? (matchP S k) with
    | some n => descend S (k2 :: ks) n.kids
    | none => none

/-- `chain` = a node of the forest (not a list key), one of its children, one of that one's children, … -/
def IsChain (S : Schema) : List DNode → Bool → List DNode → Prop
  | [], _, _ => False
  | [x], ld, f => x ∈ procList S ld f
  | x :: x2 :: xs, ld, f => x ∈ procList S ld f ∧ IsChain S (x2 :: xs) true x.kids

theorem find?_append_cons (p : DNode → Bool) (x : DNode) (b : List DNode) (hx : p x = true) :
    ∀ a : List DNode, (∀ y ∈ a, p y = false) → (a ++ x :: b).find? p = some x
  | [], _ => by simp [hx]
  | y :: ys, h => by
    simp only [List.cons_append, List.find?_cons, h y (by simp)]
    exact find?_append_cons p x b hx ys (fun z hz => h z (by simp [hz]))

theorem find?_of_firstIdx (p : DNode → Bool) (l : List DNode) (i : Nat) (t : DNode) (h : firstIdx p l = some i)
    (hg : l[i]? = some t) : l.find? p = some t := by
  obtain ⟨a, x, b, e, hl, ha, hx⟩ := firstIdx_some_split p l i h
  subst hl
  subst e
  have : x = t := by simpa using hg
  subst this
  exact find?_append_cons p x b hx a ha

theorem absorbedK_mem (S : Schema) (o : MergeOpts) (cur : List DNode) (x : DNode) :
    ∀ (l : List DNode) (ld : Bool), AbsorbedK S o ld l cur → x ∈ procList S ld l → Absorbed S o x cur
  | [], ld, _, hx => by cases ld <;> simp [procList, noKeys] at hx
  | c :: cs, ld, h, hx => by
    simp only [AbsorbedK] at h
    split at h
    · rename_i hc
      simp only [Bool.and_eq_true] at hc
      rw [hc.1, procList_skip S c cs hc.2] at hx
      exact absorbedK_mem S o cur x cs true h hx
    · rename_i hc
      have hc' : (ld && S.isKey c.sid) = false := by simpa using hc
      rw [procList_take S ld c cs hc'] at hx
      rcases List.mem_cons.1 hx with rfl | hx
      · exact h.1
      · exact absorbedK_mem S o cur x cs false h.2 hx

/-- the path of a source node leads, in siblings that absorb the source, to a node that matches it -/
theorem descend_of_absorbed (S : Schema) (o : MergeOpts) : ∀ (chain : List DNode) (ld : Bool) (l cur : List DNode)
    (x : DNode), AbsorbedK S o ld l cur → IsChain S chain ld l → chain.getLast? = some x →
    ∃ n, descend S chain cur = some n ∧ matchP S x n = true ∧ absΦ S o x n
  | [], _, _, _, _, _, hc, _ => by simp [IsChain] at hc
  | [y], ld, l, cur, x, ha, hc, hl => by
    simp only [List.getLast?_singleton, Option.some.injEq] at hl
    subst hl
    have := absorbedK_mem S o cur y l ld ha hc
    rw [absorbed_eq] at this
    obtain ⟨i, t, hf, hg, hΦ⟩ := this
    obtain ⟨t', hg', hm⟩ := firstIdx_some _ _ _ hf
    have : t' = t := by rw [hg] at hg'; exact (Option.some.inj hg').symm
    subst this
    exact ⟨t', by simp [descend, find?_of_firstIdx _ _ _ _ hf hg], hm, hΦ⟩
  | y :: y2 :: ys, ld, l, cur, x, ha, hc, hl => by
    simp only [IsChain] at hc
    have := absorbedK_mem S o cur y l ld ha hc.1
    rw [absorbed_eq] at this
    obtain ⟨i, t, hf, hg, hΦ⟩ := this
    have hl' : (y2 :: ys).getLast? = some x := by simpa [List.getLast?_cons_cons] using hl
    cases y with
    | term ss sf sm sv =>
      -- a term node has no children: no chain continues below it
      have := hc.2
      cases ys <;> simp [IsChain, procList, noKeys, DNode.kids] at this
    | inner ss sf sm sks =>
      simp only [absΦ] at hΦ
      obtain ⟨n, h1, h2, h3⟩ := descend_of_absorbed S o (y2 :: ys) true sks t.kids x hΦ hc.2 hl'
      exact ⟨n, by simp [descend, find?_of_firstIdx _ _ _ _ hf hg, h1], h2, h3⟩

end LyModel.Merge
