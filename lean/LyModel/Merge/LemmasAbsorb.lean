import LyModel.Merge.LemmasLvl
/-!
# `Absorbed`: a source node whose merge changes nothing

`Absorbed S o x cur`: among the siblings `cur` the lookup of `lyd_merge_sibling_r` finds a node for `x`, a found leaf has
the source's value and default flag (when the merge options make the source overwrite it), and the same holds for the
children of `x` below the found node.  Two facts make it the backbone of the content theorems:
* merging an absorbed node is the identity (`absorbed_noop`);
* after `merge t s` every node of `s` is absorbed in the result (`LemmasAbsorb2`).
Source nodes: no instance of a key-less list / state leaf-list (those are matched through the cache; the general
predicate is `AbsD` in `LemmasDI2`, which `merge_idempotent` and the `_pos` theorems of Props/C14.lean use).
-/
namespace LyModel.Merge
open LyModel LyModel.Tree

/-- the lookup finds a node and the node satisfies `Φ` -/
def AbsAt (S : Schema) (x : DNode) (cur : List DNode) (Φ : DNode → Prop) : Prop :=
  ∃ i trg, firstIdx (matchP S x) cur = some i ∧ cur[i]? = some trg ∧ Φ trg

mutual
def Absorbed (S : Schema) (o : MergeOpts) : DNode → List DNode → Prop
  | .term ss sf sm sv, cur =>
    AbsAt S (.term ss sf sm sv) cur fun trg =>
      (S.isKind trg.sid .leaf && (o.defaults || !sf.dflt)) = true →
        trg.val = sv ∧ trg.flags.dflt = sf.dflt ∧ (o.withFlags = true → trg.flags = sf)
  | .inner ss sf sm sks, cur =>
    AbsAt S (.inner ss sf sm sks) cur fun trg => AbsorbedK S o true sks trg.kids
def AbsorbedK (S : Schema) (o : MergeOpts) : Bool → List DNode → List DNode → Prop
  | _, [], _ => True
  | ld, c :: cs, cur =>
    if (ld && S.isKey c.sid) = true then AbsorbedK S o true cs cur
    else Absorbed S o c cur ∧ AbsorbedK S o false cs cur
end

/-! ## list facts -/

theorem set_self : ∀ (l : List DNode) (i : Nat) (x : DNode), l[i]? = some x → l.set i x = l
  | [], _, _, h => by simp at h
  | a :: as, 0, x, h => by simp at h; simp [h]
  | a :: as, i + 1, x, h => by
    simp only [List.getElem?_cons_succ] at h
    simp [set_self as i x h]

theorem setVal_self (n : DNode) : n.setVal n.val = n := by cases n <;> rfl

theorem nthIdx_zero_append (p : DNode → Bool) (x : DNode) (b : List DNode) (hx : p x = true) :
    ∀ (a : List DNode) (i : Nat), (∀ y ∈ a, p y = false) → nthIdx p (a ++ x :: b) 0 i = some (i + a.length)
  | [], i, _ => by simp [nthIdx, hx]
  | y :: ys, i, h => by
    have hy : p y = false := h y (by simp)
    simp only [List.cons_append, nthIdx, hy, Bool.false_eq_true, if_false, List.length_cons]
    rw [nthIdx_zero_append p x b hx ys (i + 1) (fun z hz => h z (by simp [hz]))]
    congr 1
    omega

theorem firstIdx_append (p : DNode → Bool) (a : List DNode) (x : DNode) (b : List DNode) (ha : ∀ y ∈ a, p y = false)
    (hx : p x = true) : firstIdx p (a ++ x :: b) = some a.length := by
  have := nthIdx_zero_append p x b hx a 0 ha
  simpa [firstIdx] using this

/-- what `firstIdx p l = some i` means -/
theorem firstIdx_some_split (p : DNode → Bool) (l : List DNode) (i : Nat) (h : firstIdx p l = some i) :
    ∃ a x b, l = a ++ x :: b ∧ a.length = i ∧ (∀ y ∈ a, p y = false) ∧ p x = true := by
  have aux : ∀ (l : List DNode) (k j : Nat), nthIdx p l 0 k = some j →
      ∃ a x b, l = a ++ x :: b ∧ k + a.length = j ∧ (∀ y ∈ a, p y = false) ∧ p x = true := by
    intro l
    induction l with
    | nil => intro k j h; simp [nthIdx] at h
    | cons y ys ih =>
      intro k j h
      simp only [nthIdx] at h
      split at h
      · rename_i hy
        simp only [Option.some.injEq] at h
        exact ⟨[], y, ys, by simp, by simpa using h, by simp, hy⟩
      · rename_i hy
        obtain ⟨a, x, b, h1, h2, h3, h4⟩ := ih (k + 1) j h
        refine ⟨y :: a, x, b, by simp [h1], by simp; omega, ?_, h4⟩
        intro z hz
        rcases List.mem_cons.1 hz with rfl | hz
        · simpa using hy
        · exact h3 z hz
  obtain ⟨a, x, b, h1, h2, h3, h4⟩ := aux l 0 i h
  exact ⟨a, x, b, h1, by omega, h3, h4⟩

theorem getElem?_append_cons (a : List DNode) (x : DNode) (b : List DNode) : (a ++ x :: b)[a.length]? = some x := by
  simp

/-! ## generic moves of `AbsAt` -/

theorem AbsAt.mono {S : Schema} {x : DNode} {cur : List DNode} {Φ Ψ : DNode → Prop} (h : AbsAt S x cur Φ)
    (hi : ∀ t, Φ t → Ψ t) : AbsAt S x cur Ψ := by
  obtain ⟨i, t, h1, h2, h3⟩ := h
  exact ⟨i, t, h1, h2, hi t h3⟩

/-- another node is replaced -/
theorem AbsAt.set {S : Schema} {x : DNode} {cur : List DNode} {Φ : DNode → Prop} (h : AbsAt S x cur Φ) (j : Nat)
    (t t' : DNode) (hg : cur[j]? = some t) (ht : matchP S x t = false) (ht' : matchP S x t' = false) :
    AbsAt S x (cur.set j t') Φ := by
  obtain ⟨i, trg, h1, h2, h3⟩ := h
  obtain ⟨a, y, b, e, hl, ha, hy⟩ := firstIdx_some_split _ _ _ h1
  have hy' : y = trg := by
    subst hl
    rw [e] at h2
    simpa using h2
  subst hy'
  subst e
  -- j is in `a` or in `b`
  by_cases hj : j < a.length
  · have hset : (a ++ y :: b).set j t' = a.set j t' ++ y :: b := by rw [List.set_append_left _ _ hj]
    rw [hset]
    refine ⟨a.length, y, ?_, ?_, h3⟩
    · have := firstIdx_append (matchP S x) (a.set j t') y b ?_ hy
      · simpa using this
      · intro z hz
        rcases List.mem_or_eq_of_mem_set hz with hz | rfl
        · exact ha z hz
        · exact ht'
    · have : (a.set j t').length = a.length := by simp
      rw [← this]
      exact getElem?_append_cons _ _ _
  · have hj' : a.length ≤ j := Nat.le_of_not_lt hj
    have hne : j ≠ a.length := by
      intro e
      rw [e] at hg
      simp at hg
      rw [← hg] at ht
      rw [hy] at ht
      exact absurd ht (by simp)
    obtain ⟨k, hk⟩ : ∃ k, j - a.length = k + 1 := ⟨j - a.length - 1, by omega⟩
    have hset : (a ++ y :: b).set j t' = a ++ y :: b.set k t' := by
      rw [List.set_append_right _ _ hj', hk, List.set_cons_succ]
    rw [hset]
    exact ⟨a.length, y, firstIdx_append _ a y _ ha hy, getElem?_append_cons _ _ _, h3⟩

/-- a node is linked somewhere -/
theorem AbsAt.insert {S : Schema} {x : DNode} {cur : List DNode} {Φ : DNode → Prop} (h : AbsAt S x cur Φ) (z : DNode)
    (hz : matchP S x z = false) : AbsAt S x (insertNode S cur z) Φ := by
  obtain ⟨i, trg, h1, h2, h3⟩ := h
  obtain ⟨a, y, b, e, hl, ha, hy⟩ := firstIdx_some_split _ _ _ h1
  have hy' : y = trg := by
    subst hl
    rw [e] at h2
    simpa using h2
  subst hy'
  obtain ⟨c, d, e1, e2⟩ := insertNode_shape S cur z
  rw [e2]
  -- `cur = a ++ y :: b = c ++ d`
  rw [e] at e1
  rcases List.append_eq_append_iff.1 e1 with ⟨m, hm1, hm2⟩ | ⟨m, hm1, hm2⟩
  · -- c = a ++ m, y :: b = m ++ d
    cases m with
    | nil =>
      simp only [List.append_nil] at hm1
      simp only [List.nil_append] at hm2
      subst hm1
      rw [← hm2]
      refine ⟨c.length + 1, y, ?_, by simp, h3⟩
      have := firstIdx_append (matchP S x) (c ++ [z]) y b ?_ hy
      · simpa using this
      · intro w hw
        rcases List.mem_append.1 hw with hw | hw
        · exact ha w hw
        · simp only [List.mem_singleton] at hw; subst hw; exact hz
    | cons m0 ms =>
      simp only [List.cons_append, List.cons.injEq] at hm2
      obtain ⟨rfl, hb⟩ := hm2
      subst hm1
      refine ⟨a.length, y, ?_, by simp, h3⟩
      have := firstIdx_append (matchP S x) a y (ms ++ z :: d) ha hy
      simpa using this
  · -- a = c ++ m, d = m ++ y :: b
    subst hm1
    subst hm2
    refine ⟨(c ++ z :: m).length, y, ?_, ?_, h3⟩
    · have := firstIdx_append (matchP S x) (c ++ z :: m) y b ?_ hy
      · simpa using this
      · intro w hw
        rcases List.mem_append.1 hw with hw | hw
        · exact ha w (List.mem_append_left _ hw)
        · rcases List.mem_cons.1 hw with rfl | hw
          · exact hz
          · exact ha w (List.mem_append_right _ hw)
    · have : c ++ z :: (m ++ y :: b) = (c ++ z :: m) ++ y :: b := by simp
      rw [this]
      exact getElem?_append_cons _ _ _

/-- the found node itself is replaced by a node that still matches -/
theorem AbsAt.replace {S : Schema} {x : DNode} {cur : List DNode} (i : Nat) (t' : DNode)
    (hf : firstIdx (matchP S x) cur = some i) (ht' : matchP S x t' = true) {Ψ : DNode → Prop} (hΨ : Ψ t') :
    AbsAt S x (cur.set i t') Ψ := by
  obtain ⟨a, y, b, e, hl, ha, hy⟩ := firstIdx_some_split _ _ _ hf
  subst hl
  subst e
  have hset : (a ++ y :: b).set a.length t' = a ++ t' :: b := by
    rw [List.set_append_right _ _ (Nat.le_refl _)]
    simp
  rw [hset]
  exact ⟨a.length, t', firstIdx_append _ a t' b ha ht', getElem?_append_cons _ _ _, hΨ⟩

end LyModel.Merge
