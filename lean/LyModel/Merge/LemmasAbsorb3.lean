import LyModel.Merge.LemmasAbsorb2
/-!
# After a merge every source node is absorbed in the result (source without duplicate-instance nodes)
-/
namespace LyModel.Merge
open LyModel LyModel.Tree

/-! ## schema kinds -/

theorem isKind_unique {S : Schema} {s : Nat} {k1 k2 : SKind} (h1 : S.isKind s k1 = true) (h2 : S.isKind s k2 = true) :
    k1 = k2 := by
  simp only [Schema.isKind, beq_iff_eq] at h1 h2
  rw [h1] at h2
  exact Option.some.inj h2

theorem lvlOk_isTerm_iff {S : Schema} {n : DNode} (h : lvlOk S n = true) : n.isTerm = S.isTerm n.sid := by
  cases n with
  | term s f m v => simpa [lvlOk, DNode.isTerm, DNode.sid] using h.symm
  | inner s f m ks =>
    simp only [lvlOk, Bool.and_eq_true] at h
    have hi := h.1.1.1
    simp only [DNode.isTerm, DNode.sid]
    cases ht : S.isTerm s with
    | false => rfl
    | true =>
      simp only [Schema.isTerm, Schema.isInner, Bool.or_eq_true] at ht hi
      rcases ht with ht | ht <;> rcases hi with hi | hi <;> exact absurd (isKind_unique ht hi) (by decide)

theorem sameShape {S : Schema} {x y : DNode} (hx : lvlOk S x = true) (hy : lvlOk S y = true) (e : x.sid = y.sid) :
    x.isTerm = y.isTerm := by
  rw [lvlOk_isTerm_iff hx, lvlOk_isTerm_iff hy, e]

theorem isKind_leaf_not_list {S : Schema} {s : Nat} (h : S.isKind s .leaf = true) :
    (S.isKind s .list || S.isKind s .leaflist) = false := by
  cases h1 : S.isKind s .list with
  | true => exact absurd (isKind_unique h h1) (by decide)
  | false =>
    cases h2 : S.isKind s .leaflist with
    | true => exact absurd (isKind_unique h h2) (by decide)
    | false => rfl

/-! ## the updates of a matched node keep its identity -/

theorem matchP_setVal_leaf (S : Schema) (x t : DNode) (v : Bytes) (f : Flags) (hk : S.isKind t.sid .leaf = true) :
    matchP S x ((t.setVal v).setFlags f) = matchP S x t := by
  by_cases e : t.sid = x.sid
  · have hnl := isKind_leaf_not_list hk
    rw [e] at hnl
    simp [matchP, hnl]
  · have h1 : matchP S x t = false := by
      cases hm : matchP S x t with
      | false => rfl
      | true => exact absurd (matchP_sid hm) e
    have h2 : matchP S x ((t.setVal v).setFlags f) = false := by
      cases hm : matchP S x ((t.setVal v).setFlags f) with
      | false => rfl
      | true => exact absurd (by simpa using matchP_sid hm) e
    rw [h1, h2]

theorem matchP_setKids (S : Schema) (x t : DNode) (ks' : List DNode) (b : Bool) (hd : S.isDupInst x.sid = false)
    (hk : keysOf S ks' = keysOf S t.kids) (ht : t.isTerm = false) :
    matchP S x ((t.setKids ks').setDflt b) = matchP S x t := by
  cases t with
  | term => simp [DNode.isTerm] at ht
  | inner ts tf tm tk =>
    simp only [matchP]
    split
    · rw [instMatch_nodup S x _ hd, instMatch_nodup S x _ hd]
      simp only [DNode.setKids, DNode.setDflt, DNode.setFlags, DNode.sid, DNode.isTerm, DNode.val, DNode.kids] at hk ⊢
      rw [hk]
    · simp [DNode.setKids, DNode.setDflt, DNode.setFlags, DNode.sid]

theorem noKeys_all (S : Schema) (B : Nat) : ∀ l : List DNode, sidSorted l = true →
    (∀ c ∈ l, keyQ S B c.sid = true) → ∀ c ∈ noKeys S l, S.isKey c.sid = false ∧ B < c.sid
  | [], _, _ => by simp [noKeys]
  | x :: xs, hs, hq => by
    simp only [sidSorted, pairwiseB_cons] at hs
    simp only [noKeys, List.dropWhile_cons]
    split
    · exact noKeys_all S B xs hs.2 (fun c hc => hq c (by simp [hc]))
    · rename_i hx
      have hxk : S.isKey x.sid = false := by simpa using hx
      have hxq := hq x (by simp)
      simp only [keyQ, hxk, beq_iff_eq] at hxq
      have hxB : B < x.sid := by
        have : decide (x.sid ≤ B) = false := hxq.symm
        simpa using this
      intro c hc
      rcases List.mem_cons.1 hc with rfl | hc
      · exact ⟨hxk, hxB⟩
      · have hle : x.sid ≤ c.sid := by simpa [sidLe] using hs.1 c hc
        have hcq := hq c (by simp [hc])
        simp only [keyQ, beq_iff_eq] at hcq
        have hcB : B < c.sid := by omega
        refine ⟨?_, hcB⟩
        rw [hcq]
        simp; omega

/-- the leading keys of a matched inner node survive the merge of the source's children -/
theorem keysOf_sub (S : Schema) (o : MergeOpts) (ctx : List Ctx) (s : Nat) (sks tk : List DNode) (st0 : St)
    (h0 : st0.cur = tk) (hs : sidSorted sks = true) (hq : ∀ c ∈ sks, keyQ S (s + listKeys S s) c.sid = true)
    (hqt : ∀ c ∈ tk, keyQ S (s + listKeys S s) c.sid = true) :
    keysOf S (mergeKids S o ctx true sks st0).cur = keysOf S tk := by
  rw [← h0]
  apply keysOf_mergeKids S o ctx (s + listKeys S s) sks true st0
  · intro k hk
    have hkey : S.isKey k.sid = true := mem_takeWhile_p _ _ k hk
    have hmem : k ∈ tk := by rw [← h0]; exact (List.takeWhile_sublist _).subset hk
    have := hqt k hmem
    simp only [keyQ, hkey, beq_iff_eq] at this
    simpa using this.symm
  · simpa [procList] using noKeys_all S _ sks hs hq

/-! ## `Absorbed` as `AbsAt` -/

def absΦ (S : Schema) (o : MergeOpts) : DNode → DNode → Prop
  | .term _ sf _ sv, trg =>
    (S.isKind trg.sid .leaf && (o.defaults || !sf.dflt)) = true →
      trg.val = sv ∧ trg.flags.dflt = sf.dflt ∧ (o.withFlags = true → trg.flags = sf)
  | .inner _ _ _ sks, trg => AbsorbedK S o true sks trg.kids

theorem absorbed_eq (S : Schema) (o : MergeOpts) (x : DNode) (cur : List DNode) :
    Absorbed S o x cur = AbsAt S x cur (absΦ S o x) := by
  cases x <;> simp only [Absorbed] <;> rfl

/-- the hypotheses on a source node -/
def SrcOk (S : Schema) (x : DNode) : Prop :=
  lvlOk S x = true ∧ flagsOk x = true ∧ ordNode S x = true ∧ noDupInst S x = true

theorem noDupInst_sid {S : Schema} {x : DNode} (h : noDupInst S x = true) : S.isDupInst x.sid = false := by
  cases x <;> simp_all [noDupInst, DNode.sid]

theorem lvlOk_kids {S : Schema} {s : Nat} {f : Flags} {m : List Meta} {ks : List DNode}
    (h : lvlOk S (.inner s f m ks) = true) :
    sidSorted ks = true ∧ (∀ c ∈ ks, keyQ S (s + listKeys S s) c.sid = true) ∧ lvlOkL S ks = true := by
  simp only [lvlOk, Bool.and_eq_true, List.all_eq_true] at h
  exact ⟨h.1.1.2, h.1.2, h.2⟩

/-- processing a source sibling `y` that does not have `x`'s identity leaves the node found for `x` alone -/
theorem absAt_step_other (S : Schema) (o : MergeOpts) (ctx : List Ctx) (x y : DNode) (st : St) (Φ : DNode → Prop)
    (hx : AbsAt S x st.cur Φ) (hxy : matchP S x y = false) (hlx : lvlOk S x = true) (hdx : S.isDupInst x.sid = false)
    (hy : SrcOk S y) (hc : lvlOkL S st.cur = true) : AbsAt S x (mergeNode S o ctx y st).cur Φ := by
  obtain ⟨hly, hfy, _, hdy'⟩ := hy
  have hdy := noDupInst_sid hdy'
  rcases firstIdx_eq_none_or (matchP S y) st.cur with hnone | ⟨j, t, hj, hg, hm⟩
  · rw [mergeNode_unmatched S o ctx y st hdy hnone, insertSrc_cur, insNode_eq_cp S o y hfy]
    exact hx.insert _ (by rw [cp, matchP_relabel_right]; exact hxy)
  · have htl : lvlOk S t = true := (lvlOkL_iff S _).1 hc t (List.mem_of_getElem? hg)
    have hts : t.sid = y.sid := matchP_sid hm
    have hxt : matchP S x t = false := by
      cases hxt : matchP S x t with
      | false => rfl
      | true =>
        have e : x.sid = y.sid := by rw [← matchP_sid hxt, hts]
        have := matchP_trans hxt hm hdx (sameShape hlx hly e)
        rw [this] at hxy
        exact absurd hxy (by simp)
    cases y with
    | term ss sf sm sv =>
      rw [mergeNode_term_matched S o ctx ss sf sm sv st j t hdy hj hg]
      split
      · rename_i hcond
        simp only [Bool.and_eq_true] at hcond
        simp only [changeTerm]
        exact hx.set j t _ hg hxt (by rw [matchP_setVal_leaf S x t _ _ hcond.1]; exact hxt)
      · exact hx
    | inner ss sf sm sks =>
      rw [mergeNode_inner_matched S o ctx ss sf sm sks st j t hdy hj hg]
      have htt : t.isTerm = false := by
        rw [sameShape htl hly hts]; rfl
      obtain ⟨hs1, hs2, _⟩ := lvlOk_kids hly
      cases t with
      | term => simp [DNode.isTerm] at htt
      | inner ts tf tm tk =>
        have e : ts = ss := hts
        subst e
        obtain ⟨_, ht2, _⟩ := lvlOk_kids htl
        have hk := keysOf_sub S o
          ({ np := S.isNpCont (DNode.inner ts tf tm tk).sid, others := allDfltExcept st.cur j } :: ctx) ts sks tk
          { cur := tk, cache := [], anc := tf.dflt :: st.anc } rfl hs1 hs2 ht2
        exact hx.set j _ _ hg hxt (by rw [matchP_setKids S x _ _ _ hdx hk rfl]; exact hxt)

/-- processing another source sibling keeps `x` absorbed -/
theorem step_other (S : Schema) (o : MergeOpts) (ctx : List Ctx) (x y : DNode) (st : St)
    (hx : Absorbed S o x st.cur) (hxy : matchP S x y = false) (hlx : lvlOk S x = true) (hdx : S.isDupInst x.sid = false)
    (hy : SrcOk S y) (hc : lvlOkL S st.cur = true) : Absorbed S o x (mergeNode S o ctx y st).cur := by
  rw [absorbed_eq] at hx ⊢
  exact absAt_step_other S o ctx x y st _ hx hxy hlx hdx hy hc

/-- … and so does a whole run of them -/
theorem absAt_preserved (S : Schema) (o : MergeOpts) (x : DNode) (Φ : DNode → Prop) (hlx : lvlOk S x = true)
    (hdx : S.isDupInst x.sid = false) : ∀ (cs : List DNode) (ctx : List Ctx) (ld : Bool) (st : St),
    AbsAt S x st.cur Φ → (∀ y ∈ cs, matchP S x y = false) → (∀ y ∈ cs, SrcOk S y) → lvlOkL S st.cur = true →
    AbsAt S x (mergeKids S o ctx ld cs st).cur Φ
  | [], _, _, _, hx, _, _, _ => by simpa [mergeKids] using hx
  | c :: cs, ctx, ld, st, hx, hm, hs, hc => by
    simp only [mergeKids]
    split
    · exact absAt_preserved S o x Φ hlx hdx cs ctx true st hx (fun y hy => hm y (by simp [hy]))
        (fun y hy => hs y (by simp [hy])) hc
    · have hsc := hs c (by simp)
      exact absAt_preserved S o x Φ hlx hdx cs ctx false _
        (absAt_step_other S o ctx x c st Φ hx (hm c (by simp)) hlx hdx hsc hc)
        (fun y hy => hm y (by simp [hy])) (fun y hy => hs y (by simp [hy]))
        (lvlOk_mergeNode S o c ctx st hsc.1 hsc.2.1 hc)

theorem absorbed_preserved (S : Schema) (o : MergeOpts) (x : DNode) (hlx : lvlOk S x = true)
    (hdx : S.isDupInst x.sid = false) : ∀ (cs : List DNode) (ctx : List Ctx) (ld : Bool) (st : St),
    Absorbed S o x st.cur → (∀ y ∈ cs, matchP S x y = false) → (∀ y ∈ cs, SrcOk S y) → lvlOkL S st.cur = true →
    Absorbed S o x (mergeKids S o ctx ld cs st).cur
  | [], _, _, _, hx, _, _, _ => by simpa [mergeKids] using hx
  | c :: cs, ctx, ld, st, hx, hm, hs, hc => by
    simp only [mergeKids]
    split
    · exact absorbed_preserved S o x hlx hdx cs ctx true st hx (fun y hy => hm y (by simp [hy]))
        (fun y hy => hs y (by simp [hy])) hc
    · have hsc := hs c (by simp)
      exact absorbed_preserved S o x hlx hdx cs ctx false _
        (step_other S o ctx x c st hx (hm c (by simp)) hlx hdx hsc hc)
        (fun y hy => hm y (by simp [hy])) (fun y hy => hs y (by simp [hy]))
        (lvlOk_mergeNode S o c ctx st hsc.1 hsc.2.1 hc)

end LyModel.Merge
