import LyModel.Merge.LemmasDI2
/-!
# A copy absorbs its original (duplicate-instance nodes included); the leading keys as a prefix that is skipped
-/
namespace LyModel.Merge
open LyModel LyModel.Tree

/-! ## `leading` = drop the leading keys -/

theorem noKeys_cons_key (S : Schema) (c : DNode) (cs : List DNode) (h : S.isKey c.sid = true) :
    noKeys S (c :: cs) = noKeys S cs := by
  simp [noKeys, h]

theorem noKeys_cons_nonkey (S : Schema) (c : DNode) (cs : List DNode) (h : S.isKey c.sid = false) :
    noKeys S (c :: cs) = c :: cs := by
  simp [noKeys, h]

theorem mergeKids_proc (S : Schema) (o : MergeOpts) (ctx : List Ctx) : ∀ (l : List DNode) (st : St),
    mergeKids S o ctx true l st = mergeKids S o ctx false (noKeys S l) st
  | [], st => by simp [noKeys, mergeKids]
  | c :: cs, st => by
    cases hk : S.isKey c.sid with
    | true =>
      rw [noKeys_cons_key S c cs hk]
      simp only [mergeKids, hk, Bool.and_self, if_true]
      exact mergeKids_proc S o ctx cs st
    | false =>
      rw [noKeys_cons_nonkey S c cs hk]
      simp only [mergeKids, hk, Bool.and_false, Bool.false_and, Bool.false_eq_true, if_false]

theorem absDK_proc (S : Schema) (o : MergeOpts) (pre cur : List DNode) : ∀ (l : List DNode),
    AbsDK S o true l pre cur ↔ AbsDK S o false (noKeys S l) pre cur
  | [] => by simp [noKeys, AbsDK]
  | c :: cs => by
    cases hk : S.isKey c.sid with
    | true =>
      rw [noKeys_cons_key S c cs hk]
      simp only [AbsDK, hk, Bool.and_self, if_true]
      exact absDK_proc S o pre cur cs
    | false =>
      rw [noKeys_cons_nonkey S c cs hk]
      simp only [AbsDK, hk, Bool.and_false, Bool.false_and, Bool.false_eq_true, if_false]

/-! ## source nodes -/

/-- what the content theorems ask of a source node -/
def SrcD (S : Schema) (x : DNode) : Prop := lvlOk S x = true ∧ flagsOk x = true ∧ ordNode S x = true

theorem SrcD.kids {S : Schema} {s : Nat} {f : Flags} {m : List Meta} {ks : List DNode} (h : SrcD S (.inner s f m ks)) :
    (∀ y ∈ ks, SrcD S y) ∧ pairwiseB (okPair S) ks = true ∧ (∀ y ∈ noKeys S ks, S.isKey y.sid = false) := by
  obtain ⟨h1, h2, h3⟩ := h
  obtain ⟨hs, hq, hl⟩ := lvlOk_kids h1
  simp only [flagsOk, Bool.and_eq_true] at h2
  simp only [ordNode, Bool.and_eq_true] at h3
  exact ⟨fun y hy => ⟨(lvlOkL_iff S ks).1 hl y hy, (flagsOkL_iff ks).1 h2.2 y hy, (ordAll_iff S ks).1 h3.2 y hy⟩, h3.1,
    fun y hy => (noKeys_all S _ ks hs hq y hy).1⟩

theorem countP_matchP_map_cp (S : Schema) (o : MergeOpts) (x : DNode) (l : List DNode) :
    (l.map (cp o)).countP (matchP S x) = l.countP (matchP S x) := by
  rw [List.countP_map]
  apply List.countP_congr
  intro y _
  simp only [Function.comp, cp, matchP_relabel_right]

theorem matchP_nonkey_key {S : Schema} {a b : DNode} (ha : S.isKey a.sid = false) (hb : S.isKey b.sid = true) :
    matchP S a b = false := by
  cases hm : matchP S a b with
  | false => rfl
  | true =>
    have := matchP_sid hm
    rw [this, ha] at hb
    exact absurd hb (by simp)

mutual
theorem cp_absorbsD (S : Schema) (o : MergeOpts) : ∀ (c : DNode) (a b pre : List DNode), SrcD S c →
    a.countP (matchP S c) = rk S c pre → AbsD S o c pre (a ++ cp o c :: b)
  | .term ss sf sm sv, a, b, pre, _, hk => by
    refine ⟨a, cp o (.term ss sf sm sv), b, rfl, ?_, hk, ?_⟩
    · rw [cp, matchP_relabel_right]; exact matchP_refl S _
    · intro _
      refine ⟨by simp [cp, relabel, DNode.val], by simp [cp, relabel, DNode.flags, cpFlags_dflt], fun hw => ?_⟩
      simp [cp, relabel, cpFlags, hw, DNode.flags]
  | .inner ss sf sm sks, a, b, pre, hc, hk => by
    obtain ⟨hkids, hpw, hnk⟩ := hc.kids
    refine ⟨a, cp o (.inner ss sf sm sks), b, rfl, ?_, hk, ?_⟩
    · rw [cp, matchP_relabel_right]; exact matchP_refl S _
    · show AbsDK S o true sks [] (cp o (DNode.inner ss sf sm sks)).kids
      rw [kids_cp]
      have := cpK_absorbsD S o sks [] [] true hkids hpw (by simp) (by simpa [procList] using hnk)
        (by intro y _ _; simp [rkc_nil])
      simpa [DNode.kids] using this
theorem cpK_absorbsD (S : Schema) (o : MergeOpts) : ∀ (rest front pre : List DNode) (ld : Bool),
    (∀ y ∈ rest, SrcD S y) → pairwiseB (okPair S) rest = true →
    (∀ y ∈ front, ∀ c ∈ rest, okPair S y c = true) →
    (∀ y ∈ procList S ld rest, S.isKey y.sid = false) →
    (∀ y ∈ procList S ld rest, S.isDupInst y.sid = true → front.countP (matchP S y) = rkc y pre) →
    AbsDK S o ld rest pre ((front ++ rest).map (cp o))
  | [], _, _, _, _, _, _, _, _ => by simp [AbsDK]
  | c :: cs, front, pre, ld, hs, hp, hfr, hnk, hinv => by
    rw [pairwiseB_cons] at hp
    have hl : (front ++ [c]) ++ cs = front ++ c :: cs := by simp
    have hfr' : ∀ y ∈ front ++ [c], ∀ z ∈ cs, okPair S y z = true := by
      intro y hy z hz
      rcases List.mem_append.1 hy with hy | hy
      · exact hfr y hy z (by simp [hz])
      · simp only [List.mem_singleton] at hy; subst hy; exact hp.1 z hz
    have hs' : ∀ y ∈ cs, SrcD S y := fun y hy => hs y (by simp [hy])
    simp only [AbsDK]
    split
    · rename_i hcond
      simp only [Bool.and_eq_true] at hcond
      obtain ⟨rfl, hkey⟩ := hcond
      rw [procList_skip S c cs hkey] at hnk hinv
      rw [← hl]
      apply cpK_absorbsD S o cs (front ++ [c]) pre true hs' hp.2 hfr' hnk
      intro y hy hyd
      rw [List.countP_append, hinv y hy hyd]
      simp [matchP_nonkey_key (hnk y hy) hkey]
    · rename_i hcond
      have hcond' : (ld && S.isKey c.sid) = false := by simpa using hcond
      rw [procList_take S ld c cs hcond'] at hnk hinv
      have hnk' : ∀ y ∈ procList S false cs, S.isKey y.sid = false := fun y hy => hnk y (by simp [hy])
      refine ⟨?_, ?_⟩
      · have : (front ++ c :: cs).map (cp o) = front.map (cp o) ++ cp o c :: cs.map (cp o) := by simp
        rw [this]
        apply cp_absorbsD S o c _ _ pre (hs c (by simp))
        rw [countP_matchP_map_cp]
        simp only [rk]
        split
        · rename_i hd
          exact hinv c (by simp) hd
        · rename_i hd
          have hd' : S.isDupInst c.sid = false := by simpa using hd
          rw [List.countP_eq_zero]
          intro y hy
          simp [(okPair_not_match (hfr y hy c (by simp)) hd').1]
      · rw [← hl]
        apply cpK_absorbsD S o cs (front ++ [c]) (c :: pre) false hs' hp.2 hfr' hnk'
        intro y hy hyd
        rw [List.countP_append, hinv y (by simp [hy]) hyd, rkc_cons]
        simp only [List.countP_cons, List.countP_nil, Nat.zero_add]
        rw [matchP_dup S y c hyd]
end

end LyModel.Merge
