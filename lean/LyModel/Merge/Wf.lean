import LyModel.Merge.Model
/-!
# Well-formed data trees (the hypothesis of the C14 theorems), as a decidable predicate

`wfForest S f`: what every tree that libyang builds through its API over an S1 schema satisfies and what the
generators' trees are checked against (driver op `wf`):

* shape: a term node for a leaf / leaf-list, an inner node for a container / list, below the right data parent;
  a list instance starts with exactly its keys (in schema order), all other children are no keys and come later in the
  schema;
* canonical sibling order (`Tree.insertNode` keeps it): schema order, instances of a system-ordered keyed list /
  leaf-list in non-decreasing order of the type's `sort` callback — stated pairwise;
* unique instances: at most one instance of a leaf / container, no two instances of a keyed list with the same keys, no
  two equal values in a configuration leaf-list (key-less lists and state leaf-lists may repeat);
* default flags are consistent downwards: an inner node flagged `LYD_DEFAULT` has only children flagged so.
Core Lean only (the driver evaluates it).
-/
namespace LyModel.Merge
open LyModel LyModel.Tree

def pairwiseB {α : Type} (r : α → α → Bool) : List α → Bool
  | [] => true
  | x :: xs => xs.all (r x) && pairwiseB r xs

/-- no second instance: `a` and `b` (same schema node) may both be there -/
def distinctInst (S : Schema) (a b : DNode) : Bool :=
  if S.isDupInst a.sid then true
  else if S.isKind a.sid .list || S.isKind a.sid .leaflist then !instMatch S a b && !instMatch S b a
  else false

/-- `a` may stand (anywhere) before `b` among siblings -/
def okPair (S : Schema) (a b : DNode) : Bool :=
  if a.sid == b.sid then distinctInst S a b && (!S.isSorted a.sid || cmpInst S b a != .lt)
  else a.sid < b.sid

/-- number of leading key children of an instance of schema node `sid` -/
def listKeys (S : Schema) (sid : Nat) : Nat := if S.isKind sid .list then S.nkeys sid else 0

/-- the leading keys of an instance of list `s`, from position `i` on: term nodes with the schema ids `s+1+i, …`, as
many as the list has keys -/
def keysSeq (S : Schema) (s : Nat) : Nat → List DNode → Bool
  | i, [] => i == listKeys S s
  | i, k :: ks => k.isTerm && k.sid == s + 1 + i && keysSeq S s (i + 1) ks

mutual
/-- shape: node kinds, data parents, a list instance starts with exactly its keys, every other child comes later in the
schema and is no key -/
def shapeNode (S : Schema) (parent : Option Nat) : DNode → Bool
  | .term s _ _ _ => S.isTerm s && S.dataParent s == parent
  | .inner s _ _ ks =>
    S.isInner s && S.dataParent s == parent &&
    keysSeq S s 0 (keysOf S ks) &&
    (noKeys S ks).all (fun c => !S.isKey c.sid && s + listKeys S s < c.sid) &&
    shapeAll S (some s) ks
def shapeAll (S : Schema) (parent : Option Nat) : List DNode → Bool
  | [] => true
  | n :: ns => shapeNode S parent n && shapeAll S parent ns
end

mutual
/-- canonical order and unique instances, at every level -/
def ordNode (S : Schema) : DNode → Bool
  | .term .. => true
  | .inner _ _ _ ks => pairwiseB (okPair S) ks && ordAll S ks
def ordAll (S : Schema) : List DNode → Bool
  | [] => true
  | n :: ns => ordNode S n && ordAll S ns
end

mutual
/-- default flags consistent downwards -/
def flagsOk : DNode → Bool
  | .term .. => true
  | .inner _ f _ ks => (!f.dflt || ks.all (·.flags.dflt)) && flagsOkL ks
def flagsOkL : List DNode → Bool
  | [] => true
  | n :: ns => flagsOk n && flagsOkL ns
end

mutual
/-- no instance of a key-less list / state leaf-list anywhere -/
def noDupInst (S : Schema) : DNode → Bool
  | .term s _ _ _ => !S.isDupInst s
  | .inner s _ _ ks => !S.isDupInst s && noDupInstL S ks
def noDupInstL (S : Schema) : List DNode → Bool
  | [] => true
  | n :: ns => noDupInst S n && noDupInstL S ns
end

def wfSibs (S : Schema) (parent : Option Nat) (l : List DNode) : Bool :=
  shapeAll S parent l && l.all (fun c => !S.isKey c.sid) && pairwiseB (okPair S) l && ordAll S l && flagsOkL l

def wfForest (S : Schema) (f : List DNode) : Bool := wfSibs S none f

end LyModel.Merge
