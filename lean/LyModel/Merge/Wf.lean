import LyModel.Merge.Model
/-!
# Well-formed data trees (the hypothesis of the C14 theorems), as a decidable predicate

`wfForest S f`: what every tree that libyang builds through its API over an S1 schema satisfies and what the
generators' trees are checked against (driver op `wf`):

* shape: a term node for a leaf / leaf-list, an inner node for a container / list, below the right data parent;
  a list instance starts with exactly its keys (in schema order) and has no key elsewhere;
* canonical sibling order (`Tree.insertNode` keeps it): schema order, instances of a system-ordered keyed list /
  leaf-list in non-decreasing order of the type's `sort` callback — stated pairwise;
* unique instances: at most one instance of a leaf / container, no two instances of a keyed list with the same keys, no
  two equal values in a configuration leaf-list (key-less lists and state leaf-lists may repeat);
* default flags are consistent downwards: an inner node flagged `LYD_DEFAULT` has only children flagged so.
Core Lean only (the driver evaluates it).
-/
namespace LyModel.Merge
open LyModel LyModel.Tree

def pairwiseB {α : Type} (r : α → α → Bool) : List α → Bool
  | [] => true
  | x :: xs => xs.all (r x) && pairwiseB r xs

/-- `a` may stand (anywhere) before `b` among siblings -/
def okPair (S : Schema) (a b : DNode) : Bool :=
  if a.sid == b.sid then
    if S.isDupInst a.sid then true
    else if S.isKind a.sid .list || S.isKind a.sid .leaflist then
      !instMatch S a b && !instMatch S b a && (!S.isSorted a.sid || cmpInst S b a != .lt)
    else false
  else a.sid < b.sid

/-- the leading keys of an instance of list `sid`: term nodes with the schema ids `sid+1 … sid+nkeys` -/
def keysOk (S : Schema) (sid : Nat) : Nat → List DNode → Bool
  | 0, _ => true
  | _, [] => false
  | n + 1, k :: ks => k.isTerm && k.sid == sid + 1 + (S.nkeys sid - (n + 1)) && S.isKey k.sid && keysOk S sid n ks

mutual
def wfNode (S : Schema) (parent : Option Nat) : DNode → Bool
  | .term s _ _ _ => S.isTerm s && S.dataParent s == parent
  | .inner s f _ ks =>
    S.isInner s && S.dataParent s == parent &&
    (if S.isKind s .list then keysOk S s (S.nkeys s) ks && (ks.drop (S.nkeys s)).all (fun c => !S.isKey c.sid)
     else ks.all (fun c => !S.isKey c.sid)) &&
    (!f.dflt || ks.all (·.flags.dflt)) &&
    pairwiseB (okPair S) (ks.drop (if S.isKind s .list then S.nkeys s else 0)) &&
    wfAll S (some s) ks
def wfAll (S : Schema) (parent : Option Nat) : List DNode → Bool
  | [] => true
  | n :: ns => wfNode S parent n && wfAll S parent ns
end

def wfSibs (S : Schema) (parent : Option Nat) (l : List DNode) : Bool :=
  pairwiseB (okPair S) l && wfAll S parent l && l.all (fun c => !S.isKey c.sid)

def wfForest (S : Schema) (f : List DNode) : Bool := wfSibs S none f

end LyModel.Merge
