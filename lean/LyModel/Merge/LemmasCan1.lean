import LyModel.Merge.LemmasCmp
/-!
# Canonical order is kept by the two things a merge step does to a sibling list: linking a fresh node at the place
  `insertNode` chooses, replacing a node by one of the same identity
-/
namespace LyModel.Merge
open LyModel LyModel.Tree

/-! ## nodes of the same schema node have the same signature -/

theorem keysSeq_sids (S : Schema) (s : Nat) : ∀ (l1 l2 : List DNode) (i : Nat), keysSeq S s i l1 = true →
    keysSeq S s i l2 = true → l1.map (·.sid) = l2.map (·.sid)
  | [], [], _, _, _ => rfl
  | [], k :: ks, i, h1, h2 => by
    simp only [keysSeq, Bool.and_eq_true, beq_iff_eq] at h1 h2
    have hlen : ∀ (l : List DNode) (j : Nat), keysSeq S s j l = true → j + l.length = listKeys S s := by
      intro l
      induction l with
      | nil => intro j hj; simpa [keysSeq] using hj
      | cons a as ih =>
        intro j hj
        simp only [keysSeq, Bool.and_eq_true] at hj
        have := ih (j + 1) hj.2
        simp only [List.length_cons]; omega
    have := hlen ks (i + 1) h2.2
    omega
  | k :: ks, [], i, h1, h2 => by
    simp only [keysSeq, Bool.and_eq_true, beq_iff_eq] at h1 h2
    have hlen : ∀ (l : List DNode) (j : Nat), keysSeq S s j l = true → j + l.length = listKeys S s := by
      intro l
      induction l with
      | nil => intro j hj; simpa [keysSeq] using hj
      | cons a as ih =>
        intro j hj
        simp only [keysSeq, Bool.and_eq_true] at hj
        have := ih (j + 1) hj.2
        simp only [List.length_cons]; omega
    have := hlen ks (i + 1) h1.2
    omega
  | k1 :: ks1, k2 :: ks2, i, h1, h2 => by
    simp only [keysSeq, Bool.and_eq_true, beq_iff_eq] at h1 h2
    simp only [List.map_cons, List.cons.injEq]
    exact ⟨by rw [h1.1.2, h2.1.2], keysSeq_sids S s ks1 ks2 (i + 1) h1.2 h2.2⟩

theorem shape_isTerm_iff {S : Schema} {p : Option Nat} {n : DNode} (h : shapeNode S p n = true) :
    n.isTerm = S.isTerm n.sid := by
  cases n with
  | term s f m v =>
    simp only [shapeNode, Bool.and_eq_true] at h
    simpa [DNode.isTerm, DNode.sid] using h.1.symm
  | inner s f m ks =>
    simp only [shapeNode, Bool.and_eq_true] at h
    have hi := h.1.1.1.1
    simp only [DNode.isTerm, DNode.sid]
    cases ht : S.isTerm s with
    | false => rfl
    | true =>
      simp only [Schema.isTerm, Schema.isInner, Bool.or_eq_true] at ht hi
      rcases ht with ht | ht <;> rcases hi with hi | hi <;> exact absurd (isKind_unique ht hi) (by decide)

theorem sameSig_of_shape {S : Schema} {p q : Option Nat} {a b : DNode} (ha : shapeNode S p a = true)
    (hb : shapeNode S q b = true) (e : a.sid = b.sid) : SameSig S a b := by
  have ht : a.isTerm = b.isTerm := by rw [shape_isTerm_iff ha, shape_isTerm_iff hb, e]
  refine ⟨e, ht, ?_⟩
  cases a with
  | term =>
    cases b with
    | term => simp [DNode.kids, keysOf]
    | inner => simp [DNode.isTerm] at ht
  | inner s f m ks =>
    cases b with
    | term => simp [DNode.isTerm] at ht
    | inner s' f' m' ks' =>
      have e' : s = s' := e
      subst e'
      simp only [shapeNode, Bool.and_eq_true] at ha hb
      exact keysSeq_sids S s _ _ 0 ha.1.1.2 hb.1.1.2

/-! ## linking a fresh node -/

theorem mem_of_head? {b : List DNode} {w : DNode} (h : b.head? = some w) : w ∈ b := by
  cases b with
  | nil => simp at h
  | cons x xs => simp at h; simp [h]

/-- `z` is no second instance of anything in `cur` -/
def Fresh (S : Schema) (cur : List DNode) (z : DNode) : Prop :=
  ∀ y ∈ cur, y.sid = z.sid → distinctInst S y z = true ∧ distinctInst S z y = true

theorem okPair_of_lt {S : Schema} {a b : DNode} (h : a.sid < b.sid) : okPair S a b = true := by
  have : (a.sid == b.sid) = false := by simp; omega
  simp [okPair, this, h]

theorem okPair_same {S : Schema} {a b : DNode} (e : a.sid = b.sid) (hd : distinctInst S a b = true)
    (hc : S.isSorted a.sid = true → cmpInst S b a ≠ .lt) : okPair S a b = true := by
  simp only [okPair, e, beq_self_eq_true, if_true, Bool.and_eq_true]
  rw [e] at hc
  refine ⟨hd, ?_⟩
  cases hs : S.isSorted b.sid with
  | false => simp
  | true => simpa using hc hs

theorem pairwise_insertNode (S : Schema) (cur : List DNode) (z : DNode) (hp : pairwiseB (okPair S) cur = true)
    (hf : Fresh S cur z) (hsig : ∀ y ∈ cur, y.sid = z.sid → SameSig S y z) :
    pairwiseB (okPair S) (insertNode S cur z) = true := by
  have hsorted := sidSorted_of_okPair S cur hp
  simp only [insertNode]
  split
  · rename_i hc
    simp only [Bool.and_eq_true] at hc
    obtain ⟨a, b, e, e2, ha, hb⟩ := insertSorted_split S z cur
    rw [e2]
    rw [e] at hp hsorted
    have hp' := (pairwiseB_append _ a b).1 hp
    have hsb : sidSorted b = true := ((pairwiseB_append _ a b).1 hsorted).2.1
    have hmem : ∀ y, y ∈ a ∨ y ∈ b → y ∈ cur := by
      intro y hy; rw [e]; exact List.mem_append.2 hy
    rw [pairwiseB_append, pairwiseB_cons]
    refine ⟨hp'.1, ⟨?_, hp'.2.1⟩, ?_⟩
    · -- z before every w ∈ b
      intro w hw
      cases hb0 : b.head? with
      | none => cases b <;> simp_all
      | some w0 =>
        have hw0 := hb w0 hb0
        have hle : w0.sid ≤ w.sid := sidSorted_head_le b hsb w0 hb0 w hw
        rcases hw0 with hlt | ⟨hs0, hc0⟩
        · exact okPair_of_lt (by omega)
        · by_cases hws : w.sid = z.sid
          · have hfw := hf w (hmem w (Or.inr hw)) hws
            apply okPair_same hws.symm hfw.2
            intro _ hcon
            have sig_wz := hsig w (hmem w (Or.inr hw)) hws
            have hww0 : cmpInst S w w0 = .lt := cmpInst_lt_trans sig_wz hcon hc0
            -- w0 ≤ w in `b`
            cases b with
            | nil => simp at hw
            | cons b0 bs =>
              simp only [List.head?_cons, Option.some.injEq] at hb0
              subst hb0
              rcases List.mem_cons.1 hw with rfl | hw'
              · -- w = w0
                have sig := hsig w (hmem w (Or.inr (by simp))) hws
                exact cmpInst_asymm ⟨sig.sid.symm, sig.term.symm, sig.keys.symm⟩ hc0 hcon
              · have hok := ((pairwiseB_cons _ b0 bs).1 hp'.2.1).1 w hw'
                have := okPair_sorted hok (by rw [hs0, hws]) (by rw [hws]; exact hc.1)
                exact this hww0
          · exact okPair_of_lt (by omega)
    · -- every x ∈ a before z and before b
      intro x hx y hy
      rcases List.mem_cons.1 hy with rfl | hy
      · have hax := ha x hx
        by_cases hxs : x.sid = y.sid
        · exact okPair_same hxs (hf x (hmem x (Or.inl hx)) hxs).1 (fun _ => hax.2 hxs)
        · exact okPair_of_lt (by omega)
      · exact hp'.2.2 x hx y hy
  · rename_i hc
    obtain ⟨a, b, e, e2, ha, hb⟩ := insertBySchema_split z cur
    rw [e2]
    rw [e] at hp hsorted
    have hp' := (pairwiseB_append _ a b).1 hp
    have hsb : sidSorted b = true := ((pairwiseB_append _ a b).1 hsorted).2.1
    have hmem : ∀ y, y ∈ a ∨ y ∈ b → y ∈ cur := by
      intro y hy; rw [e]; exact List.mem_append.2 hy
    rw [pairwiseB_append, pairwiseB_cons]
    refine ⟨hp'.1, ⟨?_, hp'.2.1⟩, ?_⟩
    · intro w hw
      cases hb0 : b.head? with
      | none => cases b <;> simp_all
      | some w0 =>
        have := hb w0 hb0
        have hle : w0.sid ≤ w.sid := sidSorted_head_le b hsb w0 hb0 w hw
        exact okPair_of_lt (by omega)
    · intro x hx y hy
      rcases List.mem_cons.1 hy with rfl | hy
      · have hax := ha x hx
        by_cases hxs : x.sid = y.sid
        · apply okPair_same hxs (hf x (hmem x (Or.inl hx)) hxs).1
          intro hsrt
          exfalso
          apply hc
          simp only [Bool.and_eq_true, List.any_eq_true, beq_iff_eq]
          exact ⟨by rw [← hxs]; exact hsrt, x, hmem x (Or.inl hx), hxs⟩
        · exact okPair_of_lt (by omega)
      · exact hp'.2.2 x hx y hy

end LyModel.Merge
