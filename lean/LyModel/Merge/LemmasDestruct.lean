import LyModel.Merge.LemmasDup
/-!
# The consuming merge (`LYD_MERGE_DESTRUCT`: unmatched source subtrees are *moved*) and the copying merge (they are
  duplicated with `lyd_dup_single(RECURSIVE | WITH_FLAGS)`) give the same tree when the source's default flags are
  consistent downwards — and only then.
-/
namespace LyModel.Merge
open LyModel LyModel.Tree

theorem insertSrc_congr (S : Schema) (o1 o2 : MergeOpts) (hw : o1.withFlags = o2.withFlags) (st : St) (cache : Cache)
    (fi : Bool) (src : DNode) (h : flagsOk src = true) :
    insertSrc S o1 st cache fi src = insertSrc S o2 st cache fi src := by
  have hx : ∀ o : MergeOpts, (if o.destruct then src else dupNode S DupOpts.full src) = src := by
    intro o; split <;> simp [dupNode_full S src h]
  simp only [insertSrc, hx, hw]

theorem changeTerm_congr (o1 o2 : MergeOpts) (hw : o1.withFlags = o2.withFlags) (ctx : List Ctx) (st : St)
    (cache : Cache) (i : Nat) (trg : DNode) (sf : Flags) (sv : Bytes) :
    changeTerm o1 ctx st cache i trg sf sv = changeTerm o2 ctx st cache i trg sf sv := by
  simp only [changeTerm, hw]

mutual
theorem mergeNode_congr (S : Schema) (o1 o2 : MergeOpts) (hd : o1.defaults = o2.defaults)
    (hw : o1.withFlags = o2.withFlags) (ctx : List Ctx) :
    ∀ (n : DNode) (st : St), flagsOk n = true → mergeNode S o1 ctx n st = mergeNode S o2 ctx n st
  | .term ss sf sm sv, st => by
    intro h
    simp only [mergeNode, hd, changeTerm_congr o1 o2 hw, insertSrc_congr S o1 o2 hw _ _ _ _ h]
  | .inner ss sf sm sks, st => by
    intro h
    have hk : flagsOkL sks = true := by
      simp only [flagsOk, Bool.and_eq_true] at h; exact h.2
    simp only [mergeNode, insertSrc_congr S o1 o2 hw _ _ _ _ h]
    split
    · split
      · rw [mergeKids_congr S o1 o2 hd hw _ true sks _ hk]
      · rfl
    · rfl
theorem mergeKids_congr (S : Schema) (o1 o2 : MergeOpts) (hd : o1.defaults = o2.defaults)
    (hw : o1.withFlags = o2.withFlags) (ctx : List Ctx) (ld : Bool) :
    ∀ (l : List DNode) (st : St), flagsOkL l = true → mergeKids S o1 ctx ld l st = mergeKids S o2 ctx ld l st
  | [], st => by intro _; simp [mergeKids]
  | c :: cs, st => by
    intro h
    simp only [flagsOkL, Bool.and_eq_true] at h
    simp only [mergeKids]
    split
    · exact mergeKids_congr S o1 o2 hd hw ctx true cs st h.2
    · rw [mergeNode_congr S o1 o2 hd hw ctx c st h.1]
      exact mergeKids_congr S o1 o2 hd hw ctx false cs _ h.2
end

end LyModel.Merge
