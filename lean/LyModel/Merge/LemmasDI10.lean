import LyModel.Merge.LemmasDI9
/-!
# A target node that the source does not reach is unchanged — by positions, duplicate-instance nodes included

A target node `y` standing as the `k`-th match of its own lookup (`AbsK … (· = y)`) stays that until the source sibling
that the merge matches with it is processed: for a duplicate-instance node the `k`-th source instance of its class, else
the first source sibling of its identity (`keepK_run`).  If there is none it is there, untouched, in the result; if there
is one, the node in that place afterwards has the children `merge y.kids x0.kids` and the argument repeats one level down
(`keepK_chain`).
-/
namespace LyModel.Merge
open LyModel LyModel.Tree

/-- a chain of nodes of the forest `f`, each with its position among the nodes of its sibling list that its own lookup
accepts (for an instance of a key-less list / state leaf-list: among the equal instances; 0 for any other node of a
well-formed tree) -/
def IsChainT (S : Schema) : List (DNode × Nat) → List DNode → Prop
  | [], _ => False
  | [c], f => ∃ a b, f = a ++ c.1 :: b ∧ c.2 = a.countP (matchP S c.1)
  | c :: c2 :: cs, f => (∃ a b, f = a ++ c.1 :: b ∧ c.2 = a.countP (matchP S c.1)) ∧ IsChainT S (c2 :: cs) c.1.kids

theorem absK_self (S : Schema) (a : List DNode) (y : DNode) (b : List DNode) :
    AbsK (matchP S y) (a.countP (matchP S y)) (a ++ y :: b) (fun t => t = y) :=
  ⟨a, y, b, rfl, matchP_refl S y, rfl, rfl⟩

theorem descendK_self (S : Schema) : ∀ (chain : List (DNode × Nat)) (f : List DNode) (y : DNode) (k : Nat),
    IsChainT S chain f → chain.getLast? = some (y, k) → descendK S chain f = some y
  | [], _, _, _, hc, _ => by simp [IsChainT] at hc
  | [c], f, y, k, hc, hl => by
    simp only [List.getLast?_singleton, Option.some.injEq] at hl
    obtain ⟨a, b, e, hk⟩ := hc
    obtain ⟨t, h1, _, h3⟩ := nthMatch_of_absK S c.1 c.2 f _ (by rw [e, hk]; exact absK_self S a c.1 b)
    subst hl
    simp only [descendK, h1, h3]
  | c :: c2 :: cs, f, y, k, hc, hl => by
    obtain ⟨⟨a, b, e, hk⟩, hrest⟩ := hc
    obtain ⟨t, h1, _, h3⟩ := nthMatch_of_absK S c.1 c.2 f _ (by rw [e, hk]; exact absK_self S a c.1 b)
    have hl' : (c2 :: cs).getLast? = some (y, k) := by
      rw [List.getLast?_cons_cons] at hl; exact hl
    simp only [descendK, h1, h3]
    exact descendK_self S (c2 :: cs) c.1.kids y k hrest hl'

theorem split_unique (p : DNode → Bool) {a a' b b' : List DNode} {t t' : DNode} (e : a ++ t :: b = a' ++ t' :: b')
    (ht : p t = true) (ht' : p t' = true) (hk : a.countP p = a'.countP p) : a = a' ∧ t = t' ∧ b = b' := by
  rcases List.append_eq_append_iff.1 e with ⟨m, hm1, hm2⟩ | ⟨m, hm1, hm2⟩
  · cases m with
    | nil =>
      simp only [List.nil_append, List.cons.injEq] at hm2
      simp only [List.append_nil] at hm1
      exact ⟨hm1.symm, hm2.1, hm2.2⟩
    | cons m0 ms =>
      simp only [List.cons_append, List.cons.injEq] at hm2
      rw [hm1, List.countP_append, List.countP_cons, ← hm2.1] at hk
      simp only [ht, if_true] at hk
      omega
  · cases m with
    | nil =>
      simp only [List.nil_append, List.cons.injEq] at hm2
      simp only [List.append_nil] at hm1
      exact ⟨hm1, hm2.1.symm, hm2.2.symm⟩
    | cons m0 ms =>
      simp only [List.cons_append, List.cons.injEq] at hm2
      rw [hm1, List.countP_append, List.countP_cons, ← hm2.1] at hk
      simp only [ht', if_true] at hk
      omega

/-- the step that matches the source node `c` with the target node `y` -/
theorem matched_event (S : Schema) (o : MergeOpts) (c y : DNode) (st st' : St) (k : Nat) (hs : StepD S o c st st')
    (ha : AbsK (matchP S y) k st.cur (fun t => t = y)) (hpq : ∀ w ∈ st.cur, matchP S c w = matchP S y w)
    (hno : S.isDupInst c.sid = true → (dupLookup S st c).1 = some k) (hk0 : S.isDupInst c.sid = false → k = 0) :
    AbsK (matchP S y) k st'.cur (fun t' => subOf S o c y t') := by
  obtain ⟨a0, t0, b0, e0, hp0, hc0, rfl⟩ := ha
  cases hs with
  | ins cc d h1 h2 h3 h4 h5 =>
    exfalso
    cases hd : S.isDupInst c.sid with
    | false =>
      have := (h4 hd).1
      rw [List.countP_eq_zero] at this
      have hmem : t0 ∈ st.cur := by rw [e0]; simp
      have := this t0 hmem
      rw [hpq t0 hmem, hp0] at this
      exact this rfl
    | true =>
      have := hno hd
      rw [h5 hd] at this
      exact absurd this (by simp)
  | set a t b t' h1 h2 hm hinv hsub h6 h7 =>
    have hrank : a.countP (matchP S c) = k := by
      cases hd : S.isDupInst c.sid with
      | false => rw [(h6 hd).1, hk0 hd]
      | true =>
        have := hno hd
        rw [h7 hd] at this
        exact Option.some.inj this
    have hrank' : a.countP (matchP S t0) = k := by
      rw [← hrank]
      apply List.countP_congr
      intro w hw
      rw [hpq w (by rw [h1]; exact List.mem_append_left _ hw)]
    have hmt : matchP S t0 t = true := by
      rw [← hpq t (by rw [h1]; simp)]; exact hm
    obtain ⟨ea, et, eb⟩ := split_unique (matchP S t0) (h1.symm.trans e0) hmt hp0 (by rw [hrank', hc0])
    subst ea
    subst et
    subst eb
    exact ⟨a, t', b, h2, by rw [hinv]; exact hmt, hrank', hsub⟩

theorem nthMatch_nil (S : Schema) (y : DNode) (m : Nat) : nthMatch S y m [] = none := by simp [nthMatch]

theorem nthMatch_cons_false (S : Schema) (y c : DNode) (m : Nat) (R : List DNode) (h : matchP S y c = false) :
    nthMatch S y m (c :: R) = nthMatch S y m R := by
  simp [nthMatch, h]

theorem nthMatch_cons_zero (S : Schema) (y c : DNode) (R : List DNode) (h : matchP S y c = true) :
    nthMatch S y 0 (c :: R) = some c := by
  simp [nthMatch, h]

theorem nthMatch_cons_succ (S : Schema) (y c : DNode) (m : Nat) (R : List DNode) (h : matchP S y c = true) :
    nthMatch S y (m + 1) (c :: R) = nthMatch S y m R := by
  simp [nthMatch, h]

/-- the target node `y` (the `k`-th match of its lookup) through the merge of the source siblings `l`: untouched if
`l` has no `m`-th sibling that `y`'s lookup accepts, else merged with that sibling -/
theorem keepK_run (S : Schema) (o : MergeOpts) (p : Option Nat) (y : DNode) (k : Nat) (hly : lvlOk S y = true) :
    ∀ (l : List DNode) (ctx : List Ctx) (ld : Bool) (st : St) (pre : List DNode) (m : Nat),
      AbsK (matchP S y) k st.cur (fun t => t = y) → CacheInv1 S st.cache pre st.cur → Can S p st.cur →
      (∀ x ∈ l, SrcC S p x) → pairwiseB (okPair S) l = true →
      (S.isDupInst y.sid = true → rkc y pre + m = k) → (S.isDupInst y.sid = false → m = 0 ∧ k = 0) →
      (match nthMatch S y m (procList S ld l) with
       | none => AbsK (matchP S y) k (mergeKids S o ctx ld l st).cur (fun t => t = y)
       | some x0 => AbsK (matchP S y) k (mergeKids S o ctx ld l st).cur (fun t' => subOf S o x0 y t'))
  | [], _, ld, _, _, _, ha, _, _, _, _, _, _ => by
    have : procList S ld [] = [] := by cases ld <;> simp [procList, noKeys]
    rw [this, nthMatch_nil]
    simpa [mergeKids] using ha
  | c :: cs, ctx, ld, st, pre, m, ha, hinv, hc, hs, hp, hdm, hnm => by
    rw [pairwiseB_cons] at hp
    have hscs : ∀ x ∈ cs, SrcC S p x := fun x hx => hs x (by simp [hx])
    by_cases hcond : (ld && S.isKey c.sid) = true
    · simp only [mergeKids, hcond, if_true]
      simp only [Bool.and_eq_true] at hcond
      rw [hcond.1, procList_skip S c cs hcond.2]
      exact keepK_run S o p y k hly cs ctx true st pre m ha hinv hc hscs hp.2 hdm hnm
    · have hcond' : (ld && S.isKey c.sid) = false := by simpa using hcond
      simp only [mergeKids, hcond', Bool.false_eq_true, if_false]
      rw [procList_take S ld c cs hcond']
      have hsc := hs c (by simp)
      have hlc : lvlOk S c = true := lvlOk_of_wf S p c hsc.1 hsc.2.1
      have hstep := mergeNode_stepD S o ctx p c st hsc hc
      have hinv1 := inv1_step S o c st _ pre hstep hinv
      have hc1 := can_mergeNode S o c p ctx st hsc hc
      cases hm : matchP S y c with
      | false =>
        rw [nthMatch_cons_false S y c m _ hm]
        refine keepK_run S o p y k hly cs ctx false _ (c :: pre) m
          ((stepD_other S o y c st _ k _ hstep hm (fun _ => ⟨hly, hlc⟩)).1 ha) hinv1 hc1 hscs hp.2 (fun hd => ?_) hnm
        rw [rkc_cons]
        rw [matchP_dup S y c hd] at hm
        rw [hm]
        simpa using hdm hd
      | true =>
        have hsid : c.sid = y.sid := matchP_sid hm
        cases m with
        | zero =>
          rw [nthMatch_cons_zero S y c _ hm]
          -- the matched event
          have hpq : ∀ w ∈ st.cur, matchP S c w = matchP S y w := by
            intro w hw
            cases hd : S.isDupInst y.sid with
            | true =>
              have hdc : S.isDupInst c.sid = true := by rw [hsid]; exact hd
              rw [matchP_dup S y c hd] at hm
              rw [matchP_class S hdc hm]
            | false => exact matchP_congr hly hlc ((lvlOkL_iff S _).1 hc.lvlOkL w hw) hd hm
          have hev : AbsK (matchP S y) k (mergeNode S o ctx c st).cur (fun t' => subOf S o c y t') := by
            refine matched_event S o c y st _ k hstep ha hpq (fun hdc => ?_) (fun hdc => ?_)
            · have hd : S.isDupInst y.sid = true := by rw [← hsid]; exact hdc
              have he : eqContent c y = true := by rw [← matchP_dup S y c hd]; exact hm
              have hP : rkc c pre = k := by
                have := hdm hd
                rw [← rkc_class he pre]; omega
              have hT : k < st.cur.countP (matchP S c) := by
                rw [← matchP_class S hdc he]; exact ha.lt_count
              rcases dupLookup_inv1 S st c pre hdc hinv with ⟨_, h, _⟩ | ⟨h, _⟩
              · omega
              · rw [h, hP]
            · exact (hnm (by rw [← hsid]; exact hdc)).2
          have hkeeps : Keeps S y k (mergeNode S o ctx c st) (fun t' => subOf S o c y t') := by
            refine ⟨hev, fun hd => ?_⟩
            have hdc : S.isDupInst c.sid = true := by rw [hsid]; exact hd
            have he : eqContent c y = true := by rw [← matchP_dup S y c hd]; exact hm
            have hrk : rkc y (c :: pre) = k + 1 := by
              rw [rkc_cons, he]
              have := hdm hd
              simp; omega
            rcases hinv1 y hd with ⟨h0, _⟩ | ⟨u, N, hg, _, _, hcase⟩
            · omega
            · refine ⟨u, N, hg, ?_⟩
              rcases hcase with ⟨_, hu, _⟩ | ⟨_, hu, _⟩
              · left; omega
              · right; exact hu
          refine (keeps_run S o p y k _ hly cs ctx false _ hkeeps (fun hd w hw => ?_) hscs hc1).1
          have hlw : lvlOk S w = true := lvlOk_of_wf S p w (hscs w hw).1 (hscs w hw).2.1
          rw [← matchP_congr hly hlc hlw hd hm]
          cases hdw : S.isDupInst w.sid with
          | false => exact (okPair_not_match (hp.1 w hw) hdw).2
          | true =>
            apply matchP_sid_ne
            intro e
            rw [e, hsid, hd] at hdw
            exact absurd hdw (by simp)
        | succ m' =>
          rw [nthMatch_cons_succ S y c m' _ hm]
          have hd : S.isDupInst y.sid = true := by
            cases hd : S.isDupInst y.sid with
            | true => rfl
            | false => have := (hnm hd).1; omega
          have hdc : S.isDupInst c.sid = true := by rw [hsid]; exact hd
          have he : eqContent c y = true := by rw [← matchP_dup S y c hd]; exact hm
          have hP : rkc c pre + (m' + 1) = k := by
            rw [← rkc_class he pre]; exact hdm hd
          refine keepK_run S o p y k hly cs ctx false _ (c :: pre) m'
            (stepD_class S o y c st _ k _ hstep hdc he ?_ ha) hinv1 hc1 hscs hp.2 (fun _ => ?_)
            (fun h => by rw [hd] at h; exact absurd h (by simp))
          · rcases dupLookup_inv1 S st c pre hdc hinv with ⟨h, _⟩ | ⟨h, _⟩
            · rw [h]; simp
            · rw [h]
              intro h'
              have := Option.some.inj h'
              omega
          · rw [rkc_cons, he]
            have := hdm hd
            simp; omega

end LyModel.Merge
