import LyModel.Merge.LemmasBasic
/-!
# Lemmas about `dupNode` / `setNew`: a recursive duplicate is a node-wise relabelling of flags and metadata
-/
namespace LyModel.Merge
open LyModel LyModel.Tree

@[simp] theorem dupFlags_dflt (o : DupOpts) (f : Flags) : (dupFlags o f).dflt = f.dflt := by
  unfold dupFlags; split <;> rfl

theorem all_dflt_relabelL (ff : Flags → Flags) (fm) (h : ∀ f, (ff f).dflt = f.dflt) (ks : List DNode) :
    (relabelL ff fm ks).all (·.flags.dflt) = ks.all (·.flags.dflt) := by
  rw [relabelL_eq_map, List.all_map]
  congr 1
  funext k
  simp [h]

mutual
theorem dupNode_recursive (S : Schema) (o : DupOpts) (hr : o.recursive = true) :
    ∀ n : DNode, flagsOk n = true → dupNode S o n = relabel (dupFlags o) (dupMetas o) n
  | .term .. => by intro _; simp [dupNode, relabel]
  | .inner s f m ks => by
    intro h
    simp only [flagsOk, Bool.and_eq_true] at h
    have ih := dupAll_recursive S o hr ks h.2
    simp only [dupNode, hr, if_true, ih, relabel, DNode.inner.injEq, true_and, and_true]
    rw [all_dflt_relabelL _ _ (dupFlags_dflt o)]
    have h1 := h.1
    have hd' := dupFlags_dflt o f
    generalize dupFlags o f = g at *
    cases g
    cases hd : f.dflt <;> simp_all
theorem dupAll_recursive (S : Schema) (o : DupOpts) (hr : o.recursive = true) :
    ∀ l : List DNode, flagsOkL l = true → dupAll S o l = relabelL (dupFlags o) (dupMetas o) l
  | [] => by intro _; simp [dupAll, relabelL]
  | n :: ns => by
    intro h
    simp only [flagsOkL, Bool.and_eq_true] at h
    simp [dupAll, relabelL, dupNode_recursive S o hr n h.1, dupAll_recursive S o hr ns h.2]
end

theorem dupFlags_full : dupFlags DupOpts.full = id := by
  funext f; simp [dupFlags, DupOpts.full]

theorem dupMetas_full : dupMetas DupOpts.full = id := by
  funext f; simp [dupMetas, DupOpts.full]

/-- the copy `lyd_merge_sibling_r` makes of an unmatched source node is the node itself -/
theorem dupNode_full (S : Schema) (n : DNode) (h : flagsOk n = true) : dupNode S DupOpts.full n = n := by
  rw [dupNode_recursive S _ rfl n h, dupFlags_full, dupMetas_full, relabel_id]

mutual
theorem setNew_eq_relabel : ∀ n : DNode, setNew n = relabel (fun f => { f with new := true }) id n
  | .term .. => by simp [setNew, relabel]
  | .inner _ _ _ ks => by simp [setNew, relabel, setNewL_eq_relabelL ks]
theorem setNewL_eq_relabelL : ∀ l : List DNode, setNewL l = relabelL (fun f => { f with new := true }) id l
  | [] => by simp [setNewL, relabelL]
  | n :: ns => by simp [setNewL, relabelL, setNew_eq_relabel n, setNewL_eq_relabelL ns]
end

@[simp] theorem sid_setNew (n : DNode) : (setNew n).sid = n.sid := by rw [setNew_eq_relabel]; simp
@[simp] theorem val_setNew (n : DNode) : (setNew n).val = n.val := by rw [setNew_eq_relabel]; simp
@[simp] theorem isTerm_setNew (n : DNode) : (setNew n).isTerm = n.isTerm := by rw [setNew_eq_relabel]; simp
@[simp] theorem dflt_setNew (n : DNode) : (setNew n).flags.dflt = n.flags.dflt := by rw [setNew_eq_relabel]; simp

/-! content of a duplicate, without any hypothesis on the flags -/
mutual
theorem strip_dupNode_recursive (S : Schema) (o : DupOpts) (hr : o.recursive = true) :
    ∀ n : DNode, strip (dupNode S o n) = strip n
  | .term .. => by simp [dupNode, strip, relabel]
  | .inner s f m ks => by
    have ih := stripL_dupAll_recursive S o hr ks
    simp only [dupNode, hr, if_true, strip, relabel, DNode.inner.injEq, true_and]
    exact ih
theorem stripL_dupAll_recursive (S : Schema) (o : DupOpts) (hr : o.recursive = true) :
    ∀ l : List DNode, relabelL (fun _ => {}) (fun _ => []) (dupAll S o l) = relabelL (fun _ => {}) (fun _ => []) l
  | [] => by simp [dupAll]
  | n :: ns => by
    have h1 := strip_dupNode_recursive S o hr n
    have h2 := stripL_dupAll_recursive S o hr ns
    simp only [strip] at h1
    simp [dupAll, relabelL, h1, h2]
end

@[simp] theorem sid_dupNode (S : Schema) (o : DupOpts) (n : DNode) : (dupNode S o n).sid = n.sid := by
  cases n <;> simp [dupNode, DNode.sid]
@[simp] theorem val_dupNode (S : Schema) (o : DupOpts) (n : DNode) : (dupNode S o n).val = n.val := by
  cases n <;> simp [dupNode, DNode.val]
@[simp] theorem isTerm_dupNode (S : Schema) (o : DupOpts) (n : DNode) : (dupNode S o n).isTerm = n.isTerm := by
  cases n <;> simp [dupNode, DNode.isTerm]

end LyModel.Merge
