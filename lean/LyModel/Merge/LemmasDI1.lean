import LyModel.Merge.LemmasCan3
import LyModel.Merge.LemmasKeep2
/-!
# Duplicate-instance nodes (key-less lists / state leaf-lists), basics: the `k`-th element satisfying a predicate
  (`nthIdx`) as a decomposition of the list, `AbsK` (the `k`-th match has a property) and how the three things a merge
  step does to a sibling list move it, the class of a duplicate-instance source node, the cache as an association list
-/
namespace LyModel.Merge
open LyModel LyModel.Tree

/-! ## `nthIdx` -/

theorem nthIdx_split (p : DNode → Bool) : ∀ (l : List DNode) (k i j : Nat), nthIdx p l k i = some j →
    ∃ a x b, l = a ++ x :: b ∧ i + a.length = j ∧ a.countP p = k ∧ p x = true
  | [], _, _, _, h => by simp [nthIdx] at h
  | y :: ys, k, i, j, h => by
    simp only [nthIdx] at h
    split at h
    · rename_i hy
      cases k with
      | zero =>
        simp only [Option.some.injEq] at h
        exact ⟨[], y, ys, by simp, by simpa using h, by simp, hy⟩
      | succ k =>
        simp only at h
        obtain ⟨a, x, b, h1, h2, h3, h4⟩ := nthIdx_split p ys k (i + 1) j h
        refine ⟨y :: a, x, b, by simp [h1], by simp; omega, ?_, h4⟩
        simp [List.countP_cons, hy, h3]
    · rename_i hy
      obtain ⟨a, x, b, h1, h2, h3, h4⟩ := nthIdx_split p ys k (i + 1) j h
      refine ⟨y :: a, x, b, by simp [h1], by simp; omega, ?_, h4⟩
      simp [List.countP_cons, hy, h3]

theorem nthIdx_of_split (p : DNode → Bool) (x : DNode) (b : List DNode) (hx : p x = true) :
    ∀ (a : List DNode) (i : Nat), nthIdx p (a ++ x :: b) (a.countP p) i = some (i + a.length)
  | [], i => by simp [nthIdx, hx]
  | y :: ys, i => by
    have ih := nthIdx_of_split p x b hx ys (i + 1)
    cases hy : p y with
    | true =>
      simp only [List.cons_append, nthIdx, hy, if_true, List.countP_cons, List.length_cons]
      rw [ih]
      congr 1
      omega
    | false =>
      simp only [List.cons_append, nthIdx, hy, Bool.false_eq_true, if_false, List.countP_cons, List.length_cons,
        Nat.add_zero]
      rw [ih]
      congr 1
      omega

theorem nthIdx_none_of_le (p : DNode → Bool) : ∀ (l : List DNode) (k i : Nat), l.countP p ≤ k → nthIdx p l k i = none
  | [], _, _, _ => by simp [nthIdx]
  | y :: ys, k, i, h => by
    cases hy : p y with
    | true =>
      simp only [List.countP_cons, hy, if_true] at h
      cases k with
      | zero => omega
      | succ k =>
        simp only [nthIdx, hy, if_true]
        exact nthIdx_none_of_le p ys k (i + 1) (by omega)
    | false =>
      simp only [List.countP_cons, hy, Bool.false_eq_true, if_false, Nat.add_zero] at h
      simp only [nthIdx, hy, Bool.false_eq_true, if_false]
      exact nthIdx_none_of_le p ys k (i + 1) h

theorem firstIdx_of_split (p : DNode → Bool) (a : List DNode) (x : DNode) (b : List DNode) (hx : p x = true)
    (ha : a.countP p = 0) : firstIdx p (a ++ x :: b) = some a.length := by
  have := nthIdx_of_split p x b hx a 0
  rw [ha] at this
  simpa [firstIdx] using this

theorem firstIdx_none_iff (p : DNode → Bool) (l : List DNode) : firstIdx p l = none ↔ l.countP p = 0 := by
  constructor
  · intro h
    rw [List.countP_eq_zero]
    intro a ha
    simp [firstIdx_none_all p l h a ha]
  · intro h
    exact nthIdx_none_of_le p l 0 0 (by omega)

/-! ## list surgery -/

theorem set_split {α : Type} : ∀ (l : List α) (j : Nat) (u u' : α), l[j]? = some u →
    ∃ a b, l = a ++ u :: b ∧ a.length = j ∧ l.set j u' = a ++ u' :: b
  | [], _, _, _, h => by simp at h
  | x :: xs, 0, u, u', h => by
    simp only [List.getElem?_cons_zero, Option.some.injEq] at h
    exact ⟨[], xs, by simp [h], rfl, by simp⟩
  | x :: xs, j + 1, u, u', h => by
    simp only [List.getElem?_cons_succ] at h
    obtain ⟨a, b, h1, h2, h3⟩ := set_split xs j u u' h
    exact ⟨x :: a, b, by simp [h1], by simp [h2], by simp [h3]⟩

theorem countP_replace (p : DNode → Bool) (a b : List DNode) (u u' : DNode) (h : p u' = p u) :
    (a ++ u' :: b).countP p = (a ++ u :: b).countP p := by
  simp [List.countP_append, List.countP_cons, h]

theorem countP_insert (p : DNode → Bool) (c d : List DNode) (z : DNode) :
    (c ++ z :: d).countP p = (c ++ d).countP p + if p z = true then 1 else 0 := by
  simp only [List.countP_append, List.countP_cons]
  omega

/-! ## `AbsK`: the `k`-th element satisfying `p` has the property `Φ` -/

def AbsK (p : DNode → Bool) (k : Nat) (cur : List DNode) (Φ : DNode → Prop) : Prop :=
  ∃ a t b, cur = a ++ t :: b ∧ p t = true ∧ a.countP p = k ∧ Φ t

theorem AbsK.mono {p : DNode → Bool} {k : Nat} {cur : List DNode} {Φ Ψ : DNode → Prop} (h : AbsK p k cur Φ)
    (hi : ∀ t, Φ t → Ψ t) : AbsK p k cur Ψ := by
  obtain ⟨a, t, b, h1, h2, h3, h4⟩ := h
  exact ⟨a, t, b, h1, h2, h3, hi t h4⟩

theorem AbsK.lt_count {p : DNode → Bool} {k : Nat} {cur : List DNode} {Φ : DNode → Prop} (h : AbsK p k cur Φ) :
    k < cur.countP p := by
  obtain ⟨a, t, b, h1, h2, h3, _⟩ := h
  rw [h1, List.countP_append, List.countP_cons, h3]
  simp [h2]

/-- another element is replaced by one of the same `p`-value: `u` is not the `k`-th match -/
theorem AbsK.replace_other {p : DNode → Bool} {k : Nat} {Φ : DNode → Prop} (a' b' : List DNode) (u u' : DNode)
    (h : AbsK p k (a' ++ u :: b') Φ) (hp : p u' = p u) (hk : p u = true → a'.countP p ≠ k) :
    AbsK p k (a' ++ u' :: b') Φ := by
  obtain ⟨a, t, b, h1, h2, h3, h4⟩ := h
  rcases List.append_eq_append_iff.1 h1 with ⟨m, hm1, hm2⟩ | ⟨m, hm1, hm2⟩
  · -- a = a' ++ m, u :: b' = m ++ t :: b
    cases m with
    | nil =>
      simp only [List.nil_append, List.cons.injEq] at hm2
      simp only [List.append_nil] at hm1
      obtain ⟨rfl, _⟩ := hm2
      subst hm1
      exact absurd h3 (hk h2)
    | cons m0 ms =>
      simp only [List.cons_append, List.cons.injEq] at hm2
      obtain ⟨rfl, rfl⟩ := hm2
      subst hm1
      refine ⟨a' ++ u' :: ms, t, b, by simp, h2, ?_, h4⟩
      rw [← h3]
      simp [List.countP_append, List.countP_cons, hp]
  · -- a' = a ++ m, t :: b = m ++ u :: b'
    cases m with
    | nil =>
      simp only [List.nil_append, List.cons.injEq] at hm2
      simp only [List.append_nil] at hm1
      obtain ⟨rfl, _⟩ := hm2
      subst hm1
      exact absurd h3 (hk h2)
    | cons m0 ms =>
      simp only [List.cons_append, List.cons.injEq] at hm2
      obtain ⟨rfl, rfl⟩ := hm2
      subst hm1
      exact ⟨a, t, ms ++ u' :: b', by simp, h2, h3, h4⟩

/-- the `k`-th match itself is replaced by a node that still matches -/
theorem AbsK.replace_self {p : DNode → Bool} {Ψ : DNode → Prop} (a b : List DNode) (t' : DNode) (hp : p t' = true)
    (hΨ : Ψ t') : AbsK p (a.countP p) (a ++ t' :: b) Ψ :=
  ⟨a, t', b, rfl, hp, rfl, hΨ⟩

/-- a node that does not match is linked somewhere -/
theorem AbsK.insert_false {p : DNode → Bool} {k : Nat} {Φ : DNode → Prop} (c d : List DNode) (z : DNode)
    (h : AbsK p k (c ++ d) Φ) (hz : p z = false) : AbsK p k (c ++ z :: d) Φ := by
  obtain ⟨a, t, b, h1, h2, h3, h4⟩ := h
  rcases List.append_eq_append_iff.1 h1 with ⟨m, hm1, hm2⟩ | ⟨m, hm1, hm2⟩
  · -- a = c ++ m, d = m ++ t :: b
    subst hm1
    subst hm2
    refine ⟨c ++ z :: m, t, b, by simp, h2, ?_, h4⟩
    rw [← h3]
    simp [List.countP_append, List.countP_cons, hz]
  · -- c = a ++ m, t :: b = m ++ d
    cases m with
    | nil =>
      simp only [List.nil_append] at hm2
      simp only [List.append_nil] at hm1
      subst hm1
      subst hm2
      refine ⟨c ++ [z], t, b, by simp, h2, ?_, h4⟩
      rw [← h3]
      simp [List.countP_append, List.countP_cons, hz]
    | cons m0 ms =>
      simp only [List.cons_append, List.cons.injEq] at hm2
      obtain ⟨rfl, rfl⟩ := hm2
      subst hm1
      exact ⟨a, t, ms ++ z :: d, by simp, h2, h3, h4⟩

/-- a node is linked behind every match -/
theorem AbsK.insert_after {p : DNode → Bool} {k : Nat} {Φ : DNode → Prop} (c d : List DNode) (z : DNode)
    (h : AbsK p k (c ++ d) Φ) (hd : ∀ y ∈ d, p y = false) : AbsK p k (c ++ z :: d) Φ := by
  obtain ⟨a, t, b, h1, h2, h3, h4⟩ := h
  rcases List.append_eq_append_iff.1 h1 with ⟨m, hm1, hm2⟩ | ⟨m, hm1, hm2⟩
  · -- a = c ++ m, d = m ++ t :: b
    have := hd t (by rw [hm2]; simp)
    rw [h2] at this
    exact absurd this (by simp)
  · cases m with
    | nil =>
      simp only [List.nil_append] at hm2
      have := hd t (by rw [← hm2]; simp)
      rw [h2] at this
      exact absurd this (by simp)
    | cons m0 ms =>
      simp only [List.cons_append, List.cons.injEq] at hm2
      obtain ⟨rfl, rfl⟩ := hm2
      subst hm1
      exact ⟨a, t, ms ++ z :: d, by simp, h2, h3, h4⟩

/-- the new last match -/
theorem AbsK.inserted {p : DNode → Bool} {Ψ : DNode → Prop} (c d : List DNode) (z : DNode) (hz : p z = true)
    (hd : ∀ y ∈ d, p y = false) (hΨ : Ψ z) : AbsK p ((c ++ d).countP p) (c ++ z :: d) Ψ := by
  refine ⟨c, z, d, rfl, hz, ?_, hΨ⟩
  rw [List.countP_append]
  have : d.countP p = 0 := by
    rw [List.countP_eq_zero]
    intro a ha
    simp [hd a ha]
  omega

/-! ## the class of a duplicate-instance node -/

theorem matchP_eq_instMatch (S : Schema) (x : DNode) (h : S.isDupInst x.sid = true) : matchP S x = instMatch S x := by
  simp [matchP, isDupInst_listKind S _ h]

theorem matchP_dup (S : Schema) (x y : DNode) (h : S.isDupInst x.sid = true) : matchP S x y = eqContent y x := by
  rw [matchP_eq_instMatch S x h, instMatch_dup S x y h]
  cases he : eqContent y x with
  | false => simp
  | true => simp [eqContent_sid he]

theorem matchP_strip_right (S : Schema) (x : DNode) {u u' : DNode} (h : strip u' = strip u) :
    matchP S x u' = matchP S x u := by
  have h1 : matchP S x (strip u') = matchP S x u' := matchP_relabel_right S _ _ x u'
  have h2 : matchP S x (strip u) = matchP S x u := matchP_relabel_right S _ _ x u
  rw [← h1, ← h2, h]

theorem matchP_class (S : Schema) {x x' : DNode} (hd : S.isDupInst x.sid = true) (he : eqContent x x' = true) :
    matchP S x' = matchP S x := by
  funext y
  have hd' : S.isDupInst x'.sid = true := by rw [← eqContent_sid he]; exact hd
  rw [matchP_dup S x y hd, matchP_dup S x' y hd']
  exact (eqContent_congr_right ((eqContent_iff x x').1 he) y).symm

theorem eqContent_comm (a b : DNode) : eqContent a b = eqContent b a := by
  cases h1 : eqContent a b <;> cases h2 : eqContent b a
  · rfl
  · rw [eqContent_symm h2] at h1; exact absurd h1 (by simp)
  · rw [eqContent_symm h1] at h2; exact absurd h2 (by simp)
  · rfl

theorem eqContent_dup_false {S : Schema} {x y : DNode} (hx : S.isDupInst x.sid = false) (hy : S.isDupInst y.sid = true) :
    eqContent x y = false := by
  cases h : eqContent x y with
  | false => rfl
  | true => rw [eqContent_sid h, hy] at hx; exact absurd hx (by simp)

/-- how many of the source siblings processed before are equal to `x` -/
def rkc (x : DNode) (pre : List DNode) : Nat := pre.countP (fun y => eqContent y x)

/-- the position among the matches at which the lookup for `x` finds its node: the first match, for a duplicate-instance
node the one after those handed out for the equal siblings before it -/
def rk (S : Schema) (x : DNode) (pre : List DNode) : Nat := if S.isDupInst x.sid then rkc x pre else 0

theorem rkc_nil (x : DNode) : rkc x [] = 0 := rfl

theorem rkc_cons (x y : DNode) (pre : List DNode) :
    rkc x (y :: pre) = rkc x pre + if eqContent y x = true then 1 else 0 := by
  simp [rkc, List.countP_cons]

theorem rkc_class {x x' : DNode} (he : eqContent x x' = true) (pre : List DNode) : rkc x' pre = rkc x pre := by
  simp only [rkc]
  apply List.countP_congr
  intro y _
  rw [eqContent_congr_right ((eqContent_iff x x').1 he) y]

theorem isKind_leaf_of_dup {S : Schema} {s : Nat} (h : S.isDupInst s = true) : S.isKind s .leaf = false := by
  cases hk : S.isKind s .leaf with
  | false => rfl
  | true => rw [isKind_leaf_not_dup hk] at h; exact absurd h (by simp)

end LyModel.Merge
