import LyModel.Merge.LemmasDI3
/-!
# The content of the merged level depends on the content of the target only (flags and metadata of the target play no
  role in the lookup and in the place of a new node); merging equal content changes no content

`mergeKids_strip`: targets that are equal up to flags and metadata give results that are equal up to flags and metadata.
`sub_strip`: merging the children of a source node into the children of a node with the same content (what happens
below a matched instance of a key-less list) keeps the content — the target is then, up to flags, the copy of the source,
which absorbs the source.
-/
namespace LyModel.Merge
open LyModel LyModel.Tree

/-! ## lookups do not see flags and metadata -/

theorem nthIdx_map (p : DNode → Bool) (f : DNode → DNode) : ∀ (l : List DNode) (k i : Nat),
    nthIdx p (l.map f) k i = nthIdx (fun y => p (f y)) l k i
  | [], _, _ => by simp [nthIdx]
  | x :: xs, k, i => by
    simp only [List.map_cons, nthIdx]
    split
    · cases k with
      | zero => rfl
      | succ k => exact nthIdx_map p f xs k (i + 1)
    · exact nthIdx_map p f xs k (i + 1)

theorem nthIdx_strip (p : DNode → Bool) (hp : ∀ y, p (strip y) = p y) (l : List DNode) (k i : Nat) :
    nthIdx p (l.map strip) k i = nthIdx p l k i := by
  rw [nthIdx_map]
  exact nthIdx_congr _ _ l k i (fun w _ => hp w)

theorem filter_length_strip (p : DNode → Bool) (hp : ∀ y, p (strip y) = p y) (l : List DNode) :
    ((l.map strip).filter p).length = (l.filter p).length := by
  rw [← List.countP_eq_length_filter, ← List.countP_eq_length_filter, List.countP_map]
  apply List.countP_congr
  intro y _
  simp [Function.comp, hp]

theorem findMatch_strip (S : Schema) (st : St) (x : DNode) :
    findMatch S { cur := st.cur.map strip, cache := st.cache, anc := [] } x = findMatch S st x := by
  have h1 : ∀ y, instMatch S x (strip y) = instMatch S x y := fun y => instMatch_relabel_right S _ _ x y
  have h2 : ∀ y : DNode, ((strip y).sid == x.sid) = (y.sid == x.sid) := fun y => by simp [strip]
  simp only [findMatch, firstIdx, nthIdx_strip _ h1, nthIdx_strip (fun y => y.sid == x.sid) h2,
    filter_length_strip _ h1]

theorem findMatch_congr (S : Schema) (st st' : St) (x : DNode) (hc : st.cur.map strip = st'.cur.map strip)
    (hk : st.cache = st'.cache) : findMatch S st x = findMatch S st' x := by
  rw [← findMatch_strip S st x, ← findMatch_strip S st' x, hc, hk]

theorem getElem?_strip_eq {l l' : List DNode} (h : l.map strip = l'.map strip) (i : Nat) :
    (l[i]? = none ∧ l'[i]? = none) ∨ ∃ t t', l[i]? = some t ∧ l'[i]? = some t' ∧ strip t = strip t' := by
  have : (l.map strip)[i]? = (l'.map strip)[i]? := by rw [h]
  rw [List.getElem?_map, List.getElem?_map] at this
  cases h1 : l[i]? <;> cases h2 : l'[i]? <;> simp_all

/-! ## updates and `strip` -/

theorem strip_sid (t : DNode) : (strip t).sid = t.sid := sid_relabel _ _ t

theorem strip_setVal (t : DNode) (v : Bytes) (f : Flags) : strip ((t.setVal v).setFlags f) = (strip t).setVal v := by
  cases t <;> simp [strip, relabel, DNode.setVal, DNode.setFlags]

theorem strip_kids (t : DNode) : (strip t).kids = t.kids.map strip := kids_relabel _ _ t

theorem strip_setKids (t : DNode) (k : List DNode) (b : Bool) :
    strip ((t.setKids k).setDflt b) = (strip t).setKids (k.map strip) := by
  cases t <;> simp [strip, relabel, DNode.setKids, DNode.setDflt, DNode.setFlags, relabelL_eq_map]

theorem insertBySchema_map (f : DNode → DNode) (hf : ∀ n, (f n).sid = n.sid) (z : DNode) : ∀ l : List DNode,
    insertBySchema (f z) (l.map f) = (insertBySchema z l).map f
  | [] => by simp [insertBySchema]
  | x :: xs => by
    simp only [List.map_cons, insertBySchema, hf]
    split
    · simp
    · simp [insertBySchema_map f hf z xs]

theorem insertSorted_strip (S : Schema) (z : DNode) : ∀ l : List DNode,
    insertSorted S (strip z) (l.map strip) = (insertSorted S z l).map strip
  | [] => by simp [insertSorted]
  | x :: xs => by
    have hc : cmpInst S (strip z) (strip x) = cmpInst S z x := cmpInst_relabel S _ _ _ _ z x
    simp only [List.map_cons, insertSorted, strip_sid, hc]
    split
    · simp
    · split
      · simp
      · simp [insertSorted_strip S z xs]

theorem insertNode_strip (S : Schema) (l : List DNode) (z : DNode) :
    insertNode S (l.map strip) (strip z) = (insertNode S l z).map strip := by
  have hany : (l.map strip).any (fun x => x.sid == z.sid) = l.any (fun x => x.sid == z.sid) := by
    rw [List.any_map]
    congr 1
    funext y
    simp [Function.comp, strip_sid]
  simp only [insertNode, strip_sid, hany]
  by_cases hcond : (S.isSorted z.sid && l.any fun x => x.sid == z.sid) = true
  · simp only [hcond, if_true]
    exact insertSorted_strip S z l
  · simp only [hcond, if_false]
    exact insertBySchema_map strip strip_sid z l

theorem mergeNode_found_none (S : Schema) (o : MergeOpts) (ctx : List Ctx) (x : DNode) (st : St) (i : Nat) (fi : Bool)
    (c : Cache) (hf : findMatch S st x = (some i, fi, c)) (hg : st.cur[i]? = none) :
    mergeNode S o ctx x st = insertSrc S o st c fi x := by
  cases x <;> simp only [mergeNode, hf, hg]

theorem insertSrc_cache (S : Schema) (o : MergeOpts) (st : St) (c : Cache) (fi : Bool) (x : DNode) :
    (insertSrc S o st c fi x).cache = if fi && S.isDupInst x.sid then cacheSet c x (1, 1) else c := rfl

theorem insertSrc_strip (S : Schema) (o : MergeOpts) (st st' : St) (c : Cache) (fi : Bool) (x : DNode)
    (hc : st.cur.map strip = st'.cur.map strip) :
    (insertSrc S o st c fi x).cur.map strip = (insertSrc S o st' c fi x).cur.map strip ∧
      (insertSrc S o st c fi x).cache = (insertSrc S o st' c fi x).cache := by
  refine ⟨?_, rfl⟩
  rw [insertSrc_cur, insertSrc_cur, ← insertNode_strip, ← insertNode_strip, hc]

/-! ## the congruence -/

mutual
theorem mergeNode_strip (S : Schema) (o : MergeOpts) : ∀ (x : DNode) (ctx ctx' : List Ctx) (st st' : St),
    st.cur.map strip = st'.cur.map strip → st.cache = st'.cache →
    (mergeNode S o ctx x st).cur.map strip = (mergeNode S o ctx' x st').cur.map strip ∧
      (mergeNode S o ctx x st).cache = (mergeNode S o ctx' x st').cache
  | .term ss sf sm sv, ctx, ctx', st, st', hc, hk => by
    have hfm := findMatch_congr S st st' (.term ss sf sm sv) hc hk
    rcases hf : findMatch S st (.term ss sf sm sv) with ⟨oi, fi, c⟩
    have hf' : findMatch S st' (.term ss sf sm sv) = (oi, fi, c) := by rw [← hfm, hf]
    cases oi with
    | none =>
      rw [mergeNode_of_none S o ctx _ st fi c hf, mergeNode_of_none S o ctx' _ st' fi c hf']
      exact insertSrc_strip S o st st' c fi _ hc
    | some i =>
      rcases getElem?_strip_eq hc i with ⟨h1, h2⟩ | ⟨t, t', h1, h2, he⟩
      · rw [mergeNode_found_none S o ctx _ st i fi c hf h1, mergeNode_found_none S o ctx' _ st' i fi c hf' h2]
        exact insertSrc_strip S o st st' c fi _ hc
      · rw [mergeNode_term_found S o ctx ss sf sm sv st i fi c t hf h1,
          mergeNode_term_found S o ctx' ss sf sm sv st' i fi c t' hf' h2]
        have hs : t'.sid = t.sid := by rw [← strip_sid t', ← he, strip_sid]
        rw [hs]
        split
        · simp only [changeTerm, List.map_set, strip_setVal, hc, he, and_self]
        · exact ⟨hc, rfl⟩
  | .inner ss sf sm sks, ctx, ctx', st, st', hc, hk => by
    have hfm := findMatch_congr S st st' (.inner ss sf sm sks) hc hk
    rcases hf : findMatch S st (.inner ss sf sm sks) with ⟨oi, fi, c⟩
    have hf' : findMatch S st' (.inner ss sf sm sks) = (oi, fi, c) := by rw [← hfm, hf]
    cases oi with
    | none =>
      rw [mergeNode_of_none S o ctx _ st fi c hf, mergeNode_of_none S o ctx' _ st' fi c hf']
      exact insertSrc_strip S o st st' c fi _ hc
    | some i =>
      rcases getElem?_strip_eq hc i with ⟨h1, h2⟩ | ⟨t, t', h1, h2, he⟩
      · rw [mergeNode_found_none S o ctx _ st i fi c hf h1, mergeNode_found_none S o ctx' _ st' i fi c hf' h2]
        exact insertSrc_strip S o st st' c fi _ hc
      · rw [mergeNode_inner_found S o ctx ss sf sm sks st i fi c t hf h1,
          mergeNode_inner_found S o ctx' ss sf sm sks st' i fi c t' hf' h2]
        have hkids : t.kids.map strip = t'.kids.map strip := by rw [← strip_kids, ← strip_kids, he]
        have ih := mergeKids_strip S o sks
          ({ np := S.isNpCont t.sid, others := allDfltExcept st.cur i } :: ctx)
          ({ np := S.isNpCont t'.sid, others := allDfltExcept st'.cur i } :: ctx') true
          { cur := t.kids, cache := [], anc := t.flags.dflt :: st.anc }
          { cur := t'.kids, cache := [], anc := t'.flags.dflt :: st'.anc } hkids rfl
        simp only [List.map_set, strip_setKids, hc, he, ih.1, and_self]
theorem mergeKids_strip (S : Schema) (o : MergeOpts) : ∀ (l : List DNode) (ctx ctx' : List Ctx) (ld : Bool) (st st' : St),
    st.cur.map strip = st'.cur.map strip → st.cache = st'.cache →
    (mergeKids S o ctx ld l st).cur.map strip = (mergeKids S o ctx' ld l st').cur.map strip ∧
      (mergeKids S o ctx ld l st).cache = (mergeKids S o ctx' ld l st').cache
  | [], _, _, _, _, _, hc, hk => by simpa [mergeKids] using ⟨hc, hk⟩
  | c :: cs, ctx, ctx', ld, st, st', hc, hk => by
    simp only [mergeKids]
    split
    · exact mergeKids_strip S o cs ctx ctx' true st st' hc hk
    · have := mergeNode_strip S o c ctx ctx' st st' hc hk
      exact mergeKids_strip S o cs ctx ctx' false _ _ this.1 this.2
end

/-! ## merging equal content -/

theorem map_strip_cp (o : MergeOpts) (l : List DNode) : (l.map (cp o)).map strip = l.map strip := by
  rw [List.map_map]
  apply List.map_congr_left
  intro y _
  exact strip_cp o y

/-- below a matched instance of a key-less list: the content stays -/
theorem sub_strip (S : Schema) (o : MergeOpts) (ctx : List Ctx) (sks tk : List DNode) (anc : List Bool)
    (hs : ∀ y ∈ sks, SrcD S y) (hp : pairwiseB (okPair S) sks = true)
    (hnk : ∀ y ∈ noKeys S sks, S.isKey y.sid = false) (he : tk.map strip = sks.map strip) :
    (mergeKids S o ctx true sks { cur := tk, cache := [], anc := anc }).cur.map strip = tk.map strip := by
  have habs : AbsDK S o true sks [] (([] ++ sks).map (cp o)) :=
    cpK_absorbsD S o sks [] [] true hs hp (by simp) (by simpa [procList] using hnk) (by intro y _ _; simp [rkc_nil])
  obtain ⟨c', hnoop⟩ := absDK_noop S o sks [] true { cur := sks.map (cp o), cache := [], anc := [] } []
    (cacheOK_nil S _) (by simpa using habs)
  have hcong := (mergeKids_strip S o sks ctx [] true { cur := tk, cache := [], anc := anc }
    { cur := sks.map (cp o), cache := [], anc := [] } (by rw [map_strip_cp]; exact he) rfl).1
  rw [hcong, hnoop, map_strip_cp, he]

end LyModel.Merge
