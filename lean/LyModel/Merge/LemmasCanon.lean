import LyModel.Merge.LemmasCan3
/-!
# The base's `canon` (rebuild every sibling list by inserting its nodes one by one) is the identity on trees that are
  ordered in the sense of `okPair` — the two formulations of "canonical order" agree
-/
namespace LyModel.Merge
open LyModel LyModel.Tree

theorem foldl_insertNode_id (S : Schema) : ∀ (rest pre : List DNode), (∀ x ∈ rest, ∀ y ∈ pre, okPair S y x = true) →
    pairwiseB (okPair S) rest = true → rest.foldl (insertNode S) pre = pre ++ rest
  | [], pre, _, _ => by simp
  | x :: rest, pre, hpre, hp => by
    rw [pairwiseB_cons] at hp
    simp only [List.foldl_cons]
    have : insertNode S pre x = pre ++ [x] := by
      apply insertNode_append
      intro y hy
      have hok := hpre x (by simp) y hy
      exact ⟨okPair_le hok, fun e hs => okPair_sorted hok e hs⟩
    rw [this, foldl_insertNode_id S rest (pre ++ [x])
      (by
        intro z hz y hy
        rcases List.mem_append.1 hy with hy | hy
        · exact hpre z (by simp [hz]) y hy
        · simp only [List.mem_singleton] at hy; subst hy; exact hp.1 z hz)
      hp.2]
    simp

theorem pairwiseB_suffix {α : Type} (r : α → α → Bool) (a b : List α) (h : pairwiseB r (a ++ b) = true) :
    pairwiseB r b = true := ((pairwiseB_append r a b).1 h).2.1

theorem foldl_insert_congr (S : Schema) (g : DNode → DNode) : ∀ (l acc : List DNode), (∀ n ∈ l, g n = n) →
    l.foldl (fun acc n => insertNode S acc (g n)) acc = l.foldl (insertNode S) acc
  | [], _, _ => rfl
  | a :: as, acc, h => by
    simp only [List.foldl_cons, h a (by simp)]
    exact foldl_insert_congr S g as _ (fun n hn => h n (by simp [hn]))

theorem canon_id (S : Schema) : ∀ (fuel : Nat) (f : List DNode), pairwiseB (okPair S) f = true → ordAll S f = true →
    canon S fuel f = f
  | 0, f, _, _ => rfl
  | fuel + 1, f, hp, ho => by
    simp only [canon]
    refine Eq.trans (foldl_insert_congr S _ f [] ?_) ?_
    · intro n hn
      have hon := (ordAll_iff S f).1 ho n hn
      cases n with
      | term => rfl
      | inner s fl m ks =>
        simp only [ordNode, Bool.and_eq_true] at hon
        have hsplit : ks = keysOf S ks ++ noKeys S ks := by simp [keysOf, noKeys, List.takeWhile_append_dropWhile]
        have h1 : pairwiseB (okPair S) (noKeys S ks) = true := by
          rw [hsplit] at hon; exact pairwiseB_suffix _ _ _ hon.1
        have h2 : ordAll S (noKeys S ks) = true := by
          rw [ordAll_iff] at hon ⊢
          intro c hc
          exact hon.2 c ((List.dropWhile_suffix _).subset hc)
        simp only [canon_id S fuel _ h1 h2]
        rw [← hsplit]
    · rw [foldl_insertNode_id S f [] (by simp) hp]
      simp

end LyModel.Merge
