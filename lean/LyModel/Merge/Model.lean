import LyModel.Tree.DTree
/-!
# Model of `lyd_merge_*` and `lyd_dup_*` (src/tree_data.c) on `DTree` — C14

## merge
One call of `mergeNode` is one call of `lyd_merge_sibling_r` for one source sibling; `mergeKids` is the loop over the
source siblings (`lyd_merge`: top level; `LY_LIST_FOR_SAFE(lyd_child_no_keys(sibling_src), …)`: below a matched inner
node — the leading keys are skipped with the flag `leading`).  The state of one sibling level (`St`):

* `cur`   the target siblings (`*first_trg`), changed in place: a matched leaf gets the source value
          (`lyd_change_term_val`), an unmatched source node is copied (`lyd_dup_single(RECURSIVE | WITH_FLAGS)`) or —
          `LYD_MERGE_DESTRUCT` — moved (`lyd_unlink_ignore_lyds`) and linked at the place `lyd_insert_node(…,
          LYD_INSERT_NODE_DEFAULT)` gives it (`Tree.insertNode`);
* `cache` the duplicate-instance cache (`struct lyd_dup_inst`, `lyd_dup_inst_next`) of this level: per class of equal
          instances of a key-less list / state leaf-list how many target instances were handed out (`used`) of how many
          there were when the class was first looked up (`count`);
* `anc`   `LYD_DEFAULT` of the target ancestors, nearest first: `lyd_np_cont_dflt_del` / `lyd_np_cont_dflt_set` walk up
          the parents whenever a non-default node is linked or a leaf changes its default-ness; `Ctx` carries what the
          walk reads from an ancestor and does not change during the descent (`lysc_is_np_cont`, whether all its other
          children are default nodes).

What the C does and the model therefore does too: a source node flagged default is *copied* like any other when the
target has no such node (`LYD_MERGE_DEFAULTS` only decides whether a default source leaf overwrites an existing target
leaf); a matched leaf-list instance / list instance / container keeps the target's flags and metadata; data of another
case of a choice stays; equal instances of a key-less list / state leaf-list are matched one to one, the surplus is
appended.

Not modelled: the `lyds` pool of `LYD_MERGE_DESTRUCT` — the model of the consuming merge links the moved node with the
same `insertNode` (what the C does when the pool is empty; finding F160 is the case where a filled pool changes the
result).  Model fragment (assumption): no two equal instances of a keyed list / configuration leaf-list and at most one
instance of a leaf / container among siblings (libyang then hands out *further* instances through the same cache).

## dup
`dupNode` is `lyd_dup_r`, `dupSibsLoop` the sibling loop of `lyd_dup` with its insert-order decisions
(`LYD_DUP_NO_LYDS`, `first_llist`), `dupTop` adds `lyd_dup_get_local_parent` (`LYD_DUP_WITH_PARENTS`).
Core Lean only.
-/
namespace LyModel.Merge
open LyModel LyModel.Tree

/-! ## options -/

structure MergeOpts where
  destruct : Bool := false      -- LYD_MERGE_DESTRUCT   0x01
  defaults : Bool := false      -- LYD_MERGE_DEFAULTS   0x02
  withFlags : Bool := false     -- LYD_MERGE_WITH_FLAGS 0x04
  deriving Repr, BEq, DecidableEq, Inhabited

def MergeOpts.ofNat (n : Nat) : MergeOpts :=
  { destruct := n % 2 == 1, defaults := n / 2 % 2 == 1, withFlags := n / 4 % 2 == 1 }

structure DupOpts where
  recursive : Bool := false     -- LYD_DUP_RECURSIVE    0x01
  noMeta : Bool := false        -- LYD_DUP_NO_META      0x02
  withParents : Bool := false   -- LYD_DUP_WITH_PARENTS 0x04
  withFlags : Bool := false     -- LYD_DUP_WITH_FLAGS   0x08
  noLyds : Bool := false        -- LYD_DUP_NO_LYDS      0x40
  deriving Repr, BEq, DecidableEq, Inhabited

def DupOpts.ofNat (n : Nat) : DupOpts :=
  { recursive := n % 2 == 1, noMeta := n / 2 % 2 == 1, withParents := n / 4 % 2 == 1, withFlags := n / 8 % 2 == 1,
    noLyds := n / 64 % 2 == 1 }

/-- the options `lyd_merge_sibling_r` copies an unmatched source node with -/
def DupOpts.full : DupOpts := { recursive := true, withFlags := true }

/-! ## instance comparison -/

mutual
/-- `lyd_compare_single(a, b, LYD_COMPARE_FULL_RECURSION) == LY_SUCCESS`: schema, values and structure, siblings
pairwise; flags and metadata ignored -/
def eqContent : DNode → DNode → Bool
  | .inner s _ _ k, .inner s' _ _ k' => s == s' && eqContentL k k'
  | .term s _ _ v, .term s' _ _ v' => s == s' && v == v'
  | _, _ => false
def eqContentL : List DNode → List DNode → Bool
  | [], [] => true
  | a :: as, b :: bs => eqContent a b && eqContentL as bs
  | _, _ => false
end

def keysEq : List DNode → List DNode → Bool
  | [], [] => true
  | a :: as, b :: bs => a.sid == b.sid && a.val == b.val && keysEq as bs
  | _, _ => false

/-- the comparison `lyd_find_sibling_first(siblings, src)` makes with the sibling `x`: full recursion for a key-less
list / state leaf-list, the value for a leaf-list, the keys for a list -/
def instMatch (S : Schema) (src x : DNode) : Bool :=
  x.sid == src.sid &&
    (if S.isDupInst src.sid then eqContent x src
     else if src.isTerm then x.isTerm && x.val == src.val
     else keysEq (keysOf S x.kids) (keysOf S src.kids))

/-! ## duplication (`lyd_dup_r`) -/

def dupFlags (o : DupOpts) (f : Flags) : Flags :=
  if o.withFlags then f else { dflt := f.dflt, whenTrue := false, new := true }

def dupMetas (o : DupOpts) (m : List Meta) : List Meta := if o.noMeta then [] else m

mutual
/-- `lyd_dup_r`: the children are linked one by one into the copy, so the copy of an inner node keeps `LYD_DEFAULT`
only if every copied child has it (`lyd_insert_node` → `lyd_np_cont_dflt_del`); without `LYD_DUP_RECURSIVE` a list keeps
its keys -/
def dupNode (S : Schema) (o : DupOpts) : DNode → DNode
  | .term s f m v => .term s (dupFlags o f) (dupMetas o m) v
  | .inner s f m ks =>
    let ks' := if o.recursive then dupAll S o ks else dupKeys S o ks
    let f' := dupFlags o f
    .inner s { f' with dflt := f'.dflt && ks'.all (·.flags.dflt) } (dupMetas o m) ks'
def dupAll (S : Schema) (o : DupOpts) : List DNode → List DNode
  | [] => []
  | n :: ns => dupNode S o n :: dupAll S o ns
/-- `for (child = orig->child; child && lysc_is_key(child->schema); child = child->next)` -/
def dupKeys (S : Schema) (o : DupOpts) : List DNode → List DNode
  | [] => []
  | n :: ns => if S.isKey n.sid then dupNode S o n :: dupKeys S o ns else []
end

mutual
/-- `LYD_TREE_DFS … elem->flags |= LYD_NEW` -/
def setNew : DNode → DNode
  | .term s f m v => .term s { f with new := true } m v
  | .inner s f m ks => .inner s { f with new := true } m (setNewL ks)
def setNewL : List DNode → List DNode
  | [] => []
  | n :: ns => setNew n :: setNewL ns
end

/-! ## default flags of the ancestors -/

/-- what `lyd_np_cont_dflt_set` reads from one ancestor besides its own flag -/
structure Ctx where
  np : Bool          -- `lysc_is_np_cont(parent->schema)`
  others : Bool      -- all children except the one on the path have `LYD_DEFAULT`
  deriving Repr, BEq, DecidableEq, Inhabited

/-- `lyd_np_cont_dflt_del`: `while (parent && (parent->flags & LYD_DEFAULT)) { clear; parent = up }` -/
def ancDel : List Bool → List Bool
  | true :: r => false :: ancDel r
  | a => a

/-- `lyd_np_cont_dflt_set`; `allDflt`: every child of the nearest ancestor has `LYD_DEFAULT` -/
def ancSet : List Ctx → List Bool → Bool → List Bool
  | c :: cs, a :: as, allDflt =>
    if a || !c.np || !allDflt then a :: as else true :: ancSet cs as c.others
  | _, as, _ => as

/-! ## merge -/

abbrev Cache := List (DNode × Nat × Nat)

structure St where
  cur : List DNode
  cache : Cache := []
  anc : List Bool := []
  deriving Inhabited

def cacheGet (c : Cache) (src : DNode) : Option (Nat × Nat) := (c.find? fun e => eqContent e.1 src).map (·.2)

def cacheSet : Cache → DNode → Nat × Nat → Cache
  | [], src, v => [(src, v)]
  | e :: es, src, v => if eqContent e.1 src then (e.1, v) :: es else e :: cacheSet es src v

/-- index of the `k`-th (from 0) element satisfying `p` -/
def nthIdx (p : DNode → Bool) : List DNode → Nat → Nat → Option Nat
  | [], _, _ => none
  | x :: xs, k, i =>
    if p x then (match k with | 0 => some i | k + 1 => nthIdx p xs k (i + 1)) else nthIdx p xs k (i + 1)

def firstIdx (p : DNode → Bool) (l : List DNode) : Option Nat := nthIdx p l 0 0

/-- the lookup at the head of `lyd_merge_sibling_r` + `lyd_dup_inst_next`: (index of the match, `first_inst`, cache) -/
def findMatch (S : Schema) (st : St) (src : DNode) : Option Nat × Bool × Cache :=
  if S.isKind src.sid .list || S.isKind src.sid .leaflist then
    match firstIdx (instMatch S src) st.cur with
    | none => (none, true, st.cache)
    | some i =>
      if !S.isDupInst src.sid then (some i, false, st.cache)
      else
        let uc := (cacheGet st.cache src).getD (0, (st.cur.filter (instMatch S src)).length)
        if uc.1 == uc.2 then (none, false, st.cache)                 -- all equal instances used: append
        else (nthIdx (instMatch S src) st.cur uc.1 0, false, cacheSet st.cache src (uc.1 + 1, uc.2))
  else
    match firstIdx (fun x => x.sid == src.sid) st.cur with
    | none => (none, true, st.cache)
    | some i => (some i, false, st.cache)

def allDfltExcept (l : List DNode) (i : Nat) : Bool := (l.eraseIdx i).all (·.flags.dflt)

/-- matched leaf: `lyd_change_term_val(match, &src->value, 0, src->flags & LYD_DEFAULT)` and the flag overwrite of
`LYD_MERGE_WITH_FLAGS` -/
def changeTerm (o : MergeOpts) (ctx : List Ctx) (st : St) (cache : Cache) (i : Nat) (trg : DNode) (sf : Flags)
    (sv : Bytes) : St :=
  -- `val_change`: LYD_NEW
  let f1 : Flags := if trg.val != sv then { trg.flags with new := true } else trg.flags
  -- the default flag follows the source's
  let f2 : Flags := { f1 with dflt := sf.dflt }
  let anc' :=
    if f1.dflt && !sf.dflt then ancDel st.anc
    else if !f1.dflt && sf.dflt then
      ancSet ctx st.anc ((st.cur.set i ((trg.setVal sv).setFlags f2)).all (·.flags.dflt))
    else st.anc
  { cur := st.cur.set i ((trg.setVal sv).setFlags (if o.withFlags then sf else f2)), cache := cache, anc := anc' }

/-- unmatched source node: copy or move, `LYD_NEW`, link, remember the first instance -/
def insertSrc (S : Schema) (o : MergeOpts) (st : St) (cache : Cache) (firstInst : Bool) (src : DNode) : St :=
  let x0 := if o.destruct then src else dupNode S DupOpts.full src
  let x := if o.withFlags then x0 else setNew x0
  { cur := insertNode S st.cur x,
    cache := if firstInst && S.isDupInst src.sid then cacheSet cache src (1, 1) else cache,
    anc := if x.flags.dflt then st.anc else ancDel st.anc }

mutual
def mergeNode (S : Schema) (o : MergeOpts) (ctx : List Ctx) : DNode → St → St
  | .term ss sf sm sv, st =>
    match findMatch S st (.term ss sf sm sv) with
    | (some i, fi, cache) =>
      match st.cur[i]? with
      | some trg =>
        if S.isKind trg.sid .leaf && (o.defaults || !sf.dflt) then changeTerm o ctx st cache i trg sf sv
        else { st with cache := cache }
      | none => insertSrc S o st cache fi (.term ss sf sm sv)
    | (none, fi, cache) => insertSrc S o st cache fi (.term ss sf sm sv)
  | .inner ss sf sm sks, st =>
    match findMatch S st (.inner ss sf sm sks) with
    | (some i, fi, cache) =>
      match st.cur[i]? with
      | some trg =>
        let ctx' := { np := S.isNpCont trg.sid, others := allDfltExcept st.cur i : Ctx } :: ctx
        let sub := mergeKids S o ctx' true sks { cur := trg.kids, cache := [], anc := trg.flags.dflt :: st.anc }
        let trg' := (trg.setKids sub.cur).setDflt (sub.anc.headD trg.flags.dflt)
        { cur := st.cur.set i trg', cache := cache, anc := sub.anc.tail }
      | none => insertSrc S o st cache fi (.inner ss sf sm sks)
    | (none, fi, cache) => insertSrc S o st cache fi (.inner ss sf sm sks)
/-- the loop over the source siblings; `leading`: still inside the leading list keys (`lyd_child_no_keys`) -/
def mergeKids (S : Schema) (o : MergeOpts) (ctx : List Ctx) (leading : Bool) : List DNode → St → St
  | [], st => st
  | c :: cs, st =>
    if leading && S.isKey c.sid then mergeKids S o ctx true cs st
    else mergeKids S o ctx false cs (mergeNode S o ctx c st)
end

/-- `lyd_merge_siblings(&target, source, opts)` (and `lyd_merge_module` for the one module of S1) -/
def merge (S : Schema) (o : MergeOpts) (target source : List DNode) : List DNode :=
  (mergeKids S o [] false source { cur := target }).cur

/-- `lyd_merge_tree`: the first source sibling only -/
def mergeTree (S : Schema) (o : MergeOpts) (target source : List DNode) : List DNode :=
  merge S o target (source.take 1)

/-! ## dup of siblings (`lyd_dup`) -/

inductive Order where
  | last | bySchema | dflt
  deriving Repr, BEq, DecidableEq

def insertWith (S : Schema) : Order → List DNode → DNode → List DNode
  | .last, acc, x => acc ++ [x]
  | .bySchema, acc, x => insertBySchema x acc
  | .dflt, acc, x => insertNode S acc x

/-- the sibling loop of `lyd_dup`: `fl` = schema of `first_llist`.  `keysExist`: the copies go into a duplicated parent
that already has its keys (`LYD_DUP_WITH_PARENTS`), a key is then looked up instead of copied. -/
def dupSibsLoop (S : Schema) (o : DupOpts) (keysExist : Bool) : List DNode → List DNode → Option Nat → List DNode
  | [], acc, _ => acc
  | n :: ns, acc, fl =>
    if S.isKey n.sid then
      if keysExist then dupSibsLoop S o keysExist ns acc fl
      else dupSibsLoop S o keysExist ns (insertNode S acc (dupNode S o n)) fl
    else
      let base := if o.noLyds then Order.bySchema else Order.dflt
      let isLl := S.isKind n.sid .list || S.isKind n.sid .leaflist
      let d : Order × Option Nat := match fl with
        | some s => if n.sid != s then (base, none) else (Order.last, fl)
        | none => (base, if isLl then some n.sid else none)
      let x := dupNode S o n
      let acc' := insertWith S d.1 acc x
      -- `if (first_llist && dup->next) first_llist = NULL`
      let fl2 := if d.2.isSome && !(beqL acc' (acc ++ [x])) then none else d.2
      dupSibsLoop S o keysExist ns acc' fl2

/-- `lyd_dup_siblings(first, NULL, opts)` without `LYD_DUP_WITH_PARENTS` -/
def dupSiblings (S : Schema) (o : DupOpts) (sibs : List DNode) : List DNode := dupSibsLoop S o false sibs [] none

/-- flags of the duplicated parents after `lyd_dup_get_local_parent` linked the chain (nearest first): linking a
non-default child clears the flag of its new parent -/
def chainFlags : List Bool → Bool → List Bool
  | [], _ => []
  | d :: ds, childDflt => let e := d && childDflt; e :: chainFlags ds e

/-- nest the remaining duplicated parents (nearest first, with their final default flag) around the finished subtree -/
def nestParents (S : Schema) : List (DNode × Bool) → DNode → DNode
  | [], inner => inner
  | (p, d) :: ps, inner => nestParents S ps ((p.setKids (insertNode S p.kids inner)).setDflt d)

/-- `lyd_dup(node, …, nosiblings)`: `sibs` = the node (and its following siblings), `ancestors` = its parents, nearest
first.  Result: the new tree from its root. -/
def dupTop (S : Schema) (o : DupOpts) (single : Bool) (ancestors sibs : List DNode) : List DNode :=
  let sibs := if single then sibs.take 1 else sibs
  if !o.withParents then dupSibsLoop S o false sibs [] none
  else
    let po := { o with recursive := false }
    match ancestors.map (dupNode S po) with
    | [] => dupSibsLoop S o false sibs [] none
    | p1 :: rest =>
      let fl0 := chainFlags ((p1 :: rest).map (·.flags.dflt)) true
      let kids1 := dupSibsLoop S o true sibs p1.kids none
      let added := kids1.filter fun k => !(S.isKey k.sid)
      let fl := added.foldl (fun a k => if k.flags.dflt then a else ancDel a) fl0
      [nestParents S (rest.zip (fl.drop 1)) ((p1.setKids kids1).setDflt (fl.headD false))]

/-- `lyd_dup_single / lyd_dup_siblings(node, parent, opts)` with a caller-supplied parent that has children already: every
    copy (`lyd_dup_r`) is linked into the parent by `lyd_insert_node`; a key is not copied but looked up in the parent.  The
    `first_llist` fast path of `lyd_dup` (following instances of the (leaf-)list appended with `LYD_INSERT_NODE_LAST`) is taken
    by the C code only while the previous copy became the last child and the parent held no earlier instance — exactly when
    appending IS the sorted place; so the result is the one-by-one insertion.  The parent loses `LYD_DEFAULT` when a
    non-default copy is linked (`lyd_np_cont_dflt_del`). -/
def dupInto (S : Schema) (o : DupOpts) (single : Bool) (parent : DNode) (sibs : List DNode) : DNode :=
  let sibs := (if single then sibs.take 1 else sibs).filter fun n => !(S.isKey n.sid)
  let base := if o.noLyds then Order.bySchema else Order.dflt
  let copies := sibs.map (dupNode S o)
  let kids := copies.foldl (fun acc x => insertWith S base acc x) parent.kids
  (parent.setKids kids).setDflt (parent.flags.dflt && copies.all (·.flags.dflt))

/-- the same with `LYD_DUP_WITH_PARENTS` and a node that sits deeper: `lyd_dup_get_local_parent` copies the parents between the
    node and the ancestor whose schema is the given parent's (`mids`, nearest first; shallow copies: a list keeps its keys),
    links the chain into the given parent FIRST, and the copies then go into the nearest copied parent; `LYD_DEFAULT` is
    cleared upwards, through the given parent, as soon as a non-default node hangs below.  The given parent may well hold an
    instance of the copied intermediate parent already: it gets a second one. -/
def dupIntoChain (S : Schema) (o : DupOpts) (single : Bool) (parent : DNode) (mids sibs : List DNode) : DNode :=
  match dupTop S { o with withParents := true } single mids sibs with
  | [root] => (parent.setKids (insertNode S parent.kids root)).setDflt (parent.flags.dflt && root.flags.dflt)
  | _ => parent

/-! ## addressing nodes by their position in the dump (driver) -/

/-- the node with DFS pre-order index `k`: (its ancestors nearest first, the node and its following siblings) -/
def locate : (fuel : Nat) → List DNode → List DNode → Nat → Option (List DNode × List DNode) ⊕ Nat
  | 0, _, _, k => .inr k
  | _ + 1, _, [], k => .inr k
  | fuel + 1, anc, n :: ns, k =>
    if k == 0 then .inl (some (anc, n :: ns))
    else
      match locate fuel (n :: anc) n.kids (k - 1) with
      | .inl r => .inl r
      | .inr k' => locate fuel anc ns k'

mutual
def sizeNode : DNode → Nat
  | .term .. => 1
  | .inner _ _ _ ks => 1 + sizeL ks
def sizeL : List DNode → Nat
  | [] => 0
  | n :: ns => sizeNode n + sizeL ns
end

def locateNode (f : List DNode) (k : Nat) : Option (List DNode × List DNode) :=
  match locate (2 * sizeL f + 2) [] f k with
  | .inl r => r
  | .inr _ => none

/-- DFS index of the first node of the forest that is `beq` to `x` at depth `depth` -/
def indexOfAt : (fuel : Nat) → List DNode → DNode → Nat → Nat → Option Nat ⊕ Nat
  | 0, _, _, _, i => .inr i
  | _ + 1, [], _, _, i => .inr i
  | fuel + 1, n :: ns, x, depth, i =>
    if depth == 0 && n.beq x then .inl (some i)
    else
      match (if depth == 0 then .inr (i + sizeNode n) else indexOfAt fuel n.kids x (depth - 1) (i + 1)) with
      | .inl r => .inl r
      | .inr i' => indexOfAt fuel ns x depth i'

end LyModel.Merge
