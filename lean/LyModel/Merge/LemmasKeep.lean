import LyModel.Merge.LemmasPath
/-!
# A target node whose path the source does not contain is unchanged in the result
-/
namespace LyModel.Merge
open LyModel LyModel.Tree

/-! ## `matchP` is an equivalence on well-shaped nodes that are no duplicate-instance nodes -/

theorem keysEq_comm (a b : List DNode) : keysEq a b = keysEq b a := by
  cases h1 : keysEq a b <;> cases h2 : keysEq b a <;> simp_all
  · have := keysEq_symm _ _ h2; simp_all
  · have := keysEq_symm _ _ h1; simp_all

theorem matchP_symm {S : Schema} {a b : DNode} (ha : lvlOk S a = true) (hb : lvlOk S b = true)
    (hd : S.isDupInst a.sid = false) : matchP S a b = matchP S b a := by
  by_cases e : b.sid = a.sid
  · have hdb : S.isDupInst b.sid = false := by rw [e]; exact hd
    have hsh := sameShape hb ha e
    simp only [matchP, e]
    split
    · rw [instMatch_nodup S a b hd, instMatch_nodup S b a hdb, e, hsh]
      simp only [beq_self_eq_true, Bool.true_and]
      cases hat : a.isTerm with
      | true =>
        simp only [if_true, Bool.true_and]
        cases h1 : (b.val == a.val) <;> cases h2 : (a.val == b.val) <;> simp_all
      | false =>
        simp only [Bool.false_eq_true, if_false]
        exact keysEq_comm _ _
    · simp [e]
  · have h1 : matchP S a b = false := by
      cases hm : matchP S a b with
      | false => rfl
      | true => exact absurd (matchP_sid hm) e
    have h2 : matchP S b a = false := by
      cases hm : matchP S b a with
      | false => rfl
      | true => exact absurd (matchP_sid hm).symm e
    rw [h1, h2]

/-- `a ~ b`, `b ~ c` ⟹ `a ~ c` -/
theorem matchP_trans2 {S : Schema} {a b c : DNode} (ha : lvlOk S a = true) (hb : lvlOk S b = true)
    (hc : lvlOk S c = true) (hd : S.isDupInst a.sid = false) (h1 : matchP S a b = true) (h2 : matchP S b c = true) :
    matchP S a c = true := by
  have e1 : b.sid = a.sid := matchP_sid h1
  have e2 : c.sid = b.sid := matchP_sid h2
  have hdb : S.isDupInst b.sid = false := by rw [e1]; exact hd
  have hdc : S.isDupInst c.sid = false := by rw [e2]; exact hdb
  -- c ~ b and a ~ b give c ~ a … use the two-sources form with target b, then symmetry
  have h2' : matchP S c b = true := by rw [matchP_symm hc hb hdc]; exact h2
  have := matchP_trans (x := c) (y := a) (t := b) h2' h1 hdc (sameShape hc ha (by rw [e2, e1]))
  rw [matchP_symm ha hc hd]
  exact this

/-- nodes of the same identity are found by the same lookups -/
theorem matchP_congr {S : Schema} {a b w : DNode} (ha : lvlOk S a = true) (hb : lvlOk S b = true)
    (hw : lvlOk S w = true) (hd : S.isDupInst a.sid = false) (h : matchP S a b = true) :
    matchP S b w = matchP S a w := by
  have e1 : b.sid = a.sid := matchP_sid h
  have hdb : S.isDupInst b.sid = false := by rw [e1]; exact hd
  cases h1 : matchP S a w with
  | true =>
    have hba : matchP S b a = true := by rw [matchP_symm hb ha hdb]; exact h
    exact matchP_trans2 hb ha hw hdb hba h1
  | false =>
    cases h2 : matchP S b w with
    | false => rfl
    | true =>
      have := matchP_trans2 ha hb hw hd h h2
      rw [this] at h1
      exact absurd h1 (by simp)

/-! ## a node of a well-formed sibling list is the first one of its identity -/

theorem self_first (S : Schema) (a : List DNode) (y : DNode) (b : List DNode)
    (hp : pairwiseB (okPair S) (a ++ y :: b) = true) (hd : S.isDupInst y.sid = false) :
    AbsAt S y (a ++ y :: b) (fun t => t = y) := by
  rw [pairwiseB_append] at hp
  refine ⟨a.length, y, firstIdx_append _ a y b ?_ (matchP_refl S y), getElem?_append_cons _ _ _, rfl⟩
  intro z hz
  exact (okPair_not_match (hp.2.2 z hz y (by simp)) hd).1

theorem mem_split {y : DNode} {l : List DNode} (h : y ∈ l) : ∃ a b, l = a ++ y :: b := List.append_of_mem h

theorem find?_of_absAt {S : Schema} {x : DNode} {cur : List DNode} {Φ : DNode → Prop} (h : AbsAt S x cur Φ) :
    ∃ t, cur.find? (matchP S x) = some t ∧ Φ t := by
  obtain ⟨i, t, h1, h2, h3⟩ := h
  exact ⟨t, find?_of_firstIdx _ _ _ _ h1 h2, h3⟩

/-- in a well-formed forest the chain of a node finds the node -/
theorem descend_self (S : Schema) : ∀ (chain : List DNode) (ld : Bool) (f : List DNode) (y : DNode),
    pairwiseB (okPair S) f = true → ordAll S f = true → IsChain S chain ld f →
    (∀ c ∈ chain, S.isDupInst c.sid = false) → chain.getLast? = some y → descend S chain f = some y
  | [], _, _, _, _, _, hc, _, _ => by simp [IsChain] at hc
  | [y0], ld, f, y, hp, _, hc, hd, hl => by
    simp only [List.getLast?_singleton, Option.some.injEq] at hl
    subst hl
    simp only [IsChain] at hc
    obtain ⟨a, b, e⟩ := mem_split (procList_subset S ld f _ hc)
    subst e
    obtain ⟨t, h1, h2⟩ := find?_of_absAt (self_first S a y0 b hp (hd y0 (by simp)))
    simp [descend, h1, h2]
  | y0 :: y1 :: ys, ld, f, y, hp, ho, hc, hd, hl => by
    simp only [IsChain] at hc
    have hmem := procList_subset S ld f _ hc.1
    obtain ⟨a, b, e⟩ := mem_split hmem
    subst e
    obtain ⟨t, h1, h2⟩ := find?_of_absAt (self_first S a y0 b hp (hd y0 (by simp)))
    subst h2
    have hoy : ordNode S t = true := (ordAll_iff S _).1 ho t hmem
    have hl' : (y1 :: ys).getLast? = some y := by simpa [List.getLast?_cons_cons] using hl
    cases t with
    | term =>
      have := hc.2
      cases ys <;> simp [IsChain, procList, noKeys, DNode.kids] at this
    | inner ts tf tm tk =>
      simp only [ordNode, Bool.and_eq_true] at hoy
      have := descend_self S (y1 :: ys) true tk y hoy.1 hoy.2 hc.2 (fun c hc' => hd c (by simp [hc'])) hl'
      simp only [descend, h1]
      exact this

end LyModel.Merge
