import LyModel.Merge.LemmasDI4
/-!
# One merge step, described for every source node (`StepD`): either a copy of the source node is linked — a
  duplicate-instance node behind all nodes equal to it — or one matching node is replaced by a node that every lookup
  treats like the old one; what the duplicate-instance cache decides (`dupLookup`)
-/
namespace LyModel.Merge
open LyModel LyModel.Tree

theorem nthIdx_some_of_lt (p : DNode → Bool) : ∀ (l : List DNode) (k i : Nat), k < l.countP p →
    ∃ j, nthIdx p l k i = some j
  | [], _, _, h => by simp at h
  | y :: ys, k, i, h => by
    cases hy : p y with
    | true =>
      simp only [List.countP_cons, hy, if_true] at h
      cases k with
      | zero => exact ⟨i, by simp [nthIdx, hy]⟩
      | succ k =>
        obtain ⟨j, hj⟩ := nthIdx_some_of_lt p ys k (i + 1) (by omega)
        exact ⟨j, by simp only [nthIdx, hy, if_true]; exact hj⟩
    | false =>
      simp only [List.countP_cons, hy, Bool.false_eq_true, if_false, Nat.add_zero] at h
      obtain ⟨j, hj⟩ := nthIdx_some_of_lt p ys k (i + 1) h
      exact ⟨j, by simp only [nthIdx, hy, Bool.false_eq_true, if_false]; exact hj⟩

theorem matchP_sid_ne {S : Schema} {x w : DNode} (h : w.sid ≠ x.sid) : matchP S x w = false := by
  cases hm : matchP S x w with
  | false => rfl
  | true => exact absurd (matchP_sid hm) h

theorem cmpInst_strip_left (S : Schema) {a a' : DNode} (h : strip a = strip a') (b : DNode) :
    cmpInst S a b = cmpInst S a' b := by
  have h1 : cmpInst S (strip a) b = cmpInst S a b := by
    have := cmpInst_relabel S (fun _ => {}) id (fun _ => []) id a b
    rw [relabel_id] at this
    exact this
  have h2 : cmpInst S (strip a') b = cmpInst S a' b := by
    have := cmpInst_relabel S (fun _ => {}) id (fun _ => []) id a' b
    rw [relabel_id] at this
    exact this
  rw [← h1, ← h2, h]

theorem set_at_split {l a : List DNode} {t : DNode} {b : List DNode} (e : l = a ++ t :: b) (t' : DNode) :
    l.set a.length t' = a ++ t' :: b := by
  subst e
  simp

/-! ## a new duplicate-instance node is put behind all nodes equal to it -/

theorem insertNode_after_class (S : Schema) (cur : List DNode) (z x : DNode) (hp : pairwiseB (okPair S) cur = true)
    (hd : S.isDupInst x.sid = true) (hz : eqContent z x = true) :
    ∃ c d, cur = c ++ d ∧ insertNode S cur z = c ++ z :: d ∧ ∀ w ∈ d, matchP S x w = false := by
  have hsid : z.sid = x.sid := eqContent_sid hz
  have hsorted := sidSorted_of_okPair S cur hp
  simp only [insertNode]
  split
  · rename_i hcond
    simp only [Bool.and_eq_true] at hcond
    obtain ⟨a, b, h1, h2, _, h4⟩ := insertSorted_split S z cur
    refine ⟨a, b, h1, h2, ?_⟩
    intro w hw
    cases b with
    | nil => simp at hw
    | cons y0 b' =>
      have h4' := h4 y0 (by simp)
      rw [h1, pairwiseB_append] at hp
      obtain ⟨_, hpb, _⟩ := hp
      rw [pairwiseB_cons] at hpb
      cases hm : matchP S x w with
      | false => rfl
      | true =>
        exfalso
        rw [matchP_dup S x w hd] at hm
        have hwz : strip w = strip z := ((eqContent_iff w x).1 hm).trans ((eqContent_iff z x).1 hz).symm
        have hws : w.sid = z.sid := by rw [eqContent_sid hm, hsid]
        rcases h4' with hlt | ⟨he, hc⟩
        · rcases List.mem_cons.1 hw with hwe | hw'
          · rw [hwe] at hws; omega
          · have := okPair_le (hpb.1 w hw'); omega
        · rcases List.mem_cons.1 hw with hwe | hw'
          · have hlt : cmpInst S w w = .lt := by
              rw [cmpInst_strip_left S hwz w, hwe]; exact hc
            exact cmpInst_asymm ⟨rfl, rfl, rfl⟩ hlt hlt
          · have hok := hpb.1 w hw'
            have hs : S.isSorted w.sid = true := by rw [hws]; exact hcond.1
            have := okPair_sorted hok (by rw [he, hws]) hs
            rw [cmpInst_strip_left S hwz y0] at this
            exact this hc
  · obtain ⟨a, b, h1, h2, _, h4⟩ := insertBySchema_split z cur
    refine ⟨a, b, h1, h2, ?_⟩
    intro w hw
    cases b with
    | nil => simp at hw
    | cons y0 b' =>
      have h4' := h4 y0 (by simp)
      rw [h1, sidSorted, pairwiseB_append] at hsorted
      have := sidSorted_head_le (y0 :: b') hsorted.2.1 y0 (by simp) w hw
      exact matchP_sid_ne (by omega)

/-! ## the step -/

/-- what the cache decides for a duplicate-instance source node: the position among the equal target nodes of the one
to match (`none`: link a copy) and the new cache -/
def dupLookup (S : Schema) (st : St) (y : DNode) : Option Nat × Cache :=
  if st.cur.countP (matchP S y) = 0 then (none, cacheSet st.cache y (1, 1))
  else
    let uc := (cacheGet st.cache y).getD (0, st.cur.countP (matchP S y))
    if uc.1 = uc.2 then (none, st.cache)
    else (if uc.1 < st.cur.countP (matchP S y) then some uc.1 else none, cacheSet st.cache y (uc.1 + 1, uc.2))

/-- the node `t'` that replaces the matched node `t` -/
def subOf (S : Schema) (o : MergeOpts) : DNode → DNode → DNode → Prop
  | .term ss sf sm sv, _, t' => absΦD S o (.term ss sf sm sv) t'
  | .inner _ _ _ sks, t, t' =>
    ∃ ctx' anc', t'.kids = (mergeKids S o ctx' true sks { cur := t.kids, cache := [], anc := anc' }).cur

inductive StepD (S : Schema) (o : MergeOpts) (y : DNode) (st st' : St) : Prop where
  | ins (c d : List DNode) : st.cur = c ++ d → st'.cur = c ++ cp o y :: d → (∀ w ∈ d, matchP S y w = false) →
      (S.isDupInst y.sid = false → st.cur.countP (matchP S y) = 0 ∧ st'.cache = st.cache) →
      (S.isDupInst y.sid = true → dupLookup S st y = (none, st'.cache)) → StepD S o y st st'
  | set (a : List DNode) (t : DNode) (b : List DNode) (t' : DNode) : st.cur = a ++ t :: b → st'.cur = a ++ t' :: b →
      matchP S y t = true → (∀ x, matchP S x t' = matchP S x t) → subOf S o y t t' →
      (S.isDupInst y.sid = false → a.countP (matchP S y) = 0 ∧ st'.cache = st.cache) →
      (S.isDupInst y.sid = true → dupLookup S st y = (some (a.countP (matchP S y)), st'.cache)) → StepD S o y st st'

/-! ### a matched node -/

theorem term_found_step (S : Schema) (o : MergeOpts) (ctx : List Ctx) (ss : Nat) (sf : Flags) (sm : List Meta) (sv : Bytes)
    (st : St) (a : List DNode) (t : DNode) (b : List DNode) (fi : Bool) (c : Cache)
    (hf : findMatch S st (.term ss sf sm sv) = (some a.length, fi, c)) (e : st.cur = a ++ t :: b)
    (hlt : lvlOk S t = true) :
    ∃ t', (mergeNode S o ctx (.term ss sf sm sv) st).cur = a ++ t' :: b ∧
      (mergeNode S o ctx (.term ss sf sm sv) st).cache = c ∧ (∀ x, matchP S x t' = matchP S x t) ∧
      absΦD S o (.term ss sf sm sv) t' := by
  have hg : st.cur[a.length]? = some t := by rw [e]; exact getElem?_append_cons _ _ _
  rw [mergeNode_term_found S o ctx ss sf sm sv st _ fi c t hf hg]
  split
  · rename_i hcond
    have hleaf : S.isKind t.sid .leaf = true := by
      simp only [Bool.and_eq_true] at hcond; exact hcond.1
    have htt : t.isTerm = true := by
      rw [lvlOk_isTerm_iff hlt]; simp [Schema.isTerm, hleaf]
    refine ⟨_, set_at_split e _, rfl, fun x => matchP_setVal_leaf S x t _ _ hleaf, ?_⟩
    intro _
    cases t with
    | inner => simp [DNode.isTerm] at htt
    | term ts tf tm tv =>
      refine ⟨by simp [DNode.setVal, DNode.setFlags, DNode.val], ?_, fun hw => by simp [hw]⟩
      simp only [flags_setFlags]
      split <;> rfl
  · rename_i hcond
    exact ⟨t, e, rfl, fun _ => rfl, fun h => absurd h hcond⟩

theorem inner_found_step (S : Schema) (o : MergeOpts) (ctx : List Ctx) (ss : Nat) (sf : Flags) (sm : List Meta)
    (sks : List DNode) (st : St) (a : List DNode) (t : DNode) (b : List DNode) (fi : Bool) (c : Cache)
    (hf : findMatch S st (.inner ss sf sm sks) = (some a.length, fi, c)) (e : st.cur = a ++ t :: b) :
    ∃ ctx' anc' b', (mergeNode S o ctx (.inner ss sf sm sks) st).cur =
        a ++ (t.setKids (mergeKids S o ctx' true sks { cur := t.kids, cache := [], anc := anc' }).cur).setDflt b' :: b ∧
      (mergeNode S o ctx (.inner ss sf sm sks) st).cache = c := by
  have hg : st.cur[a.length]? = some t := by rw [e]; exact getElem?_append_cons _ _ _
  rw [mergeNode_inner_found S o ctx ss sf sm sks st _ fi c t hf hg]
  exact ⟨{ np := S.isNpCont t.sid, others := allDfltExcept st.cur a.length } :: ctx, t.flags.dflt :: st.anc, _,
    set_at_split e _, rfl⟩

/-! ### the lookup of a duplicate-instance node, through `dupLookup` -/

theorem findMatch_dupLookup (S : Schema) (st : St) (y : DNode) (hd : S.isDupInst y.sid = true) :
    (∃ fi c', findMatch S st y = (none, fi, c') ∧ (dupLookup S st y).1 = none ∧
      (if fi && S.isDupInst y.sid then cacheSet c' y (1, 1) else c') = (dupLookup S st y).2) ∨
    (∃ a t b, st.cur = a ++ t :: b ∧ matchP S y t = true ∧
      findMatch S st y = (some a.length, false, (dupLookup S st y).2) ∧
      (dupLookup S st y).1 = some (a.countP (matchP S y))) := by
  rw [findMatch_dup S st y hd]
  simp only [dupLookup]
  by_cases h0 : st.cur.countP (matchP S y) = 0
  · left
    exact ⟨true, st.cache, by simp [h0], by simp [h0], by simp [h0, hd]⟩
  · simp only [h0, if_false]
    by_cases h1 : ((cacheGet st.cache y).getD (0, st.cur.countP (matchP S y))).1 =
        ((cacheGet st.cache y).getD (0, st.cur.countP (matchP S y))).2
    · left
      exact ⟨false, st.cache, by simp [h1], by simp [h1], by simp [h1]⟩
    · have h1' : (((cacheGet st.cache y).getD (0, st.cur.countP (matchP S y))).1 ==
          ((cacheGet st.cache y).getD (0, st.cur.countP (matchP S y))).2) = false := by
        simpa using h1
      simp only [h1, h1', if_false, Bool.false_eq_true]
      by_cases h2 : ((cacheGet st.cache y).getD (0, st.cur.countP (matchP S y))).1 < st.cur.countP (matchP S y)
      · right
        obtain ⟨j, hj⟩ := nthIdx_some_of_lt (matchP S y) st.cur _ 0 h2
        obtain ⟨a, t, b, e1, e2, e3, e4⟩ := nthIdx_split _ _ _ _ _ hj
        refine ⟨a, t, b, e1, e4, ?_, ?_⟩
        · rw [hj]
          simp only [Nat.zero_add] at e2
          rw [e2]
        · simp [h2, e3]
      · left
        have := nthIdx_none_of_le (matchP S y) st.cur _ 0 (Nat.le_of_not_lt h2)
        exact ⟨false, _, by rw [this], by simp [h2], by simp⟩

end LyModel.Merge
