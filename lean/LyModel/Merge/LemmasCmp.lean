import LyModel.Merge.LemmasWf
/-!
# The order libyang sorts instances by (`lyds_compare_single`, the type plugins' `sort` callbacks) is a transitive,
  oriented comparison — on instances of the same schema node
-/
namespace LyModel.Merge
open LyModel LyModel.Tree Std

theorem cmpBytes_eq : ∀ a b : Bytes, cmpBytes a b = List.compareLex compare a b
  | [], [] => by simp [cmpBytes, List.compareLex]
  | [], _ :: _ => by simp [cmpBytes, List.compareLex]
  | _ :: _, [] => by simp [cmpBytes, List.compareLex]
  | a :: as, b :: bs => by
    have ih := cmpBytes_eq as bs
    simp only [cmpBytes, List.compareLex_cons_cons]
    have hc : compare a b = compareOfLessAndEq a b := rfl
    rw [hc, compareOfLessAndEq]
    by_cases h1 : a < b
    · simp [h1]
    · by_cases h2 : b < a
      · have : a ≠ b := by intro e; subst e; exact h1 h2
        simp [h1, h2, this]
      · have : a = b := by
          apply UInt8.toNat_inj.1
          rw [UInt8.lt_iff_toNat_lt] at h1 h2
          omega
        simp [this, ih]

theorem transCmp_of_eq {α : Type} (c c' : α → α → Ordering) (h : ∀ a b, c a b = c' a b) [TransCmp c'] : TransCmp c := by
  have : c = c' := by funext a b; exact h a b
  rw [this]
  infer_instance

instance : TransCmp cmpBytes := transCmp_of_eq _ (List.compareLex (compare : UInt8 → UInt8 → Ordering)) cmpBytes_eq

instance instTransCmpBaseTy (ty : BaseTy) : TransCmp ty.cmp := by
  cases ty with
  | string => exact transCmp_of_eq _ cmpBytes (fun a b => by simp [BaseTy.cmp])
  | empty => exact transCmp_of_eq _ cmpBytes (fun a b => by simp [BaseTy.cmp])
  | int8 => exact transCmp_of_eq _ (compareOn parseIntB) (fun a b => by simp [BaseTy.cmp, compareOn])
  | uint8 => exact transCmp_of_eq _ (compareOn parseIntB) (fun a b => by simp [BaseTy.cmp, compareOn])
  | int32 => exact transCmp_of_eq _ (compareOn parseIntB) (fun a b => by simp [BaseTy.cmp, compareOn])
  | boolean =>
    exact transCmp_of_eq _ (compareOn fun a : Bytes => (if a == ([116, 114, 117, 101] : Bytes) then 1 else 0 : Nat))
      (fun a b => by simp [BaseTy.cmp, compareOn])
  | enumeration items =>
    exact transCmp_of_eq _ (fun a b => compareOn (enumValue items) b a) (fun a b => by simp [BaseTy.cmp, compareOn])

/-! ## key by key -/

theorem cmpKeys_lt_trans (S : Schema) : ∀ as bs cs : List DNode, as.map (·.sid) = bs.map (·.sid) →
    cmpKeys S as bs = .lt → cmpKeys S bs cs = .lt → cmpKeys S as cs = .lt
  | [], _, _, _, h, _ => by simp [cmpKeys] at h
  | _ :: _, [], _, _, h, _ => by simp [cmpKeys] at h
  | _ :: _, _ :: _, [], _, _, h => by simp [cmpKeys] at h
  | a :: as, b :: bs, c :: cs, hs, h1, h2 => by
    simp only [List.map_cons, List.cons.injEq] at hs
    simp only [cmpKeys] at h1 h2 ⊢
    rw [← hs.1] at h2
    cases e1 : (S.ty a.sid).cmp a.val b.val with
    | lt =>
      cases e2 : (S.ty a.sid).cmp b.val c.val with
      | lt => simp [TransCmp.lt_trans e1 e2]
      | eq => simp [TransCmp.lt_of_lt_of_eq e1 e2]
      | gt => simp [e2] at h2
    | eq =>
      simp only [e1] at h1
      cases e2 : (S.ty a.sid).cmp b.val c.val with
      | lt => simp [TransCmp.lt_of_eq_of_lt e1 e2]
      | eq =>
        simp only [e2] at h2
        simp only [TransCmp.eq_trans e1 e2]
        exact cmpKeys_lt_trans S as bs cs hs.2 h1 h2
      | gt => simp [e2] at h2
    | gt => simp [e1] at h1

theorem cmpKeys_asymm (S : Schema) : ∀ as bs : List DNode, as.map (·.sid) = bs.map (·.sid) →
    cmpKeys S as bs = .lt → cmpKeys S bs as ≠ .lt
  | [], _, _, h => by simp [cmpKeys] at h
  | _ :: _, [], _, h => by simp [cmpKeys] at h
  | a :: as, b :: bs, hs, h => by
    simp only [List.map_cons, List.cons.injEq] at hs
    simp only [cmpKeys] at h ⊢
    rw [← hs.1]
    cases e1 : (S.ty a.sid).cmp a.val b.val with
    | lt => simp [OrientedCmp.gt_of_lt e1]
    | eq =>
      simp only [e1] at h
      simp only [OrientedCmp.eq_symm e1]
      exact cmpKeys_asymm S as bs hs.2 h
    | gt => simp [e1] at h

/-! ## instances of one schema node -/

/-- same schema node, same kind of node, the same key leaves -/
structure SameSig (S : Schema) (a b : DNode) : Prop where
  sid : a.sid = b.sid
  term : a.isTerm = b.isTerm
  keys : (keysOf S a.kids).map (·.sid) = (keysOf S b.kids).map (·.sid)

theorem cmpInst_lt_trans {S : Schema} {a b c : DNode} (hab : SameSig S a b) (h1 : cmpInst S a b = .lt)
    (h2 : cmpInst S b c = .lt) : cmpInst S a c = .lt := by
  simp only [cmpInst] at h1 h2 ⊢
  rw [← hab.term, ← hab.sid] at h2
  split
  · rename_i ht
    simp only [ht, if_true] at h1 h2
    exact TransCmp.lt_trans h1 h2
  · rename_i ht
    simp only [ht, if_false] at h1 h2
    exact cmpKeys_lt_trans S _ _ _ hab.keys h1 h2

theorem cmpInst_asymm {S : Schema} {a b : DNode} (hab : SameSig S a b) (h1 : cmpInst S a b = .lt) :
    cmpInst S b a ≠ .lt := by
  simp only [cmpInst] at h1 ⊢
  rw [← hab.term, ← hab.sid]
  split
  · rename_i ht
    simp only [ht, if_true] at h1
    simp [OrientedCmp.gt_of_lt h1]
  · rename_i ht
    simp only [ht, if_false] at h1
    exact cmpKeys_asymm S _ _ hab.keys h1

end LyModel.Merge
