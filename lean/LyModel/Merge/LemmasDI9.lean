import LyModel.Merge.LemmasDI8
/-!
# From `wfForest` to `AbsDK`; addressing nodes by positions (`descendK`): a path of (source node, position among the
  nodes the lookup accepts) — for an instance of a key-less list / state leaf-list the position among the equal instances
-/
namespace LyModel.Merge
open LyModel LyModel.Tree

/-- after `merge t s` the result absorbs `s` -/
theorem merge_absorbs (S : Schema) (o : MergeOpts) (t s : List DNode) (ht : wfForest S t = true)
    (hs : wfForest S s = true) : AbsDK S o false s [] (mergeKids S o [] false s { cur := t }).cur := by
  simp only [wfForest, wfSibs, Bool.and_eq_true] at ht hs
  obtain ⟨⟨⟨⟨t1, _⟩, t3⟩, t4⟩, _⟩ := ht
  obtain ⟨⟨⟨⟨s1, _⟩, s3⟩, s4⟩, s5⟩ := hs
  exact mergeKids_absorbsD S o s none [] false { cur := t } []
    (fun c hc => ⟨(shapeAll_iff S none s).1 s1 c hc, (ordAll_iff S s).1 s4 c hc, (flagsOkL_iff s).1 s5 c hc⟩)
    s3 ⟨t1, t3, t4⟩ (cacheInv1_nil S _)

/-! ## positions -/

/-- the `k`-th node (from 0) of `f` that the lookup for `x` accepts -/
def nthMatch (S : Schema) (x : DNode) (k : Nat) (f : List DNode) : Option DNode := (f.filter (matchP S x))[k]?

/-- follow a path of (node, position among the matches) -/
def descendK (S : Schema) : List (DNode × Nat) → List DNode → Option DNode
  | [], _ => none
  | [c], f => nthMatch S c.1 c.2 f
  | c :: c2 :: cs, f =>
    match nthMatch S c.1 c.2 f with
    | some n => descendK S (c2 :: cs) n.kids
    | none => none

/-- a chain of nodes of the forest `f` (a top-level node, one of its non-key children, …), each with its position: the
number of equal siblings before it for an instance of a key-less list / state leaf-list, 0 otherwise (`rk`) -/
def IsChainK (S : Schema) : List (DNode × Nat) → Bool → List DNode → Prop
  | [], _, _ => False
  | [c], ld, f => ∃ a b, procList S ld f = a ++ c.1 :: b ∧ c.2 = rk S c.1 a
  | c :: c2 :: cs, ld, f =>
    (∃ a b, procList S ld f = a ++ c.1 :: b ∧ c.2 = rk S c.1 a) ∧ IsChainK S (c2 :: cs) true c.1.kids

theorem rk_reverse (S : Schema) (x : DNode) (a : List DNode) : rk S x (a.reverse ++ []) = rk S x a := by
  simp [rk, rkc, List.countP_reverse]

theorem absDK_at (S : Schema) (o : MergeOpts) (cur : List DNode) (x : DNode) (b : List DNode) :
    ∀ (l : List DNode) (ld : Bool) (pre a : List DNode), AbsDK S o ld l pre cur → procList S ld l = a ++ x :: b →
      AbsD S o x (a.reverse ++ pre) cur
  | [], ld, _, a, _, hx => by cases ld <;> simp [procList, noKeys] at hx
  | c :: cs, ld, pre, a, h, hx => by
    simp only [AbsDK] at h
    split at h
    · rename_i hc
      simp only [Bool.and_eq_true] at hc
      rw [hc.1, procList_skip S c cs hc.2] at hx
      exact absDK_at S o cur x b cs true pre a h hx
    · rename_i hc
      have hc' : (ld && S.isKey c.sid) = false := by simpa using hc
      rw [procList_take S ld c cs hc'] at hx
      cases a with
      | nil =>
        simp only [List.nil_append, List.cons.injEq] at hx
        rw [← hx.1]
        simpa using h.1
      | cons a0 as =>
        simp only [List.cons_append, List.cons.injEq] at hx
        have := absDK_at S o cur x b cs false (c :: pre) as h.2 hx.2
        rw [← hx.1]
        simpa using this

theorem nthMatch_of_absK (S : Schema) (x : DNode) (k : Nat) (cur : List DNode) (Φ : DNode → Prop)
    (h : AbsK (matchP S x) k cur Φ) : ∃ t, nthMatch S x k cur = some t ∧ matchP S x t = true ∧ Φ t := by
  obtain ⟨a, t, b, e, ht, hk, hΦ⟩ := h
  refine ⟨t, ?_, ht, hΦ⟩
  simp only [nthMatch]
  rw [e, List.filter_append, List.filter_cons_of_pos ht]
  rw [List.countP_eq_length_filter] at hk
  rw [List.getElem?_append_right (by omega), hk]
  simp

/-- the path of a source node — with the positions it has in the source — leads, in siblings that absorb the source, to
a node that matches it -/
theorem descendK_of_absorbed (S : Schema) (o : MergeOpts) : ∀ (chain : List (DNode × Nat)) (ld : Bool)
    (l cur : List DNode) (x : DNode) (k : Nat), AbsDK S o ld l [] cur → IsChainK S chain ld l →
    chain.getLast? = some (x, k) → ∃ n, descendK S chain cur = some n ∧ matchP S x n = true ∧ absΦD S o x n
  | [], _, _, _, _, _, _, hc, _ => by simp [IsChainK] at hc
  | [c], ld, l, cur, x, k, ha, hc, hl => by
    simp only [List.getLast?_singleton, Option.some.injEq] at hl
    obtain ⟨a, b, e, hk⟩ := hc
    have hd := absDK_at S o cur c.1 b l ld [] a ha e
    rw [absD_eq, rk_reverse, ← hk] at hd
    obtain ⟨t, h1, h2, h3⟩ := nthMatch_of_absK S c.1 c.2 cur _ hd
    subst hl
    exact ⟨t, h1, h2, h3⟩
  | c :: c2 :: cs, ld, l, cur, x, k, ha, hc, hl => by
    obtain ⟨⟨a, b, e, hk⟩, hrest⟩ := hc
    have hd := absDK_at S o cur c.1 b l ld [] a ha e
    rw [absD_eq, rk_reverse, ← hk] at hd
    obtain ⟨t, h1, _, h3⟩ := nthMatch_of_absK S c.1 c.2 cur _ hd
    have hl' : (c2 :: cs).getLast? = some (x, k) := by
      rw [List.getLast?_cons_cons] at hl; exact hl
    simp only [descendK, h1]
    cases hc1 : c.1 with
    | term ss sf sm sv =>
      rw [hc1] at hrest
      exfalso
      cases cs with
      | nil =>
        obtain ⟨a', b', e', _⟩ := hrest
        simp [DNode.kids, procList, noKeys] at e'
      | cons c3 cs' =>
        obtain ⟨⟨a', b', e', _⟩, _⟩ := hrest
        simp [DNode.kids, procList, noKeys] at e'
    | inner ss sf sm sks =>
      rw [hc1] at hrest h3
      exact descendK_of_absorbed S o (c2 :: cs) true sks t.kids x k h3 hrest hl'

end LyModel.Merge
