import LyModel.Merge.LemmasDI1
/-!
# `AbsD`: a source node whose merge changes nothing — duplicate-instance nodes included

`AbsD S o x pre cur`: `pre` are the source siblings processed before `x` at this level.  For a source node that is no
instance of a key-less list / state leaf-list this is `Absorbed` (the first match is looked at); for a duplicate-instance
node the match handed out by the cache is the `k`-th node of the target equal to `x`, `k` = the number of equal
siblings before `x` (`rk`).  Merging an `AbsD` node leaves the target and the ancestors' flags alone and moves the cache
on (`absD_noop`).
-/
namespace LyModel.Merge
open LyModel LyModel.Tree

mutual
def AbsD (S : Schema) (o : MergeOpts) : DNode → List DNode → List DNode → Prop
  | .term ss sf sm sv, pre, cur =>
    AbsK (matchP S (.term ss sf sm sv)) (rk S (.term ss sf sm sv) pre) cur fun trg =>
      (S.isKind trg.sid .leaf && (o.defaults || !sf.dflt)) = true →
        trg.val = sv ∧ trg.flags.dflt = sf.dflt ∧ (o.withFlags = true → trg.flags = sf)
  | .inner ss sf sm sks, pre, cur =>
    AbsK (matchP S (.inner ss sf sm sks)) (rk S (.inner ss sf sm sks) pre) cur fun trg =>
      AbsDK S o true sks [] trg.kids
def AbsDK (S : Schema) (o : MergeOpts) : Bool → List DNode → List DNode → List DNode → Prop
  | _, [], _, _ => True
  | ld, c :: cs, pre, cur =>
    if (ld && S.isKey c.sid) = true then AbsDK S o true cs pre cur
    else AbsD S o c pre cur ∧ AbsDK S o false cs (c :: pre) cur
end

/-- what the matched node has to satisfy -/
def absΦD (S : Schema) (o : MergeOpts) : DNode → DNode → Prop
  | .term _ sf _ sv, trg =>
    (S.isKind trg.sid .leaf && (o.defaults || !sf.dflt)) = true →
      trg.val = sv ∧ trg.flags.dflt = sf.dflt ∧ (o.withFlags = true → trg.flags = sf)
  | .inner _ _ _ sks, trg => AbsDK S o true sks [] trg.kids

theorem absD_eq (S : Schema) (o : MergeOpts) (x : DNode) (pre cur : List DNode) :
    AbsD S o x pre cur = AbsK (matchP S x) (rk S x pre) cur (absΦD S o x) := by
  cases x <;> simp only [AbsD] <;> rfl

/-! ## the lookup for a duplicate-instance source node -/

theorem findMatch_dup (S : Schema) (st : St) (x : DNode) (hd : S.isDupInst x.sid = true) :
    findMatch S st x =
      if st.cur.countP (matchP S x) = 0 then (none, true, st.cache)
      else
        let uc := (cacheGet st.cache x).getD (0, st.cur.countP (matchP S x))
        if uc.1 == uc.2 then (none, false, st.cache)
        else (nthIdx (matchP S x) st.cur uc.1 0, false, cacheSet st.cache x (uc.1 + 1, uc.2)) := by
  have hk := isDupInst_listKind S _ hd
  rw [matchP_eq_instMatch S x hd]
  simp only [findMatch, hk, if_true]
  cases hf : firstIdx (instMatch S x) st.cur with
  | none =>
    have := (firstIdx_none_iff _ _).1 hf
    simp [this]
  | some i =>
    have hne : st.cur.countP (instMatch S x) ≠ 0 := by
      intro h0
      rw [(firstIdx_none_iff _ _).2 h0] at hf
      exact absurd hf (by simp)
    rw [List.countP_eq_length_filter] at hne
    simp only [hd, Bool.not_true, Bool.false_eq_true, if_false, hne, List.countP_eq_length_filter]

theorem mergeNode_term_found (S : Schema) (o : MergeOpts) (ctx : List Ctx) (ss : Nat) (sf : Flags) (sm : List Meta)
    (sv : Bytes) (st : St) (i : Nat) (fi : Bool) (c : Cache) (trg : DNode)
    (hf : findMatch S st (.term ss sf sm sv) = (some i, fi, c)) (hg : st.cur[i]? = some trg) :
    mergeNode S o ctx (.term ss sf sm sv) st =
      if S.isKind trg.sid .leaf && (o.defaults || !sf.dflt) then changeTerm o ctx st c i trg sf sv
      else { st with cache := c } := by
  simp only [mergeNode, hf, hg]

theorem mergeNode_inner_found (S : Schema) (o : MergeOpts) (ctx : List Ctx) (ss : Nat) (sf : Flags) (sm : List Meta)
    (sks : List DNode) (st : St) (i : Nat) (fi : Bool) (c : Cache) (trg : DNode)
    (hf : findMatch S st (.inner ss sf sm sks) = (some i, fi, c)) (hg : st.cur[i]? = some trg) :
    mergeNode S o ctx (.inner ss sf sm sks) st =
      (let sub := mergeKids S o ({ np := S.isNpCont trg.sid, others := allDfltExcept st.cur i } :: ctx) true sks
          { cur := trg.kids, cache := [], anc := trg.flags.dflt :: st.anc }
       { cur := st.cur.set i ((trg.setKids sub.cur).setDflt (sub.anc.headD trg.flags.dflt)), cache := c,
         anc := sub.anc.tail }) := by
  simp only [mergeNode, hf, hg]

/-! ## the cache while nothing changes -/

/-- the cache after the source siblings `pre` have all been matched with nodes of the (unchanged) level `cur` -/
def CacheOK (S : Schema) (cache : Cache) (pre cur : List DNode) : Prop :=
  ∀ x, S.isDupInst x.sid = true →
    cacheGet cache x = if rkc x pre = 0 then none else some (rkc x pre, cur.countP (matchP S x))

theorem cacheOK_nil (S : Schema) (cur : List DNode) : CacheOK S [] [] cur := by
  intro x _
  simp [rkc_nil, cacheGet]

theorem cacheOK_nodup (S : Schema) (cache : Cache) (pre cur : List DNode) (x : DNode) (h : CacheOK S cache pre cur)
    (hd : S.isDupInst x.sid = false) : CacheOK S cache (x :: pre) cur := by
  intro y hy
  rw [rkc_cons, eqContent_dup_false hd hy]
  simpa using h y hy

/-- the lookup for an absorbed duplicate-instance node -/
theorem findMatch_absK (S : Schema) (st : St) (x : DNode) (pre : List DNode) (hd : S.isDupInst x.sid = true)
    (hc : CacheOK S st.cache pre st.cur) (a : List DNode) (t : DNode) (b : List DNode) (e : st.cur = a ++ t :: b)
    (ht : matchP S x t = true) (hk : a.countP (matchP S x) = rkc x pre) :
    findMatch S st x = (some a.length, false, cacheSet st.cache x (rkc x pre + 1, st.cur.countP (matchP S x))) ∧
      CacheOK S (cacheSet st.cache x (rkc x pre + 1, st.cur.countP (matchP S x))) (x :: pre) st.cur := by
  have hlt : rkc x pre < st.cur.countP (matchP S x) := by
    rw [e, List.countP_append, List.countP_cons, hk]
    simp [ht]
  have huc : (cacheGet st.cache x).getD (0, st.cur.countP (matchP S x)) = (rkc x pre, st.cur.countP (matchP S x)) := by
    rw [hc x hd]
    split
    · rename_i h0; simp [h0]
    · simp
  constructor
  · rw [findMatch_dup S st x hd]
    have hne : st.cur.countP (matchP S x) ≠ 0 := by omega
    simp only [hne, if_false, huc]
    have hne2 : (rkc x pre == st.cur.countP (matchP S x)) = false := by
      simp only [beq_eq_false_iff_ne, ne_eq]; omega
    simp only [hne2, Bool.false_eq_true, if_false, Prod.mk.injEq, and_true]
    have := nthIdx_of_split (matchP S x) t b ht a 0
    rw [hk] at this
    rw [e]
    simpa using this
  · intro y hy
    rw [rkc_cons]
    cases he : eqContent x y with
    | true =>
      rw [cacheGet_cacheSet_same x y _ he, rkc_class he, matchP_class S hd he]
      simp
    | false =>
      rw [cacheGet_cacheSet_other x y _ he]
      simpa using hc y hy

/-! ## merging an absorbed node changes nothing -/

mutual
theorem absD_noop (S : Schema) (o : MergeOpts) : ∀ (x : DNode) (ctx : List Ctx) (st : St) (pre : List DNode),
    CacheOK S st.cache pre st.cur → AbsD S o x pre st.cur →
    ∃ c', mergeNode S o ctx x st = { st with cache := c' } ∧ CacheOK S c' (x :: pre) st.cur
  | .term ss sf sm sv, ctx, st, pre, hc, ha => by
    obtain ⟨a, trg, b, e, hm, hk, hΦ⟩ := ha
    have hg : st.cur[a.length]? = some trg := by rw [e]; exact getElem?_append_cons _ _ _
    cases hd : S.isDupInst ss with
    | false =>
      have hd' : S.isDupInst (DNode.term ss sf sm sv).sid = false := hd
      simp only [rk, hd', Bool.false_eq_true, if_false] at hk
      have hf : firstIdx (matchP S (.term ss sf sm sv)) st.cur = some a.length := by
        rw [e]; exact firstIdx_of_split _ a trg b hm hk
      refine ⟨st.cache, ?_, cacheOK_nodup S _ _ _ _ hc hd'⟩
      rw [mergeNode_term_matched S o ctx ss sf sm sv st a.length trg hd hf hg]
      split
      · rename_i hcond
        obtain ⟨hv, hdf, hw⟩ := hΦ hcond
        have hne : (trg.val != sv) = false := by simp [hv]
        have hfin : (if o.withFlags = true then sf else trg.flags) = trg.flags := by
          split
          · rename_i h; exact (hw h).symm
          · rfl
        simp only [changeTerm, hne, Bool.false_eq_true, if_false, hfin, ← hdf, Bool.and_not_self, Bool.not_and_self]
        rw [← hv, setVal_self, setFlags_self, set_self _ _ _ hg]
      · rfl
    | true =>
      have hd' : S.isDupInst (DNode.term ss sf sm sv).sid = true := hd
      simp only [rk, hd', if_true] at hk
      obtain ⟨hfm, hc'⟩ := findMatch_absK S st _ pre hd' hc a trg b e hm hk
      refine ⟨_, ?_, hc'⟩
      rw [mergeNode_term_found S o ctx ss sf sm sv st _ _ _ trg hfm hg]
      have hleaf : S.isKind trg.sid .leaf = false := by
        rw [matchP_sid hm]; exact isKind_leaf_of_dup hd'
      simp [hleaf]
  | .inner ss sf sm sks, ctx, st, pre, hc, ha => by
    obtain ⟨a, trg, b, e, hm, hk, hΦ⟩ := ha
    have hg : st.cur[a.length]? = some trg := by rw [e]; exact getElem?_append_cons _ _ _
    obtain ⟨c0, hsub⟩ := absDK_noop S o sks
      ({ np := S.isNpCont trg.sid, others := allDfltExcept st.cur a.length } :: ctx) true
      { cur := trg.kids, cache := [], anc := trg.flags.dflt :: st.anc } [] (cacheOK_nil S _) hΦ
    cases hd : S.isDupInst ss with
    | false =>
      have hd' : S.isDupInst (DNode.inner ss sf sm sks).sid = false := hd
      simp only [rk, hd', Bool.false_eq_true, if_false] at hk
      have hf : firstIdx (matchP S (.inner ss sf sm sks)) st.cur = some a.length := by
        rw [e]; exact firstIdx_of_split _ a trg b hm hk
      refine ⟨st.cache, ?_, cacheOK_nodup S _ _ _ _ hc hd'⟩
      rw [mergeNode_inner_matched S o ctx ss sf sm sks st a.length trg hd hf hg]
      simp only [hsub, List.headD_cons, List.tail_cons, setKids_self, setDflt_self, set_self _ _ _ hg]
    | true =>
      have hd' : S.isDupInst (DNode.inner ss sf sm sks).sid = true := hd
      simp only [rk, hd', if_true] at hk
      obtain ⟨hfm, hc'⟩ := findMatch_absK S st _ pre hd' hc a trg b e hm hk
      refine ⟨_, ?_, hc'⟩
      rw [mergeNode_inner_found S o ctx ss sf sm sks st _ _ _ trg hfm hg]
      simp only [hsub, List.headD_cons, List.tail_cons, setKids_self, setDflt_self, set_self _ _ _ hg]
theorem absDK_noop (S : Schema) (o : MergeOpts) : ∀ (l : List DNode) (ctx : List Ctx) (ld : Bool) (st : St)
    (pre : List DNode), CacheOK S st.cache pre st.cur → AbsDK S o ld l pre st.cur →
    ∃ c', mergeKids S o ctx ld l st = { st with cache := c' }
  | [], _, _, st, _, _, _ => ⟨st.cache, by simp [mergeKids]⟩
  | c :: cs, ctx, ld, st, pre, hc, ha => by
    simp only [AbsDK] at ha
    simp only [mergeKids]
    split
    · rename_i hcond
      simp only [hcond, if_true] at ha
      exact absDK_noop S o cs ctx true st pre hc ha
    · rename_i hcond
      simp only [hcond, if_false] at ha
      obtain ⟨c1, h1, hc1⟩ := absD_noop S o c ctx st pre hc ha.1
      rw [h1]
      obtain ⟨c2, h2⟩ := absDK_noop S o cs ctx false { st with cache := c1 } (c :: pre) hc1 ha.2
      exact ⟨c2, by rw [h2]⟩
end

end LyModel.Merge
