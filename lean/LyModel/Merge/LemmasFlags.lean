import LyModel.Merge.LemmasCanon
/-!
# The default flags of the merged tree are consistent downwards (`lyd_np_cont_dflt_del` / `_set` keep "an inner node
  flagged `LYD_DEFAULT` has only children flagged so" — along the whole chain of target ancestors)
-/
namespace LyModel.Merge
open LyModel LyModel.Tree

/-- along the chain of ancestors (nearest first): an ancestor flagged default has a default path child and only default
other children -/
def chainOkF : List Bool → List Ctx → Prop
  | a0 :: a1 :: as, c0 :: cs => (a1 = true → a0 = true ∧ c0.others = true) ∧ chainOkF (a1 :: as) cs
  | _, _ => True

theorem chainOkF_nil_left (ctx : List Ctx) : chainOkF [] ctx := by cases ctx <;> simp [chainOkF]
theorem chainOkF_single (a : Bool) (ctx : List Ctx) : chainOkF [a] ctx := by cases ctx <;> simp [chainOkF]
theorem chainOkF_nil_right (anc : List Bool) : chainOkF anc [] := by
  cases anc with
  | nil => simp [chainOkF]
  | cons a as => cases as <;> simp [chainOkF]

theorem chainOkF_tail : ∀ (a0 : Bool) (as : List Bool) (c0 : Ctx) (cs : List Ctx), chainOkF (a0 :: as) (c0 :: cs) →
    chainOkF as cs
  | _, [], _, cs, _ => chainOkF_nil_left cs
  | _, _ :: _, _, _, h => h.2

theorem ancDel_head : ∀ anc : List Bool, (ancDel anc).head? ≠ some true
  | [] => by simp [ancDel]
  | true :: r => by simp [ancDel]
  | false :: r => by simp [ancDel]

theorem chainOkF_ancDel : ∀ (anc : List Bool) (ctx : List Ctx), chainOkF anc ctx → chainOkF (ancDel anc) ctx
  | [], ctx, _ => by simpa [ancDel] using chainOkF_nil_left ctx
  | false :: r, ctx, h => by simpa [ancDel] using h
  | [true], ctx, _ => by simpa [ancDel] using chainOkF_single false ctx
  | true :: a1 :: as, [], _ => chainOkF_nil_right _
  | true :: a1 :: as, c0 :: cs, h => by
    have ih := chainOkF_ancDel (a1 :: as) cs h.2
    have hh := ancDel_head (a1 :: as)
    cases hd : ancDel (a1 :: as) with
    | nil => cases a1 <;> simp [ancDel] at hd
    | cons b bs =>
      rw [hd] at ih hh
      have e : ancDel (true :: a1 :: as) = false :: b :: bs := by simp [ancDel, hd]
      rw [e]
      show (b = true → false = true ∧ c0.others = true) ∧ chainOkF (b :: bs) cs
      refine ⟨fun hb => ?_, ih⟩
      subst hb
      simp at hh

theorem ancSet_spec : ∀ (ctx : List Ctx) (anc : List Bool) (allD : Bool), chainOkF anc ctx →
    (anc.head? = some true → allD = true) →
    chainOkF (ancSet ctx anc allD) ctx ∧ ((ancSet ctx anc allD).head? = some true → allD = true) ∧
      (ancSet ctx anc allD).length = anc.length
  | [], anc, _, h, h0 => by cases anc <;> simp_all [ancSet]
  | _ :: _, [], _, _, _ => by simp [ancSet, chainOkF]
  | c :: cs, a :: as, allD, h, h0 => by
    simp only [ancSet]
    split
    · exact ⟨h, h0, rfl⟩
    · rename_i hc
      simp only [Bool.or_eq_true, Bool.not_eq_true', not_or, Bool.not_eq_true, Bool.not_eq_false] at hc
      obtain ⟨⟨ha, hnp⟩, hall⟩ := hc
      -- the next ancestor: its path child has just become default
      have hnext : (as.head? = some true → c.others = true) := by
        intro hh
        cases as with
        | nil => simp at hh
        | cons a1 as' =>
          simp only [List.head?_cons, Option.some.injEq] at hh
          have := h.1 hh
          rw [ha] at this
          exact absurd this.1 (by simp)
      have ih := ancSet_spec cs as c.others (chainOkF_tail a as c cs h) hnext
      refine ⟨?_, fun _ => hall, by simp [ih.2.2]⟩
      cases hr : ancSet cs as c.others with
      | nil => simp [chainOkF]
      | cons b bs =>
        rw [hr] at ih
        refine ⟨fun hb => ⟨rfl, ih.2.1 (by simp [hb])⟩, ih.1⟩

/-! ## flags of the nodes the merge links / writes -/

mutual
theorem flagsOk_relabel (ff : Flags → Flags) (fm : List Meta → List Meta) (h : ∀ f, (ff f).dflt = f.dflt) :
    ∀ n : DNode, flagsOk (relabel ff fm n) = flagsOk n
  | .term .. => by simp [relabel, flagsOk]
  | .inner s f m ks => by
    simp only [relabel, flagsOk, flagsOkL_relabel ff fm h ks, h f, all_dflt_relabelL ff fm h ks]
theorem flagsOkL_relabel (ff : Flags → Flags) (fm : List Meta → List Meta) (h : ∀ f, (ff f).dflt = f.dflt) :
    ∀ l : List DNode, flagsOkL (relabelL ff fm l) = flagsOkL l
  | [] => by simp [relabelL]
  | n :: ns => by simp [relabelL, flagsOkL, flagsOk_relabel ff fm h n, flagsOkL_relabel ff fm h ns]
end

theorem flagsOk_cp (o : MergeOpts) (x : DNode) : flagsOk (cp o x) = flagsOk x :=
  flagsOk_relabel _ _ (cpFlags_dflt o) x

def allD (l : List DNode) : Bool := l.all (·.flags.dflt)

theorem allD_set (l : List DNode) (i : Nat) (t t' : DNode) (hg : l[i]? = some t) (h : t'.flags.dflt = t.flags.dflt) :
    allD (l.set i t') = allD l := by
  induction l generalizing i with
  | nil => simp at hg
  | cons x xs ih =>
    cases i with
    | zero =>
      simp only [List.getElem?_cons_zero, Option.some.injEq] at hg
      subst hg
      simp [allD, h]
    | succ i =>
      simp only [List.getElem?_cons_succ] at hg
      have := ih i hg
      simp only [allD] at this ⊢
      simp [this]

theorem allD_set_of (l : List DNode) (i : Nat) (t t' : DNode) (hg : l[i]? = some t) :
    allD (l.set i t') = (t'.flags.dflt && allDfltExcept l i) := by
  induction l generalizing i with
  | nil => simp at hg
  | cons x xs ih =>
    cases i with
    | zero => simp [allD, allDfltExcept]
    | succ i =>
      simp only [List.getElem?_cons_succ] at hg
      have := ih i hg
      simp only [allD, allDfltExcept] at this ⊢
      simp only [List.set_cons_succ, List.all_cons, this, List.eraseIdx_cons_succ]
      cases x.flags.dflt <;> cases t'.flags.dflt <;> simp

theorem allD_eq_of (l : List DNode) (i : Nat) (t : DNode) (hg : l[i]? = some t) :
    allD l = (t.flags.dflt && allDfltExcept l i) := by
  have := allD_set_of l i t t hg
  rwa [set_self l i t hg] at this

theorem allD_insertNode (S : Schema) (l : List DNode) (z : DNode) : allD (insertNode S l z) = (allD l && z.flags.dflt) := by
  obtain ⟨a, b, h1, h2⟩ := insertNode_shape S l z
  rw [h2, h1]
  simp only [allD, List.all_append, List.all_cons]
  cases a.all (·.flags.dflt) <;> cases b.all (·.flags.dflt) <;> cases z.flags.dflt <;> simp

theorem flagsOkL_set (l : List DNode) (i : Nat) (t' : DNode) (h : flagsOkL l = true) (ht : flagsOk t' = true) :
    flagsOkL (l.set i t') = true := by
  rw [flagsOkL_iff] at h ⊢
  intro n hn
  rcases List.mem_or_eq_of_mem_set hn with hn | rfl
  · exact h n hn
  · exact ht

theorem flagsOkL_insertNode (S : Schema) (l : List DNode) (z : DNode) (h : flagsOkL l = true) (hz : flagsOk z = true) :
    flagsOkL (insertNode S l z) = true := by
  obtain ⟨a, b, h1, h2⟩ := insertNode_shape S l z
  rw [h2]
  rw [h1, flagsOkL_iff] at h
  rw [flagsOkL_iff]
  intro n hn
  rcases List.mem_append.1 hn with hn | hn
  · exact h n (List.mem_append_left _ hn)
  · rcases List.mem_cons.1 hn with rfl | hn
    · exact hz
    · exact h n (List.mem_append_right _ hn)

theorem ancDel_length : ∀ l : List Bool, (ancDel l).length = l.length
  | [] => rfl
  | true :: r => by simp [ancDel, ancDel_length r]
  | false :: r => by simp [ancDel]

/-- the flags `lyd_change_term_val` leaves on the leaf (before the overwrite of `LYD_MERGE_WITH_FLAGS`) -/
def leafFlags2 (t : DNode) (sf : Flags) (sv : Bytes) : Flags :=
  { (if t.val != sv then { t.flags with new := true } else t.flags) with dflt := sf.dflt }

/-- … and after it -/
def leafFlags (o : MergeOpts) (t : DNode) (sf : Flags) (sv : Bytes) : Flags :=
  if o.withFlags then sf else leafFlags2 t sf sv

theorem leafFlags2_dflt (t : DNode) (sf : Flags) (sv : Bytes) : (leafFlags2 t sf sv).dflt = sf.dflt := rfl

theorem leafFlags_dflt (o : MergeOpts) (t : DNode) (sf : Flags) (sv : Bytes) : (leafFlags o t sf sv).dflt = sf.dflt := by
  simp only [leafFlags]; split <;> rfl

theorem changeTerm_eq (o : MergeOpts) (ctx : List Ctx) (st : St) (cache : Cache) (i : Nat) (t : DNode) (sf : Flags)
    (sv : Bytes) :
    changeTerm o ctx st cache i t sf sv =
      { cur := st.cur.set i ((t.setVal sv).setFlags (leafFlags o t sf sv)), cache := cache,
        anc := if t.flags.dflt && !sf.dflt then ancDel st.anc
          else if !t.flags.dflt && sf.dflt then
            ancSet ctx st.anc (allD (st.cur.set i ((t.setVal sv).setFlags (leafFlags2 t sf sv))))
          else st.anc } := by
  have hf1 : (if (t.val != sv) = true then { t.flags with new := true } else t.flags).dflt = t.flags.dflt := by
    split <;> rfl
  simp only [changeTerm, leafFlags, leafFlags2, hf1, allD]

/-- the invariant of one level -/
structure FI (st : St) (ctx : List Ctx) : Prop where
  ok : flagsOkL st.cur = true
  head : st.anc.head? = some true → allD st.cur = true
  chain : chainOkF st.anc ctx
  len : st.anc.length = ctx.length

end LyModel.Merge
