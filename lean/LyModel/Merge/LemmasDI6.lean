import LyModel.Merge.LemmasDI5
/-!
# Every merge step is a `StepD`
-/
namespace LyModel.Merge
open LyModel LyModel.Tree

theorem SrcC.srcD {S : Schema} {p : Option Nat} {y : DNode} (hy : SrcC S p y) : SrcD S y :=
  ⟨lvlOk_of_wf S p y hy.1 hy.2.1, hy.2.2, hy.2.1⟩

theorem mergeNode_stepD (S : Schema) (o : MergeOpts) (ctx : List Ctx) (p : Option Nat) (y : DNode) (st : St)
    (hy : SrcC S p y) (hc : Can S p st.cur) : StepD S o y st (mergeNode S o ctx y st) := by
  have hly : lvlOk S y = true := lvlOk_of_wf S p y hy.1 hy.2.1
  have hfy : flagsOk y = true := hy.2.2
  have hlc := hc.lvlOkL
  cases hd : S.isDupInst y.sid with
  | false =>
    have hnd : S.isDupInst y.sid = true → False := fun h => by rw [hd] at h; exact absurd h (by simp)
    rcases firstIdx_eq_none_or (matchP S y) st.cur with hnone | ⟨j, t0, hj, _, _⟩
    · obtain ⟨c, d, h1, h2⟩ := insertNode_shape S st.cur (cp o y)
      have hall := firstIdx_none_all _ _ hnone
      refine StepD.ins c d h1 ?_ (fun w hw => hall w (by rw [h1]; exact List.mem_append_right _ hw)) ?_
        (fun h => (hnd h).elim)
      · rw [mergeNode_unmatched S o ctx y st hd hnone, insertSrc_cur, insNode_eq_cp S o y hfy]; exact h2
      · intro _
        refine ⟨(firstIdx_none_iff _ _).1 hnone, ?_⟩
        rw [mergeNode_unmatched S o ctx y st hd hnone, insertSrc_cache]
        simp [hd]
    · obtain ⟨a, t, b, e, hl, ha, ht⟩ := firstIdx_some_split _ _ _ hj
      have hfm : findMatch S st y = (some a.length, false, st.cache) := by
        rw [findMatch_nodup S st y hd, hj, hl]; rfl
      have hlt : lvlOk S t = true := (lvlOkL_iff S _).1 hlc t (by rw [e]; simp)
      have hcnt : a.countP (matchP S y) = 0 := by
        rw [List.countP_eq_zero]; intro w hw; simp [ha w hw]
      cases y with
      | term ss sf sm sv =>
        obtain ⟨t', h1, h2, h3, h4⟩ := term_found_step S o ctx ss sf sm sv st a t b false st.cache hfm e hlt
        exact StepD.set a t b t' e h1 ht h3 h4 (fun _ => ⟨hcnt, h2⟩) (fun h => (hnd h).elim)
      | inner ss sf sm sks =>
        obtain ⟨ctx', anc', b', h1, h2⟩ := inner_found_step S o ctx ss sf sm sks st a t b false st.cache hfm e
        have hts : t.sid = ss := matchP_sid ht
        have htt : t.isTerm = false := by rw [sameShape hlt hly hts]; rfl
        have hk : keysOf S (mergeKids S o ctx' true sks { cur := t.kids, cache := [], anc := anc' }).cur =
            keysOf S t.kids := by
          cases t with
          | term => simp [DNode.isTerm] at htt
          | inner ts tf tm tk =>
            have e' : ts = ss := hts
            subst e'
            obtain ⟨hs1, hs2, _⟩ := lvlOk_kids hly
            obtain ⟨_, ht2, _⟩ := lvlOk_kids hlt
            exact keysOf_sub S o ctx' ts sks tk { cur := tk, cache := [], anc := anc' } rfl hs1 hs2 ht2
        refine StepD.set a t b _ e h1 ht ?_ ⟨ctx', anc', kids_setKids_inner t _ _ htt⟩ (fun _ => ⟨hcnt, h2⟩)
          (fun h => (hnd h).elim)
        intro x
        cases hdx : S.isDupInst x.sid with
        | true =>
          have hne : t.sid ≠ x.sid := by
            intro e'
            rw [hts] at e'
            have : S.isDupInst ss = false := hd
            rw [e', hdx] at this
            exact absurd this (by simp)
          rw [matchP_sid_ne (by simpa using hne), matchP_sid_ne hne]
        | false => exact matchP_setKids S x t _ _ hdx hk htt
  | true =>
    have hnd : S.isDupInst y.sid = false → False := fun h => by rw [hd] at h; exact absurd h (by simp)
    rcases findMatch_dupLookup S st y hd with ⟨fi, c', hfm, hl1, hl2⟩ | ⟨a, t, b, e, ht, hfm, hl1⟩
    · obtain ⟨c, d, h1, h2, h3⟩ := insertNode_after_class S st.cur (cp o y) y hc.2.1 hd
        ((eqContent_iff _ _).2 (strip_cp o y))
      refine StepD.ins c d h1 ?_ h3 (fun h => (hnd h).elim) ?_
      · rw [mergeNode_of_none S o ctx y st fi c' hfm, insertSrc_cur, insNode_eq_cp S o y hfy]; exact h2
      · intro _
        rw [mergeNode_of_none S o ctx y st fi c' hfm, insertSrc_cache, hl2, ← hl1]
    · have hlt : lvlOk S t = true := (lvlOkL_iff S _).1 hlc t (by rw [e]; simp)
      cases y with
      | term ss sf sm sv =>
        obtain ⟨t', h1, h2, h3, h4⟩ := term_found_step S o ctx ss sf sm sv st a t b false _ hfm e hlt
        exact StepD.set a t b t' e h1 ht h3 h4 (fun h => (hnd h).elim) (fun _ => by rw [h2, ← hl1])
      | inner ss sf sm sks =>
        obtain ⟨ctx', anc', b', h1, h2⟩ := inner_found_step S o ctx ss sf sm sks st a t b false _ hfm e
        have hm : eqContent t (.inner ss sf sm sks) = true := by
          rw [← matchP_dup S _ t hd]; exact ht
        have htt : t.isTerm = false := by
          cases t with
          | term => simp [eqContent] at hm
          | inner => rfl
        have hstrip := (eqContent_iff _ _).1 hm
        have hkids : t.kids.map strip = sks.map strip := by
          have := congrArg DNode.kids hstrip
          rw [strip_kids, strip_kids] at this
          exact this
        obtain ⟨hkidsOk, hpw, hnk⟩ := hy.srcD.kids
        have hsub := sub_strip S o ctx' sks t.kids anc' hkidsOk hpw hnk hkids
        have hst : strip ((t.setKids (mergeKids S o ctx' true sks { cur := t.kids, cache := [], anc := anc' }).cur).setDflt
            b') = strip t := by
          rw [strip_setKids, hsub, ← strip_kids, setKids_self]
        exact StepD.set a t b _ e h1 ht (fun x => matchP_strip_right S x hst)
          ⟨ctx', anc', kids_setKids_inner t _ _ htt⟩ (fun h => (hnd h).elim) (fun _ => by rw [h2, ← hl1])

end LyModel.Merge
