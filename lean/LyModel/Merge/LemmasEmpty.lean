import LyModel.Merge.LemmasInsert
/-!
# Merging into the empty target copies the source (`merge_into_empty`)
-/
namespace LyModel.Merge
open LyModel LyModel.Tree

/-! ## `nthIdx` / `firstIdx` -/

theorem nthIdx_none (p : DNode → Bool) : ∀ (l : List DNode) (k i : Nat), (∀ x ∈ l, p x = false) → nthIdx p l k i = none
  | [], _, _, _ => by simp [nthIdx]
  | x :: xs, k, i, h => by
    have hx : p x = false := h x (by simp)
    simp only [nthIdx, hx, Bool.false_eq_true, if_false]
    exact nthIdx_none p xs k (i + 1) (fun y hy => h y (by simp [hy]))

theorem firstIdx_none (p : DNode → Bool) (l : List DNode) (h : ∀ x ∈ l, p x = false) : firstIdx p l = none :=
  nthIdx_none p l 0 0 h

theorem nthIdx_zero_some (p : DNode → Bool) :
    ∀ (l : List DNode) (i j : Nat), nthIdx p l 0 i = some j → ∃ x, l[j - i]? = some x ∧ p x = true ∧ i ≤ j
  | [], _, _, h => by simp [nthIdx] at h
  | x :: xs, i, j, h => by
    simp only [nthIdx] at h
    split at h
    · rename_i hx
      simp only [Option.some.injEq] at h
      subst h
      exact ⟨x, by simp, hx, Nat.le_refl _⟩
    · obtain ⟨y, h1, h2, h3⟩ := nthIdx_zero_some p xs (i + 1) j h
      refine ⟨y, ?_, h2, by omega⟩
      have : j - i = (j - (i + 1)) + 1 := by omega
      rw [this]
      simpa using h1

theorem firstIdx_some (p : DNode → Bool) (l : List DNode) (j : Nat) (h : firstIdx p l = some j) :
    ∃ x, l[j]? = some x ∧ p x = true := by
  obtain ⟨x, h1, h2, _⟩ := nthIdx_zero_some p l 0 j h
  exact ⟨x, by simpa using h1, h2⟩

theorem firstIdx_eq_none_or (p : DNode → Bool) (l : List DNode) :
    firstIdx p l = none ∨ ∃ j x, firstIdx p l = some j ∧ l[j]? = some x ∧ p x = true := by
  cases h : firstIdx p l with
  | none => exact Or.inl rfl
  | some j =>
    obtain ⟨x, h1, h2⟩ := firstIdx_some p l j h
    exact Or.inr ⟨j, x, rfl, h1, h2⟩

/-! ## the duplicate-instance cache -/

theorem cacheGet_congr (c : Cache) {a b : DNode} (h : strip a = strip b) : cacheGet c a = cacheGet c b := by
  simp only [cacheGet, eqContent_congr_right h]

theorem cacheGet_cacheSet_same (x z : DNode) (v : Nat × Nat) (h : eqContent x z = true) :
    ∀ c : Cache, cacheGet (cacheSet c x v) z = some v
  | [] => by simp [cacheSet, cacheGet, h]
  | e :: es => by
    simp only [cacheSet]
    split
    · rename_i he
      have : eqContent e.1 z = true := eqContent_trans he h
      simp [cacheGet, this]
    · rename_i he
      have : eqContent e.1 z = false := by
        cases hz : eqContent e.1 z with
        | false => rfl
        | true => exact absurd (eqContent_trans hz (eqContent_symm h)) he
      have ih := cacheGet_cacheSet_same x z v h es
      simp only [cacheGet] at ih
      simp [cacheGet, this, ih]

theorem cacheGet_cacheSet_other (x z : DNode) (v : Nat × Nat) (h : eqContent x z = false) :
    ∀ c : Cache, cacheGet (cacheSet c x v) z = cacheGet c z
  | [] => by simp [cacheSet, cacheGet, h]
  | e :: es => by
    simp only [cacheSet]
    split
    · rename_i he
      have : eqContent e.1 z = false := by
        cases hz : eqContent e.1 z with
        | false => rfl
        | true =>
          have := eqContent_trans (eqContent_symm he) hz
          simp [this] at h
      simp [cacheGet, this]
    · have ih := cacheGet_cacheSet_other x z v h es
      simp only [cacheGet] at ih
      simp only [cacheGet, List.find?_cons]
      split
      · rfl
      · exact ih

/-! ## the copy made of an unmatched source node -/

def cpFlags (o : MergeOpts) : Flags → Flags := if o.withFlags then id else fun f => { f with new := true }

/-- the node `lyd_merge_sibling_r` links for an unmatched source node: the source node, all of it marked `LYD_NEW`
unless `LYD_MERGE_WITH_FLAGS` -/
def cp (o : MergeOpts) (x : DNode) : DNode := relabel (cpFlags o) id x

theorem insertSrc_eq (S : Schema) (o : MergeOpts) (st : St) (cache : Cache) (fi : Bool) (src : DNode)
    (h : flagsOk src = true) :
    insertSrc S o st cache fi src =
      { cur := insertNode S st.cur (cp o src),
        cache := if fi && S.isDupInst src.sid then cacheSet cache src (1, 1) else cache,
        anc := if (cp o src).flags.dflt then st.anc else ancDel st.anc } := by
  have hx : (if o.destruct then src else dupNode S DupOpts.full src) = src := by
    split <;> simp [dupNode_full S src h]
  have hc : (if o.withFlags then src else setNew src) = cp o src := by
    simp only [cp, cpFlags]
    split
    · simp [relabel_id]
    · simp [setNew_eq_relabel]
  simp only [insertSrc, hx, hc]

theorem mergeNode_of_none (S : Schema) (o : MergeOpts) (ctx : List Ctx) (x : DNode) (st : St) (fi : Bool) (cache : Cache)
    (h : findMatch S st x = (none, fi, cache)) : mergeNode S o ctx x st = insertSrc S o st cache fi x := by
  cases x <;> simp only [mergeNode, h]

theorem eqContent_sid {a b : DNode} (h : eqContent a b = true) : a.sid = b.sid := by
  cases a <;> cases b <;> simp_all [eqContent, DNode.sid]

theorem isDupInst_listKind (S : Schema) (sid : Nat) (h : S.isDupInst sid = true) :
    (S.isKind sid .list || S.isKind sid .leaflist) = true := by
  simp only [Schema.isDupInst, Schema.isKind, Schema.kind?] at *
  cases hg : S.get? sid with
  | none => simp [hg] at h
  | some n =>
    simp only [hg, Option.map_some] at *
    cases hk : n.kind <;> simp_all

/-- what `okPair` gives for an earlier sibling `y` of `x` -/
theorem okPair_le {S : Schema} {y x : DNode} (h : okPair S y x = true) : y.sid ≤ x.sid := by
  simp only [okPair] at h
  split at h
  · rename_i e; have : y.sid = x.sid := by simpa using e
    omega
  · have : y.sid < x.sid := by simpa using h
    omega

theorem okPair_sorted {S : Schema} {y x : DNode} (h : okPair S y x = true) (e : y.sid = x.sid)
    (hs : S.isSorted x.sid = true) : cmpInst S x y ≠ .lt := by
  simp only [okPair, e, beq_self_eq_true, if_true, hs, Bool.and_eq_true, Bool.not_true, Bool.false_or, bne_iff_ne,
    ne_eq] at h
  exact h.2

theorem okPair_distinct {S : Schema} {y x : DNode} (h : okPair S y x = true) (e : y.sid = x.sid) :
    distinctInst S y x = true := by
  simp only [okPair, e, beq_self_eq_true, if_true, Bool.and_eq_true] at h
  exact h.1

end LyModel.Merge
