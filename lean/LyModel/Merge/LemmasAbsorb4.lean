import LyModel.Merge.LemmasAbsorb3
/-!
# After a merge every source node is absorbed in the result: the induction
-/
namespace LyModel.Merge
open LyModel LyModel.Tree

theorem firstIdx_none_all (p : DNode → Bool) (l : List DNode) (h : firstIdx p l = none) : ∀ w ∈ l, p w = false := by
  have aux : ∀ (l : List DNode) (i : Nat), nthIdx p l 0 i = none → ∀ w ∈ l, p w = false := by
    intro l
    induction l with
    | nil => intro _ _ w hw; simp at hw
    | cons a as ih =>
      intro i hn w hw
      simp only [nthIdx] at hn
      split at hn
      · simp at hn
      · rename_i ha
        rcases List.mem_cons.1 hw with rfl | hw'
        · simpa using ha
        · exact ih (i + 1) hn w hw'
  exact aux l 0 h

theorem ordAll_iff (S : Schema) : ∀ l : List DNode, ordAll S l = true ↔ ∀ n ∈ l, ordNode S n = true
  | [] => by simp [ordAll]
  | n :: ns => by simp [ordAll, ordAll_iff S ns]

theorem noDupInstL_iff (S : Schema) : ∀ l : List DNode, noDupInstL S l = true ↔ ∀ n ∈ l, noDupInst S n = true
  | [] => by simp [noDupInstL]
  | n :: ns => by simp [noDupInstL, noDupInstL_iff S ns]

/-- the children of a good source node are good, and pairwise distinct / ordered -/
theorem SrcOk.kids {S : Schema} {s : Nat} {f : Flags} {m : List Meta} {ks : List DNode}
    (h : SrcOk S (.inner s f m ks)) : (∀ y ∈ ks, SrcOk S y) ∧ pairwiseB (okPair S) ks = true := by
  obtain ⟨h1, h2, h3, h4⟩ := h
  obtain ⟨_, _, hl⟩ := lvlOk_kids h1
  simp only [flagsOk, Bool.and_eq_true] at h2
  simp only [ordNode, Bool.and_eq_true] at h3
  simp only [noDupInst, Bool.and_eq_true] at h4
  exact ⟨fun y hy => ⟨(lvlOkL_iff S ks).1 hl y hy, (flagsOkL_iff ks).1 h2.2 y hy, (ordAll_iff S ks).1 h3.2 y hy,
    (noDupInstL_iff S ks).1 h4.2 y hy⟩, h3.1⟩

theorem absorbed_of_inserted (S : Schema) (o : MergeOpts) (ctx : List Ctx) (y : DNode) (st : St) (hy : SrcOk S y)
    (hnone : firstIdx (matchP S y) st.cur = none) : Absorbed S o y (mergeNode S o ctx y st).cur := by
  obtain ⟨_, hfy, hoy, hdy⟩ := hy
  rw [mergeNode_unmatched S o ctx y st (noDupInst_sid hdy) hnone, insertSrc_cur, insNode_eq_cp S o y hfy]
  obtain ⟨a, b, h1, h2⟩ := insertNode_shape S st.cur (cp o y)
  rw [h2]
  apply cp_absorbs S o y a b hoy hdy
  intro w hw
  exact firstIdx_none_all _ _ hnone w (by rw [h1]; exact List.mem_append_left _ hw)

mutual
theorem mergeNode_absorbs (S : Schema) (o : MergeOpts) : ∀ (y : DNode) (ctx : List Ctx) (st : St), SrcOk S y →
    lvlOkL S st.cur = true → Absorbed S o y (mergeNode S o ctx y st).cur
  | .term ss sf sm sv, ctx, st, hy, hc => by
    rcases firstIdx_eq_none_or (matchP S (.term ss sf sm sv)) st.cur with hnone | ⟨j, t, hj, hg, hm⟩
    · exact absorbed_of_inserted S o ctx _ st hy hnone
    · have hdy := noDupInst_sid hy.2.2.2
      have htl : lvlOk S t = true := (lvlOkL_iff S _).1 hc t (List.mem_of_getElem? hg)
      rw [mergeNode_term_matched S o ctx ss sf sm sv st j t hdy hj hg]
      split
      · rename_i hcond
        have hleaf : S.isKind t.sid .leaf = true := by
          simp only [Bool.and_eq_true] at hcond; exact hcond.1
        have htt : t.isTerm = true := by
          rw [lvlOk_isTerm_iff htl]; simp [Schema.isTerm, hleaf]
        simp only [changeTerm]
        apply AbsAt.replace j _ hj (by rw [matchP_setVal_leaf S _ t _ _ hleaf]; exact hm)
        intro _
        cases t with
        | inner => simp [DNode.isTerm] at htt
        | term ts tf tm tv =>
          refine ⟨by simp [DNode.setVal, DNode.setFlags, DNode.val], ?_, fun hw => by simp [hw]⟩
          simp only [flags_setFlags]
          split <;> rfl
      · rename_i hcond
        exact ⟨j, t, hj, hg, fun h => absurd h hcond⟩
  | .inner ss sf sm sks, ctx, st, hy, hc => by
    rcases firstIdx_eq_none_or (matchP S (.inner ss sf sm sks)) st.cur with hnone | ⟨j, t, hj, hg, hm⟩
    · exact absorbed_of_inserted S o ctx _ st hy hnone
    · have hdy := noDupInst_sid hy.2.2.2
      have htl : lvlOk S t = true := (lvlOkL_iff S _).1 hc t (List.mem_of_getElem? hg)
      have hts : t.sid = ss := matchP_sid hm
      rw [mergeNode_inner_matched S o ctx ss sf sm sks st j t hdy hj hg]
      have htt : t.isTerm = false := by
        rw [sameShape htl hy.1 hts]; rfl
      obtain ⟨hs1, hs2, _⟩ := lvlOk_kids hy.1
      obtain ⟨hkids, hpw⟩ := hy.kids
      cases t with
      | term => simp [DNode.isTerm] at htt
      | inner ts tf tm tk =>
        have e : ts = ss := hts
        subst e
        obtain ⟨_, ht2, ht3⟩ := lvlOk_kids htl
        have hk := keysOf_sub S o
          ({ np := S.isNpCont (DNode.inner ts tf tm tk).sid, others := allDfltExcept st.cur j } :: ctx) ts sks tk
          { cur := tk, cache := [], anc := tf.dflt :: st.anc } rfl hs1 hs2 ht2
        apply AbsAt.replace j _ hj (by rw [matchP_setKids S _ _ _ _ hdy hk rfl]; exact hm)
        have := mergeKids_absorbs S o sks
          ({ np := S.isNpCont (DNode.inner ts tf tm tk).sid, others := allDfltExcept st.cur j } :: ctx) true
          { cur := tk, cache := [], anc := tf.dflt :: st.anc } hkids hpw ht3
        simpa [DNode.setKids, DNode.setDflt, DNode.setFlags, DNode.kids, DNode.flags] using this
theorem mergeKids_absorbs (S : Schema) (o : MergeOpts) : ∀ (l : List DNode) (ctx : List Ctx) (ld : Bool) (st : St),
    (∀ y ∈ l, SrcOk S y) → pairwiseB (okPair S) l = true → lvlOkL S st.cur = true →
    AbsorbedK S o ld l (mergeKids S o ctx ld l st).cur
  | [], _, _, _, _, _, _ => by simp [AbsorbedK]
  | c :: cs, ctx, ld, st, hs, hp, hc => by
    rw [pairwiseB_cons] at hp
    have hsc := hs c (by simp)
    have hscs : ∀ y ∈ cs, SrcOk S y := fun y hy => hs y (by simp [hy])
    simp only [AbsorbedK, mergeKids]
    split
    · exact mergeKids_absorbs S o cs ctx true st hscs hp.2 hc
    · have hc1 := lvlOk_mergeNode S o c ctx st hsc.1 hsc.2.1 hc
      refine ⟨?_, mergeKids_absorbs S o cs ctx false _ hscs hp.2 hc1⟩
      apply absorbed_preserved S o c hsc.1 (noDupInst_sid hsc.2.2.2) cs ctx false _
        (mergeNode_absorbs S o c ctx st hsc hc) ?_ hscs hc1
      intro y hy
      exact (okPair_not_match (hp.1 y hy) (noDupInst_sid (hscs y hy).2.2.2)).2
end

end LyModel.Merge
