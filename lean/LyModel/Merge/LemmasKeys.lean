import LyModel.Merge.LemmasMatch
/-!
# What one merge step does to the target siblings (unchanged / one node replaced by a node of the same schema / one
  node linked), and: the leading keys of a list instance are never touched
-/
namespace LyModel.Merge
open LyModel LyModel.Tree

theorem nthIdx_some (p : DNode → Bool) :
    ∀ (l : List DNode) (k i j : Nat), nthIdx p l k i = some j → ∃ x, l[j - i]? = some x ∧ p x = true ∧ i ≤ j
  | [], _, _, _, h => by simp [nthIdx] at h
  | x :: xs, k, i, j, h => by
    simp only [nthIdx] at h
    split at h
    · rename_i hx
      cases k with
      | zero =>
        simp only [Option.some.injEq] at h
        subst h
        exact ⟨x, by simp, hx, Nat.le_refl _⟩
      | succ k =>
        simp only at h
        obtain ⟨y, h1, h2, h3⟩ := nthIdx_some p xs k (i + 1) j h
        refine ⟨y, ?_, h2, by omega⟩
        have : j - i = (j - (i + 1)) + 1 := by omega
        rw [this]
        simpa using h1
    · obtain ⟨y, h1, h2, h3⟩ := nthIdx_some p xs k (i + 1) j h
      refine ⟨y, ?_, h2, by omega⟩
      have : j - i = (j - (i + 1)) + 1 := by omega
      rw [this]
      simpa using h1

/-- the index `findMatch` returns points at a target node of the source node's schema -/
theorem findMatch_sid (S : Schema) (st : St) (x : DNode) (i : Nat) (fi : Bool) (c : Cache)
    (h : findMatch S st x = (some i, fi, c)) : ∃ t, st.cur[i]? = some t ∧ t.sid = x.sid := by
  simp only [findMatch] at h
  split at h
  · split at h
    · simp at h
    · rename_i j hj
      split at h
      · simp only [Prod.mk.injEq, Option.some.injEq] at h
        obtain ⟨t, h1, h2⟩ := firstIdx_some _ _ _ hj
        exact ⟨t, by rw [← h.1]; exact h1, instMatch_sid h2⟩
      · split at h
        · simp at h
        · simp only [Prod.mk.injEq] at h
          obtain ⟨t, h1, h2, _⟩ := nthIdx_some _ _ _ _ _ h.1
          exact ⟨t, by simpa using h1, instMatch_sid h2⟩
  · split at h
    · simp at h
    · rename_i j hj
      simp only [Prod.mk.injEq, Option.some.injEq] at h
      obtain ⟨t, h1, h2⟩ := firstIdx_some _ _ _ hj
      exact ⟨t, by rw [← h.1]; exact h1, by simpa using h2⟩

/-- the three things a merge step can do to the sibling list -/
inductive StepShape (S : Schema) (x : DNode) (cur cur' : List DNode) : Prop where
  | same : cur' = cur → StepShape S x cur cur'
  | set (i : Nat) (t t' : DNode) : cur[i]? = some t → t.sid = x.sid → t'.sid = x.sid → cur' = cur.set i t' →
      StepShape S x cur cur'
  | ins (z : DNode) : z.sid = x.sid → cur' = insertNode S cur z → StepShape S x cur cur'

/-- the node `insertSrc` links -/
def insNode (S : Schema) (o : MergeOpts) (x : DNode) : DNode :=
  if o.withFlags then (if o.destruct then x else dupNode S DupOpts.full x)
  else setNew (if o.destruct then x else dupNode S DupOpts.full x)

theorem insNode_sid (S : Schema) (o : MergeOpts) (x : DNode) : (insNode S o x).sid = x.sid := by
  simp only [insNode]
  split <;> split <;> simp

theorem insertSrc_cur (S : Schema) (o : MergeOpts) (st : St) (c : Cache) (fi : Bool) (x : DNode) :
    (insertSrc S o st c fi x).cur = insertNode S st.cur (insNode S o x) := rfl

theorem insertSrc_shape (S : Schema) (o : MergeOpts) (st : St) (c : Cache) (fi : Bool) (x : DNode) :
    StepShape S x st.cur (insertSrc S o st c fi x).cur :=
  StepShape.ins _ (insNode_sid S o x) (insertSrc_cur S o st c fi x)

theorem changeTerm_shape (S : Schema) (o : MergeOpts) (ctx : List Ctx) (st : St) (c : Cache) (i : Nat) (t : DNode)
    (sf : Flags) (sv : Bytes) (x : DNode) (hg : st.cur[i]? = some t) (hs : t.sid = x.sid) :
    StepShape S x st.cur (changeTerm o ctx st c i t sf sv).cur := by
  refine StepShape.set i t _ hg hs ?_ rfl
  rw [sid_setFlags, sid_setVal, hs]

theorem mergeNode_shape (S : Schema) (o : MergeOpts) (ctx : List Ctx) (x : DNode) (st : St) :
    StepShape S x st.cur (mergeNode S o ctx x st).cur := by
  cases x with
  | term ss sf sm sv =>
    simp only [mergeNode]
    split
    · rename_i i fi c hfm
      obtain ⟨t, hg, hs⟩ := findMatch_sid S st _ i fi c hfm
      simp only [hg]
      split
      · exact changeTerm_shape S o ctx st c i t sf sv _ hg hs
      · exact StepShape.same rfl
    · exact insertSrc_shape S o st _ _ _
  | inner ss sf sm sks =>
    simp only [mergeNode]
    split
    · rename_i i fi c hfm
      obtain ⟨t, hg, hs⟩ := findMatch_sid S st _ i fi c hfm
      simp only [hg]
      refine StepShape.set i t _ hg hs ?_ rfl
      rw [sid_setDflt, sid_setKids, hs]
    · exact insertSrc_shape S o st _ _ _

/-! ## the leading keys -/

theorem takeWhile_set_of_not (p : DNode → Bool) :
    ∀ (l : List DNode) (i : Nat) (t t' : DNode), l[i]? = some t → p t = false → p t' = false →
      (l.set i t').takeWhile p = l.takeWhile p
  | [], _, _, _, h, _, _ => by simp at h
  | x :: xs, 0, t, t', h, ht, ht' => by
    simp only [List.getElem?_cons_zero, Option.some.injEq] at h
    subst h
    simp [ht, ht']
  | x :: xs, i + 1, t, t', h, ht, ht' => by
    simp only [List.getElem?_cons_succ] at h
    simp only [List.set_cons_succ, List.takeWhile_cons]
    split
    · rw [takeWhile_set_of_not p xs i t t' h ht ht']
    · rfl

theorem insertBySchema_after (z : DNode) :
    ∀ (ks rest : List DNode), (∀ k ∈ ks, k.sid ≤ z.sid) → insertBySchema z (ks ++ rest) = ks ++ insertBySchema z rest
  | [], _, _ => by simp
  | k :: ks, rest, h => by
    have hk : ¬ z.sid < k.sid := by have := h k (by simp); omega
    simp only [List.cons_append, insertBySchema, hk, if_false, List.cons.injEq, true_and]
    exact insertBySchema_after z ks rest (fun y hy => h y (by simp [hy]))

theorem insertSorted_after (S : Schema) (z : DNode) :
    ∀ (ks rest : List DNode), (∀ k ∈ ks, k.sid < z.sid) → insertSorted S z (ks ++ rest) = ks ++ insertSorted S z rest
  | [], _, _ => by simp
  | k :: ks, rest, h => by
    have hk := h k (by simp)
    have h1 : ¬ z.sid < k.sid := by omega
    have h2 : (k.sid == z.sid) = false := by simp; omega
    simp only [List.cons_append, insertSorted, h1, h2, Bool.false_and, Bool.false_eq_true, if_false, List.cons.injEq,
      true_and]
    exact insertSorted_after S z ks rest (fun y hy => h y (by simp [hy]))

theorem insertNode_after (S : Schema) (z : DNode) (ks rest : List DNode) (h : ∀ k ∈ ks, k.sid < z.sid) :
    insertNode S (ks ++ rest) z = ks ++ insertNode S rest z := by
  have hany : (ks ++ rest).any (fun x => x.sid == z.sid) = rest.any (fun x => x.sid == z.sid) := by
    rw [List.any_append]
    have : ks.any (fun x => x.sid == z.sid) = false := by
      rw [List.any_eq_false]
      intro k hk
      have := h k hk
      simp; omega
    simp [this]
  simp only [insertNode, hany]
  split
  · exact insertSorted_after S z ks rest h
  · exact insertBySchema_after z ks rest (fun k hk => Nat.le_of_lt (h k hk))

theorem takeWhile_append_of_all (p : DNode → Bool) (ks rest : List DNode) (h : ∀ k ∈ ks, p k = true) :
    (ks ++ rest).takeWhile p = ks ++ rest.takeWhile p := by
  induction ks with
  | nil => simp
  | cons k ks ih =>
    simp only [List.cons_append, List.takeWhile_cons, h k (by simp), if_true, List.cons.injEq, true_and]
    exact ih (fun y hy => h y (by simp [hy]))

theorem mem_takeWhile_p (p : DNode → Bool) : ∀ (l : List DNode) (x : DNode), x ∈ l.takeWhile p → p x = true
  | [], _, h => by simp at h
  | a :: as, x, h => by
    simp only [List.takeWhile_cons] at h
    split at h
    · rename_i ha
      rcases List.mem_cons.1 h with rfl | h'
      · exact ha
      · exact mem_takeWhile_p p as x h'
    · simp at h

theorem takeWhile_dropWhile_nil (p : DNode → Bool) : ∀ l : List DNode, (l.dropWhile p).takeWhile p = []
  | [] => by simp
  | a :: as => by
    simp only [List.dropWhile_cons]
    split
    · exact takeWhile_dropWhile_nil p as
    · rename_i ha
      simp [List.takeWhile_cons, ha]

/-- linking a non-key node that comes later in the schema than every leading key leaves the leading keys alone -/
theorem keysOf_insertNode (S : Schema) (cur : List DNode) (z : DNode) (hz : S.isKey z.sid = false)
    (hk : ∀ k ∈ keysOf S cur, k.sid < z.sid) : keysOf S (insertNode S cur z) = keysOf S cur := by
  have hsplit : cur = keysOf S cur ++ noKeys S cur := by simp [keysOf, noKeys, List.takeWhile_append_dropWhile]
  have hall : ∀ k ∈ keysOf S cur, S.isKey k.sid = true := fun k hk' => mem_takeWhile_p _ cur k hk'
  have hrest : keysOf S (noKeys S cur) = [] := takeWhile_dropWhile_nil _ cur
  conv => lhs; rw [hsplit, insertNode_after S z _ _ hk]
  obtain ⟨a, b, h1, h2⟩ := insertNode_shape S (noKeys S cur) z
  rw [h2]
  have hnil : keysOf S (a ++ z :: b) = [] := by
    cases a with
    | nil => simp [keysOf, List.takeWhile_cons, hz]
    | cons a0 as =>
      have h0 := hrest
      rw [h1] at h0
      simp only [keysOf, List.cons_append, List.takeWhile_cons] at h0 ⊢
      split at h0
      · simp at h0
      · rename_i hn; simp [hn]
  simp only [keysOf] at hnil hall ⊢
  rw [takeWhile_append_of_all _ _ _ hall, hnil]
  simp

theorem keysOf_step (S : Schema) (x : DNode) (cur cur' : List DNode) (B : Nat) (h : StepShape S x cur cur')
    (hx : S.isKey x.sid = false) (hB : B < x.sid) (hk : ∀ k ∈ keysOf S cur, k.sid ≤ B) :
    keysOf S cur' = keysOf S cur := by
  cases h with
  | same e => rw [e]
  | set i t t' hg hs hs' e =>
    rw [e]
    exact takeWhile_set_of_not _ cur i t t' hg (by rw [hs]; exact hx) (by rw [hs']; exact hx)
  | ins z hz e =>
    rw [e]
    exact keysOf_insertNode S cur z (by rw [hz]; exact hx) (fun k hk' => by have := hk k hk'; omega)

/-- the source siblings a level's loop processes -/
def procList (S : Schema) (ld : Bool) (l : List DNode) : List DNode := if ld then noKeys S l else l

theorem procList_skip (S : Schema) (c : DNode) (cs : List DNode) (h : S.isKey c.sid = true) :
    procList S true (c :: cs) = procList S true cs := by
  simp [procList, noKeys, List.dropWhile_cons, h]

theorem procList_take (S : Schema) (ld : Bool) (c : DNode) (cs : List DNode) (h : (ld && S.isKey c.sid) = false) :
    procList S ld (c :: cs) = c :: procList S false cs := by
  cases ld with
  | false => simp [procList]
  | true =>
    have : S.isKey c.sid = false := by simpa using h
    simp [procList, noKeys, List.dropWhile_cons, this]

theorem keysOf_mergeKids (S : Schema) (o : MergeOpts) (ctx : List Ctx) (B : Nat) :
    ∀ (l : List DNode) (ld : Bool) (st : St), (∀ k ∈ keysOf S st.cur, k.sid ≤ B) →
      (∀ c ∈ procList S ld l, S.isKey c.sid = false ∧ B < c.sid) →
      keysOf S (mergeKids S o ctx ld l st).cur = keysOf S st.cur
  | [], _, _, _, _ => by simp [mergeKids]
  | c :: cs, ld, st, hk, hB => by
    simp only [mergeKids]
    split
    · rename_i hc
      simp only [Bool.and_eq_true] at hc
      rw [hc.1, procList_skip S c cs hc.2] at hB
      exact keysOf_mergeKids S o ctx B cs true st hk hB
    · rename_i hc
      have hc' : (ld && S.isKey c.sid) = false := by simpa using hc
      rw [procList_take S ld c cs hc'] at hB
      have hcB := hB c (by simp)
      have hstep := keysOf_step S c st.cur _ B (mergeNode_shape S o ctx c st) hcB.1 hcB.2 hk
      rw [keysOf_mergeKids S o ctx B cs false _ (by rw [hstep]; exact hk) (fun y hy => hB y (by simp [hy])), hstep]

end LyModel.Merge
