import LyModel.Merge.LemmasKeys
/-!
# Invariants of one sibling level that every merge step keeps: schema order, predicates on the schema ids
-/
namespace LyModel.Merge
open LyModel LyModel.Tree

def sidLe (a b : DNode) : Bool := a.sid ≤ b.sid

/-- siblings in schema order -/
def sidSorted (l : List DNode) : Bool := pairwiseB sidLe l

theorem pairwiseB_append {α : Type} (r : α → α → Bool) : ∀ (a b : List α),
    pairwiseB r (a ++ b) = true ↔ pairwiseB r a = true ∧ pairwiseB r b = true ∧ ∀ x ∈ a, ∀ y ∈ b, r x y = true
  | [], b => by simp [pairwiseB]
  | x :: a, b => by
    simp only [List.cons_append, pairwiseB, Bool.and_eq_true, List.all_eq_true, List.mem_append,
      pairwiseB_append r a b, List.mem_cons]
    constructor
    · rintro ⟨h1, h2, h3, h4⟩
      refine ⟨⟨fun y hy => h1 y (Or.inl hy), h2⟩, h3, ?_⟩
      rintro z (rfl | hz) y hy
      · exact h1 y (Or.inr hy)
      · exact h4 z hz y hy
    · rintro ⟨⟨h1, h2⟩, h3, h4⟩
      refine ⟨?_, h2, h3, fun z hz y hy => h4 z (Or.inr hz) y hy⟩
      rintro y (hy | hy)
      · exact h1 y hy
      · exact h4 x (Or.inl rfl) y hy

theorem pairwiseB_set {α : Type} (r : α → α → Bool) (l : List α) (i : Nat) (t t' : α) (hg : l[i]? = some t)
    (h1 : ∀ y, r t y = true → r t' y = true) (h2 : ∀ y, r y t = true → r y t' = true)
    (h : pairwiseB r l = true) : pairwiseB r (l.set i t') = true := by
  induction l generalizing i with
  | nil => simp at hg
  | cons x xs ih =>
    rw [pairwiseB_cons] at h
    cases i with
    | zero =>
      simp only [List.getElem?_cons_zero, Option.some.injEq] at hg
      subst hg
      simp only [List.set_cons_zero, pairwiseB_cons]
      exact ⟨fun y hy => h1 y (h.1 y hy), h.2⟩
    | succ i =>
      simp only [List.getElem?_cons_succ] at hg
      simp only [List.set_cons_succ, pairwiseB_cons]
      refine ⟨fun y hy => ?_, ih i hg h.2⟩
      rcases List.mem_or_eq_of_mem_set hy with hy' | rfl
      · exact h.1 y hy'
      · exact h2 x (h.1 t (List.mem_of_getElem? hg))

/-! ### insertNode keeps the schema order -/

theorem insertBySchema_split (z : DNode) : ∀ acc : List DNode, ∃ a b, acc = a ++ b ∧ insertBySchema z acc = a ++ z :: b ∧
    (∀ y ∈ a, y.sid ≤ z.sid) ∧ (∀ y, b.head? = some y → z.sid < y.sid)
  | [] => ⟨[], [], by simp [insertBySchema]⟩
  | y :: ys => by
    simp only [insertBySchema]
    split
    · rename_i h
      exact ⟨[], y :: ys, by simp [h]⟩
    · rename_i h
      obtain ⟨a, b, h1, h2, h3, h4⟩ := insertBySchema_split z ys
      refine ⟨y :: a, b, by simp [h1], by simp [h2], ?_, h4⟩
      intro w hw
      rcases List.mem_cons.1 hw with rfl | hw
      · omega
      · exact h3 w hw

theorem insertSorted_split (S : Schema) (z : DNode) : ∀ acc : List DNode, ∃ a b, acc = a ++ b ∧
    insertSorted S z acc = a ++ z :: b ∧ (∀ y ∈ a, y.sid ≤ z.sid ∧ (y.sid = z.sid → cmpInst S z y ≠ .lt)) ∧
    (∀ y, b.head? = some y → z.sid < y.sid ∨ (y.sid = z.sid ∧ cmpInst S z y = .lt))
  | [] => ⟨[], [], by simp [insertSorted]⟩
  | y :: ys => by
    simp only [insertSorted]
    split
    · rename_i h
      simp only [Bool.and_eq_true, beq_iff_eq] at h
      exact ⟨[], y :: ys, by simp, by simp, by simp, by intro w hw; simp at hw; subst hw; exact Or.inr h⟩
    · rename_i h
      split
      · rename_i h'
        exact ⟨[], y :: ys, by simp, by simp, by simp, by intro w hw; simp at hw; subst hw; exact Or.inl h'⟩
      · rename_i h'
        obtain ⟨a, b, h1, h2, h3, h4⟩ := insertSorted_split S z ys
        refine ⟨y :: a, b, by simp [h1], by simp [h2], ?_, h4⟩
        intro w hw
        rcases List.mem_cons.1 hw with rfl | hw
        · refine ⟨by omega, fun e hlt => h ?_⟩
          simp [e, hlt]
        · exact h3 w hw

theorem insertNode_split_sid (S : Schema) (acc : List DNode) (z : DNode) : ∃ a b, acc = a ++ b ∧
    insertNode S acc z = a ++ z :: b ∧ (∀ y ∈ a, y.sid ≤ z.sid) ∧ (∀ y, b.head? = some y → z.sid ≤ y.sid) := by
  simp only [insertNode]
  split
  · obtain ⟨a, b, h1, h2, h3, h4⟩ := insertSorted_split S z acc
    refine ⟨a, b, h1, h2, fun y hy => (h3 y hy).1, fun y hy => ?_⟩
    rcases h4 y hy with h | h
    · omega
    · omega
  · obtain ⟨a, b, h1, h2, h3, h4⟩ := insertBySchema_split z acc
    exact ⟨a, b, h1, h2, h3, fun y hy => Nat.le_of_lt (h4 y hy)⟩

theorem sidSorted_head_le (b : List DNode) (h : sidSorted b = true) (y0 : DNode) (h0 : b.head? = some y0) :
    ∀ y ∈ b, y0.sid ≤ y.sid := by
  cases b with
  | nil => simp at h0
  | cons x xs =>
    simp only [List.head?_cons, Option.some.injEq] at h0
    subst h0
    simp only [sidSorted, pairwiseB_cons] at h
    intro y hy
    rcases List.mem_cons.1 hy with rfl | hy
    · exact Nat.le_refl _
    · simpa [sidLe] using h.1 y hy

theorem sidSorted_insertNode (S : Schema) (acc : List DNode) (z : DNode) (h : sidSorted acc = true) :
    sidSorted (insertNode S acc z) = true := by
  obtain ⟨a, b, h1, h2, h3, h4⟩ := insertNode_split_sid S acc z
  rw [h2]
  rw [h1, sidSorted, pairwiseB_append] at h
  rw [sidSorted, pairwiseB_append, pairwiseB_cons]
  have hb : ∀ y ∈ b, z.sid ≤ y.sid := by
    intro y hy
    cases hb0 : b.head? with
    | none => cases b <;> simp_all
    | some y0 =>
      have := sidSorted_head_le b h.2.1 y0 hb0 y hy
      have := h4 y0 hb0
      omega
  refine ⟨h.1, ⟨fun y hy => by simpa [sidLe] using hb y hy, h.2.1⟩, ?_⟩
  intro x hx y hy
  rcases List.mem_cons.1 hy with rfl | hy
  · simpa [sidLe] using h3 x hx
  · exact h.2.2 x hx y hy

theorem sidSorted_step (S : Schema) (x : DNode) (cur cur' : List DNode) (hs : StepShape S x cur cur')
    (h : sidSorted cur = true) : sidSorted cur' = true := by
  cases hs with
  | same e => rw [e]; exact h
  | set i t t' hg e1 e2 e =>
    rw [e]
    exact pairwiseB_set sidLe cur i t t' hg (fun y hy => by simp only [sidLe, e1, e2] at *; exact hy)
      (fun y hy => by simp only [sidLe, e1, e2] at *; exact hy) h
  | ins z hz e => rw [e]; exact sidSorted_insertNode S cur z h

theorem allSid_step (S : Schema) (P : Nat → Bool) (x : DNode) (cur cur' : List DNode) (hs : StepShape S x cur cur')
    (h : ∀ c ∈ cur, P c.sid = true) (hx : P x.sid = true) : ∀ c ∈ cur', P c.sid = true := by
  cases hs with
  | same e => rw [e]; exact h
  | set i t t' hg e1 e2 e =>
    rw [e]
    intro c hc
    rcases List.mem_or_eq_of_mem_set hc with hc | rfl
    · exact h c hc
    · rw [e2]; exact hx
  | ins z hz e =>
    rw [e]
    obtain ⟨a, b, h1, h2⟩ := insertNode_shape S cur z
    rw [h2]
    intro c hc
    rw [h1] at h
    rcases List.mem_append.1 hc with hc | hc
    · exact h c (List.mem_append_left _ hc)
    · rcases List.mem_cons.1 hc with rfl | hc
      · rw [hz]; exact hx
      · exact h c (List.mem_append_right _ hc)

theorem level_mergeKids (S : Schema) (o : MergeOpts) (ctx : List Ctx) (P : Nat → Bool) :
    ∀ (l : List DNode) (ld : Bool) (st : St), sidSorted st.cur = true → (∀ c ∈ st.cur, P c.sid = true) →
      (∀ c ∈ procList S ld l, P c.sid = true) →
      sidSorted (mergeKids S o ctx ld l st).cur = true ∧ ∀ c ∈ (mergeKids S o ctx ld l st).cur, P c.sid = true
  | [], _, _, h1, h2, _ => by simp [mergeKids, h1]; exact h2
  | c :: cs, ld, st, h1, h2, h3 => by
    simp only [mergeKids]
    split
    · rename_i hc
      simp only [Bool.and_eq_true] at hc
      rw [hc.1, procList_skip S c cs hc.2] at h3
      exact level_mergeKids S o ctx P cs true st h1 h2 h3
    · rename_i hc
      have hc' : (ld && S.isKey c.sid) = false := by simpa using hc
      rw [procList_take S ld c cs hc'] at h3
      have hs := mergeNode_shape S o ctx c st
      exact level_mergeKids S o ctx P cs false _ (sidSorted_step S c _ _ hs h1)
        (allSid_step S P c _ _ hs h2 (h3 c (by simp))) (fun y hy => h3 y (by simp [hy]))

end LyModel.Merge
