import LyModel.Merge.Wf
/-!
# Basic lemmas for the C14 theorems: node-wise relabelling, flag consistency, `eqContent` as an equivalence,
  shape of `insertNode` (the new node is put somewhere, nothing else moves), `firstIdx`.
-/
namespace LyModel.Merge
open LyModel LyModel.Tree

instance : LawfulBEq SKind where
  eq_of_beq := by intro a b; cases a <;> cases b <;> decide
  rfl := by intro a; cases a <;> decide

/-! ## DNode accessors -/

@[simp] theorem sid_setFlags (f : Flags) (n : DNode) : (n.setFlags f).sid = n.sid := by cases n <;> rfl
@[simp] theorem sid_setVal (v : Bytes) (n : DNode) : (n.setVal v).sid = n.sid := by cases n <;> rfl
@[simp] theorem sid_setKids (k : List DNode) (n : DNode) : (n.setKids k).sid = n.sid := by cases n <;> rfl
@[simp] theorem sid_setDflt (b : Bool) (n : DNode) : (n.setDflt b).sid = n.sid := by simp [DNode.setDflt]
@[simp] theorem kids_setFlags (f : Flags) (n : DNode) : (n.setFlags f).kids = n.kids := by cases n <;> rfl
@[simp] theorem kids_setDflt (b : Bool) (n : DNode) : (n.setDflt b).kids = n.kids := by simp [DNode.setDflt]
@[simp] theorem val_setFlags (f : Flags) (n : DNode) : (n.setFlags f).val = n.val := by cases n <;> rfl
@[simp] theorem val_setDflt (b : Bool) (n : DNode) : (n.setDflt b).val = n.val := by simp [DNode.setDflt]
@[simp] theorem isTerm_setFlags (f : Flags) (n : DNode) : (n.setFlags f).isTerm = n.isTerm := by cases n <;> rfl
@[simp] theorem isTerm_setDflt (b : Bool) (n : DNode) : (n.setDflt b).isTerm = n.isTerm := by simp [DNode.setDflt]
@[simp] theorem isTerm_setVal (v : Bytes) (n : DNode) : (n.setVal v).isTerm = n.isTerm := by cases n <;> rfl
@[simp] theorem isTerm_setKids (k : List DNode) (n : DNode) : (n.setKids k).isTerm = n.isTerm := by cases n <;> rfl
@[simp] theorem kids_setVal (v : Bytes) (n : DNode) : (n.setVal v).kids = n.kids := by cases n <;> rfl
@[simp] theorem flags_setFlags (f : Flags) (n : DNode) : (n.setFlags f).flags = f := by cases n <;> rfl
@[simp] theorem flags_setVal (v : Bytes) (n : DNode) : (n.setVal v).flags = n.flags := by cases n <;> rfl
@[simp] theorem flags_setKids (k : List DNode) (n : DNode) : (n.setKids k).flags = n.flags := by cases n <;> rfl
@[simp] theorem metas_setFlags (f : Flags) (n : DNode) : (n.setFlags f).metas = n.metas := by cases n <;> rfl
@[simp] theorem metas_setKids (k : List DNode) (n : DNode) : (n.setKids k).metas = n.metas := by cases n <;> rfl
@[simp] theorem metas_setDflt (b : Bool) (n : DNode) : (n.setDflt b).metas = n.metas := by simp [DNode.setDflt]

theorem kids_setKids_of_inner (n : DNode) (k : List DNode) (b : Bool) (h : n.isTerm = false) :
    ((n.setKids k).setDflt b).kids = k := by
  cases n with
  | term => simp [DNode.isTerm] at h
  | inner => simp [DNode.setKids, DNode.setDflt, DNode.setFlags, DNode.kids]

theorem setFlags_self (n : DNode) : n.setFlags n.flags = n := by cases n <;> rfl
theorem setDflt_self (n : DNode) : n.setDflt n.flags.dflt = n := by cases n <;> rfl
theorem setKids_self (n : DNode) : n.setKids n.kids = n := by cases n <;> rfl

/-! ## the executable structural equality of the base -/

theorem Flags.beq_refl (f : Flags) : (f == f) = true := by
  cases f with
  | mk a b c => cases a <;> cases b <;> cases c <;> decide

mutual
theorem DNode.beq_refl : ∀ n : DNode, n.beq n = true
  | .term .. => by simp [DNode.beq, Flags.beq_refl]
  | .inner _ _ _ ks => by simp [DNode.beq, beqL_refl ks, Flags.beq_refl]
theorem beqL_refl : ∀ l : List DNode, beqL l l = true
  | [] => by simp [beqL]
  | n :: ns => by simp [beqL, DNode.beq_refl n, beqL_refl ns]
end

theorem ne_of_beqL_false {a b : List DNode} (h : beqL a b = false) : a ≠ b := by
  intro e
  rw [e, beqL_refl] at h
  exact absurd h (by simp)

/-! ## node-wise relabelling of flags and metadata -/

mutual
def relabel (ff : Flags → Flags) (fm : List Meta → List Meta) : DNode → DNode
  | .term s f m v => .term s (ff f) (fm m) v
  | .inner s f m ks => .inner s (ff f) (fm m) (relabelL ff fm ks)
def relabelL (ff : Flags → Flags) (fm : List Meta → List Meta) : List DNode → List DNode
  | [] => []
  | n :: ns => relabel ff fm n :: relabelL ff fm ns
end

mutual
theorem relabel_id : ∀ n : DNode, relabel id id n = n
  | .term .. => by simp [relabel]
  | .inner _ _ _ ks => by simp [relabel, relabelL_id ks]
theorem relabelL_id : ∀ l : List DNode, relabelL id id l = l
  | [] => by simp [relabelL]
  | n :: ns => by simp [relabelL, relabel_id n, relabelL_id ns]
end

theorem relabelL_eq_map (ff : Flags → Flags) (fm : List Meta → List Meta) :
    ∀ l : List DNode, relabelL ff fm l = l.map (relabel ff fm)
  | [] => by simp [relabelL]
  | n :: ns => by simp [relabelL, relabelL_eq_map ff fm ns]

theorem dupAll_eq_map (S : Schema) (o : DupOpts) : ∀ l : List DNode, dupAll S o l = l.map (dupNode S o)
  | [] => by simp [dupAll]
  | n :: ns => by simp [dupAll, dupAll_eq_map S o ns]

theorem setNewL_eq_map : ∀ l : List DNode, setNewL l = l.map setNew
  | [] => by simp [setNewL]
  | n :: ns => by simp [setNewL, setNewL_eq_map ns]

@[simp] theorem sid_relabel (ff fm) (n : DNode) : (relabel ff fm n).sid = n.sid := by cases n <;> simp [relabel, DNode.sid]
@[simp] theorem val_relabel (ff fm) (n : DNode) : (relabel ff fm n).val = n.val := by cases n <;> simp [relabel, DNode.val]
@[simp] theorem isTerm_relabel (ff fm) (n : DNode) : (relabel ff fm n).isTerm = n.isTerm := by
  cases n <;> simp [relabel, DNode.isTerm]
@[simp] theorem flags_relabel (ff fm) (n : DNode) : (relabel ff fm n).flags = ff n.flags := by
  cases n <;> simp [relabel, DNode.flags]
@[simp] theorem metas_relabel (ff fm) (n : DNode) : (relabel ff fm n).metas = fm n.metas := by
  cases n <;> simp [relabel, DNode.metas]
theorem kids_relabel (ff fm) (n : DNode) : (relabel ff fm n).kids = n.kids.map (relabel ff fm) := by
  cases n <;> simp [relabel, DNode.kids, relabelL_eq_map]

/-! ## default flags consistent downwards -/

theorem flagsOkL_iff : ∀ l : List DNode, flagsOkL l = true ↔ ∀ n ∈ l, flagsOk n = true
  | [] => by simp [flagsOkL]
  | n :: ns => by simp [flagsOkL, flagsOkL_iff ns]

/-! ## `eqContent` is equality of the trees stripped of flags and metadata -/

def strip (n : DNode) : DNode := relabel (fun _ => {}) (fun _ => []) n

mutual
theorem eqContent_iff : ∀ a b : DNode, eqContent a b = true ↔ strip a = strip b
  | .inner s _ _ k, .inner s' _ _ k' => by
    have ih := eqContentL_iff k k'
    simp only [eqContent, strip, relabel, Bool.and_eq_true, beq_iff_eq, DNode.inner.injEq, true_and] at *
    rw [ih]
  | .term s _ _ v, .term s' _ _ v' => by
    simp [eqContent, strip, relabel]
  | .inner .., .term .. => by simp [eqContent, strip, relabel]
  | .term .., .inner .. => by simp [eqContent, strip, relabel]
theorem eqContentL_iff : ∀ a b : List DNode, eqContentL a b = true ↔
    relabelL (fun _ => {}) (fun _ => []) a = relabelL (fun _ => {}) (fun _ => []) b
  | [], [] => by simp [eqContentL, relabelL]
  | [], _ :: _ => by simp [eqContentL, relabelL]
  | _ :: _, [] => by simp [eqContentL, relabelL]
  | a :: as, b :: bs => by
    have h1 := eqContent_iff a b
    have h2 := eqContentL_iff as bs
    simp only [eqContentL, relabelL, Bool.and_eq_true, List.cons.injEq, strip] at *
    rw [h1, h2]
end

theorem eqContent_refl (a : DNode) : eqContent a a = true := (eqContent_iff a a).2 rfl
theorem eqContent_symm {a b : DNode} (h : eqContent a b = true) : eqContent b a = true :=
  (eqContent_iff b a).2 ((eqContent_iff a b).1 h).symm
theorem eqContent_trans {a b c : DNode} (h1 : eqContent a b = true) (h2 : eqContent b c = true) :
    eqContent a c = true :=
  (eqContent_iff a c).2 (((eqContent_iff a b).1 h1).trans ((eqContent_iff b c).1 h2))

theorem eqContent_congr_left {a b : DNode} (h : strip a = strip b) (c : DNode) : eqContent a c = eqContent b c := by
  have := eqContent_iff a c
  have := eqContent_iff b c
  cases h1 : eqContent a c <;> cases h2 : eqContent b c <;> simp_all

theorem eqContent_congr_right {a b : DNode} (h : strip a = strip b) (c : DNode) : eqContent c a = eqContent c b := by
  have := eqContent_iff c a
  have := eqContent_iff c b
  cases h1 : eqContent c a <;> cases h2 : eqContent c b <;> simp_all

mutual
theorem relabel_relabel (f1 f2 : Flags → Flags) (m1 m2 : List Meta → List Meta) :
    ∀ n : DNode, relabel f1 m1 (relabel f2 m2 n) = relabel (f1 ∘ f2) (m1 ∘ m2) n
  | .term .. => by simp [relabel]
  | .inner _ _ _ ks => by simp [relabel, relabelL_relabelL f1 f2 m1 m2 ks]
theorem relabelL_relabelL (f1 f2 : Flags → Flags) (m1 m2 : List Meta → List Meta) :
    ∀ l : List DNode, relabelL f1 m1 (relabelL f2 m2 l) = relabelL (f1 ∘ f2) (m1 ∘ m2) l
  | [] => by simp [relabelL]
  | n :: ns => by simp [relabelL, relabel_relabel f1 f2 m1 m2 n, relabelL_relabelL f1 f2 m1 m2 ns]
end

theorem strip_relabel (ff fm) (n : DNode) : strip (relabel ff fm n) = strip n := by
  simp only [strip, relabel_relabel]
  rfl

end LyModel.Merge
