import LyModel.Merge.LemmasDup
/-!
# `Tree.insertNode`: shape (the new node is put somewhere, nothing else moves), the place at the end of a list in
  canonical order, invariance of the comparisons under relabelling of flags / metadata
-/
namespace LyModel.Merge
open LyModel LyModel.Tree

/-! ## shape -/

theorem insertBySchema_shape (x : DNode) : ∀ acc : List DNode, ∃ a b, acc = a ++ b ∧ insertBySchema x acc = a ++ x :: b
  | [] => ⟨[], [], by simp [insertBySchema]⟩
  | y :: ys => by
    simp only [insertBySchema]
    split
    · exact ⟨[], y :: ys, by simp⟩
    · obtain ⟨a, b, h1, h2⟩ := insertBySchema_shape x ys
      exact ⟨y :: a, b, by simp [h1], by simp [h2]⟩

theorem insertSorted_shape (S : Schema) (x : DNode) :
    ∀ acc : List DNode, ∃ a b, acc = a ++ b ∧ insertSorted S x acc = a ++ x :: b
  | [] => ⟨[], [], by simp [insertSorted]⟩
  | y :: ys => by
    simp only [insertSorted]
    split
    · exact ⟨[], y :: ys, by simp⟩
    · split
      · exact ⟨[], y :: ys, by simp⟩
      · obtain ⟨a, b, h1, h2⟩ := insertSorted_shape S x ys
        exact ⟨y :: a, b, by simp [h1], by simp [h2]⟩

theorem insertNode_shape (S : Schema) (acc : List DNode) (x : DNode) :
    ∃ a b, acc = a ++ b ∧ insertNode S acc x = a ++ x :: b := by
  simp only [insertNode]
  split
  · exact insertSorted_shape S x acc
  · exact insertBySchema_shape x acc

/-! ## at the end -/

theorem insertBySchema_append (x : DNode) :
    ∀ acc : List DNode, (∀ y ∈ acc, y.sid ≤ x.sid) → insertBySchema x acc = acc ++ [x]
  | [], _ => by simp [insertBySchema]
  | y :: ys, h => by
    have hy : ¬ x.sid < y.sid := by have := h y (by simp); omega
    simp only [insertBySchema, hy, if_false, List.cons_append, List.cons.injEq, true_and]
    exact insertBySchema_append x ys (fun z hz => h z (by simp [hz]))

theorem insertSorted_append (S : Schema) (x : DNode) :
    ∀ acc : List DNode, (∀ y ∈ acc, y.sid ≤ x.sid ∧ (y.sid = x.sid → cmpInst S x y ≠ .lt)) →
      insertSorted S x acc = acc ++ [x]
  | [], _ => by simp [insertSorted]
  | y :: ys, h => by
    have hy := h y (by simp)
    have h1 : ¬ x.sid < y.sid := by omega
    have h2 : (y.sid == x.sid && cmpInst S x y == .lt) = false := by
      cases hs : (y.sid == x.sid) with
      | false => simp
      | true =>
        have := hy.2 (by simpa using hs)
        simp [this]
    simp only [insertSorted, h2, h1, if_false, List.cons_append, List.cons.injEq, true_and, Bool.false_eq_true]
    exact insertSorted_append S x ys (fun z hz => h z (by simp [hz]))

theorem insertNode_append (S : Schema) (acc : List DNode) (x : DNode)
    (h : ∀ y ∈ acc, y.sid ≤ x.sid ∧ (y.sid = x.sid → S.isSorted x.sid = true → cmpInst S x y ≠ .lt)) :
    insertNode S acc x = acc ++ [x] := by
  simp only [insertNode]
  split
  · rename_i hc
    simp only [Bool.and_eq_true] at hc
    exact insertSorted_append S x acc (fun y hy => ⟨(h y hy).1, fun e => (h y hy).2 e hc.1⟩)
  · exact insertBySchema_append x acc (fun y hy => (h y hy).1)

/-! ## comparisons do not look at flags and metadata -/

theorem takeWhile_map_sid (p : Nat → Bool) (f : DNode → DNode) (hf : ∀ n, (f n).sid = n.sid) :
    ∀ ks : List DNode, (ks.map f).takeWhile (fun c => p c.sid) = (ks.takeWhile (fun c => p c.sid)).map f
  | [] => by simp
  | k :: ks => by
    simp only [List.map_cons, List.takeWhile_cons, hf]
    split
    · simp [takeWhile_map_sid p f hf ks]
    · simp

theorem keysOf_map (S : Schema) (f : DNode → DNode) (hf : ∀ n, (f n).sid = n.sid) (ks : List DNode) :
    keysOf S (ks.map f) = (keysOf S ks).map f :=
  takeWhile_map_sid (fun s => S.isKey s) f hf ks

theorem dropWhile_map_sid (p : Nat → Bool) (f : DNode → DNode) (hf : ∀ n, (f n).sid = n.sid) :
    ∀ ks : List DNode, (ks.map f).dropWhile (fun c => p c.sid) = (ks.dropWhile (fun c => p c.sid)).map f
  | [] => by simp
  | k :: ks => by
    simp only [List.map_cons, List.dropWhile_cons, hf]
    split
    · simp [dropWhile_map_sid p f hf ks]
    · simp

theorem noKeys_map (S : Schema) (f : DNode → DNode) (hf : ∀ n, (f n).sid = n.sid) (ks : List DNode) :
    noKeys S (ks.map f) = (noKeys S ks).map f :=
  dropWhile_map_sid (fun s => S.isKey s) f hf ks

theorem cmpKeys_map (S : Schema) (f g : DNode → DNode) (hf : ∀ n, (f n).sid = n.sid ∧ (f n).val = n.val)
    (hg : ∀ n, (g n).val = n.val) :
    ∀ as bs : List DNode, cmpKeys S (as.map f) (bs.map g) = cmpKeys S as bs
  | [], _ => by simp [cmpKeys]
  | _ :: _, [] => by simp [cmpKeys]
  | a :: as, b :: bs => by
    simp only [List.map_cons, cmpKeys, (hf a).1, (hf a).2, hg b, cmpKeys_map S f g hf hg as bs]

theorem keysEq_map (f g : DNode → DNode) (hf : ∀ n, (f n).sid = n.sid ∧ (f n).val = n.val)
    (hg : ∀ n, (g n).sid = n.sid ∧ (g n).val = n.val) :
    ∀ as bs : List DNode, keysEq (as.map f) (bs.map g) = keysEq as bs
  | [], [] => by simp [keysEq]
  | [], _ :: _ => by simp [keysEq]
  | _ :: _, [] => by simp [keysEq]
  | a :: as, b :: bs => by
    simp only [List.map_cons, keysEq, (hf a).1, (hf a).2, (hg b).1, (hg b).2, keysEq_map f g hf hg as bs]

theorem cmpInst_relabel (S : Schema) (f1 f2 : Flags → Flags) (m1 m2 : List Meta → List Meta) (a b : DNode) :
    cmpInst S (relabel f1 m1 a) (relabel f2 m2 b) = cmpInst S a b := by
  simp only [cmpInst, isTerm_relabel, sid_relabel, val_relabel, kids_relabel]
  rw [keysOf_map S _ (by simp), keysOf_map S _ (by simp), cmpKeys_map S _ _ (by simp) (by simp)]

theorem instMatch_relabel (S : Schema) (f1 f2 : Flags → Flags) (m1 m2 : List Meta → List Meta) (src x : DNode) :
    instMatch S (relabel f1 m1 src) (relabel f2 m2 x) = instMatch S src x := by
  simp only [instMatch, isTerm_relabel, sid_relabel, val_relabel, kids_relabel]
  rw [keysOf_map S _ (by simp), keysOf_map S _ (by simp), keysEq_map _ _ (by simp) (by simp)]
  rw [eqContent_congr_left (strip_relabel f2 m2 x), eqContent_congr_right (strip_relabel f1 m1 src)]

theorem instMatch_relabel_right (S : Schema) (f2 : Flags → Flags) (m2 : List Meta → List Meta) (src x : DNode) :
    instMatch S src (relabel f2 m2 x) = instMatch S src x := by
  have := instMatch_relabel S id f2 id m2 src x
  rwa [relabel_id] at this

theorem instMatch_relabel_left (S : Schema) (f1 : Flags → Flags) (m1 : List Meta → List Meta) (src x : DNode) :
    instMatch S (relabel f1 m1 src) x = instMatch S src x := by
  have := instMatch_relabel S f1 id m1 id src x
  rwa [relabel_id] at this

end LyModel.Merge
