import LyModel.Merge.LemmasDI10
/-!
# A target node that the source does not reach is unchanged — by positions: the induction along the chain
-/
namespace LyModel.Merge
open LyModel LyModel.Tree

theorem nthMatch_noKeys (S : Schema) (y : DNode) (m : Nat) (l : List DNode) (hy : S.isKey y.sid = false) :
    nthMatch S y m (noKeys S l) = nthMatch S y m l := by
  have hsplit : keysOf S l ++ noKeys S l = l := by simp [keysOf, noKeys, List.takeWhile_append_dropWhile]
  have hk : (keysOf S l).filter (matchP S y) = [] := by
    rw [List.filter_eq_nil_iff]
    intro w hw
    have := mem_takeWhile_p _ l w hw
    simp [matchP_nonkey_key hy this]
  have : nthMatch S y m (keysOf S l ++ noKeys S l) = nthMatch S y m (noKeys S l) := by
    simp only [nthMatch, List.filter_append, hk, List.nil_append]
  rw [← this, hsplit]

theorem descendK_procList (S : Schema) (chain : List (DNode × Nat)) (ld : Bool) (l : List DNode)
    (hk : ∀ c ∈ chain, S.isKey c.1.sid = false) : descendK S chain (procList S ld l) = descendK S chain l := by
  cases ld with
  | false => simp [procList]
  | true =>
    simp only [procList, if_true]
    cases chain with
    | nil => rfl
    | cons c cs =>
      cases cs with
      | nil => simp only [descendK, nthMatch_noKeys S c.1 c.2 l (hk c (by simp))]
      | cons c2 cs' => simp only [descendK, nthMatch_noKeys S c.1 c.2 l (hk c (by simp))]

theorem rank_zero_of_can (S : Schema) (a : List DNode) (y : DNode) (b : List DNode)
    (hp : pairwiseB (okPair S) (a ++ y :: b) = true) (hd : S.isDupInst y.sid = false) :
    a.countP (matchP S y) = 0 := by
  rw [pairwiseB_append] at hp
  rw [List.countP_eq_zero]
  intro w hw
  have := hp.2.2 w hw y (by simp)
  simp [(okPair_not_match this hd).1]

theorem nthMatch_mem {S : Schema} {y : DNode} {m : Nat} {l : List DNode} {x0 : DNode} (h : nthMatch S y m l = some x0) :
    x0 ∈ l ∧ matchP S y x0 = true := by
  simp only [nthMatch] at h
  have := List.mem_of_getElem? h
  rw [List.mem_filter] at this
  exact this

/-- **keep, by positions**: a chain of target nodes (with their positions) that the source does not contain ends, in the
merged level, at the same node -/
theorem keepK_chain (S : Schema) (o : MergeOpts) : ∀ (chain : List (DNode × Nat)) (p : Option Nat) (l : List DNode)
    (ctx : List Ctx) (ld : Bool) (st : St) (y : DNode) (k : Nat), Can S p st.cur → st.cache = [] →
    (∀ x ∈ l, SrcC S p x) → pairwiseB (okPair S) l = true → IsChainT S chain st.cur →
    (∀ c ∈ chain, S.isKey c.1.sid = false) → chain.getLast? = some (y, k) →
    descendK S chain (procList S ld l) = none → descendK S chain (mergeKids S o ctx ld l st).cur = some y
  | [], _, _, _, _, _, _, _, _, _, _, _, hc, _, _, _ => by simp [IsChainT] at hc
  | [c], p, l, ctx, ld, st, y, k, hcan, hcache, hs, hp, hc, _, hl, hn => by
    simp only [List.getLast?_singleton, Option.some.injEq] at hl
    obtain ⟨a, b, e, hk⟩ := hc
    have hmem : c.1 ∈ st.cur := by rw [e]; simp
    have hly : lvlOk S c.1 = true := (lvlOkL_iff S _).1 hcan.lvlOkL c.1 hmem
    have ha : AbsK (matchP S c.1) c.2 st.cur (fun t => t = c.1) := by rw [e, hk]; exact absK_self S a c.1 b
    have hinv : CacheInv1 S st.cache [] st.cur := by rw [hcache]; exact cacheInv1_nil S _
    have hrun := keepK_run S o p c.1 c.2 hly l ctx ld st [] c.2 ha hinv hcan hs hp (fun _ => by simp [rkc_nil])
      (fun hd => by
        have := rank_zero_of_can S a c.1 b (by rw [← e]; exact hcan.2.1) hd
        omega)
    simp only [descendK] at hn
    rw [hn] at hrun
    obtain ⟨t, h1, _, h3⟩ := nthMatch_of_absK S c.1 c.2 _ _ hrun
    simp only [descendK, h1, h3]
    rw [hl]
  | c :: c2 :: cs, p, l, ctx, ld, st, y, k, hcan, hcache, hs, hp, hc, hkeys, hl, hn => by
    obtain ⟨⟨a, b, e, hk⟩, hrest⟩ := hc
    have hmem : c.1 ∈ st.cur := by rw [e]; simp
    have hly : lvlOk S c.1 = true := (lvlOkL_iff S _).1 hcan.lvlOkL c.1 hmem
    have ha : AbsK (matchP S c.1) c.2 st.cur (fun t => t = c.1) := by rw [e, hk]; exact absK_self S a c.1 b
    have hinv : CacheInv1 S st.cache [] st.cur := by rw [hcache]; exact cacheInv1_nil S _
    have hrun := keepK_run S o p c.1 c.2 hly l ctx ld st [] c.2 ha hinv hcan hs hp (fun _ => by simp [rkc_nil])
      (fun hd => by
        have := rank_zero_of_can S a c.1 b (by rw [← e]; exact hcan.2.1) hd
        omega)
    have hl' : (c2 :: cs).getLast? = some (y, k) := by
      rw [List.getLast?_cons_cons] at hl; exact hl
    have hkeys' : ∀ c' ∈ c2 :: cs, S.isKey c'.1.sid = false := fun c' hc' => hkeys c' (by simp [hc'])
    simp only [descendK] at hn
    cases hx : nthMatch S c.1 c.2 (procList S ld l) with
    | none =>
      rw [hx] at hrun
      obtain ⟨t, h1, _, h3⟩ := nthMatch_of_absK S c.1 c.2 _ _ hrun
      simp only [descendK, h1, h3]
      exact descendK_self S (c2 :: cs) c.1.kids y k hrest hl'
    | some x0 =>
      rw [hx] at hrun hn
      simp only at hn
      obtain ⟨t, h1, _, h3⟩ := nthMatch_of_absK S c.1 c.2 _ _ hrun
      simp only [descendK, h1]
      obtain ⟨hx0mem, hx0m⟩ := nthMatch_mem hx
      have hx0 : SrcC S p x0 := hs x0 (procList_subset S ld l x0 hx0mem)
      have hlx0 : lvlOk S x0 = true := lvlOk_of_wf S p x0 hx0.1 hx0.2.1
      have hsid : x0.sid = c.1.sid := matchP_sid hx0m
      -- `c.1` has children (the chain goes on below it), so it is an inner node, and so is `x0`
      cases hc1 : c.1 with
      | term ss sf sm sv =>
        rw [hc1] at hrest
        exfalso
        cases cs with
        | nil =>
          obtain ⟨a', b', e', _⟩ := hrest
          simp [DNode.kids] at e'
        | cons c3 cs' =>
          obtain ⟨⟨a', b', e', _⟩, _⟩ := hrest
          simp [DNode.kids] at e'
      | inner ts tf tm tk =>
        have hx0t : x0.isTerm = false := by
          rw [sameShape hlx0 hly hsid, hc1]; rfl
        cases x0 with
        | term => simp [DNode.isTerm] at hx0t
        | inner xs xf xm xk =>
          rw [hc1] at h3 hrest hsid hmem
          obtain ⟨ctx', anc', hkids⟩ := h3
          have e' : xs = ts := hsid
          subst e'
          have hck : Can S (some xs) tk := can_kids hcan hmem
          have hord := hx0.2.1
          simp only [ordNode, Bool.and_eq_true] at hord
          rw [hkids]
          exact keepK_chain S o (c2 :: cs) (some xs) xk ctx' true { cur := tk, cache := [], anc := anc' } y k hck rfl
            hx0.kids hord.1 hrest hkeys' hl' (by rw [descendK_procList S _ true xk hkeys']; exact hn)
termination_by chain => chain.length

end LyModel.Merge
