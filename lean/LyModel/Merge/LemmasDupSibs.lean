import LyModel.Merge.LemmasEmpty2
/-!
# `lyd_dup_siblings` of siblings in canonical order duplicates them one by one, in order — whatever insert order
  `lyd_dup` picks (`LYD_DUP_NO_LYDS`, the `first_llist` shortcut)
-/
namespace LyModel.Merge
open LyModel LyModel.Tree

theorem dupKeys_eq_map (S : Schema) (o : DupOpts) : ∀ l : List DNode, dupKeys S o l = (keysOf S l).map (dupNode S o)
  | [] => by simp [dupKeys, keysOf]
  | a :: as => by
    simp only [dupKeys, keysOf, List.takeWhile_cons]
    split
    · simp only [List.map_cons, List.cons.injEq, true_and]; exact dupKeys_eq_map S o as
    · simp

theorem takeWhile_takeWhile (p : DNode → Bool) : ∀ l : List DNode, (l.takeWhile p).takeWhile p = l.takeWhile p
  | [] => by simp
  | a :: as => by
    simp only [List.takeWhile_cons]
    split
    · rename_i h; simp [List.takeWhile_cons, h, takeWhile_takeWhile p as]
    · simp

/-- the leading keys of a duplicate are the duplicates of the leading keys -/
theorem keysOf_kids_dupNode (S : Schema) (o : DupOpts) (n : DNode) :
    keysOf S (dupNode S o n).kids = (keysOf S n.kids).map (dupNode S o) := by
  cases n with
  | term => simp [dupNode, DNode.kids, keysOf]
  | inner s f m ks =>
    simp only [dupNode, DNode.kids]
    split
    · rw [dupAll_eq_map, keysOf_map S _ (sid_dupNode S o)]
    · rw [dupKeys_eq_map, keysOf_map S _ (sid_dupNode S o)]
      simp only [keysOf, takeWhile_takeWhile]

theorem cmpInst_dupNode (S : Schema) (o : DupOpts) (a b : DNode) :
    cmpInst S (dupNode S o a) (dupNode S o b) = cmpInst S a b := by
  simp only [cmpInst, isTerm_dupNode, sid_dupNode, val_dupNode, keysOf_kids_dupNode]
  rw [cmpKeys_map S _ _ (fun n => ⟨sid_dupNode S o n, val_dupNode S o n⟩) (val_dupNode S o)]

theorem dupSibsLoop_canonical (S : Schema) (o : DupOpts) : ∀ (rest pre : List DNode) (fl : Option Nat),
    (∀ x ∈ rest, ∀ y ∈ pre, okPair S y x = true) → pairwiseB (okPair S) rest = true →
    (∀ x ∈ rest, S.isKey x.sid = false) →
    dupSibsLoop S o false rest (pre.map (dupNode S o)) fl = (pre ++ rest).map (dupNode S o)
  | [], pre, _, _, _, _ => by simp [dupSibsLoop]
  | n :: ns, pre, fl, hpre, hp, hk => by
    rw [pairwiseB_cons] at hp
    have hnk : S.isKey n.sid = false := hk n (by simp)
    have happ : ∀ ord, insertWith S ord (pre.map (dupNode S o)) (dupNode S o n) = (pre ++ [n]).map (dupNode S o) := by
      intro ord
      have hle : ∀ y' ∈ pre.map (dupNode S o), y'.sid ≤ (dupNode S o n).sid := by
        intro y' hy'
        obtain ⟨y, hy, rfl⟩ := List.mem_map.1 hy'
        simpa using okPair_le (hpre n (by simp) y hy)
      cases ord with
      | last => simp [insertWith]
      | bySchema => simp [insertWith, insertBySchema_append _ _ hle]
      | dflt =>
        simp only [insertWith, List.map_append, List.map_cons, List.map_nil]
        apply insertNode_append
        intro y' hy'
        refine ⟨hle y' hy', fun e hs => ?_⟩
        obtain ⟨y, hy, rfl⟩ := List.mem_map.1 hy'
        rw [cmpInst_dupNode]
        exact okPair_sorted (hpre n (by simp) y hy) (by simpa using e) (by simpa using hs)
    simp only [dupSibsLoop, hnk, Bool.false_eq_true, if_false]
    rw [happ]
    have hrec : ∀ fl', dupSibsLoop S o false ns ((pre ++ [n]).map (dupNode S o)) fl' =
        ((pre ++ [n]) ++ ns).map (dupNode S o) := fun fl' =>
      dupSibsLoop_canonical S o ns (pre ++ [n]) fl'
        (by
          intro x hx y hy
          rcases List.mem_append.1 hy with hy | hy
          · exact hpre x (by simp [hx]) y hy
          · simp only [List.mem_singleton] at hy; subst hy; exact hp.1 x hx)
        hp.2 (fun x hx => hk x (by simp [hx]))
    rw [hrec]
    simp

end LyModel.Merge
